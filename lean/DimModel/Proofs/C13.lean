/-
C13 - proof support: lemmas about the Dataset heap model (`DimModel.DS`).
-/
import DimModel.Lib.Dataset
namespace DimModel
namespace DS

/-! ### side conditions used in the C13 statements -/

/-- the dataset's axis names are pairwise distinct -/
def NamesNodup (s : State) : Prop := (s.axes.map (·.name)).Nodup

/-- side condition of `inv_step_partial`: a `setVar` is applied to a dataset with distinct axis names
(all other operations are unconditional) -/
def SetVarOK (s : State) : Op → Prop
  | .setVar _ _ => NamesNodup s
  | _ => True

/-- `SetVarOK` holds at every step of the run -/
def RunOK (s : State) : List Op → Prop
  | [] => True
  | op :: ops => SetVarOK s op ∧ RunOK (step s op).1 ops

/-- operations that do not change an axis name -/
def Op.renameFree : Op → Bool
  | .renameAxis _ _ => false
  | .setDims _ => false
  | .renameViaVar _ _ _ => false
  | _ => true

/-! ### generic list lemmas -/

theorem nodup_map_inj {α β} {f : α → β} : ∀ {l : List α}, (l.map f).Nodup → ∀ {a b}, a ∈ l → b ∈ l → f a = f b → a = b
  | [], _, _, _, ha, _, _ => by cases ha
  | x :: l, h, a, b, ha, hb, hab => by
    rw [List.map_cons, List.nodup_cons] at h
    rcases List.mem_cons.1 ha with rfl | ha'
    · rcases List.mem_cons.1 hb with rfl | hb'
      · rfl
      · exact absurd (hab ▸ List.mem_map.2 ⟨b, hb', rfl⟩) h.1
    · rcases List.mem_cons.1 hb with rfl | hb'
      · exact absurd (hab ▸ List.mem_map.2 ⟨a, ha', rfl⟩) h.1
      · exact nodup_map_inj h.2 ha' hb' hab

theorem find?_eq_some_of_nodup {α β} [BEq β] [LawfulBEq β] {f : α → β} {l : List α} (h : (l.map f).Nodup)
    {a : α} (ha : a ∈ l) : l.find? (fun x => f x == f a) = some a := by
  cases hf : l.find? (fun x => f x == f a) with
  | none =>
    have := List.find?_eq_none.1 hf a ha
    simp at this
  | some b =>
    have hb := List.mem_of_find?_eq_some hf
    have hp := List.find?_some hf
    have : f b = f a := by simpa using hp
    rw [nodup_map_inj h hb ha this]

theorem map_modify_eq {α β} (g : α → β) (f : α → α) (hf : ∀ a, g (f a) = g a) :
    ∀ (l : List α) (p : Nat), (l.modify p f).map g = l.map g
  | [], _ => by simp
  | a :: l, 0 => by simp [hf]
  | a :: l, p + 1 => by simp [map_modify_eq g f hf l p]

theorem map_zip_eq {α β γ} (g : α → γ) (f : α × β → α) (hf : ∀ a b, g (f (a, b)) = g a) :
    ∀ (l : List α) (ns : List β), ns.length = l.length → ((l.zip ns).map f).map g = l.map g
  | [], _, _ => by simp
  | a :: l, [], h => by simp at h
  | a :: l, n :: ns, h => by
    simp only [List.zip_cons_cons, List.map_cons, hf]
    rw [map_zip_eq g f hf l ns (by simpa using h)]

/-! ### basic facts about the model -/

theorem used_iff (s : State) (i : Nat) : used s i = true ↔ ∃ v ∈ s.vars, i ∈ v.2 := by
  simp only [used, List.any_eq_true, List.contains_iff_mem]

theorem used_congr {s t : State} (h : t.vars = s.vars) (i : Nat) : used t i = used s i := by
  simp only [used, h]

theorem axisById_of_mem {s : State} (hnd : (s.axes.map (·.id)).Nodup) {ax : AxisObj} (h : ax ∈ s.axes) :
    axisById s ax.id = some ax := by
  unfold axisById
  exact find?_eq_some_of_nodup (f := fun x : AxisObj => x.id) hnd h

theorem findAxis_of_mem {s : State} (hnd : (s.axes.map (·.name)).Nodup) {ax : AxisObj} (h : ax ∈ s.axes) :
    findAxis s ax.name = some ax := by
  unfold findAxis
  exact find?_eq_some_of_nodup (f := fun x : AxisObj => x.name) hnd h

theorem nameOf_of_mem {s : State} (hnd : (s.axes.map (·.id)).Nodup) {ax : AxisObj} (h : ax ∈ s.axes) :
    nameOf s ax.id = ax.name := by
  simp only [nameOf, axisById_of_mem hnd h, Option.map_some, Option.getD_some]

theorem find_var_unique {vars : List (String × List Nat)} (hnd : (vars.map (·.1)).Nodup) {key : String}
    {v v' : String × List Nat} (hf : vars.find? (·.1 == key) = some v) (hv' : v' ∈ vars) (hk : v'.1 = key) :
    v' = v := by
  have hv := List.mem_of_find?_eq_some hf
  have hp : v.1 = key := by simpa using List.find?_some hf
  exact nodup_map_inj hnd hv' hv (hk.trans hp.symm)

theorem axisIndex_lt {s : State} {d : DimKey} {p : Nat} (h : axisIndex s d = .ok p) : p < s.axes.length := by
  unfold axisIndex at h
  split at h
  · simp only at h
    split at h
    · rename_i hlt
      cases h
      simpa using hlt
    · cases h
  · rename_i i
    simp only at h
    by_cases hc : ((if i < 0 then i + (s.axes.length : Int) else i) < 0 || (if i < 0 then i + (s.axes.length : Int) else i) ≥ (s.axes.length : Int)) = true
    · rw [if_pos hc] at h; cases h
    · rw [if_neg hc] at h
      cases h
      simp only [Bool.or_eq_true, decide_eq_true_eq, not_or, Int.not_lt] at hc
      omega

/-- `Inv` only looks at the `(id, direct)` pairs of the axes, the variables and the counter -/
theorem inv_of_shape {s t : State} (h : Inv s)
    (hax : t.axes.map (fun a => (a.id, a.direct)) = s.axes.map (fun a => (a.id, a.direct)))
    (hv : t.vars = s.vars) (hn : t.next = s.next) : Inv t := by
  obtain ⟨h1, h2, h3, h4, h5⟩ := h
  have hid : t.axes.map (·.id) = s.axes.map (·.id) := by
    have := congrArg (List.map Prod.fst) hax
    simpa [List.map_map, Function.comp_def] using this
  have hfwd : ∀ ax ∈ t.axes, ∃ ax' ∈ s.axes, ax'.id = ax.id ∧ ax'.direct = ax.direct := by
    intro ax hmem
    have : (ax.id, ax.direct) ∈ s.axes.map (fun a => (a.id, a.direct)) := by
      rw [← hax]; exact List.mem_map.2 ⟨ax, hmem, rfl⟩
    obtain ⟨ax', hm', he⟩ := List.mem_map.1 this
    simp only [Prod.mk.injEq] at he
    exact ⟨ax', hm', he.1, he.2⟩
  refine ⟨?_, ?_, ?_, ?_, ?_⟩
  · intro v hvm i hi
    rw [hv] at hvm
    obtain ⟨ax, hm, he⟩ := h1 v hvm i hi
    have : i ∈ t.axes.map (·.id) := by rw [hid]; exact List.mem_map.2 ⟨ax, hm, he⟩
    obtain ⟨ax', hm', he'⟩ := List.mem_map.1 this
    exact ⟨ax', hm', he'⟩
  · rw [hid]; exact h2
  · intro ax hm
    obtain ⟨ax', hm', hi, hd⟩ := hfwd ax hm
    rw [used_congr hv, ← hi, ← hd]
    exact h3 ax' hm'
  · intro ax hm
    obtain ⟨ax', hm', hi, _⟩ := hfwd ax hm
    rw [hn, ← hi]; exact h4 ax' hm'
  · rw [hv]; exact h5

/-! ### `maybeDelete` -/

/-- `maybeDelete` re-establishes conjunct (3) when the only axes violating it are among the listed ones -/
theorem inv_maybeDelete (s : State) (ids : List Nat)
    (h1 : ∀ v ∈ s.vars, ∀ i ∈ v.2, ∃ ax ∈ s.axes, ax.id = i)
    (h2 : (s.axes.map (·.id)).Nodup)
    (h3 : ∀ ax ∈ s.axes, ax.direct = true ∨ used s ax.id = true ∨ ax.id ∈ ids)
    (h4 : ∀ ax ∈ s.axes, ax.id < s.next)
    (h5 : (s.vars.map (·.1)).Nodup) : Inv (maybeDelete s ids) := by
  refine ⟨?_, ?_, ?_, ?_, ?_⟩
  · intro v hv i hi
    obtain ⟨ax, hm, he⟩ := h1 v hv i hi
    refine ⟨ax, ?_, he⟩
    have hu : used s ax.id = true := (used_iff s ax.id).2 ⟨v, hv, he ▸ hi⟩
    simp only [maybeDelete, List.mem_filter]
    exact ⟨hm, by simp [hu]⟩
  · exact ((List.filter_sublist).map _).nodup h2
  · intro ax hm
    simp only [maybeDelete, List.mem_filter] at hm
    obtain ⟨hm, hc⟩ := hm
    have hu : used (maybeDelete s ids) ax.id = used s ax.id := rfl
    rw [hu]
    rcases h3 ax hm with hd | hu | hi
    · exact Or.inl hd
    · exact Or.inr hu
    · right
      have : ids.contains ax.id = true := List.contains_iff_mem.2 hi
      rw [this] at hc
      simpa using hc
  · intro ax hm
    simp only [maybeDelete, List.mem_filter] at hm
    exact h4 ax hm.1
  · exact h5

/-- the state reached by `del ds[key]` -/
theorem inv_delVar (s : State) (key : String) (v : String × List Nat) (h : Inv s)
    (hf : s.vars.find? (·.1 == key) = some v) :
    Inv (maybeDelete { s with vars := s.vars.filter (·.1 != key) } v.2) := by
  obtain ⟨h1, h2, h3, h4, h5⟩ := h
  apply inv_maybeDelete
  · intro w hw i hi
    exact h1 w (List.mem_filter.1 hw).1 i hi
  · exact h2
  · intro ax hm
    rcases h3 ax hm with hd | hu
    · exact Or.inl hd
    · right
      obtain ⟨w, hw, hi⟩ := (used_iff s ax.id).1 hu
      by_cases hk : w.1 = key
      · right
        rw [← find_var_unique h5 hf hw hk]; exact hi
      · left
        refine (used_iff _ _).2 ⟨w, ?_, hi⟩
        exact List.mem_filter.2 ⟨hw, by simpa using hk⟩
  · exact h4
  · exact ((List.filter_sublist).map _).nodup h5

/-- moving a variable to a key that is not taken -/
theorem inv_rekey (s : State) (old new : String) (v : String × List Nat) (h : Inv s)
    (hv : v ∈ s.vars) (hv1 : v.1 = old) (hnew : ∀ w ∈ s.vars, w.1 ≠ new) :
    Inv { s with vars := s.vars.filter (·.1 != old) ++ [(new, v.2)] } := by
  obtain ⟨h1, h2, h3, h4, h5⟩ := h
  refine ⟨?_, h2, ?_, h4, ?_⟩
  · intro w hw i hi
    rcases List.mem_append.1 hw with hw | hw
    · exact h1 w (List.mem_filter.1 hw).1 i hi
    · simp only [List.mem_singleton] at hw
      subst hw
      exact h1 v hv i hi
  · intro ax hm
    rcases h3 ax hm with hd | hu
    · exact Or.inl hd
    · right
      obtain ⟨w, hw, hi⟩ := (used_iff s ax.id).1 hu
      by_cases hk : w.1 = old
      · have : w = v := nodup_map_inj h5 hw hv (hk.trans hv1.symm)
        subst this
        exact (used_iff _ _).2 ⟨(new, w.2), List.mem_append.2 (Or.inr (List.mem_singleton.2 rfl)), hi⟩
      · refine (used_iff _ _).2 ⟨w, ?_, hi⟩
        exact List.mem_append.2 (Or.inl (List.mem_filter.2 ⟨hw, by simpa using hk⟩))
  · show (List.map (·.1) (s.vars.filter (·.1 != old) ++ [(new, v.2)])).Nodup
    rw [List.map_append, List.nodup_append]
    refine ⟨((List.filter_sublist).map _).nodup h5, by simp, ?_⟩
    intro a ha b hb
    simp only [List.map_cons, List.map_nil, List.mem_singleton] at hb
    subst hb
    obtain ⟨w, hw, rfl⟩ := List.mem_map.1 ha
    exact hnew w (List.mem_filter.1 hw).1

/-! ### `replaceAxis` -/

theorem inv_replace_split (s : State) (A B : List AxisObj) (old : AxisObj) (hax : s.axes = A ++ old :: B)
    (ls : List Label) (lk : Kind) (h : Inv s) (t : State)
    (hta : t.axes = A ++ { id := s.next, name := old.name, labels := ls, kind := lk, direct := old.direct } :: B)
    (htn : t.next = s.next + 1)
    (htv : t.vars = s.vars.map (fun v => (v.1, v.2.map (fun i => if i == old.id then s.next else i)))) :
    Inv t := by
  obtain ⟨h1, h2, h3, h4, h5⟩ := h
  rw [hax] at h1 h2 h3 h4
  have hold : old.id < s.next := h4 old (by simp)
  rw [List.map_append, List.map_cons, List.nodup_append, List.nodup_cons] at h2
  obtain ⟨hAnd, ⟨holdB, hBnd⟩, hcross⟩ := h2
  have hA : ∀ a ∈ A, a.id ≠ old.id := fun a ha =>
    hcross a.id (List.mem_map.2 ⟨a, ha, rfl⟩) old.id (List.mem_cons_self)
  have hB : ∀ b ∈ B, b.id ≠ old.id := fun b hb he =>
    holdB (he ▸ List.mem_map.2 ⟨b, hb, rfl⟩)
  refine ⟨?_, ?_, ?_, ?_, ?_⟩
  · intro v' hv' i hi
    rw [htv] at hv'
    rw [hta]
    obtain ⟨v, hv, rfl⟩ := List.mem_map.1 hv'
    obtain ⟨j, hj, rfl⟩ := List.mem_map.1 hi
    obtain ⟨ax, hm, he⟩ := h1 v hv j hj
    by_cases hjo : j = old.id
    · refine ⟨_, List.mem_append.2 (Or.inr List.mem_cons_self), ?_⟩
      simp [hjo]
    · refine ⟨ax, ?_, ?_⟩
      · rcases List.mem_append.1 hm with hm | hm
        · exact List.mem_append.2 (Or.inl hm)
        · rcases List.mem_cons.1 hm with rfl | hm
          · exact absurd he.symm hjo
          · exact List.mem_append.2 (Or.inr (List.mem_cons_of_mem _ hm))
      · simp [hjo, he]
  · rw [hta, List.map_append, List.map_cons, List.nodup_append, List.nodup_cons]
    refine ⟨hAnd, ⟨?_, hBnd⟩, ?_⟩
    · intro hm
      obtain ⟨b, hb, he⟩ := List.mem_map.1 hm
      have := h4 b (List.mem_append.2 (Or.inr (List.mem_cons_of_mem _ hb)))
      simp only at he
      omega
    · intro a ha b hb
      rcases List.mem_cons.1 hb with rfl | hb
      · obtain ⟨a', ha', rfl⟩ := List.mem_map.1 ha
        have := h4 a' (List.mem_append.2 (Or.inl ha'))
        simp only
        omega
      · exact hcross a ha b (List.mem_cons_of_mem _ hb)
  · have key : ∀ ax, (ax ∈ A ∨ ax ∈ B) → ax ∈ A ++ old :: B := by
      intro ax h
      rcases h with h | h
      · exact List.mem_append.2 (Or.inl h)
      · exact List.mem_append.2 (Or.inr (List.mem_cons_of_mem _ h))
    have keep : ∀ ax, (ax ∈ A ∨ ax ∈ B) → ax.id ≠ old.id := by
      intro ax h
      rcases h with h | h
      · exact hA ax h
      · exact hB ax h
    have other : ∀ ax, (ax ∈ A ∨ ax ∈ B) → ax.direct = true ∨ used t ax.id = true := by
      intro ax hab
      rcases h3 ax (key ax hab) with hd | hu
      · exact Or.inl hd
      · right
        obtain ⟨v, hv, hi⟩ := (used_iff s ax.id).1 hu
        rw [used_iff, htv]
        refine ⟨_, List.mem_map.2 ⟨v, hv, rfl⟩, ?_⟩
        refine List.mem_map.2 ⟨ax.id, hi, ?_⟩
        simp [keep ax hab]
    intro ax hm
    rw [hta] at hm
    rcases List.mem_append.1 hm with hm | hm
    · exact other ax (Or.inl hm)
    · rcases List.mem_cons.1 hm with rfl | hm
      · rcases h3 old (by simp) with hd | hu
        · exact Or.inl hd
        · right
          obtain ⟨v, hv, hi⟩ := (used_iff s old.id).1 hu
          rw [used_iff, htv]
          refine ⟨_, List.mem_map.2 ⟨v, hv, rfl⟩, ?_⟩
          refine List.mem_map.2 ⟨old.id, hi, ?_⟩
          simp
      · exact other ax (Or.inr hm)
  · intro ax hm
    rw [htn]
    rw [hta] at hm
    rcases List.mem_append.1 hm with hm | hm
    · have := h4 ax (List.mem_append.2 (Or.inl hm)); omega
    · rcases List.mem_cons.1 hm with rfl | hm
      · simp
      · have := h4 ax (List.mem_append.2 (Or.inr (List.mem_cons_of_mem _ hm))); omega
  · rw [htv, List.map_map]
    exact h5

theorem inv_replaceAxis (s : State) (p : Nat) (hp : p < s.axes.length) (ls : List Label) (lk : Kind) (h : Inv s) :
    Inv { s with axes := s.axes.set p { id := s.next, name := (s.axes.getD p default).name, labels := ls, kind := lk,
                                         direct := (s.axes.getD p default).direct },
                 next := s.next + 1,
                 vars := s.vars.map (fun v => (v.1, v.2.map (fun i => if i == (s.axes.getD p default).id then s.next else i))) } := by
  have hget : s.axes.getD p default = s.axes[p] := by
    simp [List.getD_eq_getElem?_getD, hp]
  have hsplit : s.axes = s.axes.take p ++ s.axes[p] :: s.axes.drop (p + 1) := by
    rw [List.getElem_cons_drop, List.take_append_drop]
  refine inv_replace_split s _ _ _ hsplit ls lk h _ ?_ rfl ?_
  · show s.axes.set p _ = _
    rw [hget, List.set_eq_take_append_cons_drop, if_pos hp]
  · show List.map _ s.vars = _
    rw [hget]

/-! ### `setVar` -/

/-- one round of the substitution loop of `setVar` -/
def addAx (acc : State × List Nat) (x : String × List Label × Kind) : State × List Nat :=
  match findAxis acc.1 x.1 with
  | some ex => (acc.1, acc.2 ++ [ex.id])
  | none =>
    ({ acc.1 with axes := acc.1.axes ++ [{ id := acc.1.next, name := x.1, labels := x.2.1, kind := x.2.2 }],
                  next := acc.1.next + 1 }, acc.2 ++ [acc.1.next])

def clearDirect (ids : List Nat) (ax : AxisObj) : AxisObj :=
  if ids.contains ax.id then { ax with direct := false } else ax

def updVars (vars : List (String × List Nat)) (key : String) (ids : List Nat) : List (String × List Nat) :=
  if vars.any (·.1 == key) then vars.map (fun v => if v.1 == key then (key, ids) else v) else vars ++ [(key, ids)]

/-- the accepted branch of `setVar` -/
def setVarBody (s : State) (key : String) (axs : List (String × List Label × Kind)) : State :=
  let oldIds := ((s.vars.find? (·.1 == key)).map (·.2)).getD []
  let r := axs.foldl addAx (s, [])
  let s2 : State := { r.1 with vars := updVars r.1.vars key r.2, axes := r.1.axes.map (clearDirect r.2) }
  maybeDelete s2 (oldIds.filter (fun i => !(axs.map (·.1)).contains (nameOf s i)))

theorem step_setVar (s : State) (key : String) (axs : List (String × List Label × Kind)) :
    step s (.setVar key axs) =
      if (axs.map (·.1)).eraseDups.length != axs.length then (s, .error .value) else
      if axs.any (fun (n, l, _) => match findAxis s n with
          | some ex => !sameAxis ex n l
          | none => false) then (s, .error .value)
      else (setVarBody s key axs, .ok ()) := by
  rfl

/-- loop invariant of the substitution loop, relative to the state `s` it started from -/
structure FoldInv (s : State) (acc : State × List Nat) : Prop where
  vars : acc.1.vars = s.vars
  pre : ∃ extra, acc.1.axes = s.axes ++ extra ∧ ∀ ax ∈ extra, ax.id ∈ acc.2
  nodup : (acc.1.axes.map (·.id)).Nodup
  lt : ∀ ax ∈ acc.1.axes, ax.id < acc.1.next
  ids : ∀ i ∈ acc.2, ∃ ax ∈ acc.1.axes, ax.id = i
  names : (s.axes.map (·.name)).Nodup → (acc.1.axes.map (·.name)).Nodup

theorem foldInv_init {s : State} (h : Inv s) : FoldInv s (s, []) where
  vars := rfl
  pre := ⟨[], by simp, by simp⟩
  nodup := h.2.1
  lt := h.2.2.2.1
  ids := by simp
  names := id

theorem foldInv_step {s : State} {acc : State × List Nat} (h : FoldInv s acc) (x : String × List Label × Kind) :
    FoldInv s (addAx acc x) := by
  obtain ⟨hv, ⟨extra, hpre, hex⟩, hnd, hlt, hids, hnm⟩ := h
  cases hf : findAxis acc.1 x.1 with
  | some ex =>
    simp only [addAx, hf]
    refine ⟨hv, ⟨extra, hpre, ?_⟩, hnd, hlt, ?_, hnm⟩
    · intro ax hm
      exact List.mem_append.2 (Or.inl (hex ax hm))
    · intro i hi
      rcases List.mem_append.1 hi with hi | hi
      · exact hids i hi
      · simp only [List.mem_singleton] at hi
        exact ⟨ex, List.mem_of_find?_eq_some hf, hi.symm⟩
  | none =>
    simp only [addAx, hf]
    refine ⟨hv, ⟨extra ++ [{ id := acc.1.next, name := x.1, labels := x.2.1, kind := x.2.2 }], ?_, ?_⟩, ?_, ?_, ?_, ?_⟩
    · show acc.1.axes ++ _ = _
      rw [hpre, List.append_assoc]
    · intro ax hm
      rcases List.mem_append.1 hm with hm | hm
      · exact List.mem_append.2 (Or.inl (hex ax hm))
      · simp only [List.mem_singleton] at hm
        subst hm
        exact List.mem_append.2 (Or.inr (List.mem_singleton.2 rfl))
    · show (List.map (·.id) (acc.1.axes ++ _)).Nodup
      rw [List.map_append, List.nodup_append]
      refine ⟨hnd, by simp, ?_⟩
      intro a ha b hb
      simp only [List.map_cons, List.map_nil, List.mem_singleton] at hb
      obtain ⟨a', ha', rfl⟩ := List.mem_map.1 ha
      have := hlt a' ha'
      omega
    · intro ax hm
      show ax.id < acc.1.next + 1
      rcases List.mem_append.1 hm with hm | hm
      · have := hlt ax hm; omega
      · simp only [List.mem_singleton] at hm
        subst hm
        simp
    · intro i hi
      rcases List.mem_append.1 hi with hi | hi
      · obtain ⟨ax, hm, he⟩ := hids i hi
        exact ⟨ax, List.mem_append.2 (Or.inl hm), he⟩
      · simp only [List.mem_singleton] at hi
        exact ⟨_, List.mem_append.2 (Or.inr (List.mem_singleton.2 rfl)), hi.symm⟩
    · intro hs
      show (List.map (·.name) (acc.1.axes ++ _)).Nodup
      rw [List.map_append, List.nodup_append]
      refine ⟨hnm hs, by simp, ?_⟩
      intro a ha b hb
      simp only [List.map_cons, List.map_nil, List.mem_singleton] at hb
      obtain ⟨a', ha', rfl⟩ := List.mem_map.1 ha
      have := List.find?_eq_none.1 hf a' ha'
      subst hb
      simpa using this

theorem foldInv_foldl {s : State} : ∀ (axs : List (String × List Label × Kind)) (acc : State × List Nat),
    FoldInv s acc → FoldInv s (axs.foldl addAx acc)
  | [], _, h => h
  | x :: axs, _, h => foldInv_foldl axs _ (foldInv_step h x)

theorem addAx_ids_mono (acc : State × List Nat) (x : String × List Label × Kind) {i : Nat} (h : i ∈ acc.2) :
    i ∈ (addAx acc x).2 := by
  unfold addAx
  split <;> exact List.mem_append.2 (Or.inl h)

theorem foldl_ids_mono : ∀ (axs : List (String × List Label × Kind)) (acc : State × List Nat) {i : Nat},
    i ∈ acc.2 → i ∈ (axs.foldl addAx acc).2
  | [], _, _, h => h
  | x :: axs, acc, _, h => foldl_ids_mono axs _ (addAx_ids_mono acc x h)

/-- a dimension that designates an existing axis of `s` gets that axis -/
theorem foldl_found {s : State} : ∀ (axs : List (String × List Label × Kind)) (acc : State × List Nat),
    FoldInv s acc → ∀ x ∈ axs, ∀ ex, findAxis s x.1 = some ex → ex.id ∈ (axs.foldl addAx acc).2
  | [], _, _, x, hx, _, _ => by cases hx
  | y :: axs, acc, h, x, hx, ex, hf => by
    rcases List.mem_cons.1 hx with rfl | hx
    · refine foldl_ids_mono axs (addAx acc x) ?_
      obtain ⟨extra, hpre, _⟩ := h.pre
      have : findAxis acc.1 x.1 = some ex := by
        unfold findAxis at hf ⊢
        rw [hpre, List.find?_append, hf]
        rfl
      simp only [addAx, this]
      exact List.mem_append.2 (Or.inr (List.mem_singleton.2 rfl))
    · exact foldl_found axs _ (foldInv_step h y) x hx ex hf

theorem clearDirect_id (ids : List Nat) (ax : AxisObj) : (clearDirect ids ax).id = ax.id := by
  unfold clearDirect; split <;> rfl

theorem clearDirect_name (ids : List Nat) (ax : AxisObj) : (clearDirect ids ax).name = ax.name := by
  unfold clearDirect; split <;> rfl

theorem clearDirect_of_not_mem {ids : List Nat} {ax : AxisObj} (h : ax.id ∉ ids) : clearDirect ids ax = ax := by
  unfold clearDirect
  rw [if_neg]
  rwa [List.contains_iff_mem]

theorem mem_updVars_self (vars : List (String × List Nat)) (key : String) (ids : List Nat) :
    (key, ids) ∈ updVars vars key ids := by
  unfold updVars
  split
  · rename_i hany
    obtain ⟨v, hv, hk⟩ := List.any_eq_true.1 hany
    exact List.mem_map.2 ⟨v, hv, by rw [if_pos hk]⟩
  · exact List.mem_append.2 (Or.inr (List.mem_singleton.2 rfl))

theorem mem_updVars_of_ne {vars : List (String × List Nat)} {key : String} (ids : List Nat)
    {v : String × List Nat} (hv : v ∈ vars) (hk : v.1 ≠ key) : v ∈ updVars vars key ids := by
  unfold updVars
  split
  · refine List.mem_map.2 ⟨v, hv, ?_⟩
    rw [if_neg]
    simpa using hk
  · exact List.mem_append.2 (Or.inl hv)

theorem mem_updVars {vars : List (String × List Nat)} {key : String} {ids : List Nat}
    {v : String × List Nat} (h : v ∈ updVars vars key ids) : v = (key, ids) ∨ v ∈ vars := by
  unfold updVars at h
  split at h
  · obtain ⟨w, hw, rfl⟩ := List.mem_map.1 h
    split
    · exact Or.inl rfl
    · exact Or.inr hw
  · rcases List.mem_append.1 h with h | h
    · exact Or.inr h
    · exact Or.inl (List.mem_singleton.1 h)

theorem updVars_keys_nodup {vars : List (String × List Nat)} (key : String) (ids : List Nat)
    (h : (vars.map (·.1)).Nodup) : ((updVars vars key ids).map (·.1)).Nodup := by
  unfold updVars
  split
  · rw [List.map_map]
    have : ((fun x : String × List Nat => x.1) ∘ fun v => if (v.1 == key) = true then (key, ids) else v)
        = fun x => x.1 := by
      funext v
      simp only [Function.comp]
      split
      · rename_i hk
        simpa using (beq_iff_eq.1 hk).symm
      · rfl
    rw [this]; exact h
  · rename_i hany
    rw [List.map_append, List.nodup_append]
    refine ⟨h, by simp, ?_⟩
    intro a ha b hb
    simp only [List.map_cons, List.map_nil, List.mem_singleton] at hb
    subst hb
    obtain ⟨w, hw, rfl⟩ := List.mem_map.1 ha
    intro he
    exact hany (List.any_eq_true.2 ⟨w, hw, by simpa using he⟩)

/-- the accepted branch of `setVar` preserves the invariant provided the dimension names of the
assigned array designate dataset axes unambiguously -/
theorem inv_setVarBody (s : State) (key : String) (axs : List (String × List Label × Kind)) (h : Inv s)
    (hun : ∀ ax ∈ s.axes, ax.name ∈ axs.map (·.1) → findAxis s ax.name = some ax) :
    Inv (setVarBody s key axs) := by
  have hF : FoldInv s (axs.foldl addAx (s, [])) := foldInv_foldl axs _ (foldInv_init h)
  have hfound := foldl_found axs (s, []) (foldInv_init h)
  obtain ⟨h1, h2, h3, h4, h5⟩ := h
  unfold setVarBody
  generalize axs.foldl addAx (s, []) = r at hF hfound
  obtain ⟨hv, ⟨extra, hpre, hex⟩, hnd, hlt, hids, _⟩ := hF
  have hsub : ∀ ax ∈ s.axes, ax ∈ r.1.axes := fun ax hm => by
    rw [hpre]; exact List.mem_append.2 (Or.inl hm)
  have hidmap : (r.1.axes.map (clearDirect r.2)).map (·.id) = r.1.axes.map (·.id) := by
    rw [List.map_map]
    apply List.map_congr_left
    intro a _
    exact clearDirect_id _ _
  apply inv_maybeDelete
  · -- (1)
    intro v hvm i hi
    show ∃ ax ∈ r.1.axes.map (clearDirect r.2), ax.id = i
    have hvm : v ∈ updVars r.1.vars key r.2 := hvm
    have : ∃ ax ∈ r.1.axes, ax.id = i := by
      rcases mem_updVars hvm with rfl | hvm
      · exact hids i hi
      · rw [hv] at hvm
        obtain ⟨ax, hm, he⟩ := h1 v hvm i hi
        exact ⟨ax, hsub ax hm, he⟩
    obtain ⟨ax, hm, he⟩ := this
    exact ⟨clearDirect r.2 ax, List.mem_map.2 ⟨ax, hm, rfl⟩, by rw [clearDirect_id, he]⟩
  · -- (2)
    show ((r.1.axes.map (clearDirect r.2)).map (·.id)).Nodup
    rw [hidmap]; exact hnd
  · -- (3), weak form
    intro ax' hm'
    have hm' : ax' ∈ r.1.axes.map (clearDirect r.2) := hm'
    obtain ⟨ax, hm, rfl⟩ := List.mem_map.1 hm'
    rw [clearDirect_id]
    by_cases hin : ax.id ∈ r.2
    · right; left
      exact (used_iff _ _).2 ⟨(key, r.2), mem_updVars_self _ _ _, hin⟩
    · rw [clearDirect_of_not_mem hin]
      have hms : ax ∈ s.axes := by
        rw [hpre] at hm
        rcases List.mem_append.1 hm with hm | hm
        · exact hm
        · exact absurd (hex ax hm) hin
      rcases h3 ax hms with hd | hu
      · exact Or.inl hd
      · right
        obtain ⟨w, hw, hi⟩ := (used_iff s ax.id).1 hu
        by_cases hk : w.1 = key
        · right
          have hfind : s.vars.find? (·.1 == key) = some w := by
            cases hf : s.vars.find? (·.1 == key) with
            | none =>
              have := List.find?_eq_none.1 hf w hw
              simp [hk] at this
            | some w' => rw [find_var_unique h5 hf hw hk]
          rw [hfind]
          simp only [Option.map_some, Option.getD_some, List.mem_filter]
          refine ⟨hi, ?_⟩
          rw [nameOf_of_mem h2 hms]
          cases hc : (axs.map (·.1)).contains ax.name with
          | false => rfl
          | true =>
            exfalso
            have hmem : ax.name ∈ axs.map (·.1) := List.contains_iff_mem.1 hc
            obtain ⟨x, hx, hxn⟩ := List.mem_map.1 hmem
            have := hfound x hx ax (by rw [hxn]; exact hun ax hms hmem)
            exact hin this
        · left
          refine (used_iff _ _).2 ⟨w, ?_, hi⟩
          show w ∈ updVars r.1.vars key r.2
          rw [hv]
          exact mem_updVars_of_ne _ hw hk
  · -- (4)
    intro ax' hm'
    have hm' : ax' ∈ r.1.axes.map (clearDirect r.2) := hm'
    obtain ⟨ax, hm, rfl⟩ := List.mem_map.1 hm'
    rw [clearDirect_id]
    exact hlt ax hm
  · -- (5)
    show ((updVars r.1.vars key r.2).map (·.1)).Nodup
    rw [hv]
    exact updVars_keys_nodup _ _ h5

/-! ### the remaining operations -/

theorem inv_renameById (s : State) (id : Nat) (new : String) (h : Inv s) :
    Inv { s with axes := s.axes.map (fun ax => if ax.id == id then { ax with name := new } else ax) } := by
  refine inv_of_shape h ?_ rfl rfl
  show List.map _ (List.map _ s.axes) = _
  rw [List.map_map]
  apply List.map_congr_left
  intro a _
  simp only [Function.comp]
  split <;> rfl

theorem inv_appendAxis (s : State) (name : String) (ls : List Label) (lk : Kind) (h : Inv s) :
    Inv { s with axes := s.axes ++ [{ id := s.next, name := name, labels := ls, kind := lk, direct := true }],
                 next := s.next + 1 } := by
  obtain ⟨h1, h2, h3, h4, h5⟩ := h
  refine ⟨?_, ?_, ?_, ?_, h5⟩
  · intro v hv i hi
    obtain ⟨ax, hm, he⟩ := h1 v hv i hi
    exact ⟨ax, List.mem_append.2 (Or.inl hm), he⟩
  · show (List.map (·.id) (s.axes ++ _)).Nodup
    rw [List.map_append, List.nodup_append]
    refine ⟨h2, by simp, ?_⟩
    intro a ha b hb
    simp only [List.map_cons, List.map_nil, List.mem_singleton] at hb
    obtain ⟨a', ha', rfl⟩ := List.mem_map.1 ha
    have := h4 a' ha'
    omega
  · intro ax hm
    rcases List.mem_append.1 hm with hm | hm
    · exact h3 ax hm
    · simp only [List.mem_singleton] at hm
      subst hm
      exact Or.inl rfl
  · intro ax hm
    show ax.id < s.next + 1
    rcases List.mem_append.1 hm with hm | hm
    · have := h4 ax hm; omega
    · simp only [List.mem_singleton] at hm
      subst hm
      simp

theorem inv_renameKey (s : State) (old new : String) (v : String × List Nat) (h : Inv s)
    (hf : s.vars.find? (·.1 == old) = some v) (hne : old ≠ new) (s0 : State)
    (hs0 : s0 = match s.vars.find? (·.1 == new) with
        | some w => maybeDelete { s with vars := s.vars.filter (·.1 != new) } w.2
        | none => s) :
    Inv { s0 with vars := (s0.vars.filter (·.1 != old)) ++ [(new, v.2)] } := by
  have hv := List.mem_of_find?_eq_some hf
  have hv1 : v.1 = old := by simpa using List.find?_some hf
  cases hw : s.vars.find? (·.1 == new) with
  | none =>
    rw [hw] at hs0
    rw [hs0]
    apply inv_rekey s old new v h hv hv1
    intro w hwm he
    have := List.find?_eq_none.1 hw w hwm
    simp [he] at this
  | some w =>
    rw [hw] at hs0
    have hinv : Inv s0 := hs0 ▸ inv_delVar s new w h hw
    have hvars : s0.vars = s.vars.filter (·.1 != new) := by rw [hs0]; rfl
    apply inv_rekey s0 old new v hinv
    · rw [hvars]
      exact List.mem_filter.2 ⟨hv, by simpa [hv1] using hne⟩
    · exact hv1
    · intro w' hw'
      rw [hvars] at hw'
      simpa using (List.mem_filter.1 hw').2

theorem inv_modify (s : State) (p : Nat) (f : AxisObj → AxisObj)
    (hf : ∀ a, ((f a).id, (f a).direct) = (a.id, a.direct)) (h : Inv s) :
    Inv { s with axes := s.axes.modify p f } :=
  inv_of_shape h (map_modify_eq (fun a : AxisObj => (a.id, a.direct)) f hf _ _) rfl rfl

/-- an in-place mutation of the object at position `p` is what every holder of its identity sees -/
theorem axisById_modify (s : State) (p : Nat) (f : AxisObj → AxisObj) (hf : ∀ a, (f a).id = a.id)
    (hnd : (s.axes.map (·.id)).Nodup) (hp : p < s.axes.length) :
    axisById { s with axes := s.axes.modify p f } (s.axes.getD p default).id = some (f (s.axes.getD p default)) := by
  have hget : s.axes.getD p default = s.axes[p] := by
    simp [List.getD_eq_getElem?_getD, hp]
  rw [hget, ← hf s.axes[p]]
  apply axisById_of_mem
  · show ((s.axes.modify p f).map (·.id)).Nodup
    rw [map_modify_eq (fun a : AxisObj => a.id) f hf]; exact hnd
  · show f s.axes[p] ∈ s.axes.modify p f
    apply List.mem_of_getElem? (i := p)
    rw [List.getElem?_modify, List.getElem?_eq_getElem hp]
    simp

/-! ### axis names stay distinct under the operations that do not rename -/

theorem names_maybeDelete {s : State} (ids : List Nat) (h : NamesNodup s) : NamesNodup (maybeDelete s ids) :=
  ((List.filter_sublist).map _).nodup h

theorem names_modify (s : State) (p : Nat) (f : AxisObj → AxisObj) (hf : ∀ a, (f a).name = a.name)
    (h : NamesNodup s) : NamesNodup { s with axes := s.axes.modify p f } := by
  show ((s.axes.modify p f).map (·.name)).Nodup
  rw [map_modify_eq (fun a : AxisObj => a.name) f hf]; exact h

theorem names_setVarBody (s : State) (key : String) (axs : List (String × List Label × Kind)) (h : Inv s)
    (hn : NamesNodup s) : NamesNodup (setVarBody s key axs) := by
  have hF : FoldInv s (axs.foldl addAx (s, [])) := foldInv_foldl axs _ (foldInv_init h)
  unfold setVarBody
  apply names_maybeDelete
  show ((List.map (clearDirect _) _).map (·.name)).Nodup
  rw [List.map_map]
  have : ((fun x : AxisObj => x.name) ∘ clearDirect (axs.foldl addAx (s, [])).2) = fun x => x.name := by
    funext a
    exact clearDirect_name _ _
  rw [this]
  exact hF.names hn

theorem names_step (s : State) (op : Op) (h : Inv s) (hn : NamesNodup s) (hr : op.renameFree = true) :
    NamesNodup (step s op).1 := by
  cases op with
  | setVar key axs =>
    rw [step_setVar]
    split
    · exact hn
    · split
      · exact hn
      · exact names_setVarBody s key axs h hn
  | delVar key =>
    simp only [step]
    split
    · exact hn
    · exact names_maybeDelete (s := { s with vars := _ }) _ hn
  | renameAxis d new => cases hr
  | setDims names => cases hr
  | renameViaVar key d new => cases hr
  | setLabel d i l lk =>
    simp only [step]
    split
    · exact hn
    · split
      · split
        · exact hn
        · exact names_modify s _ _ (fun _ => rfl) hn
      · split
        · exact hn
        · exact names_modify s _ _ (fun _ => rfl) hn
  | setLabels d ls lk =>
    simp only [step]
    split
    · exact hn
    · split
      · exact hn
      · exact names_modify s _ _ (fun _ => rfl) hn
  | replaceAxis d ls lk =>
    simp only [step]
    split
    · exact hn
    · split
      · exact hn
      · rename_i p hp _
        have hlt := axisIndex_lt hp
        have hget : s.axes.getD p default = s.axes[p] := by
          simp [List.getD_eq_getElem?_getD, hlt]
        show ((s.axes.set p _).map (·.name)).Nodup
        rw [List.map_set, hget]
        have : (List.map (fun x => x.name) s.axes).set p s.axes[p].name = List.map (fun x => x.name) s.axes := by
          apply List.ext_getElem?
          intro i
          rw [List.getElem?_set]
          split
          · rename_i hpi
            subst hpi
            simp [hlt]
          · rfl
        rw [this]; exact hn
  | renameKey old new =>
    simp only [step]
    split
    · exact hn
    · split
      · exact hn
      · show NamesNodup (match s.vars.find? (·.1 == new) with
          | some w => maybeDelete { s with vars := s.vars.filter (·.1 != new) } w.2
          | none => s)
        split
        · exact names_maybeDelete (s := { s with vars := _ }) _ hn
        · exact hn
  | appendAxis name ls lk =>
    simp only [step]
    split
    · exact hn
    · split
      · exact hn
      · rename_i _ hany
        show ((s.axes ++ _).map (·.name)).Nodup
        rw [List.map_append, List.nodup_append]
        refine ⟨hn, by simp, ?_⟩
        intro a ha b hb
        simp only [List.map_cons, List.map_nil, List.mem_singleton] at hb
        subst hb
        obtain ⟨a', ha', rfl⟩ := List.mem_map.1 ha
        intro he
        exact hany (List.any_eq_true.2 ⟨a', ha', by simpa using he⟩)

end DS
end DimModel

/-
C04 - helper lemmas for the GENERAL end-to-end theorems on `operation`: two arrays over arbitrary dimensions
(shared, disjoint, nested, in any order).  Built on `align` (Props/C06), `reshape_expand` (Proofs/C04Reshape) and
the same-dimensions helpers (Proofs/C04).
-/
import DimModel.Proofs.C04Reshape
import DimModel.Proofs.C04
namespace DimModel
open Lib

/-! ### `get_dims` of two arrays -/

theorem getDims_fold_filter : ∀ (l : List Axis) (pre : List String), (l.map (·.name)).Nodup →
    l.foldl (fun ds ax => if ds.contains ax.name then ds else ds ++ [ax.name]) pre
      = pre ++ (l.map (·.name)).filter (fun d => !pre.contains d)
  | [], pre, _ => by simp
  | x :: xs, pre, hn => by
    simp only [List.map_cons, List.nodup_cons] at hn
    simp only [List.foldl_cons, List.map_cons, List.filter_cons]
    by_cases hc : pre.contains x.name = true
    · simp only [hc, if_true, Bool.not_true, Bool.false_eq_true, if_false]
      exact getDims_fold_filter xs pre hn.2
    · have hc' : pre.contains x.name = false := by simpa using hc
      simp only [hc', Bool.false_eq_true, if_false, Bool.not_false, if_true]
      rw [getDims_fold_filter xs (pre ++ [x.name]) hn.2]
      have : (xs.map (·.name)).filter (fun d => !(pre ++ [x.name]).contains d)
          = (xs.map (·.name)).filter (fun d => !pre.contains d) := by
        apply List.filter_congr
        intro d hd
        have hne : d ≠ x.name := fun e => hn.1 (e ▸ hd)
        simp [hne]
      rw [this]
      simp

/-- the dimensions of a pair: the first array's, then those of the second the first lacks, in the second's order -/
theorem getDims_pair (a b : List Axis) (ha : (a.map (·.name)).Nodup) (hb : (b.map (·.name)).Nodup) :
    getDims [a, b] = a.map (·.name) ++ (b.map (·.name)).filter (fun d => !(a.map (·.name)).contains d) := by
  unfold getDims
  simp only [List.foldl_cons, List.foldl_nil]
  rw [getDims_fold_fresh a [] (by simpa using ha)]
  simp only [List.nil_append]
  exact getDims_fold_filter b _ hb

/-- the dimensions of `a op b` -/
def opDims {α} (a b : DimArray α) : List String := a.dims ++ b.dims.filter (fun d => !a.dims.contains d)

theorem opDims_nodup {α} (a b : DimArray α) (ha : a.dims.Nodup) (hb : b.dims.Nodup) : (opDims a b).Nodup := by
  unfold opDims
  rw [List.nodup_append]
  refine ⟨ha, hb.sublist List.filter_sublist, ?_⟩
  intro x hx y hy hxy
  subst hxy
  have := (List.mem_filter.mp hy).2
  simp at this
  exact this hx

theorem mem_opDims {α} (a b : DimArray α) (d : String) : d ∈ opDims a b ↔ d ∈ a.dims ∨ d ∈ b.dims := by
  unfold opDims
  simp only [List.mem_append, List.mem_filter, Bool.not_eq_true', List.contains_eq_mem, decide_eq_false_iff_not]
  constructor
  · rintro (h | ⟨h, _⟩)
    · exact Or.inl h
    · exact Or.inr h
  · rintro (h | h)
    · exact Or.inl h
    · by_cases hd : d ∈ a.dims
      · exact Or.inl hd
      · exact Or.inr ⟨h, hd⟩

/-! ### the common axes by name -/

/-- labels of the common axis named `d` -/
def comLabels (C : List Axis) (d : String) : List Label :=
  (C.getD ((C.map (·.name)).idxOf d) default).labels

theorem comLabels_of_mem (C : List Axis) (hn : (C.map (·.name)).Nodup) (c : Axis) (hc : c ∈ C) :
    comLabels C c.name = c.labels := by
  have h1 := findName_unique C hn c hc
  have h2 := (findName_some C c.name (List.mem_map.mpr ⟨c, hc, rfl⟩)).2.1
  rw [h1] at h2
  unfold comLabels
  rw [← Option.some.inj h2]

theorem map_comLabels (C : List Axis) (hn : (C.map (·.name)).Nodup) :
    (C.map (·.name)).map (comLabels C) = C.map (·.labels) := by
  rw [List.map_map]
  apply List.map_congr_left
  intro c hc
  exact comLabels_of_mem C hn c hc

/-! ### the aligned operands of `a op b`, in general -/

theorem axisOf_name {α} (o : DimArray α) (d : String) (hd : d ∈ o.dims) : (axisOf o d).name = d :=
  (findName_some o.axes d hd).2.2

theorem axisOf_mem {α} (o : DimArray α) (d : String) (hd : d ∈ o.dims) : axisOf o d ∈ o.axes := by
  have hlt := (findName_some o.axes d hd).1
  unfold axisOf DimArray.dims
  rw [axes_getD_eq_getElem _ _ hlt]
  exact List.getElem_mem hlt

/-- THE ALIGNED OPERANDS: `align` succeeds on two well-formed arrays and returns two arrays over the operands' own
dimensions whose axes carry the common labels of their names, plain axes, values moved to the same labels -/
theorem align_pair_general {α : Type} (nan : α) (a b : DimArray α) (ha : AlignInput a) (hb : AlignInput b) :
    ∃ (o1 o2 : DimArray α) (commons : List Axis),
      align nan [a, b] .outer none false false = .ok [o1, o2] ∧
      getAlignedAxes [a.axes, b.axes] .outer none false false = .ok commons ∧
      commons.map (·.name) = opDims a b ∧
      o1.dims = a.dims ∧ o2.dims = b.dims ∧
      (∀ d ∈ a.dims, (axisOf o1 d).labels = comLabels commons d) ∧
      (∀ d ∈ b.dims, (axisOf o2 d).labels = comLabels commons d) ∧
      ValsInv nan a o1 ∧ ValsInv nan b o2 ∧
      (∀ ax ∈ o1.axes, ax.members = []) ∧ (∀ ax ∈ o2.axes, ax.members = []) := by
  have hin := alignInput_pair a b ha hb
  obtain ⟨outs, hal⟩ := align_succeeds nan [a, b] .outer none false hin (fun d hd => by cases hd)
  obtain ⟨hl, commons, hg, hs⟩ := align_all_spec nan [a, b] outs .outer false hin hal
  have hmem := align_members nan [a, b] outs .outer none false
    (fun x hx ax hax => ((hin x hx).2.2 ax hax).2.2.1) hal
  have hl2 : outs.length = 2 := hl
  obtain ⟨o1, o2, rfl⟩ : ∃ o1 o2, outs = [o1, o2] := by
    match outs, hl2 with
    | [o1, o2], _ => exact ⟨o1, o2, rfl⟩
  have hnames : commons.map (·.name) = opDims a b := by
    rw [alignedAxes_all_names [a, b] .outer false hin commons hg]
    exact getDims_pair a.axes b.axes ha.1 hb.1
  have hcn : (commons.map (·.name)).Nodup := hnames ▸ opDims_nodup a b ha.1 hb.1
  obtain ⟨hd1, _, hk1, hsh1, hv1⟩ := hs 0 (by simp) (by simp)
  obtain ⟨hd2, _, hk2, hsh2, hv2⟩ := hs 1 (by simp) (by simp)
  simp only [List.getElem_cons_zero, List.getElem_cons_succ] at hd1 hk1 hsh1 hv1 hd2 hk2 hsh2 hv2
  have key : ∀ (x o : DimArray α), o.dims = x.dims →
      (∀ k, k < x.axes.length → ∃ c ∈ commons, c.name = (x.axes.getD k default).name ∧
        (o.axes.getD k default).labels = c.labels) →
      ∀ d ∈ x.dims, (axisOf o d).labels = comLabels commons d := by
    intro x o hdo hk d hd
    obtain ⟨hlt, _, hname⟩ := findName_some x.axes d hd
    obtain ⟨c, hc, hcn', hcl⟩ := hk _ hlt
    unfold axisOf
    rw [hdo]
    have : (x.axes.map (·.name)).idxOf d = x.dims.idxOf d := rfl
    rw [← this, hcl, ← comLabels_of_mem commons hcn c hc, hcn', hname]
  exact ⟨o1, o2, commons, hal, hg, hnames, hd1, hd2, key a o1 hd1 hk1, key b o2 hd2 hk2,
    ⟨hsh1, hv1⟩, ⟨hsh2, hv2⟩, hmem o1 (by simp), hmem o2 (by simp)⟩

/-- no common axis carries the placeholder label -/
theorem comLabels_no_none {α : Type} (a b : DimArray α) (ha : AlignInput a) (hb : AlignInput b)
    (commons : List Axis) (hg : getAlignedAxes [a.axes, b.axes] .outer none false false = .ok commons)
    (d : String) (hd : d ∈ commons.map (·.name)) : Label.none ∉ comLabels commons d := by
  have hin := alignInput_pair a b ha hb
  obtain ⟨hcn, _, hlab⟩ := align_all_labels [a, b] .outer false hin commons hg
  obtain ⟨c, hc, rfl⟩ := List.mem_map.mp hd
  rw [comLabels_of_mem commons hcn c hc]
  intro hnone
  obtain ⟨_, hout, _⟩ := hlab c hc Label.none
  obtain ⟨x, hx, ax', hax', _, hv⟩ := (hout rfl).mp hnone
  exact ((hin x hx).2.2 ax' hax').2.1 hv

/-! ### `align_dims` of the two aligned operands -/

/-- `align_dims` of two arrays with plain axes and comma-free dimension names: both come back over the dimensions
of the pair, each with its own axes by name, a `None` singleton on the dimensions it lacks, and the same element at
every name-addressed coordinate -/
theorem alignDims_pair {α : Type} (o1 o2 : DimArray α)
    (hn1 : o1.dims.Nodup) (hn2 : o2.dims.Nodup)
    (hc1 : ∀ d ∈ o1.dims, ',' ∉ d.toList) (hc2 : ∀ d ∈ o2.dims, ',' ∉ d.toList)
    (hm1 : ∀ ax ∈ o1.axes, ax.members = []) (hm2 : ∀ ax ∈ o2.axes, ax.members = [])
    (hr1 : o1.vals.shape.length = o1.axes.length) (hr2 : o2.vals.shape.length = o2.axes.length) :
    ∃ r1 r2, alignDims [o1, o2] = .ok [r1, r2] ∧ r1.dims = opDims o1 o2 ∧ r2.dims = opDims o1 o2 ∧
      ExtBy o1 r1 ∧ ExtBy o2 r2 := by
  have hD : getDims [o1.axes, o2.axes] = opDims o1 o2 := getDims_pair o1.axes o2.axes hn1 hn2
  by_cases hd : o1.dims = o2.dims
  · refine ⟨o1, o2, alignDims_same o1 o2 hd, ?_, ?_, ExtBy.refl o1 hr1, ExtBy.refl o2 hr2⟩
    · rw [← hD]; exact (getDims_pair_same o1.axes o2.axes hn1 hd).symm
    · rw [← hD, ← hd]; exact (getDims_pair_same o1.axes o2.axes hn1 hd).symm
  · have hDn := opDims_nodup o1 o2 hn1 hn2
    have hplain : ∀ d ∈ opDims o1 o2, ',' ∉ d.toList := by
      intro d hdm
      rcases (mem_opDims o1 o2 d).mp hdm with h | h
      · exact hc1 d h
      · exact hc2 d h
    obtain ⟨r1, hr1', hd1, he1⟩ := reshape_expand o1 (opDims o1 o2) hn1 hDn
      (fun d h => (mem_opDims o1 o2 d).mpr (Or.inl h)) hplain hm1 hr1
    obtain ⟨r2, hr2', hd2, he2⟩ := reshape_expand o2 (opDims o1 o2) hn2 hDn
      (fun d h => (mem_opDims o1 o2 d).mpr (Or.inr h)) hplain hm2 hr2
    refine ⟨r1, r2, ?_, hd1, hd2, he1, he2⟩
    unfold alignDims
    have hne : ¬ (([o1, o2].map (·.dims)).eraseDups.length ≤ 1) := by
      have : (o2.dims == o1.dims) = false := by
        simpa using (fun e : o2.dims = o1.dims => hd e.symm)
      simp [List.eraseDups_cons, this]
    simp only [hne, if_false]
    have e : List.map (fun x => x.axes) [o1, o2] = [o1.axes, o2.axes] := rfl
    rw [e, hD]
    simp [List.mapM_cons, hr1', hr2', bind, Except.bind, pure, Except.pure]

/-! ### `operation` after `align` and `align_dims` -/

theorem bcastShape_map (s1 s2 s : String → Nat) : ∀ (D : List String),
    (∀ d ∈ D, (s1 d = s d ∧ (s2 d = s d ∨ s2 d = 1)) ∨ (s1 d = 1 ∧ s2 d = s d)) →
    bcastShape (D.map s1) (D.map s2) = some (D.map s)
  | [], _ => rfl
  | d :: D, h => by
    have ih := bcastShape_map s1 s2 s D (fun x hx => h x (by simp [hx]))
    simp only [List.map_cons, bcastShape, ih]
    rcases h d (by simp) with ⟨h1, h2 | h2⟩ | ⟨h1, h2⟩
    · simp [h1, h2]
    · rw [h1, h2]
      by_cases hs : s d = 1
      · simp [hs]
      · have : (s d == 1) = false := by simpa using hs
        simp [this]
    · rw [h1, h2]
      by_cases hs : s d = 1
      · simp [hs]
      · have : (1 == s d) = false := by simpa using (fun e : 1 = s d => hs e.symm)
        simp [this]

theorem exMapM_map_ok {ε β γ δ : Type} (g : γ → Except ε δ) (h1 : β → γ) (h : β → δ) : ∀ (D : List β),
    (∀ d ∈ D, g (h1 d) = .ok (h d)) → (D.map h1).mapM g = .ok (D.map h)
  | [], _ => rfl
  | d :: D, hd => by
    rw [List.map_cons, List.mapM_cons, hd d (by simp), exMapM_map_ok g h1 h D (fun x hx => hd x (by simp [hx]))]
    rfl

/-- the axis `operation` keeps for one axis of the first reshaped operand -/
def pickAxis (r2axes : List Axis) (ax : Axis) : Except Err Axis :=
  if isNoneAxis ax then
    match r2axes.find? (·.name == ax.name) with
    | some x => pure x
    | none => .error .value
  else pure ax

theorem operation_eq {α} (nan : α) (f : α → α → α) (a b : DimArray α) :
    operation nan f a b = (do
      let al ← align nan [a, b] .outer none false false
      let ad ← alignDims al
      let newaxes ← (ad.getD 0 a).axes.mapM (pickAxis (ad.getD 1 b).axes)
      let res ← zipBroadcast f (ad.getD 0 a).vals (ad.getD 1 b).vals
      if newaxes.map (·.size) != res.shape then .error .other
      else pure ({ axes := newaxes.map (fun ax => { ax with }), vals := res, vkind := a.vkind, attrs := [] },
        (ad.getD 0 a).vkind, (ad.getD 1 b).vkind)) := rfl

theorem operation_of_parts {α : Type} (nan : α) (f : α → α → α) (a b o1 o2 r1 r2 : DimArray α)
    (newaxes : List Axis) (res : NDArr α)
    (hal : align nan [a, b] .outer none false false = .ok [o1, o2])
    (had : alignDims [o1, o2] = .ok [r1, r2])
    (hna : r1.axes.mapM (pickAxis r2.axes) = .ok newaxes)
    (hz : zipBroadcast f r1.vals r2.vals = .ok res)
    (hs : newaxes.map (·.size) = res.shape) :
    operation nan f a b = .ok ({ axes := newaxes, vals := res, vkind := a.vkind, attrs := [] }, r1.vkind, r2.vkind) := by
  rw [operation_eq, hal, ex_bind_ok, had, ex_bind_ok]
  simp only [List.getD_cons_zero, List.getD_cons_succ]
  rw [hna, ex_bind_ok, hz, ex_bind_ok]
  simp only [hs, bne_self_eq_false, Bool.false_eq_true, if_false, List.map_id', pure, Except.pure]

theorem axes_eq_map_axisOf {α} (r : DimArray α) (hn : r.dims.Nodup) : r.axes = r.dims.map (axisOf r) := by
  unfold axisOf
  exact (map_getD_idxOf r.dims hn r.axes (by simp [DimArray.dims]) default).symm

theorem shape_eq_map_sizeOf {α} (r : DimArray α) (hn : r.dims.Nodup) (hr : r.vals.shape.length = r.axes.length) :
    r.vals.shape = r.dims.map (sizeOf r) := by
  unfold sizeOf
  exact (map_getD_idxOf r.dims hn r.vals.shape (by simp [DimArray.dims, hr]) 0).symm

/-- the axes and the shape of an array extended to the dimensions `D` -/
theorem extBy_axes_shape {α} (o r : DimArray α) (D : List String) (hD : D.Nodup) (hd : r.dims = D)
    (he : ExtBy o r) :
    r.axes = D.map (fun d => if d ∈ o.dims then axisOf o d else noneAx d) ∧
    r.vals.shape = D.map (fun d => if d ∈ o.dims then sizeOf o d else 1) := by
  have hn : r.dims.Nodup := hd ▸ hD
  constructor
  · rw [axes_eq_map_axisOf r hn, hd]
    apply List.map_congr_left
    intro d hdD
    by_cases hm : d ∈ o.dims
    · simp only [hm, if_true]; exact (he.old d hm).2.1
    · simp only [hm, if_false]; exact (he.new d (hd ▸ hdD) hm).1
  · rw [shape_eq_map_sizeOf r hn he.rank, hd]
    apply List.map_congr_left
    intro d hdD
    by_cases hm : d ∈ o.dims
    · simp only [hm, if_true]; exact (he.old d hm).2.2
    · simp only [hm, if_false]; exact (he.new d (hd ▸ hdD) hm).2

theorem sizeOf_eq_labels {α} (o : DimArray α) (hs : o.vals.shape = o.axes.map (·.labels.length)) (d : String)
    (hd : d ∈ o.dims) : sizeOf o d = (axisOf o d).labels.length := by
  have hlt : o.dims.idxOf d < o.axes.length := (findName_some o.axes d hd).1
  unfold sizeOf axisOf
  rw [hs, List.getD_eq_getElem?_getD, List.getElem?_map, List.getElem?_eq_getElem hlt,
    axes_getD_eq_getElem _ _ hlt]
  rfl

theorem isNoneAxis_noneAx (d : String) : isNoneAxis (noneAx d) = true := by
  simp [isNoneAxis, noneAx]

/-- the result of `a op b` in terms of the aligned (`o1`, `o2`) and reshaped (`r1`, `r2`) operands -/
def opResult {α : Type} (f : α → α → α) (a b o1 o2 r1 r2 : DimArray α) (commons : List Axis) : DimArray α :=
  { axes := (opDims a b).map (fun d => if d ∈ a.dims then axisOf o1 d else axisOf o2 d),
    vals := { shape := (opDims a b).map (fun d => (comLabels commons d).length),
              get := fun j => f (r1.vals.get (bcastIdx r1.vals.shape j)) (r2.vals.get (bcastIdx r2.vals.shape j)) },
    vkind := a.vkind, attrs := [] }

/-- `a op b` IN GENERAL, in terms of the aligned (`o1`, `o2`) and reshaped (`r1`, `r2`) operands -/
theorem operation_general_core {α : Type} (nan : α) (f : α → α → α) (a b : DimArray α)
    (ha : AlignInput a) (hb : AlignInput b)
    (hca : ∀ d ∈ a.dims, ',' ∉ d.toList) (hcb : ∀ d ∈ b.dims, ',' ∉ d.toList) :
    ∃ (o1 o2 r1 r2 : DimArray α) (commons : List Axis),
      getAlignedAxes [a.axes, b.axes] .outer none false false = .ok commons ∧
      commons.map (·.name) = opDims a b ∧
      o1.dims = a.dims ∧ o2.dims = b.dims ∧
      (∀ d ∈ a.dims, (axisOf o1 d).labels = comLabels commons d) ∧
      (∀ d ∈ b.dims, (axisOf o2 d).labels = comLabels commons d) ∧
      ValsInv nan a o1 ∧ ValsInv nan b o2 ∧
      r1.dims = opDims a b ∧ r2.dims = opDims a b ∧ ExtBy o1 r1 ∧ ExtBy o2 r2 ∧
      r1.vals.shape = (opDims a b).map (fun d => if d ∈ a.dims then (comLabels commons d).length else 1) ∧
      r2.vals.shape = (opDims a b).map (fun d => if d ∈ b.dims then (comLabels commons d).length else 1) ∧
      operation nan f a b = .ok (opResult f a b o1 o2 r1 r2 commons, r1.vkind, r2.vkind) := by
  obtain ⟨o1, o2, commons, hal, hg, hnames, hd1, hd2, hl1, hl2, hv1, hv2, hm1, hm2⟩ :=
    align_pair_general nan a b ha hb
  have hn1 : o1.dims.Nodup := hd1 ▸ ha.1
  have hn2 : o2.dims.Nodup := hd2 ▸ hb.1
  have hrk1 : o1.vals.shape.length = o1.axes.length := by rw [hv1.1]; simp
  have hrk2 : o2.vals.shape.length = o2.axes.length := by rw [hv2.1]; simp
  obtain ⟨r1, r2, had, hrd1, hrd2, he1, he2⟩ := alignDims_pair o1 o2 hn1 hn2 (hd1 ▸ hca) (hd2 ▸ hcb) hm1 hm2 hrk1 hrk2
  have hDe : opDims o1 o2 = opDims a b := by unfold opDims; rw [hd1, hd2]
  rw [hDe] at hrd1 hrd2
  have hDn := opDims_nodup a b ha.1 hb.1
  obtain ⟨hax1, hsh1⟩ := extBy_axes_shape o1 r1 _ hDn hrd1 he1
  obtain ⟨hax2, hsh2⟩ := extBy_axes_shape o2 r2 _ hDn hrd2 he2
  rw [hd1] at hax1 hsh1
  rw [hd2] at hax2 hsh2
  -- sizes by name
  have hs1 : r1.vals.shape = (opDims a b).map (fun d => if d ∈ a.dims then (comLabels commons d).length else 1) := by
    rw [hsh1]
    apply List.map_congr_left
    intro d _
    by_cases hm : d ∈ a.dims
    · simp only [hm, if_true]
      rw [sizeOf_eq_labels o1 hv1.1 d (hd1 ▸ hm), hl1 d hm]
    · simp only [hm, if_false]
  have hs2 : r2.vals.shape = (opDims a b).map (fun d => if d ∈ b.dims then (comLabels commons d).length else 1) := by
    rw [hsh2]
    apply List.map_congr_left
    intro d _
    by_cases hm : d ∈ b.dims
    · simp only [hm, if_true]
      rw [sizeOf_eq_labels o2 hv2.1 d (hd2 ▸ hm), hl2 d hm]
    · simp only [hm, if_false]
  refine ⟨o1, o2, r1, r2, commons, hg, hnames, hd1, hd2, hl1, hl2, hv1, hv2, hrd1, hrd2, he1, he2, hs1, hs2, ?_⟩
  unfold opResult
  apply operation_of_parts nan f a b o1 o2 r1 r2 _ _ hal had
  · -- the axes that are kept
    rw [hax1]
    apply exMapM_map_ok
    intro d hdD
    by_cases hm : d ∈ a.dims
    · simp only [hm, if_true]
      have hno : isNoneAxis (axisOf o1 d) = false := by
        apply isNoneAxis_false
        rw [hl1 d hm]
        exact comLabels_no_none a b ha hb commons hg d (hnames ▸ hdD)
      simp only [pickAxis, hno, Bool.false_eq_true, if_false]
      rfl
    · simp only [hm, if_false]
      have hmb : d ∈ b.dims := by
        rcases (mem_opDims a b d).mp hdD with h | h
        · exact absurd h hm
        · exact h
      have hfind : r2.axes.find? (·.name == d) = some (axisOf o2 d) := by
        have hdr : d ∈ r2.axes.map (·.name) := by
          have : r2.axes.map (·.name) = opDims a b := hrd2
          rw [this]; exact hdD
        rw [(findName_some r2.axes d hdr).2.1]
        have : r2.axes.getD ((r2.axes.map (·.name)).idxOf d) default = axisOf r2 d := rfl
        rw [this, (he2.old d (hd2 ▸ hmb)).2.1]
      simp only [pickAxis, isNoneAxis_noneAx, if_true]
      have : (noneAx d).name = d := rfl
      rw [this, hfind]
      rfl
  · -- NumPy broadcasting of the two value arrays
    unfold zipBroadcast
    have hbs : bcastShape r1.vals.shape r2.vals.shape = some ((opDims a b).map (fun d => (comLabels commons d).length)) := by
      rw [hs1, hs2]
      apply bcastShape_map
      intro d hdD
      by_cases hma : d ∈ a.dims
      · by_cases hmb : d ∈ b.dims
        · simp [hma, hmb]
        · simp [hma, hmb]
      · have hmb : d ∈ b.dims := by
          rcases (mem_opDims a b d).mp hdD with h | h
          · exact absurd h hma
          · exact h
        simp [hma, hmb]
    rw [hbs]
  · -- the sizes of the kept axes are the broadcast shape
    rw [List.map_map]
    apply List.map_congr_left
    intro d hdD
    simp only [Function.comp]
    by_cases hm : d ∈ a.dims
    · simp only [hm, if_true]
      have := hm1 _ (axisOf_mem o1 d (hd1 ▸ hm))
      simp [Axis.size, this, hl1 d hm]
    · have hmb : d ∈ b.dims := by
        rcases (mem_opDims a b d).mp hdD with h | h
        · exact absurd h hm
        · exact h
      simp only [hm, if_false]
      have := hm2 _ (axisOf_mem o2 d (hd2 ▸ hmb))
      simp [Axis.size, this, hl2 d hmb]

/-! ### the values of `a op b` -/

/-- the entries of a list indexed by the result's dimensions (`rdims`) that belong to the dimensions `adims` of one
operand, in the operand's order -/
def restrictTo {β : Type} (adims rdims : List String) (xs : List β) (z : β) : List β :=
  adims.map (fun d => xs.getD (rdims.idxOf d) z)

theorem inRange_map (s c : String → Nat) : ∀ (l : List String),
    InRange (l.map s) (l.map c) ↔ ∀ d ∈ l, c d < s d
  | [] => by simp [InRange]
  | d :: l => by simp [InRange, inRange_map s c l]

theorem inRange_map_getD (D : List String) (s : String → Nat) (j : List Nat)
    (hj : InRange (D.map s) j) : j.length = D.length ∧ ∀ d ∈ D, j.getD (D.idxOf d) 0 < s d := by
  obtain ⟨hl, hk⟩ := (inRange_iff_getD _ _).mp hj
  simp only [List.length_map] at hl hk
  refine ⟨hl, ?_⟩
  intro d hd
  have := hk _ (List.idxOf_lt_length_of_mem hd)
  rwa [getD_map_idxOf_c04 D s d hd 0] at this

theorem bcastIdx_getD (sh j : List Nat) (k : Nat) (hk : k < sh.length) (hj : k < j.length) :
    (bcastIdx sh j).getD k 0 = if sh[k] = 1 then 0 else j[k] := by
  have : k < (bcastIdx sh j).length := by simp [bcastIdx]; omega
  rw [List.getD_eq_getElem?_getD, List.getElem?_eq_getElem this]
  simp [bcastIdx]

/-- ONE OPERAND of `a op b`: the cell NumPy's broadcasting reads in the reshaped operand for the result index `j`
is the cell of the original operand at the labels found at `j` on the operand's own dimensions (`nan` when the
operand does not have one of these labels) -/
theorem operand_value {α : Type} (nan : α) (x o r' : DimArray α) (D : List String) (cl : String → List Label)
    (j : List Nat)
    (hDn : D.Nodup) (hsub : ∀ d ∈ x.dims, d ∈ D) (hd : o.dims = x.dims) (hn : x.dims.Nodup)
    (hl : ∀ d ∈ x.dims, (axisOf o d).labels = cl d) (hv : ValsInv nan x o)
    (hrd : r'.dims = D) (he : ExtBy o r')
    (hs : r'.vals.shape = D.map (fun d => if d ∈ x.dims then (cl d).length else 1))
    (hj : InRange (D.map (fun d => (cl d).length)) j) :
    r'.vals.get (bcastIdx r'.vals.shape j) =
      (alignVals x (restrictTo x.dims D (D.map cl) []) nan).get (restrictTo x.dims D j 0) := by
  obtain ⟨hjl, hjk⟩ := inRange_map_getD D _ j hj
  -- the index read in the reshaped operand, by name
  have hlen : (bcastIdx r'.vals.shape j).length = D.length := by
    simp [bcastIdx, hs, hjl]
  have h1 : r'.vals.get (bcastIdx r'.vals.shape j)
      = r'.at (fun d => (bcastIdx r'.vals.shape j).getD (D.idxOf d) 0) := by
    unfold DimArray.at
    rw [hrd, map_getD_idxOf D hDn _ hlen 0]
  rw [h1, he.at_eq]
  unfold DimArray.at
  rw [hd]
  have h2 : x.dims.map (fun d => (bcastIdx r'.vals.shape j).getD (D.idxOf d) 0) = restrictTo x.dims D j 0 := by
    unfold restrictTo
    apply List.map_congr_left
    intro d hdx
    have hdD := hsub d hdx
    have hk : D.idxOf d < D.length := List.idxOf_lt_length_of_mem hdD
    have hk1 : D.idxOf d < r'.vals.shape.length := by rw [hs]; simpa using hk
    have hk2 : D.idxOf d < j.length := hjl ▸ hk
    rw [bcastIdx_getD _ _ _ hk1 hk2]
    have e1 : r'.vals.shape[D.idxOf d] = (cl d).length := by
      have := getD_map_idxOf_c04 D (fun d => if d ∈ x.dims then (cl d).length else 1) d hdD 0
      rw [← hs, List.getD_eq_getElem?_getD, List.getElem?_eq_getElem hk1] at this
      simpa [hdx] using this
    have e2 : j[D.idxOf d] = j.getD (D.idxOf d) 0 := by
      simp [List.getD_eq_getElem?_getD, hk2]
    rw [e1, e2]
    split
    · rename_i h1'
      have := hjk d hdD
      simp only [h1'] at this
      omega
    · rfl
  rw [h2]
  -- the aligned operand holds the original values at the same labels
  have hax : o.axes.map (·.labels) = x.dims.map cl := by
    rw [axes_eq_map_axisOf o (hd ▸ hn), hd, List.map_map]
    apply List.map_congr_left
    intro d hdx
    exact hl d hdx
  have hrl : restrictTo x.dims D (D.map cl) [] = x.dims.map cl := by
    unfold restrictTo
    apply List.map_congr_left
    intro d hdx
    exact getD_map_idxOf_c04 D cl d (hsub d hdx) []
  rw [hrl, ← hax]
  apply hv.2
  rw [map_labels_length, hax, List.map_map]
  unfold restrictTo
  exact (inRange_map (fun d => (cl d).length) (fun d => j.getD (D.idxOf d) 0) x.dims).mpr
    (fun d hdx => hjk d (hsub d hdx))

/-- `a op b` IN GENERAL: success, dimensions, labels, shape and values -/
theorem operation_general_full {α : Type} (nan : α) (f : α → α → α) (a b : DimArray α)
    (ha : AlignInput a) (hb : AlignInput b)
    (hca : ∀ d ∈ a.dims, ',' ∉ d.toList) (hcb : ∀ d ∈ b.dims, ',' ∉ d.toList) :
    ∃ (r : DimArray α) (k1 k2 : Kind) (commons : List Axis),
      operation nan f a b = .ok (r, k1, k2) ∧
      getAlignedAxes [a.axes, b.axes] .outer none false false = .ok commons ∧
      commons.map (·.name) = opDims a b ∧
      r.dims = opDims a b ∧ r.attrs = [] ∧
      r.axes.map (·.labels) = commons.map (·.labels) ∧
      r.vals.shape = r.axes.map (·.labels.length) ∧
      ∀ j, InRange r.vals.shape j →
        r.vals.get j =
          f ((alignVals a (restrictTo a.dims r.dims (r.axes.map (·.labels)) []) nan).get (restrictTo a.dims r.dims j 0))
            ((alignVals b (restrictTo b.dims r.dims (r.axes.map (·.labels)) []) nan).get (restrictTo b.dims r.dims j 0)) := by
  obtain ⟨o1, o2, r1, r2, commons, hg, hnames, hd1, hd2, hl1, hl2, hv1, hv2, hrd1, hrd2, he1, he2, hs1, hs2, hop⟩ :=
    operation_general_core nan f a b ha hb hca hcb
  have hDn := opDims_nodup a b ha.1 hb.1
  have hcn : (commons.map (·.name)).Nodup := hnames ▸ hDn
  -- labels of the kept axes
  have hlab : ∀ d ∈ opDims a b, (if d ∈ a.dims then axisOf o1 d else axisOf o2 d).labels = comLabels commons d := by
    intro d hdD
    by_cases hm : d ∈ a.dims
    · simp only [hm, if_true]; exact hl1 d hm
    · have hmb : d ∈ b.dims := by
        rcases (mem_opDims a b d).mp hdD with h | h
        · exact absurd h hm
        · exact h
      simp only [hm, if_false]; exact hl2 d hmb
  have hnm : ∀ d ∈ opDims a b, (if d ∈ a.dims then axisOf o1 d else axisOf o2 d).name = d := by
    intro d hdD
    by_cases hm : d ∈ a.dims
    · simp only [hm, if_true]; exact axisOf_name o1 d (hd1 ▸ hm)
    · have hmb : d ∈ b.dims := by
        rcases (mem_opDims a b d).mp hdD with h | h
        · exact absurd h hm
        · exact h
      simp only [hm, if_false]; exact axisOf_name o2 d (hd2 ▸ hmb)
  have hRL : (opResult f a b o1 o2 r1 r2 commons).axes.map (·.labels) = (opDims a b).map (comLabels commons) := by
    unfold opResult
    rw [List.map_map]
    exact List.map_congr_left hlab
  have hRD : (opResult f a b o1 o2 r1 r2 commons).dims = opDims a b := by
    unfold opResult DimArray.dims
    rw [List.map_map]
    conv => rhs; rw [← List.map_id (opDims a b)]
    exact List.map_congr_left hnm
  have hRS : (opResult f a b o1 o2 r1 r2 commons).vals.shape
      = (opDims a b).map (fun d => (comLabels commons d).length) := rfl
  refine ⟨opResult f a b o1 o2 r1 r2 commons, _, _, commons, hop, hg, hnames, hRD, rfl, ?_, ?_, ?_⟩
  · rw [hRL, ← hnames, map_comLabels commons hcn]
  · rw [hRS, map_labels_length, hRL, List.map_map]
    rfl
  · intro j hj
    rw [hRS] at hj
    rw [hRD, hRL]
    show f (r1.vals.get (bcastIdx r1.vals.shape j)) (r2.vals.get (bcastIdx r2.vals.shape j)) = _
    rw [operand_value nan a o1 r1 (opDims a b) (comLabels commons) j hDn
        (fun d h => (mem_opDims a b d).mpr (Or.inl h)) hd1 ha.1 hl1 hv1 hrd1 he1 hs1 hj,
      operand_value nan b o2 r2 (opDims a b) (comLabels commons) j hDn
        (fun d h => (mem_opDims a b d).mpr (Or.inr h)) hd2 hb.1 hl2 hv2 hrd2 he2 hs2 hj]

/-! ### dimensions that only one operand has; disjoint dimensions -/

theorem comLabels_at {α : Type} (a b : DimArray α) (ha : AlignInput a) (hb : AlignInput b)
    (commons : List Axis) (hg : getAlignedAxes [a.axes, b.axes] .outer none false false = .ok commons)
    (d : String) (hd : d ∈ opDims a b) :
    ∃ ax, commonAxis .outer (havingAxes [a.axes, b.axes] d) = some ax ∧ comLabels commons d = ax.labels := by
  have hin := alignInput_pair a b ha hb
  have hnames : commons.map (·.name) = opDims a b := by
    rw [alignedAxes_all_names [a, b] .outer false hin commons hg]
    exact getDims_pair a.axes b.axes ha.1 hb.1
  have hDn := opDims_nodup a b ha.1 hb.1
  obtain ⟨hcl, hcs⟩ := getAlignedAxes_ok _ .outer none false commons hg
  have hAD : alignedDims [a.axes, b.axes] none = opDims a b := getDims_pair a.axes b.axes ha.1 hb.1
  have hi : (opDims a b).idxOf d < (opDims a b).length := List.idxOf_lt_length_of_mem hd
  have hi' : (opDims a b).idxOf d < (alignedDims [a.axes, b.axes] none).length := hAD ▸ hi
  have hic : (opDims a b).idxOf d < commons.length := hcl ▸ hi'
  obtain ⟨ax, hax, hcom⟩ := hcs _ hi' hic
  have hdi : (alignedDims [a.axes, b.axes] none)[(opDims a b).idxOf d]'hi' = d := by
    simp only [hAD]
    exact List.getElem_idxOf hi
  rw [hdi] at hax
  refine ⟨ax, hax, ?_⟩
  unfold comLabels
  rw [hnames, axes_getD_eq_getElem _ _ hic, hcom]
  rfl

/-- a dimension only the first operand has keeps that operand's labels, in their order -/
theorem comLabels_only_first {α : Type} (a b : DimArray α) (ha : AlignInput a) (hb : AlignInput b)
    (commons : List Axis) (hg : getAlignedAxes [a.axes, b.axes] .outer none false false = .ok commons)
    (d : String) (hda : d ∈ a.dims) (hdb : d ∉ b.dims) : comLabels commons d = (axisOf a d).labels := by
  obtain ⟨ax, hax, hl⟩ := comLabels_at a b ha hb commons hg d ((mem_opDims a b d).mpr (Or.inl hda))
  have hh : havingAxes [a.axes, b.axes] d = [axisOf a d] := by
    unfold havingAxes
    simp only [List.filterMap_cons, List.filterMap_nil, (findName_some a.axes d hda).2.1,
      (findName_none b.axes d).mpr hdb]
    rfl
  rw [hh] at hax
  simp only [commonAxis, Option.some.injEq] at hax
  rw [hl, ← hax]

/-- a dimension only the second operand has keeps that operand's labels, in their order -/
theorem comLabels_only_second {α : Type} (a b : DimArray α) (ha : AlignInput a) (hb : AlignInput b)
    (commons : List Axis) (hg : getAlignedAxes [a.axes, b.axes] .outer none false false = .ok commons)
    (d : String) (hda : d ∉ a.dims) (hdb : d ∈ b.dims) : comLabels commons d = (axisOf b d).labels := by
  obtain ⟨ax, hax, hl⟩ := comLabels_at a b ha hb commons hg d ((mem_opDims a b d).mpr (Or.inr hdb))
  have hh : havingAxes [a.axes, b.axes] d = [axisOf b d] := by
    unfold havingAxes
    simp only [List.filterMap_cons, List.filterMap_nil, (findName_some b.axes d hdb).2.1,
      (findName_none a.axes d).mpr hda]
    rfl
  rw [hh] at hax
  simp only [commonAxis, Option.some.injEq] at hax
  rw [hl, ← hax]

theorem restrictTo_self {β : Type} (D : List String) (hn : D.Nodup) (xs : List β) (hl : xs.length = D.length)
    (z : β) : restrictTo D D xs z = xs := map_getD_idxOf D hn xs hl z

theorem restrictTo_append_left {β : Type} (A B : List String) (hn : A.Nodup) (xa xb : List β)
    (hl : xa.length = A.length) (z : β) : restrictTo A (A ++ B) (xa ++ xb) z = xa := by
  unfold restrictTo
  rw [← map_getD_idxOf A hn xa hl z]
  apply List.map_congr_left
  intro d hd
  have hk : A.idxOf d < xa.length := hl ▸ List.idxOf_lt_length_of_mem hd
  rw [List.idxOf_append, if_pos hd, map_getD_idxOf A hn xa hl z]
  simp [List.getD_eq_getElem?_getD, List.getElem?_append_left hk]

theorem restrictTo_append_right {β : Type} (A B : List String) (hn : B.Nodup) (hdis : ∀ d ∈ B, d ∉ A)
    (xa xb : List β) (hla : xa.length = A.length) (hl : xb.length = B.length) (z : β) :
    restrictTo B (A ++ B) (xa ++ xb) z = xb := by
  unfold restrictTo
  rw [← map_getD_idxOf B hn xb hl z]
  apply List.map_congr_left
  intro d hd
  rw [List.idxOf_append, if_neg (hdis d hd), map_getD_idxOf B hn xb hl z]
  simp [List.getD_eq_getElem?_getD, ← hla, List.getElem?_append_right]

theorem inRange_append_c04 : ∀ (s1 i1 s2 i2 : List Nat), InRange s1 i1 → InRange s2 i2 → InRange (s1 ++ s2) (i1 ++ i2)
  | [], [], _, _, _, h => by simpa using h
  | [], _ :: _, _, _, h, _ => by simp [InRange] at h
  | _ :: _, [], _, _, h, _ => by simp [InRange] at h
  | n :: s1, k :: i1, s2, i2, h1, h2 => by
    simp only [InRange] at h1
    simp only [List.cons_append, InRange]
    exact ⟨h1.1, inRange_append_c04 s1 i1 s2 i2 h1.2 h2⟩

theorem inRange_length_c04 : ∀ (s i : List Nat), InRange s i → i.length = s.length
  | [], [], _ => rfl
  | [], _ :: _, h => by simp [InRange] at h
  | _ :: _, [], h => by simp [InRange] at h
  | n :: s, k :: i, h => by
    simp only [InRange] at h
    simp [inRange_length_c04 s i h.2]

theorem labels_eq_map_axisOf {α} (a : DimArray α) (hn : a.dims.Nodup) :
    a.dims.map (fun d => (axisOf a d).labels) = a.axes.map (·.labels) := by
  conv => rhs; rw [axes_eq_map_axisOf a hn, List.map_map]
  rfl

end DimModel

/-
Helper lemmas for C06: dedup, union1d, membership / nodup of unions and intersections.
-/
import DimModel.Lib.Axes
import DimModel.Proofs.Order
namespace DimModel

variable {β : Type} [DecidableEq β]

theorem dedup_sublist : ∀ l : List β, (dedup l).Sublist l
  | [] => List.Sublist.slnil
  | x :: xs => by
    simp only [dedup]
    exact ((List.filter_sublist).trans (dedup_sublist xs)).cons₂ x

theorem mem_dedup : ∀ (l : List β) (v : β), v ∈ dedup l ↔ v ∈ l
  | [], v => by simp [dedup]
  | x :: xs, v => by
    simp only [dedup, List.mem_cons, List.mem_filter, mem_dedup xs v]
    constructor
    · rintro (h | ⟨h, _⟩)
      · exact Or.inl h
      · exact Or.inr h
    · rintro (h | h)
      · exact Or.inl h
      · by_cases hv : v = x
        · exact Or.inl hv
        · exact Or.inr ⟨h, by simpa using hv⟩

theorem nodup_dedup : ∀ l : List β, (dedup l).Nodup
  | [] => by simp [dedup]
  | x :: xs => by
    simp only [dedup, List.nodup_cons, List.mem_filter]
    refine ⟨?_, (nodup_dedup xs).sublist List.filter_sublist⟩
    rintro ⟨_, h⟩
    simp at h

theorem mem_union1d (le : β → β → Bool) (a b : List β) (v : β) :
    v ∈ union1d le a b ↔ v ∈ a ∨ v ∈ b := by
  unfold union1d
  rw [mem_dedup, mem_sortBy, List.mem_append]

theorem nodup_union1d (le : β → β → Bool) (a b : List β) : (union1d le a b).Nodup := nodup_dedup _

theorem union1d_pairwise (le : β → β → Bool)
    (htrans : ∀ a b c, le a b = true → le b c = true → le a c = true)
    (htot : ∀ a b, (le a b || le b a) = true) (a b : List β) :
    (union1d le a b).Pairwise (fun x y => le x y = true) :=
  (sortBy_pairwise le htrans htot (a ++ b)).sublist (dedup_sublist _)

end DimModel

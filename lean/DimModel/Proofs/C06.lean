/-
Helper lemmas for C06: dedup, union1d, membership / nodup of unions and intersections.
-/
import DimModel.Lib.Axes
import DimModel.Proofs.Order
namespace DimModel

variable {β : Type} [DecidableEq β]

theorem dedup_sublist : ∀ l : List β, (dedup l).Sublist l
  | [] => List.Sublist.slnil
  | x :: xs => by
    simp only [dedup]
    exact ((List.filter_sublist).trans (dedup_sublist xs)).cons₂ x

theorem mem_dedup : ∀ (l : List β) (v : β), v ∈ dedup l ↔ v ∈ l
  | [], v => by simp [dedup]
  | x :: xs, v => by
    simp only [dedup, List.mem_cons, List.mem_filter, mem_dedup xs v]
    constructor
    · rintro (h | ⟨h, _⟩)
      · exact Or.inl h
      · exact Or.inr h
    · rintro (h | h)
      · exact Or.inl h
      · by_cases hv : v = x
        · exact Or.inl hv
        · exact Or.inr ⟨h, by simpa using hv⟩

theorem nodup_dedup : ∀ l : List β, (dedup l).Nodup
  | [] => by simp [dedup]
  | x :: xs => by
    simp only [dedup, List.nodup_cons, List.mem_filter]
    refine ⟨?_, (nodup_dedup xs).sublist List.filter_sublist⟩
    rintro ⟨_, h⟩
    simp at h

theorem mem_union1d (le : β → β → Bool) (a b : List β) (v : β) :
    v ∈ union1d le a b ↔ v ∈ a ∨ v ∈ b := by
  unfold union1d
  rw [mem_dedup, mem_sortBy, List.mem_append]

theorem nodup_union1d (le : β → β → Bool) (a b : List β) : (union1d le a b).Nodup := nodup_dedup _

theorem union1d_pairwise (le : β → β → Bool)
    (htrans : ∀ a b c, le a b = true → le b c = true → le a c = true)
    (htot : ∀ a b, (le a b || le b a) = true) (a b : List β) :
    (union1d le a b).Pairwise (fun x y => le x y = true) :=
  (sortBy_pairwise le htrans htot (a ++ b)).sublist (dedup_sublist _)

/-! ## helpers for the end-to-end `align` theorems (round 2) -/

open Lib

/-! ### `mapM` / `foldlM` in `Except` -/

theorem exMapM_cons_ok {ε β γ : Type} (f : β → Except ε γ) (a : β) (l : List β) (out : List γ)
    (h : (a :: l).mapM f = .ok out) : ∃ b bs, f a = .ok b ∧ l.mapM f = .ok bs ∧ out = b :: bs := by
  rw [List.mapM_cons] at h
  simp only [bind, Except.bind, pure, Except.pure] at h
  cases hfa : f a with
  | error e => simp [hfa] at h
  | ok b =>
    simp only [hfa] at h
    cases hl : l.mapM f with
    | error e => simp [hl] at h
    | ok bs =>
      simp only [hl, Except.ok.injEq] at h
      exact ⟨b, bs, rfl, rfl, h.symm⟩

/-- success of `mapM` is success of every step, in order -/
theorem exMapM_ok {ε β γ : Type} (f : β → Except ε γ) : ∀ (l : List β) (out : List γ),
    l.mapM f = .ok out →
    out.length = l.length ∧ ∀ i (hi : i < l.length) (ho : i < out.length), f l[i] = .ok out[i]
  | [], out, h => by
    simp only [List.mapM_nil, pure, Except.pure, Except.ok.injEq] at h
    subst h
    exact ⟨rfl, fun i hi => absurd hi (by simp)⟩
  | a :: l, out, h => by
    obtain ⟨b, bs, hb, hl, rfl⟩ := exMapM_cons_ok f a l out h
    obtain ⟨h1, h2⟩ := exMapM_ok f l bs hl
    refine ⟨by simp [h1], ?_⟩
    intro i hi ho
    cases i with
    | zero => simpa using hb
    | succ i =>
      simp only [List.getElem_cons_succ]
      exact h2 i (by simpa using hi) (by simpa using ho)

theorem exFoldlM_cons {ε β γ : Type} (f : γ → β → Except ε γ) (a : β) (l : List β) (s : γ) :
    (a :: l).foldlM f s = (f s a >>= fun s' => l.foldlM f s') := by
  simp [List.foldlM_cons]

/-- a fold of element-wise `mapM`s is, for each element, the fold of its own steps -/
theorem exFoldlM_mapM_ok {ε β γ : Type} (g : β → γ → Except ε γ) : ∀ (cs : List β) (arrs outs : List γ),
    cs.foldlM (fun arrs c => arrs.mapM (g c)) arrs = .ok outs →
    outs.length = arrs.length ∧
      ∀ i (hi : i < arrs.length) (ho : i < outs.length), cs.foldlM (fun o c => g c o) arrs[i] = .ok outs[i]
  | [], arrs, outs, h => by
    simp only [List.foldlM_nil, pure, Except.pure, Except.ok.injEq] at h
    subst h
    exact ⟨rfl, fun i hi ho => rfl⟩
  | c :: cs, arrs, outs, h => by
    rw [List.foldlM_cons] at h
    cases h1 : arrs.mapM (g c) with
    | error e => simp [h1, bind, Except.bind] at h
    | ok arrs1 =>
      simp only [h1, bind, Except.bind] at h
      obtain ⟨hl1, hs1⟩ := exMapM_ok (g c) arrs arrs1 h1
      obtain ⟨hl2, hs2⟩ := exFoldlM_mapM_ok g cs arrs1 outs h
      refine ⟨hl2.trans hl1, ?_⟩
      intro i hi ho
      rw [List.foldlM_cons]
      have := hs1 i hi (hl1 ▸ hi)
      simp only [this, bind, Except.bind]
      exact hs2 i (hl1 ▸ hi) ho

/-! ### `InRange` by coordinates -/

theorem inRange_iff_getD : ∀ (s j : List Nat),
    InRange s j ↔ j.length = s.length ∧ ∀ k, k < s.length → j.getD k 0 < s.getD k 0
  | [], [] => by simp [InRange]
  | [], _ :: _ => by simp [InRange]
  | _ :: _, [] => by simp [InRange]
  | n :: s, i :: is => by
    simp only [InRange, inRange_iff_getD s is, List.length_cons, Nat.add_right_cancel_iff]
    constructor
    · rintro ⟨h0, hl, hk⟩
      refine ⟨hl, ?_⟩
      intro k hk'
      cases k with
      | zero => simpa using h0
      | succ k => simpa using hk k (by omega)
    · rintro ⟨hl, hk⟩
      refine ⟨by simpa using hk 0 (by omega), hl, ?_⟩
      intro k hk'
      simpa using hk (k + 1) (by omega)

/-! ### finding an axis by name -/

theorem findName_none (axes : List Axis) (d : String) :
    axes.find? (·.name == d) = none ↔ d ∉ axes.map (·.name) := by
  simp only [List.find?_eq_none, List.mem_map, beq_iff_eq, not_exists, not_and]

theorem findName_some : ∀ (axes : List Axis) (d : String), d ∈ axes.map (·.name) →
    (axes.map (·.name)).idxOf d < axes.length ∧
    axes.find? (·.name == d) = some (axes.getD ((axes.map (·.name)).idxOf d) default) ∧
    (axes.getD ((axes.map (·.name)).idxOf d) default).name = d
  | [], d, h => by simp at h
  | ax :: axes, d, h => by
    by_cases hd : ax.name = d
    · simp [hd]
    · have h' : d ∈ axes.map (·.name) := by
        simp only [List.map_cons, List.mem_cons] at h
        rcases h with h | h
        · exact absurd h.symm hd
        · exact h
      obtain ⟨h1, h2, h3⟩ := findName_some axes d h'
      have hb : (ax.name == d) = false := by simpa using hd
      simp only [List.map_cons, List.idxOf_cons, hb, cond_false, List.length_cons, List.find?_cons,
        List.getD_cons_succ]
      exact ⟨by omega, h2, h3⟩

/-- with distinct names, the axis found by name is THE axis of that name -/
theorem findName_unique (axes : List Axis) (hn : (axes.map (·.name)).Nodup) (ax : Axis) (hax : ax ∈ axes) :
    axes.find? (·.name == ax.name) = some ax := by
  induction axes with
  | nil => simp at hax
  | cons x xs ih =>
    simp only [List.map_cons, List.nodup_cons] at hn
    rcases List.mem_cons.mp hax with rfl | h
    · simp
    · have hne : x.name ≠ ax.name := by
        intro he
        exact hn.1 (he ▸ List.mem_map.mpr ⟨ax, h, rfl⟩)
      have hb : (x.name == ax.name) = false := by simpa using hne
      simp only [List.find?_cons, hb]
      exact ih hn.2 h

theorem findName_mem (axes : List Axis) (d : String) (ax : Axis)
    (h : axes.find? (·.name == d) = some ax) : ax ∈ axes ∧ ax.name = d := by
  refine ⟨List.mem_of_find?_eq_some h, ?_⟩
  have := List.find?_some h
  simpa using this

/-- with distinct names, the position of a name determines it -/
theorem idxOf_name_eq (names : List String) (hn : names.Nodup) (k : Nat) (hk : k < names.length) :
    names.idxOf names[k] = k := by
  induction names generalizing k with
  | nil => simp at hk
  | cons x xs ih =>
    simp only [List.nodup_cons] at hn
    cases k with
    | zero => simp
    | succ k =>
      have hk' : k < xs.length := by simpa using hk
      have hne : x ≠ xs[k] := by
        intro he; exact hn.1 (he ▸ List.getElem_mem hk')
      have hb : (x == xs[k]) = false := by simpa using hne
      simp only [List.getElem_cons_succ, List.idxOf_cons, hb, cond_false]
      rw [ih hn.2 k hk']

/-! ### `get_dims` -/

theorem getDims_inner (axes : List Axis) : ∀ (dims : List String), dims.Nodup →
    (axes.foldl (fun ds ax => if ds.contains ax.name then ds else ds ++ [ax.name]) dims).Nodup ∧
    ∀ d, d ∈ axes.foldl (fun ds ax => if ds.contains ax.name then ds else ds ++ [ax.name]) dims ↔
      d ∈ dims ∨ ∃ ax ∈ axes, ax.name = d := by
  induction axes with
  | nil => intro dims hn; simp [hn]
  | cons x xs ih =>
    intro dims hn
    simp only [List.foldl_cons]
    by_cases hc : dims.contains x.name = true
    · simp only [hc, if_true]
      obtain ⟨h1, h2⟩ := ih dims hn
      refine ⟨h1, fun d => ?_⟩
      rw [h2 d]
      have hx : x.name ∈ dims := by simpa using hc
      constructor
      · rintro (h | ⟨ax, ha, hd⟩)
        · exact Or.inl h
        · exact Or.inr ⟨ax, by simp [ha], hd⟩
      · rintro (h | ⟨ax, ha, hd⟩)
        · exact Or.inl h
        · rcases List.mem_cons.mp ha with rfl | ha'
          · exact Or.inl (hd ▸ hx)
          · exact Or.inr ⟨ax, ha', hd⟩
    · simp only [hc, if_false, Bool.false_eq_true]
      have hx : x.name ∉ dims := by simpa using hc
      have hn' : (dims ++ [x.name]).Nodup := by
        rw [List.nodup_append]
        refine ⟨hn, by simp, ?_⟩
        intro a ha b hb hab
        simp only [List.mem_singleton] at hb
        subst hb; subst hab; exact hx ha
      obtain ⟨h1, h2⟩ := ih (dims ++ [x.name]) hn'
      refine ⟨h1, fun d => ?_⟩
      rw [h2 d]
      simp only [List.mem_append, List.mem_cons, List.not_mem_nil, or_false]
      constructor
      · rintro ((h | h) | ⟨ax, ha, hd⟩)
        · exact Or.inl h
        · exact Or.inr ⟨x, Or.inl rfl, h.symm⟩
        · exact Or.inr ⟨ax, Or.inr ha, hd⟩
      · rintro (h | ⟨ax, ha | ha, hd⟩)
        · exact Or.inl (Or.inl h)
        · subst ha; exact Or.inl (Or.inr hd.symm)
        · exact Or.inr ⟨ax, ha, hd⟩

theorem getDims_outer (arrays : List (List Axis)) : ∀ (dims : List String), dims.Nodup →
    (arrays.foldl (fun dims axes => axes.foldl (fun ds ax => if ds.contains ax.name then ds else ds ++ [ax.name]) dims) dims).Nodup ∧
    ∀ d, d ∈ arrays.foldl (fun dims axes => axes.foldl (fun ds ax => if ds.contains ax.name then ds else ds ++ [ax.name]) dims) dims ↔
      d ∈ dims ∨ ∃ axes ∈ arrays, ∃ ax ∈ axes, ax.name = d := by
  induction arrays with
  | nil => intro dims hn; simp [hn]
  | cons x xs ih =>
    intro dims hn
    simp only [List.foldl_cons]
    obtain ⟨h1, h2⟩ := getDims_inner x dims hn
    obtain ⟨h3, h4⟩ := ih _ h1
    refine ⟨h3, fun d => ?_⟩
    rw [h4 d, h2 d]
    simp only [List.mem_cons]
    constructor
    · rintro ((h | h) | ⟨axes, ha, h⟩)
      · exact Or.inl h
      · exact Or.inr ⟨x, Or.inl rfl, h⟩
      · exact Or.inr ⟨axes, Or.inr ha, h⟩
    · rintro (h | ⟨axes, ha | ha, h⟩)
      · exact Or.inl (Or.inl h)
      · subst ha; exact Or.inl (Or.inr h)
      · exact Or.inr ⟨axes, ha, h⟩

/-- the dimensions of a list of arrays: every dimension name that occurs, once -/
theorem getDims_nodup (arrays : List (List Axis)) : (getDims arrays).Nodup :=
  (getDims_outer arrays [] (by simp)).1

theorem getDims_mem (arrays : List (List Axis)) (d : String) :
    d ∈ getDims arrays ↔ ∃ axes ∈ arrays, ∃ ax ∈ axes, ax.name = d := by
  unfold getDims
  rw [(getDims_outer arrays [] (by simp)).2 d]
  simp

/-! ### `_get_aligned_axes` -/

/-- the arrays' axes named `d` (one per array that has the dimension) -/
def havingAxes (arrays : List (List Axis)) (d : String) : List Axis :=
  arrays.filterMap (fun axes => axes.find? (·.name == d))

def alignedDims (arrays : List (List Axis)) : Option String → List String
  | none => getDims arrays
  | some d => [d]

/-- success of `_get_aligned_axes` (not strict): one axis per requested dimension, each the common axis of the
axes of that name (sorted when asked) -/
theorem getAlignedAxes_ok (arrays : List (List Axis)) (join : Join) (axis : Option String) (sort : Bool)
    (commons : List Axis) (h : getAlignedAxes arrays join axis sort false = .ok commons) :
    commons.length = (alignedDims arrays axis).length ∧
    ∀ i (hi : i < (alignedDims arrays axis).length) (ho : i < commons.length),
      ∃ ax, commonAxis join (havingAxes arrays (alignedDims arrays axis)[i]) = some ax ∧
        commons[i] = if sort then axisSort ax else ax := by
  unfold getAlignedAxes at h
  obtain ⟨hl, hs⟩ := exMapM_ok _ (alignedDims arrays axis) _ h
  refine ⟨hl, ?_⟩
  intro i hi ho
  have := hs i hi ho
  simp only [Bool.false_and, Bool.false_eq_true, if_false] at this
  unfold havingAxes
  split at this
  · cases this
  · rename_i ax hax
    simp only [pure, Except.pure, Except.ok.injEq] at this
    exact ⟨ax, hax, this.symm⟩

end DimModel

/-
Helper lemmas for C16 (metadata propagation): generic monadic-fold / list facts, the `axisMeta`
view of a list of axes, and the per-function propagation facts for the simple mirror functions
(indexing, assignment, reindexing, sorting, along-axis transforms, missing values).
-/
import DimModel.Lib.Interp
import DimModel.Proofs.C10Bc
import DimModel.Proofs.C11Reshape
import DimModel.Props.C12
namespace DimModel
open Lib

/-- the metadata carried by a list of axes: the (name, attrs) pair of every axis, in order -/
def axisMeta (axes : List Axis) : List (String × Attrs) := axes.map fun ax => (ax.name, ax.attrs)

/-- "every axis of `dst` that has the name of an axis of `src` has that axis' metadata" -/
def AxisAttrsKept (src dst : List Axis) : Prop :=
  ∀ ax' ∈ dst, ∀ ax ∈ src, ax'.name = ax.name → ax'.attrs = ax.attrs

/-- every (name, attrs) pair that occurs anywhere in a list of axes: on an axis, or on a member of a
grouped axis -/
def metaAll (axes : List Axis) : List (String × Attrs) :=
  axes.flatMap fun ax => (ax.name, ax.attrs) :: ax.members.map fun m => (m.name, m.attrs)

namespace C16

/-! ### generic -/

theorem foldlM_inv {β σ : Type} (P : σ → Prop) (f : σ → β → Except Err σ) :
    ∀ (l : List β) (s r : σ), (∀ s x s', x ∈ l → P s → f s x = .ok s' → P s') → P s →
      l.foldlM f s = .ok r → P r
  | [], s, r, _, hs, h => by
    simp only [List.foldlM_nil, pure, Except.pure] at h
    cases h; exact hs
  | x :: l, s, r, hstep, hs, h => by
    rw [List.foldlM_cons] at h
    simp only [bind, Except.bind] at h
    cases hx : f s x with
    | error e => rw [hx] at h; cases h
    | ok s' =>
      rw [hx] at h
      exact foldlM_inv P f l s' r (fun s x s'' hm => hstep s x s'' (List.mem_cons_of_mem _ hm))
        (hstep s x s' List.mem_cons_self hs hx) h

theorem mapM_cons_ok {β γ : Type} (f : β → Except Err γ) (a : β) (l : List β) (out : List γ)
    (h : (a :: l).mapM f = .ok out) : ∃ b bs, f a = .ok b ∧ l.mapM f = .ok bs ∧ out = b :: bs := by
  rw [List.mapM_cons] at h
  simp only [bind, Except.bind, pure, Except.pure] at h
  cases hfa : f a with
  | error e => rw [hfa] at h; cases h
  | ok b =>
    rw [hfa] at h
    cases hl : l.mapM f with
    | error e => rw [hl] at h; cases h
    | ok bs =>
      rw [hl] at h
      cases h
      exact ⟨b, bs, rfl, rfl, rfl⟩

theorem mapM_mem {β γ : Type} (f : β → Except Err γ) :
    ∀ (l : List β) (out : List γ), l.mapM f = .ok out → ∀ o ∈ out, ∃ a ∈ l, f a = .ok o
  | [], out, h, o, ho => by
    simp only [List.mapM_nil, pure, Except.pure] at h
    cases h; cases ho
  | a :: l, out, h, o, ho => by
    obtain ⟨b, bs, hb, hbs, rfl⟩ := mapM_cons_ok f a l out h
    rcases List.mem_cons.1 ho with rfl | ho'
    · exact ⟨a, List.mem_cons_self, hb⟩
    · obtain ⟨a', ha', h'⟩ := mapM_mem f l bs hbs o ho'
      exact ⟨a', List.mem_cons_of_mem _ ha', h'⟩

/-- a pointwise relation that every successful step establishes lifts to `mapM` -/
theorem mapM_map_eq {β γ δ : Type} (f : β → Except Err γ) (g : β → δ) (g' : γ → δ) :
    ∀ (l : List β) (out : List γ), l.mapM f = .ok out → (∀ a ∈ l, ∀ b, f a = .ok b → g' b = g a) →
      out.map g' = l.map g
  | [], out, h, _ => by
    simp only [List.mapM_nil, pure, Except.pure] at h
    cases h; rfl
  | a :: l, out, h, hstep => by
    obtain ⟨b, bs, hb, hbs, rfl⟩ := mapM_cons_ok f a l out h
    rw [List.map_cons, List.map_cons, hstep a List.mem_cons_self b hb,
      mapM_map_eq f g g' l bs hbs (fun a ha => hstep a (List.mem_cons_of_mem _ ha))]

/-! ### `axisMeta` -/

theorem axisMeta_nil : axisMeta [] = [] := rfl
theorem axisMeta_cons (ax : Axis) (l : List Axis) : axisMeta (ax :: l) = (ax.name, ax.attrs) :: axisMeta l := rfl
theorem axisMeta_append (l1 l2 : List Axis) : axisMeta (l1 ++ l2) = axisMeta l1 ++ axisMeta l2 := by
  simp [axisMeta]
theorem axisMeta_length (l : List Axis) : (axisMeta l).length = l.length := by simp [axisMeta]

theorem mem_axisMeta {l : List Axis} {p : String × Attrs} :
    p ∈ axisMeta l ↔ ∃ ax ∈ l, ax.name = p.1 ∧ ax.attrs = p.2 := by
  simp only [axisMeta, List.mem_map]
  constructor
  · rintro ⟨ax, h, rfl⟩; exact ⟨ax, h, rfl, rfl⟩
  · rintro ⟨ax, h, h1, h2⟩; exact ⟨ax, h, by rw [h1, h2]⟩

theorem name_inj : ∀ {axes : List Axis}, (axes.map (·.name)).Nodup → ∀ {x y : Axis}, x ∈ axes → y ∈ axes →
    x.name = y.name → x = y
  | [], _, _, _, hx, _, _ => by cases hx
  | a :: axes, hn, x, y, hx, hy, h => by
    rw [List.map_cons, List.nodup_cons] at hn
    rcases List.mem_cons.1 hx with rfl | hx'
    · rcases List.mem_cons.1 hy with rfl | hy'
      · rfl
      · exact absurd (h ▸ List.mem_map.mpr ⟨y, hy', rfl⟩) hn.1
    · rcases List.mem_cons.1 hy with rfl | hy'
      · exact absurd (h ▸ List.mem_map.mpr ⟨x, hx', rfl⟩) hn.1
      · exact name_inj hn.2 hx' hy' h

/-- the bridge between the `axisMeta` statements and the by-name statement -/
theorem kept_of_subset {src dst : List Axis} (h : ∀ p ∈ axisMeta dst, p ∈ axisMeta src)
    (hn : (src.map (·.name)).Nodup) : AxisAttrsKept src dst := by
  intro ax' hax' ax hax hname
  obtain ⟨ax2, hax2, hn2, ha2⟩ := mem_axisMeta.mp (h (ax'.name, ax'.attrs) (mem_axisMeta.mpr ⟨ax', hax', rfl, rfl⟩))
  have : ax2 = ax := by
    have h1 : ax2.name = ax.name := hn2.trans hname
    exact name_inj hn hax2 hax h1
  subst this
  exact ha2.symm

theorem kept_of_eq {src dst : List Axis} (h : axisMeta dst = axisMeta src)
    (hn : (src.map (·.name)).Nodup) : AxisAttrsKept src dst :=
  kept_of_subset (fun p hp => h ▸ hp) hn

theorem kept_of_sublist {src dst : List Axis} (h : (axisMeta dst).Sublist (axisMeta src))
    (hn : (src.map (·.name)).Nodup) : AxisAttrsKept src dst :=
  kept_of_subset (fun _ hp => h.subset hp) hn

theorem kept_of_perm {src dst : List Axis} (h : (axisMeta dst).Perm (axisMeta src))
    (hn : (src.map (·.name)).Nodup) : AxisAttrsKept src dst :=
  kept_of_subset (fun _ hp => h.subset hp) hn

theorem axisMeta_mapIdx_same (axes : List Axis) (f : Nat → Axis → Axis)
    (hf : ∀ i ax, (f i ax).name = ax.name ∧ (f i ax).attrs = ax.attrs) :
    axisMeta (axes.mapIdx f) = axisMeta axes := by
  apply List.ext_getElem
  · simp [axisMeta]
  · intro i h1 h2
    simp only [axisMeta, List.getElem_map, List.getElem_mapIdx]
    rw [(hf _ _).1, (hf _ _).2]

theorem axisMeta_set (axes : List Axis) (pos : Nat) (ax : Axis) :
    axisMeta (axes.set pos ax) = (axisMeta axes).set pos (ax.name, ax.attrs) := by
  simp [axisMeta, List.map_set]

theorem axisMeta_set_same (axes : List Axis) (pos : Nat) (ax : Axis)
    (h : ∀ x, axes[pos]? = some x → ax.name = x.name ∧ ax.attrs = x.attrs) :
    axisMeta (axes.set pos ax) = axisMeta axes := by
  rw [axisMeta_set]
  apply List.ext_getElem?
  intro i
  by_cases hi : pos = i
  · subst hi
    by_cases hl : pos < axes.length
    · rw [List.getElem?_set_self (by simpa [axisMeta] using hl)]
      have := h _ (List.getElem?_eq_getElem hl)
      simp [axisMeta, List.getElem?_eq_getElem hl, this.1, this.2]
    · rw [List.set_eq_of_length_le (by simpa [axisMeta] using Nat.le_of_not_lt hl)]
  · rw [List.getElem?_set_ne hi]

theorem axisMeta_eraseIdx (axes : List Axis) (pos : Nat) :
    axisMeta (axes.eraseIdx pos) = (axisMeta axes).eraseIdx pos := by
  induction axes generalizing pos with
  | nil => rfl
  | cons a l ih =>
    cases pos with
    | zero => rfl
    | succ k => simp only [List.eraseIdx_cons_succ, axisMeta_cons, ih]

theorem axisMeta_insertIdx (axes : List Axis) (pos : Nat) (ax : Axis) :
    axisMeta (axes.insertIdx pos ax) = (axisMeta axes).insertIdx pos (ax.name, ax.attrs) := by
  induction axes generalizing pos with
  | nil => cases pos <;> rfl
  | cons a l ih =>
    cases pos with
    | zero => rfl
    | succ k => simp only [List.insertIdx_succ_cons, axisMeta_cons, ih]

theorem axis_getD_mem (axes : List Axis) (pos : Nat) (h : pos < axes.length) :
    axes.getD pos default = axes[pos] := by
  simp [List.getD, List.getElem?_eq_getElem h]

end C16
end DimModel

namespace DimModel
open Lib
namespace C16

theorem bind_ok {β γ : Type} {x : Except Err β} {f : β → Except Err γ} {r : γ} (h : (x >>= f) = .ok r) :
    ∃ y, x = .ok y ∧ f y = .ok r := by
  cases x with
  | error e => simp [bind, Except.bind] at h
  | ok y => exact ⟨y, rfl, h⟩

/-! ### indexing -/

theorem filterMap_meta_sublist {β : Type} (g : β → Option Axis) (proj : β → Axis)
    (hg : ∀ b ax', g b = some ax' → ax'.name = (proj b).name ∧ ax'.attrs = (proj b).attrs) :
    ∀ l : List β, (axisMeta (l.filterMap g)).Sublist (axisMeta (l.map proj))
  | [] => by simp [axisMeta]
  | b :: l => by
    have ih := filterMap_meta_sublist g proj hg l
    rw [List.filterMap_cons, List.map_cons, axisMeta_cons]
    cases hgb : g b with
    | none => exact List.Sublist.cons _ ih
    | some ax' =>
      simp only
      rw [axisMeta_cons, (hg b ax' hgb).1, (hg b ax' hgb).2]
      exact List.Sublist.cons₂ _ ih

theorem zip_fst_sublist {β γ : Type} : ∀ (l : List β) (r : List γ), ((l.zip r).map Prod.fst).Sublist l
  | [], _ => by simp
  | _ :: _, [] => by simp
  | a :: l, b :: r => by
    rw [List.zip_cons_cons, List.map_cons]
    exact List.Sublist.cons₂ _ (zip_fst_sublist l r)

theorem getAxesOrtho_meta (axes : List Axis) (raw : List RawIx) (pix : List PosIx) :
    (axisMeta (getAxesOrtho axes raw pix)).Sublist (axisMeta axes) := by
  unfold getAxesOrtho
  refine List.Sublist.trans (filterMap_meta_sublist _ (fun x => x.1.1) ?_ _) ?_
  · rintro ⟨⟨ax, r⟩, p⟩ ax' h
    cases p with
    | scalar _ => simp at h
    | list ps =>
      simp only at h
      split at h
      · cases h; exact ⟨rfl, rfl⟩
      · cases h; exact ⟨rfl, rfl⟩
  · unfold axisMeta
    apply List.Sublist.map
    have h1 := zip_fst_sublist (axes.zip raw) pix
    have h2 := zip_fst_sublist axes raw
    have : (((axes.zip raw).zip pix).map fun x => x.1.1) = (((axes.zip raw).zip pix).map Prod.fst).map Prod.fst := by
      rw [List.map_map]; rfl
    rw [this]
    exact (h1.map _).trans h2

theorem take_spec {α} (a r : DimArray α) (ui : UserIndex) (cfg : IndexCfg) (h : take a ui cfg = .ok r) :
    r.attrs = a.attrs ∧ (axisMeta r.axes).Sublist (axisMeta a.axes) := by
  unfold take at h
  obtain ⟨raw, _, h⟩ := bind_ok h
  obtain ⟨pix, _, h⟩ := bind_ok h
  cases h
  exact ⟨rfl, getAxesOrtho_meta _ _ _⟩

end C16
end DimModel

namespace DimModel
open Lib
namespace C16

/-! ### assignment -/

theorem put_spec {α} (a r : DimArray α) (ui : UserIndex) (rhs : RHS α) (rk : Kind) (cfg : IndexCfg) (cast : Bool)
    (h : put a ui rhs rk cfg cast = .ok r) : r.attrs = a.attrs ∧ r.axes = a.axes := by
  unfold put at h
  obtain ⟨raw, _, h⟩ := bind_ok h
  obtain ⟨pix, _, h⟩ := bind_ok h
  obtain ⟨vget, _, h⟩ := bind_ok h
  cases h
  exact ⟨rfl, rfl⟩

theorem putBool_spec {α} (a r : DimArray α) (mask : NDArr Bool) (v : α) (rk : Kind) (cast : Bool)
    (h : putBool a mask v rk cast = .ok r) : r.attrs = a.attrs ∧ r.axes = a.axes := by
  unfold putBool at h
  split at h
  · cases h
  · cases h; exact ⟨rfl, rfl⟩

/-! ### positional take, reindexing, sorting -/

theorem takeAxisPos_meta {α} (a : DimArray α) (pos : Nat) (ps : List Nat) :
    axisMeta (takeAxisPos a pos ps).axes = axisMeta a.axes := by
  unfold takeAxisPos
  apply axisMeta_mapIdx_same
  intro i ax
  split <;> exact ⟨rfl, rfl⟩

theorem reindexAxis_spec {α} (a r : DimArray α) (axis : DimKey) (newL : List Label) (nk : Kind) (fill : α) (fk : Kind)
    (re : Bool) (m : Option Side) (h : reindexAxis a axis newL nk fill fk re m = .ok r) :
    r.attrs = a.attrs ∧ axisMeta r.axes = axisMeta a.axes := by
  unfold reindexAxis at h
  obtain ⟨pos, hpos, h⟩ := bind_ok h
  simp only at h
  split at h
  · cases h
  · split at h
    · split at h
      · cases h
      · cases h
        refine ⟨rfl, ?_⟩
        apply List.ext_getElem
        · simp [axisMeta]
        · intro i h1 h2
          simp only [axisMeta, List.getElem_map, List.getElem_mapIdx]
          split
          · rename_i hi
            have hi : i = pos := by simpa using hi
            subst hi
            have hl : i < a.axes.length := by simpa [axisMeta] using h2
            rw [axis_getD_mem _ _ hl]
          · rfl
    · cases h
      exact ⟨rfl, takeAxisPos_meta _ _ _⟩

theorem reindexLike_spec {α} (a r : DimArray α) (tmpl : List Axis) (fill : α) (fk : Kind) (re : Bool) (m : Option Side)
    (h : reindexLike a tmpl fill fk re m = .ok r) : r.attrs = a.attrs ∧ axisMeta r.axes = axisMeta a.axes := by
  unfold reindexLike at h
  refine foldlM_inv (fun o : DimArray α => o.attrs = a.attrs ∧ axisMeta o.axes = axisMeta a.axes) _ _ _ _ ?_ ⟨rfl, rfl⟩ h
  intro s x s' _ hs hstep
  split at hstep
  · have := reindexAxis_spec _ _ _ _ _ _ _ _ _ hstep
    exact ⟨this.1.trans hs.1, this.2.trans hs.2⟩
  · cases hstep; exact hs

theorem sortAxis_spec {α} (a r : DimArray α) (axis : DimKey) (h : sortAxis a axis = .ok r) :
    r.attrs = a.attrs ∧ axisMeta r.axes = axisMeta a.axes := by
  unfold sortAxis at h
  obtain ⟨pos, _, h⟩ := bind_ok h
  cases h
  exact ⟨rfl, takeAxisPos_meta _ _ _⟩

/-! ### take_axis, compress_axis, missing values -/

theorem compressAxis_spec {α} (a r : DimArray α) (mask : List Bool) (k : DimKey) (h : compressAxis a mask k = .ok r) :
    r.attrs = a.attrs ∧ axisMeta r.axes = axisMeta a.axes := by
  unfold compressAxis at h
  obtain ⟨pos, _, h⟩ := bind_ok h
  simp only at h
  split at h
  · cases h
  · cases h
    refine ⟨rfl, axisMeta_set_same _ _ _ ?_⟩
    intro x hx
    have hl : pos < a.axes.length := (List.getElem?_eq_some_iff.mp hx).1
    rw [axis_getD_mem _ _ hl]
    have : a.axes[pos] = x := (List.getElem?_eq_some_iff.mp hx).2
    rw [this]; exact ⟨rfl, rfl⟩

theorem takeAxis_spec {α} (a r : DimArray α) (ix : List Label) (k : DimKey) (mode : Mode) (clip : Bool)
    (h : takeAxis a ix k mode clip = .ok r) : r.attrs = a.attrs ∧ axisMeta r.axes = axisMeta a.axes := by
  unfold takeAxis at h
  obtain ⟨pos, _, h⟩ := bind_ok h
  have key : ∀ ps, (if ((a.axes.getD pos default).size == 0 && !ps.isEmpty) = true then Except.error Err.index
      else pure (takeAxisPos a pos ps)) = Except.ok r → r.attrs = a.attrs ∧ axisMeta r.axes = axisMeta a.axes := by
    intro ps h
    split at h
    · cases h
    · cases h; exact ⟨rfl, takeAxisPos_meta _ _ _⟩
  simp only [bind, Except.bind] at h
  repeat' split at h
  all_goals first | (cases h; done) | exact key _ h | (cases h; exact ⟨rfl, takeAxisPos_meta _ _ _⟩)

theorem dropna_spec {α} (isnan : α → Bool) (a r : DimArray α) (k : DimKey) (mv : Option Nat)
    (h : dropna isnan a k mv = .ok r) : r.attrs = a.attrs ∧ axisMeta r.axes = axisMeta a.axes := by
  unfold dropna at h
  obtain ⟨pos, _, h⟩ := bind_ok h
  simp only at h
  split at h
  · exact compressAxis_spec _ _ _ _ h
  · exact compressAxis_spec _ _ _ _ h

/-! ### interpolation -/

theorem not_or_decide {p q : Prop} [Decidable p] [Decidable q] (h : ¬ (decide p || decide q) = true) : ¬p ∧ ¬q := by
  by_cases hp : p <;> by_cases hq : q <;> simp_all

/-- the position part of `interpAxis` -/
def interpPos {α} (a : DimArray α) (k : DimKey) : Except Err Nat :=
  match k with
  | .name s => let p := a.dims.idxOf s; if p < a.dims.length then pure p else (.error .value : Except Err Nat)
  | .pos i =>
    let n : Int := a.ndim
    let j := if i < 0 then i + n else i
    if j < 0 || j ≥ n then .error .index else pure j.toNat

/-- the part of `interpAxis` after the position is known -/
def interpCore {α} [Inhabited α] (lin : α → α → Rat → α) (a : DimArray α) (newL : List Label) (newKind : Kind)
    (left right : α) (pos : Nat) : Except Err (DimArray α) :=
  let ax := a.axes.getD pos default
  let o := if isIncreasingEq ax.labels then a else takeAxisPos a pos (argsortBy Label.le ax.labels)
  let oax := o.axes.getD pos default
  match labelsToRat oax.labels, labelsToRat newL with
  | some xs, some nx =>
    if xs.isEmpty then .error .value else
    let newax : Axis := { name := ax.name, labels := newL, kind := newKind }
    pure { axes := o.axes.set pos newax
           vals := { shape := o.vals.shape.set pos nx.length
                     get := fun j =>
                       let x := nx.getD (j.getD pos 0) 0
                       let ys := (List.range xs.length).map fun i => o.vals.get (j.set pos i)
                       interpAt lin xs ys default left right x }
           vkind := .f, attrs := o.attrs }
  | _, _ => .error .type

theorem interpAxis_eq {α} [Inhabited α] (lin : α → α → Rat → α) (a : DimArray α) (k : DimKey) (newL : List Label)
    (nk : Kind) (left right : α) :
    interpAxis lin a k newL nk left right = interpPos a k >>= interpCore lin a newL nk left right := by
  unfold interpAxis interpPos
  cases k with
  | name s => simp only; split <;> rfl
  | pos i => simp only; split <;> split <;> rfl

theorem interpPos_lt {α} (a : DimArray α) (k : DimKey) (pos : Nat) (h : interpPos a k = .ok pos) : pos < a.axes.length := by
  unfold interpPos at h
  cases k with
  | name s =>
    simp only at h
    split at h
    · cases h; rename_i hh; simpa [DimArray.dims] using hh
    · cases h
  | pos i =>
    simp only at h
    split at h <;> split at h <;> first
      | (cases h; done)
      | (cases h
         rename_i hh
         have hh := not_or_decide hh
         have hnd : a.ndim = a.axes.length := rfl
         omega)

theorem interpAxis_spec {α} [Inhabited α] (lin : α → α → Rat → α) (a r : DimArray α) (k : DimKey) (newL : List Label)
    (nk : Kind) (left right : α) (h : interpAxis lin a k newL nk left right = .ok r) :
    r.attrs = a.attrs ∧
      ∃ pos, pos < a.axes.length ∧ axisMeta r.axes = (axisMeta a.axes).set pos ((a.axes.getD pos default).name, []) := by
  rw [interpAxis_eq] at h
  obtain ⟨pos, hpos, h⟩ := bind_ok h
  have hlt := interpPos_lt a k pos hpos
  unfold interpCore at h
  simp only at h
  split at h
  · split at h
    · cases h
    · cases h
      refine ⟨by split <;> rfl, pos, hlt, ?_⟩
      rw [axisMeta_set]
      congr 1
      split
      · rfl
      · exact takeAxisPos_meta _ _ _
  · cases h

end C16
end DimModel

namespace DimModel
open Lib
namespace C16

/-! ### transpose family -/

theorem mapM_length {β γ : Type} (f : β → Except Err γ) (l : List β) (out : List γ) (h : l.mapM f = .ok out) :
    out.length = l.length := by
  have := mapM_map_eq f (fun _ => ()) (fun _ => ()) l out h (fun _ _ _ _ => rfl)
  simpa using congrArg List.length this

theorem normPerm_isPerm (n : Nat) (p : List Int) (q : List Nat) (h : normPerm n p = .ok q) : IsPerm q n := by
  unfold normPerm at h
  split at h
  · cases h
  · rename_i hlen
    obtain ⟨q', hq, h⟩ := bind_ok h
    split at h
    · cases h
    · rename_i hdup
      cases h
      refine ⟨?_, ?_, ?_⟩
      · rw [mapM_length _ _ _ hq]; simpa using hlen
      · apply (C10.eraseDups_length_eq_iff q).mp; simpa using hdup
      · intro k hk
        obtain ⟨i, _, hi⟩ := mapM_mem _ _ _ hq k hk
        simp only at hi
        split at hi <;> split at hi <;> first
          | (cases hi; done)
          | (cases hi
             rename_i hh
             have := not_or_decide hh
             omega)

theorem transposeBy_perm {α} (a : DimArray α) (p : List Nat) (hp : IsPerm p a.axes.length) :
    (transposeBy a p).attrs = a.attrs ∧ (transposeBy a p).axes.Perm a.axes :=
  ⟨rfl, C10.transposeBy_axes_perm a p hp⟩

/-- the keys `transpose` works with -/
def transposeKs {α} (a : DimArray α) (ks : Option (List DimKey)) : Except Err (List DimKey) :=
  match ks with
  | some l => if l.isEmpty then (if a.ndim == 2 then pure [DimKey.pos 1, .pos 0]
                                 else if a.ndim == 1 then pure [DimKey.pos 0]
                                 else if a.ndim == 0 then pure []
                                 else .error .value) else pure l
  | none => if a.ndim == 2 then pure [DimKey.pos 1, .pos 0]
            else if a.ndim == 1 then pure [DimKey.pos 0]
            else if a.ndim == 0 then pure []
            else .error .value

def transposeCore {α} (a : DimArray α) (ks : List DimKey) : Except Err (DimArray α) :=
  if a.ndim == 0 && ks.isEmpty then pure a else do
  let pi ← axesPositions a ks
  let p ← normPerm a.ndim pi
  pure (transposeBy a p)

theorem transpose_eq {α} (a : DimArray α) (ks : Option (List DimKey)) :
    transpose a ks = transposeKs a ks >>= transposeCore a := by
  unfold transpose transposeKs
  cases ks with
  | none => simp only; repeat' split
            all_goals rfl
  | some l => simp only; repeat' split
              all_goals rfl

theorem transpose_spec {α} (a r : DimArray α) (ks : Option (List DimKey)) (h : transpose a ks = .ok r) :
    r.attrs = a.attrs ∧ r.axes.Perm a.axes := by
  rw [transpose_eq] at h
  obtain ⟨ks', _, h⟩ := bind_ok h
  unfold transposeCore at h
  split at h
  · cases h; exact ⟨rfl, List.Perm.refl _⟩
  · obtain ⟨pi, _, h⟩ := bind_ok h
    obtain ⟨p, hp, h⟩ := bind_ok h
    cases h
    exact transposeBy_perm a p (normPerm_isPerm _ _ _ hp)

theorem swapaxes_spec {α} (a r : DimArray α) (k1 k2 : DimKey) (h : swapaxes a k1 k2 = .ok r) :
    r.attrs = a.attrs ∧ r.axes.Perm a.axes := by
  unfold swapaxes at h
  obtain ⟨ps, _, h⟩ := bind_ok h
  obtain ⟨p, hp, h⟩ := bind_ok h
  cases h
  exact transposeBy_perm a p (normPerm_isPerm _ _ _ hp)

theorem rollaxis_spec {α} (a r : DimArray α) (k : DimKey) (start : Int) (h : rollaxis a k start = .ok r) :
    r.attrs = a.attrs ∧ r.axes.Perm a.axes := by
  unfold rollaxis at h
  obtain ⟨ps, _, h⟩ := bind_ok h
  obtain ⟨p, hp, h⟩ := bind_ok h
  cases h
  exact transposeBy_perm a p (rollPerm_isPerm _ _ _ _ hp)

end C16
end DimModel

namespace DimModel
open Lib

/-- `x` is one of the plain axes underlying `axes`: an axis of the list itself, or a member of one of
its grouped axes (as `unflatten` restores it) -/
def BaseAxis (axes : List Axis) (x : Axis) : Prop := x ∈ axes ∨ ∃ g ∈ axes, ∃ m ∈ g.members, x = m.toAxis

/-- `x` carries the name and the metadata of `y`, and no member that `y` does not have -/
def AxisLe (x y : Axis) : Prop := x.name = y.name ∧ x.attrs = y.attrs ∧ ∀ m ∈ x.members, m ∈ y.members

/-- every axis of `new` descends (same name, same metadata) from an axis of `old` -/
def AxesLe (new old : List Axis) : Prop := ∀ x ∈ new, ∃ y ∈ old, AxisLe x y

namespace C16

theorem AxisLe.refl (x : Axis) : AxisLe x x := ⟨rfl, rfl, fun _ h => h⟩
theorem AxisLe.trans {x y z : Axis} (h1 : AxisLe x y) (h2 : AxisLe y z) : AxisLe x z :=
  ⟨h1.1.trans h2.1, h1.2.1.trans h2.2.1, fun m hm => h2.2.2 m (h1.2.2 m hm)⟩
theorem AxesLe.refl (l : List Axis) : AxesLe l l := fun x hx => ⟨x, hx, AxisLe.refl x⟩
theorem AxesLe.trans {l1 l2 l3 : List Axis} (h1 : AxesLe l1 l2) (h2 : AxesLe l2 l3) : AxesLe l1 l3 := by
  intro x hx
  obtain ⟨y, hy, hxy⟩ := h1 x hx
  obtain ⟨z, hz, hyz⟩ := h2 y hy
  exact ⟨z, hz, AxisLe.trans hxy hyz⟩
theorem AxesLe.of_subset {l1 l2 : List Axis} (h : ∀ x ∈ l1, x ∈ l2) : AxesLe l1 l2 :=
  fun x hx => ⟨x, h x hx, AxisLe.refl x⟩

theorem mem_metaAll {axes : List Axis} {p : String × Attrs} :
    p ∈ metaAll axes ↔ ∃ ax ∈ axes, p = (ax.name, ax.attrs) ∨ ∃ m ∈ ax.members, p = (m.name, m.attrs) := by
  simp only [metaAll, List.mem_flatMap, List.mem_cons, List.mem_map]
  constructor
  · rintro ⟨ax, hax, h | ⟨m, hm, rfl⟩⟩
    · exact ⟨ax, hax, Or.inl h⟩
    · exact ⟨ax, hax, Or.inr ⟨m, hm, rfl⟩⟩
  · rintro ⟨ax, hax, h | ⟨m, hm, rfl⟩⟩
    · exact ⟨ax, hax, Or.inl h⟩
    · exact ⟨ax, hax, Or.inr ⟨m, hm, rfl⟩⟩

theorem AxesLe.metaAll {new old : List Axis} (h : AxesLe new old) : ∀ p ∈ metaAll new, p ∈ metaAll old := by
  intro p hp
  obtain ⟨x, hx, hpx⟩ := mem_metaAll.mp hp
  obtain ⟨y, hy, hn, ha, hm⟩ := h x hx
  rcases hpx with rfl | ⟨m, hmm, rfl⟩
  · exact mem_metaAll.mpr ⟨y, hy, Or.inl (by rw [hn, ha])⟩
  · exact mem_metaAll.mpr ⟨y, hy, Or.inr ⟨m, hm m hmm, rfl⟩⟩

theorem AxesLe.axisMeta {new old : List Axis} (h : AxesLe new old) : ∀ p ∈ axisMeta new, p ∈ axisMeta old := by
  intro p hp
  obtain ⟨x, hx, h1, h2⟩ := mem_axisMeta.mp hp
  obtain ⟨y, hy, hn, ha, _⟩ := h x hx
  exact mem_axisMeta.mpr ⟨y, hy, hn ▸ h1, ha ▸ h2⟩

theorem metaAll_plain {axes : List Axis} (h : ∀ ax ∈ axes, ax.members = []) : metaAll axes = axisMeta axes := by
  induction axes with
  | nil => rfl
  | cons a l ih =>
    have e : metaAll (a :: l) = ((a.name, a.attrs) :: a.members.map fun m => (m.name, m.attrs)) ++ metaAll l := by
      simp [metaAll]
    rw [e, h a List.mem_cons_self, ih (fun ax hax => h ax (List.mem_cons_of_mem _ hax))]
    rfl

theorem axisMeta_subset_metaAll (axes : List Axis) : ∀ p ∈ axisMeta axes, p ∈ metaAll axes := by
  intro p hp
  obtain ⟨x, hx, h1, h2⟩ := mem_axisMeta.mp hp
  exact mem_metaAll.mpr ⟨x, hx, Or.inl (by rw [h1, h2])⟩

/-- "no foreign metadata": every (name, attrs) pair found in `axes` is empty metadata or one of `src` -/
def MetaFrom (src : List (String × Attrs)) (axes : List Axis) : Prop :=
  ∀ p ∈ metaAll axes, p.2 = [] ∨ p ∈ src

/-- one construction step: every new axis is an old axis, or an axis whose own pairs are accounted for, or a fresh
axis (no metadata) whose members are old axes -/
theorem MetaFrom.step {src : List (String × Attrs)} {old new : List Axis} (ho : MetaFrom src old)
    (h : ∀ x ∈ new, x ∈ old ∨ (∀ p ∈ metaAll [x], p.2 = [] ∨ p ∈ src) ∨
      (x.attrs = [] ∧ ∀ m ∈ x.members, ∃ y ∈ old, m = y.toAxis0)) : MetaFrom src new := by
  intro p hp
  obtain ⟨x, hx, hpx⟩ := mem_metaAll.mp hp
  rcases h x hx with h1 | h2 | ⟨h3, h4⟩
  · exact ho p (mem_metaAll.mpr ⟨x, h1, hpx⟩)
  · exact h2 p (mem_metaAll.mpr ⟨x, List.mem_singleton.mpr rfl, hpx⟩)
  · rcases hpx with rfl | ⟨m, hm, rfl⟩
    · exact Or.inl h3
    · obtain ⟨y, hy, rfl⟩ := h4 m hm
      exact ho _ (mem_metaAll.mpr ⟨y, hy, Or.inl rfl⟩)

theorem MetaFrom.of_le {src : List (String × Attrs)} {old new : List Axis} (ho : MetaFrom src old)
    (h : AxesLe new old) : MetaFrom src new :=
  fun p hp => ho p (AxesLe.metaAll h p hp)

theorem MetaFrom.mono {src src' : List (String × Attrs)} {axes : List Axis} (h : MetaFrom src axes)
    (hs : ∀ p ∈ src, p ∈ src') : MetaFrom src' axes :=
  fun p hp => (h p hp).imp id (hs p)

theorem MetaFrom.self (axes : List Axis) : MetaFrom (metaAll axes) axes := fun _ hp => Or.inr hp

/-! ### repeat / newaxis / squeeze -/

theorem axisPos_lt {axes : List Axis} {k : DimKey} {pos : Nat} (h : axisPos axes k = .ok pos) : pos < axes.length := by
  unfold axisPos at h
  cases k with
  | name s =>
    simp only at h
    split at h
    · cases h; assumption
    · cases h
  | pos i =>
    simp only at h
    split at h <;> split at h <;> first
      | (cases h; done)
      | (cases h
         rename_i hh
         have := not_or_decide hh
         omega)

theorem repeatAxis_spec {α} (a r : DimArray α) (newax : Axis) (k : DimKey) (h : repeatAxis a newax k = .ok r) :
    r.attrs = a.attrs ∧ ∃ pos, axisPos a.axes k = .ok pos ∧ pos < a.axes.length ∧
      r.axes = a.axes.set pos { newax with name := (a.axes.getD pos default).name } := by
  unfold repeatAxis at h
  obtain ⟨pos, hpos, h⟩ := bind_ok h
  simp only at h
  split at h
  · cases h
  · cases h
    exact ⟨rfl, pos, hpos, axisPos_lt hpos, rfl⟩

theorem insertIdx_set {β : Type} : ∀ (l : List β) (p : Nat) (x y : β), p ≤ l.length →
    (l.insertIdx p x).set p y = l.insertIdx p y
  | _, 0, _, _, _ => by simp [List.insertIdx_zero]
  | [], p + 1, _, _, h => by simp at h
  | a :: l, p + 1, x, y, h => by
    simp only [List.insertIdx_succ_cons, List.set_cons_succ]
    rw [insertIdx_set l p x y (by simpa using h)]

theorem getD_insertIdx_self {β : Type} : ∀ (l : List β) (p : Nat) (x d : β), p ≤ l.length →
    (l.insertIdx p x).getD p d = x
  | _, 0, _, _, _ => by simp [List.insertIdx_zero]
  | [], p + 1, _, _, h => by simp at h
  | a :: l, p + 1, x, d, h => by
    simp only [List.insertIdx_succ_cons, List.getD_cons_succ]
    exact getD_insertIdx_self l p x d (by simpa using h)

/-- the singleton axis `newaxis` inserts -/
def freshAxis (name : String) : Axis := { name := name, labels := [Label.none], kind := .O }

/-- the array after the singleton axis has been inserted -/
def newaxisObj {α} (a : DimArray α) (name : String) (p : Nat) : DimArray α :=
  { axes := a.axes.insertIdx p (freshAxis name), vals := a.vals.insertDim p, vkind := a.vkind, attrs := a.attrs }

def newaxisP {α} (a : DimArray α) (pos : Int) : Int := if pos < 0 then pos + (a.ndim : Int) + 1 else pos

theorem newaxis_eq {α} (a : DimArray α) (name : String) (pos : Int) (vals : Option Axis) :
    newaxis a name pos vals =
      if a.dims.contains name then .error .value else
      if newaxisP a pos < 0 || newaxisP a pos > (a.ndim : Int) then .error .index else
      match vals with
      | none => pure (newaxisObj a name (newaxisP a pos).toNat)
      | some v => repeatAxis (newaxisObj a name (newaxisP a pos).toNat) v (.pos (newaxisP a pos)) := rfl

theorem newaxis_spec {α} (a r : DimArray α) (name : String) (pos : Int) (vals : Option Axis)
    (h : newaxis a name pos vals = .ok r) :
    r.attrs = a.attrs ∧ name ∉ a.dims ∧ ∃ p, p ≤ a.axes.length ∧
      r.axes = a.axes.insertIdx p (match vals with
        | none => freshAxis name
        | some v => { v with name := name }) := by
  rw [newaxis_eq] at h
  generalize newaxisP a pos = p at h
  split at h
  · cases h
  · rename_i hnot
    have hnot : name ∉ a.dims := by simpa using hnot
    split at h
    · cases h
    · rename_i hh
      have hb := not_or_decide hh
      have hnd : a.ndim = a.axes.length := rfl
      have hp0 : 0 ≤ p := by omega
      have hp1 : p.toNat ≤ a.axes.length := by omega
      cases vals with
      | none =>
        cases h
        exact ⟨rfl, hnot, p.toNat, hp1, rfl⟩
      | some v =>
        simp only at h
        obtain ⟨e1, q, hq, _, e2⟩ := repeatAxis_spec _ _ _ _ h
        refine ⟨e1, hnot, p.toNat, hp1, ?_⟩
        have hq' : q = p.toNat := by
          unfold axisPos at hq
          simp only [newaxisObj, List.length_insertIdx_of_le_length hp1] at hq
          split at hq <;> split at hq <;> first
            | (cases hq; done)
            | (cases hq; omega)
            | (exfalso; omega)
        subst hq'
        rw [e2]
        simp only [newaxisObj]
        rw [getD_insertIdx_self _ _ _ _ hp1, insertIdx_set _ _ _ _ hp1]
        rfl

theorem squeeze_spec {α} (a r : DimArray α) (k : Option DimKey) (h : squeeze a k = .ok r) :
    r.attrs = a.attrs ∧ r.axes.Sublist a.axes := by
  cases k with
  | none =>
    rw [C10.squeeze_none_eq] at h
    cases h
    refine ⟨rfl, ?_⟩
    show ((C10.keepPos a).map fun i => a.axes.getD i default).Sublist a.axes
    rw [C10.keepPos_axes]
    exact List.filter_sublist
  | some k =>
    unfold squeeze at h
    obtain ⟨pos, _, h⟩ := bind_ok h
    split at h
    · cases h
    · cases h
      exact ⟨rfl, List.eraseIdx_sublist _ _⟩

end C16
end DimModel

namespace DimModel
open Lib
namespace C16

/-! ### unflatten / flatten -/

theorem unflattenAt_axes {α} (a : DimArray α) (pos : Nat) :
    (unflattenAt a pos).attrs = a.attrs ∧
      (unflattenAt a pos).axes =
        a.axes.take pos ++ (a.axes.getD pos default).members.map Axis0.toAxis ++ a.axes.drop (pos + 1) := ⟨rfl, rfl⟩

theorem baseAxis_unflattenAt {α} (src : List Axis) (o : DimArray α) (i : Nat) (hi : i < o.axes.length)
    (ho : ∀ x ∈ o.axes, BaseAxis src x) : ∀ x ∈ (unflattenAt o i).axes, BaseAxis src x := by
  intro x hx
  rw [(unflattenAt_axes o i).2] at hx
  rcases List.mem_append.mp hx with hx | hx
  · rcases List.mem_append.mp hx with hx | hx
    · exact ho x (List.mem_of_mem_take hx)
    · obtain ⟨m, hm, rfl⟩ := List.mem_map.mp hx
      rw [axis_getD_mem _ _ hi] at hm
      rcases ho _ (List.getElem_mem hi) with hg | ⟨g, _, m', _, hg⟩
      · exact Or.inr ⟨_, hg, m, hm, rfl⟩
      · rw [hg] at hm
        simp [Axis0.toAxis] at hm
  · exact ho x (List.mem_of_mem_drop hx)

theorem unflattenAll_go_spec {α} (src : List Axis) (attrs : Attrs) : ∀ (fuel : Nat) (o : DimArray α),
    o.attrs = attrs → (∀ x ∈ o.axes, BaseAxis src x) →
      (unflattenAll.go fuel o).attrs = attrs ∧ ∀ x ∈ (unflattenAll.go fuel o).axes, BaseAxis src x
  | 0, o, h1, h2 => by unfold unflattenAll.go; exact ⟨h1, h2⟩
  | fuel + 1, o, h1, h2 => by
    unfold unflattenAll.go
    split
    · exact ⟨h1, h2⟩
    · rename_i i hfind
      have hi : i < o.axes.length := List.mem_range.mp (List.mem_of_find?_eq_some hfind)
      exact unflattenAll_go_spec src attrs fuel (unflattenAt o i) h1 (baseAxis_unflattenAt src o i hi h2)

theorem unflattenAll_spec {α} (a : DimArray α) :
    (unflattenAll a).attrs = a.attrs ∧ ∀ x ∈ (unflattenAll a).axes, BaseAxis a.axes x :=
  unflattenAll_go_spec a.axes a.attrs a.ndim a rfl (fun x hx => Or.inl hx)

theorem flatten_perm_isPerm {α} (a : DimArray α) (dims : List String) (ins : Nat)
    (hsub : ∀ d ∈ dims, d ∈ a.dims) (hnd : (C11.perm a dims ins).Nodup)
    (hlen : (C11.perm a dims ins).length = a.ndim) : IsPerm (C11.perm a dims ins) a.axes.length := by
  refine ⟨hlen, hnd, ?_⟩
  intro k hk
  obtain ⟨d, hd, rfl⟩ := List.mem_map.mp hk
  have hda : d ∈ a.dims := by
    unfold C11.newdims at hd
    rcases List.mem_append.mp hd with hd | hd
    · rcases List.mem_append.mp hd with hd | hd
      · exact (C11.mem_rest.mp (List.mem_of_mem_take hd)).1
      · exact hsub d hd
    · exact (C11.mem_rest.mp (List.mem_of_mem_drop hd)).1
  have := List.idxOf_lt_length_of_mem hda
  simpa [DimArray.dims] using this

theorem flatten_spec {α} (a r : DimArray α) (dims : List String) (insert : Option Nat)
    (h : flatten a dims insert = .ok r) :
    r.attrs = a.attrs ∧ ∃ (ins : Nat) (members others : List Axis), ins = C11.insPos a dims insert ∧
      r.axes = others.take ins ++ [multiAxis members] ++ others.drop ins ∧
      (∀ m ∈ members, m ∈ a.axes ∧ m.name ∈ dims) ∧ (∀ o ∈ others, o ∈ a.axes ∧ o.name ∉ dims) ∧
      (∀ ax ∈ a.axes, ax ∈ members ∨ ax ∈ others) := by
  rw [C11.flatten_unfold] at h
  split at h
  · cases h
  · split at h
    · cases h
    · rename_i hany
      split at h
      · cases h
      · rename_i hperm
        cases h
        have hsub : ∀ d ∈ dims, d ∈ a.dims := by
          intro d hd
          have := hany
          simp only [List.any_eq_true, Bool.not_eq_true', not_exists, not_and] at this
          have := this d hd
          simpa using this
        have hp := not_or_decide (p := _ ≠ _) (q := _ ≠ _) (by simpa [bne] using hperm)
        have hP := flatten_perm_isPerm a dims (C11.insPos a dims insert) hsub
          ((C10.eraseDups_length_eq_iff _).mp (by simpa using hp.1)) (by simpa using hp.2)
        have hb := C10.transposeBy_axes_perm a _ hP
        refine ⟨rfl, C11.insPos a dims insert, _, _, rfl, rfl, ?_, ?_, ?_⟩
        · intro m hm
          obtain ⟨hm1, hm2⟩ := List.mem_filter.mp hm
          exact ⟨hb.mem_iff.mp hm1, by simpa using hm2⟩
        · intro o ho
          obtain ⟨ho1, ho2⟩ := List.mem_filter.mp ho
          exact ⟨hb.mem_iff.mp ho1, by simpa using ho2⟩
        · intro ax hax
          have hax' := hb.mem_iff.mpr hax
          by_cases hc : dims.contains ax.name = true
          · exact Or.inl (List.mem_filter.mpr ⟨hax', hc⟩)
          · exact Or.inr (List.mem_filter.mpr ⟨hax', by simpa using hc⟩)

end C16
end DimModel

namespace DimModel
open Lib
namespace C16

/-! ### reshape / broadcast -/

/-- invariant of the `reshape` pipeline -/
def Inv {α} (attrs : Attrs) (src : List (String × Attrs)) (o : DimArray α) : Prop :=
  o.attrs = attrs ∧ MetaFrom src o.axes

theorem Inv.squeeze {α} {attrs : Attrs} {src : List (String × Attrs)} {o r : DimArray α} (ho : Inv attrs src o)
    (k : Option DimKey) (h : squeeze o k = .ok r) : Inv attrs src r := by
  obtain ⟨h1, h2⟩ := squeeze_spec o r k h
  exact ⟨h1.trans ho.1, ho.2.of_le (AxesLe.of_subset fun x hx => h2.subset hx)⟩

theorem Inv.transpose {α} {attrs : Attrs} {src : List (String × Attrs)} {o r : DimArray α} (ho : Inv attrs src o)
    (ks : Option (List DimKey)) (h : transpose o ks = .ok r) : Inv attrs src r := by
  obtain ⟨h1, h2⟩ := transpose_spec o r ks h
  exact ⟨h1.trans ho.1, ho.2.of_le (AxesLe.of_subset fun x hx => h2.mem_iff.mp hx)⟩

theorem Inv.newaxis {α} {attrs : Attrs} {src : List (String × Attrs)} {o r : DimArray α} (ho : Inv attrs src o)
    (name : String) (pos : Int) (h : newaxis o name pos none = .ok r) : Inv attrs src r := by
  obtain ⟨h1, _, p, hp, h2⟩ := newaxis_spec o r name pos none h
  refine ⟨h1.trans ho.1, ho.2.step ?_⟩
  intro x hx
  rw [h2] at hx
  rcases (List.mem_insertIdx hp).mp hx with rfl | hx
  · exact Or.inr (Or.inr ⟨rfl, fun m hm => by simp [freshAxis] at hm⟩)
  · exact Or.inl hx

theorem Inv.flatten {α} {attrs : Attrs} {src : List (String × Attrs)} {o r : DimArray α} (ho : Inv attrs src o)
    (dims : List String) (insert : Option Nat) (h : flatten o dims insert = .ok r) : Inv attrs src r := by
  obtain ⟨h1, ins, members, others, _, h2, hm, hot, _⟩ := flatten_spec o r dims insert h
  refine ⟨h1.trans ho.1, ho.2.step ?_⟩
  intro x hx
  rw [h2] at hx
  rcases List.mem_append.mp hx with hx | hx
  · rcases List.mem_append.mp hx with hx | hx
    · exact Or.inl (hot x (List.mem_of_mem_take hx)).1
    · rw [List.mem_singleton] at hx
      subst hx
      refine Or.inr (Or.inr ⟨rfl, ?_⟩)
      intro m hmm
      obtain ⟨y, hy, rfl⟩ := List.mem_map.mp hmm
      exact ⟨y, (hm y hy).1, rfl⟩
  · exact Or.inl (hot x (List.mem_of_mem_drop hx)).1

theorem Inv.unflattenAll {α} (a : DimArray α) : Inv a.attrs (metaAll a.axes) (unflattenAll a) := by
  obtain ⟨h1, h2⟩ := unflattenAll_spec a
  refine ⟨h1, ?_⟩
  intro p hp
  right
  obtain ⟨x, hx, hpx⟩ := mem_metaAll.mp hp
  rcases h2 x hx with hb | ⟨g, hg, m, hm, rfl⟩
  · exact mem_metaAll.mpr ⟨x, hb, hpx⟩
  · rcases hpx with rfl | ⟨m', hm', _⟩
    · exact mem_metaAll.mpr ⟨g, hg, Or.inr ⟨m, hm, rfl⟩⟩
    · simp [Axis0.toAxis] at hm'

theorem reshape_inv {α} (a r : DimArray α) (newdims : List String) (h : reshape a newdims = .ok r) :
    Inv a.attrs (metaAll a.axes) r := by
  rw [C11.reshape_unfold] at h
  split at h
  · cases h; exact ⟨rfl, MetaFrom.self _⟩
  · split at h
    · cases h
    · split at h
      · cases h
      · obtain ⟨o1, h1, h⟩ := bind_ok h
        obtain ⟨o2, h2, h⟩ := bind_ok h
        obtain ⟨o3, h3, h⟩ := bind_ok h
        obtain ⟨o4, h4, h⟩ := bind_ok h
        split at h
        · cases h
        · cases h
          have i0 := Inv.unflattenAll a
          have i1 : Inv a.attrs (metaAll a.axes) o1 := by
            unfold C11.stSqueeze at h1
            refine foldlM_inv _ _ _ _ _ ?_ i0 h1
            intro s d s' _ hs hstep
            split at hstep
            · cases hstep; exact hs
            · exact hs.squeeze _ hstep
          have i2 : Inv a.attrs (metaAll a.axes) o2 := i1.transpose _ h2
          have i3 : Inv a.attrs (metaAll a.axes) o3 := by
            unfold C11.stNewaxis at h3
            refine foldlM_inv _ _ _ _ _ ?_ i2 h3
            intro s d s' _ hs hstep
            obtain ⟨d, i⟩ := d
            simp only at hstep
            split at hstep
            · cases hstep; exact hs
            · exact hs.newaxis _ _ hstep
          unfold C11.stGroup at h4
          refine foldlM_inv _ _ _ _ _ ?_ i3 h4
          intro s d s' _ hs hstep
          obtain ⟨d, i⟩ := d
          simp only at hstep
          split at hstep
          · exact hs.flatten _ _ hstep
          · cases hstep; exact hs

/-- `reshape`: the array's metadata is kept; no foreign axis metadata appears -/
theorem reshape_spec {α} (a r : DimArray α) (newdims : List String) (h : reshape a newdims = .ok r) :
    r.attrs = a.attrs ∧ ∀ p ∈ metaAll r.axes, p.2 = [] ∨ p ∈ metaAll a.axes := reshape_inv a r newdims h

theorem alignDims_spec {α} (arrays rs : List (DimArray α)) (h : alignDims arrays = .ok rs) :
    rs.map (·.attrs) = arrays.map (·.attrs) ∧
      ∀ r ∈ rs, ∃ a ∈ arrays, r.attrs = a.attrs ∧ ∀ p ∈ metaAll r.axes, p.2 = [] ∨ p ∈ metaAll a.axes := by
  unfold alignDims at h
  split at h
  · cases h
    exact ⟨rfl, fun r hr => ⟨r, hr, rfl, fun p hp => Or.inr hp⟩⟩
  · constructor
    · exact mapM_map_eq _ _ _ _ _ h (fun a _ b hb => (reshape_spec a b _ hb).1)
    · intro r hr
      obtain ⟨a, ha, hab⟩ := mapM_mem _ _ _ h r hr
      exact ⟨a, ha, reshape_spec a r _ hab⟩

theorem bcStep_inv {α} (a : DimArray α) {attrs : Attrs} {src : List (String × Attrs)} {o r : DimArray α} (t : Axis)
    (ho : Inv attrs src o) (h : C10.bcStep a o t = .ok r) : Inv attrs src r := by
  unfold C10.bcStep at h
  split at h
  · split at h
    · obtain ⟨h1, pos, _, _, h2⟩ := repeatAxis_spec o r t.bare _ h
      refine ⟨h1.trans ho.1, ho.2.step ?_⟩
      intro x hx
      rw [h2] at hx
      rcases List.mem_or_eq_of_mem_set hx with hx | rfl
      · exact Or.inl hx
      · right; left
        -- the repeated axis is a fresh `Axis(values, name)`: no metadata, no members
        intro p hp
        left
        obtain ⟨y, hy, hpy⟩ := mem_metaAll.mp hp
        rw [List.mem_singleton] at hy
        subst hy
        rcases hpy with rfl | ⟨m, hm, _⟩
        · rfl
        · exact absurd (show m ∈ [] from hm) List.not_mem_nil
    · cases h; exact ho
  · cases h

/-- `broadcast`: the array's metadata is kept; no foreign axis metadata appears - in particular none of the target's
(a repeated axis is a fresh axis with the target's labels) -/
theorem broadcast_spec {α} (a r : DimArray α) (target : List Axis) (h : broadcast a target = .ok r) :
    r.attrs = a.attrs ∧ ∀ p ∈ metaAll r.axes, p.2 = [] ∨ p ∈ metaAll a.axes := by
  rw [C10.broadcast_eq] at h
  obtain ⟨o, h1, h2⟩ := bind_ok h
  have i0 : Inv a.attrs (metaAll a.axes) o := by
    have := reshape_inv a o _ h1
    exact ⟨this.1, this.2⟩
  exact foldlM_inv (Inv a.attrs (metaAll a.axes)) (C10.bcStep a) _ _ _
    (fun s t s' _ hs hstep => bcStep_inv a t hs hstep) i0 h2

theorem getAxesAligned_mem (arrays : List (List Axis)) (axes : List Axis) (h : getAxesAligned arrays = .ok axes) :
    ∀ x ∈ axes, ∃ l ∈ arrays, x ∈ l := by
  unfold getAxesAligned at h
  intro x hx
  obtain ⟨d, _, hd⟩ := mapM_mem _ _ _ h x hx
  simp only at hd
  -- the fold returns one of the axes it was given
  have key : ∀ (having : List Axis) (acc : Except Err (Option Axis)) (c : Axis),
      having.foldl (fun (acc : Except Err (Option Axis)) (ax : Axis) => do
        let c ← acc
        let common := match c with
          | none => ax
          | some c => if c.size == 1 && ax.size != 1 then ax else c
        if !(ax.size == 1 || ax.labels == common.labels) then .error .value else pure (some common)) acc = .ok (some c) →
      (c ∈ having ∨ acc = .ok (some c)) := by
    intro having
    induction having with
    | nil => intro acc c h; exact Or.inr h
    | cons ax rest ih =>
      intro acc c h
      rw [List.foldl_cons] at h
      rcases ih _ c h with h | h
      · exact Or.inl (List.mem_cons_of_mem _ h)
      · obtain ⟨c0, hc0, h⟩ := bind_ok h
        cases c0 with
        | none =>
          simp only at h
          split at h
          · cases h
          · cases h; exact Or.inl List.mem_cons_self
        | some c0 =>
          simp only at h
          split at h <;> split at h <;> first
            | (cases h; done)
            | (cases h; first | exact Or.inl List.mem_cons_self | exact Or.inr hc0)
  split at hd
  · rename_i c hfold
    cases hd
    rcases key _ _ _ hfold with hc | hc
    · obtain ⟨l, hl, hfind⟩ := List.mem_filterMap.mp hc
      exact ⟨l, hl, List.mem_of_find?_eq_some hfind⟩
    · cases hc
  · cases hd
  · cases hd

theorem broadcastArrays_spec {α} (arrays rs : List (DimArray α)) (h : broadcastArrays arrays = .ok rs) :
    ∀ r ∈ rs, ∃ a ∈ arrays, r.attrs = a.attrs := by
  unfold broadcastArrays at h
  obtain ⟨arrs, h1, h⟩ := bind_ok h
  obtain ⟨axes, _, h⟩ := bind_ok h
  intro r hr
  obtain ⟨o, ho, hor⟩ := mapM_mem _ _ _ h r hr
  obtain ⟨a, ha, hao, _⟩ := (alignDims_spec arrays arrs h1).2 o ho
  exact ⟨a, ha, (broadcast_spec o r axes hor).1.trans hao⟩

end C16
end DimModel

namespace DimModel
open Lib
namespace C16

/-! ### along-axis transforms -/

theorem dealWithAxis_spec {α} (a o : DimArray α) (ax : AxisArg) (idx : Option Nat)
    (h : dealWithAxis a ax = .ok (o, idx)) :
    (o = a ∧ (∀ pos, idx = some pos → pos < a.axes.length) ∧ ∀ ks, ax ≠ .many ks) ∨
    (∃ ks names, ax = .many ks ∧ flatten a names (some 0) = .ok o ∧ idx = some 0) := by
  unfold dealWithAxis at h
  cases ax with
  | none =>
    cases h
    exact Or.inl ⟨rfl, (fun _ hp => by cases hp), (fun _ hk => by cases hk)⟩
  | one k =>
    left
    cases k with
    | name s =>
      simp only [bind, Except.bind, pure, Except.pure] at h
      split at h
      · rename_i hlt
        cases h
        refine ⟨rfl, ?_, (fun _ hk => by cases hk)⟩
        intro pos hp; cases hp
        simpa [DimArray.dims] using hlt
      · cases h
    | pos i =>
      simp only [bind, Except.bind, pure, Except.pure] at h
      split at h <;> split at h <;> first
        | (cases h; done)
        | (cases h
           rename_i hh
           have hb := not_or_decide hh
           have hnd : a.ndim = a.axes.length := rfl
           refine ⟨rfl, ?_, (fun _ hk => by cases hk)⟩
           intro pos hp; cases hp
           omega)
  | many ks =>
    right
    obtain ⟨names, _, h⟩ := bind_ok h
    obtain ⟨o', ho, h⟩ := bind_ok h
    cases h
    exact ⟨ks, names, rfl, ho, rfl⟩

theorem dealWithAxis_attrs {α} (a o : DimArray α) (ax : AxisArg) (idx : Option Nat)
    (h : dealWithAxis a ax = .ok (o, idx)) : o.attrs = a.attrs := by
  rcases dealWithAxis_spec a o ax idx h with ⟨rfl, _, _⟩ | ⟨_, names, _, hf, _⟩
  · rfl
  · exact (flatten_spec a o names _ hf).1

/-- after `dealWithAxis`, dropping the axis at the returned position leaves axes of `a` only -/
theorem dealWithAxis_erase {α} (a o : DimArray α) (ax : AxisArg) (pos : Nat)
    (h : dealWithAxis a ax = .ok (o, some pos)) : ∀ x ∈ o.axes.eraseIdx pos, x ∈ a.axes := by
  rcases dealWithAxis_spec a o ax _ h with ⟨rfl, _, _⟩ | ⟨_, names, _, hf, hidx⟩
  · intro x hx; exact List.mem_of_mem_eraseIdx hx
  · cases hidx
    obtain ⟨_, ins, members, others, hins, h2, _, hot, _⟩ := flatten_spec a o names _ hf
    have : ins = 0 := by rw [hins]; simp [C11.insPos]
    subst this
    intro x hx
    rw [h2] at hx
    simp only [List.take_zero, List.nil_append, List.drop_zero, List.cons_append, List.eraseIdx_cons_zero] at hx
    exact (hot x hx).1

theorem reduceAxis_spec {α} (red : List α → α) (a r : DimArray α) (ax : AxisArg)
    (h : reduceAxis red a ax = .ok (.inr r)) : r.attrs = a.attrs ∧ ∀ x ∈ r.axes, x ∈ a.axes := by
  unfold reduceAxis at h
  obtain ⟨⟨o, idx⟩, hd, h⟩ := bind_ok h
  simp only at h
  split at h
  · cases h
  · rename_i pos
    split at h
    · cases h
    · cases h
      exact ⟨dealWithAxis_attrs a o ax _ hd, dealWithAxis_erase a o ax pos hd⟩

theorem reduceAxis_one {α} (red : List α → α) (a r : DimArray α) (k : DimKey)
    (h : reduceAxis red a (.one k) = .ok (.inr r)) :
    ∃ pos, pos < a.axes.length ∧ r.axes = a.axes.eraseIdx pos := by
  unfold reduceAxis at h
  obtain ⟨⟨o, idx⟩, hd, h⟩ := bind_ok h
  simp only at h
  split at h
  · cases h
  · rename_i pos
    split at h
    · cases h
    · cases h
      rcases dealWithAxis_spec a o _ _ hd with ⟨rfl, hp, _⟩ | ⟨_, _, hk, _, _⟩
      · exact ⟨pos, hp pos rfl, rfl⟩
      · cases hk

theorem argAxis_spec {α} (pick : List α → List Label → α) (a r : DimArray α) (ax : AxisArg)
    (h : argAxis pick a ax = .ok (.inr r)) : r.attrs = a.attrs ∧ ∀ x ∈ r.axes, x ∈ a.axes := by
  unfold argAxis at h
  obtain ⟨⟨o, idx⟩, hd, h⟩ := bind_ok h
  simp only at h
  split at h
  · cases h
  · rename_i pos
    split at h
    · cases h
    · cases h
      exact ⟨dealWithAxis_attrs a o ax _ hd, dealWithAxis_erase a o ax pos hd⟩

theorem argAxis_one {α} (pick : List α → List Label → α) (a r : DimArray α) (k : DimKey)
    (h : argAxis pick a (.one k) = .ok (.inr r)) :
    ∃ pos, pos < a.axes.length ∧ r.axes = a.axes.eraseIdx pos := by
  unfold argAxis at h
  obtain ⟨⟨o, idx⟩, hd, h⟩ := bind_ok h
  simp only at h
  split at h
  · cases h
  · rename_i pos
    split at h
    · cases h
    · cases h
      rcases dealWithAxis_spec a o _ _ hd with ⟨rfl, hp, _⟩ | ⟨_, _, hk, _, _⟩
      · exact ⟨pos, hp pos rfl, rfl⟩
      · cases hk

theorem cumAxis_spec {α} (scan : List α → α) (a r : DimArray α) (ax : AxisArg)
    (h : cumAxis scan a ax = .ok (.inr r)) :
    r.attrs = a.attrs ∧ ∃ o pos, dealWithAxis a ax = .ok (o, some pos) ∧ r.axes = o.axes := by
  unfold cumAxis at h
  obtain ⟨⟨o, idx⟩, hd, h⟩ := bind_ok h
  simp only at h
  split at h
  · cases h
  · rename_i pos
    cases h
    exact ⟨dealWithAxis_attrs a o ax _ hd, o, pos, hd, rfl⟩

theorem diff1_spec {α} (sub : α → α → α) (nan : α) (o r : DimArray α) (pos : Nat) (scheme : Scheme) (keepaxis : Bool)
    (h : diff1 sub nan o pos scheme keepaxis = .ok r) :
    r.attrs = o.attrs ∧ ∃ newax : Axis, r.axes = o.axes.set pos newax ∧
      newax.name = (o.axes.getD pos default).name ∧
      newax.attrs = if scheme = .centered then [] else (o.axes.getD pos default).attrs := by
  unfold diff1 at h
  simp only at h
  cases scheme <;> cases keepaxis <;> simp only [bind, Except.bind, pure, Except.pure] at h
  all_goals repeat' split at h
  all_goals first
    | (cases h; done)
    | (cases h; exact ⟨rfl, _, rfl, rfl, rfl⟩)

theorem set_getD_self {β : Type} (l : List β) (pos : Nat) (x d : β) :
    (l.set pos x).getD pos d = if pos < l.length then x else d := by
  split
  · rename_i h
    rw [List.getD_eq_getElem?_getD, List.getElem?_set_self h]; rfl
  · rename_i h
    rw [List.set_eq_of_length_le (Nat.le_of_not_lt h), List.getD_eq_getElem?_getD,
      List.getElem?_eq_none (Nat.le_of_not_lt h)]; rfl

theorem getD_name_meta (axes : List Axis) (pos : Nat) :
    (axes.getD pos default).name = ((axisMeta axes).getD pos ("", [])).1 ∧
    (axes.getD pos default).attrs = ((axisMeta axes).getD pos ("", [])).2 := by
  by_cases h : pos < axes.length
  · rw [List.getD_eq_getElem?_getD, List.getD_eq_getElem?_getD, List.getElem?_eq_getElem h,
      List.getElem?_eq_getElem (by simpa [axisMeta] using h)]
    simp [axisMeta]
  · rw [List.getD_eq_getElem?_getD, List.getD_eq_getElem?_getD, List.getElem?_eq_none (Nat.le_of_not_lt h),
      List.getElem?_eq_none (by simpa [axisMeta] using Nat.le_of_not_lt h)]
    exact ⟨rfl, rfl⟩

/-- the metadata of the axes after `k ≥ 1` differencing steps -/
theorem diffGo_spec {α} (sub : α → α → α) (nan : α) (o : DimArray α) (pos : Nat) (scheme : Scheme) (keepaxis : Bool) :
    ∀ (k : Nat) (r : DimArray α), diffAxis.go sub nan scheme keepaxis pos k o = .ok r →
      r.attrs = o.attrs ∧
      axisMeta r.axes = if scheme = .centered ∧ k ≠ 0
        then (axisMeta o.axes).set pos ((o.axes.getD pos default).name, []) else axisMeta o.axes
  | 0, r, h => by
    unfold diffAxis.go at h
    cases h
    simp
  | k + 1, r, h => by
    unfold diffAxis.go at h
    obtain ⟨o', ho', h⟩ := bind_ok h
    obtain ⟨ih1, ih2⟩ := diffGo_spec sub nan o pos scheme keepaxis k o' ho'
    obtain ⟨h1, newax, h2, h3, h4⟩ := diff1_spec sub nan o' r pos scheme keepaxis h
    refine ⟨h1.trans ih1, ?_⟩
    rw [h2, axisMeta_set, h3, h4, (getD_name_meta o'.axes pos).1, (getD_name_meta o'.axes pos).2, ih2]
    by_cases hc : scheme = .centered
    · subst hc
      simp only [true_and, ne_eq, Nat.add_one_ne_zero, not_false_eq_true, and_self, if_true]
      by_cases hk : k = 0
      · subst hk
        simp only [ne_eq, not_true_eq_false, if_false]
        rw [← (getD_name_meta o.axes pos).1]
      · simp only [ne_eq, hk, not_false_eq_true, if_true]
        rw [List.set_set, set_getD_self]
        split
        · rfl
        · rename_i hlt
          have hlt : ¬ pos < o.axes.length := by simpa [axisMeta] using hlt
          rw [List.getD_eq_getElem?_getD, List.getElem?_eq_none (Nat.le_of_not_lt hlt)]
          rfl
    · simp only [hc, false_and, if_false]
      apply List.ext_getElem?
      intro i
      by_cases hi : pos = i
      · subst hi
        by_cases hl : pos < (axisMeta o.axes).length
        · rw [List.getElem?_set_self hl, List.getD_eq_getElem?_getD, List.getElem?_eq_getElem hl]
          rfl
        · rw [List.set_eq_of_length_le (Nat.le_of_not_lt hl)]
      · rw [List.getElem?_set_ne hi]

theorem diffAxis_spec {α} (sub : α → α → α) (nan : α) (a r : DimArray α) (ax : AxisArg) (scheme : Scheme)
    (keepaxis : Bool) (n : Nat) (h : diffAxis sub nan a ax scheme keepaxis n = .ok r) :
    r.attrs = a.attrs ∧ ∃ o pos, dealWithAxis a ax = .ok (o, some pos) ∧ pos < o.axes.length ∧
      axisMeta r.axes = if scheme = .centered
        then (axisMeta o.axes).set pos ((o.axes.getD pos default).name, []) else axisMeta o.axes := by
  unfold diffAxis at h
  obtain ⟨⟨o, idx⟩, hd, h⟩ := bind_ok h
  simp only at h
  split at h
  · cases h
  · rename_i pos
    split at h
    · cases h
    · rename_i hn
      have hn : n ≠ 0 := by simpa using hn
      obtain ⟨h1, h2⟩ := diffGo_spec sub nan o pos scheme keepaxis n r h
      have hlt : pos < o.axes.length := by
        rcases dealWithAxis_spec a o ax _ hd with ⟨rfl, hp, _⟩ | ⟨_, names, _, hf, hidx⟩
        · exact hp pos rfl
        · cases hidx
          obtain ⟨_, ins, members, others, _, h2, _⟩ := flatten_spec a o names _ hf
          rw [h2]; simp; omega
      refine ⟨h1.trans (dealWithAxis_attrs a o ax _ hd), o, pos, hd, hlt, ?_⟩
      rw [h2]
      simp only [hn, ne_eq, not_false_eq_true, and_true]

end C16
end DimModel

namespace DimModel
open Lib

/-- `o'` carries the metadata of `o`: same array metadata, same (name, attrs) on every axis position, and every
axis descends from an axis of `o` -/
def MetaSame {α} (o' o : DimArray α) : Prop :=
  o'.attrs = o.attrs ∧ axisMeta o'.axes = axisMeta o.axes ∧ AxesLe o'.axes o.axes

/-- position by position -/
def Pointwise {β : Type} (R : β → β → Prop) (out l : List β) : Prop :=
  out.length = l.length ∧ ∀ i (h1 : i < out.length) (h2 : i < l.length), R out[i] l[i]

namespace C16

theorem MetaSame.refl {α} (o : DimArray α) : MetaSame o o := ⟨rfl, rfl, AxesLe.refl _⟩
theorem MetaSame.trans {α} {o1 o2 o3 : DimArray α} (h1 : MetaSame o1 o2) (h2 : MetaSame o2 o3) : MetaSame o1 o3 :=
  ⟨h1.1.trans h2.1, h1.2.1.trans h2.2.1, AxesLe.trans h1.2.2 h2.2.2⟩

theorem Pointwise.refl {β : Type} {R : β → β → Prop} (hr : ∀ x, R x x) (l : List β) : Pointwise R l l :=
  ⟨rfl, fun _ _ _ => hr _⟩
theorem Pointwise.trans {β : Type} {R : β → β → Prop} (ht : ∀ x y z, R x y → R y z → R x z) {l1 l2 l3 : List β}
    (h1 : Pointwise R l1 l2) (h2 : Pointwise R l2 l3) : Pointwise R l1 l3 :=
  ⟨h1.1.trans h2.1, fun i hi1 hi3 => ht _ _ _ (h1.2 i hi1 (h1.1 ▸ hi1)) (h2.2 i (h1.1 ▸ hi1) hi3)⟩

theorem Pointwise.mem {β : Type} {R : β → β → Prop} {out l : List β} (h : Pointwise R out l) :
    ∀ o ∈ out, ∃ a ∈ l, R o a := by
  intro o ho
  obtain ⟨i, hi, rfl⟩ := List.getElem_of_mem ho
  exact ⟨l[i]'(h.1 ▸ hi), List.getElem_mem _, h.2 i hi (h.1 ▸ hi)⟩

theorem Pointwise.map_eq {β γ : Type} {R : β → β → Prop} {out l : List β} (h : Pointwise R out l) (g : β → γ)
    (hg : ∀ x y, R x y → g x = g y) : out.map g = l.map g := by
  apply List.ext_getElem
  · simp [h.1]
  · intro i h1 h2
    simp only [List.getElem_map]
    exact hg _ _ (h.2 i (by simpa using h1) (by simpa using h2))

theorem mapM_pointwise {β : Type} (f : β → Except Err β) (R : β → β → Prop) :
    ∀ (l out : List β), l.mapM f = .ok out → (∀ a ∈ l, ∀ b, f a = .ok b → R b a) → Pointwise R out l
  | [], out, h, _ => by
    simp only [List.mapM_nil, pure, Except.pure] at h
    cases h; exact ⟨rfl, fun i hi => by simp at hi⟩
  | a :: l, out, h, hstep => by
    obtain ⟨b, bs, hb, hbs, rfl⟩ := mapM_cons_ok f a l out h
    have ih := mapM_pointwise f R l bs hbs (fun a ha => hstep a (List.mem_cons_of_mem _ ha))
    refine ⟨by simp [ih.1], ?_⟩
    intro i h1 h2
    cases i with
    | zero => exact hstep a List.mem_cons_self b hb
    | succ i => exact ih.2 i (by simpa using h1) (by simpa using h2)

/-! ### reindexing once more: every axis descends from an axis of the input -/

theorem takeAxisPos_le {α} (a : DimArray α) (pos : Nat) (ps : List Nat) : AxesLe (takeAxisPos a pos ps).axes a.axes := by
  intro x hx
  unfold takeAxisPos at hx
  simp only [List.mem_mapIdx] at hx
  obtain ⟨i, hi, rfl⟩ := hx
  refine ⟨a.axes[i], List.getElem_mem _, ?_⟩
  split
  · exact ⟨rfl, rfl, fun m hm => by simp [axisTake] at hm⟩
  · exact AxisLe.refl _

theorem reindexAxis_same {α} (a r : DimArray α) (axis : DimKey) (newL : List Label) (nk : Kind) (fill : α) (fk : Kind)
    (re : Bool) (m : Option Side) (h : reindexAxis a axis newL nk fill fk re m = .ok r) : MetaSame r a := by
  obtain ⟨h1, h2⟩ := reindexAxis_spec a r axis newL nk fill fk re m h
  refine ⟨h1, h2, ?_⟩
  unfold reindexAxis at h
  obtain ⟨pos, hpos, h⟩ := bind_ok h
  simp only at h
  split at h
  · cases h
  · split at h
    · split at h
      · cases h
      · cases h
        intro x hx
        simp only [List.mem_mapIdx] at hx
        obtain ⟨i, hi, rfl⟩ := hx
        refine ⟨a.axes[i], List.getElem_mem _, ?_⟩
        split
        · rename_i hip
          have hip : i = pos := by simpa using hip
          subst hip
          rw [axis_getD_mem _ _ hi]
          exact ⟨rfl, rfl, fun m hm => by simp at hm⟩
        · exact AxisLe.refl _
    · cases h
      exact takeAxisPos_le _ _ _

/-! ### axes of an alignment -/

theorem union_attrs (a b : Axis) :
    (union a b).name = (if a.labels ≠ b.labels ∧ a.labels = [] then b.name else a.name) ∧
    (union a b).attrs = (if a.labels ≠ b.labels ∧ a.labels = [] then b.attrs else a.attrs) := by
  unfold union
  simp only
  split
  · rename_i h
    have : a.labels = b.labels := by simpa using h
    simp [this]
  · rename_i h
    have h : a.labels ≠ b.labels := by simpa using h
    split
    · rename_i he
      have : a.labels = [] := by simpa using he
      have hb : b.labels ≠ [] := fun e => h (this.trans e.symm)
      simp [this, hb]
    · rename_i he
      have : a.labels ≠ [] := by simpa using he
      split <;> simp [this]

theorem intersection_attrs (a b : Axis) :
    (intersection a b).name = a.name ∧
    (intersection a b).attrs = (if a.labels ≠ b.labels ∧ (a.labels = [] ∨ b.labels = []) then [] else a.attrs) := by
  unfold intersection
  simp only
  split
  · rename_i h
    have : a.labels = b.labels := by simpa using h
    simp [this]
  · rename_i h
    have h : a.labels ≠ b.labels := by simpa using h
    split
    · rename_i he
      have : a.labels = [] ∨ b.labels = [] := by simpa using he
      simp [h, this]
    · rename_i he
      have : ¬ (a.labels = [] ∨ b.labels = []) := by simpa using he
      simp [this]

theorem align_spec {α} (nan : α) (arrays rs : List (DimArray α)) (join : Join) (axis : Option String) (sort strict : Bool)
    (h : align nan arrays join axis sort strict = .ok rs) : Pointwise MetaSame rs arrays := by
  unfold align at h
  obtain ⟨axes, _, h⟩ := bind_ok h
  refine foldlM_inv (fun arrs => Pointwise MetaSame arrs arrays) _ _ _ _ ?_ (Pointwise.refl MetaSame.refl _) h
  intro s ax s' _ hs hstep
  refine Pointwise.trans (R := MetaSame) (fun _ _ _ h1 h2 => MetaSame.trans h1 h2)
    (mapM_pointwise _ MetaSame _ _ hstep ?_) hs
  intro o _ o' ho
  split at ho
  · cases ho; exact MetaSame.refl _
  · split at ho
    · cases ho; exact MetaSame.refl _
    · exact reindexAxis_same _ _ _ _ _ _ _ _ _ ho

end C16
end DimModel

namespace DimModel
open Lib
namespace C16

/-! ### binary operations -/

theorem operation_spec {α} (nan : α) (f : α → α → α) (a b : DimArray α) (r : DimArray α × Kind × Kind)
    (h : operation nan f a b = .ok r) :
    r.1.attrs = [] ∧ ∀ p ∈ metaAll r.1.axes, p.2 = [] ∨ p ∈ metaAll a.axes ∨ p ∈ metaAll b.axes := by
  unfold operation at h
  obtain ⟨al, hal, h⟩ := bind_ok h
  obtain ⟨ad, had, h⟩ := bind_ok h
  obtain ⟨newaxes, hna, h⟩ := bind_ok h
  obtain ⟨res, _, h⟩ := bind_ok h
  split at h
  · cases h
  · cases h
    refine ⟨rfl, ?_⟩
    let src := metaAll a.axes ++ metaAll b.axes
    -- every array that enters the operation carries metadata of `a` or `b` only
    have hsrc : ∀ o ∈ ad, MetaFrom src o.axes := by
      intro o ho
      obtain ⟨x, hx, _, hxo⟩ := (alignDims_spec al ad had).2 o ho
      obtain ⟨y, hy, hxy⟩ := Pointwise.mem (align_spec nan _ _ _ _ _ _ hal) x hx
      intro p hp
      rcases hxo p hp with h0 | h1
      · exact Or.inl h0
      · right
        have := AxesLe.metaAll hxy.2.2 p h1
        rcases List.mem_cons.mp hy with rfl | hy
        · exact List.mem_append_left _ this
        · rcases List.mem_cons.mp hy with rfl | hy
          · exact List.mem_append_right _ this
          · cases hy
    have hgetD : ∀ (i : Nat) (d : DimArray α), MetaFrom src d.axes → MetaFrom src (ad.getD i d).axes := by
      intro i d hd
      by_cases hi : i < ad.length
      · rw [List.getD_eq_getElem?_getD, List.getElem?_eq_getElem hi]
        exact hsrc _ (List.getElem_mem hi)
      · rw [List.getD_eq_getElem?_getD, List.getElem?_eq_none (Nat.le_of_not_lt hi)]
        exact hd
    have h1 : MetaFrom src (ad.getD 0 a).axes :=
      hgetD 0 a (fun p hp => Or.inr (List.mem_append_left _ hp))
    have h2 : MetaFrom src (ad.getD 1 b).axes :=
      hgetD 1 b (fun p hp => Or.inr (List.mem_append_right _ hp))
    have hnew : MetaFrom src newaxes := by
      intro p hp
      obtain ⟨x, hx, hpx⟩ := mem_metaAll.mp hp
      obtain ⟨ax, hax, hstep⟩ := mapM_mem _ _ _ hna x hx
      split at hstep
      · split at hstep
        · rename_i y hfind
          cases hstep
          exact h2 p (mem_metaAll.mpr ⟨x, List.mem_of_find?_eq_some hfind, hpx⟩)
        · cases hstep
      · cases hstep
        exact h1 p (mem_metaAll.mpr ⟨x, hax, hpx⟩)
    intro p hp
    have e : newaxes.map (fun ax => ({ ax with } : Axis)) = newaxes := List.map_id' _
    rw [e] at hp
    rcases hnew p hp with h0 | h0
    · exact Or.inl h0
    · exact Or.inr (List.mem_append.mp h0)

theorem operationNd_spec {α} (f : α → α → α) (a r : DimArray α) (nd : NDArr α) (flip : Bool)
    (h : operationNd f a nd flip = .ok r) : r.attrs = [] ∧ r.axes = a.axes := by
  unfold operationNd at h
  split at h
  · cases h
  · cases flip <;> simp only [Bool.false_eq_true, if_false, if_true, bind, Except.bind, pure, Except.pure] at h
    all_goals repeat' split at h
    all_goals first
      | (cases h; done)
      | (cases h; exact ⟨rfl, rfl⟩)

/-! ### stack / concatenate -/

/-- the per-array step of `reorderLikeFirst` -/
def reorderOne {α : Type} (a0 a : DimArray α) : Except Err (DimArray α) :=
  if a.dims == a0.dims then pure a
  else match transpose a (some (a0.dims.map DimKey.name)) with
    | .ok r => pure r
    | .error _ => .error .value

theorem reorderLikeFirst_cons {α : Type} (a0 : DimArray α) (rest : List (DimArray α)) :
    reorderLikeFirst (a0 :: rest) = (a0 :: rest).mapM (reorderOne a0) := rfl

theorem reorderOne_le {α} (a0 a o : DimArray α) (h : reorderOne a0 a = .ok o) :
    o.attrs = a.attrs ∧ o.axes.Perm a.axes := by
  unfold reorderOne at h
  split at h
  · cases h; exact ⟨rfl, List.Perm.refl _⟩
  · split at h
    · rename_i r ht
      cases h
      exact transpose_spec a _ _ ht
    · cases h

theorem reorderLikeFirst_le {α} (arrays1 arrays2 : List (DimArray α)) (h : reorderLikeFirst arrays1 = .ok arrays2) :
    ∀ o2 ∈ arrays2, ∃ o1 ∈ arrays1, o2.attrs = o1.attrs ∧ o2.axes.Perm o1.axes := by
  intro o2 ho2
  cases arrays1 with
  | nil => simp [reorderLikeFirst] at h
  | cons a0 rest =>
    rw [reorderLikeFirst_cons] at h
    obtain ⟨o1, ho1, hstep⟩ := mapM_mem _ _ _ h o2 ho2
    exact ⟨o1, ho1, reorderOne_le a0 o1 o2 hstep⟩

/-- the part of `stack` after the optional alignment -/
def stackCore {α} [Inhabited α] (name : String) (keys : List Label) (keyKind : Kind) (arrays : List (DimArray α)) :
    Except Err (DimArray α) := do
  let arrays ← reorderLikeFirst arrays
  let shape0 := (arrays.head?.map (·.vals.shape)).getD []
  if arrays.any (fun a => a.vals.shape != shape0) then .error .value else
  let axes ← getAxesAligned (arrays.map (·.axes))
  if arrays.any (fun a => a.axes.any fun ax =>
      match axes.find? (·.name == ax.name) with
      | some c => c.labels != ax.labels
      | none => true) then .error .value else
  let newaxis : Axis := { name := name, labels := keys, kind := keyKind }
  if keys.length != arrays.length then .error .other else
  pure { axes := newaxis :: axes.map (fun ax => { ax with }), vals := NDArr.stackNew (arrays.map (·.vals)),
         vkind := (arrays.head?.map (·.vkind)).getD .f, attrs := [] }

theorem stack_eq {α} [Inhabited α] (nan : α) (arrays : List (DimArray α)) (axis : Option String) (keys : List Label)
    (kk : Kind) (doAlign sort : Bool) :
    stack nan arrays axis keys kk doAlign sort =
      checkStackAxis axis (getDims (arrays.map (·.axes))) >>= fun name =>
        (if doAlign then align nan arrays .outer none sort true else pure arrays) >>= stackCore name keys kk := by
  unfold stack
  cases doAlign <;> rfl

theorem stack_spec' {α} [Inhabited α] (nan : α) (arrays : List (DimArray α)) (axis : Option String) (keys : List Label)
    (kk : Kind) (doAlign sort : Bool) (r : DimArray α) (h : stack nan arrays axis keys kk doAlign sort = .ok r) :
    r.attrs = [] ∧ ∃ (name : String) (rest : List Axis),
      r.axes = { name := name, labels := keys, kind := kk } :: rest ∧
      ∀ x ∈ rest, ∃ a ∈ arrays, ∃ y ∈ a.axes, AxisLe x y := by
  rw [stack_eq] at h
  obtain ⟨name, _, h⟩ := bind_ok h
  obtain ⟨arrays1, h1, h⟩ := bind_ok h
  unfold stackCore at h
  obtain ⟨arrays2, h2, h⟩ := bind_ok h
  simp only at h
  split at h
  · cases h
  · obtain ⟨axes, h3, h⟩ := bind_ok h
    split at h
    · cases h
    · split at h
      · cases h
      · cases h
        refine ⟨rfl, name, axes, by rw [List.map_id'], ?_⟩
        intro x hx
        obtain ⟨l, hl, hxl⟩ := getAxesAligned_mem _ _ h3 x hx
        obtain ⟨o2, ho2, rfl⟩ := List.mem_map.mp hl
        obtain ⟨o1, ho1, _, hperm⟩ := reorderLikeFirst_le _ _ h2 o2 ho2
        -- back through the alignment
        have hal : ∃ a ∈ arrays, AxesLe o1.axes a.axes := by
          split at h1
          · obtain ⟨a, ha, hsame⟩ := Pointwise.mem (align_spec nan _ _ _ _ _ _ h1) o1 ho1
            exact ⟨a, ha, hsame.2.2⟩
          · cases h1
            exact ⟨o1, ho1, AxesLe.refl _⟩
        obtain ⟨a, ha, hle⟩ := hal
        obtain ⟨y, hy, hxy⟩ := hle x (hperm.mem_iff.mp hxl)
        exact ⟨a, ha, y, hy, hxy⟩

theorem eraseIdx_take_drop {β : Type} : ∀ (l : List β) (pos : Nat) (x : β), pos < l.length →
    (l.eraseIdx pos).take pos ++ [x] ++ (l.eraseIdx pos).drop pos = l.set pos x
  | [], _, _, h => by simp at h
  | a :: l, 0, x, _ => by simp
  | a :: l, pos + 1, x, h => by
    have := eraseIdx_take_drop l pos x (by simpa using h)
    simp only [List.eraseIdx_cons_succ, List.take_succ_cons, List.drop_succ_cons, List.set_cons_succ,
      List.cons_append] at this ⊢
    rw [this]

def catPos {α} (a0 : DimArray α) (axis : DimKey) : Except Err Nat :=
  match axis with
  | .name s => let p := a0.dims.idxOf s; if p < a0.dims.length then pure p else .error .value
  | .pos i =>
    let i := if i < 0 then i + (a0.ndim : Int) else i
    if i < 0 || i ≥ (a0.ndim : Int) then .error .index else pure i.toNat

def catAlign {α} (nan : α) (a0 : DimArray α) (dim : String) (doAlign sort : Bool) (arrays : List (DimArray α)) :
    Except Err (List (DimArray α)) :=
  if doAlign then
    a0.axes.foldlM (fun arrs ax => if ax.name != dim then align nan arrs .outer (some ax.name) sort true else pure arrs) arrays
  else pure arrays

def catCore {α} (a0 : DimArray α) (pos : Nat) (dim : String) (doAlign : Bool) (arrays : List (DimArray α)) :
    Except Err (DimArray α) := do
  let arrays ← reorderLikeFirst arrays
  let a0 := arrays.headD a0
  if arrays.any (fun a => a.vals.shape.eraseIdx pos != a0.vals.shape.eraseIdx pos || a.ndim != a0.ndim) then .error .value else
  let subaxes := a0.axes.eraseIdx pos
  if !doAlign && arrays.any (fun a => subaxes.any fun ax =>
      match a.axes.find? (·.name == ax.name) with
      | some x => x.labels != ax.labels
      | none => true) then .error .value else
  let catLabels := arrays.flatMap (fun a => (a.axes.getD pos default).labels)
  let catKind := arrays.foldl (fun k a => (getCastKind k (a.axes.getD pos default).kind).1) (a0.axes.getD pos default).kind
  let newaxis : Axis := { name := dim, labels := catLabels, kind := catKind }
  match concatVals (arrays.map (·.vals)) pos with
  | none => .error .value
  | some v => pure { axes := (subaxes.take pos ++ [newaxis] ++ subaxes.drop pos).map (fun ax => { ax with attrs := ax.attrs }),
                     vals := v, vkind := a0.vkind, attrs := [] }

theorem concatenate_eq {α} (nan : α) (a0 : DimArray α) (rest : List (DimArray α)) (axis : DimKey) (doAlign sort : Bool) :
    concatenate nan (a0 :: rest) axis doAlign sort =
      catPos a0 axis >>= fun pos =>
        catAlign nan a0 (a0.dims.getD pos "") doAlign sort (a0 :: rest) >>= catCore a0 pos (a0.dims.getD pos "") doAlign := by
  unfold concatenate catPos catAlign
  cases axis with
  | name s => cases doAlign <;> simp only [bind, Except.bind, pure, Except.pure] <;> split <;> rfl
  | pos i => cases doAlign <;> simp only [bind, Except.bind, pure, Except.pure] <;> split <;> split <;> rfl

theorem ite_ok {β : Type} {c : Prop} [Decidable c] {e : Err} {x : Except Err β} {r : β}
    (h : (if c then .error e else x) = .ok r) : x = .ok r := by
  split at h
  · cases h
  · exact h

theorem catPos_lt {α} (a0 : DimArray α) (axis : DimKey) (pos : Nat) (hpos : catPos a0 axis = .ok pos) :
    pos < a0.axes.length := by
  unfold catPos at hpos
  cases axis with
  | name s =>
    simp only at hpos
    split at hpos
    · rename_i hh; cases hpos; simpa [DimArray.dims] using hh
    · cases hpos
  | pos i =>
    simp only at hpos
    split at hpos <;> split at hpos <;> first
      | (cases hpos; done)
      | (cases hpos
         rename_i hh
         have hb := not_or_decide hh
         have hnd : a0.ndim = a0.axes.length := rfl
         omega)

theorem concatenate_spec' {α} (nan : α) (arrays : List (DimArray α)) (axis : DimKey) (doAlign sort : Bool)
    (r : DimArray α) (h : concatenate nan arrays axis doAlign sort = .ok r) :
    r.attrs = [] ∧ ∃ (a0 : DimArray α) (rest : List (DimArray α)) (pos : Nat), arrays = a0 :: rest ∧
      pos < a0.axes.length ∧ axisMeta r.axes = (axisMeta a0.axes).set pos ((a0.axes.getD pos default).name, []) := by
  cases arrays with
  | nil => simp [concatenate, bind, Except.bind] at h
  | cons a0 rest =>
    rw [concatenate_eq] at h
    obtain ⟨pos, hpos, h⟩ := bind_ok h
    obtain ⟨arrays1, h1, h⟩ := bind_ok h
    have hlt := catPos_lt a0 axis pos hpos
    -- the first array keeps its axis metadata through the alignment and the reordering
    have hP : Pointwise MetaSame arrays1 (a0 :: rest) := by
      unfold catAlign at h1
      split at h1
      · refine foldlM_inv (fun arrs => Pointwise MetaSame arrs (a0 :: rest)) _ _ _ _ ?_
          (Pointwise.refl MetaSame.refl _) h1
        intro s ax s' _ hs hstep
        split at hstep
        · exact Pointwise.trans (R := MetaSame) (fun _ _ _ h1 h2 => MetaSame.trans h1 h2)
            (align_spec nan _ _ _ _ _ _ hstep) hs
        · cases hstep; exact hs
      · cases h1; exact Pointwise.refl MetaSame.refl _
    cases arrays1 with
    | nil => have := hP.1; simp at this
    | cons b0 rest1 =>
      have hb0 : MetaSame b0 a0 := hP.2 0 (by simp) (by simp)
      unfold catCore at h
      obtain ⟨arrays2, h2, h⟩ := bind_ok h
      obtain ⟨t, rfl⟩ := C12.reorderLikeFirst_head b0 rest1 arrays2 h2
      simp only [List.headD_cons] at h
      have h := ite_ok (ite_ok h)
      split at h
      · cases h
      · cases h
        refine ⟨rfl, a0, rest, pos, rfl, hlt, ?_⟩
        have hlt' : pos < b0.axes.length := by
          have := congrArg List.length hb0.2.1
          simp only [axisMeta_length] at this
          omega
        simp only
        rw [List.map_id', eraseIdx_take_drop _ _ _ hlt', axisMeta_set, hb0.2.1]
        congr 2
        simp only [DimArray.dims]
        rw [List.getD_eq_getElem?_getD, List.getElem?_map, List.getElem?_eq_getElem hlt, axis_getD_mem _ _ hlt]
        rfl

end C16
end DimModel

namespace DimModel
open Lib

/-- as `AxisAttrsKept`, for every axis but the one called `d` -/
def AxisAttrsKeptExcept (d : String) (src dst : List Axis) : Prop :=
  ∀ ax' ∈ dst, ∀ ax ∈ src, ax'.name = ax.name → ax.name ≠ d → ax'.attrs = ax.attrs

namespace C16

theorem keptExcept_of_set {src dst : List Axis} {pos : Nat} {d : String} {X : Attrs}
    (h : axisMeta dst = (axisMeta src).set pos (d, X)) (hn : (src.map (·.name)).Nodup) :
    AxisAttrsKeptExcept d src dst := by
  intro ax' hax' ax hax hname hne
  have hp : (ax'.name, ax'.attrs) ∈ (axisMeta src).set pos (d, X) := h ▸ mem_axisMeta.mpr ⟨ax', hax', rfl, rfl⟩
  rcases List.mem_or_eq_of_mem_set hp with hp | hp
  · obtain ⟨ax2, hax2, hn2, ha2⟩ := mem_axisMeta.mp hp
    have : ax2 = ax := name_inj hn hax2 hax (hn2.trans hname)
    subst this
    exact ha2.symm
  · have : ax'.name = d := congrArg Prod.fst hp
    exact absurd (hname ▸ this) hne

theorem kept_of_mem {src dst : List Axis} (h : ∀ x ∈ dst, x ∈ src) (hn : (src.map (·.name)).Nodup) :
    AxisAttrsKept src dst := by
  intro ax' hax' ax hax hname
  rw [name_inj hn (h ax' hax') hax hname]

theorem commonAxis_attrs (join : Join) : ∀ (l : List Axis) (c : Axis), commonAxis join l = some c →
    c.attrs = [] ∨ ∃ x ∈ l, c.attrs = x.attrs
  | [], c, h => by simp [commonAxis] at h
  | [ax], c, h => by
    simp only [commonAxis, Option.some.injEq] at h
    subst h; exact Or.inr ⟨_, List.mem_singleton.mpr rfl, rfl⟩
  | ax0 :: ax1' :: rest, c, h => by
    unfold commonAxis at h
    have ih := commonAxis_attrs join (ax1' :: rest)
    split at h
    · cases h; exact Or.inr ⟨_, List.mem_cons_self, rfl⟩
    · rename_i ax1 h1
      have ih1 := ih ax1 h1
      have lift : (ax1.attrs = [] ∨ ∃ x ∈ ax1' :: rest, ax1.attrs = x.attrs) →
          (ax1.attrs = [] ∨ ∃ x ∈ ax0 :: ax1' :: rest, ax1.attrs = x.attrs) := by
        rintro (h | ⟨x, hx, h⟩)
        · exact Or.inl h
        · exact Or.inr ⟨x, List.mem_cons_of_mem _ hx, h⟩
      split at h
      · cases h; exact lift ih1
      · split at h
        · cases h; exact Or.inr ⟨_, List.mem_cons_self, rfl⟩
        · cases join with
          | outer =>
            simp only [Option.some.injEq] at h
            subst h
            rw [(union_attrs ax0 ax1).2]
            split
            · exact lift ih1
            · exact Or.inr ⟨_, List.mem_cons_self, rfl⟩
          | inner =>
            simp only [Option.some.injEq] at h
            subst h
            rw [(intersection_attrs ax0 ax1).2]
            split
            · exact Or.inl rfl
            · exact Or.inr ⟨_, List.mem_cons_self, rfl⟩

/-- reshape on plain arrays towards plain names: surviving axes are kept as they are -/
theorem reshape_plain {α} (a r : DimArray α) (hw : a.WF) (hpa : PlainAxes a.axes) (newdims : List String)
    (hnd : newdims.Nodup) (hpn : ∀ d ∈ newdims, PlainName d)
    (hfit : ∀ ax ∈ a.axes, ax.name ∉ newdims → ax.size = 1) (h : reshape a newdims = .ok r) :
    (∀ ax ∈ a.axes, ax.name ∈ newdims → ax ∈ r.axes) ∧ (∀ ax ∈ r.axes, ax ∈ a.axes ∨ ax = noneAxis ax.name) ∧
      AxisAttrsKept a.axes r.axes := by
  obtain ⟨o, e, wo, _, _, hd, _, m1, m2⟩ := C10.reshape_plain_ok a hw hpa newdims hnd hpn hfit
  rw [h] at e
  cases e
  refine ⟨m1, m2, ?_⟩
  intro ax' hax' ax hax hname
  rcases m2 ax' hax' with hin | _
  · rw [name_inj hw.2.1 hin hax hname]
  · have hmem : ax.name ∈ newdims := by
      rw [← hd, ← hname]; exact List.mem_map.mpr ⟨ax', hax', rfl⟩
    rw [name_inj wo.2.1 hax' (m1 ax hax hmem) hname]

end C16
end DimModel

namespace DimModel
open Lib
namespace C16

/-- broadcast on plain arrays: an axis of `a` is kept as it is, unless it has a single position and the target
axis has not - then it is replaced by a fresh axis with the target's labels (`t.bare`: without the target's metadata) -/
theorem broadcast_plain {α} (a r : DimArray α) (hw : a.WF) (hpa : PlainAxes a.axes) (target : List Axis)
    (hpt : PlainAxes target) (hnd : (target.map (·.name)).Nodup) (hpn : ∀ t ∈ target, PlainName t.name)
    (hfit : ∀ ax ∈ a.axes, ax.name ∉ target.map (·.name) → ax.size = 1) (h : broadcast a target = .ok r) :
    (∀ ax' ∈ r.axes, ∃ t ∈ target, ax' = bcastAxis a t) ∧
    ∀ ax' ∈ r.axes, ∀ ax ∈ a.axes, ax'.name = ax.name → ax' = ax ∨ (ax.size = 1 ∧ ∃ t ∈ target, ax' = t.bare) := by
  obtain ⟨o, e, hd, hk, _⟩ := C10.broadcast_ok a hw hpa target hpt hnd hpn hfit
  rw [h] at e
  cases e
  have hmem : ∀ ax' ∈ r.axes, ∃ t ∈ target, ax' = bcastAxis a t := by
    intro ax' hax'
    obtain ⟨k, hk1, rfl⟩ := List.getElem_of_mem hax'
    have hlen : r.axes.length = target.length := by
      have := congrArg List.length hd
      simpa [DimArray.dims] using this
    have hk2 : k < target.length := hlen ▸ hk1
    have := hk k target[k] (List.getElem?_eq_getElem hk2)
    rw [List.getElem?_eq_getElem hk1] at this
    exact ⟨target[k], List.getElem_mem _, Option.some.inj this⟩
  refine ⟨hmem, ?_⟩
  intro ax' hax' ax hax hname
  obtain ⟨t, ht, rfl⟩ := hmem ax' hax'
  unfold bcastAxis at hname ⊢
  split at hname
  · rename_i ax0 hfind
    have h0 : ax0 ∈ a.axes := List.mem_of_find?_eq_some hfind
    have hn0 : ax0.name = t.name := by simpa using List.find?_some hfind
    split at hname
    · rename_i hc
      have hc' : ax0.size = 1 := by
        simp only [Bool.and_eq_true, beq_iff_eq] at hc
        exact hc.1
      have : ax0 = ax := name_inj hw.2.1 h0 hax (hn0.trans hname)
      subst this
      simp only [hc, if_true]
      exact Or.inr ⟨hc', t, ht, rfl⟩
    · rename_i hc
      have : ax0 = ax := name_inj hw.2.1 h0 hax hname
      subst this
      simp only [hc, if_false]
      exact Or.inl rfl
  · rename_i hfind
    exfalso
    have := List.find?_eq_none.mp hfind ax hax
    simp only [beq_iff_eq] at this
    exact this hname.symm

end C16
end DimModel

/-
Helper lemmas for C15 (object-level model).
-/
import DimModel.Lib.Heap
namespace DimModel
namespace Heap

/-! ### definitions used by the statements of Props/C15.lean (moved here verbatim) -/

/-- the references an object holds -/
def refs : Obj → List Ref
  | .buf _ => []
  | .mlist _ => []
  | .dict kv => kv.filterMap fun e => match e.2 with | .list r => some r | .atom _ => none
  | .axis _ labels _ attrs => [labels, attrs]
  | .arr vals _ _ axes attrs => vals :: attrs :: axes

/-- well-formed heap: no dangling reference, every reference has the type its holder expects -/
def WFObj (h : H) : Obj → Prop
  | .buf _ => True
  | .mlist _ => True
  | .dict kv => ∀ e ∈ kv, match e.2 with
      | .atom _ => True
      | .list r => ∃ items, h[r]? = some (.mlist items)
  | .axis _ labels _ attrs => (∃ c, h[labels]? = some (.buf c)) ∧ (∃ kv, h[attrs]? = some (.dict kv))
  | .arr vals _ _ axes attrs =>
      (∃ c, h[vals]? = some (.buf c)) ∧ (∃ kv, h[attrs]? = some (.dict kv)) ∧
      ∀ a ∈ axes, ∃ n l v t, h[a]? = some (.axis n l v t)

def WF (h : H) : Prop := ∀ o ∈ h, WFObj h o

/-- the live arrays are arrays of the heap -/
def EnvOK (s : St) : Prop := ∀ r ∈ s.env, ∃ v w sh ax t, s.h[r]? = some (.arr v w sh ax t)

/-- separation at `n`: objects below `n` refer below `n`, objects from `n` on refer from `n` on -/
def Sep (n : Nat) (h : H) : Prop :=
  ∀ i o, h[i]? = some o → (i < n → ∀ r ∈ refs o, r < n) ∧ (n ≤ i → ∀ r ∈ refs o, n ≤ r)

/-- a sequence of mutations, each through some array -/
def mutateAll (h : H) (ms : List (Ref × Mut)) : H := ms.foldl (fun hh rm => mutate hh rm.1 rm.2) h

/-! ### basic facts: allocation, growth -/

def Grows (h h' : H) : Prop := ∃ new, h' = h ++ new

theorem Grows.refl (h : H) : Grows h h := ⟨[], by simp⟩

theorem Grows.trans {a b c : H} : Grows a b → Grows b c → Grows a c := by
  rintro ⟨x, rfl⟩ ⟨y, rfl⟩
  exact ⟨x ++ y, by simp⟩

theorem Grows.alloc (h : H) (o : Obj) : Grows h (alloc h o).1 := ⟨[o], rfl⟩

theorem Grows.append (h new : H) : Grows h (h ++ new) := ⟨new, rfl⟩

theorem Grows.get {h h' : H} {i : Nat} {o : Obj} (hg : Grows h h') (hi : h[i]? = some o) :
    h'[i]? = some o := by
  obtain ⟨new, rfl⟩ := hg
  have hlt : i < h.length := by
    cases Nat.lt_or_ge i h.length with
    | inl h1 => exact h1
    | inr h1 => rw [List.getElem?_eq_none h1] at hi; cases hi
  rw [List.getElem?_append_left hlt]; exact hi

theorem Grows.le {h h' : H} (hg : Grows h h') : h.length ≤ h'.length := by
  obtain ⟨new, rfl⟩ := hg
  simp

theorem lt_of_get {h : H} {i : Nat} {o : Obj} (hi : h[i]? = some o) : i < h.length := by
  cases Nat.lt_or_ge i h.length with
  | inl h1 => exact h1
  | inr h1 => rw [List.getElem?_eq_none h1] at hi; cases hi

theorem mem_refs_dict {kv : List (String × MVal)} {r : Ref} :
    r ∈ refs (.dict kv) ↔ ∃ k, (k, MVal.list r) ∈ kv := by
  simp only [refs, List.mem_filterMap]
  constructor
  · rintro ⟨⟨k, v⟩, he, hv⟩
    cases v with
    | atom s => simp at hv
    | list r2 => simp at hv; subst hv; exact ⟨k, he⟩
  · rintro ⟨k, he⟩
    exact ⟨(k, .list r), he, rfl⟩

theorem WFObj_dict {h : H} {kv : List (String × MVal)} :
    WFObj h (.dict kv) ↔ ∀ k r, (k, MVal.list r) ∈ kv → ∃ items, h[r]? = some (.mlist items) := by
  simp only [WFObj]
  constructor
  · intro hw k r he
    exact hw (k, .list r) he
  · intro hw e he
    rcases e with ⟨k, v⟩
    cases v with
    | atom s => trivial
    | list r => exact hw k r he

theorem WFObj_mono {h h' : H} {o : Obj} (hg : Grows h h') (hw : WFObj h o) : WFObj h' o := by
  cases o with
  | buf c => trivial
  | mlist c => trivial
  | dict kv =>
    rw [WFObj_dict] at hw ⊢
    intro k r he
    obtain ⟨items, hi⟩ := hw k r he
    exact ⟨items, hg.get hi⟩
  | axis n l v t =>
    obtain ⟨⟨c, hc⟩, ⟨kv, hk⟩⟩ := hw
    exact ⟨⟨c, hg.get hc⟩, ⟨kv, hg.get hk⟩⟩
  | arr vals view shape axes attrs =>
    obtain ⟨⟨c, hc⟩, ⟨kv, hk⟩, hax⟩ := hw
    refine ⟨⟨c, hg.get hc⟩, ⟨kv, hg.get hk⟩, ?_⟩
    intro a ha
    obtain ⟨n, l, v, t, hh⟩ := hax a ha
    exact ⟨n, l, v, t, hg.get hh⟩

/-- under WF every reference of every object points into the heap -/
theorem WFObj_refs_lt {h : H} {o : Obj} (hw : WFObj h o) : ∀ r ∈ refs o, r < h.length := by
  intro r hr
  cases o with
  | buf c => simp [refs] at hr
  | mlist c => simp [refs] at hr
  | dict kv =>
    rw [mem_refs_dict] at hr
    obtain ⟨k, he⟩ := hr
    obtain ⟨items, hi⟩ := (WFObj_dict.mp hw) k r he
    exact lt_of_get hi
  | axis n l v t =>
    obtain ⟨⟨c, hc⟩, ⟨kv, hk⟩⟩ := hw
    simp only [refs, List.mem_cons, List.not_mem_nil, or_false] at hr
    rcases hr with rfl | rfl
    · exact lt_of_get hc
    · exact lt_of_get hk
  | arr vals view shape axes attrs =>
    obtain ⟨⟨c, hc⟩, ⟨kv, hk⟩, hax⟩ := hw
    simp only [refs, List.mem_cons] at hr
    rcases hr with rfl | rfl | hr
    · exact lt_of_get hc
    · exact lt_of_get hk
    · obtain ⟨n, l, v, t, hh⟩ := hax r hr
      exact lt_of_get hh

/-! ### regions: a set of references closed under "refers to" -/

def RClosed (S : Nat → Prop) (h : H) : Prop := ∀ i o, h[i]? = some o → S i → ∀ r ∈ refs o, S r

theorem Sep.below {n : Nat} {h : H} (hs : Sep n h) : RClosed (fun i => i < n) h :=
  fun i o hi hS => (hs i o hi).1 hS

theorem Sep.above {n : Nat} {h : H} (hs : Sep n h) : RClosed (fun i => n ≤ i) h :=
  fun i o hi hS => (hs i o hi).2 hS

theorem Sep.mk2 {n : Nat} {h : H} (h1 : RClosed (fun i => i < n) h) (h2 : RClosed (fun i => n ≤ i) h) :
    Sep n h := fun i o hi => ⟨h1 i o hi, h2 i o hi⟩

theorem WF.closed {h : H} (hwf : WF h) : RClosed (fun i => i < h.length) h :=
  fun _ o hi _ => WFObj_refs_lt (hwf o (List.mem_of_getElem? hi))

/-! ### observations read inside a closed region only -/

section Region
variable {S : Nat → Prop} {h h2 : H}

theorem readBuf_agree (hag : ∀ i, S i → h2[i]? = h[i]?) {r : Ref} (hr : S r) (view : List Nat) :
    readBuf h2 r view = readBuf h r view := by
  unfold readBuf; rw [hag r hr]

theorem obsVal_agree (hag : ∀ i, S i → h2[i]? = h[i]?) {v : MVal} (hv : ∀ r, v = .list r → S r) :
    obsVal h2 v = obsVal h v := by
  cases v with
  | atom s => rfl
  | list r => simp only [obsVal]; rw [hag r (hv r rfl)]

theorem obsDict_agree (hcl : RClosed S h) (hag : ∀ i, S i → h2[i]? = h[i]?) {r : Ref} (hr : S r) :
    obsDict h2 r = obsDict h r := by
  unfold obsDict; rw [hag r hr]
  cases hx : h[r]? with
  | none => rfl
  | some o =>
    cases o with
    | dict kv =>
      simp only []
      apply List.map_congr_left
      rintro ⟨k, v⟩ he
      simp only []
      rw [obsVal_agree hag]
      intro lr hlr
      subst hlr
      exact hcl r _ hx hr lr (mem_refs_dict.mpr ⟨k, he⟩)
    | _ => rfl

theorem obsAxis_agree (hcl : RClosed S h) (hag : ∀ i, S i → h2[i]? = h[i]?) {r : Ref} (hr : S r) :
    obsAxis h2 r = obsAxis h r := by
  unfold obsAxis; rw [hag r hr]
  cases hx : h[r]? with
  | none => rfl
  | some o =>
    cases o with
    | axis name labels view attrs =>
      simp only []
      have e1 : S labels := hcl r _ hx hr labels (by simp [refs])
      have e2 : S attrs := hcl r _ hx hr attrs (by simp [refs])
      rw [readBuf_agree hag e1, obsDict_agree hcl hag e2]
    | _ => rfl

theorem obsArr_agree (hcl : RClosed S h) (hag : ∀ i, S i → h2[i]? = h[i]?) {q : Ref} (hq : S q) :
    obsArr h2 q = obsArr h q := by
  unfold obsArr; rw [hag q hq]
  cases hx : h[q]? with
  | none => rfl
  | some o =>
    cases o with
    | arr vals view shape axes attrs =>
      simp only []
      have e1 : S vals := hcl q _ hx hq vals (by simp [refs])
      have e2 : S attrs := hcl q _ hx hq attrs (by simp [refs])
      have h3 : ∀ a ∈ axes, S a := fun a ha => hcl q _ hx hq a (by simp [refs, ha])
      rw [readBuf_agree hag e1, obsDict_agree hcl hag e2]
      have : axes.map (obsAxis h2) = axes.map (obsAxis h) :=
        List.map_congr_left fun a ha => obsAxis_agree hcl hag (h3 a ha)
      rw [this]
    | _ => rfl

end Region

/-- agreement below the old length after growth -/
theorem Grows.agree {h h' : H} (hg : Grows h h') : ∀ i, i < h.length → h'[i]? = h[i]? := by
  obtain ⟨new, rfl⟩ := hg
  intro i hi
  exact List.getElem?_append_left hi

theorem obsArr_grows {h h' : H} (hwf : WF h) (hg : Grows h h') {q : Ref} (hq : q < h.length) :
    obsArr h' q = obsArr h q :=
  obsArr_agree (S := fun i => i < h.length) hwf.closed hg.agree hq

theorem obsAxis_grows {h h' : H} (hwf : WF h) (hg : Grows h h') {q : Ref} (hq : q < h.length) :
    obsAxis h' q = obsAxis h q :=
  obsAxis_agree (S := fun i => i < h.length) hwf.closed hg.agree hq

theorem obsDict_grows {h h' : H} (hwf : WF h) (hg : Grows h h') {q : Ref} (hq : q < h.length) :
    obsDict h' q = obsDict h q :=
  obsDict_agree (S := fun i => i < h.length) hwf.closed hg.agree hq

theorem readBuf_grows {h h' : H} (hg : Grows h h') {q : Ref} (hq : q < h.length) (view : List Nat) :
    readBuf h' q view = readBuf h q view :=
  readBuf_agree (S := fun i => i < h.length) hg.agree hq view

/-! ### in-place updates -/

def kind : Obj → Nat
  | .buf _ => 0
  | .mlist _ => 1
  | .dict _ => 2
  | .axis _ _ _ _ => 3
  | .arr _ _ _ _ _ => 4

theorem get_buf_iff {h : H} {r : Ref} : (∃ c, h[r]? = some (.buf c)) ↔ (h[r]?).map kind = some 0 := by
  cases h[r]? with
  | none => simp
  | some o => cases o <;> simp [kind]

theorem get_mlist_iff {h : H} {r : Ref} : (∃ c, h[r]? = some (.mlist c)) ↔ (h[r]?).map kind = some 1 := by
  cases h[r]? with
  | none => simp
  | some o => cases o <;> simp [kind]

theorem get_dict_iff {h : H} {r : Ref} : (∃ c, h[r]? = some (.dict c)) ↔ (h[r]?).map kind = some 2 := by
  cases h[r]? with
  | none => simp
  | some o => cases o <;> simp [kind]

theorem get_axis_iff {h : H} {r : Ref} :
    (∃ n l v t, h[r]? = some (.axis n l v t)) ↔ (h[r]?).map kind = some 3 := by
  cases h[r]? with
  | none => simp
  | some o => cases o <;> simp [kind]

theorem WFObj_kind {h h' : H} {o : Obj} (hk : ∀ r : Nat, (h'[r]?).map kind = (h[r]?).map kind)
    (hw : WFObj h o) : WFObj h' o := by
  cases o with
  | buf c => trivial
  | mlist c => trivial
  | dict kv =>
    rw [WFObj_dict] at hw ⊢
    intro k r he
    have := hw k r he
    rw [get_mlist_iff] at this ⊢
    rw [hk]; exact this
  | axis n l v t =>
    obtain ⟨h1, h2⟩ := hw
    rw [get_buf_iff] at h1; rw [get_dict_iff] at h2
    refine ⟨?_, ?_⟩
    · rw [get_buf_iff, hk]; exact h1
    · rw [get_dict_iff, hk]; exact h2
  | arr vals view shape axes attrs =>
    obtain ⟨h1, h2, h3⟩ := hw
    rw [get_buf_iff] at h1; rw [get_dict_iff] at h2
    refine ⟨?_, ?_, ?_⟩
    · rw [get_buf_iff, hk]; exact h1
    · rw [get_dict_iff, hk]; exact h2
    · intro a ha
      have := h3 a ha
      rw [get_axis_iff] at this ⊢
      rw [hk]; exact this

/-- a single type-preserving, reference-non-increasing in-place update of the (non-array) object at `a` -/
def Upd (h h' : H) (a : Ref) : Prop :=
  ∃ o o', h[a]? = some o ∧ h' = h.set a o' ∧ kind o' = kind o ∧ kind o ≠ 4 ∧
    (∀ x ∈ refs o', x ∈ refs o) ∧ (WF h → WFObj h o')

theorem Upd.length {h h' : H} {a : Ref} (hu : Upd h h' a) : h'.length = h.length := by
  obtain ⟨o, o', _, rfl, _⟩ := hu
  simp

theorem Upd.get_ne {h h' : H} {a : Ref} (hu : Upd h h' a) {i : Nat} (hi : i ≠ a) : h'[i]? = h[i]? := by
  obtain ⟨o, o', _, rfl, _⟩ := hu
  rw [List.getElem?_set]
  simp [Ne.symm hi]

theorem Upd.get_self {h h' : H} {a : Ref} (hu : Upd h h' a) :
    ∃ o o', h[a]? = some o ∧ h'[a]? = some o' ∧ kind o' = kind o ∧ kind o ≠ 4 ∧
      (∀ x ∈ refs o', x ∈ refs o) ∧ (WF h → WFObj h o') := by
  obtain ⟨o, o', ho, rfl, hk, h4, hr, hw⟩ := hu
  refine ⟨o, o', ho, ?_, hk, h4, hr, hw⟩
  rw [List.getElem?_set]
  simp [lt_of_get ho]

theorem Upd.kind_eq {h h' : H} {a : Ref} (hu : Upd h h' a) (r : Nat) :
    (h'[r]?).map kind = (h[r]?).map kind := by
  by_cases hra : r = a
  · subst hra
    obtain ⟨o, o', ho, ho', hk, _⟩ := hu.get_self
    rw [ho, ho']; simp [hk]
  · rw [hu.get_ne hra]

theorem Upd.refs_sub {h h' : H} {a : Ref} (hu : Upd h h' a) {i : Nat} {o' : Obj} (hi : h'[i]? = some o') :
    ∃ o, h[i]? = some o ∧ ∀ x ∈ refs o', x ∈ refs o := by
  by_cases hia : i = a
  · subst hia
    obtain ⟨o, o2, ho, ho', _, _, hr, _⟩ := hu.get_self
    rw [ho'] at hi; cases hi
    exact ⟨o, ho, hr⟩
  · rw [hu.get_ne hia] at hi
    exact ⟨o', hi, fun _ hx => hx⟩

theorem Upd.rclosed {h h' : H} {a : Ref} (hu : Upd h h' a) {S : Nat → Prop} (hcl : RClosed S h) :
    RClosed S h' := by
  intro i o' hi hS r hr
  obtain ⟨o, ho, hsub⟩ := hu.refs_sub hi
  exact hcl i o ho hS r (hsub r hr)

theorem Upd.wf {h h' : H} {a : Ref} (hu : Upd h h' a) (hwf : WF h) : WF h' := by
  intro o' ho'
  obtain ⟨i, hi⟩ := List.getElem?_of_mem ho'
  apply WFObj_kind (h := h) hu.kind_eq
  by_cases hia : i = a
  · subst hia
    obtain ⟨o, o2, ho, ho2, _, _, _, hw⟩ := hu.get_self
    rw [ho2] at hi; cases hi
    exact hw hwf
  · rw [hu.get_ne hia] at hi
    exact hwf o' (List.mem_of_getElem? hi)

theorem Upd.arr {h h' : H} {a : Ref} (hu : Upd h h' a) {i : Nat} {v w sh ax t}
    (hi : h[i]? = some (.arr v w sh ax t)) : h'[i]? = some (.arr v w sh ax t) := by
  by_cases hia : i = a
  · subst hia
    obtain ⟨o, o2, ho, _, _, h4, _⟩ := hu.get_self
    rw [ho] at hi; cases hi
    simp [kind] at h4
  · rw [hu.get_ne hia]; exact hi

/-! primitives -/

theorem writeBuf_upd (h : H) (r p : Nat) (v : Int) : writeBuf h r p v = h ∨ Upd h (writeBuf h r p v) r := by
  unfold writeBuf
  cases hx : h[r]? with
  | none => left; rfl
  | some o =>
    cases o with
    | buf cells =>
      simp only []
      split
      · right
        exact ⟨_, _, hx, rfl, rfl, by simp [kind], by simp [refs], fun _ => trivial⟩
      · left; rfl
    | _ => left; rfl

theorem dictSet_upd (h : H) (r : Nat) (key s : String) :
    dictSet h r key (.atom s) = h ∨ Upd h (dictSet h r key (.atom s)) r := by
  unfold dictSet
  cases hx : h[r]? with
  | none => left; rfl
  | some o =>
    cases o with
    | dict kv =>
      simp only []
      right
      split
      · refine ⟨_, _, hx, rfl, rfl, by simp [kind], ?_, ?_⟩
        · intro x hx2
          rw [mem_refs_dict] at hx2 ⊢
          obtain ⟨k, hk⟩ := hx2
          rw [List.mem_map] at hk
          obtain ⟨e, he, heq⟩ := hk
          split at heq
          · cases heq
          · subst heq; exact ⟨k, he⟩
        · intro hwf
          have hw := hwf _ (List.mem_of_getElem? hx)
          rw [WFObj_dict] at hw ⊢
          intro k lr hk
          rw [List.mem_map] at hk
          obtain ⟨e, he, heq⟩ := hk
          split at heq
          · cases heq
          · subst heq; exact hw k lr he
      · refine ⟨_, _, hx, rfl, rfl, by simp [kind], ?_, ?_⟩
        · intro x hx2
          rw [mem_refs_dict] at hx2 ⊢
          obtain ⟨k, hk⟩ := hx2
          rw [List.mem_append] at hk
          rcases hk with hk | hk
          · exact ⟨k, hk⟩
          · simp at hk
        · intro hwf
          have hw := hwf _ (List.mem_of_getElem? hx)
          rw [WFObj_dict] at hw ⊢
          intro k lr hk
          rw [List.mem_append] at hk
          rcases hk with hk | hk
          · exact hw k lr hk
          · simp at hk
    | _ => left; rfl

theorem dictAppend_upd (h : H) (r : Nat) (key item : String) :
    dictAppend h r key item = h ∨
      ∃ lr, (∃ kv, h[r]? = some (.dict kv) ∧ lr ∈ refs (.dict kv)) ∧ Upd h (dictAppend h r key item) lr := by
  unfold dictAppend
  cases hx : h[r]? with
  | none => left; rfl
  | some o =>
    cases o with
    | dict kv =>
      simp only []
      split
      · next k lr hf =>
        have hmem := List.mem_of_find?_eq_some hf
        cases hy : h[lr]? with
        | none => left; rfl
        | some o2 =>
          cases o2 with
          | mlist items =>
            right
            refine ⟨lr, ⟨kv, rfl, mem_refs_dict.mpr ⟨k, hmem⟩⟩, ?_⟩
            exact ⟨_, _, hy, rfl, rfl, by simp [kind], by simp [refs], fun _ => trivial⟩
          | _ => left; rfl
      · left; rfl
    | _ => left; rfl

theorem getD_eq_or_mem (l : List Nat) (d x : Nat) : l.getD d x = x ∨ l.getD d x ∈ l := by
  rw [List.getD_eq_getElem?_getD]
  cases hx : l[d]? with
  | none => left; rfl
  | some y => right; exact List.mem_of_getElem? hx

/-- every mutation is the identity or one update of an object reachable from the array -/
theorem mutate_cases (h : H) (r : Ref) (m : Mut) :
    mutate h r m = h ∨ ∃ a, Upd h (mutate h r m) a ∧ ∀ S : Nat → Prop, RClosed S h → S r → S a := by
  unfold mutate
  cases hx : h[r]? with
  | none => left; rfl
  | some o =>
    cases o with
    | arr vals view shape axes attrs =>
      have hvals : ∀ S : Nat → Prop, RClosed S h → S r → S vals :=
        fun S hcl hr => hcl r _ hx hr vals (by simp [refs])
      have hattrs : ∀ S : Nat → Prop, RClosed S h → S r → S attrs :=
        fun S hcl hr => hcl r _ hx hr attrs (by simp [refs])
      have haxes : ∀ a ∈ axes, ∀ S : Nat → Prop, RClosed S h → S r → S a :=
        fun a ha S hcl hr => hcl r _ hx hr a (by simp [refs, ha])
      have hax : ∀ d o2, h[axes.getD d h.length]? = some o2 →
          ∀ S : Nat → Prop, RClosed S h → S r → S (axes.getD d h.length) := by
        intro d o2 ho2
        rcases getD_eq_or_mem axes d h.length with he | he
        · rw [he] at ho2; simp at ho2
        · exact haxes _ he
      cases m with
      | setVal pos v =>
        simp only []
        split
        · rcases writeBuf_upd h vals (view.getD pos 0) v with e | e
          · left; exact e
          · right; exact ⟨vals, e, hvals⟩
        · left; rfl
      | setAttr key v =>
        simp only []
        rcases dictSet_upd h attrs key v with e | e
        · left; exact e
        · right; exact ⟨attrs, e, hattrs⟩
      | appendAttr key item =>
        simp only []
        rcases dictAppend_upd h attrs key item with e | ⟨lr, ⟨kv, hkv, hlr⟩, e⟩
        · left; exact e
        · right
          exact ⟨lr, e, fun S hcl hr => hcl attrs _ hkv (hattrs S hcl hr) lr hlr⟩
      | setLabel d i v =>
        simp only []
        cases hy : h[axes.getD d h.length]? with
        | none => left; rfl
        | some o2 =>
          cases o2 with
          | axis n labels lview aattrs =>
            simp only []
            split
            · rcases writeBuf_upd h labels (lview.getD i 0) v with e | e
              · left; exact e
              · right
                exact ⟨labels, e, fun S hcl hr => hcl _ _ hy (hax d _ hy S hcl hr) labels (by simp [refs])⟩
            · left; rfl
          | _ => left; rfl
      | rename d name =>
        simp only []
        cases hy : h[axes.getD d h.length]? with
        | none => left; rfl
        | some o2 =>
          cases o2 with
          | axis n labels lview aattrs =>
            right
            refine ⟨axes.getD d h.length, ⟨_, _, hy, rfl, rfl, by simp [kind], fun x hx2 => hx2, ?_⟩,
              hax d _ hy⟩
            intro hwf
            have hw : WFObj h (.axis n labels lview aattrs) := hwf _ (List.mem_of_getElem? hy)
            exact hw
          | _ => left; rfl
      | setAxisAttr d key v =>
        simp only []
        cases hy : h[axes.getD d h.length]? with
        | none => left; rfl
        | some o2 =>
          cases o2 with
          | axis n labels lview aattrs =>
            simp only []
            rcases dictSet_upd h aattrs key v with e | e
            · left; exact e
            · right
              exact ⟨aattrs, e, fun S hcl hr => hcl _ _ hy (hax d _ hy S hcl hr) aattrs (by simp [refs])⟩
          | _ => left; rfl
      | appendAxisAttr d key item =>
        simp only []
        cases hy : h[axes.getD d h.length]? with
        | none => left; rfl
        | some o2 =>
          cases o2 with
          | axis n labels lview aattrs =>
            simp only []
            rcases dictAppend_upd h aattrs key item with e | ⟨lr, ⟨kv, hkv, hlr⟩, e⟩
            · left; exact e
            · right
              exact ⟨lr, e, fun S hcl hr =>
                hcl aattrs _ hkv (hcl _ _ hy (hax d _ hy S hcl hr) aattrs (by simp [refs])) lr hlr⟩
          | _ => left; rfl
    | _ => left; rfl


/-! ### consequences for `mutate` -/

theorem mutate_length (h : H) (r : Ref) (m : Mut) : (mutate h r m).length = h.length := by
  rcases mutate_cases h r m with e | ⟨a, hu, _⟩
  · rw [e]
  · exact hu.length

theorem mutate_rclosed {S : Nat → Prop} {h : H} (hcl : RClosed S h) (r : Ref) (m : Mut) :
    RClosed S (mutate h r m) := by
  rcases mutate_cases h r m with e | ⟨a, hu, _⟩
  · rw [e]; exact hcl
  · exact hu.rclosed hcl

theorem mutate_wf {h : H} (hwf : WF h) (r : Ref) (m : Mut) : WF (mutate h r m) := by
  rcases mutate_cases h r m with e | ⟨a, hu, _⟩
  · rw [e]; exact hwf
  · exact hu.wf hwf

theorem mutate_arr {h : H} (r : Ref) (m : Mut) {i : Nat} {v w sh ax t}
    (hi : h[i]? = some (.arr v w sh ax t)) : (mutate h r m)[i]? = some (.arr v w sh ax t) := by
  rcases mutate_cases h r m with e | ⟨a, hu, _⟩
  · rw [e]; exact hi
  · exact hu.arr hi

/-- a mutation through an array of a closed region writes inside the region only -/
theorem mutate_frame {S : Nat → Prop} {h : H} (hcl : RClosed S h) {r : Ref} (hr : S r) (m : Mut) :
    ∀ i, ¬ S i → (mutate h r m)[i]? = h[i]? := by
  intro i hi
  rcases mutate_cases h r m with e | ⟨a, hu, ha⟩
  · rw [e]
  · apply hu.get_ne
    intro hia
    subst hia
    exact hi (ha S hcl hr)

theorem mutate_sep {n : Nat} {h : H} (hs : Sep n h) (r : Ref) (m : Mut) : Sep n (mutate h r m) :=
  Sep.mk2 (mutate_rclosed hs.below r m) (mutate_rclosed hs.above r m)

/-! ### locality: what a mutation does inside a closed region depends on the region only -/

section Local
variable {S : Nat → Prop} {h1 h2 : H}

theorem set_agree (hl : h2.length = h1.length) (hag : ∀ i, S i → h2[i]? = h1[i]?) (a : Nat) (o : Obj) :
    ∀ i, S i → (h2.set a o)[i]? = (h1.set a o)[i]? := by
  intro i hi
  rw [List.getElem?_set, List.getElem?_set, hl, hag i hi]

theorem writeBuf_agree (hl : h2.length = h1.length) (hag : ∀ i, S i → h2[i]? = h1[i]?) {r : Ref} (hr : S r)
    (p : Nat) (v : Int) : ∀ i, S i → (writeBuf h2 r p v)[i]? = (writeBuf h1 r p v)[i]? := by
  unfold writeBuf; rw [hag r hr]
  cases hx : h1[r]? with
  | none => exact hag
  | some o =>
    cases o with
    | buf cells =>
      simp only []
      split
      · exact set_agree hl hag _ _
      · exact hag
    | _ => exact hag

theorem dictSet_agree (hl : h2.length = h1.length) (hag : ∀ i, S i → h2[i]? = h1[i]?) {r : Ref} (hr : S r)
    (key : String) (v : MVal) : ∀ i, S i → (dictSet h2 r key v)[i]? = (dictSet h1 r key v)[i]? := by
  unfold dictSet; rw [hag r hr]
  cases hx : h1[r]? with
  | none => exact hag
  | some o =>
    cases o with
    | dict kv =>
      simp only []
      split
      · exact set_agree hl hag _ _
      · exact set_agree hl hag _ _
    | _ => exact hag

theorem dictAppend_agree (hcl : RClosed S h1) (hl : h2.length = h1.length) (hag : ∀ i, S i → h2[i]? = h1[i]?)
    {r : Ref} (hr : S r) (key item : String) :
    ∀ i, S i → (dictAppend h2 r key item)[i]? = (dictAppend h1 r key item)[i]? := by
  unfold dictAppend; rw [hag r hr]
  cases hx : h1[r]? with
  | none => exact hag
  | some o =>
    cases o with
    | dict kv =>
      simp only []
      split
      · next k lr hf =>
        have hmem := List.mem_of_find?_eq_some hf
        have hlr : S lr := hcl r _ hx hr lr (mem_refs_dict.mpr ⟨k, hmem⟩)
        rw [hag lr hlr]
        cases hy : h1[lr]? with
        | none => exact hag
        | some o2 =>
          cases o2 with
          | mlist items => exact set_agree hl hag _ _
          | _ => exact hag
      · exact hag
    | _ => exact hag

theorem mutate_agree (hcl : RClosed S h1) (hl : h2.length = h1.length) (hag : ∀ i, S i → h2[i]? = h1[i]?)
    {r : Ref} (hr : S r) (m : Mut) : ∀ i, S i → (mutate h2 r m)[i]? = (mutate h1 r m)[i]? := by
  unfold mutate; rw [hag r hr]
  cases hx : h1[r]? with
  | none => exact hag
  | some o =>
    cases o with
    | arr vals view shape axes attrs =>
      have hvals : S vals := hcl r _ hx hr vals (by simp [refs])
      have hattrs : S attrs := hcl r _ hx hr attrs (by simp [refs])
      -- the Axis object addressed by dimension `d` is the same on both sides
      have hax : ∀ d, h2[axes.getD d h1.length]? = h1[axes.getD d h1.length]? ∧
          ∀ o2, h1[axes.getD d h1.length]? = some o2 → S (axes.getD d h1.length) := by
        intro d
        rcases getD_eq_or_mem axes d h1.length with he | he
        · rw [he]
          refine ⟨?_, ?_⟩
          · rw [List.getElem?_eq_none (Nat.le_refl _), List.getElem?_eq_none (Nat.le_of_eq hl)]
          · intro o2 ho2; simp at ho2
        · have : S (axes.getD d h1.length) :=
            hcl r _ hx hr _ (List.mem_cons_of_mem _ (List.mem_cons_of_mem _ he))
          exact ⟨hag _ this, fun _ _ => this⟩
      cases m with
      | setVal pos v =>
        simp only []
        split
        · exact writeBuf_agree hl hag hvals _ _
        · exact hag
      | setAttr key v => exact dictSet_agree hl hag hattrs _ _
      | appendAttr key item => exact dictAppend_agree hcl hl hag hattrs _ _
      | setLabel d i v =>
        simp only []
        rw [hl, (hax d).1]
        cases hy : h1[axes.getD d h1.length]? with
        | none => exact hag
        | some o2 =>
          cases o2 with
          | axis n labels lview aattrs =>
            simp only []
            have hl2 : S labels := hcl _ _ hy ((hax d).2 _ hy) labels (by simp [refs])
            split
            · exact writeBuf_agree hl hag hl2 _ _
            · exact hag
          | _ => exact hag
      | rename d name =>
        simp only []
        rw [hl, (hax d).1]
        cases hy : h1[axes.getD d h1.length]? with
        | none => exact hag
        | some o2 =>
          cases o2 with
          | axis n labels lview aattrs => exact set_agree hl hag _ _
          | _ => exact hag
      | setAxisAttr d key v =>
        simp only []
        rw [hl, (hax d).1]
        cases hy : h1[axes.getD d h1.length]? with
        | none => exact hag
        | some o2 =>
          cases o2 with
          | axis n labels lview aattrs =>
            have hl2 : S aattrs := hcl _ _ hy ((hax d).2 _ hy) aattrs (by simp [refs])
            exact dictSet_agree hl hag hl2 _ _
          | _ => exact hag
      | appendAxisAttr d key item =>
        simp only []
        rw [hl, (hax d).1]
        cases hy : h1[axes.getD d h1.length]? with
        | none => exact hag
        | some o2 =>
          cases o2 with
          | axis n labels lview aattrs =>
            have hl2 : S aattrs := hcl _ _ hy ((hax d).2 _ hy) aattrs (by simp [refs])
            exact dictAppend_agree hcl hl hag hl2 _ _
          | _ => exact hag
    | _ => exact hag

end Local

/-! ### sequences of mutations -/

theorem mutateAll_cons (h : H) (rm : Ref × Mut) (ms : List (Ref × Mut)) :
    mutateAll h (rm :: ms) = mutateAll (mutate h rm.1 rm.2) ms := rfl

theorem mutateAll_nil (h : H) : mutateAll h [] = h := rfl

theorem mutateAll_rclosed {S : Nat → Prop} (ms : List (Ref × Mut)) :
    ∀ {h : H}, RClosed S h → RClosed S (mutateAll h ms) := by
  induction ms with
  | nil => intro h hcl; exact hcl
  | cons rm ms ih => intro h hcl; exact ih (mutate_rclosed hcl rm.1 rm.2)

/-- `S` and `T` are complementary closed regions: the mutations made through `T` are invisible in `S` -/
theorem mutateAll_filter {S T : Nat → Prop} [DecidablePred S] (hST : ∀ i, S i → ¬ T i) (hTS : ∀ i, ¬ S i → T i)
    (ms : List (Ref × Mut)) :
    ∀ h1 h2 : H, RClosed S h1 → RClosed T h1 → h2.length = h1.length → (∀ i, S i → h2[i]? = h1[i]?) →
      ∀ i, S i → (mutateAll h2 (ms.filter fun rm => decide (S rm.1)))[i]? = (mutateAll h1 ms)[i]? := by
  induction ms with
  | nil => intro h1 h2 _ _ _ hag; exact hag
  | cons rm ms ih =>
    intro h1 h2 hS hT hl hag
    rw [mutateAll_cons]
    by_cases hr : S rm.1
    · rw [List.filter_cons_of_pos (by simpa using hr), mutateAll_cons]
      apply ih
      · exact mutate_rclosed hS _ _
      · exact mutate_rclosed hT _ _
      · rw [mutate_length, mutate_length, hl]
      · exact mutate_agree hS hl hag hr rm.2
    · rw [List.filter_cons_of_neg (by simpa using hr)]
      apply ih
      · exact mutate_rclosed hS _ _
      · exact mutate_rclosed hT _ _
      · rw [mutate_length, hl]
      · intro i hi
        rw [mutate_frame hT (hTS _ hr) rm.2 i (hST i hi)]
        exact hag i hi

theorem separation_gen {S T : Nat → Prop} [DecidablePred S] (hST : ∀ i, S i → ¬ T i) (hTS : ∀ i, ¬ S i → T i)
    {h : H} (hS : RClosed S h) (hT : RClosed T h) (ms : List (Ref × Mut)) {q : Ref} (hq : S q) :
    obsArr (mutateAll h ms) q = obsArr (mutateAll h (ms.filter fun rm => decide (S rm.1))) q :=
  (obsArr_agree (mutateAll_rclosed ms hS) (mutateAll_filter hST hTS ms h h hS hT rfl (fun _ _ => rfl)) hq).symm


/-! ### allocation: growth (unconditional) -/

theorem foldl_grows {α β : Type} (f : H × β → α → H × β) (hf : ∀ acc a, Grows acc.1 (f acc a).1)
    (l : List α) : ∀ (s : H) (b : β), Grows s (l.foldl f (s, b)).1 := by
  induction l with
  | nil => intro s b; exact Grows.refl _
  | cons a l ih => intro s b; exact (hf (s, b) a).trans (ih (f (s, b) a).1 (f (s, b) a).2)

theorem shallowDict_grows (h : H) (r : Ref) : Grows h (shallowDict h r).1 := by
  unfold shallowDict
  split <;> exact Grows.alloc _ _

theorem deepDict_grows (h : H) (r : Ref) : Grows h (deepDict h r).1 := by
  unfold deepDict
  simp only []
  refine Grows.trans (foldl_grows _ ?_ _ _ _) (Grows.alloc _ _)
  intro acc e
  split
  · exact Grows.refl _
  · exact Grows.alloc _ _

theorem freshBuf_grows (h : H) (r : Ref) (view : List Nat) : Grows h (freshBuf h r view).1 :=
  Grows.alloc _ _

theorem deepAxis_grows (h : H) (r : Ref) : Grows h (deepAxis h r).1 := by
  unfold deepAxis
  split
  · exact ((freshBuf_grows _ _ _).trans (deepDict_grows _ _)).trans (Grows.alloc _ _)
  · exact Grows.alloc _ _

theorem selectAxis_grows (h : H) (r : Ref) (ps : List Nat) : Grows h (selectAxis h r ps).1 := by
  unfold selectAxis
  split
  · exact ((freshBuf_grows _ _ _).trans (shallowDict_grows _ _)).trans (Grows.alloc _ _)
  · exact Grows.alloc _ _

theorem mapAlloc_grows (f : H → Ref → H × Ref) (hf : ∀ h r, Grows h (f h r).1) (h : H) (rs : List Ref) :
    Grows h (mapAlloc f h rs).1 := by
  unfold mapAlloc
  refine foldl_grows _ ?_ _ _ _
  intro acc a
  exact hf acc.1 a

theorem mkDict_grows (h : H) (spec : List (String × Option (List String))) : Grows h (mkDict h spec).1 := by
  unfold mkDict
  simp only []
  refine Grows.trans (foldl_grows _ ?_ _ _ _) (Grows.alloc _ _)
  intro acc e
  split
  · exact Grows.refl _
  · exact Grows.alloc _ _

theorem create_grows (h : H) (shape : List Nat) (cells : List Int)
    (axes : List (String × List Int × List (String × Option (List String))))
    (attrs : List (String × Option (List String))) :
    Grows h (create h shape cells axes attrs).1 ∧
      (create h shape cells axes attrs).2 < (create h shape cells axes attrs).1.length := by
  unfold create
  simp only []
  refine ⟨?_, by simp [alloc]⟩
  refine Grows.trans (Grows.alloc _ _) (Grows.trans (Grows.trans (foldl_grows _ ?_ _ _ _) (mkDict_grows _ _))
    (Grows.alloc _ _))
  intro acc a
  exact ((Grows.alloc _ _).trans (mkDict_grows _ _)).trans (Grows.alloc _ _)


theorem alloc_res {h h3 h' : H} {o : Obj} {r' : Ref} (hg : Grows h h3)
    (hop : some (alloc h3 o) = some (h', r')) : Grows h h' ∧ r' < h'.length := by
  simp only [Option.some.injEq] at hop
  have h1 : h' = (alloc h3 o).1 := by rw [hop]
  have h2 : r' = (alloc h3 o).2 := by rw [hop]
  subst h1 h2
  exact ⟨hg.trans (Grows.alloc _ _), by simp [alloc]⟩

theorem deepCopy_grows {h h' : H} {r r' : Ref} (hop : deepCopy h r = some (h', r')) :
    Grows h h' ∧ r' < h'.length := by
  unfold deepCopy at hop
  split at hop
  · exact alloc_res (((freshBuf_grows _ _ _).trans (mapAlloc_grows _ deepAxis_grows _ _)).trans
      (deepDict_grows _ _)) hop
  · cases hop

theorem transpose_grows {h h' : H} {r r' : Ref} {perm : List Nat} (hop : transpose h r perm = some (h', r')) :
    Grows h h' ∧ r' < h'.length := by
  unfold transpose at hop
  split at hop
  · split at hop
    · cases hop
    · exact alloc_res (shallowDict_grows _ _) hop
  · cases hop

theorem squeeze_grows {h h' : H} {r r' : Ref} (hop : squeeze h r = some (h', r')) :
    Grows h h' ∧ r' < h'.length := by
  unfold squeeze at hop
  split at hop
  · exact alloc_res (shallowDict_grows _ _) hop
  · cases hop

theorem sliceAll_grows {h h' : H} {r r' : Ref} (hop : sliceAll h r = some (h', r')) :
    Grows h h' ∧ r' < h'.length := by
  unfold sliceAll at hop
  split at hop
  · exact alloc_res (shallowDict_grows _ _) hop
  · cases hop

theorem takeScalar_grows {h h' : H} {r r' : Ref} {d p : Nat} (hop : takeScalar h r d p = some (h', r')) :
    Grows h h' ∧ r' < h'.length := by
  unfold takeScalar at hop
  split at hop
  · split at hop
    · cases hop
    · exact alloc_res (shallowDict_grows _ _) hop
  · cases hop

theorem takeList_grows {h h' : H} {r r' : Ref} {d : Nat} {ps : List Nat}
    (hop : takeList h r d ps = some (h', r')) : Grows h h' ∧ r' < h'.length := by
  unfold takeList at hop
  split at hop
  · split at hop
    · cases hop
    · exact alloc_res (((freshBuf_grows _ _ _).trans (selectAxis_grows _ _ _)).trans (shallowDict_grows _ _)) hop
  · cases hop

theorem addScalar_grows {h h' : H} {r r' : Ref} {k : Int} (hop : addScalar h r k = some (h', r')) :
    Grows h h' ∧ r' < h'.length := by
  unfold addScalar at hop
  split at hop
  · exact alloc_res ((Grows.alloc _ _).trans (Grows.alloc _ _)) hop
  · cases hop

theorem sortAxis_grows {h h' : H} {r r' : Ref} {d : Nat} (hop : sortAxis h r d = some (h', r')) :
    Grows h h' ∧ r' < h'.length := by
  unfold sortAxis at hop
  split at hop
  · split at hop
    · cases hop
    · refine alloc_res (((freshBuf_grows _ _ _).trans (foldl_grows _ ?_ _ _ _)).trans (shallowDict_grows _ _)) hop
      intro acc i
      simp only []
      split
      · exact selectAxis_grows _ _ _
      · exact deepAxis_grows _ _
  · cases hop

theorem apply_grows {h : H} {env : List Ref} {op : Op} {h' : H} {r : Ref}
    (hop : apply h env op = some (h', r)) : Grows h h' ∧ r < h'.length := by
  cases op with
  | create shape cells axes attrs =>
    simp only [apply, Option.some.injEq] at hop
    have := create_grows h shape cells axes attrs
    rw [hop] at this
    exact this
  | «mut» k m => simp [apply] at hop
  | copy k =>
    simp only [apply, Option.bind_eq_some_iff] at hop
    obtain ⟨q, _, hq⟩ := hop
    exact deepCopy_grows hq
  | transpose k perm =>
    simp only [apply, Option.bind_eq_some_iff] at hop
    obtain ⟨q, _, hq⟩ := hop
    exact transpose_grows hq
  | squeeze k =>
    simp only [apply, Option.bind_eq_some_iff] at hop
    obtain ⟨q, _, hq⟩ := hop
    exact squeeze_grows hq
  | sliceAll k =>
    simp only [apply, Option.bind_eq_some_iff] at hop
    obtain ⟨q, _, hq⟩ := hop
    exact sliceAll_grows hq
  | takeScalar k d p =>
    simp only [apply, Option.bind_eq_some_iff] at hop
    obtain ⟨q, _, hq⟩ := hop
    exact takeScalar_grows hq
  | takeList k d ps =>
    simp only [apply, Option.bind_eq_some_iff] at hop
    obtain ⟨q, _, hq⟩ := hop
    exact takeList_grows hq
  | addScalar k c =>
    simp only [apply, Option.bind_eq_some_iff] at hop
    obtain ⟨q, _, hq⟩ := hop
    exact addScalar_grows hq
  | sortAxis k d =>
    simp only [apply, Option.bind_eq_some_iff] at hop
    obtain ⟨q, _, hq⟩ := hop
    exact sortAxis_grows hq


/-! ### allocation of well-formed, separated objects -/

/-- `h'` extends `h` by well-formed objects that refer to `n` and above only -/
def Ext (n : Nat) (h h' : H) : Prop :=
  ∃ new, h' = h ++ new ∧ ∀ o ∈ new, WFObj h' o ∧ ∀ r ∈ refs o, n ≤ r

theorem Ext.grows {n : Nat} {h h' : H} (he : Ext n h h') : Grows h h' := by
  obtain ⟨new, e, _⟩ := he
  exact ⟨new, e⟩

theorem Ext.refl (n : Nat) (h : H) : Ext n h h := ⟨[], by simp, by simp⟩

theorem Ext.trans {n : Nat} {a b c : H} (h1 : Ext n a b) (h2 : Ext n b c) : Ext n a c := by
  obtain ⟨x, rfl, hx⟩ := h1
  obtain ⟨y, rfl, hy⟩ := h2
  refine ⟨x ++ y, by simp, ?_⟩
  intro o ho
  rw [List.mem_append] at ho
  rcases ho with ho | ho
  · exact ⟨WFObj_mono (Grows.append _ _) (hx o ho).1, (hx o ho).2⟩
  · exact hy o ho

theorem Ext.zero {n : Nat} {h h' : H} (he : Ext n h h') : Ext 0 h h' := by
  obtain ⟨new, e, hn⟩ := he
  exact ⟨new, e, fun o ho => ⟨(hn o ho).1, fun _ _ => Nat.zero_le _⟩⟩

theorem Ext.alloc {n : Nat} {h : H} {o : Obj} (hw : WFObj (h ++ [o]) o) (hr : ∀ r ∈ refs o, n ≤ r) :
    Ext n h (alloc h o).1 := by
  refine ⟨[o], rfl, ?_⟩
  intro o2 ho2
  simp only [List.mem_singleton] at ho2
  subst ho2
  exact ⟨hw, hr⟩

theorem Ext.wf {n : Nat} {h h' : H} (hwf : WF h) (he : Ext n h h') : WF h' := by
  obtain ⟨new, rfl, hn⟩ := he
  intro o ho
  rw [List.mem_append] at ho
  rcases ho with ho | ho
  · exact WFObj_mono (Grows.append _ _) (hwf o ho)
  · exact (hn o ho).1

theorem Ext.sep {h h' : H} (hwf : WF h) (he : Ext h.length h h') : Sep h.length h' := by
  obtain ⟨new, rfl, hn⟩ := he
  intro i o hi
  constructor
  · intro hlt
    rw [List.getElem?_append_left hlt] at hi
    exact WFObj_refs_lt (hwf o (List.mem_of_getElem? hi))
  · intro hge
    rw [List.getElem?_append_right hge] at hi
    exact (hn o (List.mem_of_getElem? hi)).2

/-! the accumulating folds of the model, as a structural recursion -/

def mapAccum {α β : Type} (g : H → α → H × β) : H → List α → H × List β
  | h, [] => (h, [])
  | h, a :: l => ((mapAccum g (g h a).1 l).1, (g h a).2 :: (mapAccum g (g h a).1 l).2)

theorem foldl_step_eq {α β : Type} (f : H × List β → α → H × List β) (g : H → α → H × β)
    (hf : ∀ acc a, f acc a = ((g acc.1 a).1, acc.2 ++ [(g acc.1 a).2])) (l : List α) :
    ∀ (s : H) (out : List β), l.foldl f (s, out) = ((mapAccum g s l).1, out ++ (mapAccum g s l).2) := by
  induction l with
  | nil => intro s out; simp [mapAccum]
  | cons a l ih =>
    intro s out
    rw [List.foldl_cons, hf, ih]
    simp [mapAccum]

theorem mapAccum_heap {α β γ : Type} (g : H → α → H × β) (n : Nat)
    (Pre : H → α → Prop) (Good : H → β → Prop) (obsA : α → γ) (obsB : H → β → γ)
    (pre_mono : ∀ h h' a, WF h → Grows h h' → Pre h a → Pre h' a)
    (good_mono : ∀ h h' b, WF h → Grows h h' → Good h b → Good h' b)
    (obsB_mono : ∀ h h' b, WF h → Grows h h' → Good h b → obsB h' b = obsB h b)
    (spec : ∀ h a, WF h → n ≤ h.length → Pre h a →
      Ext n h (g h a).1 ∧ Good (g h a).1 (g h a).2 ∧ obsB (g h a).1 (g h a).2 = obsA a) :
    ∀ (l : List α) (h : H), WF h → n ≤ h.length → (∀ a ∈ l, Pre h a) →
      Ext n h (mapAccum g h l).1 ∧ (∀ b ∈ (mapAccum g h l).2, Good (mapAccum g h l).1 b) ∧
      (mapAccum g h l).2.map (obsB (mapAccum g h l).1) = l.map obsA ∧
      (mapAccum g h l).2.length = l.length := by
  intro l
  induction l with
  | nil => intro h _ _ _; exact ⟨Ext.refl _ _, by simp [mapAccum], by simp [mapAccum], by simp [mapAccum]⟩
  | cons a l ih =>
    intro h hwf hn hpre
    obtain ⟨he1, hg1, ho1⟩ := spec h a hwf hn (hpre a (List.mem_cons_self ..))
    have hwf1 : WF (g h a).1 := he1.wf hwf
    have hn1 : n ≤ (g h a).1.length := Nat.le_trans hn he1.grows.le
    obtain ⟨he2, hg2, ho2, hl2⟩ := ih (g h a).1 hwf1 hn1
      (fun a' ha' => pre_mono _ _ _ hwf he1.grows (hpre a' (List.mem_cons_of_mem _ ha')))
    simp only [mapAccum]
    refine ⟨he1.trans he2, ?_, ?_, ?_⟩
    · intro b hb
      rw [List.mem_cons] at hb
      rcases hb with rfl | hb
      · exact good_mono _ _ _ hwf1 he2.grows hg1
      · exact hg2 b hb
    · rw [List.map_cons, List.map_cons, ho2, obsB_mono _ _ _ hwf1 he2.grows hg1, ho1]
    · simp [hl2]


/-! ### helper specifications on a well-formed heap -/

theorem get_append_last (h : H) (o : Obj) : (h ++ [o])[h.length]? = some o := by
  simp

theorem obsVal_grows {h h' : H} (hg : Grows h h') {v : MVal} (hv : ∀ lr, v = .list lr → lr < h.length) :
    obsVal h' v = obsVal h v :=
  obsVal_agree (S := fun i => i < h.length) hg.agree hv

theorem obsDict_of_dict {h : H} {r : Ref} {kv : List (String × MVal)} (hx : h[r]? = some (.dict kv)) :
    obsDict h r = kv.map fun e => (e.1, obsVal h e.2) := by
  unfold obsDict; rw [hx]

/-- a metadata entry is fine in `hh`: its list (if any) is a list object at `n` or above -/
def EntryOK (n : Nat) (hh : H) (e : String × MVal) : Prop :=
  ∀ lr, e.2 = .list lr → n ≤ lr ∧ ∃ items, hh[lr]? = some (.mlist items)

theorem EntryOK.mono {n : Nat} {h h' : H} {e : String × MVal} (hg : Grows h h') (he : EntryOK n h e) :
    EntryOK n h' e := by
  intro lr hlr
  obtain ⟨h1, items, h2⟩ := he lr hlr
  exact ⟨h1, items, hg.get h2⟩

theorem EntryOK.obs {n : Nat} {h h' : H} {e : String × MVal} (hg : Grows h h') (he : EntryOK n h e) :
    (e.1, obsVal h' e.2) = (e.1, obsVal h e.2) := by
  rw [obsVal_grows hg]
  intro lr hlr
  obtain ⟨_, items, h2⟩ := he lr hlr
  exact lt_of_get h2

/-- allocating a dict whose entries are fine -/
theorem alloc_dict_spec {n : Nat} {h hf : H} {kv : List (String × MVal)} (he : Ext n h hf)
    (hkv : ∀ e ∈ kv, EntryOK n hf e) :
    Ext n h (alloc hf (.dict kv)).1 ∧ (alloc hf (.dict kv)).1[(alloc hf (.dict kv)).2]? = some (.dict kv) ∧
    obsDict (alloc hf (.dict kv)).1 (alloc hf (.dict kv)).2 = kv.map fun e => (e.1, obsVal hf e.2) := by
  have hlast : (alloc hf (.dict kv)).1[(alloc hf (.dict kv)).2]? = some (.dict kv) := get_append_last _ _
  refine ⟨he.trans (Ext.alloc ?_ ?_), hlast, ?_⟩
  · rw [WFObj_dict]
    intro k lr hm
    obtain ⟨_, items, hi⟩ := hkv _ hm lr rfl
    exact ⟨items, (Grows.append _ _).get hi⟩
  · intro r hr
    rw [mem_refs_dict] at hr
    obtain ⟨k, hm⟩ := hr
    exact (hkv _ hm r rfl).1
  · rw [obsDict_of_dict hlast]
    apply List.map_congr_left
    intro e hm
    exact (hkv e hm).obs (Grows.alloc _ _)

/-! `deepDict` -/

def dictKV (h : H) (r : Ref) : List (String × MVal) :=
  match h[r]? with
  | some (.dict kv) => kv
  | _ => []

def deepEntry (h0 : H) (hh : H) (e : String × MVal) : H × (String × MVal) :=
  match e.2 with
  | .atom s => (hh, (e.1, .atom s))
  | .list lr =>
    (hh ++ [.mlist (match h0[lr]? with | some (.mlist items) => items | _ => [])], (e.1, .list hh.length))

theorem deepDict_eq (h : H) (r : Ref) :
    deepDict h r = alloc (mapAccum (deepEntry h) h (dictKV h r)).1 (.dict (mapAccum (deepEntry h) h (dictKV h r)).2) := by
  unfold deepDict
  simp only []
  rw [foldl_step_eq _ (deepEntry h)]
  · rfl
  · intro acc e
    rcases e with ⟨k, v⟩
    cases v <;> rfl

theorem dictKV_cases (h : H) (r : Ref) :
    h[r]? = some (.dict (dictKV h r)) ∨ (dictKV h r = [] ∧ obsDict h r = []) := by
  unfold dictKV obsDict
  cases hx : h[r]? with
  | none => right; exact ⟨rfl, rfl⟩
  | some o => cases o <;> first | (left; rfl) | (right; exact ⟨rfl, rfl⟩)

theorem deepEntry_spec (n : Nat) (h0 : H) (hh : H) (e : String × MVal) (hn : n ≤ hh.length)
    (hpre : ∀ lr, e.2 = .list lr → ∃ items, h0[lr]? = some (.mlist items)) :
    Ext n hh (deepEntry h0 hh e).1 ∧ EntryOK n (deepEntry h0 hh e).1 (deepEntry h0 hh e).2 ∧
    ((deepEntry h0 hh e).2.1, obsVal (deepEntry h0 hh e).1 (deepEntry h0 hh e).2.2) = (e.1, obsVal h0 e.2) := by
  rcases e with ⟨k, v⟩
  cases v with
  | atom s =>
    refine ⟨Ext.refl _ _, ?_, rfl⟩
    intro lr hlr; cases hlr
  | list lr =>
    obtain ⟨items, hi⟩ := hpre lr rfl
    simp only [deepEntry, hi]
    refine ⟨Ext.alloc (o := .mlist items) trivial (by simp [refs]), ?_, ?_⟩
    · intro lr2 hlr2
      cases hlr2
      exact ⟨hn, items, get_append_last _ _⟩
    · simp [obsVal, hi]

theorem deepDict_spec {n : Nat} {h : H} (r : Ref) (hwf : WF h) (hn : n ≤ h.length) :
    Ext n h (deepDict h r).1 ∧ n ≤ (deepDict h r).2 ∧
    (∃ kv, (deepDict h r).1[(deepDict h r).2]? = some (.dict kv)) ∧
    obsDict (deepDict h r).1 (deepDict h r).2 = obsDict h r := by
  rw [deepDict_eq]
  have hpre : ∀ e ∈ dictKV h r, ∀ lr, e.2 = .list lr → ∃ items, h[lr]? = some (.mlist items) := by
    rcases dictKV_cases h r with hx | ⟨hx, _⟩
    · intro e he lr hlr
      have hw := hwf _ (List.mem_of_getElem? hx)
      rw [WFObj_dict] at hw
      rcases e with ⟨k, v⟩
      simp only at hlr
      subst hlr
      exact hw k lr he
    · rw [hx]; intro e he; cases he
  obtain ⟨he, hgood, hobs, _⟩ := mapAccum_heap (deepEntry h) n
    (fun _ e => ∀ lr, e.2 = .list lr → ∃ items, h[lr]? = some (.mlist items))
    (EntryOK n) (fun e => (e.1, obsVal h e.2)) (fun hh e => (e.1, obsVal hh e.2))
    (fun _ _ _ _ _ hp => hp) (fun _ _ _ _ hg hb => hb.mono hg) (fun _ _ _ _ hg hb => hb.obs hg)
    (fun hh e _ hn2 hp => deepEntry_spec n h hh e hn2 hp) (dictKV h r) h hwf hn hpre
  obtain ⟨h1, h2, h3⟩ := alloc_dict_spec he hgood
  refine ⟨h1, Nat.le_trans hn he.grows.le, ⟨_, h2⟩, ?_⟩
  rw [h3, hobs]
  rcases dictKV_cases h r with hx | ⟨hx, hy⟩
  · rw [obsDict_of_dict hx]
  · rw [hx, hy]; rfl


theorem map_range_getD (cells : List Int) :
    (List.range cells.length).map (fun p => cells.getD p 0) = cells := by
  apply List.ext_getElem
  · simp
  · intro i h1 h2
    simp at h1
    simp [h1]

theorem readBuf_fresh {h : H} {r : Ref} {cells : List Int} (hx : h[r]? = some (.buf cells)) :
    readBuf h r (List.range cells.length) = cells := by
  unfold readBuf; rw [hx]
  exact map_range_getD cells

def IsBuf (h : H) (r : Ref) : Prop := ∃ c, h[r]? = some (.buf c)
def IsDict (h : H) (r : Ref) : Prop := ∃ kv, h[r]? = some (.dict kv)
def IsAxis (h : H) (r : Ref) : Prop := ∃ n l v t, h[r]? = some (.axis n l v t)

theorem IsBuf.mono {h h' : H} {r : Ref} (hg : Grows h h') : IsBuf h r → IsBuf h' r := by
  rintro ⟨c, hc⟩; exact ⟨c, hg.get hc⟩
theorem IsDict.mono {h h' : H} {r : Ref} (hg : Grows h h') : IsDict h r → IsDict h' r := by
  rintro ⟨c, hc⟩; exact ⟨c, hg.get hc⟩
theorem IsAxis.mono {h h' : H} {r : Ref} (hg : Grows h h') : IsAxis h r → IsAxis h' r := by
  rintro ⟨n, l, v, t, hc⟩; exact ⟨n, l, v, t, hg.get hc⟩
theorem IsAxis.lt {h : H} {r : Ref} : IsAxis h r → r < h.length := by
  rintro ⟨n, l, v, t, hc⟩; exact lt_of_get hc

/-! `freshBuf` -/

theorem freshBuf_eq (h : H) (r : Ref) (view : List Nat) :
    freshBuf h r view = (h ++ [.buf (readBuf h r view)], h.length, List.range (readBuf h r view).length) := rfl

theorem freshBuf_ext (n : Nat) (h : H) (r : Ref) (view : List Nat) :
    Ext n h (h ++ [.buf (readBuf h r view)]) :=
  Ext.alloc (o := .buf (readBuf h r view)) trivial (by simp [refs])

/-! `shallowDict` -/

theorem shallowDict_spec {h : H} (r : Ref) (hwf : WF h) :
    Ext 0 h (shallowDict h r).1 ∧ IsDict (shallowDict h r).1 (shallowDict h r).2 := by
  unfold shallowDict
  cases hx : h[r]? with
  | none =>
    exact ⟨Ext.alloc (by rw [WFObj_dict]; intro k r he; cases he) (fun _ _ => Nat.zero_le _),
      ⟨_, get_append_last _ _⟩⟩
  | some o =>
    cases o with
    | dict kv =>
      refine ⟨Ext.alloc ?_ (fun _ _ => Nat.zero_le _), ⟨_, get_append_last _ _⟩⟩
      exact WFObj_mono (Grows.append _ _) (hwf _ (List.mem_of_getElem? hx))
    | _ =>
      exact ⟨Ext.alloc (by rw [WFObj_dict]; intro k r he; cases he) (fun _ _ => Nat.zero_le _),
        ⟨_, get_append_last _ _⟩⟩

/-! `deepAxis` -/

theorem deepAxis_eq {h : H} {r : Ref} {name : String} {labels : Ref} {view : List Nat} {attrs : Ref}
    (hx : h[r]? = some (.axis name labels view attrs)) :
    deepAxis h r = alloc (deepDict (h ++ [.buf (readBuf h labels view)]) attrs).1
      (.axis name h.length (List.range (readBuf h labels view).length)
        (deepDict (h ++ [.buf (readBuf h labels view)]) attrs).2) := by
  unfold deepAxis; rw [hx]; rfl

theorem deepAxis_spec {n : Nat} {h : H} {r : Ref} (hwf : WF h) (hn : n ≤ h.length) (hax : IsAxis h r) :
    Ext n h (deepAxis h r).1 ∧ n ≤ (deepAxis h r).2 ∧ IsAxis (deepAxis h r).1 (deepAxis h r).2 ∧
    obsAxis (deepAxis h r).1 (deepAxis h r).2 = obsAxis h r := by
  obtain ⟨name, labels, view, attrs, hx⟩ := hax
  rw [deepAxis_eq hx]
  have hw := hwf _ (List.mem_of_getElem? hx)
  obtain ⟨⟨c, hc⟩, ⟨kv, hk⟩⟩ := hw
  have he1 : Ext n h (h ++ [.buf (readBuf h labels view)]) := freshBuf_ext n h labels view
  have hwf1 := he1.wf hwf
  have hn1 : n ≤ (h ++ [Obj.buf (readBuf h labels view)]).length := Nat.le_trans hn he1.grows.le
  obtain ⟨he2, hn2, ⟨kv2, hd2⟩, ho2⟩ := deepDict_spec (n := n) attrs hwf1 hn1
  generalize hD : deepDict (h ++ [Obj.buf (readBuf h labels view)]) attrs = D at he2 hn2 hd2 ho2
  have hbuf : D.1[h.length]? = some (.buf (readBuf h labels view)) := he2.grows.get (get_append_last _ _)
  have hlast : (alloc D.1 (.axis name h.length (List.range (readBuf h labels view).length) D.2)).1[
      (alloc D.1 (.axis name h.length (List.range (readBuf h labels view).length) D.2)).2]? =
      some (.axis name h.length (List.range (readBuf h labels view).length) D.2) := get_append_last _ _
  have hga : Grows D.1 (alloc D.1 (.axis name h.length (List.range (readBuf h labels view).length) D.2)).1 :=
    Grows.alloc _ _
  refine ⟨(he1.trans he2).trans (Ext.alloc ?_ ?_), ?_, ⟨_, _, _, _, hlast⟩, ?_⟩
  · exact ⟨⟨_, hga.get hbuf⟩, ⟨_, hga.get hd2⟩⟩
  · intro x hx2
    simp only [refs, List.mem_cons, List.not_mem_nil, or_false] at hx2
    rcases hx2 with rfl | rfl
    · exact hn
    · exact hn2
  · exact Nat.le_trans hn (he1.trans he2).grows.le
  · have hwfD : WF D.1 := he2.wf hwf1
    unfold obsAxis
    rw [hlast, hx]
    simp only []
    rw [readBuf_fresh (hga.get hbuf), obsDict_grows hwfD hga (lt_of_get hd2), ho2,
      obsDict_grows hwf he1.grows (lt_of_get hk)]

/-! `selectAxis` -/

theorem selectAxis_spec {h : H} {r : Ref} (ps : List Nat) (hwf : WF h) (hax : IsAxis h r) :
    Ext 0 h (selectAxis h r ps).1 ∧ IsAxis (selectAxis h r ps).1 (selectAxis h r ps).2 := by
  obtain ⟨name, labels, view, attrs, hx⟩ := hax
  have e : selectAxis h r ps =
      alloc (shallowDict (h ++ [.buf (readBuf h labels (ps.map fun p => view.getD p 0))]) attrs).1
        (.axis name h.length (List.range (readBuf h labels (ps.map fun p => view.getD p 0)).length)
          (shallowDict (h ++ [.buf (readBuf h labels (ps.map fun p => view.getD p 0))]) attrs).2) := by
    unfold selectAxis; rw [hx]; rfl
  rw [e]
  generalize readBuf h labels (ps.map fun p => view.getD p 0) = cells
  have he1 : Ext 0 h (h ++ [.buf cells]) := Ext.alloc (o := .buf cells) trivial (by simp [refs])
  have hwf1 := he1.wf hwf
  obtain ⟨he2, hd2⟩ := shallowDict_spec attrs hwf1
  generalize shallowDict (h ++ [.buf cells]) attrs = D at he2 hd2
  have hbuf : D.1[h.length]? = some (.buf cells) := he2.grows.get (get_append_last _ _)
  refine ⟨(he1.trans he2).trans (Ext.alloc ?_ (fun _ _ => Nat.zero_le _)), ⟨_, _, _, _, get_append_last _ _⟩⟩
  exact ⟨⟨_, (Grows.append _ _).get hbuf⟩, hd2.mono (Grows.append _ _)⟩

/-! `mapAlloc deepAxis` -/

theorem mapAlloc_eq (f : H → Ref → H × Ref) (h : H) (rs : List Ref) :
    mapAlloc f h rs = mapAccum f h rs := by
  unfold mapAlloc
  rw [foldl_step_eq _ f]
  · simp
  · intro acc a; rfl

theorem mapAlloc_deepAxis_spec {n : Nat} {h : H} (rs : List Ref) (hwf : WF h) (hn : n ≤ h.length)
    (hax : ∀ a ∈ rs, IsAxis h a) :
    Ext n h (mapAlloc deepAxis h rs).1 ∧
    (∀ b ∈ (mapAlloc deepAxis h rs).2, n ≤ b ∧ IsAxis (mapAlloc deepAxis h rs).1 b) ∧
    (mapAlloc deepAxis h rs).2.map (obsAxis (mapAlloc deepAxis h rs).1) = rs.map (obsAxis h) ∧
    (mapAlloc deepAxis h rs).2.length = rs.length := by
  rw [mapAlloc_eq]
  exact mapAccum_heap deepAxis n (fun hh a => IsAxis hh a ∧ obsAxis hh a = obsAxis h a)
    (fun hh b => n ≤ b ∧ IsAxis hh b) (obsAxis h) obsAxis
    (fun _ _ a hw hg hp => ⟨hp.1.mono hg, by rw [obsAxis_grows hw hg hp.1.lt]; exact hp.2⟩)
    (fun _ _ _ _ hg hb => ⟨hb.1, hb.2.mono hg⟩)
    (fun _ _ _ hw hg hb => obsAxis_grows hw hg hb.2.lt)
    (fun hh a hw hn2 hp => by
      obtain ⟨h1, h2, h3, h4⟩ := deepAxis_spec hw hn2 hp.1
      exact ⟨h1, ⟨h2, h3⟩, by rw [h4]; exact hp.2⟩)
    rs h hwf hn (fun a ha => ⟨hax a ha, rfl⟩)


/-! `mkDict`, `create` -/

def mkEntry (hh : H) (e : String × Option (List String)) : H × (String × MVal) :=
  match e.2 with
  | none => (hh, (e.1, .atom "K"))
  | some items => (hh ++ [.mlist items], (e.1, .list hh.length))

theorem mkDict_eq (h : H) (spec : List (String × Option (List String))) :
    mkDict h spec = alloc (mapAccum mkEntry h spec).1 (.dict (mapAccum mkEntry h spec).2) := by
  unfold mkDict
  simp only []
  rw [foldl_step_eq _ mkEntry]
  · rfl
  · intro acc e
    rcases e with ⟨k, v⟩
    cases v <;> rfl

theorem mkEntry_spec (hh : H) (e : String × Option (List String)) :
    Ext 0 hh (mkEntry hh e).1 ∧ EntryOK 0 (mkEntry hh e).1 (mkEntry hh e).2 := by
  rcases e with ⟨k, v⟩
  cases v with
  | none =>
    refine ⟨Ext.refl _ _, ?_⟩
    intro lr hlr; cases hlr
  | some items =>
    refine ⟨Ext.alloc (o := .mlist items) trivial (by simp [refs]), ?_⟩
    intro lr hlr
    cases hlr
    exact ⟨Nat.zero_le _, items, get_append_last _ _⟩

theorem mkDict_spec {h : H} (spec : List (String × Option (List String))) (hwf : WF h) :
    Ext 0 h (mkDict h spec).1 ∧ IsDict (mkDict h spec).1 (mkDict h spec).2 := by
  rw [mkDict_eq]
  obtain ⟨he, hgood, _, _⟩ := mapAccum_heap mkEntry 0 (fun _ _ => True) (EntryOK 0) (fun _ => ()) (fun _ _ => ())
    (fun _ _ _ _ _ hp => hp) (fun _ _ _ _ hg hb => hb.mono hg) (fun _ _ _ _ _ _ => rfl)
    (fun hh e _ _ _ => ⟨(mkEntry_spec hh e).1, (mkEntry_spec hh e).2, rfl⟩) spec h hwf (Nat.zero_le _)
    (fun _ _ => trivial)
  obtain ⟨h1, h2, _⟩ := alloc_dict_spec he hgood
  exact ⟨h1, ⟨_, h2⟩⟩

def mkAxis (hh : H) (a : String × List Int × List (String × Option (List String))) : H × Ref :=
  alloc (mkDict (hh ++ [.buf a.2.1]) a.2.2).1
    (.axis a.1 hh.length (List.range a.2.1.length) (mkDict (hh ++ [.buf a.2.1]) a.2.2).2)

theorem mkAxis_spec {hh : H} (a : String × List Int × List (String × Option (List String))) (hwf : WF hh) :
    Ext 0 hh (mkAxis hh a).1 ∧ IsAxis (mkAxis hh a).1 (mkAxis hh a).2 := by
  unfold mkAxis
  have he1 : Ext 0 hh (hh ++ [.buf a.2.1]) := Ext.alloc (o := .buf a.2.1) trivial (by simp [refs])
  obtain ⟨he2, hd2⟩ := mkDict_spec a.2.2 (he1.wf hwf)
  generalize mkDict (hh ++ [.buf a.2.1]) a.2.2 = D at he2 hd2
  have hbuf : D.1[hh.length]? = some (.buf a.2.1) := he2.grows.get (get_append_last _ _)
  refine ⟨(he1.trans he2).trans (Ext.alloc ?_ (fun _ _ => Nat.zero_le _)), ⟨_, _, _, _, get_append_last _ _⟩⟩
  exact ⟨⟨_, (Grows.append _ _).get hbuf⟩, hd2.mono (Grows.append _ _)⟩

theorem create_eq (h : H) (shape : List Nat) (cells : List Int)
    (axes : List (String × List Int × List (String × Option (List String))))
    (attrs : List (String × Option (List String))) :
    create h shape cells axes attrs =
      alloc (mkDict (mapAccum mkAxis (h ++ [.buf cells]) axes).1 attrs).1
        (.arr h.length (List.range cells.length) shape (mapAccum mkAxis (h ++ [.buf cells]) axes).2
          (mkDict (mapAccum mkAxis (h ++ [.buf cells]) axes).1 attrs).2) := by
  unfold create
  simp only []
  rw [foldl_step_eq _ mkAxis]
  · rfl
  · intro acc a; rfl

/-- the array at `r` has as many Axis objects as dimensions -/
def ArrAt (h : H) (r : Ref) : Prop :=
  ∃ v w sh ax t, h[r]? = some (.arr v w sh ax t) ∧ ax.length = sh.length

theorem alloc_arr_spec {n : Nat} {h h3 : H} {v : Ref} {w sh : List Nat} {ax : List Ref} {t : Ref}
    (he : Ext n h h3) (hv : IsBuf h3 v) (ht : IsDict h3 t) (hax : ∀ a ∈ ax, IsAxis h3 a)
    (hnv : n ≤ v) (hnt : n ≤ t) (hna : ∀ a ∈ ax, n ≤ a) :
    Ext n h (alloc h3 (.arr v w sh ax t)).1 ∧
    (alloc h3 (.arr v w sh ax t)).1[(alloc h3 (.arr v w sh ax t)).2]? = some (.arr v w sh ax t) := by
  refine ⟨he.trans (Ext.alloc ?_ ?_), get_append_last _ _⟩
  · exact ⟨hv.mono (Grows.append _ _), ht.mono (Grows.append _ _), fun a ha => (hax a ha).mono (Grows.append _ _)⟩
  · intro x hx
    simp only [refs, List.mem_cons] at hx
    rcases hx with rfl | rfl | hx
    · exact hnv
    · exact hnt
    · exact hna x hx

theorem alloc_arr_res {h h3 h' : H} {r' : Ref} {v : Ref} {w sh : List Nat} {ax : List Ref} {t : Ref}
    (he : Ext 0 h h3) (hv : IsBuf h3 v) (ht : IsDict h3 t) (hax : ∀ a ∈ ax, IsAxis h3 a)
    (hdim : ax.length = sh.length)
    (hop : some (alloc h3 (.arr v w sh ax t)) = some (h', r')) : Ext 0 h h' ∧ ArrAt h' r' := by
  simp only [Option.some.injEq] at hop
  have h1 : h' = (alloc h3 (.arr v w sh ax t)).1 := by rw [hop]
  have h2 : r' = (alloc h3 (.arr v w sh ax t)).2 := by rw [hop]
  subst h1 h2
  obtain ⟨e1, e2⟩ := alloc_arr_spec (w := w) (sh := sh) he hv ht hax (Nat.zero_le _) (Nat.zero_le _)
    (fun _ _ => Nat.zero_le _)
  exact ⟨e1, _, _, _, _, _, e2, hdim⟩

theorem create_spec {h : H} (shape : List Nat) (cells : List Int)
    (axes : List (String × List Int × List (String × Option (List String))))
    (attrs : List (String × Option (List String))) (hwf : WF h) (hdim : axes.length = shape.length) :
    Ext 0 h (create h shape cells axes attrs).1 ∧
      ArrAt (create h shape cells axes attrs).1 (create h shape cells axes attrs).2 := by
  rw [create_eq]
  have he1 : Ext 0 h (h ++ [.buf cells]) := Ext.alloc (o := .buf cells) trivial (by simp [refs])
  have hwf1 := he1.wf hwf
  obtain ⟨he2, hgood, _, hlen⟩ := mapAccum_heap mkAxis 0 (fun _ _ => True) IsAxis (fun _ => ()) (fun _ _ => ())
    (fun _ _ _ _ _ hp => hp) (fun _ _ _ _ hg hb => hb.mono hg) (fun _ _ _ _ _ _ => rfl)
    (fun hh a hw _ _ => ⟨(mkAxis_spec a hw).1, (mkAxis_spec a hw).2, rfl⟩) axes _ hwf1 (Nat.zero_le _)
    (fun _ _ => trivial)
  generalize mapAccum mkAxis (h ++ [.buf cells]) axes = A at he2 hgood hlen
  have hwf2 := he2.wf hwf1
  obtain ⟨he3, hd3⟩ := mkDict_spec attrs hwf2
  generalize mkDict A.1 attrs = D at he3 hd3
  have hbuf : IsBuf D.1 h.length := ⟨_, (he2.trans he3).grows.get (get_append_last _ _)⟩
  exact alloc_arr_res ((he1.trans he2).trans he3) hbuf hd3 (fun a ha => (hgood a ha).mono he3.grows)
    (by rw [hlen, hdim]) rfl


/-! ### the operations on a well-formed heap -/

theorem getD_mem {l : List Nat} {k x : Nat} (hk : k < l.length) : l.getD k x ∈ l := by
  rw [List.getD_eq_getElem?_getD, List.getElem?_eq_getElem hk]
  simp

/-- pigeonhole: a list of length `n` that contains `0 .. n-1` contains nothing else -/
theorem perm_lt {perm : List Nat} {n : Nat} (hl : perm.length = n) (hall : ∀ x, x < n → x ∈ perm) :
    ∀ k ∈ perm, k < n := by
  intro k hk
  cases Nat.lt_or_ge k n with
  | inl h1 => exact h1
  | inr h1 =>
    exfalso
    have hsub : List.range n ⊆ perm.erase k := by
      intro x hx
      rw [List.mem_range] at hx
      exact (List.mem_erase_of_ne (by omega)).2 (hall x hx)
    have h2 := List.nodup_range.length_le_of_subset hsub
    rw [List.length_range, List.length_erase_of_mem hk, hl] at h2
    have h3 : 0 < n := by rw [← hl]; exact List.length_pos_of_mem hk
    omega

section Ops
variable {h h' : H} {r r' : Ref} {v : Ref} {w sh : List Nat} {ax : List Ref} {t : Ref}

theorem transpose_wf {perm : List Nat} (hwf : WF h) (hx : h[r]? = some (.arr v w sh ax t))
    (hdim : ax.length = sh.length) (hop : transpose h r perm = some (h', r')) :
    Ext 0 h h' ∧ ArrAt h' r' := by
  obtain ⟨hv, ht, hax⟩ := hwf _ (List.mem_of_getElem? hx)
  unfold transpose at hop
  rw [hx] at hop
  simp only [] at hop
  split at hop
  · cases hop
  · next hc =>
    simp at hc
    obtain ⟨he, hd⟩ := shallowDict_spec t hwf
    refine alloc_arr_res he (IsBuf.mono he.grows hv) hd ?_ (by simp) hop
    intro a ha
    rw [List.mem_map] at ha
    obtain ⟨k, hk, rfl⟩ := ha
    have hlt : k < ax.length := by
      rw [hdim]
      exact perm_lt hc.1 hc.2 k hk
    exact IsAxis.mono he.grows (hax _ (getD_mem hlt))

theorem squeeze_wf (hwf : WF h) (hx : h[r]? = some (.arr v w sh ax t))
    (hdim : ax.length = sh.length) (hop : squeeze h r = some (h', r')) :
    Ext 0 h h' ∧ ArrAt h' r' := by
  obtain ⟨hv, ht, hax⟩ := hwf _ (List.mem_of_getElem? hx)
  unfold squeeze at hop
  rw [hx] at hop
  simp only [] at hop
  obtain ⟨he, hd⟩ := shallowDict_spec t hwf
  refine alloc_arr_res he (IsBuf.mono he.grows hv) hd ?_ (by simp) hop
  intro a ha
  rw [List.mem_map] at ha
  obtain ⟨k, hk, rfl⟩ := ha
  have hlt : k < ax.length := by
    rw [hdim]
    have := (List.mem_filter.mp hk).1
    exact List.mem_range.mp this
  exact IsAxis.mono he.grows (hax _ (getD_mem hlt))

theorem sliceAll_wf (hwf : WF h) (hx : h[r]? = some (.arr v w sh ax t))
    (hdim : ax.length = sh.length) (hop : sliceAll h r = some (h', r')) :
    Ext 0 h h' ∧ ArrAt h' r' := by
  obtain ⟨hv, ht, hax⟩ := hwf _ (List.mem_of_getElem? hx)
  unfold sliceAll at hop
  rw [hx] at hop
  simp only [] at hop
  obtain ⟨he, hd⟩ := shallowDict_spec t hwf
  exact alloc_arr_res he (IsBuf.mono he.grows hv) hd (fun a ha => IsAxis.mono he.grows (hax a ha)) hdim hop

theorem takeScalar_wf {d p : Nat} (hwf : WF h) (hx : h[r]? = some (.arr v w sh ax t))
    (hdim : ax.length = sh.length) (hop : takeScalar h r d p = some (h', r')) :
    Ext 0 h h' ∧ ArrAt h' r' := by
  obtain ⟨hv, ht, hax⟩ := hwf _ (List.mem_of_getElem? hx)
  unfold takeScalar at hop
  rw [hx] at hop
  simp only [] at hop
  split at hop
  · cases hop
  · obtain ⟨he, hd⟩ := shallowDict_spec t hwf
    refine alloc_arr_res he (IsBuf.mono he.grows hv) hd ?_ ?_ hop
    · intro a ha
      exact IsAxis.mono he.grows (hax a (List.mem_of_mem_eraseIdx ha))
    · rw [List.length_eraseIdx, List.length_eraseIdx, hdim]

theorem takeList_wf {d : Nat} {ps : List Nat} (hwf : WF h) (hx : h[r]? = some (.arr v w sh ax t))
    (hdim : ax.length = sh.length) (hop : takeList h r d ps = some (h', r')) :
    Ext 0 h h' ∧ ArrAt h' r' := by
  obtain ⟨hv, ht, hax⟩ := hwf _ (List.mem_of_getElem? hx)
  unfold takeList at hop
  rw [hx] at hop
  simp only [] at hop
  split at hop
  · cases hop
  · next hc =>
    simp only [freshBuf_eq] at hop
    simp at hc
    have hlt : d < ax.length := by rw [hdim]; exact hc.1
    generalize readBuf h v _ = cells at hop
    have he1 : Ext 0 h (h ++ [.buf cells]) := Ext.alloc (o := .buf cells) trivial (by simp [refs])
    have hwf1 := he1.wf hwf
    obtain ⟨he2, ha2⟩ := selectAxis_spec ps hwf1 (IsAxis.mono he1.grows (hax _ (getD_mem (x := 0) hlt)))
    generalize selectAxis (h ++ [.buf cells]) (ax.getD d 0) ps = A at hop he2 ha2
    have hwf2 := he2.wf hwf1
    obtain ⟨he3, hd3⟩ := shallowDict_spec t hwf2
    generalize shallowDict A.1 t = D at hop he3 hd3
    have hg : Grows h D.1 := ((he1.trans he2).trans he3).grows
    refine alloc_arr_res ((he1.trans he2).trans he3) ⟨_, (he2.trans he3).grows.get (get_append_last _ _)⟩ hd3
      ?_ (by simp [hdim]) hop
    intro a ha
    rcases List.mem_or_eq_of_mem_set ha with ha | rfl
    · exact IsAxis.mono hg (hax a ha)
    · exact ha2.mono he3.grows

theorem addScalar_wf {k : Int} (hwf : WF h) (hx : h[r]? = some (.arr v w sh ax t))
    (hdim : ax.length = sh.length) (hop : addScalar h r k = some (h', r')) :
    Ext 0 h h' ∧ ArrAt h' r' := by
  obtain ⟨hv, ht, hax⟩ := hwf _ (List.mem_of_getElem? hx)
  unfold addScalar at hop
  rw [hx] at hop
  simp only [] at hop
  generalize (readBuf h v w).map (· + k) = cells at hop
  have he1 : Ext 0 h (alloc h (.buf cells)).1 := Ext.alloc (o := .buf cells) trivial (by simp [refs])
  have he2 : Ext 0 (alloc h (.buf cells)).1 (alloc (alloc h (.buf cells)).1 (.dict [])).1 :=
    Ext.alloc (by rw [WFObj_dict]; intro k r he; cases he) (fun _ _ => Nat.zero_le _)
  have hg : Grows h (alloc (alloc h (.buf cells)).1 (.dict [])).1 := (he1.trans he2).grows
  exact alloc_arr_res (he1.trans he2) ⟨_, he2.grows.get (get_append_last _ _)⟩ ⟨_, get_append_last _ _⟩
    (fun a ha => IsAxis.mono hg (hax a ha)) hdim hop

theorem sortAxis_wf {d : Nat} (hwf : WF h) (hx : h[r]? = some (.arr v w sh ax t))
    (hdim : ax.length = sh.length) (hop : sortAxis h r d = some (h', r')) :
    Ext 0 h h' ∧ ArrAt h' r' := by
  obtain ⟨hv, ht, hax⟩ := hwf _ (List.mem_of_getElem? hx)
  unfold sortAxis at hop
  rw [hx] at hop
  simp only [] at hop
  split at hop
  · cases hop
  · simp only [freshBuf_eq] at hop
    generalize argsortBy _ _ = ps at hop
    generalize readBuf h v _ = cells at hop
    rw [foldl_step_eq _ (fun hh i => if i == d then selectAxis hh (ax.getD i 0) ps else deepAxis hh (ax.getD i 0))
      (fun acc i => rfl)] at hop
    simp only [List.nil_append] at hop
    have he1 : Ext 0 h (h ++ [.buf cells]) := Ext.alloc (o := .buf cells) trivial (by simp [refs])
    have hwf1 := he1.wf hwf
    obtain ⟨he2, hgood, _, hlen⟩ := mapAccum_heap
      (fun hh i => if i == d then selectAxis hh (ax.getD i 0) ps else deepAxis hh (ax.getD i 0)) 0
      (fun hh i => IsAxis hh (ax.getD i 0)) IsAxis (fun _ => ()) (fun _ _ => ())
      (fun _ _ _ _ hg hp => hp.mono hg) (fun _ _ _ _ hg hb => hb.mono hg) (fun _ _ _ _ _ _ => rfl)
      (fun hh i hw _ hp => by
        simp only []
        split
        · exact ⟨(selectAxis_spec ps hw hp).1, (selectAxis_spec ps hw hp).2, trivial⟩
        · obtain ⟨e1, _, e3, _⟩ := deepAxis_spec (n := 0) hw (Nat.zero_le _) hp
          exact ⟨e1, e3, trivial⟩)
      (List.range ax.length) _ hwf1 (Nat.zero_le _)
      (fun i hi => IsAxis.mono he1.grows (hax _ (getD_mem (List.mem_range.mp hi))))
    generalize mapAccum _ (h ++ [.buf cells]) (List.range ax.length) = A at hop he2 hgood hlen
    have hwf2 := he2.wf hwf1
    obtain ⟨he3, hd3⟩ := shallowDict_spec t hwf2
    generalize shallowDict A.1 t = D at hop he3 hd3
    refine alloc_arr_res ((he1.trans he2).trans he3) ⟨_, (he2.trans he3).grows.get (get_append_last _ _)⟩ hd3
      (fun a ha => (hgood a ha).mono he3.grows) (by rw [hlen, List.length_range, hdim]) hop

/-- `copy()`: everything new, new objects refer to new objects, same snapshot -/
theorem deepCopy_full (hwf : WF h) (hc : deepCopy h r = some (h', r')) :
    Ext h.length h h' ∧ h.length ≤ r' ∧ r' < h'.length ∧ obsArr h' r' = obsArr h r ∧
    ∀ v w sh ax t, h[r]? = some (.arr v w sh ax t) →
      ∃ v' w' ax' t', h'[r']? = some (.arr v' w' sh ax' t') ∧ ax'.length = ax.length := by
  unfold deepCopy at hc
  split at hc
  · next vals view shape axes attrs hx =>
    obtain ⟨⟨c, hv⟩, ⟨kv0, ht⟩, hax⟩ := hwf _ (List.mem_of_getElem? hx)
    simp only [freshBuf_eq] at hc
    generalize hcells : readBuf h vals view = cells at hc
    have he1 : Ext h.length h (h ++ [.buf cells]) := Ext.alloc (o := .buf cells) trivial (by simp [refs])
    have hwf1 := he1.wf hwf
    obtain ⟨he2, hgood, hobs, hlen⟩ := mapAlloc_deepAxis_spec (n := h.length) axes hwf1 he1.grows.le
      (fun a ha => IsAxis.mono he1.grows (hax a ha))
    generalize mapAlloc deepAxis (h ++ [.buf cells]) axes = A at hc he2 hgood hobs hlen
    have hwf2 := he2.wf hwf1
    have hn2 : h.length ≤ A.1.length := (he1.trans he2).grows.le
    obtain ⟨he3, hn3, ⟨kv, hd3⟩, ho3⟩ := deepDict_spec (n := h.length) attrs hwf2 hn2
    generalize deepDict A.1 attrs = D at hc he3 hn3 hd3 ho3
    have hwf3 := he3.wf hwf2
    have hbuf : D.1[h.length]? = some (.buf cells) := (he2.trans he3).grows.get (get_append_last _ _)
    obtain ⟨e1, e2⟩ := alloc_arr_spec (w := List.range cells.length) (sh := shape) ((he1.trans he2).trans he3)
      ⟨_, hbuf⟩ ⟨_, hd3⟩ (fun a ha => (hgood a ha).2.mono he3.grows) (Nat.le_refl _) hn3
      (fun a ha => (hgood a ha).1)
    have hc2 : some (alloc D.1 (.arr h.length (List.range cells.length) shape A.2 D.2)) = some (h', r') := hc
    simp only [Option.some.injEq] at hc2
    have h1 : h' = (alloc D.1 (.arr h.length (List.range cells.length) shape A.2 D.2)).1 := by rw [hc2]
    have h2 : r' = (alloc D.1 (.arr h.length (List.range cells.length) shape A.2 D.2)).2 := by rw [hc2]
    have hga : Grows D.1 (alloc D.1 (.arr h.length (List.range cells.length) shape A.2 D.2)).1 := Grows.alloc _ _
    rw [← h1] at e1 hga
    rw [← h1, ← h2] at e2
    have hr' : r' = D.1.length := h2
    have hlen' : h'.length = D.1.length + 1 := by rw [h1]; simp [alloc]
    have hgD : Grows h D.1 := ((he1.trans he2).trans he3).grows
    refine ⟨e1, ?_, ?_, ?_, ?_⟩
    · rw [hr']; exact hgD.le
    · rw [hr', hlen']; exact Nat.lt_succ_self _
    · unfold obsArr
      rw [e2, hx]
      simp only []
      rw [readBuf_fresh (hga.get hbuf), hcells]
      have ea : A.2.map (obsAxis h') = axes.map (obsAxis h) := by
        have e3 : A.2.map (obsAxis h') = A.2.map (obsAxis A.1) :=
          List.map_congr_left fun b hb => obsAxis_grows hwf2 (he3.grows.trans hga) (hgood b hb).2.lt
        have e4 : axes.map (obsAxis (h ++ [.buf cells])) = axes.map (obsAxis h) :=
          List.map_congr_left fun a ha => obsAxis_grows hwf he1.grows (IsAxis.lt (hax a ha))
        rw [e3, hobs, e4]
      rw [ea, obsDict_grows hwf3 hga (lt_of_get hd3), ho3,
        obsDict_grows hwf (he1.trans he2).grows (lt_of_get ht)]
    · intro v w sh ax t hx2
      rw [hx] at hx2
      cases hx2
      exact ⟨_, _, _, _, e2, hlen⟩
  · cases hc

theorem deepCopy_wf (hwf : WF h) (hx : h[r]? = some (.arr v w sh ax t))
    (hdim : ax.length = sh.length) (hop : deepCopy h r = some (h', r')) :
    Ext 0 h h' ∧ ArrAt h' r' := by
  obtain ⟨e1, _, _, _, e5⟩ := deepCopy_full hwf hop
  obtain ⟨v', w', ax', t', e6, e7⟩ := e5 v w sh ax t hx
  exact ⟨e1.zero, v', w', sh, ax', t', e6, by rw [e7, hdim]⟩

end Ops


/-! ### steps -/

/-- every live array has as many Axis objects as dimensions (extra invariant needed by `wf_step`) -/
def DimOK (s : St) : Prop :=
  ∀ r ∈ s.env, ∀ v w sh ax t, s.h[r]? = some (.arr v w sh ax t) → ax.length = sh.length

/-- `create` is given as many axes as dimensions (extra hypothesis needed by `wf_step`) -/
def OpOK : Op → Prop
  | .create shape _ axes _ => axes.length = shape.length
  | _ => True

theorem arrAt_of_env {s : St} (henv : EnvOK s) (hdim : DimOK s) : ∀ r ∈ s.env, ArrAt s.h r := by
  intro r hr
  obtain ⟨v, w, sh, ax, t, hx⟩ := henv r hr
  exact ⟨v, w, sh, ax, t, hx, hdim r hr v w sh ax t hx⟩

theorem env_of_arrAt {s : St} (ha : ∀ r ∈ s.env, ArrAt s.h r) : EnvOK s ∧ DimOK s := by
  constructor
  · intro r hr
    obtain ⟨v, w, sh, ax, t, hx, _⟩ := ha r hr
    exact ⟨v, w, sh, ax, t, hx⟩
  · intro r hr v w sh ax t hx
    obtain ⟨v2, w2, sh2, ax2, t2, hx2, hd⟩ := ha r hr
    rw [hx] at hx2
    cases hx2
    exact hd

theorem ArrAt.mono {h h' : H} {r : Ref} (hg : Grows h h') : ArrAt h r → ArrAt h' r := by
  rintro ⟨v, w, sh, ax, t, hx, hd⟩
  exact ⟨v, w, sh, ax, t, hg.get hx, hd⟩

theorem apply_wf {h h' : H} {env : List Ref} {op : Op} {r' : Ref} (hwf : WF h)
    (henv : ∀ r ∈ env, ArrAt h r) (hok : OpOK op) (hop : apply h env op = some (h', r')) :
    Ext 0 h h' ∧ ArrAt h' r' := by
  cases op with
  | create shape cells axes attrs =>
    simp only [apply, Option.some.injEq] at hop
    have := create_spec shape cells axes attrs hwf hok
    rw [hop] at this
    exact this
  | «mut» k m => simp [apply] at hop
  | copy k =>
    simp only [apply, Option.bind_eq_some_iff] at hop
    obtain ⟨q, hq1, hq⟩ := hop
    obtain ⟨v, w, sh, ax, t, hx, hd⟩ := henv q (List.mem_of_getElem? hq1)
    exact deepCopy_wf hwf hx hd hq
  | transpose k perm =>
    simp only [apply, Option.bind_eq_some_iff] at hop
    obtain ⟨q, hq1, hq⟩ := hop
    obtain ⟨v, w, sh, ax, t, hx, hd⟩ := henv q (List.mem_of_getElem? hq1)
    exact transpose_wf hwf hx hd hq
  | squeeze k =>
    simp only [apply, Option.bind_eq_some_iff] at hop
    obtain ⟨q, hq1, hq⟩ := hop
    obtain ⟨v, w, sh, ax, t, hx, hd⟩ := henv q (List.mem_of_getElem? hq1)
    exact squeeze_wf hwf hx hd hq
  | sliceAll k =>
    simp only [apply, Option.bind_eq_some_iff] at hop
    obtain ⟨q, hq1, hq⟩ := hop
    obtain ⟨v, w, sh, ax, t, hx, hd⟩ := henv q (List.mem_of_getElem? hq1)
    exact sliceAll_wf hwf hx hd hq
  | takeScalar k d p =>
    simp only [apply, Option.bind_eq_some_iff] at hop
    obtain ⟨q, hq1, hq⟩ := hop
    obtain ⟨v, w, sh, ax, t, hx, hd⟩ := henv q (List.mem_of_getElem? hq1)
    exact takeScalar_wf hwf hx hd hq
  | takeList k d ps =>
    simp only [apply, Option.bind_eq_some_iff] at hop
    obtain ⟨q, hq1, hq⟩ := hop
    obtain ⟨v, w, sh, ax, t, hx, hd⟩ := henv q (List.mem_of_getElem? hq1)
    exact takeList_wf hwf hx hd hq
  | addScalar k c =>
    simp only [apply, Option.bind_eq_some_iff] at hop
    obtain ⟨q, hq1, hq⟩ := hop
    obtain ⟨v, w, sh, ax, t, hx, hd⟩ := henv q (List.mem_of_getElem? hq1)
    exact addScalar_wf hwf hx hd hq
  | sortAxis k d =>
    simp only [apply, Option.bind_eq_some_iff] at hop
    obtain ⟨q, hq1, hq⟩ := hop
    obtain ⟨v, w, sh, ax, t, hx, hd⟩ := henv q (List.mem_of_getElem? hq1)
    exact sortAxis_wf hwf hx hd hq

theorem step_nonmut {s : St} {op : Op} (hnm : isMut op = false) :
    step s op = match apply s.h s.env op with
      | some (h', r) => { h := h', env := s.env ++ [r] }
      | none => s := by
  cases op <;> first | rfl | (simp [isMut] at hnm)

theorem step_mut (s : St) (k : Nat) (m : Mut) :
    step s (.mut k m) = match s.env[k]? with
      | some r => { s with h := mutate s.h r m }
      | none => s := rfl

/-- a non-in-place step only allocates and keeps the environment as a prefix -/
theorem step_nonmut_grows {s : St} {op : Op} (hnm : isMut op = false) :
    Grows s.h (step s op).h ∧ ∃ e, (step s op).env = s.env ++ e := by
  rw [step_nonmut hnm]
  cases hx : apply s.h s.env op with
  | none => exact ⟨Grows.refl _, [], by simp⟩
  | some p => exact ⟨(apply_grows hx).1, [p.2], rfl⟩

theorem step_inv {s : St} {op : Op} (hwf : WF s.h) (henv : ∀ r ∈ s.env, ArrAt s.h r) (hok : OpOK op) :
    WF (step s op).h ∧ ∀ r ∈ (step s op).env, ArrAt (step s op).h r := by
  cases hm : isMut op with
  | false =>
    rw [step_nonmut hm]
    cases hx : apply s.h s.env op with
    | none => exact ⟨hwf, henv⟩
    | some p =>
      obtain ⟨he, ha⟩ := apply_wf hwf henv hok hx
      refine ⟨he.wf hwf, ?_⟩
      intro r hr
      simp only [List.mem_append, List.mem_singleton] at hr
      rcases hr with hr | rfl
      · exact (henv r hr).mono he.grows
      · exact ha
  | true =>
    cases op with
    | «mut» k m =>
      rw [step_mut]
      cases hx : s.env[k]? with
      | none => exact ⟨hwf, henv⟩
      | some q =>
        refine ⟨mutate_wf hwf q m, ?_⟩
        intro r hr
        obtain ⟨v, w, sh, ax, t, hx2, hd⟩ := henv r hr
        exact ⟨v, w, sh, ax, t, mutate_arr q m hx2, hd⟩
    | _ => simp [isMut] at hm

theorem run_nil (s : St) : run s [] = s := rfl
theorem run_cons (s : St) (op : Op) (ops : List Op) : run s (op :: ops) = run (step s op) ops := rfl

theorem run_inv (ops : List Op) : ∀ {s : St}, WF s.h → (∀ r ∈ s.env, ArrAt s.h r) → (∀ op ∈ ops, OpOK op) →
    WF (run s ops).h ∧ ∀ r ∈ (run s ops).env, ArrAt (run s ops).h r := by
  induction ops with
  | nil => intro s hwf henv _; exact ⟨hwf, henv⟩
  | cons op ops ih =>
    intro s hwf henv hok
    rw [run_cons]
    obtain ⟨h1, h2⟩ := step_inv hwf henv (hok op (List.mem_cons_self ..))
    exact ih h1 h2 (fun o ho => hok o (List.mem_cons_of_mem _ ho))

theorem run_nonmut_grows (ops : List Op) : ∀ {s : St}, (∀ op ∈ ops, isMut op = false) →
    Grows s.h (run s ops).h := by
  induction ops with
  | nil => intro s _; exact Grows.refl _
  | cons op ops ih =>
    intro s hnm
    rw [run_cons]
    exact (step_nonmut_grows (hnm op (List.mem_cons_self ..))).1.trans
      (ih (fun o ho => hnm o (List.mem_cons_of_mem _ ho)))


end Heap
end DimModel

/-
Helper lemmas for C15 (object-level model).
-/
import DimModel.Lib.Heap
namespace DimModel
namespace Heap

end Heap
end DimModel

/-
Helper lemmas for the key-function form of `sort_axis` and for the full-shape boolean `compress` (Lib/Missing2.lean).
-/
import DimModel.Lib.Missing2
import DimModel.Proofs.C17
namespace DimModel
namespace C17P
open Lib

/-! ### `evalKeys` -/

/-- the total function a key stands for on the labels where it does not raise -/
def keyOr (key : Label → Except Err Label) (l : Label) : Label :=
  match key l with
  | .ok v => v
  | .error _ => Label.none

theorem evalKeys_ok (key : Label → Except Err Label) : ∀ (L ks : List Label), evalKeys key L = .ok ks →
    ks = L.map (keyOr key) ∧ ∀ l ∈ L, key l = .ok (keyOr key l)
  | [], ks, h => by
    simp only [evalKeys, Except.ok.injEq] at h
    subst h; simp
  | l :: ls, ks, h => by
    unfold evalKeys at h
    cases hk : key l with
    | error e => rw [hk] at h; cases h
    | ok v =>
      rw [hk] at h
      cases hr : evalKeys key ls with
      | error e => rw [hr] at h; cases h
      | ok vs =>
        rw [hr] at h
        simp only [Except.ok.injEq] at h
        obtain ⟨h1, h2⟩ := evalKeys_ok key ls vs hr
        have hv : keyOr key l = v := by simp [keyOr, hk]
        refine ⟨?_, ?_⟩
        · rw [← h, h1, List.map_cons, hv]
        · intro x hx
          rcases List.mem_cons.mp hx with rfl | hx
          · rw [hv]; exact hk
          · exact h2 x hx

theorem evalKeys_of_forall (key : Label → Except Err Label) (f : Label → Label) :
    ∀ (L : List Label), (∀ l ∈ L, key l = .ok (f l)) → evalKeys key L = .ok (L.map f)
  | [], _ => rfl
  | l :: ls, h => by
    unfold evalKeys
    rw [h l (List.mem_cons_self), evalKeys_of_forall key f ls (fun x hx => h x (List.mem_cons_of_mem _ hx))]
    rfl

/-- the first key that raises decides the error -/
theorem evalKeys_error (key : Label → Except Err Label) : ∀ (L : List Label) (e : Err), evalKeys key L = .error e →
    ∃ (i : Nat) (l : Label), L[i]? = some l ∧ key l = .error e ∧ ∀ i' l', i' < i → L[i']? = some l' → ∃ v, key l' = .ok v
  | [], e, h => by simp [evalKeys] at h
  | l :: ls, e, h => by
    unfold evalKeys at h
    cases hk : key l with
    | error e' =>
      rw [hk] at h
      simp only [Except.error.injEq] at h
      subst h
      exact ⟨0, l, rfl, hk, fun i' l' hi => by omega⟩
    | ok v =>
      rw [hk] at h
      cases hr : evalKeys key ls with
      | ok vs => rw [hr] at h; cases h
      | error e' =>
        rw [hr] at h
        simp only [Except.error.injEq] at h
        subst h
        obtain ⟨i, x, hx, hkx, hbefore⟩ := evalKeys_error key ls e' hr
        refine ⟨i + 1, x, by simpa using hx, hkx, ?_⟩
        intro i' l' hi' hl'
        cases i' with
        | zero =>
          simp only [List.getElem?_cons_zero, Option.some.injEq] at hl'
          subst hl'; exact ⟨v, hk⟩
        | succ n =>
          simp only [List.getElem?_cons_succ] at hl'
          exact hbefore n l' (by omega) hl'

/-! ### `sortAxisKey` unfolded -/

theorem sortAxisKey_eq {α : Type} (a r : DimArray α) (k : DimKey) (key : Label → Except Err Label) (pos : Nat)
    (hpos : axisPos a.axes k = .ok pos) (h : sortAxisKey a k key = .ok r) :
    ∃ ks, evalKeys key (a.axes.getD pos default).labels = .ok ks ∧ keysComparable ks = true ∧
      r = takeAxisPos a pos (argsortBy Label.le ks) := by
  unfold sortAxisKey at h
  rw [hpos] at h
  simp only [bind, Except.bind] at h
  cases hk : evalKeys key (a.axes.getD pos default).labels with
  | error e => rw [hk] at h; cases h
  | ok ks =>
    rw [hk] at h
    simp only at h
    cases hc : keysComparable ks with
    | false => rw [hc] at h; simp at h
    | true =>
      rw [hc] at h
      simp only [Bool.not_true, Bool.false_eq_true, if_false, pure, Except.pure, Except.ok.injEq] at h
      exact ⟨ks, rfl, hc, h.symm⟩

theorem sortAxisKey_of_parts {α : Type} (a : DimArray α) (k : DimKey) (key : Label → Except Err Label) (pos : Nat)
    (ks : List Label) (hpos : axisPos a.axes k = .ok pos)
    (hk : evalKeys key (a.axes.getD pos default).labels = .ok ks) (hc : keysComparable ks = true) :
    sortAxisKey a k key = .ok (takeAxisPos a pos (argsortBy Label.le ks)) := by
  unfold sortAxisKey
  rw [hpos]
  simp only [bind, Except.bind]
  rw [hk]
  simp only
  rw [hc]
  rfl

theorem sortAxisKey_error_pos {α : Type} (a : DimArray α) (k : DimKey) (key : Label → Except Err Label) (e : Err)
    (hpos : axisPos a.axes k = .error e) : sortAxisKey a k key = .error e := by
  unfold sortAxisKey
  rw [hpos]; rfl

theorem sortAxisKey_error_key {α : Type} (a : DimArray α) (k : DimKey) (key : Label → Except Err Label) (pos : Nat) (e : Err)
    (hpos : axisPos a.axes k = .ok pos) (hk : evalKeys key (a.axes.getD pos default).labels = .error e) :
    sortAxisKey a k key = .error e := by
  unfold sortAxisKey
  rw [hpos]
  simp only [bind, Except.bind]
  rw [hk]

theorem sortAxisKey_error_cmp {α : Type} (a : DimArray α) (k : DimKey) (key : Label → Except Err Label) (pos : Nat)
    (ks : List Label) (hpos : axisPos a.axes k = .ok pos)
    (hk : evalKeys key (a.axes.getD pos default).labels = .ok ks) (hc : keysComparable ks = false) :
    sortAxisKey a k key = .error .type := by
  unfold sortAxisKey
  rw [hpos]
  simp only [bind, Except.bind]
  rw [hk]
  simp only
  rw [hc]
  rfl

/-! ### full-shape boolean `compress` -/

theorem allIdx_nodup : ∀ (s : List Nat), (allIdx s).Nodup
  | [] => by simp [allIdx]
  | n :: s => by
    unfold allIdx
    unfold List.Nodup
    rw [List.pairwise_flatMap]
    refine ⟨?_, ?_⟩
    · intro i _
      rw [List.pairwise_map]
      exact List.Pairwise.imp (fun {x y} (h : x ≠ y) (e : i :: x = i :: y) => h (by injection e)) (allIdx_nodup s)
    · refine List.Pairwise.imp_of_mem ?_ (List.nodup_range (n := n))
      intro i j _ _ hij x hx y hy e
      obtain ⟨u, -, rfl⟩ := List.mem_map.mp hx
      obtain ⟨v, -, hv⟩ := List.mem_map.mp hy
      rw [← hv] at e
      injection e with h1 _
      exact hij h1

theorem coordLabels_getElem? : ∀ (axes : List Axis) (j : List Nat) (i : Nat) (ax : Axis) (p : Nat),
    axes[i]? = some ax → j[i]? = some p → (coordLabels axes j)[i]? = some (ax.labels.getD p Label.none) := by
  intro axes j i ax p h1 h2
  unfold coordLabels
  rw [List.getElem?_map, List.getElem?_zip_eq_some (z := (ax, p)) |>.mpr ⟨h1, h2⟩]
  rfl

theorem coordLabels_length (axes : List Axis) (j : List Nat) (h : j.length = axes.length) :
    (coordLabels axes j).length = axes.length := by
  unfold coordLabels
  rw [List.length_map, List.length_zip, h, Nat.min_self]

theorem inRange_length : ∀ (s j : List Nat), InRange s j → j.length = s.length
  | [], [], _ => rfl
  | _ :: s, _ :: is, h => by
    simp only [List.length_cons, Nat.add_right_cancel_iff]
    exact inRange_length s is h.2
  | [], _ :: _, h => by simp [InRange] at h
  | _ :: _, [], h => by simp [InRange] at h

theorem compressNd_eq_tuple {α : Type} (a : DimArray α) (mask : NDArr Bool) (hrank : a.ndim ≠ 1)
    (hshape : mask.shape = a.vals.shape) (hnd : a.vals.shape.length = a.ndim) :
    compressNd a mask = .ok (.inr { name := ",".intercalate a.dims
                                    coords := ((allIdx a.vals.shape).filter mask.get).map (coordLabels a.axes)
                                    cells := ((allIdx a.vals.shape).filter mask.get).map a.vals.get
                                    vkind := a.vkind, attrs := a.attrs }) := by
  unfold compressNd
  have h1 : (mask.shape.length != a.ndim) = false := by rw [hshape, hnd]; simp
  have h2 : (mask.shape != a.vals.shape) = false := by rw [hshape]; simp
  have h3 : (a.ndim == 1) = false := by simpa using hrank
  simp only [h1, h2, h3, Bool.false_eq_true, if_false]

theorem compressNd_eq_axis {α : Type} (a : DimArray α) (mask : NDArr Bool) (hrank : a.ndim = 1)
    (hshape : mask.shape = a.vals.shape) (hnd : a.vals.shape.length = a.ndim) :
    compressNd a mask =
      (compressAxis a ((List.range (mask.shape.getD 0 0)).map fun i => mask.get [i]) (.pos 0)).map .inl := by
  unfold compressNd
  have h1 : (mask.shape.length != a.ndim) = false := by rw [hshape, hnd]; simp
  have h2 : (mask.shape != a.vals.shape) = false := by rw [hshape]; simp
  have h3 : (a.ndim == 1) = true := by simpa using hrank
  simp only [h1, h2, h3, Bool.false_eq_true, if_false, if_true]

theorem compressNd_err_rank {α : Type} (a : DimArray α) (mask : NDArr Bool) (h : mask.shape.length ≠ a.ndim) :
    compressNd a mask = .error .value := by
  unfold compressNd
  have h1 : (mask.shape.length != a.ndim) = true := by simpa using h
  simp only [h1, if_true]

theorem compressNd_err_shape {α : Type} (a : DimArray α) (mask : NDArr Bool) (h : mask.shape.length = a.ndim)
    (h' : mask.shape ≠ a.vals.shape) : compressNd a mask = .error .index := by
  unfold compressNd
  have h1 : (mask.shape.length != a.ndim) = false := by simp [h]
  have h2 : (mask.shape != a.vals.shape) = true := by simpa using h'
  simp only [h1, h2, Bool.false_eq_true, if_false, if_true]

end C17P
end DimModel

/-
Helper lemmas for the grouped-axis cache machine (Lib/GroupedCache.lean): frame lemmas for the view of the members,
coherence of every safe step.
-/
import DimModel.Lib.GroupedCache
namespace DimModel
namespace GroupedCache
open Lib

theorem view_append (pl x : List PAx) (ms : List Nat) (h : ∀ m ∈ ms, m < pl.length) : view (pl ++ x) ms = view pl ms := by
  unfold view
  apply List.map_congr_left
  intro m hm
  rw [List.getElem?_append_left (h m hm)]

theorem view_set (pl : List PAx) (p : Nat) (a : PAx) (ms : List Nat) (h : p ∉ ms) : view (pl.set p a) ms = view pl ms := by
  unfold view
  apply List.map_congr_left
  intro m hm
  have : p ≠ m := fun e => h (e ▸ hm)
  rw [List.getElem?_set_ne this]

theorem view_length (pl : List PAx) (ms : List Nat) : (view pl ms).length = ms.length := by
  unfold view; exact List.length_map _

/-- the copies appended by `flatten` / `copy` read like the originals -/
theorem view_copies (pl : List PAx) (ms : List Nat) :
    view (pl ++ view pl ms) (List.range' pl.length ms.length) = view pl ms := by
  apply List.ext_getElem
  · simp [view]
  · intro i h1 h2
    have hi : i < ms.length := by simpa [view] using h2
    simp only [view, List.getElem_map, List.getElem_range']
    have hv : i < (List.map (fun m => pl[m]?.getD default) ms).length := by simpa using hi
    rw [show pl.length + 1 * i = pl.length + i by omega, List.getElem?_append_right (by omega)]
    simp [hi]

theorem fresh_congr (pl pl' : List PAx) (ms ms' : List Nat) (h : view pl' ms' = view pl ms) :
    freshVals pl' ms' = freshVals pl ms ∧ freshSize pl' ms' = freshSize pl ms ∧ freshName pl' ms' = freshName pl ms := by
  unfold freshVals freshSize freshName
  rw [h]
  exact ⟨rfl, rfl, rfl⟩

/-- coherence of one grouped axis moves along any change of the heap that leaves its members' view alone -/
theorem coh_frame (pl pl' : List PAx) (g : GAxis) (hg : g.Coherent pl) (hlen : pl.length ≤ pl'.length)
    (hv : view pl' g.members = view pl g.members) : g.Coherent pl' := by
  obtain ⟨e1, e2, e3⟩ := fresh_congr pl pl' g.members g.members hv
  exact ⟨fun m hm => Nat.lt_of_lt_of_le (hg.valid m hm) hlen, by rw [e1]; exact hg.vals, by rw [e2]; exact hg.size,
    by rw [e3]; exact hg.name⟩

theorem coh_fillVals (pl : List PAx) (g : GAxis) (hg : g.Coherent pl) : (fillVals pl g).Coherent pl := by
  unfold fillVals
  cases h : g.vals with
  | some T => exact hg
  | none => exact ⟨hg.valid, Or.inr rfl, hg.size, hg.name⟩

theorem coh_fillSize (pl : List PAx) (g : GAxis) (hg : g.Coherent pl) : (fillSize pl g).Coherent pl := by
  unfold fillSize
  cases h : g.size with
  | some T => exact hg
  | none => exact ⟨hg.valid, hg.vals, Or.inr rfl, hg.name⟩

theorem coherent_gset (pl : List PAx) (gs : List GAxis) (i : Nat) (x : GAxis)
    (h : ∀ g ∈ gs, g.Coherent pl) (hx : x.Coherent pl) : ∀ g ∈ gs.set i x, g.Coherent pl := by
  intro g hg
  rcases List.mem_or_eq_of_mem_set hg with h1 | h1
  · exact h g h1
  · exact h1 ▸ hx

theorem coherent_gappend (pl : List PAx) (gs : List GAxis) (x : GAxis)
    (h : ∀ g ∈ gs, g.Coherent pl) (hx : x.Coherent pl) : ∀ g ∈ gs ++ [x], g.Coherent pl := by
  intro g hg
  rcases List.mem_append.mp hg with h1 | h1
  · exact h g h1
  · simp only [List.mem_singleton] at h1; exact h1 ▸ hx

theorem notMember (s : St) (p : Nat) (h : isMember s p = false) : ∀ g ∈ s.grouped, p ∉ g.members := by
  intro g hg hp
  unfold isMember at h
  have : s.grouped.any (fun g => g.members.contains p) = true :=
    List.any_eq_true.mpr ⟨g, hg, by simpa using hp⟩
  rw [h] at this
  cases this

/-- a fresh grouped axis over copies of `ms` appended to the heap -/
theorem coh_copies (pl : List PAx) (ms : List Nat) (x : GAxis)
    (hm : x.members = List.range' pl.length ms.length)
    (hvals : x.vals = none ∨ x.vals = some (freshVals pl ms))
    (hsize : x.size = none ∨ x.size = some (freshSize pl ms))
    (hname : x.name = freshName pl ms) : x.Coherent (pl ++ view pl ms) := by
  have hv : view (pl ++ view pl ms) x.members = view pl ms := by rw [hm]; exact view_copies pl ms
  obtain ⟨e1, e2, e3⟩ := fresh_congr pl (pl ++ view pl ms) ms x.members hv
  refine ⟨?_, by rw [e1]; exact hvals, by rw [e2]; exact hsize, by rw [e3]; exact hname⟩
  intro m hmm
  rw [hm, List.mem_range'_1] at hmm
  simp only [List.length_append, view_length]
  omega

theorem step_coherent (s : St) (op : GOp) (hs : Coherent s) (hsafe : Safe s op = true) : Coherent (step s op).1 := by
  have frameApp : ∀ x : List PAx, ∀ g ∈ s.grouped, g.Coherent (s.plain ++ x) := fun x g hg =>
    coh_frame _ _ g (hs g hg) (by simp) (view_append _ _ _ (hs g hg).valid)
  cases op with
  | mkPlain L n => exact fun g hg => frameApp _ g hg
  | group ms =>
    simp only [step]
    split
    · rename_i h
      rw [Bool.and_eq_true, List.all_eq_true] at h
      refine coherent_gappend _ _ _ hs ⟨fun m hm => by simpa using h.1 m hm, Or.inl rfl, Or.inl rfl, rfl⟩
    · exact hs
  | flattenFrom ms =>
    simp only [step]
    split
    · exact coherent_gappend _ _ _ (frameApp _) (coh_copies _ ms _ rfl (Or.inl rfl) (Or.inr rfl) rfl)
    · exact hs
  | readLabels g =>
    simp only [step]
    split
    · exact hs
    · rename_i x hx
      exact coherent_gset _ _ _ _ hs (coh_fillVals _ _ (hs x (List.mem_of_getElem? hx)))
  | readSize g =>
    simp only [step]
    split
    · exact hs
    · rename_i x hx
      exact coherent_gset _ _ _ _ hs (coh_fillSize _ _ (hs x (List.mem_of_getElem? hx)))
  | readName g =>
    simp only [step]
    split <;> exact hs
  | relabelMember p pos v =>
    simp only [Safe, Bool.not_eq_true'] at hsafe
    have hn := notMember s p hsafe
    simp only [step]
    split
    · exact hs
    · split
      · exact hs
      · exact fun g hg => coh_frame _ _ g (hs g hg) (by simp) (view_set _ _ _ _ (hn g hg))
  | renameMember p n =>
    simp only [Safe, Bool.not_eq_true'] at hsafe
    have hn := notMember s p hsafe
    simp only [step]
    split
    · exact hs
    · split
      · exact hs
      · exact fun g hg => coh_frame _ _ g (hs g hg) (by simp) (view_set _ _ _ _ (hn g hg))
  | sliceG g s0 e0 st0 =>
    simp only [step]
    split
    · exact hs
    · rename_i x hx
      have hx' := coherent_gset _ _ g _ hs (coh_fillVals _ _ (hs x (List.mem_of_getElem? hx)))
      split
      · exact hs
      · split <;> exact hx'
  | takeG g ps =>
    simp only [step]
    split
    · exact hs
    · rename_i x hx
      have hx' := coherent_gset _ _ g _ hs (coh_fillVals _ _ (hs x (List.mem_of_getElem? hx)))
      split <;> exact hx'
  | setItemG g pos t => simp [Safe] at hsafe
  | copyG g =>
    simp only [step]
    split
    · exact hs
    · rename_i x hx
      have hc := hs x (List.mem_of_getElem? hx)
      exact coherent_gappend _ _ _ (frameApp _) (coh_copies _ x.members _ rfl hc.vals hc.size hc.name)
  | unflatten g =>
    simp only [step]
    split <;> exact hs

/-! ### the cached size survives a relabelling / renaming of a member -/

theorem freshSize_congr (pl pl' : List PAx) (ms : List Nat)
    (h : ∀ m ∈ ms, (pl'[m]?.getD default).labels.length = (pl[m]?.getD default).labels.length) :
    freshSize pl' ms = freshSize pl ms := by
  unfold freshSize view
  simp only [List.map_map]
  rw [List.map_congr_left (fun m hm => by simpa using h m hm)]
  rfl

theorem freshSize_set (pl : List PAx) (p : Nat) (a a' : PAx) (ms : List Nat) (hp : pl[p]? = some a)
    (hl : a'.labels.length = a.labels.length) : freshSize (pl.set p a') ms = freshSize pl ms := by
  apply freshSize_congr
  intro m _
  by_cases e : p = m
  · subst e
    obtain ⟨hlt, _⟩ := List.getElem?_eq_some_iff.mp hp
    rw [List.getElem?_set_self hlt, hp]
    simpa using hl
  · rw [List.getElem?_set_ne e]


/-- relabelling / renaming ANY plain axis (members included) keeps the cached sizes honest: a setter cannot change a length -/
theorem relabel_size_coherent (s : St) (p : Nat) (pos : Int) (v : Label) (hs : SizeCoherent s) :
    SizeCoherent (step s (.relabelMember p pos v)).1 := by
  simp only [step]
  split
  · exact hs
  · rename_i a ha
    split
    · exact hs
    · intro g hg
      obtain ⟨h1, h2⟩ := hs g hg
      refine ⟨by simpa using h1, ?_⟩
      rw [freshSize_set s.plain p a _ g.members ha (by simp)]
      exact h2

theorem rename_size_coherent (s : St) (p : Nat) (n : String) (hs : SizeCoherent s) :
    SizeCoherent (step s (.renameMember p n)).1 := by
  simp only [step]
  split
  · exact hs
  · rename_i a ha
    split
    · exact hs
    · intro g hg
      obtain ⟨h1, h2⟩ := hs g hg
      refine ⟨by simpa using h1, ?_⟩
      show g.size = none ∨ g.size = some (freshSize (s.plain.set p { labels := a.labels, name := n }) g.members)
      rw [freshSize_set s.plain p a { labels := a.labels, name := n } g.members ha rfl]
      exact h2

end GroupedCache
end DimModel

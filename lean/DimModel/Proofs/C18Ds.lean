/-
Helper lemmas for the Dataset variant of C18: the closed form of `DSV.interpAxisDs` (every variable that has
the dimension becomes the closed form of `Lib.interpAxis` of that variable, the others are untouched).
-/
import DimModel.Lib.DatasetInterp
import DimModel.Proofs.C14
import DimModel.Proofs.C18Axis
namespace DimModel
namespace DSV
open Lib C18P

variable {α : Type}

/-! ### list-of-axes bookkeeping -/

theorem replAxis_replAxis (name : String) (c d : Axis) (hd : d.name = name) (axes : List Axis) :
    replAxis name c (replAxis name d axes) = replAxis name c axes := by
  unfold replAxis
  rw [List.map_map]
  apply List.map_congr_left
  intro ax _
  simp only [Function.comp]
  by_cases h : (ax.name == name) = true
  · have hd' : (d.name == name) = true := by simpa using hd
    simp only [h, if_true, hd']
  · simp only [h, if_false, Bool.false_eq_true]

/-- replacing the axis called `name` = setting the position of that name -/
theorem replAxis_eq_set (name : String) (c : Axis) (v : DimArray α) (hnd : v.dims.Nodup) :
    replAxis name c v.axes = v.axes.set (v.dims.idxOf name) c := by
  have h1 : v.axes.mapIdx (fun i x => if (i == v.dims.idxOf name) = true then c else x) = replAxis name c v.axes := by
    apply mapIdx_eq_map
    intro k hk
    rw [name_beq_idx v.axes hnd name k hk]
    rfl
  rw [← h1]
  apply List.ext_getElem?
  intro i
  rw [List.getElem?_mapIdx, List.getElem?_set]
  by_cases h : v.dims.idxOf name = i
  · subst h
    by_cases hl : v.dims.idxOf name < v.axes.length
    · simp [hl]
    · simp [hl]
  · have : ¬ i = v.dims.idxOf name := fun e => h e.symm
    cases v.axes[i]? <;> simp [h, this]

/-! ### one variable -/

/-- the dtype fix-up of `interpAxisDs` -/
def fixKind (name : String) (kv : String × DimArray α) : String × DimArray α :=
  if kv.2.dims.contains name then (kv.1, { kv.2 with vkind := .f }) else kv

/-- what `Dataset.interp_axis` returns for one variable: the closed form of `DimArray.interp_axis` when the
variable has the dimension, the variable itself otherwise -/
def interpVar [Inhabited α] (lin : α → α → Rat → α) (name : String) (nk : Kind) (σ : List Nat) (xs nx : List Rat)
    (left right : α) (v : DimArray α) : DimArray α :=
  if v.dims.idxOf name < v.dims.length then
    interpResult lin v (v.dims.idxOf name) name (nx.map Label.num) nk σ xs nx left right
  else v

theorem contains_iff_idx (l : List String) (name : String) : l.contains name = true ↔ l.idxOf name < l.length := by
  rw [List.idxOf_lt_length_iff]; simp

theorem reduceVar_pos (name : String) (c : Axis) (f : Nat → DimArray α → NDArr α) (w : DimArray α)
    (hlt : w.dims.idxOf name < w.dims.length) :
    reduceVar name c f w =
      { axes := replAxis name c w.axes, vals := f (w.dims.idxOf name) w, vkind := w.vkind, attrs := w.attrs } := by
  unfold reduceVar; rw [if_pos hlt]

theorem var_sorted [Inhabited α] (lin : α → α → Rat → α) (name : String) (nk : Kind) (xs nx : List Rat)
    (left right : α) (k : String) (v : DimArray α) (hnd : v.dims.Nodup) :
    fixKind name (k, reduceVar name { name := name, labels := nx.map Label.num, kind := nk }
        (interpVals lin xs nx left right) v) =
      (k, interpVar lin name nk (List.range xs.length) xs nx left right v) := by
  have hd1 := reduceVar_dims name { name := name, labels := nx.map Label.num, kind := nk } rfl
    (interpVals lin xs nx left right) v
  unfold fixKind
  simp only [hd1]
  by_cases hlt : v.dims.idxOf name < v.dims.length
  · rw [if_pos ((contains_iff_idx _ _).mpr hlt)]
    unfold reduceVar interpVar
    rw [if_pos hlt, if_pos hlt]
    simp only [interpResult, interpVals, replAxis_eq_set name _ v hnd, map_range_getD]
  · rw [if_neg (fun h => hlt ((contains_iff_idx _ _).mp h))]
    unfold reduceVar interpVar
    rw [if_neg hlt, if_neg hlt]

theorem var_unsorted [Inhabited α] (lin : α → α → Rat → α) (name : String) (nk : Kind) (σ : List Nat)
    (xs nx : List Rat) (left right : α) (tax : Axis) (htax : tax.name = name) (k : String) (v : DimArray α)
    (hnd : v.dims.Nodup) :
    fixKind name (k, reduceVar name { name := name, labels := nx.map Label.num, kind := nk }
        (interpVals lin (σ.map (fun p => xs.getD p 0)) nx left right) (reduceVar name tax (takeVals σ) v)) =
      (k, interpVar lin name nk σ xs nx left right v) := by
  have hd0 : (reduceVar name tax (takeVals σ) v).dims = v.dims := reduceVar_dims name tax htax _ v
  have hd1 := reduceVar_dims name { name := name, labels := nx.map Label.num, kind := nk } rfl
    (interpVals lin (σ.map (fun p => xs.getD p 0)) nx left right) (reduceVar name tax (takeVals σ) v)
  unfold fixKind
  simp only [hd1, hd0]
  by_cases hlt : v.dims.idxOf name < v.dims.length
  · rw [if_pos ((contains_iff_idx _ _).mpr hlt)]
    unfold interpVar
    rw [if_pos hlt, reduceVar_pos name _ _ _ (by rw [hd0]; exact hlt), hd0, reduceVar_pos name tax _ v hlt]
    rw [replAxis_replAxis name _ tax htax v.axes, replAxis_eq_set name _ v hnd]
    simp only [interpResult, interpVals, takeVals, C17P.takeAxisPos_shape, List.set_set, List.length_map, fibre_take]
  · rw [if_neg (fun h => hlt ((contains_iff_idx _ _).mp h))]
    have hnm : name ∉ v.dims := fun h => hlt (List.idxOf_lt_length_iff.2 h)
    rw [reduceVar_of_not_mem name tax _ v hnm, reduceVar_of_not_mem name _ _ v hnm]
    unfold interpVar
    rw [if_neg hlt]

/-! ### the whole Dataset -/

theorem isEmpty_false_of_ne {β : Type} {l : List β} (h : l ≠ []) : l.isEmpty = false := by
  cases l with
  | nil => exact absurd rfl h
  | cons _ _ => rfl

/-- the last step of `interpAxisDs` on a Dataset `o` whose axis `name` has the (increasing) nodes `ns` -/
theorem interp_tail [Inhabited α] (lin : α → α → Rat → α) (o : Ds α) (name : String) (oax : Axis) (ns nx : List Rat)
    (nk : Kind) (left right : α) (hown : OwnAxes o) (hd : o.dims.Nodup) (hk : o.keys.Nodup)
    (hfind : o.axes.find? (fun a => a.name == name) = some oax) (hns : oax.labels = ns.map Label.num)
    (hne : ns ≠ []) :
    interpSortedDs lin o name (nx.map Label.num) nk left right =
      .ok { axes := replAxis name { name := name, labels := nx.map Label.num, kind := nk } o.axes
            vars := o.vars.map (fun kv => fixKind name (kv.1,
              reduceVar name { name := name, labels := nx.map Label.num, kind := nk }
                (interpVals lin ns nx left right) kv.2))
            attrs := o.attrs } := by
  have hmem := find?_name_some hfind
  have hin : name ∈ o.dims := hmem.2 ▸ List.mem_map_of_mem hmem.1
  unfold interpSortedDs
  rw [hfind]
  simp only []
  rw [hns, labelsToRat_num, labelsToRat_num]
  simp only [isEmpty_false_of_ne hne, Bool.false_eq_true, if_false]
  rw [reduceAxisKeep_closed o name _ _ rfl hin hown hd hk]
  simp only [bind, Except.bind, pure, Except.pure, List.map_map]
  rfl

/-- **closed form of `Dataset.interp_axis`** -/
theorem interpAxisDs_closed [Inhabited α] (lin : α → α → Rat → α) (ds : Ds α) (name : String) (ax : Axis)
    (xs nx : List Rat) (nk : Kind) (left right : α)
    (hs : SharedAxes ds) (hown : OwnAxes ds) (hk : ds.keys.Nodup) (hvd : ∀ kv ∈ ds.vars, kv.2.dims.Nodup)
    (hfind : ds.axes.find? (fun a => a.name == name) = some ax) (hplain : ax.members = [])
    (hxs : ax.labels = xs.map Label.num) (hne : xs ≠ []) :
    interpAxisDs lin ds name (nx.map Label.num) nk left right = .ok
      { axes := replAxis name { name := name, labels := nx.map Label.num, kind := nk } ds.axes
        vars := ds.vars.map (fun kv => (kv.1, interpVar lin name nk (sortPos xs) xs nx left right kv.2))
        attrs := ds.attrs } := by
  have hmem := find?_name_some hfind
  have hin : name ∈ ds.dims := hmem.2 ▸ List.mem_map_of_mem hmem.1
  have hd : ds.dims.Nodup := hs.2.2
  unfold interpAxisDs
  rw [hfind]
  simp only []
  by_cases hinc : isIncreasingEq ax.labels = true
  · have hσ : sortPos xs = List.range xs.length := by
      unfold sortPos; rw [← hxs, if_pos hinc]
    rw [if_pos hinc]
    show interpSortedDs lin ds name (nx.map Label.num) nk left right = _
    rw [interp_tail lin ds name ax xs nx nk left right hown hd hk hfind hxs hne, hσ]
    congr 2
    apply List.map_congr_left
    intro kv hkv
    exact var_sorted lin name nk xs nx left right kv.1 kv.2 (hvd kv hkv)
  · have hσ : sortPos xs = argsortBy Label.le ax.labels := by
      unfold sortPos; rw [← hxs, if_neg hinc]
    rw [if_neg hinc]
    -- the sorted Dataset
    let tax := takeNewAxis name ax (sortPos xs)
    have hsort : sortAxisDs ds name = .ok
        { axes := replAxis name tax ds.axes
          vars := ds.vars.map (fun kv => (kv.1, reduceVar name tax (takeVals (sortPos xs)) kv.2))
          attrs := ds.attrs } := by
      unfold sortAxisDs takeAxisPosDs
      rw [hfind]
      simp only []
      have hsz : ¬ (ax.size == 0 && !(argsortBy Label.le ax.labels).isEmpty) = true := by
        have : ax.size ≠ 0 := by
          simp only [Axis.size, hplain, List.isEmpty_nil, if_true, hxs, List.length_map]
          intro h0
          exact hne (List.length_eq_zero_iff.mp h0)
        simp [this]
      rw [if_neg hsz, ← hσ]
      exact reduceAxisKeep_closed ds name _ (takeVals (sortPos xs)) rfl hin hown hd hk
    rw [hsort]
    show interpSortedDs lin _ name (nx.map Label.num) nk left right = _
    obtain ⟨hs', hown'⟩ := reduce_shared ds name tax (takeVals (sortPos xs)) rfl hs hown _ rfl
    have hk' : (Ds.keys ({ axes := replAxis name tax ds.axes
                           vars := ds.vars.map (fun kv => (kv.1, reduceVar name tax (takeVals (sortPos xs)) kv.2))
                           attrs := ds.attrs } : Ds α)).Nodup := by
      simp only [Ds.keys, List.map_map]
      exact hk
    have hfind' : (replAxis name tax ds.axes).find? (fun a => a.name == name) = some tax := by
      have := replAxis_find? name tax rfl ds.axes hd ax hmem.1
      rw [hmem.2] at this
      simpa using this
    have hlab : tax.labels = ((sortPos xs).map (fun p => xs.getD p 0)).map Label.num := by
      show (sortPos xs).map (fun p => ax.labels.getD p Label.none) = _
      rw [hxs]
      exact map_getD_num xs _ (sortPos_lt xs)
    have hne' : (sortPos xs).map (fun p => xs.getD p 0) ≠ [] := by
      intro he
      have : xs.length = 0 := by
        rw [← sortPos_length xs, ← List.length_map (f := fun p => xs.getD p 0), he]; rfl
      exact hne (List.length_eq_zero_iff.mp this)
    rw [interp_tail lin _ name tax _ nx nk left right hown' hs'.2.2 hk' hfind' hlab hne']
    congr 2
    · exact replAxis_replAxis name _ tax rfl ds.axes
    · rw [List.map_map]
      apply List.map_congr_left
      intro kv hkv
      exact var_unsorted lin name nk (sortPos xs) xs nx left right tax rfl kv.1 kv.2 (hvd kv hkv)

/-! ### the result is again a Dataset with shared axes -/

theorem interpVar_axes [Inhabited α] (lin : α → α → Rat → α) (name : String) (nk : Kind) (σ : List Nat)
    (xs nx : List Rat) (left right : α) (v : DimArray α) (hnd : v.dims.Nodup) (f : Nat → DimArray α → NDArr α) :
    (interpVar lin name nk σ xs nx left right v).axes =
      (reduceVar name { name := name, labels := nx.map Label.num, kind := nk } f v).axes := by
  unfold interpVar reduceVar
  split
  · simp only [interpResult, replAxis_eq_set name _ v hnd]
  · rfl

theorem interpVar_dims [Inhabited α] (lin : α → α → Rat → α) (name : String) (nk : Kind) (σ : List Nat)
    (xs nx : List Rat) (left right : α) (v : DimArray α) (hnd : v.dims.Nodup) :
    (interpVar lin name nk σ xs nx left right v).dims = v.dims := by
  show (interpVar lin name nk σ xs nx left right v).axes.map (·.name) = _
  rw [interpVar_axes lin name nk σ xs nx left right v hnd (fun _ w => w.vals)]
  exact reduceVar_dims name _ rfl _ v

theorem interp_shared [Inhabited α] (lin : α → α → Rat → α) (ds : Ds α) (name : String) (nk : Kind) (σ : List Nat)
    (xs nx : List Rat) (left right : α) (hs : SharedAxes ds) (hown : OwnAxes ds)
    (hvd : ∀ kv ∈ ds.vars, kv.2.dims.Nodup) :
    SharedAxes ({ axes := replAxis name { name := name, labels := nx.map Label.num, kind := nk } ds.axes
                  vars := ds.vars.map (fun kv => (kv.1, interpVar lin name nk σ xs nx left right kv.2))
                  attrs := ds.attrs } : Ds α) ∧
    OwnAxes ({ axes := replAxis name { name := name, labels := nx.map Label.num, kind := nk } ds.axes
               vars := ds.vars.map (fun kv => (kv.1, interpVar lin name nk σ xs nx left right kv.2))
               attrs := ds.attrs } : Ds α) := by
  have hown' : OwnAxes ({ axes := replAxis name { name := name, labels := nx.map Label.num, kind := nk } ds.axes
                          vars := ds.vars.map (fun kv => (kv.1, interpVar lin name nk σ xs nx left right kv.2))
                          attrs := ds.attrs } : Ds α) := by
    intro kv hkv ax hax
    simp only [List.mem_map] at hkv
    obtain ⟨kv0, hkv0, rfl⟩ := hkv
    simp only [interpVar_axes lin name nk σ xs nx left right kv0.2 (hvd kv0 hkv0) (fun _ w => w.vals)] at hax
    exact reduceVar_axes_mem name _ ds.axes _ kv0.2 (hown kv0 hkv0) ax hax
  refine ⟨⟨?_, ?_, ?_⟩, hown'⟩
  · intro kv hkv ax hax
    exact ⟨ax, hown' kv hkv ax hax, rfl, rfl⟩
  · intro e he
    simp only [replAxis, List.mem_map] at he
    obtain ⟨a, ha, rfl⟩ := he
    obtain ⟨kv, hkv, hmem⟩ := hs.2.1 a ha
    refine ⟨(kv.1, interpVar lin name nk σ xs nx left right kv.2), List.mem_map_of_mem hkv, ?_⟩
    simp only [interpVar_dims lin name nk σ xs nx left right kv.2 (hvd kv hkv)]
    split
    · rename_i h
      rw [(by simpa using h : a.name = name)] at hmem
      exact hmem
    · exact hmem
  · show ((replAxis name _ ds.axes).map (·.name)).Nodup
    rw [replAxis_names name _ rfl]
    exact hs.2.2

end DSV
end DimModel

/-
C11 - helper lemmas for the end-to-end theorems about `Lib.flatten` / `Lib.unflattenAt` /
`Lib.unflattenAll` / `Lib.reshape` (statements a reader audits are at the end of Props/C11.lean).
-/
import DimModel.Props.C10
namespace DimModel
open Lib

/-- the axis of `a` that is named `d` (meaningful for `d ∈ a.dims`, see `axisOf_name`, `axisOf_mem`) -/
def DimArray.axisOf {α} (a : DimArray α) (d : String) : Axis := a.axes.getD (a.dims.idxOf d) default

namespace C11
variable {α : Type}

/-! ### list helpers -/

theorem eraseDups_of_nodup {β} [BEq β] [LawfulBEq β] : ∀ (l : List β), l.Nodup → l.eraseDups = l
  | [], _ => rfl
  | x :: l, h => by
    rw [List.eraseDups_cons]
    have h' := List.nodup_cons.mp h
    have hf : l.filter (fun b => !b == x) = l := by
      rw [List.filter_eq_self]; intro b hb
      simp only [Bool.not_eq_true', beq_eq_false_iff_ne, ne_eq]
      intro e; subst e; exact h'.1 hb
    rw [hf, eraseDups_of_nodup l h'.2]

theorem map_idxOf_self (D : List String) (hD : D.Nodup) :
    D.map (fun d => D.idxOf d) = List.range D.length := by
  apply List.ext_getElem
  · simp only [List.length_map, List.length_range]
  · intro i h1 h2
    simp only [List.getElem_map, List.getElem_range]
    exact hD.idxOf_getElem i _

theorem isPerm_of_perm_range {p : List Nat} {n : Nat} (h : p.Perm (List.range n)) : IsPerm p n := by
  refine ⟨?_, ?_, ?_⟩
  · rw [h.length_eq, List.length_range]
  · exact h.nodup_iff.mpr List.nodup_range
  · intro k hk; exact List.mem_range.mp (h.mem_iff.mp hk)

/-- the dimensions that are not flattened, in the array's order -/
def rest (D dims : List String) : List String := D.filter (fun d => !dims.contains d)

theorem mem_rest {D dims : List String} {d : String} : d ∈ rest D dims ↔ d ∈ D ∧ d ∉ dims := by
  simp only [rest, List.mem_filter, Bool.not_eq_true', List.contains_eq_mem, decide_eq_false_iff_not]

/-- the order of dimensions after the transpose `flatten` performs -/
def newdims (D dims : List String) (ins : Nat) : List String :=
  (rest D dims).take ins ++ dims ++ (rest D dims).drop ins

theorem newdims_perm (D dims : List String) (hD : D.Nodup) (hnd : dims.Nodup)
    (hsub : ∀ d ∈ dims, d ∈ D) (ins : Nat) : (newdims D dims ins).Perm D := by
  have h1 : (newdims D dims ins).Perm (dims ++ rest D dims) := by
    have h : ((rest D dims).take ins ++ dims).Perm (dims ++ (rest D dims).take ins) :=
      List.perm_append_comm
    have h' := h.append_right ((rest D dims).drop ins)
    rwa [List.append_assoc dims, List.take_append_drop] at h'
  have h2 : (D.filter (fun d => dims.contains d)).Perm dims := by
    rw [List.perm_ext_iff_of_nodup (List.Nodup.sublist List.filter_sublist hD) hnd]
    intro x
    simp only [List.mem_filter, List.contains_eq_mem, decide_eq_true_eq]
    exact ⟨fun h => h.2, fun h => ⟨hsub x h, h⟩⟩
  have h3 := List.filter_append_perm (fun d => dims.contains d) D
  exact h1.trans ((h2.symm.append_right _).trans h3)

theorem filter_in_of_sub_rest {D dims l : List String} (hl : ∀ d ∈ l, d ∈ rest D dims) :
    l.filter (fun d => dims.contains d) = [] := by
  rw [List.filter_eq_nil_iff]
  intro d hd
  have := (mem_rest.mp (hl d hd)).2
  simpa only [List.contains_eq_mem, decide_eq_true_eq] using this

theorem filter_out_of_sub_rest {D dims l : List String} (hl : ∀ d ∈ l, d ∈ rest D dims) :
    l.filter (fun d => !dims.contains d) = l := by
  rw [List.filter_eq_self]
  intro d hd
  have := (mem_rest.mp (hl d hd)).2
  simpa only [Bool.not_eq_true', List.contains_eq_mem, decide_eq_false_iff_not] using this

theorem newdims_filter_in (D dims : List String) (ins : Nat) :
    (newdims D dims ins).filter (fun d => dims.contains d) = dims := by
  unfold newdims
  rw [List.filter_append, List.filter_append,
    filter_in_of_sub_rest (fun d hd => List.mem_of_mem_take hd),
    filter_in_of_sub_rest (fun d hd => List.mem_of_mem_drop hd), List.nil_append, List.append_nil,
    List.filter_eq_self]
  intro d hd
  simpa only [List.contains_eq_mem, decide_eq_true_eq] using hd

theorem newdims_filter_out (D dims : List String) (ins : Nat) :
    (newdims D dims ins).filter (fun d => !dims.contains d) = rest D dims := by
  unfold newdims
  have hd : dims.filter (fun d => !dims.contains d) = [] := by
    rw [List.filter_eq_nil_iff]
    intro d hd
    simpa only [Bool.not_eq_true', List.contains_eq_mem, decide_eq_false_iff_not, Decidable.not_not] using hd
  rw [List.filter_append, List.filter_append,
    filter_out_of_sub_rest (fun d hd => List.mem_of_mem_take hd),
    filter_out_of_sub_rest (fun d hd => List.mem_of_mem_drop hd), hd, List.append_nil,
    List.take_append_drop]

/-! ### the axis named `d` -/

theorem axisOf_getElem (a : DimArray α) (d : String) (hd : d ∈ a.dims) :
    ∃ h : a.dims.idxOf d < a.axes.length, a.axisOf d = a.axes[a.dims.idxOf d] := by
  have hi : a.dims.idxOf d < a.dims.length := List.idxOf_lt_length_of_mem hd
  have hi' : a.dims.idxOf d < a.axes.length := by simpa only [DimArray.dims, List.length_map] using hi
  refine ⟨hi', ?_⟩
  unfold DimArray.axisOf
  rw [List.getD_eq_getElem?_getD, List.getElem?_eq_getElem hi', Option.getD_some]

theorem axisOf_name (a : DimArray α) (d : String) (hd : d ∈ a.dims) : (a.axisOf d).name = d := by
  obtain ⟨hi', e⟩ := axisOf_getElem a d hd
  have hi : a.dims.idxOf d < a.dims.length := List.idxOf_lt_length_of_mem hd
  have := List.getElem_idxOf hi
  simp only [DimArray.dims, List.getElem_map] at this
  rw [e]; exact this

theorem axisOf_mem (a : DimArray α) (d : String) (hd : d ∈ a.dims) : a.axisOf d ∈ a.axes := by
  obtain ⟨hi', e⟩ := axisOf_getElem a d hd
  rw [e]; exact List.getElem_mem hi'

theorem map_axisOf_dims (a : DimArray α) (hn : a.dims.Nodup) : a.dims.map a.axisOf = a.axes := by
  apply List.ext_getElem
  · simp only [DimArray.dims, List.length_map]
  · intro i h1 h2
    simp only [List.getElem_map, DimArray.axisOf]
    rw [hn.idxOf_getElem i _, List.getD_eq_getElem?_getD, List.getElem?_eq_getElem h2, Option.getD_some]

theorem filter_map_axisOf (a : DimArray α) (l : List String) (hl : ∀ d ∈ l, d ∈ a.dims)
    (q : String → Bool) :
    (l.map a.axisOf).filter (fun ax => q ax.name) = (l.filter q).map a.axisOf := by
  rw [List.filter_map]
  congr 1
  apply List.filter_congr
  intro d hd
  simp only [Function.comp_apply, axisOf_name a d (hl d hd)]

theorem shape_getD (a : DimArray α) (hshape : a.vals.shape = a.axes.map (·.size)) (d : String)
    (hd : d ∈ a.dims) : a.vals.shape.getD (a.dims.idxOf d) 0 = (a.axisOf d).size := by
  obtain ⟨hi', e⟩ := axisOf_getElem a d hd
  rw [hshape, List.getD_eq_getElem?_getD, List.getElem?_map, List.getElem?_eq_getElem hi', e]
  rfl

/-! ### `flatten` : normal form -/

/-- the permutation `flatten` transposes by -/
def perm (a : DimArray α) (dims : List String) (ins : Nat) : List Nat :=
  (newdims a.dims dims ins).map (fun d => a.dims.idxOf d)

/-- the success branch of `Lib.flatten` -/
def flattenCore (a : DimArray α) (dims : List String) (ins : Nat) : DimArray α :=
  let b := transposeBy a (perm a dims ins)
  let members := b.axes.filter (fun ax => dims.contains ax.name)
  let others := b.axes.filter (fun ax => !dims.contains ax.name)
  let newaxes := others.take ins ++ [multiAxis members] ++ others.drop ins
  { axes := newaxes, vals := b.vals.reshape (newaxes.map (·.size)), vkind := a.vkind, attrs := a.attrs }

/-- the insert position `flatten` uses -/
def insPos (a : DimArray α) (dims : List String) (insert : Option Nat) : Nat :=
  min (insert.getD (a.dims.idxOf (dims.headD ""))) (rest a.dims dims).length

theorem flatten_unfold (a : DimArray α) (dims : List String) (insert : Option Nat) :
    flatten a dims insert =
      if dims.isEmpty then .error .index else
      if dims.any (fun d => !a.dims.contains d) then .error .value else
      if (perm a dims (insPos a dims insert)).eraseDups.length != (perm a dims (insPos a dims insert)).length
          || (perm a dims (insPos a dims insert)).length != a.ndim then .error .value else
      .ok (flattenCore a dims (insPos a dims insert)) := rfl

theorem perm_isPerm (a : DimArray α) (dims : List String) (ins : Nat) (hD : a.dims.Nodup)
    (hnd : dims.Nodup) (hsub : ∀ d ∈ dims, d ∈ a.dims) : IsPerm (perm a dims ins) a.axes.length := by
  have h := (newdims_perm a.dims dims hD hnd hsub ins).map (fun d => a.dims.idxOf d)
  rw [map_idxOf_self a.dims hD] at h
  have hl : a.dims.length = a.axes.length := by simp only [DimArray.dims, List.length_map]
  rw [hl] at h
  exact isPerm_of_perm_range h

theorem flatten_eq_core (a : DimArray α) (dims : List String) (insert : Option Nat)
    (hD : a.dims.Nodup) (hne : dims ≠ []) (hnd : dims.Nodup) (hsub : ∀ d ∈ dims, d ∈ a.dims) :
    flatten a dims insert = .ok (flattenCore a dims (insPos a dims insert)) := by
  rw [flatten_unfold]
  have h1 : dims.isEmpty = false := by
    cases dims with
    | nil => exact absurd rfl hne
    | cons _ _ => rfl
  have h2 : dims.any (fun d => !a.dims.contains d) = false := by
    rw [List.any_eq_false]
    intro d hd
    simpa only [Bool.not_eq_true', List.contains_eq_mem, decide_eq_false_iff_not, Decidable.not_not]
      using hsub d hd
  obtain ⟨hl, hn, _⟩ := perm_isPerm a dims (insPos a dims insert) hD hnd hsub
  rw [h1, h2, eraseDups_of_nodup _ hn, hl]
  simp only [DimArray.ndim, bne_self_eq_false, Bool.or_self, Bool.false_eq_true, if_false]

theorem transposed_axes (a : DimArray α) (dims : List String) (ins : Nat) :
    (transposeBy a (perm a dims ins)).axes = (newdims a.dims dims ins).map a.axisOf := by
  simp only [transposeBy, perm, List.map_map]
  rfl

theorem mem_newdims (a : DimArray α) (dims : List String) (ins : Nat)
    (hsub : ∀ d ∈ dims, d ∈ a.dims) : ∀ d ∈ newdims a.dims dims ins, d ∈ a.dims := by
  intro d hd
  simp only [newdims, List.mem_append] at hd
  rcases hd with (hd | hd) | hd
  · exact (mem_rest.mp (List.mem_of_mem_take hd)).1
  · exact hsub d hd
  · exact (mem_rest.mp (List.mem_of_mem_drop hd)).1

theorem transposed_shape (a : DimArray α) (dims : List String) (ins : Nat)
    (hshape : a.vals.shape = a.axes.map (·.size)) (hsub : ∀ d ∈ dims, d ∈ a.dims) :
    (transposeBy a (perm a dims ins)).vals.shape
      = (newdims a.dims dims ins).map (fun d => (a.axisOf d).size) := by
  simp only [transposeBy, NDArr.transpose, perm, List.map_map]
  apply List.map_congr_left
  intro d hd
  exact shape_getD a hshape d (mem_newdims a dims ins hsub d hd)

/-- the axes of the flattened array -/
theorem flattenCore_axes (a : DimArray α) (dims : List String) (ins : Nat)
    (hsub : ∀ d ∈ dims, d ∈ a.dims) :
    (flattenCore a dims ins).axes
      = ((rest a.dims dims).take ins).map a.axisOf ++ [multiAxis (dims.map a.axisOf)]
          ++ ((rest a.dims dims).drop ins).map a.axisOf := by
  have hm := mem_newdims a dims ins hsub
  simp only [flattenCore, transposed_axes]
  rw [filter_map_axisOf a _ hm (fun d => dims.contains d),
    filter_map_axisOf a _ hm (fun d => !dims.contains d),
    newdims_filter_in, newdims_filter_out, List.map_take, List.map_drop]

theorem flattenCore_vals (a : DimArray α) (dims : List String) (ins : Nat) :
    (flattenCore a dims ins).vals
      = (transposeBy a (perm a dims ins)).vals.reshape ((flattenCore a dims ins).axes.map (·.size)) := rfl

end C11
end DimModel

namespace DimModel
namespace C11
variable {α : Type}

/-! ### index helpers -/

theorem unravel_length (s : List Nat) (k : Nat) : (unravel s k).length = s.length := by
  induction s generalizing k with
  | nil => rfl
  | cons n s ih => simp only [unravel, List.length_cons, ih]

theorem inRange_map (l : List String) (sz c : String → Nat) (h : ∀ d ∈ l, c d < sz d) :
    InRange (l.map sz) (l.map c) := by
  induction l with
  | nil => simp only [List.map_nil, InRange]
  | cons d l ih =>
    simp only [List.map_cons, InRange]
    exact ⟨h d List.mem_cons_self, ih (fun e he => h e (List.mem_cons_of_mem _ he))⟩

theorem inRange_length {s i : List Nat} (h : InRange s i) : i.length = s.length := by
  induction s generalizing i with
  | nil =>
    cases i with
    | nil => rfl
    | cons _ _ => simp [InRange] at h
  | cons n s ih =>
    cases i with
    | nil => simp [InRange] at h
    | cons k i => simp only [InRange] at h; simp only [List.length_cons, ih h.2]

/-- a list of the right length is the image of a duplicate-free list of names under some assignment -/
theorem exists_assignment (l : List String) (hl : l.Nodup) (i : List Nat) (hlen : i.length = l.length) :
    l.map (fun d => i.getD (l.idxOf d) 0) = i := by
  apply List.ext_getElem
  · simp only [List.length_map, hlen]
  · intro k h1 h2
    simp only [List.getElem_map]
    rw [hl.idxOf_getElem k _, List.getD_eq_getElem?_getD, List.getElem?_eq_getElem h2, Option.getD_some]

theorem map_name_axisOf (a : DimArray α) (l : List String) (hl : ∀ d ∈ l, d ∈ a.dims) :
    (l.map a.axisOf).map (·.name) = l := by
  rw [List.map_map]
  conv => rhs; rw [← List.map_id l]
  apply List.map_congr_left
  intro d hd
  simp only [Function.comp_apply, axisOf_name a d (hl d hd), id]

end C11
end DimModel

namespace DimModel
namespace C11
variable {α : Type}

theorem zip_inRange {β} (ds : List β) (sz : β → Nat) (u : List Nat)
    (h : InRange (ds.map sz) u) : ∀ dk ∈ ds.zip u, dk.2 < sz dk.1 := by
  induction ds generalizing u with
  | nil => intro dk hdk; simp only [List.zip_nil_left, List.not_mem_nil] at hdk
  | cons d ds ih =>
    cases u with
    | nil => simp [InRange] at h
    | cons k u =>
      simp only [List.map_cons, InRange] at h
      intro dk hdk
      simp only [List.zip_cons_cons, List.mem_cons] at hdk
      rcases hdk with rfl | hdk
      · exact h.1
      · exact ih u h.2 dk hdk

theorem plain_size (ax : Axis) (h : ax.members = []) : ax.size = ax.labels.length := by
  simp only [Axis.size, h, List.isEmpty_nil, if_true]

end C11
end DimModel

namespace DimModel
open Lib
namespace C11
variable {α : Type}

theorem toAxis_toAxis0 (ax : Axis) (h : ax.members = []) : ax.toAxis0.toAxis = ax := by
  cases ax
  simp only at h
  subst h
  rfl

theorem getD_mid {β} (A1 A2 : List β) (G z : β) : (A1 ++ [G] ++ A2).getD A1.length z = G := by
  rw [List.getD_eq_getElem?_getD, List.append_assoc,
    List.getElem?_append_right (Nat.le_refl _), Nat.sub_self]
  rfl

theorem take_mid {β} (A1 A2 : List β) (G : β) : (A1 ++ [G] ++ A2).take A1.length = A1 := by
  rw [List.append_assoc]; exact List.take_left' rfl

theorem drop_mid {β} (A1 A2 : List β) (G : β) : (A1 ++ [G] ++ A2).drop (A1.length + 1) = A2 :=
  List.drop_left' (by simp only [List.length_append, List.length_singleton])

/-- `unflattenAt` on an array whose axis at position `A1.length` is grouped with members `M` -/
theorem unflattenAt_mid (r : DimArray α) (A1 A2 : List Axis) (G : Axis) (M : List Axis)
    (haxes : r.axes = A1 ++ [G] ++ A2) (hshape : r.vals.shape = r.axes.map (·.size))
    (hM : G.members.map Axis0.toAxis = M) :
    unflattenAt r A1.length =
      { axes := A1 ++ M ++ A2
        vals := r.vals.reshape (A1.map (·.size) ++ M.map (·.size) ++ A2.map (·.size))
        vkind := r.vkind, attrs := r.attrs } := by
  unfold unflattenAt
  simp only [hshape, haxes, getD_mid, hM, List.map_append, List.map_singleton]
  have e1 := take_mid (A1.map (·.size)) (A2.map (·.size)) G.size
  have e2 := drop_mid (A1.map (·.size)) (A2.map (·.size)) G.size
  simp only [List.length_map] at e1 e2
  rw [take_mid, drop_mid, e1, e2]

end C11
end DimModel

namespace DimModel
open Lib
namespace C11
variable {α : Type}

theorem find_range_none (q : Nat → Bool) (n : Nat) (h : ∀ j < n, q j = false) :
    (List.range n).find? q = none := by
  rw [List.find?_eq_none]
  intro x hx
  rw [h x (List.mem_range.mp hx)]
  exact Bool.false_ne_true

theorem find_range_some (q : Nat → Bool) (n i : Nat) (hi : i < n) (hq : q i = true)
    (hb : ∀ j < i, q j = false) : (List.range n).find? q = some i := by
  induction n with
  | zero => omega
  | succ n ih =>
    rw [List.range_succ, List.find?_append]
    by_cases hin : i < n
    · rw [ih hin]; rfl
    · have e : i = n := by omega
      subst e
      rw [find_range_none q i hb]
      simp only [List.find?_cons, hq, Option.none_or]

/-- `unflattenAll` on an array with exactly one grouped axis, at position `i` (and no grouped axis
among the restored members) is `unflattenAt` at that position -/
theorem unflattenAll_single (r : DimArray α) (i : Nat) (hi : i < r.axes.length)
    (hmulti : (r.axes.getD i default).isMulti = true)
    (hbefore : ∀ j < i, (r.axes.getD j default).isMulti = false)
    (hafter : ∀ j, ((unflattenAt r i).axes.getD j default).isMulti = false) :
    unflattenAll r = unflattenAt r i := by
  unfold unflattenAll
  simp only [DimArray.ndim]
  obtain ⟨k, hk⟩ : ∃ k, r.axes.length = k + 1 := ⟨r.axes.length - 1, by omega⟩
  rw [hk]
  unfold unflattenAll.go
  simp only [DimArray.ndim]
  rw [find_range_some _ _ i hi hmulti hbefore]
  cases k with
  | zero => rfl
  | succ k =>
    unfold unflattenAll.go
    simp only [DimArray.ndim]
    rw [find_range_none _ _ (fun j _ => hafter j)]

end C11
end DimModel

namespace DimModel
open Lib
namespace C11

theorem inRange_append_inv (s1 s2 i : List Nat) (h : InRange (s1 ++ s2) i) :
    ∃ i1 i2, i = i1 ++ i2 ∧ InRange s1 i1 ∧ InRange s2 i2 := by
  induction s1 generalizing i with
  | nil => exact ⟨[], i, rfl, trivial, by simpa using h⟩
  | cons n s ih =>
    cases i with
    | nil => simp [InRange] at h
    | cons k i =>
      simp only [List.cons_append, InRange] at h
      obtain ⟨i1, i2, e, h1, h2⟩ := ih i h.2
      exact ⟨k :: i1, i2, by rw [e]; rfl, ⟨h.1, h1⟩, h2⟩

theorem inRange_map_inv (l : List String) (sz c : String → Nat) (h : InRange (l.map sz) (l.map c)) :
    ∀ d ∈ l, c d < sz d := by
  induction l with
  | nil => intro d hd; exact absurd hd List.not_mem_nil
  | cons x l ih =>
    simp only [List.map_cons, InRange] at h
    intro d hd
    rcases List.mem_cons.mp hd with rfl | hd
    · exact h.1
    · exact ih h.2 d hd

/-- every in-range index over duplicate-free dimension names is the image of an in-range assignment -/
theorem index_of_assignment (l : List String) (hl : l.Nodup) (sz : String → Nat) (i : List Nat)
    (hi : InRange (l.map sz) i) : ∃ c : String → Nat, (∀ d ∈ l, c d < sz d) ∧ i = l.map c := by
  have hlen : i.length = l.length := by rw [inRange_length hi, List.length_map]
  have he := exists_assignment l hl i hlen
  refine ⟨fun d => i.getD (l.idxOf d) 0, ?_, he.symm⟩
  apply inRange_map_inv
  rw [he]; exact hi

end C11
end DimModel

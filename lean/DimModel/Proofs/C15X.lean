/-
C15 - helper lemmas for the extended operation set of Lib/HeapX.lean: every operation only allocates (frame), what
the result shares with the operand, and what sharing / not sharing a buffer means for a write through the result.
-/
import DimModel.Lib.HeapX
import DimModel.Proofs.C15
namespace DimModel
namespace Heap

/-! ### growth (unconditional) -/

theorem swapaxes_grows {h h' : H} {r r' : Ref} {a b : Nat} (hop : swapaxes h r a b = some (h', r')) :
    Grows h h' ∧ r' < h'.length := by
  unfold swapaxes at hop
  split at hop
  · split at hop
    · cases hop
    · exact transpose_grows hop
  · cases hop

theorem rollaxis_grows {h h' : H} {r r' : Ref} {d : Nat} (hop : rollaxis h r d = some (h', r')) :
    Grows h h' ∧ r' < h'.length := by
  unfold rollaxis at hop
  split at hop
  · split at hop
    · cases hop
    · exact transpose_grows hop
  · cases hop

theorem tT_grows {h h' : H} {r r' : Ref} (hop : tT h r = some (h', r')) :
    Grows h h' ∧ r' < h'.length := by
  unfold tT at hop
  split at hop
  · next hx =>
    split at hop
    · simp only [Option.some.injEq, Prod.mk.injEq] at hop
      obtain ⟨rfl, rfl⟩ := hop
      exact ⟨Grows.refl _, lt_of_get hx⟩
    · exact transpose_grows hop
    · exact transpose_grows hop
    · cases hop
  · cases hop

theorem newaxis_grows {h h' : H} {r r' : Ref} {name : String} {pos : Nat}
    (hop : newaxis h r name pos = some (h', r')) : Grows h h' ∧ r' < h'.length := by
  unfold newaxis at hop
  split at hop
  · split at hop
    · cases hop
    · exact alloc_res (((((mapAlloc_grows _ deepAxis_grows _ _).trans (Grows.alloc _ _)).trans (Grows.alloc _ _)).trans
        (Grows.alloc _ _)).trans (shallowDict_grows _ _)) hop
  · cases hop

theorem sliceRange_grows {h h' : H} {r r' : Ref} {d a b c : Nat} (hop : sliceRange h r d a b c = some (h', r')) :
    Grows h h' ∧ r' < h'.length := by
  unfold sliceRange at hop
  split at hop
  · split at hop
    · cases hop
    · exact takeList_grows hop
  · cases hop

theorem reduceSum_grows {h h' : H} {r r' : Ref} {d : Nat} (hop : reduceSum h r d = some (h', r')) :
    Grows h h' ∧ r' < h'.length := by
  unfold reduceSum at hop
  split at hop
  · split at hop
    · cases hop
    · exact alloc_res ((Grows.alloc _ _).trans (shallowDict_grows _ _)) hop
  · cases hop

theorem addArr_grows {h h' : H} {r1 r2 r' : Ref} (hop : addArr h r1 r2 = some (h', r')) :
    Grows h h' ∧ r' < h'.length := by
  unfold addArr at hop
  split at hop
  · simp only [] at hop
    split at hop
    · cases hop
    · exact alloc_res (((Grows.alloc _ _).trans (mapAlloc_grows _ deepAxis_grows _ _)).trans (Grows.alloc _ _)) hop
  · cases hop

theorem reorderAxis_grows {h h' : H} {r r' : Ref} {d : Nat} {ps : List Nat}
    (hop : reorderAxis h r d ps = some (h', r')) : Grows h h' ∧ r' < h'.length := by
  unfold reorderAxis at hop
  split at hop
  · split at hop
    · cases hop
    · refine alloc_res (((freshBuf_grows _ _ _).trans (foldl_grows _ ?_ _ _ _)).trans (shallowDict_grows _ _)) hop
      intro acc i
      simp only []
      split
      · exact selectAxis_grows _ _ _
      · exact deepAxis_grows _ _
  · cases hop

theorem reindexAxis_grows {h h' : H} {r r' : Ref} {d : Nat} {labels : List Int}
    (hop : reindexAxis h r d labels = some (h', r')) : Grows h h' ∧ r' < h'.length := by
  unfold reindexAxis at hop
  split at hop
  · split at hop
    · cases hop
    · simp only [] at hop
      split at hop
      · cases hop
      · exact reorderAxis_grows hop
  · cases hop

theorem dsVar_grows {h h' : H} {r r' : Ref} (hop : dsVar h r = some (h', r')) :
    Grows h h' ∧ r' < h'.length := by
  unfold dsVar at hop
  split at hop
  · exact alloc_res (mapAlloc_grows _ deepAxis_grows _ _) hop
  · cases hop

theorem xapply_grows {h : H} {env : List Ref} {x : XOp} {h' : H} {r : Ref}
    (hop : xapply h env x = some (h', r)) : Grows h h' ∧ r < h'.length := by
  cases x with
  | base op => exact apply_grows hop
  | swapaxes k a b =>
    simp only [xapply, Option.bind_eq_some_iff] at hop
    obtain ⟨q, _, hq⟩ := hop
    exact swapaxes_grows hq
  | rollaxis k d =>
    simp only [xapply, Option.bind_eq_some_iff] at hop
    obtain ⟨q, _, hq⟩ := hop
    exact rollaxis_grows hq
  | tT k =>
    simp only [xapply, Option.bind_eq_some_iff] at hop
    obtain ⟨q, _, hq⟩ := hop
    exact tT_grows hq
  | newaxis k name pos =>
    simp only [xapply, Option.bind_eq_some_iff] at hop
    obtain ⟨q, _, hq⟩ := hop
    exact newaxis_grows hq
  | sliceRange k d a b c =>
    simp only [xapply, Option.bind_eq_some_iff] at hop
    obtain ⟨q, _, hq⟩ := hop
    exact sliceRange_grows hq
  | reduceSum k d =>
    simp only [xapply, Option.bind_eq_some_iff] at hop
    obtain ⟨q, _, hq⟩ := hop
    exact reduceSum_grows hq
  | addArr k j =>
    simp only [xapply, Option.bind_eq_some_iff] at hop
    obtain ⟨q, _, q2, _, hq⟩ := hop
    exact addArr_grows hq
  | reindexAxis k d labels =>
    simp only [xapply, Option.bind_eq_some_iff] at hop
    obtain ⟨q, _, hq⟩ := hop
    exact reindexAxis_grows hq
  | dsVar k =>
    simp only [xapply, Option.bind_eq_some_iff] at hop
    obtain ⟨q, _, hq⟩ := hop
    exact dsVar_grows hq

theorem xstep_base (s : St) (op : Op) : xstep s (.base op) = step s op := rfl

theorem xstep_nonmut {s : St} {x : XOp} (hnm : xisMut x = false) :
    xstep s x = match xapply s.h s.env x with
      | some (h', r) => { h := h', env := s.env ++ [r] }
      | none => s := by
  cases x with
  | base op => exact step_nonmut (by simpa [xisMut] using hnm)
  | _ => rfl

theorem xstep_nonmut_grows {s : St} {x : XOp} (hnm : xisMut x = false) :
    Grows s.h (xstep s x).h ∧ ∃ e, (xstep s x).env = s.env ++ e := by
  rw [xstep_nonmut hnm]
  cases hx : xapply s.h s.env x with
  | none => exact ⟨Grows.refl _, [], by simp⟩
  | some p => exact ⟨(xapply_grows hx).1, [p.2], rfl⟩

theorem xrun_cons (s : St) (x : XOp) (xs : List XOp) : xrun s (x :: xs) = xrun (xstep s x) xs := rfl

theorem xrun_nonmut_grows (xs : List XOp) : ∀ {s : St}, (∀ x ∈ xs, xisMut x = false) →
    Grows s.h (xrun s xs).h := by
  induction xs with
  | nil => intro s _; exact Grows.refl _
  | cons x xs ih =>
    intro s hnm
    rw [xrun_cons]
    exact (xstep_nonmut_grows (hnm x (List.mem_cons_self ..))).1.trans
      (ih (fun o ho => hnm o (List.mem_cons_of_mem _ ho)))

/-! ### what the result is made of -/

/-- `r'` is an array whose value buffer is the buffer of `r`, every cell it shows being a cell `r` shows -/
def ViewOf (h' : H) (r' : Ref) (h : H) (r : Ref) : Prop :=
  ∃ v w sh ax t w' sh' ax' t', h[r]? = some (.arr v w sh ax t) ∧ h'[r']? = some (.arr v w' sh' ax' t') ∧
    (∀ a ∈ ax', a ∈ ax ∨ h.length ≤ a) ∧ h.length ≤ t'

/-- `r'` is an array whose value buffer did not exist before -/
def FreshValues (h' : H) (r' : Ref) (h : H) : Prop :=
  ∃ v w sh ax t, h'[r']? = some (.arr v w sh ax t) ∧ h.length ≤ v ∧ h.length ≤ t

theorem alloc_get {h3 h' : H} {o : Obj} {r' : Ref} (hop : some (alloc h3 o) = some (h', r')) :
    h'[r']? = some o ∧ r' = h3.length := by
  simp only [Option.some.injEq] at hop
  have h1 : h' = (alloc h3 o).1 := by rw [hop]
  have h2 : r' = (alloc h3 o).2 := by rw [hop]
  subst h1 h2
  exact ⟨get_append_last _ _, rfl⟩

theorem shallowDict_ref (h : H) (t : Ref) : (shallowDict h t).2 = h.length := by
  unfold shallowDict
  split <;> rfl

section Spec
variable {h h' : H} {r r' : Ref} {v : Ref} {w sh : List Nat} {ax : List Ref} {t : Ref}

/-- transpose: the same buffer, the same Axis objects (permuted), a new metadata dict -/
theorem transpose_result {perm : List Nat} (hx : h[r]? = some (.arr v w sh ax t))
    (hop : transpose h r perm = some (h', r')) :
    ∃ w' sh' t', h'[r']? = some (.arr v w' sh' (perm.map fun k => ax.getD k 0) t') ∧ h.length ≤ t' ∧ h.length ≤ r' := by
  unfold transpose at hop
  rw [hx] at hop
  simp only [] at hop
  split at hop
  · cases hop
  · obtain ⟨e1, e2⟩ := alloc_get hop
    refine ⟨_, _, _, e1, ?_, ?_⟩
    · rw [shallowDict_ref]; exact Nat.le_refl _
    · rw [e2]; exact (shallowDict_grows h t).le

theorem reduceSum_result {d : Nat} (hx : h[r]? = some (.arr v w sh ax t))
    (hop : reduceSum h r d = some (h', r')) :
    ∃ w' t', h'[r']? = some (.arr h.length w' (sh.eraseIdx d) (ax.eraseIdx d) t') ∧ h.length ≤ t' := by
  unfold reduceSum at hop
  rw [hx] at hop
  simp only [] at hop
  split at hop
  · cases hop
  · obtain ⟨e1, _⟩ := alloc_get hop
    refine ⟨_, _, e1, ?_⟩
    rw [shallowDict_ref]
    exact (Grows.alloc h _).le

theorem newaxis_result {name : String} {pos : Nat} (hx : h[r]? = some (.arr v w sh ax t))
    (hop : newaxis h r name pos = some (h', r')) :
    ∃ ax' t', h'[r']? = some (.arr v w (sh.take pos ++ [1] ++ sh.drop pos) ax' t') ∧ h.length ≤ t' := by
  unfold newaxis at hop
  rw [hx] at hop
  simp only [] at hop
  split at hop
  · cases hop
  · obtain ⟨e1, _⟩ := alloc_get hop
    refine ⟨_, _, e1, ?_⟩
    rw [shallowDict_ref]
    exact ((((mapAlloc_grows _ deepAxis_grows h ax).trans (Grows.alloc _ _)).trans (Grows.alloc _ _)).trans
      (Grows.alloc _ _)).le

end Spec

/-! ### consequences for writes through the result -/

theorem readBuf_writeBuf_other {h : H} {b b' : Ref} (hne : b ≠ b') (p : Nat) (x : Int) (view : List Nat) :
    readBuf (writeBuf h b' p x) b view = readBuf h b view := by
  unfold writeBuf
  split
  · split
    · unfold readBuf
      rw [List.getElem?_set_ne (Ne.symm hne)]
    · rfl
  · rfl

/-- writing a cell of a buffer shows in every view of that buffer that contains the cell -/
theorem readBuf_writeBuf_same {h : H} {b : Ref} {cells : List Int} (hb : h[b]? = some (.buf cells)) {c : Nat}
    (hc : c < cells.length) (x : Int) (view : List Nat) (p : Nat) (hp : view[p]? = some c) :
    (readBuf (writeBuf h b c x) b view)[p]? = some x := by
  unfold writeBuf
  rw [hb]
  simp only [hc, if_true]
  unfold readBuf
  have hlt : b < h.length := lt_of_get hb
  rw [List.getElem?_set_self hlt]
  simp only [List.getElem?_map, hp, Option.map_some]
  rw [List.getD_eq_getElem?_getD, List.getElem?_set_self hc]
  rfl

theorem writeBuf_get_ne {h : H} {b i : Nat} (hne : i ≠ b) (p : Nat) (x : Int) : (writeBuf h b p x)[i]? = h[i]? := by
  unfold writeBuf
  split
  · split
    · exact List.getElem?_set_ne (Ne.symm hne)
    · rfl
  · rfl

/-- a value written through an array goes to that array's buffer and nowhere else -/
theorem setVal_get_ne {h : H} {r' : Ref} {v : Ref} {w sh : List Nat} {ax : List Ref} {t : Ref}
    (hx : h[r']? = some (.arr v w sh ax t)) (p : Nat) (x : Int) {i : Nat} (hne : i ≠ v) :
    (mutate h r' (.setVal p x))[i]? = h[i]? := by
  unfold mutate
  rw [hx]
  simp only []
  split
  · exact writeBuf_get_ne hne _ _
  · rfl

theorem write_through_view_aux {h : H} {r r' v : Ref} {w sh : List Nat} {ax : List Ref} {t : Ref}
    {w' sh' : List Nat} {ax' : List Ref} {t' : Ref} {cells : List Int} {c p p' : Nat} (x : Int)
    (hr : h[r]? = some (.arr v w sh ax t)) (hr' : h[r']? = some (.arr v w' sh' ax' t'))
    (hb : h[v]? = some (.buf cells)) (hc : c < cells.length) (hp' : w'[p']? = some c) (hp : w[p]? = some c) :
    ∃ o, obsArr (mutate h r' (.setVal p' x)) r = some o ∧ o.values[p]? = some x := by
  have hlt : p' < w'.length := (List.getElem?_eq_some_iff.mp hp').1
  have hget : w'.getD p' 0 = c := by rw [List.getD_eq_getElem?_getD, hp']; rfl
  have hne : r ≠ v := by
    intro e
    rw [e, hb] at hr
    cases hr
  have hr2 : (writeBuf h v c x)[r]? = some (.arr v w sh ax t) := by
    rw [writeBuf_get_ne hne]
    exact hr
  unfold mutate
  rw [hr']
  simp only [hlt, if_true, hget]
  unfold obsArr
  rw [hr2]
  exact ⟨_, rfl, readBuf_writeBuf_same hb hc x w p hp⟩

theorem fresh_values_aux {h h' : H} {r' v : Ref} {w sh : List Nat} {ax : List Ref} {t : Ref} (hwf : WF h)
    (hg : Grows h h') (hx : h'[r']? = some (.arr v w sh ax t)) (hv : h.length ≤ v) (p : Nat) (x : Int)
    {q : Ref} (hq : q < h.length) : obsArr (mutate h' r' (.setVal p x)) q = obsArr h q := by
  refine obsArr_agree (S := fun i => i < h.length) hwf.closed ?_ hq
  intro i hi
  rw [setVal_get_ne hx p x (by omega)]
  exact hg.agree i hi

end Heap
end DimModel

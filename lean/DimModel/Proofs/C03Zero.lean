/-
C03 - helper lemmas for assignments through an index that selects nothing (`put_zero_length`).
-/
import DimModel.Proofs.C03Put
namespace DimModel.C03P
open Lib

/-- what NumPy makes of a per-dimension index whose positions it does not look at (the index arrays of the key
broadcast to nothing): lists and masks only contribute their length, scalars and slices are resolved as ever -/
def uncheckedRaw (x : RawIx × Axis) : Except Err PosIx :=
  match x.1 with
  | .ints l => pure (PosIx.list (l.map fun _ => 0))
  | .mask m => pure (PosIx.list ((nonzero m).map fun _ => 0))
  | r => resolveRaw r x.2.size

/-- whatever the bounds check does: a dimension that selects nothing makes the selection's shape contain a 0 -/
theorem anyEmpty_zero_mem_put (g : RawIx × Axis → Except Err PosIx) (E : RawIx × Axis → Bool) (b : Bool)
    (hg1 : ∀ li ax, g (.ints li, ax) =
      if b = true then pure (PosIx.list (li.map fun _ => 0)) else resolveRaw (.ints li) ax.size)
    (hg2 : ∀ m ax, g (.mask m, ax) =
      if b = true then pure (PosIx.list ((nonzero m).map fun _ => 0)) else resolveRaw (.mask m) ax.size)
    (hg3 : ∀ s e st ax, g (.slice s e st, ax) = resolveRaw (.slice s e st) ax.size)
    (hE1 : ∀ li ax, E (.ints li, ax) = li.isEmpty)
    (hE2 : ∀ m ax, E (.mask m, ax) = !m.any id)
    (hE3 : ∀ s e st ax ps, slicePositions s e st ax.size = .ok ps → E (.slice s e st, ax) = ps.isEmpty)
    (hE4 : ∀ i ax, E (.int i, ax) = false)
    (l : List (RawIx × Axis)) (pix : List PosIx)
    (h : l.mapM g = .ok pix) (hany : l.any E = true) : 0 ∈ outerShape pix := by
  induction l generalizing pix with
  | nil => simp at hany
  | cons x l ih =>
    obtain ⟨r, ax⟩ := x
    obtain ⟨p, ps, hp, hps, rfl⟩ := mapM_cons_ok g _ _ pix h
    simp only [List.any_cons, Bool.or_eq_true] at hany
    rcases hany with hx | hrest
    · cases r with
      | int i => rw [hE4] at hx; cases hx
      | ints li =>
        rw [hE1] at hx
        have : li = [] := by simpa using hx
        subst this
        rw [hg1] at hp
        cases b with
        | true =>
          simp only [if_true, pure, Except.pure, Except.ok.injEq] at hp
          subst hp
          simp [outerShape]
        | false =>
          simp only [Bool.false_eq_true, if_false] at hp
          obtain ⟨qs, rfl, hlen⟩ := resolveRaw_ints [] _ p hp
          have : qs = [] := List.eq_nil_of_length_eq_zero (by simpa using hlen)
          subst this
          simp [outerShape]
      | mask m =>
        rw [hE2] at hx
        have hnz := nonzero_nil_of_not_any m (by simpa using hx)
        rw [hg2] at hp
        cases b with
        | true =>
          simp only [if_true, pure, Except.pure, Except.ok.injEq] at hp
          subst hp
          simp [outerShape, hnz]
        | false =>
          simp only [Bool.false_eq_true, if_false] at hp
          have := resolveRaw_mask m _ p hp
          subst this
          simp [outerShape, hnz]
      | slice s e st =>
        rw [hg3] at hp
        obtain ⟨qs, hqs, rfl⟩ := resolveRaw_slice s e st _ p hp
        rw [hE3 s e st ax qs hqs] at hx
        have : qs = [] := by simpa using hx
        subst this
        simp [outerShape]
    · exact zero_mem_outerShape_cons p ps (ih ps hps hrest)

end DimModel.C03P

/-
Helper lemmas for the history-independence clause of C05 (cached `_monotonic` of Axis objects).
-/
import DimModel.Lib.AxisCache
import DimModel.Props.C02
import DimModel.Proofs.C20
namespace DimModel
namespace AxisCache
open Lib

/-! ### a slice of a strictly monotonic label sequence is strictly monotonic -/

theorem chainB_filterMap_lt (r : Label → Label → Bool)
    (htr : ∀ a b c, r a b = true → r b c = true → r a c = true)
    (L : List Label) (ps : List Nat) (hps : ps.Pairwise (· < ·)) (h : chainB r L = true) :
    chainB r (ps.filterMap (L[·]?)) = true := by
  have hp := chainB_pairwise r htr L h
  rw [List.pairwise_iff_getElem] at hp
  apply pairwise_chainB
  refine List.Pairwise.filterMap _ ?_ hps
  intro p q hpq b hb b' hb'
  obtain ⟨h1, rfl⟩ := List.getElem?_eq_some_iff.mp hb
  obtain ⟨h2, rfl⟩ := List.getElem?_eq_some_iff.mp hb'
  exact hp p q h1 h2 hpq

theorem chainB_filterMap_gt (r : Label → Label → Bool)
    (htr : ∀ a b c, r a b = true → r b c = true → r a c = true)
    (L : List Label) (ps : List Nat) (hps : ps.Pairwise (· > ·)) (h : chainB r L = true) :
    chainB (fun a b => r b a) (ps.filterMap (L[·]?)) = true := by
  have hp := chainB_pairwise r htr L h
  rw [List.pairwise_iff_getElem] at hp
  apply pairwise_chainB
  refine List.Pairwise.filterMap _ ?_ hps
  intro p q hpq b hb b' hb'
  obtain ⟨h1, rfl⟩ := List.getElem?_eq_some_iff.mp hb
  obtain ⟨h2, rfl⟩ := List.getElem?_eq_some_iff.mp hb'
  exact hp q p h2 h1 hpq

theorem rangeList_pairwise_lt (a b c : Int) (hc : c > 0) (ha : 0 ≤ a) :
    (rangeList a b c).Pairwise (· < ·) := by
  unfold rangeList
  rw [List.pairwise_map]
  refine List.Pairwise.imp ?_ (List.pairwise_lt_range)
  intro i j hij
  have h1 : (i : Int) * c < (j : Int) * c := Int.mul_lt_mul_of_pos_right (by omega) hc
  have h0 : 0 ≤ (i : Int) * c := Int.mul_nonneg (by omega) (by omega)
  omega

theorem rangeList_pairwise_gt (a b c : Int) (hc : c < 0) (hb : -1 ≤ b) :
    (rangeList a b c).Pairwise (· > ·) := by
  unfold rangeList
  rw [List.pairwise_map]
  refine List.Pairwise.imp_of_mem ?_ (List.pairwise_lt_range)
  intro i j _ hj hij
  rw [List.mem_range] at hj
  unfold rangeLen at hj
  have hc0 : ¬ (c > 0) := by omega
  simp only [hc0, if_false, hc, if_true] at hj
  by_cases hab : b < a
  · simp only [hab, if_true] at hj
    have h1 : (j : Int) ≤ (a - b - 1) / (-c) := by omega
    have h2 : (a - b - 1) / (-c) * (-c) ≤ a - b - 1 := Int.ediv_mul_le _ (by omega)
    have h3 : (j : Int) * (-c) ≤ (a - b - 1) / (-c) * (-c) := Int.mul_le_mul_of_nonneg_right h1 (by omega)
    have h4 : (i : Int) * (-c) < (j : Int) * (-c) := Int.mul_lt_mul_of_pos_right (by omega) (by omega)
    have e1 : (j : Int) * (-c) = -((j : Int) * c) := Int.mul_neg _ _
    have e2 : (i : Int) * (-c) = -((i : Int) * c) := Int.mul_neg _ _
    show (a + (j : Int) * c).toNat < (a + (i : Int) * c).toNat
    omega
  · simp only [hab, if_false] at hj
    omega

theorem sliceIndices_step_ne (s e st : Option Int) (n : Nat) (a b c : Int)
    (h : sliceIndices s e st n = .ok (a, b, c)) : c ≠ 0 := by
  unfold sliceIndices at h
  simp only [] at h
  split at h
  · cases h
  · rename_i h0
    simp only [Except.ok.injEq, Prod.mk.injEq] at h
    obtain ⟨_, _, hc⟩ := h
    subst hc
    simpa using h0

theorem slicePositions_strict (s e st : Option Int) (n : Nat) (ps : List Nat)
    (h : slicePositions s e st n = .ok ps) : ps.Pairwise (· < ·) ∨ ps.Pairwise (· > ·) := by
  unfold slicePositions at h
  simp only [bind, Except.bind, pure, Except.pure] at h
  cases hsi : sliceIndices s e st n with
  | error err => simp [hsi] at h
  | ok t =>
    obtain ⟨a, b, c⟩ := t
    simp only [hsi, Except.ok.injEq] at h
    subst h
    have hb := sliceIndices_bounds s e st n a b c hsi
    have hne := sliceIndices_step_ne s e st n a b c hsi
    by_cases hc : c > 0
    · exact Or.inl (rangeList_pairwise_lt a b c hc (hb.1 hc).1)
    · have hc' : c < 0 := by omega
      exact Or.inr (rangeList_pairwise_gt a b c hc' (hb.2 hc').2)

theorem lt_flip_trans (a b c : Label) : Label.lt b a = true → Label.lt c b = true → Label.lt c a = true :=
  fun h1 h2 => Label.lt_trans c b a h2 h1

/-- the flag copy in `Axis.__getitem__`: positions of a slice are strictly ordered, so a strictly monotonic axis
stays strictly monotonic (possibly in the other direction) -/
theorem sliceLabels_monotonic (L : List Label) (s e st : Option Int) (ps : List Nat)
    (h : slicePositions s e st L.length = .ok ps) (hm : isMonotonic L = true) :
    isMonotonic (sliceLabels L ps) = true := by
  unfold isMonotonic at hm ⊢
  unfold sliceLabels
  rw [Bool.or_eq_true] at hm ⊢
  rcases slicePositions_strict s e st L.length ps h with hps | hps
  · rcases hm with hm | hm
    · exact Or.inl (chainB_filterMap_lt _ Label.lt_trans L ps hps hm)
    · exact Or.inr (chainB_filterMap_lt _ lt_flip_trans L ps hps hm)
  · rcases hm with hm | hm
    · exact Or.inr (chainB_filterMap_gt _ Label.lt_trans L ps hps hm)
    · exact Or.inl (chainB_filterMap_gt _ lt_flip_trans L ps hps hm)

/-! ### coherence is an invariant -/

theorem coh_none (L : List Label) (k : Kind) : (CAxis.mk L k none).Coherent := Or.inl rfl
theorem coh_fresh (L : List Label) (k : Kind) : (fresh L k).Coherent := Or.inl rfl

theorem isMono_coherent (a : CAxis) : a.Coherent → a.isMono.2.Coherent := by
  intro h
  unfold CAxis.isMono
  cases hm : a.mono with
  | none => exact Or.inr rfl
  | some b => simpa [hm] using h

theorem isMono_fst (a : CAxis) (h : a.Coherent) : a.isMono.1 = isMonotonic a.labels := by
  unfold CAxis.isMono
  cases hm : a.mono with
  | none => rfl
  | some b =>
    rcases h with h | h
    · simp [hm] at h
    · simp only [hm, Option.some.injEq] at h; simpa using h

theorem isMono_forget (a : CAxis) : a.isMono.2.forget = a.forget := by
  unfold CAxis.isMono CAxis.forget
  cases a.mono <;> rfl

theorem coherent_set (t : St) (i : Nat) (a : CAxis) (ht : Coherent t) (ha : a.Coherent) : Coherent (t.set i a) := by
  intro x hx
  rcases List.mem_or_eq_of_mem_set hx with h | h
  · exact ht x h
  · exact h ▸ ha

theorem coherent_foldl_set (u : List (Nat × CAxis)) (hu : ∀ p ∈ u, p.2.Coherent) :
    ∀ t : St, Coherent t → Coherent (u.foldl (fun t (p : Nat × CAxis) => t.set p.1 p.2) t) := by
  induction u with
  | nil => intro t ht; exact ht
  | cons p u ih =>
    intro t ht
    simp only [List.foldl_cons]
    exact ih (fun q hq => hu q (List.mem_cons_of_mem _ hq)) _
      (coherent_set t p.1 p.2 ht (hu p (List.mem_cons_self)))

def Eff.Coh (e : Eff) : Prop := (∀ p ∈ e.upd, p.2.Coherent) ∧ (∀ a, e.new = some a → a.Coherent)

theorem apply_coherent (s : St) (e : Eff) (hs : Coherent s) (he : e.Coh) : Coherent (e.apply s).1 := by
  unfold Eff.apply
  have h1 := coherent_foldl_set e.upd he.1 s hs
  cases hn : e.new with
  | none => simpa [hn] using h1
  | some a =>
    simp only []
    intro x hx
    rcases List.mem_append.mp hx with h | h
    · exact h1 x h
    · simp only [List.mem_singleton] at h; exact h ▸ he.2 a hn

theorem coh_kind (a : CAxis) (k : Kind) (h : a.Coherent) : ({ a with kind := k } : CAxis).Coherent := h

theorem coh_upd1 (i : Nat) (a : CAxis) (r : Res) (h : a.Coherent) : ({ upd := [(i, a)], res := r } : Eff).Coh := by
  refine ⟨?_, ?_⟩
  · intro p hp
    simp only [List.mem_singleton] at hp
    exact hp ▸ h
  · intro x hx
    simp at hx

theorem coh_new (a : CAxis) (h : a.Coherent) : ({ new := some a } : Eff).Coh := by
  refine ⟨?_, ?_⟩
  · intro p hp
    simp at hp
  · intro x hx
    simp only [Option.some.injEq] at hx
    exact hx ▸ h

theorem coh_res (r : Res) : ({ res := r } : Eff).Coh := by
  refine ⟨?_, ?_⟩
  · intro p hp
    simp at hp
  · intro x hx
    simp at hx

theorem coh_updnew (u : List (Nat × CAxis)) (a : CAxis) (hu : ∀ p ∈ u, p.2.Coherent) (h : a.Coherent) :
    ({ upd := u, new := some a } : Eff).Coh := by
  refine ⟨hu, ?_⟩
  intro x hx
  simp only [Option.some.injEq] at hx
  exact hx ▸ h

theorem coh_ite (c : Prop) [Decidable c] (e1 e2 : Eff) (h1 : e1.Coh) (h2 : e2.Coh) : (if c then e1 else e2).Coh := by
  split <;> assumption

theorem upd_ite (c : Bool) (i : Nat) (a : CAxis) (h : a.Coherent) :
    ∀ p ∈ (if c = true then ([] : List (Nat × CAxis)) else [(i, a)]), p.2.Coherent := by
  intro p hp
  cases c
  · simp only [Bool.false_eq_true, if_false, List.mem_singleton] at hp; exact hp ▸ h
  · simp at hp

theorem unionCore_coh (i j : Nat) (castA castB : Bool) (k : Kind) (cons : Bool) (a b : CAxis)
    (ha : a.Coherent) (hb : b.Coherent) : (unionCore i j castA castB k cons a b).Coh := by
  unfold unionCore
  have hu1 := upd_ite castA i a.isMono.2 (isMono_coherent a ha)
  have hu2 := upd_ite castB j b.isMono.2 (isMono_coherent b hb)
  refine coh_ite _ _ _ (coh_new _ ha) ?_
  refine coh_ite _ _ _ (coh_ite _ _ _ (coh_new _ hb) (coh_res _)) ?_
  refine coh_ite _ _ _ (coh_ite _ _ _ (coh_new _ ha) (coh_res _)) ?_
  refine coh_ite _ _ _ (coh_new _ (coh_fresh _ _)) ?_
  refine coh_ite _ _ _ (coh_updnew _ _ hu1 (coh_fresh _ _)) ?_
  refine coh_updnew _ _ ?_ (coh_fresh _ _)
  intro p hp
  rcases List.mem_append.mp hp with h | h
  · exact hu1 p h
  · exact hu2 p h

theorem unionEff_coh (i j : Nat) (a b : CAxis) (ha : a.Coherent) (hb : b.Coherent) : (unionEff i j a b).Coh := by
  unfold unionEff
  refine unionCore_coh _ _ _ _ _ _ _ _ ?_ ?_
  · split
    · exact coh_fresh _ _
    · exact ha
  · split
    · exact coh_fresh _ _
    · exact hb

theorem intersectionEff_coh (a b : CAxis) (ha : a.Coherent) : (intersectionEff a b).Coh := by
  unfold intersectionEff
  simp only []
  split
  · refine coh_new _ ?_
    split
    · exact coh_fresh _ _
    · exact ha
  · split
    · exact coh_new _ (coh_fresh _ _)
    · exact coh_new _ (coh_fresh _ _)

theorem eff_coh (s : St) (op : AOp) (hs : Coherent s) : (eff s op).Coh := by
  have hget : ∀ (i : Nat) (a : CAxis), s[i]? = some a → a.Coherent := fun i a h => hs a (List.mem_of_getElem? h)
  cases op with
  | construct L k => exact coh_new _ (coh_fresh _ _)
  | setValues i L k =>
    simp only [eff]
    split
    · exact coh_res _
    · split
      · exact coh_res _
      · exact coh_upd1 _ _ _ (coh_none _ _)
  | setItem i pos v vk =>
    simp only [eff]
    split
    · exact coh_res _
    · rename_i a ha
      split
      · exact coh_res _
      · exact coh_upd1 _ _ _ (coh_none _ _)
  | setAll i L vk =>
    simp only [eff]
    split
    · exact coh_res _
    · rename_i a ha
      split
      · exact coh_upd1 _ _ _ (coh_none _ _)
      · split
        · exact coh_upd1 _ _ _ (coh_none _ _)
        · exact coh_res _
  | getSlice i s0 e0 st0 =>
    simp only [eff]
    split
    · exact coh_res _
    · rename_i a ha
      split
      · exact coh_res _
      · split
        · exact coh_res _
        · rename_i ps hps
          refine coh_new _ ?_
          by_cases hm : a.mono = some true
          · right
            have hc := hget i a ha
            have hmono : isMonotonic a.labels = true := by
              rcases hc with h | h
              · simp [hm] at h
              · rw [hm] at h; simpa using h.symm
            simp only [hm, beq_self_eq_true, if_true]
            rw [sliceLabels_monotonic a.labels s0 e0 st0 ps hps hmono]
          · left
            have : (a.mono == some true) = false := by simpa using hm
            simp [this]
  | getList i ps =>
    simp only [eff]
    split
    · exact coh_res _
    · split
      · exact coh_res _
      · exact coh_new _ (coh_fresh _ _)
  | getScalar i p =>
    simp only [eff]
    split
    · exact coh_res _
    · split
      · exact coh_res _
      · exact coh_res _
  | take i ps =>
    simp only [eff]
    split
    · exact coh_res _
    · split
      · exact coh_res _
      · exact coh_new _ (coh_fresh _ _)
  | isMonotonic i =>
    simp only [eff]
    split
    · exact coh_res _
    · rename_i a ha
      exact coh_upd1 _ _ _ (isMono_coherent a (hget i a ha))
  | copy i =>
    simp only [eff]
    split
    · exact coh_res _
    · rename_i a ha
      exact coh_new _ (hget i a ha)
  | sort i =>
    simp only [eff]
    split
    · exact coh_res _
    · exact coh_upd1 _ _ _ (coh_none _ _)
  | cast i k =>
    simp only [eff]
    split
    · exact coh_res _
    · exact coh_new _ (coh_fresh _ _)
  | union i j =>
    simp only [eff]
    split
    · rename_i a b ha hb
      exact unionEff_coh i j a b (hget i a ha) (hget j b hb)
    · exact coh_res _
  | intersection i j =>
    simp only [eff]
    split
    · rename_i a b ha hb
      exact intersectionEff_coh a b (hget i a ha)
    · exact coh_res _
  | labels i =>
    simp only [eff]
    split
    · exact coh_res _
    · exact coh_res _

/-! ### the readers of the flag answer as on fresh operands -/

theorem unionCore_answer (i j : Nat) (castA castB : Bool) (k : Kind) (cons : Bool) (a b a2 b2 : CAxis)
    (ha : a.Coherent) (hb : b.Coherent) (ha2 : a2.Coherent) (hb2 : b2.Coherent)
    (ea : a.forget = a2.forget) (eb : b.forget = b2.forget) :
    (unionCore i j castA castB k cons a b).new.map CAxis.forget = (unionCore i j castA castB k cons a2 b2).new.map CAxis.forget ∧
    (unionCore i j castA castB k cons a b).res = (unionCore i j castA castB k cons a2 b2).res := by
  have la : a.labels = a2.labels := by
    have := congrArg (fun x : CAxis => x.labels) ea; exact this
  have lb : b.labels = b2.labels := by
    have := congrArg (fun x : CAxis => x.labels) eb; exact this
  unfold unionCore
  simp only [isMono_fst a ha, isMono_fst b hb, isMono_fst a2 ha2, isMono_fst b2 hb2, la, lb]
  split
  · simp [ea]
  · split
    · split <;> simp [eb]
    · split
      · split <;> simp [ea]
      · split
        · simp
        · split <;> simp

theorem forget_ite (c : Prop) [Decidable c] (x a : CAxis) : (if c then x else a).forget = (if c then x else a.forget).forget := by
  split <;> rfl

theorem unionEff_answer (i j : Nat) (a b : CAxis) (ha : a.Coherent) (hb : b.Coherent) :
    (unionEff i j a b).new.map CAxis.forget = (unionEff i j a.forget b.forget).new.map CAxis.forget ∧
    (unionEff i j a b).res = (unionEff i j a.forget b.forget).res := by
  unfold unionEff
  have ka : a.forget.kind = a.kind := rfl
  have kb : b.forget.kind = b.kind := rfl
  have la : a.forget.labels = a.labels := rfl
  have lb : b.forget.labels = b.labels := rfl
  simp only [ka, kb, la, lb]
  refine unionCore_answer _ _ _ _ _ _ _ _ _ _ ?_ ?_ ?_ ?_ (forget_ite _ _ _) (forget_ite _ _ _)
  · split
    · exact coh_fresh _ _
    · exact ha
  · split
    · exact coh_fresh _ _
    · exact hb
  · split
    · exact coh_fresh _ _
    · exact Or.inl rfl
  · split
    · exact coh_fresh _ _
    · exact Or.inl rfl

end AxisCache
end DimModel

/-
Helper lemmas for C10, part 3: `reshape` on plain (comma-free) dimension names as
squeeze* ; transpose ; newaxis*, and the repeat loop of `broadcast`.
-/
import DimModel.Proofs.C10Sq
namespace DimModel
open Lib
namespace C10

/-! ### list helpers -/

theorem mem_eraseIdx_of_ne {l : List String} (_hn : l.Nodup) {k : Nat} {d x : String} (hk : l[k]? = some d)
    (hx : x ∈ l) (hne : x ≠ d) : x ∈ l.eraseIdx k := by
  apply List.mem_eraseIdx_iff_getElem?.mpr
  refine ⟨l.idxOf x, ?_, getElem?_idxOf_of_mem hx⟩
  intro e
  have := getElem?_idxOf_of_mem hx
  rw [e, hk] at this
  exact hne (Option.some.inj this).symm

theorem eraseIdx_eq_filter_name : ∀ (axes : List Axis) (k : Nat) (d : String),
    (axes.map (·.name)).Nodup → (axes.map (·.name))[k]? = some d →
    axes.eraseIdx k = axes.filter (fun ax => ax.name != d)
  | [], _, _, _, h => by simp at h
  | ax :: axes, 0, d, hn, h => by
    simp only [List.map_cons, List.getElem?_cons_zero, Option.some.injEq] at h
    simp only [List.map_cons, List.nodup_cons] at hn
    have hself : (ax.name != d) = false := by simp [h]
    rw [List.eraseIdx_cons_zero, List.filter_cons, hself]
    simp only [Bool.false_eq_true, if_false]
    symm
    apply List.filter_eq_self.mpr
    intro b hb
    have : b.name ≠ d := by
      intro e
      exact hn.1 (h ▸ e ▸ List.mem_map.mpr ⟨b, hb, rfl⟩)
    simpa using this
  | ax :: axes, k + 1, d, hn, h => by
    simp only [List.map_cons, List.getElem?_cons_succ] at h
    simp only [List.map_cons, List.nodup_cons] at hn
    have hne : ax.name ≠ d := by
      intro e
      exact hn.1 (e ▸ List.mem_of_getElem? h)
    have hself : (ax.name != d) = true := by simpa using hne
    rw [List.eraseIdx_cons_succ, List.filter_cons, hself, if_pos rfl,
      eraseIdx_eq_filter_name axes k d hn.2 h]

/-! ### phase 0: nothing to ungroup -/

theorem unflattenAll_plain {α} (a : DimArray α) (hp : PlainAxes a.axes) : unflattenAll a = a := by
  have hnone : (List.range a.ndim).find? (fun i => (a.axes.getD i default).isMulti) = none := by
    rw [List.find?_eq_none]
    intro i hi
    have hi' : i < a.axes.length := List.mem_range.mp hi
    rw [axis_getD_eq a i hi']
    simp [Axis.isMulti, hp _ (List.getElem_mem hi')]
  unfold unflattenAll
  cases h : a.ndim with
  | zero => rfl
  | succ n =>
    unfold unflattenAll.go
    rw [hnone]

/-! ### phase 1: squeeze the dimensions that are not in the target -/

def sqStep {α} (flat : List String) (o : DimArray α) (d : String) : Except Err (DimArray α) :=
  if flat.contains d then pure o else squeeze o (some (.name d))

/-- which axes survive after the names in `ds` have been examined -/
def sqKeep (flat ds : List String) (ax : Axis) : Bool := !(ds.contains ax.name) || flat.contains ax.name

theorem sqKeep_cons_in (flat ds : List String) (d : String) (hf : d ∈ flat) (ax : Axis) :
    sqKeep flat ds ax = sqKeep flat (d :: ds) ax := by
  unfold sqKeep
  by_cases e : ax.name = d
  · have h1 : flat.contains ax.name = true := by rw [e]; simpa using hf
    rw [h1, Bool.or_true, Bool.or_true]
  · have h2 : (ax.name == d) = false := by simpa using e
    rw [List.contains_cons, h2, Bool.false_or]

theorem sqKeep_cons_out (flat ds : List String) (d : String) (hf : d ∉ flat) (ax : Axis) :
    (sqKeep flat ds ax && (ax.name != d)) = sqKeep flat (d :: ds) ax := by
  unfold sqKeep
  by_cases e : ax.name = d
  · have h1 : flat.contains ax.name = false := by rw [e]; simpa using hf
    have h2 : (ax.name == d) = true := by simpa using e
    have h3 : (ax.name != d) = false := by simp [e]
    rw [List.contains_cons, h1, h2, h3]; simp
  · have h2 : (ax.name == d) = false := by simpa using e
    have h3 : (ax.name != d) = true := by simpa using e
    rw [List.contains_cons, h2, h3, Bool.false_or, Bool.and_true]

theorem sqFold_ok {α} (flat N : List String) (hNf : ∀ x ∈ N, x ∈ flat) :
    ∀ (ds : List String) (o : DimArray α), o.WF → ds.Nodup → (∀ d ∈ ds, d ∈ o.dims) →
      (∀ ax ∈ o.axes, ax.name ∈ ds → ax.name ∉ flat → ax.size = 1) → (∀ x ∈ N, x ∈ o.dims) →
      ∃ o', ds.foldlM (sqStep flat) o = .ok o' ∧ o'.WF ∧ o'.attrs = o.attrs ∧ o'.vkind = o.vkind ∧
        o'.axes = o.axes.filter (sqKeep flat ds) ∧ SameOn N o o'
  | [], o, hw, _, _, _, _ => by
    refine ⟨o, rfl, hw, rfl, rfl, ?_, SameOn.refl N o⟩
    symm; apply List.filter_eq_self.mpr
    intro ax _; simp [sqKeep]
  | d :: ds, o, hw, hnd, hsub, hsz, hN => by
    rw [List.nodup_cons] at hnd
    rw [List.foldlM_cons]
    by_cases hf : d ∈ flat
    · have hstep : sqStep flat o d = .ok o := by
        have : flat.contains d = true := by simpa using hf
        simp only [sqStep, this, if_true]; rfl
      obtain ⟨o', h1, h2, h3, h4, h5, h6⟩ := sqFold_ok flat N hNf ds o hw hnd.2
        (fun x hx => hsub x (List.mem_cons_of_mem _ hx))
        (fun ax hax hn1 hn2 => hsz ax hax (List.mem_cons_of_mem _ hn1) hn2) hN
      refine ⟨o', by rw [hstep]; exact h1, h2, h3, h4, ?_, h6⟩
      rw [h5]
      apply List.filter_congr
      intro ax _
      exact sqKeep_cons_in flat ds d hf ax
    · have hdm : d ∈ o.dims := hsub d List.mem_cons_self
      have hk := getElem?_idxOf_of_mem hdm
      have hkl := List.idxOf_lt_length_of_mem hdm
      generalize o.dims.idxOf d = k at hk hkl
      have hkl' : k < o.axes.length := by simpa [DimArray.dims] using hkl
      have hres : Resolves o (.name d) k := ⟨hkl', hk⟩
      have hnm : (o.axes.getD k default).name = d := by
        rw [axis_getD_name o k hkl']
        exact Option.some.inj ((List.getElem?_eq_getElem hkl).symm.trans hk)
      have hsz1 : (o.axes.getD k default).size = 1 := by
        apply hsz
        · rw [axis_getD_eq o k hkl']; exact List.getElem_mem hkl'
        · rw [hnm]; exact List.mem_cons_self
        · rw [hnm]; exact hf
      have hstep : sqStep flat o d = .ok (squeezeAt o k) := by
        have : flat.contains d = false := by simpa using hf
        simp only [sqStep, this, Bool.false_eq_true, if_false]
        exact squeeze_some_ok o hw.2.1 (.name d) k hres hsz1
      have hw1 := squeezeAt_wf o k hw
      have hdims1 := squeezeAt_dims o k
      have hsl : k < o.vals.shape.length := by rw [hw.1]; simpa using hkl'
      have hs1 : o.vals.shape[k]? = some 1 := by
        rw [hw.1, List.getElem?_map, List.getElem?_eq_getElem hkl', Option.map_some,
          ← axis_getD_eq o k hkl', hsz1]
      have hmem1 : ∀ x, x ∈ o.dims → x ≠ d → x ∈ (squeezeAt o k).dims := by
        intro x hx hne
        rw [hdims1]; exact mem_eraseIdx_of_ne hw.2.1 hk hx hne
      have hN1 : ∀ x ∈ N, x ∈ (squeezeAt o k).dims := by
        intro x hx
        exact hmem1 x (hN x hx) (fun e => hf (e ▸ hNf x hx))
      obtain ⟨o', h1, h2, h3, h4, h5, h6⟩ := sqFold_ok flat N hNf ds (squeezeAt o k) hw1 hnd.2
        (fun x hx => hmem1 x (hsub x (List.mem_cons_of_mem _ hx)) (fun e => hnd.1 (e ▸ hx)))
        (fun ax hax hn1 hn2 => hsz ax (mem_of_mem_eraseIdx' hax) (List.mem_cons_of_mem _ hn1) hn2) hN1
      have hso : SameOn N o (squeezeAt o k) := by
        apply (squeezeAt_sameOn o k hw.2.1 hsl hs1).mono
        intro x hx
        rw [← hdims1]; exact hN1 x hx
      refine ⟨o', by rw [hstep]; exact h1, h2, h3, h4, ?_, hso.trans h6⟩
      rw [h5]
      have he : (squeezeAt o k).axes = o.axes.filter (fun ax => ax.name != d) :=
        eraseIdx_eq_filter_name o.axes k d hw.2.1 hk
      rw [he, List.filter_filter]
      apply List.filter_congr
      intro ax _
      exact sqKeep_cons_out flat ds d hf ax

/-! ### phase 2: put the remaining dimensions in the target order -/

theorem reshape_transpose_ok {α} (o1 : DimArray α) (hw : o1.WF) (flat : List String) (hfn : flat.Nodup)
    (hsub : ∀ x ∈ o1.dims, x ∈ flat) :
    ∃ o2, transpose o1 (some ((flat.filter (fun d => o1.dims.contains d)).map DimKey.name)) = .ok o2 ∧
      o2.dims = flat.filter (fun d => o1.dims.contains d) ∧ Rearranged o1 o2 := by
  have hperm : (flat.filter (fun d => o1.dims.contains d)).Perm o1.dims := by
    have hdn : o1.dims.Nodup := hw.2.1
    rw [List.perm_ext_iff_of_nodup (List.Nodup.sublist List.filter_sublist hfn) hdn]
    intro x
    simp only [List.mem_filter, List.contains_iff_mem]
    exact ⟨fun h => h.2, fun h => ⟨hsub x h, h⟩⟩
  by_cases hne : flat.filter (fun d => o1.dims.contains d) = []
  · rw [hne] at hperm ⊢
    have hd : o1.dims = [] := List.Perm.eq_nil (hperm.symm)
    have hax : o1.axes = [] := by simpa [DimArray.dims] using hd
    have h0 : o1.ndim = 0 := by simp [DimArray.ndim, hax]
    refine ⟨o1, ?_, hd, Rearranged.refl o1 hw⟩
    simp [transpose, h0]
    rfl
  · exact transpose_names_ok o1 hw _ hne hperm

/-! ### phase 3: insert the missing dimensions -/

def naStep {α} (o : DimArray α) (di : String × Nat) : Except Err (DimArray α) :=
  if o.dims.contains di.1 then pure o else newaxis o di.1 (di.2 : Int) none

theorem insertIdx_append_length {β} (x : β) : ∀ (pre l : List β), (pre ++ l).insertIdx pre.length x = pre ++ x :: l
  | [], l => by simp
  | y :: pre, l => by
    simp only [List.cons_append, List.length_cons, List.insertIdx_succ_cons, insertIdx_append_length x pre l]

theorem naFold_ok {α} (K N : List String) :
    ∀ (rest pre : List String) (o : DimArray α), o.WF → o.dims = pre ++ rest.filter (fun d => K.contains d) →
      (pre ++ rest).Nodup → (∀ x ∈ rest, x ≠ "") → (∀ x ∈ N, x ∈ o.dims) →
      ∃ o', (rest.zipIdx pre.length).foldlM naStep o = .ok o' ∧ o'.WF ∧ o'.attrs = o.attrs ∧ o'.vkind = o.vkind ∧
        o'.dims = pre ++ rest ∧ SameOn N o o' ∧
        (∀ ax ∈ o.axes, ax ∈ o'.axes) ∧ (∀ ax ∈ o'.axes, ax ∈ o.axes ∨ ax = noneAxis ax.name)
  | [], pre, o, hw, hd, _, _, _ => by
    refine ⟨o, rfl, hw, rfl, rfl, by simpa using hd, SameOn.refl N o, fun _ h => h, fun _ h => Or.inl h⟩
  | d :: rest, pre, o, hw, hd, hnd, hne, hN => by
    rw [List.zipIdx_cons, List.foldlM_cons]
    have hnd' : ((pre ++ [d]) ++ rest).Nodup := by simpa using hnd
    have hlen : (pre ++ [d]).length = pre.length + 1 := by simp
    by_cases hK : d ∈ K
    · have hKc : K.contains d = true := by simpa using hK
      have hd' : o.dims = (pre ++ [d]) ++ rest.filter (fun d => K.contains d) := by
        rw [hd, List.filter_cons, hKc]; simp
      have hc : o.dims.contains d = true := by rw [hd']; simp
      have hstep : naStep o (d, pre.length) = .ok o := by
        simp only [naStep, hc, if_true]; rfl
      obtain ⟨o', h1, h2, h3, h4, h5, h6, h7, h8⟩ := naFold_ok K N rest (pre ++ [d]) o hw hd' hnd'
        (fun x hx => hne x (List.mem_cons_of_mem _ hx)) hN
      rw [hlen] at h1
      exact ⟨o', by rw [hstep]; exact h1, h2, h3, h4, by simpa using h5, h6, h7, h8⟩
    · have hKc : K.contains d = false := by simpa using hK
      have hd0 : o.dims = pre ++ rest.filter (fun d => K.contains d) := by
        rw [hd, List.filter_cons, hKc]; simp
      have hnotin : d ∉ o.dims := by
        rw [hd0]
        intro hm
        rcases List.mem_append.mp hm with h | h
        · have := (List.nodup_append.mp hnd).2.2 d h d List.mem_cons_self
          exact this rfl
        · have h2 : d ∈ rest := (List.mem_filter.mp h).1
          have := (List.nodup_append.mp hnd).2.1
          exact (List.nodup_cons.mp this).1 h2
      have hc : o.dims.contains d = false := by simpa using hnotin
      have hp : pre.length ≤ o.ndim := by
        have : o.ndim = o.dims.length := by simp [DimArray.ndim, DimArray.dims]
        rw [this, hd0]; simp
      have hp' : pre.length ≤ o.vals.shape.length := by
        rw [hw.1]; simpa [DimArray.ndim] using hp
      have hstep : naStep o (d, pre.length) = .ok (insertAt o pre.length (noneAxis d)) := by
        simp only [naStep, hc, Bool.false_eq_true, if_false]
        exact newaxis_none_ok o d _ pre.length hnotin hp (Or.inl rfl)
      have hw1 := insertAt_wf o pre.length (noneAxis d) hw hnotin (hne d List.mem_cons_self) rfl
      have hd1 : (insertAt o pre.length (noneAxis d)).dims = (pre ++ [d]) ++ rest.filter (fun d => K.contains d) := by
        rw [insertAt_dims, hd0, insertIdx_append_length]; simp [noneAxis]
      have hmem : ∀ ax, ax ∈ (insertAt o pre.length (noneAxis d)).axes ↔ ax = noneAxis d ∨ ax ∈ o.axes :=
        fun ax => List.mem_insertIdx (by simpa [DimArray.ndim] using hp)
      have hsub1 : ∀ x ∈ o.dims, x ∈ (insertAt o pre.length (noneAxis d)).dims := by
        intro x hx
        rw [insertAt_dims]
        exact (List.mem_insertIdx (by rw [hd0]; simp)).mpr (Or.inr hx)
      obtain ⟨o', h1, h2, h3, h4, h5, h6, h7, h8⟩ := naFold_ok K N rest (pre ++ [d])
        (insertAt o pre.length (noneAxis d)) hw1 hd1 hnd'
        (fun x hx => hne x (List.mem_cons_of_mem _ hx)) (fun x hx => hsub1 x (hN x hx))
      rw [hlen] at h1
      have hso : SameOn N o (insertAt o pre.length (noneAxis d)) :=
        (insertAt_sameOn o pre.length (noneAxis d) hw.2.1 hp' hnotin).1.mono hN
      refine ⟨o', by rw [hstep]; exact h1, h2, h3, h4, by simpa using h5, hso.trans h6, ?_, ?_⟩
      · intro ax hax; exact h7 ax ((hmem ax).mpr (Or.inr hax))
      · intro ax hax
        rcases h8 ax hax with h | h
        · rcases (hmem ax).mp h with e | e
          · right; rw [e]; rfl
          · left; exact e
        · right; exact h

/-! ### phase 4: nothing to group -/

theorem foldlM_pure_id {α β : Type} (f : α → β → Except Err α) :
    ∀ (l : List β) (o : α), (∀ x ∈ l, ∀ o, f o x = .ok o) → l.foldlM f o = .ok o
  | [], _, _ => rfl
  | x :: l, o, h => by
    rw [List.foldlM_cons, h x List.mem_cons_self o]
    exact foldlM_pure_id f l o (fun y hy => h y (List.mem_cons_of_mem _ hy))

/-! ### `reshape` on plain names -/

theorem flatMap_self {β} (f : β → List β) : ∀ (l : List β), (∀ x ∈ l, f x = [x]) → l.flatMap f = l
  | [], _ => rfl
  | x :: l, h => by
    rw [List.flatMap_cons, h x List.mem_cons_self, flatMap_self f l (fun y hy => h y (List.mem_cons_of_mem _ hy))]
    rfl

theorem reshape_eq {α} (a : DimArray α) (newdims : List String) (h1 : (newdims == a.dims) = false)
    (h2 : newdims.eraseDups.length = newdims.length) (hflat : newdims.flatMap splitOnComma = newdims)
    (hplain : unflattenAll a = a) :
    reshape a newdims =
      (a.dims.foldlM (sqStep newdims) a).bind (fun o1 =>
        (transpose o1 (some ((newdims.filter (fun d => o1.dims.contains d)).map DimKey.name))).bind (fun o2 =>
          (newdims.zipIdx.foldlM naStep o2).bind (fun o3 =>
            (newdims.zipIdx.foldlM (fun (o : DimArray α) (di : String × Nat) =>
              if di.1.contains ',' then flatten o (splitOnComma di.1) (some di.2) else pure o) o3).bind (fun o4 =>
              if o4.dims != newdims then .error .value else pure o4)))) := by
  have h2' : (newdims.eraseDups.length != newdims.length) = false := by simp [h2]
  unfold reshape
  simp only [h1, Bool.false_eq_true, if_false, h2', hflat, hplain, bind]
  rfl

theorem reshape_plain_ok {α} (a : DimArray α) (hw : a.WF) (hpa : PlainAxes a.axes) (newdims : List String)
    (hnd : newdims.Nodup) (hpn : ∀ d ∈ newdims, PlainName d)
    (hfit : ∀ ax ∈ a.axes, ax.name ∉ newdims → ax.size = 1) :
    ∃ o, reshape a newdims = .ok o ∧ o.WF ∧ o.attrs = a.attrs ∧ o.vkind = a.vkind ∧ o.dims = newdims ∧
      SameOn (a.dims.filter (fun d => newdims.contains d)) a o ∧
      (∀ ax ∈ a.axes, ax.name ∈ newdims → ax ∈ o.axes) ∧
      (∀ ax ∈ o.axes, ax ∈ a.axes ∨ ax = noneAxis ax.name) := by
  by_cases heq : newdims = a.dims
  · refine ⟨a, ?_, hw, rfl, rfl, heq.symm, SameOn.refl _ a, fun ax h _ => h, fun ax h => Or.inl h⟩
    have : (newdims == a.dims) = true := by simpa using heq
    simp only [reshape, this, if_true]; rfl
  · have h1 : (newdims == a.dims) = false := by simpa using heq
    have h2 := (eraseDups_length_eq_iff newdims).mpr hnd
    have hflat : newdims.flatMap splitOnComma = newdims := flatMap_self _ _ (fun d hd => (hpn d hd).2.2)
    rw [reshape_eq a newdims h1 h2 hflat (unflattenAll_plain a hpa)]
    -- the names that survive the whole pipeline
    let N := a.dims.filter (fun d => newdims.contains d)
    have hNf : ∀ x ∈ N, x ∈ newdims := by
      intro x hx; simpa using (List.mem_filter.mp hx).2
    have hNa : ∀ x ∈ N, x ∈ a.dims := fun x hx => (List.mem_filter.mp hx).1
    -- phase 1
    obtain ⟨o1, e1, w1, a1, v1, x1, s1⟩ := sqFold_ok newdims N hNf a.dims a hw hw.2.1 (fun d h => h)
      (fun ax hax _ hn => hfit ax hax hn) hNa
    have hx1 : o1.axes = a.axes.filter (fun ax => newdims.contains ax.name) := by
      rw [x1]
      apply List.filter_congr
      intro ax hax
      have : a.dims.contains ax.name = true := by
        simp only [List.contains_iff_mem]; exact List.mem_map.mpr ⟨ax, hax, rfl⟩
      unfold sqKeep
      rw [this]; rfl
    have hd1 : o1.dims = N := by
      show o1.axes.map (·.name) = (a.axes.map (·.name)).filter _
      rw [hx1, List.filter_map]; rfl
    -- phase 2
    obtain ⟨o2, e2, d2, r2⟩ := reshape_transpose_ok o1 w1 newdims hnd (fun x hx => hNf x (hd1 ▸ hx))
    have hN2 : ∀ x ∈ N, x ∈ o2.dims := by
      intro x hx
      rw [d2, List.mem_filter]
      exact ⟨hNf x hx, by simpa using (hd1 ▸ hx : x ∈ o1.dims)⟩
    have s2 : SameOn N o1 o2 := by
      have : SameOn o1.dims o1 o2 := r2.same
      exact this.mono (fun x hx => hd1 ▸ hx)
    -- phase 3
    have d2' : o2.dims = [] ++ newdims.filter (fun d => o1.dims.contains d) := d2
    obtain ⟨o3, e3, w3, a3, v3, d3, s3, m3, n3⟩ := naFold_ok o1.dims N newdims [] o2 r2.wf d2'
      (by simpa using hnd) (fun x hx => (hpn x hx).1) hN2
    -- phase 4
    have e4 : newdims.zipIdx.foldlM (fun (o : DimArray α) (di : String × Nat) =>
        if di.1.contains ',' then flatten o (splitOnComma di.1) (some di.2) else pure o) o3 = .ok o3 := by
      apply foldlM_pure_id
      intro x hx o
      have hx1 : x.1 ∈ newdims := by
        obtain ⟨_, hlt, he⟩ := List.mem_zipIdx hx
        rw [he]; exact List.getElem_mem _
      simp only [(hpn x.1 hx1).2.1, Bool.false_eq_true, if_false]; rfl
    have d3' : o3.dims = newdims := by simpa using d3
    have hfin : (o3.dims != newdims) = false := by simp [d3']
    refine ⟨o3, ?_, w3, ?_, ?_, d3', (s1.trans s2).trans s3, ?_, ?_⟩
    · simp only [e1, e2, Except.bind]
      simp only [List.length_nil] at e3
      simp only [e3, e4, hfin, Bool.false_eq_true, if_false]; rfl
    · rw [a3, r2.attrs, a1]
    · rw [v3, r2.vkind, v1]
    · intro ax hax hn
      apply m3
      apply r2.axes_perm.mem_iff.mpr
      rw [hx1, List.mem_filter]
      exact ⟨hax, by simpa using hn⟩
    · intro ax hax
      rcases n3 ax hax with h | h
      · left
        have := r2.axes_perm.mem_iff.mp h
        rw [hx1] at this
        exact (List.mem_filter.mp this).1
      · right; exact h

/-! ### the repeat loop of `broadcast` -/

def bcStep {α} (a : DimArray α) (o : DimArray α) (t : Axis) : Except Err (DimArray α) :=
  match o.axes.find? (·.name == t.name) with
  | some ax => if ax.size == 1 && (t.size != 1 || !a.dims.contains t.name) then repeatAxis o t.bare (.name t.name) else pure o
  | none => .error .value

theorem broadcast_eq {α} (a : DimArray α) (target : List Axis) :
    broadcast a target = (reshape a (target.map (·.name))).bind (fun o => target.reverse.foldlM (bcStep a) o) := rfl

/-- what one step of the loop makes of the axis `ax` (of the same name as the target axis `t`) -/
def stepAxis {α} (a : DimArray α) (ax t : Axis) : Axis :=
  if ax.size == 1 && (t.size != 1 || !a.dims.contains t.name) then t.bare else ax

theorem stepAxis_name {α} (a : DimArray α) (ax t : Axis) (h : ax.name = t.name) : (stepAxis a ax t).name = t.name := by
  unfold stepAxis; split
  · rfl
  · exact h

theorem axis_eq_of_name_eq {axes : List Axis} (hn : (axes.map (·.name)).Nodup) {x y : Axis} (hx : x ∈ axes)
    (hy : y ∈ axes) (h : x.name = y.name) : x = y := by
  have h1 := findName_unique axes hn x hx
  have h2 := findName_unique axes hn y hy
  rw [h] at h1
  exact Option.some.inj (h1.symm.trans h2)

theorem bcFold_ok {α} (a : DimArray α) (N : List String) :
    ∀ (ts : List Axis) (o : DimArray α), o.WF → (ts.map (·.name)).Nodup → PlainAxes ts →
      (∀ t ∈ ts, t.name ∈ o.dims) → (∀ x ∈ N, x ∈ o.dims) → (∀ ax ∈ o.axes, ax.name ∈ N → ax.size ≠ 1) →
      ∃ o', ts.foldlM (bcStep a) o = .ok o' ∧ o'.WF ∧ o'.attrs = o.attrs ∧ o'.vkind = o.vkind ∧
        o'.dims = o.dims ∧ SameOn N o o' ∧
        (∀ ax' ∈ o'.axes, (ax'.name ∉ ts.map (·.name) ∧ ax' ∈ o.axes) ∨
          (∃ t ∈ ts, ∃ ax ∈ o.axes, ax.name = t.name ∧ ax' = stepAxis a ax t))
  | [], o, hw, _, _, _, _, _ => by
    exact ⟨o, rfl, hw, rfl, rfl, rfl, SameOn.refl N o, fun ax' h => Or.inl ⟨by simp, h⟩⟩
  | t :: ts, o, hw, hnd, hpl, hts, hN, hsz => by
    rw [List.foldlM_cons]
    simp only [List.map_cons, List.nodup_cons] at hnd
    have htm : t.name ∈ o.axes.map (·.name) := hts t List.mem_cons_self
    obtain ⟨hkl, hfind, hnm⟩ := findName_some o.axes t.name htm
    have hk : o.dims[(o.axes.map (·.name)).idxOf t.name]? = some t.name := getElem?_idxOf_of_mem htm
    generalize (o.axes.map (·.name)).idxOf t.name = k at hkl hfind hnm hk
    have haxm : o.axes.getD k default ∈ o.axes := by rw [axis_getD_eq o k hkl]; exact List.getElem_mem hkl
    have hpl' : PlainAxes ts := fun x hx => hpl x (List.mem_cons_of_mem _ hx)
    have hts' : ∀ t' ∈ ts, t'.name ∈ o.dims := fun x hx => hts x (List.mem_cons_of_mem _ hx)
    by_cases hc : ((o.axes.getD k default).size == 1 && (t.size != 1 || !a.dims.contains t.name)) = true
    · -- the axis is repeated
      have hsz1 : (o.axes.getD k default).size = 1 := by
        simp only [Bool.and_eq_true, beq_iff_eq] at hc; exact hc.1
      have hres : Resolves o (.name t.name) k := ⟨hkl, hk⟩
      have hstep : bcStep a o t = .ok (repeatAt o k t.bare) := by
        simp only [bcStep, hfind, hc, if_true]
        exact repeatAxis_ok o hw.2.1 t.bare (.name t.name) k hres hsz1
      have hnm' : (o.axes.getD k default).name = t.bare.name := hnm
      have hnew : ({ t.bare with name := (o.axes.getD k default).name } : Axis) = t.bare := by rw [hnm']
      have hax1 : (repeatAt o k t.bare).axes = o.axes.set k t.bare := by
        show o.axes.set k _ = _
        rw [hnew]
      have hw1 := repeatAt_wf o k t.bare hw rfl
      have hd1 := repeatAt_dims o k t.bare
      have htN : t.name ∉ N := by
        intro h
        exact hsz _ haxm (hnm ▸ h) hsz1
      have hs1 : o.vals.shape[k]? = some 1 := by
        rw [hw.1, List.getElem?_map, List.getElem?_eq_getElem hkl, Option.map_some,
          ← axis_getD_eq o k hkl, hsz1]
      have hso : SameOn N o (repeatAt o k t.bare) := by
        apply (repeatAt_sameOn o k t.bare hw.2.1 hs1).mono
        intro x hx
        exact mem_eraseIdx_of_ne hw.2.1 hk (hN x hx) (fun e => htN (e ▸ hx))
      have hsz' : ∀ ax ∈ (repeatAt o k t.bare).axes, ax.name ∈ N → ax.size ≠ 1 := by
        intro ax hax hn
        rw [hax1] at hax
        rcases List.mem_or_eq_of_mem_set hax with h | h
        · exact hsz ax h hn
        · exact absurd (show t.bare.name ∈ N from h ▸ hn) htN
      obtain ⟨o', h1, h2, h3, h4, h5, h6, h7⟩ := bcFold_ok a N ts (repeatAt o k t.bare) hw1 hnd.2 hpl'
        (fun x hx => hd1 ▸ hts' x hx) (fun x hx => hd1 ▸ hN x hx) hsz'
      refine ⟨o', by rw [hstep]; exact h1, h2, h3, h4, h5.trans hd1, hso.trans h6, ?_⟩
      have hstepAx : stepAxis a (o.axes.getD k default) t = t.bare := by
        unfold stepAxis; rw [if_pos hc]
      intro ax' hax'
      rcases h7 ax' hax' with ⟨hn1, hm1⟩ | ⟨t', ht', ax1, hax1m, hn1, he1⟩
      · rw [hax1] at hm1
        rcases List.mem_or_eq_of_mem_set hm1 with h | h
        · by_cases hname : ax'.name = t.name
          · right
            have : ax' = o.axes.getD k default :=
              axis_eq_of_name_eq hw.2.1 h haxm (hname.trans hnm.symm)
            -- then the set overwrote it: ax' is in the new list only if it equals t
            have hin : t.bare ∈ (repeatAt o k t.bare).axes := by rw [hax1]; exact List.mem_set hkl t.bare
            have hm1' : ax' ∈ (repeatAt o k t.bare).axes := by rw [hax1]; exact hm1
            have : ax' = t.bare := axis_eq_of_name_eq hw1.2.1 hm1' hin hname
            exact ⟨t, List.mem_cons_self, _, haxm, hnm, by rw [hstepAx]; exact this⟩
          · left
            refine ⟨?_, h⟩
            simp only [List.map_cons, List.mem_cons, not_or]
            exact ⟨hname, hn1⟩
        · right
          exact ⟨t, List.mem_cons_self, _, haxm, hnm, by rw [hstepAx]; exact h⟩
      · right
        rw [hax1] at hax1m
        rcases List.mem_or_eq_of_mem_set hax1m with h | h
        · exact ⟨t', List.mem_cons_of_mem _ ht', ax1, h, hn1, he1⟩
        · exfalso
          apply hnd.1
          have e : t.name = t'.name := by rw [h] at hn1; exact hn1
          rw [e]
          exact List.mem_map.mpr ⟨t', ht', rfl⟩
    · -- nothing to do for this axis
      have hstep : bcStep a o t = .ok o := by
        simp only [bcStep, hfind, hc, Bool.false_eq_true, if_false]; rfl
      obtain ⟨o', h1, h2, h3, h4, h5, h6, h7⟩ := bcFold_ok a N ts o hw hnd.2 hpl' hts' hN hsz
      refine ⟨o', by rw [hstep]; exact h1, h2, h3, h4, h5, h6, ?_⟩
      have hstepAx : stepAxis a (o.axes.getD k default) t = o.axes.getD k default := by
        unfold stepAxis; rw [if_neg hc]
      intro ax' hax'
      rcases h7 ax' hax' with ⟨hn1, hm1⟩ | ⟨t', ht', ax1, hax1m, hn1, he1⟩
      · by_cases hname : ax'.name = t.name
        · right
          have : ax' = o.axes.getD k default := axis_eq_of_name_eq hw.2.1 hm1 haxm (hname.trans hnm.symm)
          exact ⟨t, List.mem_cons_self, _, haxm, hnm, by rw [hstepAx]; exact this⟩
        · left
          refine ⟨?_, hm1⟩
          simp only [List.map_cons, List.mem_cons, not_or]
          exact ⟨hname, hn1⟩
      · right
        exact ⟨t', List.mem_cons_of_mem _ ht', ax1, hax1m, hn1, he1⟩

/-! ### `broadcast` end to end -/

theorem mem_properDims {α} (a : DimArray α) (x : String) :
    x ∈ properDims a ↔ ∃ ax ∈ a.axes, ax.size ≠ 1 ∧ ax.name = x := by
  simp only [properDims, List.mem_map, List.mem_filter, bne_iff_ne, and_assoc]

theorem broadcast_ok {α} (a : DimArray α) (hw : a.WF) (hpa : PlainAxes a.axes) (target : List Axis)
    (hpt : PlainAxes target) (hnd : (target.map (·.name)).Nodup) (hpn : ∀ t ∈ target, PlainName t.name)
    (hfit : ∀ ax ∈ a.axes, ax.name ∉ target.map (·.name) → ax.size = 1) :
    ∃ r, broadcast a target = .ok r ∧ r.dims = target.map (·.name) ∧
      (∀ (k : Nat) (t : Axis), target[k]? = some t → r.axes[k]? = some (bcastAxis a t)) ∧
      r.WF ∧ r.attrs = a.attrs ∧ r.vkind = a.vkind ∧ SameOn (properDims a) a r := by
  obtain ⟨o, e1, w1, a1, v1, d1, s1, m1, n1⟩ := reshape_plain_ok a hw hpa (target.map (·.name)) hnd
    (fun d hd => by
      obtain ⟨t, ht, rfl⟩ := List.mem_map.mp hd
      exact hpn t ht) hfit
  have hNsub : ∀ x ∈ properDims a, x ∈ a.dims.filter (fun d => (target.map (·.name)).contains d) := by
    intro x hx
    obtain ⟨ax, hax, hsz, rfl⟩ := (mem_properDims a x).mp hx
    rw [List.mem_filter]
    refine ⟨List.mem_map.mpr ⟨ax, hax, rfl⟩, ?_⟩
    simp only [List.contains_iff_mem]
    exact Classical.byContradiction fun hn => hsz (hfit ax hax hn)
  have hNo : ∀ x ∈ properDims a, x ∈ o.dims := by
    intro x hx
    have := (List.mem_filter.mp (hNsub x hx)).2
    rw [d1]; simpa using this
  have hszo : ∀ ax ∈ o.axes, ax.name ∈ properDims a → ax.size ≠ 1 := by
    intro ax hax hn
    obtain ⟨ax2, hax2, hsz2, hname⟩ := (mem_properDims a _).mp hn
    have hin : ax2.name ∈ target.map (·.name) := by
      have := hNo _ hn; rw [d1] at this; rw [hname]; exact this
    have : ax2 = ax := axis_eq_of_name_eq w1.2.1 (m1 ax2 hax2 hin) hax hname
    rw [← this]; exact hsz2
  obtain ⟨r, e2, w2, a2, v2, d2, s2, c2⟩ := bcFold_ok a (properDims a) target.reverse o w1
    (by rw [List.map_reverse]; exact (List.reverse_perm _).nodup_iff.mpr hnd)
    (fun t ht => hpt t (List.mem_reverse.mp ht))
    (fun t ht => by rw [d1]; exact List.mem_map.mpr ⟨t, List.mem_reverse.mp ht, rfl⟩) hNo hszo
  refine ⟨r, ?_, d2.trans d1, ?_, w2, a2.trans a1, v2.trans v1, (s1.mono hNsub).trans s2⟩
  · rw [broadcast_eq, e1]; exact e2
  · intro k t hk
    have hkl : k < target.length := (List.getElem?_eq_some_iff.mp hk).1
    have ht : t ∈ target := List.mem_of_getElem? hk
    have hrl : k < r.axes.length := by
      have : r.dims.length = target.length := by rw [d2, d1]; simp
      rw [dims_length] at this; omega
    have hrn : r.axes[k].name = t.name := by
      have h1 : r.dims[k]? = some r.axes[k].name := by
        simp [DimArray.dims, List.getElem?_eq_getElem hrl]
      rw [d2, d1, List.getElem?_map, hk] at h1
      exact (Option.some.inj h1).symm
    rw [List.getElem?_eq_getElem hrl]
    congr 1
    rcases c2 r.axes[k] (List.getElem_mem hrl) with ⟨hn, _⟩ | ⟨t', ht', ax, hax, hn, he⟩
    · exfalso; apply hn
      rw [hrn, List.map_reverse, List.mem_reverse]
      exact List.mem_map.mpr ⟨t, ht, rfl⟩
    · have ht'' : t' ∈ target := List.mem_reverse.mp ht'
      have hname : t'.name = t.name := by
        rw [← stepAxis_name a ax t' hn, ← he]; exact hrn
      have htt : t' = t := axis_eq_of_name_eq hnd ht'' ht hname
      subst htt
      rw [he]
      unfold bcastAxis stepAxis
      by_cases hin : t'.name ∈ a.dims
      · obtain ⟨hkl2, hfind, hnm⟩ := findName_some a.axes t'.name hin
        have haxa : a.axes.getD ((a.axes.map (·.name)).idxOf t'.name) default ∈ a.axes := by
          rw [axis_getD_eq a _ hkl2]; exact List.getElem_mem hkl2
        generalize a.axes.getD ((a.axes.map (·.name)).idxOf t'.name) default = axa at hfind hnm haxa
        have : axa = ax := axis_eq_of_name_eq w1.2.1
          (m1 axa haxa (by rw [hnm]; exact List.mem_map.mpr ⟨t', ht, rfl⟩)) hax (hnm.trans hn.symm)
        subst this
        have hc : a.dims.contains t'.name = true := by simpa using hin
        rw [hfind, hc]
        simp
      · have hnone : a.axes.find? (·.name == t'.name) = none := (findName_none a.axes t'.name).mpr hin
        have hc : a.dims.contains t'.name = false := by simpa using hin
        have hsz : ax.size = 1 := by
          rcases n1 ax hax with h | h
          · exact absurd (hn ▸ List.mem_map.mpr ⟨ax, h, rfl⟩) hin
          · rw [h]; rfl
        rw [hnone, hc, hsz]
        simp

/-! ### the failure side: a dimension that is not in the target and has more than one position -/

theorem sqFold_error {α} (flat : List String) :
    ∀ (ds : List String) (o : DimArray α), o.WF → ds.Nodup → (∀ d ∈ ds, d ∈ o.dims) →
      (∃ ax ∈ o.axes, ax.name ∈ ds ∧ ax.name ∉ flat ∧ ax.size ≠ 1) →
      ds.foldlM (sqStep flat) o = .error .value
  | [], _, _, _, _, h => by obtain ⟨_, _, h, _⟩ := h; simp at h
  | d :: ds, o, hw, hnd, hsub, hbad => by
    rw [List.nodup_cons] at hnd
    rw [List.foldlM_cons]
    obtain ⟨axb, hb1, hb2, hb3, hb4⟩ := hbad
    by_cases hf : d ∈ flat
    · have hstep : sqStep flat o d = .ok o := by
        have : flat.contains d = true := by simpa using hf
        simp only [sqStep, this, if_true]; rfl
      rw [hstep]
      apply sqFold_error flat ds o hw hnd.2 (fun x hx => hsub x (List.mem_cons_of_mem _ hx))
      refine ⟨axb, hb1, ?_, hb3, hb4⟩
      rcases List.mem_cons.mp hb2 with e | h
      · exact absurd (e ▸ hf) hb3
      · exact h
    · have hdm : d ∈ o.dims := hsub d List.mem_cons_self
      have hk := getElem?_idxOf_of_mem hdm
      have hkl := List.idxOf_lt_length_of_mem hdm
      generalize o.dims.idxOf d = k at hk hkl
      have hkl' : k < o.axes.length := by simpa [DimArray.dims] using hkl
      have hres : Resolves o (.name d) k := ⟨hkl', hk⟩
      have hnm : (o.axes.getD k default).name = d := by
        rw [axis_getD_name o k hkl']
        exact Option.some.inj ((List.getElem?_eq_getElem hkl).symm.trans hk)
      have hfc : flat.contains d = false := by simpa using hf
      by_cases hsz1 : (o.axes.getD k default).size = 1
      · have hstep : sqStep flat o d = .ok (squeezeAt o k) := by
          simp only [sqStep, hfc, Bool.false_eq_true, if_false]
          exact squeeze_some_ok o hw.2.1 (.name d) k hres hsz1
        rw [hstep]
        have hne : axb.name ≠ d := by
          intro e
          have haxm : o.axes.getD k default ∈ o.axes := by
            rw [axis_getD_eq o k hkl']; exact List.getElem_mem hkl'
          have : axb = o.axes.getD k default := axis_eq_of_name_eq hw.2.1 hb1 haxm (e.trans hnm.symm)
          exact hb4 (this ▸ hsz1)
        have he : (squeezeAt o k).axes = o.axes.filter (fun ax => ax.name != d) :=
          eraseIdx_eq_filter_name o.axes k d hw.2.1 hk
        apply sqFold_error flat ds (squeezeAt o k) (squeezeAt_wf o k hw) hnd.2
        · intro x hx
          rw [squeezeAt_dims]
          exact mem_eraseIdx_of_ne hw.2.1 hk (hsub x (List.mem_cons_of_mem _ hx)) (fun e => hnd.1 (e ▸ hx))
        · refine ⟨axb, ?_, ?_, hb3, hb4⟩
          · rw [he, List.mem_filter]; exact ⟨hb1, by simpa using hne⟩
          · rcases List.mem_cons.mp hb2 with e | h
            · exact absurd e hne
            · exact h
      · have hstep : sqStep flat o d = .error .value := by
          simp only [sqStep, hfc, Bool.false_eq_true, if_false]
          exact squeeze_some_error o hw.2.1 (.name d) k hres hsz1
        rw [hstep]; rfl

theorem broadcast_error {α} (a : DimArray α) (hw : a.WF) (hpa : PlainAxes a.axes) (target : List Axis)
    (hnd : (target.map (·.name)).Nodup) (hpn : ∀ t ∈ target, PlainName t.name)
    (hbad : ∃ ax ∈ a.axes, ax.name ∉ target.map (·.name) ∧ ax.size ≠ 1) :
    broadcast a target = .error .value := by
  obtain ⟨axb, hb1, hb2, hb3⟩ := hbad
  have heq : target.map (·.name) ≠ a.dims := by
    intro e
    exact hb2 (e ▸ List.mem_map.mpr ⟨axb, hb1, rfl⟩)
  have h1 : (target.map (·.name) == a.dims) = false := by simpa using heq
  have h2 := (eraseDups_length_eq_iff (target.map (·.name))).mpr hnd
  have hflat : (target.map (·.name)).flatMap splitOnComma = target.map (·.name) :=
    flatMap_self _ _ (fun d hd => by
      obtain ⟨t, ht, rfl⟩ := List.mem_map.mp hd
      exact (hpn t ht).2.2)
  rw [broadcast_eq, reshape_eq a _ h1 h2 hflat (unflattenAll_plain a hpa)]
  rw [sqFold_error _ a.dims a hw hw.2.1 (fun d h => h)
    ⟨axb, hb1, List.mem_map.mpr ⟨axb, hb1, rfl⟩, hb2, hb3⟩]
  rfl

end C10
end DimModel

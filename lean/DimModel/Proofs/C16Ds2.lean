/-
C16 - helper lemmas for the remaining Dataset mirrors (`Lib/DatasetOps.lean` round 5, `Lib/DatasetOps2.lean`,
`Lib/DatasetOps3.lean`): what happens to Dataset-level, variable-level and axis metadata.
-/
import DimModel.Proofs.C16More
import DimModel.Lib.InterpLike
import DimModel.Lib.OnDiskMulti
namespace DimModel.C16
open Lib DSV

/-- a Dataset filled through `__setitem__` (or left as it is) step by step: the Dataset metadata is that of the
start; every new variable's metadata satisfies `PA`; every new axis satisfies `PX` -/
theorem foldlM_setItem_gen {α β : Type} (PA : Attrs → Prop) (PX : Axis → Prop) (f : Ds α → β → Except Err (Ds α))
    (l : List β) (init r : Ds α)
    (hf : ∀ s b s', b ∈ l → f s b = .ok s' →
      s' = s ∨ ∃ k v, setItem s k v = .ok s' ∧ PA v.attrs ∧ ∀ e ∈ v.axes, PX e)
    (h : l.foldlM f init = .ok r) :
    r.attrs = init.attrs ∧ (∀ kv ∈ r.vars, kv ∈ init.vars ∨ PA kv.2.attrs) ∧ (∀ e ∈ r.axes, e ∈ init.axes ∨ PX e) := by
  refine foldlM_inv (fun acc : Ds α => acc.attrs = init.attrs ∧ (∀ kv ∈ acc.vars, kv ∈ init.vars ∨ PA kv.2.attrs) ∧
      (∀ e ∈ acc.axes, e ∈ init.axes ∨ PX e)) f l init r ?_ ⟨rfl, fun _ h => Or.inl h, fun _ h => Or.inl h⟩ h
  intro s b s' hb hs hstep
  rcases hf s b s' hb hstep with rfl | ⟨k, v, hset, hpa, hpx⟩
  · exact hs
  · obtain ⟨e1, e2, _, e4⟩ := setItem_spec s s' k v hset
    refine ⟨e1.trans hs.1, ?_, ?_⟩
    · intro kv hkv
      rcases e4 kv hkv with hin | ⟨_, ha⟩
      · exact hs.2.1 kv hin
      · exact Or.inr (ha ▸ hpa)
    · intro e he
      rcases e2 e he with hin | ⟨hin, _⟩
      · exact hs.2.2 e hin
      · exact Or.inr (hpx e hin)

/-- the fresh-Dataset form: started from `{}` -/
theorem foldlM_setItem_fresh {α β : Type} (PA : Attrs → Prop) (PX : Axis → Prop) (f : Ds α → β → Except Err (Ds α))
    (l : List β) (r : Ds α)
    (hf : ∀ s b s', b ∈ l → f s b = .ok s' →
      s' = s ∨ ∃ k v, setItem s k v = .ok s' ∧ PA v.attrs ∧ ∀ e ∈ v.axes, PX e)
    (h : l.foldlM f {} = .ok r) :
    r.attrs = [] ∧ (∀ kv ∈ r.vars, PA kv.2.attrs) ∧ (∀ e ∈ r.axes, PX e) := by
  obtain ⟨h1, h2, h3⟩ := foldlM_setItem_gen PA PX f l {} r hf h
  refine ⟨h1, fun kv hkv => ?_, fun e he => ?_⟩
  · rcases h2 kv hkv with h0 | h0
    · cases h0
    · exact h0
  · rcases h3 e he with h0 | h0
    · cases h0
    · exact h0

/-- `gather`: every gathered array is the variable `v` of one of the Datasets -/
theorem gather_mem {α : Type} (datasets : List (Ds α)) (v : String) (arrays : List (DimArray α))
    (h : gather datasets v = .ok arrays) : ∀ a ∈ arrays, ∃ ds ∈ datasets, ∃ kv ∈ ds.vars, kv.2 = a := by
  intro a ha
  obtain ⟨ds, hds, hf⟩ := mapM_mem _ datasets arrays h a ha
  refine ⟨ds, hds, ?_⟩
  simp only [Ds.get?] at hf
  cases hfind : ds.vars.find? (·.1 == v) with
  | none => rw [hfind] at hf; cases hf
  | some kv =>
    rw [hfind] at hf
    simp only [Option.map_some, pure, Except.pure, Except.ok.injEq] at hf
    exact ⟨kv, List.mem_of_find?_eq_some hfind, hf⟩

/-- "the axis has no metadata, or the name and metadata of an axis of a variable of one of the Datasets" -/
def FromVarAxis {α : Type} (datasets : List (Ds α)) (e : Axis) : Prop :=
  e.attrs = [] ∨ ∃ ds ∈ datasets, ∃ kv ∈ ds.vars, ∃ y ∈ kv.2.axes, e.name = y.name ∧ e.attrs = y.attrs

/-- the variable loop of `stack_ds` -/
theorem stackLoop_spec {α : Type} [Inhabited α] (nan : α) (name : String) (datasets : List (Ds α)) (keys : List Label)
    (keyKind : Kind) (vars : List String) (r : Ds α)
    (h : vars.foldlM (fun (res : Ds α) v => do
      let arrays ← gather datasets v
      let array ← stack nan arrays (some name) keys keyKind false false
      setItem res v array) {} = .ok r) :
    r.attrs = [] ∧ (∀ kv ∈ r.vars, kv.2.attrs = []) ∧ (∀ e ∈ r.axes, FromVarAxis datasets e) := by
  refine foldlM_setItem_fresh (fun a => a = []) (FromVarAxis datasets) _ vars r ?_ h
  intro s v s' _ hstep
  obtain ⟨arrays, hga, hstep⟩ := bind_ok hstep
  obtain ⟨array, hst, hstep⟩ := bind_ok hstep
  refine Or.inr ⟨v, array, hstep, (stack_spec' nan arrays _ keys keyKind false false array hst).1, ?_⟩
  obtain ⟨nm, rest, hax, hrest⟩ := (stack_spec' nan arrays _ keys keyKind false false array hst).2
  intro e he
  rw [hax] at he
  rcases List.mem_cons.mp he with rfl | he
  · exact Or.inl rfl
  · obtain ⟨a, ha, y, hy, hle⟩ := hrest e he
    obtain ⟨ds, hds, kv, hkv, rfl⟩ := gather_mem datasets v arrays hga a ha
    exact Or.inr ⟨ds, hds, kv, hkv, y, hy, hle.1, hle.2.1⟩

theorem stackDsBody_spec {α : Type} [Inhabited α] (nan : α) (name : String) (datasets : List (Ds α)) (keys : List Label)
    (keyKind : Kind) (r : Ds α) (h : stackDsBody nan name datasets keys keyKind = .ok r) :
    r.attrs = [] ∧ (∀ kv ∈ r.vars, kv.2.attrs = []) ∧ (∀ e ∈ r.axes, FromVarAxis datasets e) := by
  unfold stackDsBody at h
  obtain ⟨variables, _, h⟩ := bind_ok h
  split at h
  · cases h
  · exact stackLoop_spec nan name datasets keys keyKind _ r h

theorem stackDs_spec {α : Type} [Inhabited α] (nan : α) (datasets : List (Ds α)) (axis : Option String) (keys : List Label)
    (keyKind : Kind) (r : Ds α) (h : stackDs nan datasets axis keys keyKind = .ok r) :
    r.attrs = [] ∧ (∀ kv ∈ r.vars, kv.2.attrs = []) ∧ (∀ e ∈ r.axes, FromVarAxis datasets e) := by
  unfold stackDs at h
  obtain ⟨name, _, h⟩ := bind_ok h
  obtain ⟨variables, _, h⟩ := bind_ok h
  split at h
  · cases h
  · exact stackLoop_spec nan name datasets keys keyKind _ r h

theorem concatenateNoCheck_attrs {α : Type} (arrays : List (DimArray α)) (name : String) (r : DimArray α)
    (h : concatenateNoCheck arrays name = .ok r) : r.attrs = [] := by
  unfold concatenateNoCheck at h
  dsimp only at h
  split at h
  · obtain ⟨a0, _, h⟩ := bind_ok h
    obtain ⟨pos, _, h⟩ := bind_ok h
    obtain ⟨arrays', _, h⟩ := bind_ok h
    split at h
    · cases h
    · split at h
      · cases h
      · cases h; rfl
  · obtain ⟨a0, h0, _⟩ := bind_ok h
    cases h0

/-- the (name, metadata) pair of the axis is `(_, [])` or that of an axis of a variable of one of the Datasets -/
theorem concat_axes_from {α : Type} (nan : α) (datasets : List (Ds α)) (v name : String) (arrays : List (DimArray α))
    (array : DimArray α) (hga : gather datasets v = .ok arrays)
    (hc : concatenate nan arrays (.name name) false false = .ok array) : ∀ e ∈ array.axes, FromVarAxis datasets e := by
  obtain ⟨_, a0, rest, pos, h1, _, h3⟩ := concatenate_spec' nan arrays _ false false array hc
  intro e he
  have hm : (e.name, e.attrs) ∈ axisMeta array.axes := mem_axisMeta.mpr ⟨e, he, rfl, rfl⟩
  rw [h3] at hm
  rcases List.mem_or_eq_of_mem_set hm with hm | hm
  · obtain ⟨y, hy, hn, ha⟩ := mem_axisMeta.mp hm
    obtain ⟨ds, hds, kv, hkv, hkv2⟩ := gather_mem datasets v arrays hga a0 (by rw [h1]; exact List.mem_cons_self)
    exact Or.inr ⟨ds, hds, kv, hkv, y, by rw [hkv2]; exact hy, hn.symm, ha.symm⟩
  · exact Or.inl (by simpa using (Prod.mk.inj hm).2)

theorem concatLoop_spec {α : Type} (nan : α) (name : String) (datasets : List (Ds α)) (doAlign : Bool)
    (vars : List String) (r : Ds α)
    (h : vars.foldlM (fun (res : Ds α) v => do
      let arrays ← gather datasets v
      let array ← if doAlign then concatenateNoCheck arrays name else concatenate nan arrays (.name name) false false
      setItem res v array) {} = .ok r) :
    r.attrs = [] ∧ (∀ kv ∈ r.vars, kv.2.attrs = []) ∧ (doAlign = false → ∀ e ∈ r.axes, FromVarAxis datasets e) := by
  have := foldlM_setItem_fresh (fun a => a = []) (fun e => doAlign = false → FromVarAxis datasets e) _ vars r ?_ h
  · exact ⟨this.1, this.2.1, fun hd e he => this.2.2 e he hd⟩
  intro s v s' _ hstep
  obtain ⟨arrays, hga, hstep⟩ := bind_ok hstep
  dsimp only at hstep
  split at hstep
  · rename_i hd
    obtain ⟨array, hst, hstep⟩ := bind_ok hstep
    refine Or.inr ⟨v, array, hstep, concatenateNoCheck_attrs arrays name array hst, ?_⟩
    intro e _ hd'
    rw [hd'] at hd
    cases hd
  · obtain ⟨array, hst, hstep⟩ := bind_ok hstep
    refine Or.inr ⟨v, array, hstep, (concatenate_spec' nan arrays _ false false array hst).1, ?_⟩
    intro e he _
    exact concat_axes_from nan datasets v name arrays array hga hst e he

theorem concatenateDs_spec {α : Type} (nan : α) (datasets : List (Ds α)) (axis : DimKey) (r : Ds α)
    (h : concatenateDs nan datasets axis = .ok r) :
    r.attrs = [] ∧ (∀ kv ∈ r.vars, kv.2.attrs = []) ∧ (∀ e ∈ r.axes, FromVarAxis datasets e) := by
  unfold concatenateDs at h
  obtain ⟨variables, _, h⟩ := bind_ok h
  obtain ⟨name, _, h⟩ := bind_ok h
  split at h
  · cases h
  · have := concatLoop_spec nan name datasets false _ r h
    exact ⟨this.1, this.2.1, this.2.2 rfl⟩

theorem concatenateDsA_spec {α : Type} (nan : α) (datasets : List (Ds α)) (axis : DimKey) (doAlign : Bool) (join : Join)
    (sort : Bool) (r : Ds α) (h : concatenateDsA nan datasets axis doAlign join sort = .ok r) :
    r.attrs = [] ∧ (∀ kv ∈ r.vars, kv.2.attrs = []) ∧ (doAlign = false → ∀ e ∈ r.axes, FromVarAxis datasets e) := by
  unfold concatenateDsA at h
  obtain ⟨variables, _, h⟩ := bind_ok h
  obtain ⟨name, _, h⟩ := bind_ok h
  dsimp only at h
  split at h
  · rename_i hda
    obtain ⟨datasets', hd, h⟩ := bind_ok h
    split at h
    · cases h
    · have hda' : doAlign = true := hda
      subst hda'
      have : r.attrs = [] ∧ (∀ kv ∈ r.vars, kv.2.attrs = []) ∧ (true = false → ∀ e ∈ r.axes, FromVarAxis datasets' e) := by
        refine concatLoop_spec nan name datasets' true ‹List String› r ?_
        simp only [if_true]
        assumption
      exact ⟨this.1, this.2.1, fun hf => by cases hf⟩
  · rename_i hda
    obtain ⟨datasets', hd, h⟩ := bind_ok h
    cases hd
    split at h
    · cases h
    · have hda' : doAlign = false := by simpa using hda
      subst hda'
      refine concatLoop_spec nan name datasets false ‹List String› r ?_
      simp only [Bool.false_eq_true, if_false]
      assumption

theorem stackDsA_spec {α : Type} [Inhabited α] (nan : α) (datasets : List (Ds α)) (axis : Option String)
    (keys : List Label) (keyKind : Kind) (doAlign : Bool) (join : Join) (sort : Bool) (r : Ds α)
    (h : stackDsA nan datasets axis keys keyKind doAlign join sort = .ok r) :
    r.attrs = [] ∧ (∀ kv ∈ r.vars, kv.2.attrs = []) ∧ (doAlign = false → ∀ e ∈ r.axes, FromVarAxis datasets e) := by
  unfold stackDsA at h
  obtain ⟨name, _, h⟩ := bind_ok h
  dsimp only at h
  split at h
  · rename_i hda
    obtain ⟨datasets', hd, h⟩ := bind_ok h
    have := stackDsBody_spec nan name datasets' keys keyKind r h
    exact ⟨this.1, this.2.1, fun hf => by rw [hf] at hda; cases hda⟩
  · obtain ⟨datasets', hd, h⟩ := bind_ok h
    cases hd
    have := stackDsBody_spec nan name datasets keys keyKind r h
    exact ⟨this.1, this.2.1, fun _ => this.2.2⟩

/-- `Dataset._binary_op`: a fresh Dataset; no Dataset metadata, no variable metadata; every axis has no metadata or
the name and metadata of an axis (or grouped-axis member) of a variable of one of the operands -/
theorem binaryOpDs_spec {α : Type} (nan : α) (f : α → α → α) (self r : Ds α) (rhs : Operand α)
    (h : binaryOpDs nan f self rhs = .ok r) :
    r.attrs = [] ∧ (∀ kv ∈ r.vars, kv.2.attrs = []) ∧
    (∀ e ∈ r.axes, e.attrs = [] ∨ ∃ ds, (ds = self ∨ rhs = .ds ds) ∧ ∃ kv ∈ ds.vars, (e.name, e.attrs) ∈ metaAll kv.2.axes) := by
  unfold binaryOpDs at h
  split at h
  · cases h
  · rename_i c
    refine foldlM_setItem_fresh (fun a => a = []) _ _ self.vars r ?_ h
    intro s kv1 s' hkv1 hstep
    obtain ⟨v, hv, hstep⟩ := bind_ok hstep
    obtain ⟨e1, e2⟩ := operationNd_spec f kv1.2 v _ false hv
    refine Or.inr ⟨kv1.1, v, hstep, e1, ?_⟩
    intro e he
    rw [e2] at he
    refine Or.inr ⟨self, Or.inl rfl, kv1, hkv1, ?_⟩
    exact List.mem_flatMap.mpr ⟨e, he, List.mem_cons_self⟩
  · rename_i o
    have key : ∀ (s s' : Ds α) (kv1 : String × DimArray α), kv1 ∈ self.vars →
        o.vars.foldlM (fun (res : Ds α) kv2 =>
          if kv1.1 == kv2.1 then do
            let r ← operation nan f kv1.2 kv2.2
            setItem res kv1.1 r.1
          else pure res) s = .ok s' →
        s'.attrs = s.attrs ∧ (∀ kv ∈ s'.vars, kv ∈ s.vars ∨ kv.2.attrs = []) ∧
        (∀ e ∈ s'.axes, e ∈ s.axes ∨ (e.attrs = [] ∨ ∃ ds, (ds = self ∨ Operand.ds o = .ds ds) ∧
          ∃ kv ∈ ds.vars, (e.name, e.attrs) ∈ metaAll kv.2.axes)) := by
      intro s s' kv1 hkv1 hin
      refine foldlM_setItem_gen (fun a => a = []) _ _ o.vars s s' ?_ hin
      intro t kv2 t' hkv2 hstep
      split at hstep
      · obtain ⟨v, hv, hstep⟩ := bind_ok hstep
        obtain ⟨e1, e2⟩ := operation_spec nan f kv1.2 kv2.2 v hv
        refine Or.inr ⟨kv1.1, v.1, hstep, e1, ?_⟩
        intro e he
        have hm : (e.name, e.attrs) ∈ metaAll v.1.axes := List.mem_flatMap.mpr ⟨e, he, List.mem_cons_self⟩
        rcases e2 _ hm with h0 | h0 | h0
        · exact Or.inl h0
        · exact Or.inr ⟨self, Or.inl rfl, kv1, hkv1, h0⟩
        · exact Or.inr ⟨o, Or.inr rfl, kv2, hkv2, h0⟩
      · cases hstep; exact Or.inl rfl
    have inv := foldlM_inv (fun acc : Ds α => acc.attrs = [] ∧ (∀ kv ∈ acc.vars, kv.2.attrs = []) ∧
        (∀ e ∈ acc.axes, e.attrs = [] ∨ ∃ ds, (ds = self ∨ Operand.ds o = .ds ds) ∧
          ∃ kv ∈ ds.vars, (e.name, e.attrs) ∈ metaAll kv.2.axes)) _ self.vars {} r ?_
        ⟨rfl, fun _ hk => absurd hk List.not_mem_nil, fun _ hk => absurd hk List.not_mem_nil⟩ h
    · exact inv
    · intro s kv1 s' hkv1 hs hstep
      obtain ⟨k1, k2, k3⟩ := key s s' kv1 hkv1 hstep
      refine ⟨k1.trans hs.1, ?_, ?_⟩
      · intro kv hkv
        rcases k2 kv hkv with h0 | h0
        · exact hs.2.1 kv h0
        · exact h0
      · intro e he
        rcases k3 e he with h0 | h0
        · exact hs.2.2 e h0
        · exact h0

/-- `DimArray.<reduction>(axis=...)` as `Dataset(dict)` sees it: the variable's metadata kept, or none (scalar result) -/
theorem reduceVarDs_attrs {α : Type} (red : List α → α) (name : String) (v r : DimArray α)
    (h : reduceVarDs red name v = .ok r) : r.attrs = v.attrs ∨ r.attrs = [] := by
  unfold reduceVarDs at h
  obtain ⟨x, hx, h⟩ := bind_ok h
  split at h
  · cases h; exact Or.inr rfl
  · cases h; exact Or.inl (reduceAxis_spec red v _ _ hx).1

theorem reduceAllVarDs_attrs {α : Type} (red : List α → α) (v r : DimArray α)
    (h : reduceAllVarDs red v = .ok r) : r.attrs = v.attrs ∨ r.attrs = [] := by
  unfold reduceAllVarDs at h
  obtain ⟨x, hx, h⟩ := bind_ok h
  split at h
  · cases h; exact Or.inr rfl
  · cases h; exact Or.inl (reduceAxis_spec red v _ _ hx).1

theorem reduceDs_spec {α : Type} (nan : α) (red : List α → α) (ds r : Ds α) (name : String)
    (h : reduceDs nan red ds name = .ok r) :
    r.attrs = [] ∧ ∀ kv ∈ r.vars, kv.2.attrs = [] ∨ ∃ kv0 ∈ ds.vars, kv.2.attrs = kv0.2.attrs := by
  unfold reduceDs applyAxis at h
  split at h
  · cases h
  · obtain ⟨vars, hvars, h⟩ := bind_ok h
    obtain ⟨h1, h2⟩ := fromVars_spec nan vars r h
    refine ⟨h1, fun kv hkv => ?_⟩
    obtain ⟨kv1, hkv1, ha⟩ := h2 kv hkv
    obtain ⟨kv0, hkv0, hf⟩ := mapM_mem _ ds.vars vars hvars kv1 hkv1
    split at hf
    · obtain ⟨x, hx, hf⟩ := bind_ok hf
      cases hf
      rcases reduceVarDs_attrs red name kv0.2 x hx with h0 | h0
      · exact Or.inr ⟨kv0, hkv0, ha.trans h0⟩
      · exact Or.inl (ha.trans h0)
    · cases hf; exact Or.inr ⟨kv1, hkv0, ha⟩

theorem reduceAllDs_spec {α : Type} (nan : α) (red : List α → α) (ds r : Ds α)
    (h : reduceAllDs nan red ds = .ok r) :
    r.attrs = [] ∧ ∀ kv ∈ r.vars, kv.2.attrs = [] ∨ ∃ kv0 ∈ ds.vars, kv.2.attrs = kv0.2.attrs := by
  unfold reduceAllDs at h
  obtain ⟨vars, hvars, h⟩ := bind_ok h
  obtain ⟨h1, h2⟩ := fromVars_spec nan vars r h
  refine ⟨h1, fun kv hkv => ?_⟩
  obtain ⟨kv1, hkv1, ha⟩ := h2 kv hkv
  obtain ⟨kv0, hkv0, hf⟩ := mapM_mem _ ds.vars vars hvars kv1 hkv1
  obtain ⟨x, hx, hf⟩ := bind_ok hf
  cases hf
  rcases reduceAllVarDs_attrs red kv0.2 x hx with h0 | h0
  · exact Or.inr ⟨kv0, hkv0, ha.trans h0⟩
  · exact Or.inl (ha.trans h0)

theorem copyDs_spec {α : Type} (nan : α) (ds r : Ds α) (h : copyDs nan ds = .ok r) :
    r.attrs = Attrs.update [] ds.attrs ∧ ∀ kv ∈ r.vars, ∃ kv0 ∈ ds.vars, kv.2.attrs = kv0.2.attrs := by
  unfold copyDs at h
  obtain ⟨ds2, h2, h⟩ := bind_ok h
  cases h
  obtain ⟨e1, e2⟩ := fromVars_spec nan ds.vars ds2 h2
  exact ⟨by simp only [e1], e2⟩

theorem reindexLikeDs_spec {α : Type} (nan : α) (ds r : Ds α) (tmpl : List Axis) (h : reindexLikeDs nan ds tmpl = .ok r) :
    r.attrs = ds.attrs ∧ ∀ kv ∈ r.vars, ∃ kv0 ∈ ds.vars, kv.2.attrs = kv0.2.attrs := by
  unfold reindexLikeDs at h
  refine foldlM_inv (fun acc : Ds α => acc.attrs = ds.attrs ∧ ∀ kv ∈ acc.vars, ∃ kv0 ∈ ds.vars, kv.2.attrs = kv0.2.attrs)
    _ ds.axes ds r ?_ ⟨rfl, fun kv hkv => ⟨kv, hkv, rfl⟩⟩ h
  intro s ax s' _ hs hstep
  split at hstep
  · obtain ⟨t1, _, _, _, t4⟩ := reindexAxisDs_spec s s' _ _ _ _ _ hstep
    refine ⟨t1.trans hs.1, fun kv hkv => ?_⟩
    obtain ⟨kv1, hkv1, ha⟩ := t4 kv hkv
    obtain ⟨kv0, hkv0, hb⟩ := hs.2 kv1 hkv1
    exact ⟨kv0, hkv0, ha.trans hb⟩
  · cases hstep; exact hs

/-! ### wave 5: `reindexAxisDsM`, and the axis halves of the `Dataset(dict)`-based mirrors -/

/-- `Dataset.reindex_axis` in full (`raise_error`, `method`): as `reindexAxisDs_spec` - the two extra branches
(IndexError; values left alone under a `method`) do not touch any metadata -/
theorem reindexAxisDsM_spec {α} (ds r : Ds α) (name : String) (newL : List Label) (nk : Kind) (fill : α) (fk : Kind)
    (raiseErr : Bool) (method : Option Side)
    (h : reindexAxisDsM ds name newL nk fill fk raiseErr method = .ok r) :
    r.attrs = ds.attrs ∧
    (∀ e ∈ r.axes, e.name = name → ∃ ax, ds.axes.find? (·.name == name) = some ax ∧ e.attrs = ax.attrs) ∧
    (∃ e ∈ r.axes, e.name = name) ∧
    (∀ e ∈ r.axes, e.name ∈ ds.dims → (e.name, e.attrs) ∈ axisMeta ds.axes) ∧
    (∀ kv ∈ r.vars, ∃ kv0 ∈ ds.vars, kv.2.attrs = kv0.2.attrs) := by
  unfold reindexAxisDsM at h
  split at h
  · cases h
  · rename_i ax hfind
    obtain ⟨hmem, hnm⟩ := find?_name_some' hfind
    simp only at h
    split at h
    · cases h
    · obtain ⟨taken, ht, h⟩ := bind_ok h
      obtain ⟨t1, t2, ⟨e0, he0, hn0⟩, t3, t4⟩ := takeAxisPosDs_spec ds taken name _ ht
      split at h
      · cases h; exact ⟨t1, t2, ⟨e0, he0, hn0⟩, t3, t4⟩
      · split at h
        · cases h
        · cases h
          refine ⟨t1, ?_, ?_, ?_, ?_⟩
          · intro e he hn
            obtain ⟨a, ha, rfl⟩ := List.mem_map.mp he
            by_cases hax : (a.name == name) = true
            · simp only [hax, if_true]
              exact ⟨ax, hfind, rfl⟩
            · simp only [hax, Bool.false_eq_true, if_false] at hn ⊢
              exact t2 a ha hn
          · refine ⟨_, List.mem_map.mpr ⟨e0, he0, rfl⟩, ?_⟩
            have : (e0.name == name) = true := by simpa using hn0
            simp only [this, if_true]
          · intro e he hd
            obtain ⟨a, ha, rfl⟩ := List.mem_map.mp he
            by_cases hax : (a.name == name) = true
            · simp only [hax, if_true]
              exact mem_axisMeta.mpr ⟨ax, hmem, hnm, rfl⟩
            · simp only [hax, Bool.false_eq_true, if_false] at hd ⊢
              exact t3 a ha hd
          · intro kv hkv
            obtain ⟨kv1, hkv1, rfl⟩ := List.mem_map.mp hkv
            obtain ⟨kv0, hkv0, ha⟩ := t4 kv1 hkv1
            refine ⟨kv0, hkv0, ?_⟩
            by_cases hp : kv1.2.dims.idxOf name < kv1.2.dims.length
            · simp only [hp, if_true]; exact ha
            · simp only [hp, if_false]; exact ha

/-- "the axis carries the name and metadata of an axis of a variable of the Dataset" -/
def VarAxisOf {α : Type} (ds : Ds α) (e : Axis) : Prop :=
  ∃ kv ∈ ds.vars, (e.name, e.attrs) ∈ axisMeta kv.2.axes

theorem mem_axisMeta_self {l : List Axis} {e : Axis} (h : e ∈ l) : (e.name, e.attrs) ∈ axisMeta l :=
  mem_axisMeta.mpr ⟨e, h, rfl, rfl⟩

/-- `-ds`: every axis of the result IS an axis of a variable of the input -/
theorem unaryOpDs_axes {α : Type} (u : α → α) (ds r : Ds α) (h : unaryOpDs u ds = .ok r) :
    ∀ e ∈ r.axes, ∃ kv ∈ ds.vars, e ∈ kv.2.axes := by
  unfold unaryOpDs at h
  refine (foldlM_setItem_fresh (fun _ => True) (fun e => ∃ kv ∈ ds.vars, e ∈ kv.2.axes) _ ds.vars r ?_ h).2.2
  intro s b s' hb hstep
  exact Or.inr ⟨b.1, unaryOp u b.2, hstep, trivial, fun e he => ⟨b, hb, he⟩⟩

/-- `3 - ds`: every axis of the result IS an axis of a variable of the input -/
theorem rbinaryOpDs_axes {α : Type} (f : α → α → α) (ds r : Ds α) (lhs : Operand α) (h : rbinaryOpDs f ds lhs = .ok r) :
    ∀ e ∈ r.axes, ∃ kv ∈ ds.vars, e ∈ kv.2.axes := by
  unfold rbinaryOpDs at h
  split at h
  · refine (foldlM_setItem_fresh (fun _ => True) (fun e => ∃ kv ∈ ds.vars, e ∈ kv.2.axes) _ ds.vars r ?_ h).2.2
    intro s b s' hb hstep
    obtain ⟨v, hv, hstep⟩ := bind_ok hstep
    refine Or.inr ⟨b.1, v, hstep, trivial, fun e he => ⟨b, hb, ?_⟩⟩
    rw [(operationNd_spec f b.2 v _ true hv).2] at he
    exact he
  · cases h

/-- `Dataset(dict)`: every axis of the new Dataset carries the name and metadata of an axis of one of the values -/
theorem fromVars_axes {α} (nan : α) (vars : List (String × DimArray α)) (r : Ds α) (h : fromVars nan vars = .ok r) :
    ∀ e ∈ r.axes, ∃ kv0 ∈ vars, (e.name, e.attrs) ∈ axisMeta kv0.2.axes := by
  unfold fromVars at h
  obtain ⟨al, hal, h⟩ := bind_ok h
  have hP := align_spec nan _ _ _ _ _ _ hal
  refine foldlM_inv (fun acc : Ds α => ∀ e ∈ acc.axes, ∃ kv0 ∈ vars, (e.name, e.attrs) ∈ axisMeta kv0.2.axes)
    _ _ _ _ ?_ (fun e he => by cases he) h
  intro acc x acc' hx hacc hstep
  obtain ⟨_, e2, _, _⟩ := setItem_spec _ _ _ _ hstep
  intro e he
  rcases e2 e he with hin | ⟨hin, _⟩
  · exact hacc e hin
  · have hx2 : x.2 ∈ al := (List.of_mem_zip hx).2
    obtain ⟨v0, hv0, hsame⟩ := Pointwise.mem hP x.2 hx2
    obtain ⟨kv0, hkv0, rfl⟩ := List.mem_map.mp hv0
    exact ⟨kv0, hkv0, hsame.2.1 ▸ mem_axisMeta_self hin⟩

theorem copyDs_axes {α : Type} (nan : α) (ds r : Ds α) (h : copyDs nan ds = .ok r) : ∀ e ∈ r.axes, VarAxisOf ds e := by
  unfold copyDs at h
  obtain ⟨ds2, h2, h⟩ := bind_ok h
  cases h
  exact fromVars_axes nan ds.vars ds2 h2

theorem reduceVarDs_axes {α : Type} (red : List α → α) (name : String) (v r : DimArray α)
    (h : reduceVarDs red name v = .ok r) : ∀ x ∈ r.axes, x ∈ v.axes := by
  unfold reduceVarDs at h
  obtain ⟨x, hx, h⟩ := bind_ok h
  split at h
  · cases h; intro x hx; cases hx
  · cases h; exact (reduceAxis_spec red v _ _ hx).2

theorem reduceAllVarDs_axes {α : Type} (red : List α → α) (v r : DimArray α)
    (h : reduceAllVarDs red v = .ok r) : ∀ x ∈ r.axes, x ∈ v.axes := by
  unfold reduceAllVarDs at h
  obtain ⟨x, hx, h⟩ := bind_ok h
  split at h
  · cases h; intro x hx; cases hx
  · cases h; exact (reduceAxis_spec red v _ _ hx).2

theorem reduceDs_axes {α : Type} (nan : α) (red : List α → α) (ds r : Ds α) (name : String)
    (h : reduceDs nan red ds name = .ok r) : ∀ e ∈ r.axes, VarAxisOf ds e := by
  unfold reduceDs applyAxis at h
  split at h
  · cases h
  · obtain ⟨vars, hvars, h⟩ := bind_ok h
    intro e he
    obtain ⟨kv1, hkv1, hm⟩ := fromVars_axes nan vars r h e he
    obtain ⟨kv0, hkv0, hf⟩ := mapM_mem _ ds.vars vars hvars kv1 hkv1
    obtain ⟨y, hy, hyn, hya⟩ := mem_axisMeta.mp hm
    split at hf
    · obtain ⟨x, hx, hf⟩ := bind_ok hf
      cases hf
      exact ⟨kv0, hkv0, mem_axisMeta.mpr ⟨y, reduceVarDs_axes red name kv0.2 x hx y hy, hyn, hya⟩⟩
    · cases hf; exact ⟨kv1, hkv0, hm⟩

theorem reduceAllDs_axes {α : Type} (nan : α) (red : List α → α) (ds r : Ds α)
    (h : reduceAllDs nan red ds = .ok r) : ∀ e ∈ r.axes, VarAxisOf ds e := by
  unfold reduceAllDs at h
  obtain ⟨vars, hvars, h⟩ := bind_ok h
  intro e he
  obtain ⟨kv1, hkv1, hm⟩ := fromVars_axes nan vars r h e he
  obtain ⟨kv0, hkv0, hf⟩ := mapM_mem _ ds.vars vars hvars kv1 hkv1
  obtain ⟨y, hy, hyn, hya⟩ := mem_axisMeta.mp hm
  obtain ⟨x, hx, hf⟩ := bind_ok hf
  cases hf
  exact ⟨kv0, hkv0, mem_axisMeta.mpr ⟨y, reduceAllVarDs_axes red kv0.2 x hx y hy, hyn, hya⟩⟩

/-! ### wave 5: interpolation on Datasets / like a template, the on-disk reads -/

theorem interpLike_spec {α} [Inhabited α] (lin : α → α → Rat → α) (a r : DimArray α) (tmpl : List Axis) (left right : α)
    (h : interpLike lin a tmpl left right = .ok r) : r.attrs = a.attrs := by
  unfold interpLike at h
  refine foldlM_inv (fun acc : DimArray α => acc.attrs = a.attrs) _ a.axes a r ?_ rfl h
  intro s ax s' _ hs hstep
  unfold interpLikeStep at hstep
  split at hstep
  · exact (interpAxis_spec lin s s' _ _ _ _ _ hstep).1.trans hs
  · cases hstep; exact hs

theorem interpSortedDs_spec {α} [Inhabited α] (lin : α → α → Rat → α) (o r : Ds α) (name : String) (newL : List Label)
    (nk : Kind) (left right : α) (h : interpSortedDs lin o name newL nk left right = .ok r) :
    r.attrs = o.attrs ∧ (∀ kv ∈ r.vars, ∃ kv0 ∈ o.vars, kv.2.attrs = kv0.2.attrs) ∧
    (∀ e ∈ r.axes, e.name = name → e.attrs = []) ∧ (∃ e ∈ r.axes, e.name = name) := by
  unfold interpSortedDs at h
  split at h
  · cases h
  · split at h
    · split at h
      · cases h
      · obtain ⟨out, hout, h⟩ := bind_ok h
        cases h
        obtain ⟨t1, t2, ⟨e0, he0, hn0⟩, t4⟩ := reduceAxisKeep_spec o out name _ _ rfl hout
        refine ⟨t1, ?_, fun e he hn => by rw [t2 e he hn], ⟨e0, he0, by rw [hn0]⟩⟩
        intro kv hkv
        obtain ⟨kv1, hkv1, rfl⟩ := List.mem_map.mp hkv
        obtain ⟨kv0, hkv0, ha⟩ := t4 kv1 hkv1
        refine ⟨kv0, hkv0, ?_⟩
        by_cases hp : kv1.2.dims.contains name = true
        · simp only [hp, if_true]; exact ha
        · simp only [hp, if_false]; exact ha
    · cases h

theorem interpAxisDs_spec {α} [Inhabited α] (lin : α → α → Rat → α) (ds r : Ds α) (name : String) (newL : List Label)
    (nk : Kind) (left right : α) (h : interpAxisDs lin ds name newL nk left right = .ok r) :
    r.attrs = ds.attrs ∧ (∀ kv ∈ r.vars, ∃ kv0 ∈ ds.vars, kv.2.attrs = kv0.2.attrs) ∧
    (∀ e ∈ r.axes, e.name = name → e.attrs = []) ∧ (∃ e ∈ r.axes, e.name = name) := by
  unfold interpAxisDs at h
  split at h
  · cases h
  · dsimp only at h
    split at h
    · obtain ⟨o, ho, h⟩ := bind_ok h
      cases ho
      exact interpSortedDs_spec lin ds r name newL nk left right h
    · obtain ⟨o, ho, h⟩ := bind_ok h
      obtain ⟨s1, s2, s3, s4⟩ := interpSortedDs_spec lin o r name newL nk left right h
      obtain ⟨t1, _, _, _, t4⟩ := sortAxisDs_spec ds o name ho
      refine ⟨s1.trans t1, fun kv hkv => ?_, s3, s4⟩
      obtain ⟨kv1, hkv1, ha⟩ := s2 kv hkv
      obtain ⟨kv0, hkv0, hb⟩ := t4 kv1 hkv1
      exact ⟨kv0, hkv0, ha.trans hb⟩

theorem interpLikeDs_spec {α} [Inhabited α] (lin : α → α → Rat → α) (ds r : Ds α) (tmpl : List Axis) (left right : α)
    (h : interpLikeDs lin ds tmpl left right = .ok r) :
    r.attrs = ds.attrs ∧ ∀ kv ∈ r.vars, ∃ kv0 ∈ ds.vars, kv.2.attrs = kv0.2.attrs := by
  unfold interpLikeDs at h
  refine foldlM_inv (fun acc : Ds α => acc.attrs = ds.attrs ∧ ∀ kv ∈ acc.vars, ∃ kv0 ∈ ds.vars, kv.2.attrs = kv0.2.attrs)
    _ ds.axes ds r ?_ ⟨rfl, fun kv hkv => ⟨kv, hkv, rfl⟩⟩ h
  intro s ax s' _ hs hstep
  unfold interpLikeDsStep at hstep
  split at hstep
  · obtain ⟨t1, t4, _, _⟩ := interpAxisDs_spec lin s s' _ _ _ _ _ hstep
    refine ⟨t1.trans hs.1, fun kv hkv => ?_⟩
    obtain ⟨kv1, hkv1, ha⟩ := t4 kv hkv
    obtain ⟨kv0, hkv0, hb⟩ := hs.2 kv1 hkv1
    exact ⟨kv0, hkv0, ha.trans hb⟩
  · cases hstep; exact hs

open OnDisk in
/-- `DatasetOnDisk.read`: the file's metadata; every variable read carries the metadata of a variable of the file -/
theorem readFile_spec {α} (d : α) (f : DiskDs α) (names : Option (List String)) (idx : Option FileIndex) (r : Ds α)
    (h : readFile d f names idx = .ok r) :
    r.attrs = f.attrs ∧ ∀ kv ∈ r.vars, ∃ kv0 ∈ f.vars, kv.2.attrs = kv0.2.attrs := by
  unfold readFile at h
  obtain ⟨pix, _, h⟩ := bind_ok h
  obtain ⟨data, hdata, h⟩ := bind_ok h
  cases h
  refine ⟨rfl, ?_⟩
  have := foldlM_setItem_gen (fun A => ∃ kv0 ∈ f.vars, A = kv0.2.attrs) (fun _ => True) _ _ _ data ?_ hdata
  · intro kv hkv
    rcases this.2.1 kv hkv with h0 | h0
    · cases h0
    · exact h0
  · intro s nm s' _ hstep
    split at hstep
    · cases hstep
    · rename_i kv hfind
      exact Or.inr ⟨nm, _, hstep, ⟨kv, List.mem_of_find?_eq_some hfind, rfl⟩, fun _ _ => trivial⟩

open OnDisk in
/-- `_read_multinc`: the joined Dataset is fresh - no Dataset metadata, no variable metadata -/
theorem readMulti_spec {α} [Inhabited α] (d nan : α) (files : List (DiskDs α)) (names : Option (List String))
    (idx : Option FileIndex) (o : MultiOpts) (defaultKeys : List Label) (r : Ds α)
    (h : readMulti d nan files names idx o defaultKeys = .ok r) : r.attrs = [] ∧ ∀ kv ∈ r.vars, kv.2.attrs = [] := by
  unfold readMulti at h
  obtain ⟨⟨datasets, st⟩, _, h⟩ := bind_ok h
  have hS : ∀ ax ks kk, stackDsA nan datasets ax ks kk o.align o.join o.sort = .ok r →
      r.attrs = [] ∧ ∀ kv ∈ r.vars, kv.2.attrs = [] := fun ax ks kk h =>
    have hh := stackDsA_spec nan datasets ax ks kk _ _ _ r h
    ⟨hh.1, hh.2.1⟩
  have hC1 : ∀ a ks kk, (concatenateDsA nan datasets (.name a) o.align o.join o.sort >>= fun ds =>
      reindexAxisDs ds a ks kk nan .f) = .ok r → r.attrs = [] ∧ ∀ kv ∈ r.vars, kv.2.attrs = [] := by
    intro a ks kk h
    obtain ⟨ds, hds, h⟩ := bind_ok h
    obtain ⟨c1, c2, _⟩ := concatenateDsA_spec nan datasets _ _ _ _ ds hds
    obtain ⟨t1, _, _, _, t4⟩ := reindexAxisDs_spec ds r _ _ _ _ _ h
    refine ⟨t1.trans c1, fun kv hkv => ?_⟩
    obtain ⟨kv0, hkv0, ha⟩ := t4 kv hkv
    exact ha.trans (c2 kv0 hkv0)
  have hC2 : ∀ a, (concatenateDsA nan datasets (.name a) o.align o.join o.sort >>= fun ds => pure ds) = .ok r →
      r.attrs = [] ∧ ∀ kv ∈ r.vars, kv.2.attrs = [] := by
    intro a h
    obtain ⟨ds, hds, h⟩ := bind_ok h
    obtain ⟨c1, c2, _⟩ := concatenateDsA_spec nan datasets _ _ _ _ ds hds
    cases h; exact ⟨c1, c2⟩
  unfold joinRead at h
  dsimp only at h
  repeat' split at h
  all_goals first
    | (cases h; done)
    | exact hS _ _ _ h
    | exact hC1 _ _ _ h
    | exact hC2 _ h

end DimModel.C16

/-
C08 - helper lemmas for the end-to-end theorems about `Lib.percentile` / `Lib.quantile` (statements a reader audits
are at the end of Props/C08.lean).
-/
import DimModel.Lib.Stats
import DimModel.Proofs.C08
import DimModel.Proofs.C12Join
import DimModel.Props.C11
namespace DimModel
namespace PctLemmas
open Lib AxisLemmas C12J

variable {α : Type}

/-! ### list helpers -/

/-- dropping the axes that carry the name of the axis at `pos` drops exactly that axis (names are distinct) -/
theorem filter_name_eq_eraseIdx : ∀ (l : List Axis) (pos : Nat) (h : pos < l.length), (l.map (·.name)).Nodup →
    l.filter (fun ax => some ax.name != some (l[pos]).name) = l.eraseIdx pos
  | [], _, h, _ => absurd h (Nat.not_lt_zero _)
  | x :: l, 0, _, hn => by
    have hx : ∀ y ∈ l, y.name ≠ x.name := by
      intro y hy e
      have := (List.nodup_cons.mp (show (x.name :: l.map (·.name)).Nodup from hn)).1
      exact this (e ▸ List.mem_map.mpr ⟨y, hy, rfl⟩)
    simp only [List.getElem_cons_zero, List.eraseIdx_zero, List.tail_cons]
    rw [List.filter_cons_of_neg (by simp)]
    apply List.filter_eq_self.mpr
    intro y hy
    simpa using hx y hy
  | x :: l, pos + 1, h, hn => by
    have hn' := List.nodup_cons.mp (show (x.name :: l.map (·.name)).Nodup from hn)
    have hlt : pos < l.length := by simpa using h
    have hx : x.name ≠ (l[pos]).name := by
      intro e
      exact hn'.1 (e ▸ List.mem_map.mpr ⟨l[pos], List.getElem_mem hlt, rfl⟩)
    simp only [List.getElem_cons_succ, List.eraseIdx_cons_succ]
    rw [List.filter_cons_of_pos (by simpa using hx)]
    rw [filter_name_eq_eraseIdx l pos hlt hn'.2]

theorem map_eraseIdx {β γ : Type} (f : β → γ) : ∀ (l : List β) (pos : Nat),
    (l.eraseIdx pos).map f = (l.map f).eraseIdx pos
  | [], _ => rfl
  | _ :: _, 0 => rfl
  | x :: l, pos + 1 => by simp only [List.eraseIdx_cons_succ, List.map_cons, map_eraseIdx f l pos]

/-! ### stacking arrays that share their axes -/

/-- `stack` of `n ≥ 1` arrays over the very same (plain, distinctly named) axes, under a name none of them carries and
with one key per array: the new dimension first, labelled by the keys, then the shared axes; the values are the
inputs' values one after the other along the new dimension -/
theorem stack_same_axes [Inhabited α] (nan : α) (axes : List Axis) (v0 : NDArr α) (vt : List (NDArr α))
    (vk : Kind) (name : String) (keys : List Label) (kk : Kind)
    (hshape : ∀ v ∈ v0 :: vt, v.shape = axes.map (·.size))
    (hn : (axes.map (·.name)).Nodup) (hplain : ∀ ax ∈ axes, ax.members = [])
    (hname : name ∉ axes.map (·.name)) (hkeys : keys.length = (v0 :: vt).length) :
    stack nan ((v0 :: vt).map fun v => ({ axes := axes, vals := v, vkind := vk, attrs := [] } : DimArray α))
        (some name) keys kk false false =
      .ok { axes := { name := name, labels := keys, kind := kk } :: axes, vals := NDArr.stackNew (v0 :: vt),
            vkind := vk, attrs := [] } := by
  let mk : NDArr α → DimArray α := fun v => { axes := axes, vals := v, vkind := vk, attrs := [] }
  have hpl : ∀ a ∈ mk v0 :: vt.map mk, Plain a := by
    intro a ha
    rw [← List.map_cons] at ha
    obtain ⟨v, hv, rfl⟩ := List.mem_map.mp ha
    exact ⟨hshape v hv, hn, hplain⟩
  have hperm : ∀ a ∈ vt.map mk, a.dims.Perm (mk v0).dims := by
    intro a ha
    obtain ⟨v, _, rfl⟩ := List.mem_map.mp ha
    exact List.Perm.refl _
  have hlab : ∀ a ∈ vt.map mk, ∀ s ∈ (mk v0).dims, (a.axisNamed s).labels = ((mk v0).axisNamed s).labels := by
    intro a ha s _
    obtain ⟨v, _, rfl⟩ := List.mem_map.mp ha
    rfl
  have hst := stackable_all (mk v0) (vt.map mk) hpl hperm hlab
  have hre := reorderLikeFirst_ok (mk v0) (vt.map mk) hperm hn
  have hsame : (vt.map mk).map (reorderTo (mk v0)) = vt.map mk := by
    rw [List.map_map]
    apply List.map_congr_left
    intro v _
    simp only [Function.comp_apply, reorderTo]
    exact if_pos rfl
  rw [hsame] at hre hst
  have hd : getDims ((mk v0 :: vt.map mk).map (·.axes)) = (mk v0).dims := getDims_of_perm (mk v0) (vt.map mk) hn hperm
  have hchk : checkStackAxis (some name) (getDims ((mk v0 :: vt.map mk).map (·.axes))) = .ok name := by
    rw [hd]
    have : (mk v0).dims.contains name = false := by
      simpa [DimArray.dims] using hname
    simp only [checkStackAxis, this, Bool.false_eq_true, if_false]
  have h := stack_eq_of_stackable nan (mk v0 :: vt.map mk) (mk v0 :: vt.map mk) (some name) keys kk false false name
    (mk v0) (vt.map mk) hchk rfl hre hn hst (by simpa using hkeys)
  rw [List.map_cons]
  rw [h]
  simp only [stackResult]
  congr 2
  rw [← List.map_cons, List.map_map]
  congr 1
  exact List.map_id' _

/-! ### `percentile` once the axis is resolved to a position -/

/-- the block of reduced cells of one percentile (what `np.percentile(values, q, axis=pos)` returns) -/
def pctBlock (redq : Rat → List α → α) (o : DimArray α) (pos : Nat) (q : Rat) : NDArr α :=
  { shape := o.vals.shape.eraseIdx pos, get := fun j => redq q (fibre o pos j) }

theorem any_out_of_range_false (qs : List Rat) (h : ∀ q ∈ qs, 0 ≤ q ∧ q ≤ 100) :
    qs.any (fun q => decide (q < 0) || decide (q > 100)) = false := by
  rw [List.any_eq_false]
  intro q hq
  have := h q hq
  have h1 : ¬ q < 0 := Rat.not_lt.mpr this.1
  have h2 : ¬ q > 100 := Rat.not_lt.mpr this.2
  simp [h1, h2]

theorem eraseIdx_isEmpty_false {β : Type} (l : List β) (pos : Nat) (h1 : pos < l.length) (h2 : l.length ≠ 1) :
    (l.eraseIdx pos).isEmpty = false := by
  have : (l.eraseIdx pos).length = l.length - 1 := List.length_eraseIdx_of_lt h1
  cases h : l.eraseIdx pos with
  | nil => rw [h] at this; simp at this; omega
  | cons _ _ => rfl

/-- the remaining axes announce the shape of a block -/
theorem subaxes_shape (o : DimArray α) (pos : Nat) (hs : o.vals.shape = o.axes.map (·.size)) :
    (o.axes.eraseIdx pos).map (·.size) = o.vals.shape.eraseIdx pos := by
  rw [hs, map_eraseIdx]

section
variable [Inhabited α] (nan : α) (redq : Rat → List α → α)

/-- scalar percentile, rank ≥ 2 after the resolution of the axis -/
theorem percentile_scalar_pos (a o : DimArray α) (ax : AxisArg) (pos : Nat) (q : Rat) (newaxis : Option String)
    (hd : dealWithAxis a ax = .ok (o, some pos)) (hpos : pos < o.axes.length)
    (hs : o.vals.shape = o.axes.map (·.size)) (hn : o.dims.Nodup) (hrank : o.ndim ≠ 1)
    (hq : 0 ≤ q ∧ q ≤ 100) (hne : 0 < o.vals.shape.getD pos 0) :
    percentile nan redq a (.scalar q) ax newaxis =
      .ok (.inr { axes := o.axes.eraseIdx pos, vals := pctBlock redq o pos q, vkind := .f, attrs := o.attrs }) := by
  have hany := any_out_of_range_false [q] (by intro x hx; simp at hx; subst hx; exact hq)
  have hext : (o.vals.shape.getD pos 0 == 0) = false := by rw [beq_eq_false_iff_ne]; omega
  have hlen : o.vals.shape.length = o.axes.length := by rw [hs, List.length_map]
  have hemp : (o.vals.shape.eraseIdx pos).isEmpty = false :=
    eraseIdx_isEmpty_false _ pos (hlen ▸ hpos) (by rw [hlen]; exact hrank)
  have hnm : o.axes.getD pos default = o.axes[pos] := by
    rw [List.getD_eq_getElem?_getD, List.getElem?_eq_getElem hpos]; rfl
  have hfil := filter_name_eq_eraseIdx o.axes pos hpos hn
  have hsub : ((o.axes.eraseIdx pos).map (·.size) != o.vals.shape.eraseIdx pos) = false := by
    rw [subaxes_shape o pos hs]; simp
  unfold percentile
  simp only [hd, bind, Except.bind, pure, Except.pure, PctArg.qs, hany, Bool.false_eq_true, if_false, hext,
    Option.map_some, hnm, hfil, hemp, hsub]
  rfl

/-- scalar percentile of a 1-D array (after the resolution of the axis): a scalar -/
theorem percentile_scalar_rank1 (a o : DimArray α) (ax : AxisArg) (pos : Nat) (q : Rat) (newaxis : Option String)
    (hd : dealWithAxis a ax = .ok (o, some pos))
    (hshape : o.vals.shape.length = 1)
    (hq : 0 ≤ q ∧ q ≤ 100) (hne : 0 < o.vals.shape.getD pos 0) :
    percentile nan redq a (.scalar q) ax newaxis = .ok (.inl (redq q (fibre o pos []))) := by
  have hany := any_out_of_range_false [q] (by intro x hx; simp at hx; subst hx; exact hq)
  have hext : (o.vals.shape.getD pos 0 == 0) = false := by rw [beq_eq_false_iff_ne]; omega
  have hemp : (o.vals.shape.eraseIdx pos).isEmpty = true := by
    match hsh : o.vals.shape, hshape with
    | [n], _ =>
      rw [hsh] at hne
      cases pos with
      | zero => rfl
      | succ p => simp at hne
  unfold percentile
  simp only [hd, bind, Except.bind, pure, Except.pure, PctArg.qs, hany, Bool.false_eq_true, if_false, hext,
    hemp, if_true]

/-- a list of percentiles (after the resolution of the axis) -/
theorem percentile_many_pos (a o : DimArray α) (ax : AxisArg) (pos : Nat) (q0 : Rat) (qt : List Rat) (kind : Kind)
    (newaxis : Option String) (name : String)
    (hd : dealWithAxis a ax = .ok (o, some pos)) (hpos : pos < o.axes.length)
    (hs : o.vals.shape = o.axes.map (·.size)) (hn : o.dims.Nodup)
    (hplain : ∀ ax ∈ o.axes.eraseIdx pos, ax.members = [])
    (hq : ∀ q ∈ q0 :: qt, 0 ≤ q ∧ q ≤ 100) (hne : 0 < o.vals.shape.getD pos 0)
    (hname : name = newaxis.getD ((o.axes.getD pos default).name ++ "_percentile"))
    (hfresh : name ∉ (o.axes.eraseIdx pos).map (·.name)) :
    percentile nan redq a (.many (q0 :: qt) kind) ax newaxis =
      .ok (.inr { axes := { name := name, labels := (q0 :: qt).map Label.num, kind := kind } :: o.axes.eraseIdx pos,
                  vals := NDArr.stackNew ((q0 :: qt).map (pctBlock redq o pos)), vkind := .f, attrs := o.attrs }) := by
  have hany := any_out_of_range_false (q0 :: qt) hq
  have hext : (o.vals.shape.getD pos 0 == 0) = false := by rw [beq_eq_false_iff_ne]; omega
  have hnm : o.axes.getD pos default = o.axes[pos] := by
    rw [List.getD_eq_getElem?_getD, List.getElem?_eq_getElem hpos]; rfl
  have hfil := filter_name_eq_eraseIdx o.axes pos hpos hn
  have hsub : ((o.axes.eraseIdx pos).map (·.size) != o.vals.shape.eraseIdx pos) = false := by
    rw [subaxes_shape o pos hs]; simp
  have hnd : ((o.axes.eraseIdx pos).map (·.name)).Nodup := by
    rw [dims_eraseIdx]; exact hn.sublist (List.eraseIdx_sublist ..)
  have hstack := stack_same_axes nan (o.axes.eraseIdx pos) (pctBlock redq o pos q0) (qt.map (pctBlock redq o pos)) .f
    name ((q0 :: qt).map Label.num) kind
    (by
      intro v hv
      rw [← List.map_cons] at hv
      obtain ⟨q, _, rfl⟩ := List.mem_map.mp hv
      exact (subaxes_shape o pos hs).symm)
    hnd hplain hfresh (by simp)
  rw [← List.map_cons, List.map_map] at hstack
  unfold percentile
  simp only [hd, bind, Except.bind, pure, Except.pure, PctArg.qs, hany, Bool.false_eq_true, if_false, hext,
    Option.map_some, hnm, hfil, hsub, Bool.and_false]
  have h2 := hstack
  simp only [Function.comp_def, pctBlock] at h2
  cases newaxis with
  | none =>
    simp only [Option.getD_none, hnm] at hname
    subst hname
    simp only [h2, pctBlock]
  | some n =>
    simp only [Option.getD_some] at hname
    subst hname
    simp only [h2, pctBlock]

end

/-! ### a tuple of dimensions: what `flatten(names, insert=0)` hands to `percentile` -/

/-- for a well-formed array with plain axes and a non-empty list of distinct names of its dimensions, whose joined name
is not the name of a remaining dimension: `_deal_with_axis` resolves the tuple to `o = flatten(names, insert=0)` and
position 0; `o` lists the grouped axis first, then the remaining axes of `a` in their order; it is consistent, its names
are distinct, the remaining axes are plain and the grouped dimension has the product of the members' sizes -/
theorem flatten0_facts (a : DimArray α) (names : List String)
    (hwf : a.WF) (hne : names ≠ []) (hnd : names.Nodup) (hsub : ∀ d ∈ names, d ∈ a.dims)
    (hplain : ∀ ax ∈ a.axes, ax.members = [])
    (hjoin : ",".intercalate names ∉ a.dims.filter (fun d => !names.contains d)) :
    ∃ o, flatten a names (some 0) = .ok o ∧
      dealWithAxis a (.many (names.map DimKey.name)) = .ok (o, some 0) ∧
      o.axes = multiAxis (names.map a.axisOf) :: (a.dims.filter (fun d => !names.contains d)).map a.axisOf ∧
      (o.axes.getD 0 default).name = ",".intercalate names ∧
      o.vals.shape = o.axes.map (·.size) ∧ o.dims.Nodup ∧
      (∀ ax ∈ o.axes.eraseIdx 0, ax.members = []) ∧
      o.vals.shape.getD 0 0 = prod (names.map (fun d => (a.axisOf d).size)) ∧
      (o.axes.eraseIdx 0).map (·.name) = a.dims.filter (fun d => !names.contains d) ∧
      o.attrs = a.attrs := by
  have hpl : ∀ d ∈ names, (a.axisOf d).members = [] := fun d hd => hplain _ (C11.axisOf_mem a d (hsub d hd))
  obtain ⟨o, hf, haxes, hdims, hgname, _, hgsize, hshape, hattrs, _, _⟩ :=
    flatten_spec a names (some 0) hwf hne hnd hsub hpl
  simp only [Option.getD_some, Nat.zero_min, List.take_zero, List.drop_zero, List.map_nil, List.nil_append,
    List.singleton_append] at haxes hdims
  have hall : ∀ s ∈ names, a.dims.contains s = true := fun s hs => by simpa using hsub s hs
  have hrestmem : ∀ d ∈ a.dims.filter (fun d => !names.contains d), d ∈ a.dims := fun d hd => (List.mem_filter.mp hd).1
  have hnames : ((a.dims.filter (fun d => !names.contains d)).map a.axisOf).map (·.name) =
      a.dims.filter (fun d => !names.contains d) := by
    rw [List.map_map]
    conv => rhs; rw [← List.map_id (a.dims.filter (fun d => !names.contains d))]
    apply List.map_congr_left
    intro d hd
    exact C11.axisOf_name a d (hrestmem d hd)
  refine ⟨o, hf, dealWithAxis_many a o names hall hf, haxes, ?_, hshape, ?_, ?_, ?_, ?_, hattrs⟩
  · rw [haxes]; exact hgname
  · rw [hdims]
    exact List.nodup_cons.mpr ⟨hjoin, hwf.2.1.sublist List.filter_sublist⟩
  · intro ax hax
    rw [haxes] at hax
    simp only [List.eraseIdx_zero, List.tail_cons] at hax
    obtain ⟨d, hd, rfl⟩ := List.mem_map.mp hax
    exact hplain _ (C11.axisOf_mem a d (hrestmem d hd))
  · rw [hshape, haxes]
    simp only [List.map_cons, List.getD_cons_zero]
    exact hgsize
  · rw [haxes]
    simp only [List.eraseIdx_zero, List.tail_cons]
    exact hnames

end PctLemmas
end DimModel

/-
C16 - helper lemmas for the mirror functions added after the kept / dropped table was written
(`Lib/Reduce`, `Lib/DatasetOps2`, `Lib/DatasetOps3`, `Lib/Missing2`).
-/
import DimModel.Lib.Reduce
import DimModel.Lib.DatasetOps2
import DimModel.Lib.DatasetOps3
import DimModel.Lib.Missing2
import DimModel.Proofs.C16
import DimModel.Proofs.C16Ds
namespace DimModel.C16
open Lib

/-- a successful `reduceX` is the `reduceAxis` of the totalised fibre function -/
theorem reduceX_ok (f : List XVal → Except Err XVal) (a : DimArray XVal) (ax : AxisArg)
    (r : Sum XVal (DimArray XVal)) (h : reduceX f a ax = .ok r) : reduceAxis (totalize f) a ax = .ok r := by
  unfold reduceX at h
  simp only [bind, Except.bind] at h
  split at h
  · cases h
  · split at h
    · cases h
    · exact h

/-- a successful `sortAxisKey` is a positional take along one axis -/
theorem sortAxisKey_ok {α : Type} (a r : DimArray α) (axis : DimKey) (key : Label → Except Err Label)
    (h : sortAxisKey a axis key = .ok r) : ∃ pos ps, r = takeAxisPos a pos ps := by
  unfold sortAxisKey at h
  simp only [bind, Except.bind] at h
  split at h
  · cases h
  · split at h
    · cases h
    · split at h
      · cases h
      · simp only [pure, Except.pure, Except.ok.injEq] at h
        exact ⟨_, _, h.symm⟩

/-- a successful `takeAxisInts` is a positional take along one axis -/
theorem takeAxisInts_ok {α : Type} (a r : DimArray α) (k : DimKey) (is : List Int) (mode : TakeMode)
    (h : takeAxisInts a k is mode = .ok r) : ∃ pos ps, r = takeAxisPos a pos ps := by
  unfold takeAxisInts at h
  simp only [bind, Except.bind] at h
  split at h
  · cases h
  · split at h
    · cases h
    · split at h
      · cases h
      · simp only [pure, Except.pure, Except.ok.injEq] at h
        exact ⟨_, _, h.symm⟩

open DSV in
/-- a Dataset filled key by key through `__setitem__` with values without metadata: the Dataset metadata is that
of the start, every new variable has none -/
theorem foldlM_setItem_noattrs {α : Type} (g : String × DimArray α → Except Err (DimArray α))
    (hg : ∀ kv v, g kv = .ok v → v.attrs = []) :
    ∀ (l : List (String × DimArray α)) (init r : Ds α),
      l.foldlM (fun (res : Ds α) kv => do let v ← g kv; setItem res kv.1 v) init = .ok r →
      r.attrs = init.attrs ∧ ∀ kv ∈ r.vars, kv ∈ init.vars ∨ kv.2.attrs = []
  | [], init, r, h => by
    simp only [List.foldlM_nil, pure, Except.pure, Except.ok.injEq] at h
    subst h
    exact ⟨rfl, fun kv hkv => Or.inl hkv⟩
  | x :: l, init, r, h => by
    simp only [List.foldlM_cons, bind, Except.bind] at h
    cases hv : g x with
    | error e => rw [hv] at h; cases h
    | ok v =>
      rw [hv] at h
      simp only at h
      cases hs : setItem init x.1 v with
      | error e => rw [hs] at h; cases h
      | ok mid =>
        rw [hs] at h
        simp only at h
        obtain ⟨h1, h2⟩ := foldlM_setItem_noattrs g hg l mid r h
        have hsp := C16.setItem_spec init mid x.1 v hs
        refine ⟨by rw [h1, hsp.1], ?_⟩
        intro kv hkv
        rcases h2 kv hkv with hm | hm
        · rcases hsp.2.2.2 kv hm with h0 | ⟨_, h0⟩
          · exact Or.inl h0
          · exact Or.inr (by rw [h0, hg x v hv])
        · exact Or.inr hm

end DimModel.C16

/-
C04 - `reshape` / `align_dims` on the operands of a binary operation: the target lists all the dimensions of the
operand plus new ones; the result has the target dimensions, the operand's axes by name, a `None` singleton on
every new dimension, and the same element at every name-addressed coordinate.
-/
import DimModel.Proofs.C04String
import DimModel.Proofs.C06
import DimModel.Props.C10
namespace DimModel
open Lib

/-! ### lists addressed by key -/

theorem map_insertIdx_c04 {β γ : Type} (f : β → γ) (a : β) :
    ∀ (l : List β) (i : Nat), (l.insertIdx i a).map f = (l.map f).insertIdx i (f a)
  | l, 0 => by simp only [List.insertIdx_zero, List.map_cons]
  | [], i + 1 => by simp only [List.insertIdx_succ_nil, List.map_nil]
  | x :: l, i + 1 => by
    simp only [List.insertIdx_succ_cons, List.map_cons, map_insertIdx_c04 f a l i]

/-- inserting a (key, value) pair at the same position of two lists does not move the value of another key -/
theorem getD_idxOf_insertIdx_ne {β : Type} (k0 d : String) (v0 z : β) (hne : d ≠ k0) :
    ∀ (p : Nat) (ks : List String) (vs : List β),
      (vs.insertIdx p v0).getD ((ks.insertIdx p k0).idxOf d) z = vs.getD (ks.idxOf d) z
  | 0, ks, vs => by
    have hb : (k0 == d) = false := by simpa using (Ne.symm hne)
    simp only [List.insertIdx_zero, List.idxOf_cons, hb, cond_false, List.getD_cons_succ]
  | p + 1, [], vs => by
    cases vs with
    | nil => simp
    | cons v vs => simp
  | p + 1, k :: ks, vs => by
    by_cases hk : k = d
    · subst hk
      cases vs with
      | nil => simp
      | cons v vs => simp
    · have hb : (k == d) = false := by simpa using hk
      cases vs with
      | nil => simp
      | cons v vs =>
        simp only [List.insertIdx_succ_cons, List.idxOf_cons, hb, cond_false, List.getD_cons_succ]
        exact getD_idxOf_insertIdx_ne k0 d v0 z hne p ks vs

/-- ... and the inserted key finds the inserted value -/
theorem getD_idxOf_insertIdx_self {β : Type} (k0 : String) (v0 z : β) :
    ∀ (p : Nat) (ks : List String) (vs : List β), k0 ∉ ks → p ≤ ks.length → p ≤ vs.length →
      (vs.insertIdx p v0).getD ((ks.insertIdx p k0).idxOf k0) z = v0
  | 0, ks, vs, _, _, _ => by simp
  | p + 1, [], _, _, h, _ => by simp at h
  | p + 1, _ :: _, [], _, _, h => by simp at h
  | p + 1, k :: ks, v :: vs, hk, h1, h2 => by
    have hne : k ≠ k0 := fun h => hk (by simp [h])
    have hb : (k == k0) = false := by simpa using hne
    simp only [List.insertIdx_succ_cons, List.idxOf_cons, hb, cond_false, List.getD_cons_succ]
    exact getD_idxOf_insertIdx_self k0 v0 z p ks vs (fun h => hk (by simp [h])) (by simpa using h1)
      (by simpa using h2)

/-- a list of values is its own table over duplicate-free keys -/
theorem map_getD_idxOf {β : Type} (ks : List String) (hn : ks.Nodup) (vs : List β)
    (hl : vs.length = ks.length) (z : β) : ks.map (fun d => vs.getD (ks.idxOf d) z) = vs := by
  apply List.ext_getElem
  · simp [hl]
  · intro i h1 h2
    have hi : i < ks.length := by simpa using h1
    simp only [List.getElem_map, idxOf_name_eq ks hn i hi]
    simp [List.getD_eq_getElem?_getD, h2]

theorem getD_map_idxOf_c04 {β : Type} (ks : List String) (g : String → β) (d : String) (hd : d ∈ ks) (z : β) :
    (ks.map g).getD (ks.idxOf d) z = g d := by
  have hidx : ks.idxOf d < ks.length := List.idxOf_lt_length_of_mem hd
  rw [List.getD_eq_getElem?_getD, List.getElem?_map, List.getElem?_eq_getElem hidx, List.getElem_idxOf hidx]
  rfl

theorem eraseDups_of_nodup : ∀ (l : List String), l.Nodup → l.eraseDups = l
  | [], _ => by simp
  | a :: l, h => by
    simp only [List.nodup_cons] at h
    have hf : l.filter (fun b => !b == a) = l := by
      rw [List.filter_eq_self]
      intro b hb
      have : b ≠ a := fun e => h.1 (e ▸ hb)
      simpa using this
    rw [List.eraseDups_cons, hf, eraseDups_of_nodup l h.2]

theorem eraseDups_nat_of_nodup : ∀ (l : List Nat), l.Nodup → l.eraseDups = l
  | [], _ => by simp
  | a :: l, h => by
    simp only [List.nodup_cons] at h
    have hf : l.filter (fun b => !b == a) = l := by
      rw [List.filter_eq_self]
      intro b hb
      have : b ≠ a := fun e => h.1 (e ▸ hb)
      simpa using this
    rw [List.eraseDups_cons, hf, eraseDups_nat_of_nodup l h.2]

/-- a fold whose every step returns its state returns the initial state -/
theorem exFoldlM_id_of {ε β γ : Type} (f : γ → β → Except ε γ) : ∀ (l : List β) (s : γ),
    (∀ x ∈ l, ∀ s, f s x = .ok s) → l.foldlM f s = .ok s
  | [], s, _ => rfl
  | a :: l, s, h => by
    rw [List.foldlM_cons, h a (by simp) s]
    exact exFoldlM_id_of f l s (fun x hx => h x (by simp [hx]))

/-! ### axes and sizes by dimension name -/

/-- the axis of `z` on dimension `d` -/
def axisOf {α} (z : DimArray α) (d : String) : Axis := z.axes.getD (z.dims.idxOf d) default
/-- the extent of the values of `z` along dimension `d` -/
def sizeOf {α} (z : DimArray α) (d : String) : Nat := z.vals.shape.getD (z.dims.idxOf d) 0
/-- the placeholder axis `newaxis` inserts -/
def noneAx (d : String) : Axis := { name := d, labels := [Label.none], kind := .O }

/-- `y` is `x` with its dimensions reordered and `None` singleton dimensions added -/
structure ExtBy {α} (x y : DimArray α) : Prop where
  old : ∀ d ∈ x.dims, d ∈ y.dims ∧ axisOf y d = axisOf x d ∧ sizeOf y d = sizeOf x d
  new : ∀ d ∈ y.dims, d ∉ x.dims → axisOf y d = noneAx d ∧ sizeOf y d = 1
  at_eq : ∀ c, y.at c = x.at c
  rank : y.vals.shape.length = y.axes.length
  vkind : y.vkind = x.vkind

theorem ExtBy.refl {α} (x : DimArray α) (h : x.vals.shape.length = x.axes.length) : ExtBy x x :=
  ⟨fun _ hd => ⟨hd, rfl, rfl⟩, fun _ hd hn => absurd hd hn, fun _ => rfl, h, rfl⟩

theorem ExtBy.trans {α} {x y z : DimArray α} (h1 : ExtBy x y) (h2 : ExtBy y z) : ExtBy x z := by
  refine ⟨?_, ?_, fun c => (h2.at_eq c).trans (h1.at_eq c), h2.rank, h2.vkind.trans h1.vkind⟩
  · intro d hd
    obtain ⟨a1, a2, a3⟩ := h1.old d hd
    obtain ⟨b1, b2, b3⟩ := h2.old d a1
    exact ⟨b1, b2.trans a2, b3.trans a3⟩
  · intro d hd hn
    by_cases hy : d ∈ y.dims
    · obtain ⟨b1, b2, b3⟩ := h2.old d hy
      obtain ⟨a1, a2⟩ := h1.new d hy hn
      exact ⟨b2.trans a1, b3.trans a2⟩
    · exact h2.new d hd hy

/-! ### one `newaxis` -/

/-- the result of `newaxis(d, pos=i)` -/
def insNone {α} (x : DimArray α) (d : String) (i : Nat) : DimArray α :=
  { axes := x.axes.insertIdx i (noneAx d), vals := x.vals.insertDim i, vkind := x.vkind, attrs := x.attrs }

theorem newaxis_ok {α} (x : DimArray α) (d : String) (i : Nat) (hd : d ∉ x.dims) (hi : i ≤ x.axes.length) :
    newaxis x d (i : Int) none = .ok (insNone x d i) := by
  unfold newaxis insNone
  have h1 : x.dims.contains d = false := by simpa using hd
  have h2 : ¬ ((i : Int) < 0) := by omega
  have h3 : (decide ((i : Int) < 0) || decide ((i : Int) > (x.ndim : Int))) = false := by
    have : ¬ ((i : Int) > (x.axes.length : Int)) := by omega
    simp [DimArray.ndim, this]
  have h4 : ¬ ((i : Int) > (x.ndim : Int)) := by simp only [DimArray.ndim]; omega
  simp only [h1, h2, h4, decide_false, Bool.or_self, Bool.false_eq_true, if_false, Int.toNat_natCast, pure, Except.pure, noneAx]

theorem newaxis_extBy {α} (x : DimArray α) (d : String) (i : Nat) (hd : d ∉ x.dims) (hi : i ≤ x.axes.length)
    (hr : x.vals.shape.length = x.axes.length) :
    ExtBy x (insNone x d i) := by
  have hdims : (insNone x d i).dims = x.dims.insertIdx i d := by
    simp only [insNone, DimArray.dims, map_insertIdx_c04, noneAx]
  have hil : i ≤ x.dims.length := by simpa [DimArray.dims] using hi
  refine ⟨?_, ?_, ?_, ?_, rfl⟩
  · intro d' hd'
    have hne : d' ≠ d := fun e => hd (e ▸ hd')
    refine ⟨?_, ?_, ?_⟩
    · rw [hdims]; exact (List.mem_insertIdx hil).mpr (Or.inr hd')
    · unfold axisOf; rw [hdims]
      exact getD_idxOf_insertIdx_ne d d' (noneAx d) default hne i x.dims x.axes
    · unfold sizeOf; rw [hdims]
      exact getD_idxOf_insertIdx_ne d d' 1 0 hne i x.dims x.vals.shape
  · intro d' hd' hn
    rw [hdims] at hd'
    have : d' = d := by
      rcases (List.mem_insertIdx hil).mp hd' with h | h
      · exact h
      · exact absurd h hn
    subst this
    refine ⟨?_, ?_⟩
    · unfold axisOf; rw [hdims]
      exact getD_idxOf_insertIdx_self d' (noneAx d') default i x.dims x.axes hd hil hi
    · unfold sizeOf; rw [hdims]
      exact getD_idxOf_insertIdx_self d' 1 0 i x.dims x.vals.shape hd hil (hr ▸ hi)
  · intro c
    exact newaxis_at x d i hi c
  · simp only [insNone, NDArr.insertDim, List.length_insertIdx_of_le_length hi, List.length_insertIdx_of_le_length (hr ▸ hi), hr]

/-! ### the fold of `newaxis` over the target dimensions -/

theorem insertIdx_append_length {β : Type} (x : β) : ∀ (pre l : List β),
    (pre ++ l).insertIdx pre.length x = pre ++ x :: l
  | [], l => by simp
  | a :: pre, l => by
    simp only [List.cons_append, List.length_cons, List.insertIdx_succ_cons, insertIdx_append_length x pre l]

/-- one step of the fold -/
def naStep {α} (o : DimArray α) (di : String × Nat) : Except Err (DimArray α) :=
  match di with
  | (d, i) => if o.dims.contains d then pure o else newaxis o d (i : Int) none

/-- every target dimension the array lacks is inserted, as a `None` singleton, at its target position -/
theorem newaxisFold {α} (S : List String) : ∀ (rest pre : List String) (x : DimArray α),
    x.dims = pre ++ rest.filter (fun d => S.contains d) → (pre ++ rest).Nodup →
    x.vals.shape.length = x.axes.length →
    ∃ y, (rest.zipIdx pre.length).foldlM naStep x = .ok y ∧ y.dims = pre ++ rest ∧ ExtBy x y
  | [], pre, x, hx, _, hr => by
    refine ⟨x, rfl, ?_, ExtBy.refl x hr⟩
    simpa using hx
  | d :: rest, pre, x, hx, hnd, hr => by
    rw [List.zipIdx_cons, List.foldlM_cons]
    have hnd' : (pre ++ [d] ++ rest).Nodup := by simpa [List.append_assoc] using hnd
    have hlen : (pre ++ [d]).length = pre.length + 1 := by simp
    by_cases hS : S.contains d = true
    · have hx' : x.dims = pre ++ [d] ++ rest.filter (fun d => S.contains d) := by
        rw [hx, List.filter_cons, if_pos hS]; simp
      have hc : x.dims.contains d = true := by
        rw [hx']; simp
      obtain ⟨y, hy, hyd, hext⟩ := newaxisFold S rest (pre ++ [d]) x hx' hnd' hr
      rw [hlen] at hy
      refine ⟨y, ?_, by simpa [List.append_assoc] using hyd, hext⟩
      simp only [naStep, hc, if_true, pure, Except.pure, bind, Except.bind]
      exact hy
    · have hx0 : x.dims = pre ++ rest.filter (fun d => S.contains d) := by
        rw [hx, List.filter_cons, if_neg hS]
      have hdn : d ∉ x.dims := by
        rw [hx0]
        obtain ⟨_, h2, h3⟩ := List.nodup_append.mp hnd
        intro hm
        rcases List.mem_append.mp hm with h | h
        · exact h3 d h d (by simp) rfl
        · exact (List.nodup_cons.mp h2).1 (List.mem_filter.mp h).1
      have hc : x.dims.contains d = false := by simpa using hdn
      have hil : pre.length ≤ x.axes.length := by
        have := congrArg List.length hx0
        simp only [DimArray.dims, List.length_map, List.length_append] at this
        omega
      have hx' : (insNone x d pre.length).dims = pre ++ [d] ++ rest.filter (fun d => S.contains d) := by
        simp only [insNone, DimArray.dims, map_insertIdx_c04, noneAx]
        have := hx0
        simp only [DimArray.dims] at this
        rw [this, insertIdx_append_length]
        simp
      have hext1 := newaxis_extBy x d pre.length hdn hil hr
      obtain ⟨y, hy, hyd, hext⟩ := newaxisFold S rest (pre ++ [d]) (insNone x d pre.length) hx' hnd' hext1.rank
      rw [hlen] at hy
      refine ⟨y, ?_, by simpa [List.append_assoc] using hyd, hext1.trans hext⟩
      simp only [naStep, hc, Bool.false_eq_true, if_false, newaxis_ok x d pre.length hdn hil, bind, Except.bind]
      exact hy

/-! ### `transpose` to a list of names -/

theorem axesPositions_names_ok {α} (o : DimArray α) : ∀ (T : List String), (∀ d ∈ T, d ∈ o.dims) →
    axesPositions o (T.map DimKey.name) = .ok (T.map (fun s => ((o.dims.idxOf s : Nat) : Int)))
  | [], _ => rfl
  | d :: T, h => by
    have ih := axesPositions_names_ok o T (fun x hx => h x (by simp [hx]))
    unfold axesPositions at ih ⊢
    have hd : o.dims.idxOf d < o.dims.length := List.idxOf_lt_length_of_mem (h d (by simp))
    rw [List.map_cons, List.mapM_cons, ih]
    simp only [hd, if_true, bind, Except.bind, pure, Except.pure, List.map_cons]

theorem normPerm_ok (n : Nat) (l : List Nat) (hl : l.length = n) (hb : ∀ k ∈ l, k < n) (hn : l.Nodup) :
    normPerm n (l.map (fun (k : Nat) => (k : Int))) = .ok l := by
  have hm : ∀ (l : List Nat), (∀ k ∈ l, k < n) →
      (l.map (fun (k : Nat) => (k : Int))).mapM (fun (i : Int) =>
        let j : Int := if i < 0 then i + (n : Int) else i
        if j < 0 || j ≥ (n : Int) then (.error .value : Except Err Nat) else .ok j.toNat) = .ok l := by
    intro l
    induction l with
    | nil => intro _; rfl
    | cons k l ih =>
      intro hk
      rw [List.map_cons, List.mapM_cons, ih (fun k' hk' => hk k' (List.mem_cons_of_mem _ hk'))]
      have hkn : k < n := hk k List.mem_cons_self
      have h1 : ¬ ((k : Int) < 0) := by omega
      have h2 : ¬ ((k : Int) ≥ (n : Int)) := by omega
      simp [h1, h2, bind, Except.bind, pure, Except.pure]
  unfold normPerm
  have h0 : ((l.map (fun (k : Nat) => (k : Int))).length != n) = false := by simp [hl]
  simp only [h0, Bool.false_eq_true, if_false, bind, Except.bind]
  rw [hm l hb]
  simp [eraseDups_nat_of_nodup l hn, pure, Except.pure]

/-- transposing to a permutation of the dimension names -/
theorem transpose_names_ok {α} (o : DimArray α) (T : List String) (hne : T ≠ []) (hT : T.Nodup)
    (hn : o.dims.Nodup) (hmem : ∀ d, d ∈ T ↔ d ∈ o.dims) :
    transpose o (some (T.map DimKey.name)) = .ok (transposeBy o (T.map (fun s => o.dims.idxOf s))) := by
  have hperm : T.Perm o.dims := (List.perm_ext_iff_of_nodup hT hn).mpr hmem
  have hlen : T.length = o.axes.length := by
    have := hperm.length_eq
    simpa [DimArray.dims] using this
  unfold transpose
  have he : (T.map DimKey.name).isEmpty = false := by
    cases T with
    | nil => exact absurd rfl hne
    | cons s t => rfl
  simp only [he, bind, Except.bind, pure, Except.pure, Bool.and_false, Bool.false_eq_true, if_false]
  rw [axesPositions_names_ok o T (fun d hd => (hmem d).mp hd)]
  simp only
  have e : T.map (fun s => ((o.dims.idxOf s : Nat) : Int)) =
      (T.map (fun s => o.dims.idxOf s)).map (fun (k : Nat) => (k : Int)) := by
    rw [List.map_map]; rfl
  rw [e, normPerm_ok o.ndim (T.map (fun s => o.dims.idxOf s)) (by simp [DimArray.ndim, hlen])]
  · intro k hk
    obtain ⟨s, hs, rfl⟩ := List.mem_map.mp hk
    have := List.idxOf_lt_length_of_mem ((hmem s).mp hs)
    simpa [DimArray.dims, DimArray.ndim] using this
  · rw [List.Nodup, List.pairwise_map]
    refine List.Pairwise.imp_of_mem ?_ hT
    intro x y hx hy hxy heq
    apply hxy
    have e1 := List.getElem_idxOf (List.idxOf_lt_length_of_mem ((hmem x).mp hx))
    have e2 := List.getElem_idxOf (List.idxOf_lt_length_of_mem ((hmem y).mp hy))
    rw [← e1, ← e2]
    simp only [heq]

theorem transposeBy_names_dims {α} (o : DimArray α) (T : List String) (h : ∀ d ∈ T, d ∈ o.dims) :
    (transposeBy o (T.map (fun s => o.dims.idxOf s))).dims = T := by
  simp only [transposeBy, DimArray.dims, List.map_map]
  conv => rhs; rw [← List.map_id T]
  apply List.map_congr_left
  intro s hs
  have hlt := List.idxOf_lt_length_of_mem (h s hs)
  have h2 := List.getElem_idxOf hlt
  simp only [DimArray.dims, List.length_map] at hlt
  simp only [Function.comp, id, List.getD_eq_getElem?_getD, List.getElem?_eq_getElem hlt, Option.getD_some]
  simp only [DimArray.dims, List.getElem_map] at h2
  exact h2

theorem transposeBy_extBy {α} (o : DimArray α) (T : List String) (hT : T.Nodup)
    (hn : o.dims.Nodup) (hmem : ∀ d, d ∈ T ↔ d ∈ o.dims) (hr : o.vals.shape.length = o.axes.length) :
    ExtBy o (transposeBy o (T.map (fun s => o.dims.idxOf s))) := by
  have hperm : T.Perm o.dims := (List.perm_ext_iff_of_nodup hT hn).mpr hmem
  have hlen : T.length = o.axes.length := by
    have := hperm.length_eq
    simpa [DimArray.dims] using this
  have hdims := transposeBy_names_dims o T (fun d hd => (hmem d).mp hd)
  have hp : IsPerm (T.map (fun s => o.dims.idxOf s)) o.axes.length := by
    refine ⟨by simp [hlen], ?_, ?_⟩
    · rw [List.Nodup, List.pairwise_map]
      refine List.Pairwise.imp_of_mem ?_ hT
      intro x y hx hy hxy heq
      apply hxy
      have e1 := List.getElem_idxOf (List.idxOf_lt_length_of_mem ((hmem x).mp hx))
      have e2 := List.getElem_idxOf (List.idxOf_lt_length_of_mem ((hmem y).mp hy))
      rw [← e1, ← e2]
      simp only [heq]
    · intro k hk
      obtain ⟨s, hs, rfl⟩ := List.mem_map.mp hk
      have := List.idxOf_lt_length_of_mem ((hmem s).mp hs)
      simpa [DimArray.dims] using this
  refine ⟨?_, ?_, fun c => transposeBy_at o _ hp hr c, ?_, rfl⟩
  · intro d hd
    have hdT : d ∈ T := (hmem d).mpr hd
    refine ⟨by rw [hdims]; exact hdT, ?_, ?_⟩
    · unfold axisOf
      rw [hdims]
      simp only [transposeBy, List.map_map]
      exact getD_map_idxOf_c04 T _ d hdT default
    · unfold sizeOf
      rw [hdims]
      simp only [transposeBy, NDArr.transpose, List.map_map]
      exact getD_map_idxOf_c04 T _ d hdT 0
  · intro d hd hnot
    rw [hdims] at hd
    exact absurd ((hmem d).mp hd) hnot
  · simp only [transposeBy, NDArr.transpose, List.length_map]

/-! ### `reshape` towards a list of dimensions that contains the array's own -/

theorem unflattenAll_plain {α} (o : DimArray α) (hm : ∀ ax ∈ o.axes, ax.members = []) : unflattenAll o = o := by
  unfold unflattenAll
  cases hnd : o.ndim with
  | zero => rfl
  | succ n =>
    unfold unflattenAll.go
    have : (List.range o.ndim).find? (fun i => (o.axes.getD i default).isMulti) = none := by
      rw [List.find?_eq_none]
      intro i hi
      have hi' : i < o.axes.length := by simpa [DimArray.ndim] using hi
      have : o.axes.getD i default = o.axes[i] := by simp [List.getD_eq_getElem?_getD, hi']
      rw [this]
      simp [Axis.isMulti, hm _ (List.getElem_mem hi')]
    rw [this]

theorem flatMap_splitOnComma (D : List String) (h : ∀ d ∈ D, ',' ∉ d.toList) : D.flatMap splitOnComma = D := by
  induction D with
  | nil => rfl
  | cons d D ih =>
    rw [List.flatMap_cons, splitOnComma_no_comma d (h d (by simp)), ih (fun x hx => h x (by simp [hx]))]
    rfl

theorem ex_bind_ok {ε β γ : Type} (a : β) (f : β → Except ε γ) : (Except.ok a >>= f) = f a := rfl

/-- the end of `reshape`: new singleton dimensions, grouping, final check -/
def reshapeTail2 {α} (o : DimArray α) (newdims flat : List String) : Except Err (DimArray α) := do
  let o ← flat.zipIdx.foldlM (fun (o : DimArray α) (d, i) =>
    if o.dims.contains d then pure o else newaxis o d (i : Int) none) o
  let o ← newdims.zipIdx.foldlM (fun (o : DimArray α) (d, i) =>
    if d.contains ',' then flatten o (splitOnComma d) (some i) else pure o) o
  if o.dims != newdims then .error .value else pure o

/-- the tail of `reshape` once the early exits are passed -/
def reshapeTail {α} (o : DimArray α) (newdims flat : List String) : Except Err (DimArray α) := do
  let o ← o.dims.foldlM (fun (o : DimArray α) d => if flat.contains d then pure o else squeeze o (some (.name d))) o
  let o ← transpose o (some ((flat.filter (fun d => o.dims.contains d)).map DimKey.name))
  reshapeTail2 o newdims flat

theorem reshape_eq {α} (a : DimArray α) (newdims : List String) :
    reshape a newdims =
      if newdims == a.dims then pure a else
      if newdims.eraseDups.length != newdims.length then .error .assertion else
      if (newdims.flatMap splitOnComma).eraseDups.length != (newdims.flatMap splitOnComma).length then .error .assertion else
      reshapeTail (unflattenAll a) newdims (newdims.flatMap splitOnComma) := rfl

/-- RESHAPE TO MORE DIMENSIONS.  Towards a duplicate-free list `D` of comma-free names that contains all the
dimensions of `o`: the result lists `D`, keeps `o`'s axes (by name), carries a `None` singleton on every other
dimension, and holds the same element at every name-addressed coordinate -/
theorem reshape_expand {α} (o : DimArray α) (D : List String)
    (hn : o.dims.Nodup) (hD : D.Nodup) (hsub : ∀ d ∈ o.dims, d ∈ D)
    (hplain : ∀ d ∈ D, ',' ∉ d.toList) (hm : ∀ ax ∈ o.axes, ax.members = [])
    (hr : o.vals.shape.length = o.axes.length) :
    ∃ r, reshape o D = .ok r ∧ r.dims = D ∧ ExtBy o r := by
  rw [reshape_eq]
  by_cases h0 : D = o.dims
  · exact ⟨o, by simp [h0, pure, Except.pure], h0.symm, ExtBy.refl o hr⟩
  have h0' : (D == o.dims) = false := by simpa using h0
  rw [flatMap_splitOnComma D hplain, unflattenAll_plain o hm, eraseDups_of_nodup D hD]
  simp only [h0', bne_self_eq_false, Bool.false_eq_true, if_false]
  unfold reshapeTail
  -- no dimension is squeezed
  rw [exFoldlM_id_of _ o.dims o (fun d hd s => by
    have : D.contains d = true := by simpa using hsub d hd
    simp only [this, if_true]; rfl)]
  rw [ex_bind_ok]
  -- transpose
  have hT : (D.filter (fun d => o.dims.contains d)).Nodup := hD.sublist List.filter_sublist
  have hmem : ∀ d, d ∈ D.filter (fun d => o.dims.contains d) ↔ d ∈ o.dims := by
    intro d
    simp only [List.mem_filter, List.contains_iff_mem]
    exact ⟨fun h => h.2, fun h => ⟨hsub d h, h⟩⟩
  have hfl : ∀ (x : DimArray α), (D.zipIdx.foldlM (fun (o : DimArray α) (d, i) =>
      if d.contains ',' then flatten o (splitOnComma d) (some i) else pure o) x) = .ok x := by
    intro x
    apply exFoldlM_id_of
    intro di hdi s
    obtain ⟨d, i⟩ := di
    have hd : d ∈ D := by
      have := (List.mem_zipIdx hdi).2.2
      rw [this]; exact List.getElem_mem _
    simp only [contains_comma_false d (hplain d hd), Bool.false_eq_true, if_false]
    rfl
  have htail : ∀ (x : DimArray α), x.dims = D.filter (fun d => o.dims.contains d) → ExtBy o x →
      ∃ r, reshapeTail2 x D D = .ok r ∧ r.dims = D ∧ ExtBy o r := by
    intro x hx hext
    obtain ⟨y, hy, hyd, hext2⟩ := newaxisFold o.dims D [] x (by simpa using hx) (by simpa using hD) hext.rank
    simp only [List.length_nil, List.nil_append] at hy hyd
    refine ⟨y, ?_, hyd, hext.trans hext2⟩
    have hy' : (D.zipIdx.foldlM (fun (o : DimArray α) (d, i) =>
        if o.dims.contains d then pure o else newaxis o d (i : Int) none) x) = .ok y := hy
    unfold reshapeTail2
    rw [hy', ex_bind_ok, hfl y, ex_bind_ok]
    simp only [hyd, bne_self_eq_false, Bool.false_eq_true, if_false]
    rfl
  by_cases hnd : o.axes = []
  · -- a scalar: `transpose` returns it
    have hdims : o.dims = [] := by simp [DimArray.dims, hnd]
    have hfe : D.filter (fun d => o.dims.contains d) = [] := by
      rw [List.filter_eq_nil_iff]; intro d _; simp [hdims]
    have htr : transpose o (some ((D.filter (fun d => o.dims.contains d)).map DimKey.name)) = .ok o := by
      rw [hfe]
      simp [transpose, DimArray.ndim, hnd, pure, Except.pure, bind, Except.bind]
    rw [htr, ex_bind_ok]
    exact htail o (by rw [hfe, hdims]) (ExtBy.refl o hr)
  · have hne : D.filter (fun d => o.dims.contains d) ≠ [] := by
      intro he
      cases hax : o.axes with
      | nil => exact hnd hax
      | cons ax rest =>
        have : ax.name ∈ D.filter (fun d => o.dims.contains d) :=
          (hmem ax.name).mpr (by simp [DimArray.dims, hax])
        rw [he] at this
        simp at this
    rw [transpose_names_ok o _ hne hT hn hmem, ex_bind_ok]
    exact htail _ (transposeBy_names_dims o _ (fun d hd => (hmem d).mp hd))
      (transposeBy_extBy o _ hT hn hmem hr)

end DimModel

/-
Sorting / searching lemmas: argsort + searchsorted(left) + clip finds a present value, for a
list stored in any order.
-/
import DimModel.Prim.Order
import DimModel.Proofs.Label
namespace DimModel

variable {β : Type}

section
variable (le : β → β → Bool)

/-- the sorted (value, original index) pairs -/
def sortedPairs (l : List β) : List (β × Nat) := l.zipIdx.mergeSort (fun a b => le a.1 b.1)

theorem argsortBy_eq (l : List β) : argsortBy le l = (sortedPairs le l).map (·.2) := rfl
theorem sortBy_eq (l : List β) : sortBy le l = (sortedPairs le l).map (·.1) := rfl

theorem sortedPairs_perm (l : List β) : (sortedPairs le l).Perm l.zipIdx :=
  List.mergeSort_perm _ _

theorem sortedPairs_length (l : List β) : (sortedPairs le l).length = l.length := by
  have := (sortedPairs_perm le l).length_eq
  simpa using this

theorem sortedPairs_mem {l : List β} {p : β × Nat} (h : p ∈ sortedPairs le l) : l[p.2]? = some p.1 := by
  have h' : p ∈ l.zipIdx := (sortedPairs_perm le l).mem_iff.mp h
  have := List.mem_zipIdx_iff_getElem?.mp h'
  simpa using this

theorem mem_sortBy {l : List β} {v : β} : v ∈ sortBy le l ↔ v ∈ l := by
  rw [sortBy_eq]
  constructor
  · intro h
    obtain ⟨p, hp, rfl⟩ := List.mem_map.mp h
    exact List.mem_of_getElem? (sortedPairs_mem le hp)
  · intro h
    obtain ⟨i, hi, rfl⟩ := List.getElem_of_mem h
    have : (l[i], i) ∈ l.zipIdx := List.mem_zipIdx_iff_getElem?.mpr (by simp [hi])
    have : (l[i], i) ∈ sortedPairs le l := (sortedPairs_perm le l).mem_iff.mpr this
    exact List.mem_map.mpr ⟨_, this, rfl⟩

theorem sortedPairs_pairwise
    (htrans : ∀ a b c, le a b = true → le b c = true → le a c = true)
    (htot : ∀ a b, (le a b || le b a) = true) (l : List β) :
    (sortedPairs le l).Pairwise (fun a b => le a.1 b.1 = true) :=
  List.pairwise_mergeSort (le := fun a b : β × Nat => le a.1 b.1)
    (fun a b c => htrans a.1 b.1 c.1) (fun a b => htot a.1 b.1) _

theorem sortBy_pairwise
    (htrans : ∀ a b c, le a b = true → le b c = true → le a c = true)
    (htot : ∀ a b, (le a b || le b a) = true) (l : List β) :
    (sortBy le l).Pairwise (fun a b => le a b = true) := by
  rw [sortBy_eq]
  exact (List.pairwise_map).mpr (sortedPairs_pairwise le htrans htot l)

/-- core of `locate_many`: argsort + searchsorted(left, sorter) + take(clip) finds a present value -/
theorem locateRaw_found
    (htrans : ∀ a b c, le a b = true → le b c = true → le a c = true)
    (htot : ∀ a b, (le a b || le b a) = true)
    (hanti : ∀ a b, le a b = true → le b a = true → a = b)
    (l : List β) (v : β) (hv : v ∈ l) :
    l[takeClip (argsortBy le l) (searchLeft (fun a b => !(le b a)) (sortBy le l) v)]? = some v := by
  have hrefl : ∀ a, le a a = true := fun a => by simpa using htot a a
  let sp := sortedPairs le l
  have hs : sortBy le l = sp.map (·.1) := rfl
  have hmem : v ∈ sortBy le l := (mem_sortBy le).mpr hv
  -- the search position is in range
  have hlt : searchLeft (fun a b => !(le b a)) (sortBy le l) v < (sortBy le l).length := by
    unfold searchLeft
    apply List.findIdx_lt_length.mpr
    exact ⟨v, hmem, by simp [hrefl]⟩
  let p := searchLeft (fun a b => !(le b a)) (sortBy le l) v
  have hp : p < (sortBy le l).length := hlt
  have hlen : (sortBy le l).length = sp.length := by simp [hs]
  -- at p: le v sorted[p]
  have h1 : le v (sortBy le l)[p] = true := by
    have := List.findIdx_getElem (p := fun x => !(!(le v x))) (xs := sortBy le l) (w := hlt)
    rw [Bool.not_not] at this
    exact this
  -- v sits at some position q, and p ≤ q
  obtain ⟨q, hq, hqv⟩ := List.getElem_of_mem hmem
  have hpq : p ≤ q := by
    by_cases h : p ≤ q
    · exact h
    · exfalso
      have hqp : q < p := Nat.lt_of_not_le h
      have := List.not_of_lt_findIdx (p := fun x => !(!(le v x))) (xs := sortBy le l) hqp
      simp [hqv, hrefl] at this
  -- sortedness gives sorted[p] ≤ sorted[q] = v
  have h2 : le (sortBy le l)[p] v = true := by
    rcases Nat.lt_or_eq_of_le hpq with hlt' | heq
    · have hpw := sortBy_pairwise le htrans htot l
      have := (List.pairwise_iff_getElem.mp hpw) p q hp hq hlt'
      simpa [hqv] using this
    · subst heq
      simp [hqv, hrefl]
  have heq : (sortBy le l)[p] = v := hanti _ _ h2 h1
  -- translate to the argsort
  have hp' : p < sp.length := hlen ▸ hp
  have hclip : takeClip (argsortBy le l) p = (sp[p]).2 := by
    unfold takeClip
    have hl : (argsortBy le l).length = sp.length := by simp [argsortBy_eq, sp]
    have : min p ((argsortBy le l).length - 1) = p := by omega
    rw [this]
    simp [argsortBy_eq, List.getD, hp', sp]
  have hval : (sp[p]).1 = v := by
    have : (sortBy le l)[p] = (sp[p]).1 := by simp [hs]
    rw [← this]; exact heq
  show l[takeClip (argsortBy le l) p]? = some v
  rw [hclip, ← hval]
  exact sortedPairs_mem le (List.getElem_mem hp')

end

/-- `firstIdx` basics -/
theorem firstIdx_lt_iff [DecidableEq β] {l : List β} {v : β} : firstIdx l v < l.length ↔ v ∈ l := by
  unfold firstIdx
  rw [List.findIdx_lt_length]
  constructor
  · rintro ⟨x, hx, h⟩; simp at h; exact h ▸ hx
  · intro h; exact ⟨v, h, by simp⟩

theorem firstIdx_getElem [DecidableEq β] {l : List β} {v : β} (h : firstIdx l v < l.length) :
    l[firstIdx l v] = v := by
  have := List.findIdx_getElem (p := fun x => decide (x = v)) (xs := l) (w := h)
  exact of_decide_eq_true this

/-- on a duplicate-free list the position of a value is unique -/
theorem firstIdx_unique [DecidableEq β] {l : List β} (hn : l.Nodup) {i : Nat} (hi : i < l.length) :
    firstIdx l l[i] = i := by
  have hm : l[i] ∈ l := List.getElem_mem hi
  have hlt := firstIdx_lt_iff.mpr hm
  have hv := firstIdx_getElem hlt
  exact (List.getElem_inj hn).mp hv

theorem label_lt_eq : (Label.lt) = (fun a b => !(Label.le b a)) := by
  funext a b; rfl

end DimModel

/-
Helper lemmas for C18, `interp_like` (`Lib.interpLike`, `DSV.interpLikeDs`): the loop as a fold over the shared
dimensions only, the 1-D kernel as a trichotomy (left fill / right fill / a fixed affine combination of two cells of
the fibre), and the commutation of two kernels applied along different dimensions of a table (bilinear
interpolation does not depend on the order; the fills do, in the two corners where both coordinates are out of
range on opposite sides).
-/
import DimModel.Lib.InterpLike
import DimModel.Proofs.C18Ds
import Mathlib.Tactic.Ring
import Mathlib.Tactic.Linarith
namespace DimModel
namespace C18L
open Lib C18P

/-! ### folds -/

/-- a loop whose step does something only for the elements selected by `f` is the loop over the selected elements -/
theorem foldlM_filterMap {β γ δ : Type} (f : β → Option γ) (g : δ → γ → Except Err δ) :
    ∀ (l : List β) (obj : δ),
      l.foldlM (fun o b => match f b with | some e => g o e | none => pure o) obj = (l.filterMap f).foldlM g obj := by
  intro l
  induction l with
  | nil => intro obj; rfl
  | cons b l ih =>
    intro obj
    rw [List.foldlM_cons]
    cases hf : f b with
    | none =>
      rw [List.filterMap_cons_none hf]
      simp only [pure, Except.pure, bind, Except.bind]
      exact ih obj
    | some e =>
      rw [List.filterMap_cons_some hf, List.foldlM_cons]
      simp only
      cases g obj e with
      | error err => rfl
      | ok o => simp only [bind, Except.bind]; exact ih o

theorem foldlM_map' {β γ δ : Type} (f : β → γ) (g : δ → γ → Except Err δ) :
    ∀ (l : List β) (obj : δ), (l.map f).foldlM g obj = l.foldlM (fun o b => g o (f b)) obj := by
  intro l
  induction l with
  | nil => intro obj; rfl
  | cons b l ih =>
    intro obj
    rw [List.map_cons, List.foldlM_cons, List.foldlM_cons]
    cases g obj (f b) with
    | error err => rfl
    | ok o => simp only [bind, Except.bind]; exact ih o

theorem zipIdx_map_fst {β : Type} : ∀ (l : List β) (n : Nat), (l.zipIdx n).map (·.1) = l := by
  intro l
  induction l with
  | nil => intro n; rfl
  | cons b l ih => intro n; rw [List.zipIdx_cons, List.map_cons, ih]

/-- the shared dimensions of a list of axes (numbered from `n`) with a template, in the order of the list: position,
the axis, the template's axis of that name -/
def sharedFrom (n : Nat) (l tmpl : List Axis) : List (Nat × Axis × Axis) :=
  (l.zipIdx n).filterMap fun e => (tmpl.find? (·.name == e.1.name)).map fun t => (e.2, e.1, t)

theorem sharedFrom_cons_none (n : Nat) (ax : Axis) (l tmpl : List Axis) (h : tmpl.find? (·.name == ax.name) = none) :
    sharedFrom n (ax :: l) tmpl = sharedFrom (n + 1) l tmpl := by
  unfold sharedFrom
  rw [List.zipIdx_cons, List.filterMap_cons_none]
  simp only [h, Option.map_none]

theorem sharedFrom_cons_some (n : Nat) (ax t : Axis) (l tmpl : List Axis) (h : tmpl.find? (·.name == ax.name) = some t) :
    sharedFrom n (ax :: l) tmpl = (n, ax, t) :: sharedFrom (n + 1) l tmpl := by
  unfold sharedFrom
  rw [List.zipIdx_cons, List.filterMap_cons_some]
  simp only [h, Option.map_some]

/-- the loop of `interp_like` = `interp_axis`, by name, along the shared dimensions only, in the array's order -/
theorem interpLike_fold {α : Type} [Inhabited α] (lin : α → α → Rat → α) (tmpl : List Axis) (left right : α)
    (l : List Axis) (n : Nat) (obj : DimArray α) :
    l.foldlM (interpLikeStep lin tmpl left right) obj =
      (sharedFrom n l tmpl).foldlM
        (fun o e => interpAxis lin o (.name e.2.1.name) e.2.2.labels e.2.2.kind left right) obj := by
  have h1 : l.foldlM (interpLikeStep lin tmpl left right) obj =
      (l.zipIdx n).foldlM (fun o e => interpLikeStep lin tmpl left right o e.1) obj := by
    rw [← foldlM_map' (fun e : Axis × Nat => e.1) (interpLikeStep lin tmpl left right), zipIdx_map_fst]
  rw [h1]
  unfold sharedFrom
  rw [← foldlM_filterMap]
  congr 1
  funext o e
  unfold interpLikeStep
  cases tmpl.find? (·.name == e.1.name) <;> rfl

/-- the same for the Dataset loop -/
theorem interpLikeDs_fold {α : Type} [Inhabited α] (lin : α → α → Rat → α) (tmpl : List Axis) (left right : α)
    (l : List Axis) (n : Nat) (obj : DSV.Ds α) :
    l.foldlM (DSV.interpLikeDsStep lin tmpl left right) obj =
      (sharedFrom n l tmpl).foldlM
        (fun o e => DSV.interpAxisDs lin o e.2.1.name e.2.2.labels e.2.2.kind left right) obj := by
  have h1 : l.foldlM (DSV.interpLikeDsStep lin tmpl left right) obj =
      (l.zipIdx n).foldlM (fun o e => DSV.interpLikeDsStep lin tmpl left right o e.1) obj := by
    rw [← foldlM_map' (fun e : Axis × Nat => e.1) (DSV.interpLikeDsStep lin tmpl left right), zipIdx_map_fst]
  rw [h1]
  unfold sharedFrom
  rw [← foldlM_filterMap]
  congr 1
  funext o e
  unfold DSV.interpLikeDsStep
  cases tmpl.find? (·.name == e.1.name) <;> rfl

/-! ### lists -/

theorem take_succ_set {β : Type} (l : List β) (n : Nat) (x : β) (h : n < l.length) :
    (l.set n x).take (n + 1) = l.take n ++ [x] := by
  apply List.ext_getElem?
  intro i
  rw [List.getElem?_take]
  by_cases hi : i < n
  · rw [if_pos (by omega), List.getElem?_set_ne (by omega), List.getElem?_append_left (by simp; omega),
      List.getElem?_take, if_pos hi]
  · by_cases hin : i = n
    · subst hin
      rw [if_pos (by omega), List.getElem?_set_self h, List.getElem?_append_right (by simp),
        List.length_take, Nat.min_eq_left (by omega)]
      simp
    · rw [if_neg (by omega), List.getElem?_append_right (by simp; omega)]
      simp only [List.length_take, Nat.min_eq_left (Nat.le_of_lt h)]
      rw [List.getElem?_eq_none]
      simp; omega

theorem drop_succ_set {β : Type} (l : List β) (n : Nat) (x : β) : (l.set n x).drop (n + 1) = l.drop (n + 1) := by
  apply List.ext_getElem?
  intro i
  rw [List.getElem?_drop, List.getElem?_drop, List.getElem?_set_ne (by omega)]

theorem drop_eq_cons {β : Type} {l : List β} {n : Nat} {x : β} {t : List β} (h : l.drop n = x :: t) :
    n < l.length ∧ l[n]? = some x ∧ l.drop (n + 1) = t := by
  have hlt : n < l.length := by
    rcases Nat.lt_or_ge n l.length with h' | h'
    · exact h'
    · rw [List.drop_eq_nil_of_le h'] at h; cases h
  refine ⟨hlt, ?_, ?_⟩
  · have := congrArg (fun z => z[0]?) h
    simpa [List.getElem?_drop] using this
  · have := congrArg List.tail h
    simpa [List.tail_drop] using this

theorem num_injective : ∀ (xs ys : List Rat), xs.map Label.num = ys.map Label.num → xs = ys := by
  intro xs
  induction xs with
  | nil => intro ys h; cases ys with
    | nil => rfl
    | cons y ys => cases h
  | cons x xs ih =>
    intro ys h
    cases ys with
    | nil => cases h
    | cons y ys =>
      simp only [List.map_cons, List.cons.injEq, Label.num.injEq] at h
      rw [h.1, ih ys h.2]

/-- in a list of axes with distinct names, the name of the axis at position `n` resolves to `n` -/
theorem axisPos_name_at {axes : List Axis} (hn : (axes.map (·.name)).Nodup) {n : Nat} {ax : Axis}
    (h : axes[n]? = some ax) : axisPos axes (.name ax.name) = .ok n := by
  obtain ⟨hl, he⟩ := List.getElem?_eq_some_iff.mp h
  have hm : n < (axes.map (·.name)).length := by simpa using hl
  have hidx : (axes.map (·.name)).idxOf ax.name = n := by
    have : (axes.map (·.name))[n] = ax.name := by simp [he]
    rw [← this]
    exact List.Nodup.idxOf_getElem hn n hm
  unfold axisPos
  simp only [hidx, hl, if_true]

theorem find?_name_of_mem {AX : List Axis} (hnd : (AX.map (·.name)).Nodup) {a : Axis} (ha : a ∈ AX) :
    AX.find? (fun e => e.name == a.name) = some a := by
  cases hf : AX.find? (fun e => e.name == a.name) with
  | none =>
    rw [List.find?_eq_none] at hf
    exact absurd (by simp) (hf a ha)
  | some b =>
    obtain ⟨hb, hbn⟩ := DSV.find?_name_some hf
    rw [DSV.mem_name_inj hnd hb ha hbn]

theorem filter_mem_of_sublist {β : Type} [DecidableEq β] : ∀ {l₁ l₂ : List β}, l₁.Sublist l₂ → l₂.Nodup →
    l₂.filter (fun x => decide (x ∈ l₁)) = l₁ := by
  intro l₁ l₂ h
  induction h with
  | slnil => intro _; rfl
  | cons a h ih =>
    rename_i l₁ l₂
    intro hnd
    rw [List.nodup_cons] at hnd
    rw [List.filter_cons]
    have : a ∉ l₁ := fun hm => hnd.1 (h.subset hm)
    rw [if_neg (by simpa using this)]
    exact ih hnd.2
  | cons_cons a h ih =>
    rename_i l₁ l₂
    intro hnd
    rw [List.nodup_cons] at hnd
    rw [List.filter_cons, if_pos (by simp)]
    congr 1
    refine Eq.trans ?_ (ih hnd.2)
    apply List.filter_congr
    intro x hx
    have : x ≠ a := fun e => hnd.1 (e ▸ hx)
    simp [this]

/-! ### the 1-D kernel over the rationals: left fill, right fill, or a fixed affine combination of two cells -/

/-- `a + w * (b - a)` -/
abbrev linQ : Rat → Rat → Rat → Rat := fun a b w => a + w * (b - a)

theorem countLe_le (xs : List Rat) (x : Rat) : countLe xs x ≤ xs.length := by
  unfold countLe
  exact List.length_filter_le _ _

/-- the three regimes of `interpAt` at a coordinate `x`; in the third the two positions and the weight depend on the
nodes and on `x` only, not on the fibre -/
theorem interpAt_regimes (S : List Rat) (lo hi : Rat) (hlo : S.head? = some lo) (hhi : S.getLast? = some hi)
    (d l r x : Rat) :
    (x < lo ∧ ∀ Y, interpAt linQ S Y d l r x = l) ∨
    (¬ x < lo ∧ hi < x ∧ ∀ Y, interpAt linQ S Y d l r x = r) ∨
    (¬ x < lo ∧ ¬ hi < x ∧ ∃ j j' : Nat, ∃ w : Rat, j < S.length ∧ j' < S.length ∧
      ∀ Y, interpAt linQ S Y d l r x = Y.getD j d + w * (Y.getD j' d - Y.getD j d)) := by
  by_cases h1 : x < lo
  · left
    refine ⟨h1, fun Y => ?_⟩
    unfold interpAt
    rw [hlo, hhi]
    simp only [if_pos h1]
  · by_cases h2 : hi < x
    · right; left
      refine ⟨h1, h2, fun Y => ?_⟩
      unfold interpAt
      rw [hlo, hhi]
      simp only [if_neg h1, if_pos h2]
    · right; right
      refine ⟨h1, h2, ?_⟩
      have hne : 0 < S.length := by
        cases S with
        | nil => cases hlo
        | cons a t => simp
      have hj : (fracIndex S x).1 < S.length := by
        unfold fracIndex
        have := countLe_le S x
        simp only
        split <;> simp only <;> omega
      by_cases hw : (fracIndex S x).2 = 0
      · refine ⟨(fracIndex S x).1, (fracIndex S x).1, 0, hj, hj, fun Y => ?_⟩
        unfold interpAt
        rw [hlo, hhi]
        simp only [if_neg h1, if_neg h2]
        rw [if_pos (by simp [hw])]
        ring
      · have hj1 : (fracIndex S x).1 + 1 < S.length := by
          rcases Nat.lt_or_ge ((fracIndex S x).1 + 1) S.length with h | h
          · exact h
          · exfalso
            apply hw
            unfold fracIndex
            simp only
            unfold fracIndex at h
            simp only at h
            split
            · rename_i hc
              split at h <;> simp only at h <;> omega
            · rfl
        refine ⟨(fracIndex S x).1, (fracIndex S x).1 + 1, (fracIndex S x).2, hj, hj1, fun Y => ?_⟩
        unfold interpAt
        rw [hlo, hhi]
        simp only [if_neg h1, if_neg h2]
        rw [if_neg (by simpa using hw)]

/-- **two kernels along different dimensions of a table commute**, except in the two corners where both coordinates
are out of range on opposite sides, where the result is the fill of the dimension interpolated last (so the two
orders agree there iff `l = r`) -/
theorem interpAt_comm (S1 S2 : List Rat) (σ1 σ2 : List Nat) (f : Nat → Nat → Rat) (d l r x1 x2 lo1 hi1 lo2 hi2 : Rat)
    (hl1 : σ1.length = S1.length) (hl2 : σ2.length = S2.length)
    (hlo1 : S1.head? = some lo1) (hhi1 : S1.getLast? = some hi1)
    (hlo2 : S2.head? = some lo2) (hhi2 : S2.getLast? = some hi2)
    (hc1 : x1 < lo1 → ¬ x2 < lo2 → hi2 < x2 → l = r) (hc2 : ¬ x1 < lo1 → hi1 < x1 → x2 < lo2 → l = r) :
    interpAt linQ S2 (σ2.map fun q => interpAt linQ S1 (σ1.map fun p => f p q) d l r x1) d l r x2 =
      interpAt linQ S1 (σ1.map fun p => interpAt linQ S2 (σ2.map fun q => f p q) d l r x2) d l r x1 := by
  have e1 : ∀ (g : Nat → Rat) (j : Nat), j < S1.length → (σ1.map g).getD j d = g (σ1.getD j 0) :=
    fun g j hj => getD_map_of_lt g σ1 j 0 d (by omega)
  have e2 : ∀ (g : Nat → Rat) (j : Nat), j < S2.length → (σ2.map g).getD j d = g (σ2.getD j 0) :=
    fun g j hj => getD_map_of_lt g σ2 j 0 d (by omega)
  rcases interpAt_regimes S1 lo1 hi1 hlo1 hhi1 d l r x1 with ⟨a1, A⟩ | ⟨a1, a2, A⟩ | ⟨a1, a2, j1, j1', w1, hj1, hj1', A⟩ <;>
    rcases interpAt_regimes S2 lo2 hi2 hlo2 hhi2 d l r x2 with ⟨b1, B⟩ | ⟨b1, b2, B⟩ | ⟨b1, b2, j2, j2', w2, hj2, hj2', B⟩
  · rw [A, B]
  · rw [A, B]; exact (hc1 a1 b1 b2).symm
  · simp only [A, B, e2 _ _ hj2, e2 _ _ hj2']
    ring
  · rw [A, B]; exact hc2 a1 a2 b1
  · rw [A, B]
  · simp only [A, B, e2 _ _ hj2, e2 _ _ hj2']
    ring
  · simp only [A, B, e1 _ _ hj1, e1 _ _ hj1']
    ring
  · simp only [A, B, e1 _ _ hj1, e1 _ _ hj1']
    ring
  · simp only [A, B, e1 _ _ hj1, e1 _ _ hj1', e2 _ _ hj2, e2 _ _ hj2']
    ring

/-- head and last of a strictly increasing list bound all its members -/
theorem head_le_of_mem {S : List Rat} (hinc : S.Pairwise (· < ·)) {lo : Rat} (hlo : S.head? = some lo) {y : Rat}
    (hy : y ∈ S) : lo ≤ y := by
  cases S with
  | nil => cases hlo
  | cons a t =>
    simp only [List.head?_cons, Option.some.injEq] at hlo
    subst hlo
    rcases List.mem_cons.mp hy with rfl | hm
    · exact le_refl _
    · exact le_of_lt ((List.pairwise_cons.mp hinc).1 y hm)

theorem le_last_of_mem {S : List Rat} (hinc : S.Pairwise (· < ·)) {hi : Rat} (hhi : S.getLast? = some hi) {y : Rat}
    (hy : y ∈ S) : y ≤ hi := by
  obtain ⟨i, hi', rfl⟩ := List.getElem_of_mem hy
  have hne : 0 < S.length := by omega
  rw [List.getLast?_eq_getElem?, List.getElem?_eq_getElem (by omega)] at hhi
  simp only [Option.some.injEq] at hhi
  subst hhi
  exact pairwiseLt_le hinc hi' (by omega) (by omega)

end C18L
end DimModel

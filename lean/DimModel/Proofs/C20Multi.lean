/-
C20 (extension) - helper lemmas for the multi-file read: the loop of `_read_multinc` against `mapM` of the per-file
reads followed by the consistency checks.
-/
import DimModel.Lib.OnDiskMulti
namespace DimModel
namespace OnDisk
open Lib DSV

/-- what the loop compares every further file with -/
def agrees {α} (v dm : List String) (m : Ds α) : Bool := sameKeys v m.keys && dm == m.dims

theorem mapM_cons_ok {α β : Type} (g : α → Except Err β) (f : α) (rest : List α) (mems : List β)
    (h : (f :: rest).mapM g = .ok mems) : ∃ m ms, g f = .ok m ∧ rest.mapM g = .ok ms ∧ mems = m :: ms := by
  rw [List.mapM_cons] at h
  cases hg : g f with
  | error e => rw [hg] at h; simp [bind, Except.bind] at h
  | ok m =>
    rw [hg] at h
    cases hr : rest.mapM g with
    | error e => rw [hr] at h; simp [bind, Except.bind] at h
    | ok ms =>
      rw [hr] at h
      simp only [bind, Except.bind, pure, Except.pure, Except.ok.injEq] at h
      exact ⟨m, ms, rfl, rfl, h.symm⟩

theorem mapM_cons_error {α β : Type} (g : α → Except Err β) (f : α) (rest : List α) (e : Err)
    (h : (f :: rest).mapM g = .error e) : g f = .error e ∨ ∃ m, g f = .ok m ∧ rest.mapM g = .error e := by
  rw [List.mapM_cons] at h
  cases hg : g f with
  | error e' => rw [hg] at h; simp only [bind, Except.bind, Except.error.injEq] at h; left; rw [h]
  | ok m =>
    rw [hg] at h
    right
    refine ⟨m, rfl, ?_⟩
    cases hr : rest.mapM g with
    | error e' => rw [hr] at h; simp only [bind, Except.bind, Except.error.injEq] at h; rw [h]
    | ok ms => rw [hr] at h; simp [bind, Except.bind, pure, Except.pure] at h

/-- the loop after the first file: all further files agree -/
theorem readLoop_some_ok {α} (d : α) (names : Option (List String)) (idx : Option FileIndex) (v dm : List String) :
    ∀ (files : List (DiskDs α)) (mems acc : List (Ds α)),
      files.mapM (fun f => readFile d f names idx) = .ok mems →
      mems.all (agrees v dm) = true →
      readLoop d names idx files (some (v, dm)) acc = .ok (acc ++ mems, some (v, dm))
  | [], mems, acc, h, _ => by
    simp only [List.mapM_nil, pure, Except.pure, Except.ok.injEq] at h
    subst h
    simp [readLoop, pure, Except.pure]
  | f :: rest, mems, acc, h, hall => by
    obtain ⟨m, ms, hm, hms, rfl⟩ := mapM_cons_ok _ f rest mems h
    simp only [List.all_cons, Bool.and_eq_true, agrees] at hall
    obtain ⟨⟨hk, hd⟩, hrest⟩ := hall
    have ih := readLoop_some_ok d names idx v dm rest ms (acc ++ [m]) hms (by simpa [agrees] using hrest)
    unfold readLoop
    simp only [hm, bind, Except.bind, hk, Bool.not_true, Bool.false_eq_true, if_false]
    have hd' : (dm != m.dims) = false := by simp [bne, hd]
    simp only [hd', Bool.false_eq_true, if_false, ih, List.append_assoc, List.singleton_append]

/-- ... some further file disagrees: AssertionError -/
theorem readLoop_some_bad {α} (d : α) (names : Option (List String)) (idx : Option FileIndex) (v dm : List String) :
    ∀ (files : List (DiskDs α)) (mems acc : List (Ds α)),
      files.mapM (fun f => readFile d f names idx) = .ok mems →
      mems.all (agrees v dm) = false →
      readLoop d names idx files (some (v, dm)) acc = .error .assertion
  | [], mems, acc, h, hall => by
    simp only [List.mapM_nil, pure, Except.pure, Except.ok.injEq] at h
    subst h
    simp at hall
  | f :: rest, mems, acc, h, hall => by
    obtain ⟨m, ms, hm, hms, rfl⟩ := mapM_cons_ok _ f rest mems h
    unfold readLoop
    simp only [hm, bind, Except.bind]
    by_cases hk : sameKeys v m.keys = true
    · simp only [hk, Bool.not_true, Bool.false_eq_true, if_false]
      by_cases hd : (dm == m.dims) = true
      · have hd' : (dm != m.dims) = false := by simp [bne, hd]
        simp only [hd', Bool.false_eq_true, if_false]
        apply readLoop_some_bad d names idx v dm rest ms (acc ++ [m]) hms
        simpa [List.all_cons, agrees, hk, hd] using hall
      · have hd' : (dm != m.dims) = true := by simpa [bne] using hd
        simp only [hd', if_true]
    · have hk' : sameKeys v m.keys = false := by simpa using hk
      simp only [hk', Bool.not_false, if_true]

/-- ... a file cannot be read: its error, unless an earlier file already disagreed -/
theorem readLoop_error {α} (d : α) (names : Option (List String)) (idx : Option FileIndex) (e : Err) :
    ∀ (files : List (DiskDs α)) (st : Option (List String × List String)) (acc : List (Ds α)),
      files.mapM (fun f => readFile d f names idx) = .error e →
      readLoop d names idx files st acc = .error e ∨ readLoop d names idx files st acc = .error .assertion
  | [], st, acc, h => by simp [List.mapM_nil, pure, Except.pure] at h
  | f :: rest, st, acc, h => by
    rcases mapM_cons_error _ f rest e h with hf | ⟨m, hm, hr⟩
    · left
      unfold readLoop
      simp only [hf, bind, Except.bind]
    · unfold readLoop
      simp only [hm, bind, Except.bind]
      cases st with
      | none => exact readLoop_error d names idx e rest _ _ hr
      | some p =>
        obtain ⟨v, dm⟩ := p
        simp only
        split
        · right; rfl
        · split
          · right; rfl
          · exact readLoop_error d names idx e rest _ _ hr

end OnDisk
end DimModel

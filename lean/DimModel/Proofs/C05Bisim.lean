/-
Bisimulation for the plain-axis cache machine (Lib/AxisCache.lean): a coherent heap and the heap with every
cached flag erased answer every operation alike, and stay equal up to the flags.
-/
import DimModel.Proofs.C05Cache
namespace DimModel
namespace AxisCache
open Lib

/-- all flags set to none: the heap of freshly constructed axes with the same labels / dtypes -/
abbrev forgetSt (s : St) : St := forget s

/-- an effect up to the flags of the objects it writes / creates -/
def Eff.forget (e : Eff) : Eff :=
  { upd := e.upd.map (fun p => (p.1, p.2.forget)), new := e.new.map CAxis.forget, res := e.res }

theorem forget_forget (a : CAxis) : a.forget.forget = a.forget := rfl

theorem forgetSt_idem (s : St) : forget (forget s) = forget s := by
  unfold forget
  rw [List.map_map]
  rfl

theorem forget_length (s : St) : (forget s).length = s.length := by
  unfold forget; exact List.length_map _

theorem forget_coherent (s : St) : Coherent (forget s) := by
  intro a ha
  unfold forget at ha
  obtain ⟨b, _, rfl⟩ := List.mem_map.mp ha
  exact Or.inl rfl

theorem forget_get (s : St) (i : Nat) : (forget s)[i]? = s[i]?.map CAxis.forget := by
  unfold forget; exact List.getElem?_map

theorem forget_set (t : St) (i : Nat) (a : CAxis) : forget (t.set i a) = (forget t).set i a.forget := by
  unfold forget; exact List.map_set

theorem forget_foldl_set (u : List (Nat × CAxis)) : ∀ t : St,
    forget (u.foldl (fun t (p : Nat × CAxis) => t.set p.1 p.2) t) =
      (u.map (fun p => (p.1, p.2.forget))).foldl (fun t (p : Nat × CAxis) => t.set p.1 p.2) (forget t) := by
  induction u with
  | nil => intro t; rfl
  | cons p u ih =>
    intro t
    simp only [List.foldl_cons, List.map_cons]
    rw [ih, forget_set]

/-- applying an effect commutes with erasing the flags -/
theorem apply_forget (s : St) (e : Eff) :
    forget (e.apply s).1 = (e.forget.apply (forget s)).1 ∧ (e.apply s).2 = (e.forget.apply (forget s)).2 := by
  unfold Eff.apply Eff.forget
  cases hn : e.new with
  | none => simp only [Option.map_none]; exact ⟨forget_foldl_set _ _, trivial⟩
  | some a =>
    simp only [Option.map_some, forget_length]
    refine ⟨?_, trivial⟩
    rw [← forget_foldl_set]
    unfold forget
    simp

/-- two effects equal up to flags, applied to two heaps equal up to flags -/
theorem apply_sim (s t : St) (e1 e2 : Eff) (hst : forget s = forget t) (he : e1.forget = e2.forget) :
    forget (e1.apply s).1 = forget (e2.apply t).1 ∧ (e1.apply s).2 = (e2.apply t).2 := by
  obtain ⟨h1, h2⟩ := apply_forget s e1
  obtain ⟨h3, h4⟩ := apply_forget t e2
  rw [h1, h2, h3, h4, hst, he]
  exact ⟨rfl, rfl⟩

/-! ### every operation's effect is the same up to flags on the erased heap -/

theorem unionCore_forget (i j : Nat) (castA castB : Bool) (k : Kind) (cons : Bool) (a b a2 b2 : CAxis)
    (ha : a.Coherent) (hb : b.Coherent) (ha2 : a2.Coherent) (hb2 : b2.Coherent)
    (ea : a.forget = a2.forget) (eb : b.forget = b2.forget) :
    (unionCore i j castA castB k cons a b).forget = (unionCore i j castA castB k cons a2 b2).forget := by
  have la : a.labels = a2.labels := by
    have := congrArg (fun x : CAxis => x.labels) ea; exact this
  have lb : b.labels = b2.labels := by
    have := congrArg (fun x : CAxis => x.labels) eb; exact this
  have fa : a.isMono.2.forget = a2.isMono.2.forget := by rw [isMono_forget, isMono_forget]; exact ea
  have fb : b.isMono.2.forget = b2.isMono.2.forget := by rw [isMono_forget, isMono_forget]; exact eb
  unfold unionCore
  simp only [isMono_fst a ha, isMono_fst b hb, isMono_fst a2 ha2, isMono_fst b2 hb2, la, lb]
  split
  · simp [Eff.forget, ea]
  · split
    · split <;> simp [Eff.forget, eb]
    · split
      · split <;> simp [Eff.forget, ea]
      · split
        · simp [Eff.forget]
        · split
          · cases castA <;> simp [Eff.forget, fa]
          · cases castA <;> cases castB <;> simp [Eff.forget, fa, fb]

theorem unionEff_forget (i j : Nat) (a b : CAxis) (ha : a.Coherent) (hb : b.Coherent) :
    (unionEff i j a b).forget = (unionEff i j a.forget b.forget).forget := by
  unfold unionEff
  have ka : a.forget.kind = a.kind := rfl
  have kb : b.forget.kind = b.kind := rfl
  have la : a.forget.labels = a.labels := rfl
  have lb : b.forget.labels = b.labels := rfl
  simp only [ka, kb, la, lb]
  refine unionCore_forget _ _ _ _ _ _ _ _ _ _ ?_ ?_ ?_ ?_ (forget_ite _ _ _) (forget_ite _ _ _)
  · split
    · exact coh_fresh _ _
    · exact ha
  · split
    · exact coh_fresh _ _
    · exact hb
  · split
    · exact coh_fresh _ _
    · exact Or.inl rfl
  · split
    · exact coh_fresh _ _
    · exact Or.inl rfl

theorem intersectionEff_forget (a b : CAxis) :
    (intersectionEff a b).forget = (intersectionEff a.forget b.forget).forget := by
  unfold intersectionEff
  have ka : a.forget.kind = a.kind := rfl
  have kb : b.forget.kind = b.kind := rfl
  have la : a.forget.labels = a.labels := rfl
  have lb : b.forget.labels = b.labels := rfl
  simp only [ka, kb, la, lb]
  split
  · split <;> simp [Eff.forget, fresh, CAxis.forget]
  · split <;> rfl

theorem eff_forget (s : St) (op : AOp) (hs : Coherent s) : (eff s op).forget = (eff (forget s) op).forget := by
  have hget : ∀ (i : Nat) (a : CAxis), s[i]? = some a → a.Coherent := fun i a h => hs a (List.mem_of_getElem? h)
  cases op with
  | construct L k => rfl
  | setValues i L k =>
    simp only [eff, forget_get]
    cases s[i]? with
    | none => rfl
    | some a => simp only [Option.map_some]; rfl
  | setItem i pos v vk =>
    simp only [eff, forget_get]
    cases s[i]? with
    | none => rfl
    | some a => simp only [Option.map_some]; rfl
  | setAll i L vk =>
    simp only [eff, forget_get]
    cases s[i]? with
    | none => rfl
    | some a => simp only [Option.map_some]; rfl
  | getSlice i s0 e0 st0 =>
    simp only [eff, forget_get]
    cases s[i]? with
    | none => rfl
    | some a =>
      simp only [Option.map_some]
      have la : a.forget.labels = a.labels := rfl
      have ka : a.forget.kind = a.kind := rfl
      simp only [la, ka]
      split
      · rfl
      · split
        · rfl
        · simp only [Eff.forget, Option.map_some, CAxis.forget, List.map_nil]
  | getList i ps =>
    simp only [eff, forget_get]
    cases s[i]? with
    | none => rfl
    | some a => simp only [Option.map_some]; rfl
  | getScalar i p =>
    simp only [eff, forget_get]
    cases s[i]? with
    | none => rfl
    | some a => simp only [Option.map_some]; rfl
  | take i ps =>
    simp only [eff, forget_get]
    cases s[i]? with
    | none => rfl
    | some a => simp only [Option.map_some]; rfl
  | isMonotonic i =>
    simp only [eff, forget_get]
    cases h : s[i]? with
    | none => rfl
    | some a =>
      simp only [Option.map_some]
      have hc := hget i a h
      simp only [Eff.forget, List.map_cons, List.map_nil, isMono_forget, isMono_fst a hc,
        isMono_fst a.forget (Or.inl rfl)]
      rfl
  | copy i =>
    simp only [eff, forget_get]
    cases s[i]? with
    | none => rfl
    | some a => simp only [Option.map_some]; rfl
  | sort i =>
    simp only [eff, forget_get]
    cases s[i]? with
    | none => rfl
    | some a => simp only [Option.map_some]; rfl
  | cast i k =>
    simp only [eff, forget_get]
    cases s[i]? with
    | none => rfl
    | some a => simp only [Option.map_some]; rfl
  | union i j =>
    simp only [eff, forget_get]
    cases hi : s[i]? with
    | none => rfl
    | some a =>
      cases hj : s[j]? with
      | none => rfl
      | some b =>
        simp only [Option.map_some]
        exact unionEff_forget i j a b (hget i a hi) (hget j b hj)
  | intersection i j =>
    simp only [eff, forget_get]
    cases hi : s[i]? with
    | none => rfl
    | some a =>
      cases hj : s[j]? with
      | none => rfl
      | some b =>
        simp only [Option.map_some]
        exact intersectionEff_forget a b
  | labels i =>
    simp only [eff, forget_get]
    cases s[i]? with
    | none => rfl
    | some a => simp only [Option.map_some]; rfl

/-- one step from a coherent heap and from the erased heap: same result, same heap up to flags -/
theorem step_forget' (s : St) (op : AOp) (hs : Coherent s) :
    (step s op).2 = (step (forget s) op).2 ∧ forget (step s op).1 = forget (step (forget s) op).1 := by
  have h := apply_sim s (forget s) (eff s op) (eff (forget s) op) (forgetSt_idem s).symm (eff_forget s op hs)
  exact ⟨h.2, h.1⟩

/-- one step from two coherent heaps that agree up to flags -/
theorem step_sim (s t : St) (op : AOp) (hs : Coherent s) (ht : Coherent t) (hst : forget s = forget t) :
    (step s op).2 = (step t op).2 ∧ forget (step s op).1 = forget (step t op).1 := by
  obtain ⟨h1, h2⟩ := step_forget' s op hs
  obtain ⟨h3, h4⟩ := step_forget' t op ht
  rw [h1, h2, h3, h4, hst]
  exact ⟨rfl, rfl⟩

theorem coherent_step' (s : St) (op : AOp) (hs : Coherent s) : Coherent (step s op).1 :=
  apply_coherent s (eff s op) hs (eff_coh s op hs)

theorem run_sim (ops : List AOp) : ∀ s t : St, Coherent s → Coherent t → forget s = forget t →
    (run s ops).2 = (run t ops).2 ∧ forget (run s ops).1 = forget (run t ops).1 := by
  induction ops with
  | nil => intro s t _ _ h; exact ⟨rfl, h⟩
  | cons op ops ih =>
    intro s t hs ht hst
    obtain ⟨h1, h2⟩ := step_sim s t op hs ht hst
    obtain ⟨h3, h4⟩ := ih _ _ (coherent_step' s op hs) (coherent_step' t op ht) h2
    simp only [run]
    exact ⟨by rw [h1, h3], h4⟩

/-- constructing, from the empty heap, one axis per live object with that object's labels / dtype gives the erased heap -/
def reconstruct (s : St) : List AOp := s.map (fun a => .construct a.labels a.kind)

theorem run_construct (L : St) : ∀ t : St, (run t (reconstruct L)).1 = t ++ forget L := by
  induction L with
  | nil => intro t; simp [reconstruct, run, forget]
  | cons a L ih =>
    intro t
    have h := ih (t ++ [a.forget])
    simp only [reconstruct, List.map_cons, run] at h ⊢
    have hs : (step t (.construct a.labels a.kind)).1 = t ++ [a.forget] := rfl
    rw [hs, h]
    simp [forget]

end AxisCache
end DimModel

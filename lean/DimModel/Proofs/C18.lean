/-
Helper lemmas for C18 (interp_axis): counting the nodes `≤ x` of a strictly increasing list,
the fractional index, the in-range form of `interpAt`, and the axis bookkeeping of `interpAxis`.
-/
import DimModel.Lib.Interp
import Mathlib.Algebra.Order.Field.Rat
import Mathlib.Tactic.Linarith
namespace DimModel
open Lib

theorem getD_getElem {β} (l : List β) (d : β) {i : Nat} (h : i < l.length) : l.getD i d = l[i] :=
  (List.getElem_eq_getD d).symm

/-- `countLe xs x = n` as soon as exactly the first `n` nodes are `≤ x` -/
theorem countLe_eq (xs : List Rat) (x : Rat) (n : Nat) (hn : n ≤ xs.length)
    (hle : ∀ i (h : i < xs.length), i < n → xs[i] ≤ x)
    (hgt : ∀ i (h : i < xs.length), n ≤ i → x < xs[i]) : countLe xs x = n := by
  unfold countLe
  conv => lhs; rw [← List.take_append_drop n xs]
  rw [List.filter_append]
  have h1 : (xs.take n).filter (fun v => decide (v ≤ x)) = xs.take n := by
    rw [List.filter_eq_self]
    intro a ha
    obtain ⟨i, hi, rfl⟩ := List.getElem_of_mem ha
    rw [List.length_take] at hi
    rw [List.getElem_take]
    exact decide_eq_true (hle i (by omega) (by omega))
  have h2 : (xs.drop n).filter (fun v => decide (v ≤ x)) = [] := by
    rw [List.filter_eq_nil_iff]
    intro a ha
    obtain ⟨i, hi, rfl⟩ := List.getElem_of_mem ha
    rw [List.length_drop] at hi
    rw [List.getElem_drop]
    have := hgt (n + i) (by omega) (by omega)
    simp only [decide_eq_true_eq]
    exact not_le.mpr this
  rw [h1, h2, List.append_nil, List.length_take]
  omega

theorem pairwiseLt_lt {xs : List Rat} (h : xs.Pairwise (· < ·)) {i j : Nat} (hi : i < xs.length)
    (hj : j < xs.length) (hij : i < j) : xs[i] < xs[j] :=
  (List.pairwise_iff_getElem.mp h) i j hi hj hij

theorem pairwiseLt_le {xs : List Rat} (h : xs.Pairwise (· < ·)) {i j : Nat} (hi : i < xs.length)
    (hj : j < xs.length) (hij : i ≤ j) : xs[i] ≤ xs[j] := by
  rcases Nat.lt_or_eq_of_le hij with h' | h'
  · exact le_of_lt (pairwiseLt_lt h hi hj h')
  · subst h'; exact le_refl _

/-- count of nodes `≤ x` when `xs[j] ≤ x` and the next node (if any) is `> x` -/
theorem countLe_of_between {xs : List Rat} (hinc : xs.Pairwise (· < ·)) {x : Rat} {j : Nat}
    (hj : j < xs.length) (h0 : xs[j] ≤ x) (h1 : ∀ (h : j + 1 < xs.length), x < xs[j + 1]) :
    countLe xs x = j + 1 := by
  apply countLe_eq xs x (j + 1) hj
  · intro i hi hij
    exact le_trans (pairwiseLt_le hinc hi hj (by omega)) h0
  · intro i hi hij
    exact lt_of_lt_of_le (h1 (by omega)) (pairwiseLt_le hinc (by omega) hi hij)

theorem fracIndex_between {xs : List Rat} (hinc : xs.Pairwise (· < ·)) {x : Rat} {j : Nat}
    (hj : j + 1 < xs.length) (h0 : xs[j] ≤ x) (h1 : x < xs[j + 1]) :
    fracIndex xs x = (j, (x - xs[j]) / (xs[j + 1] - xs[j])) := by
  unfold fracIndex
  rw [countLe_of_between hinc (by omega) h0 (fun _ => h1)]
  simp only [Nat.add_sub_cancel, hj, if_true]
  rw [getD_getElem _ _ (by omega), getD_getElem _ _ hj]

theorem fracIndex_last {xs : List Rat} (hinc : xs.Pairwise (· < ·)) {x : Rat} {j : Nat}
    (hj : j + 1 = xs.length) (h0 : xs[j] ≤ x) : fracIndex xs x = (j, 0) := by
  unfold fracIndex
  rw [countLe_of_between hinc (by omega) h0 (fun h => by omega)]
  simp only [Nat.add_sub_cancel]
  rw [if_neg (by omega)]

/-- inside the label range `interpAt` is governed by `fracIndex` alone -/
theorem interpAt_inrange {α} (lin : α → α → Rat → α) (xs : List Rat) (ys : List α) (d left right : α) (x : Rat)
    (hne : 0 < xs.length) (hlo : xs[0] ≤ x) (hhi : x ≤ xs[xs.length - 1]) :
    interpAt lin xs ys d left right x =
      if (fracIndex xs x).2 == 0 then ys.getD (fracIndex xs x).1 d
      else lin (ys.getD (fracIndex xs x).1 d) (ys.getD ((fracIndex xs x).1 + 1) d) (fracIndex xs x).2 := by
  unfold interpAt
  have e1 : xs.head? = some xs[0] := by
    rw [List.head?_eq_getElem?, List.getElem?_eq_getElem hne]
  have e2 : xs.getLast? = some xs[xs.length - 1] := by
    rw [List.getLast?_eq_getElem?, List.getElem?_eq_getElem (by omega)]
  rw [e1, e2]
  simp only []
  rw [if_neg (not_lt.mpr hlo), if_neg (not_lt.mpr hhi)]

/-- `_interp_internal_maybe_sort` touches only the axis at `pos` -/
theorem sortedOrSelf_props {α : Type} (a : DimArray α) (pos : Nat) (b : Bool) (ps : List Nat) :
    (if b = true then a else takeAxisPos a pos ps).attrs = a.attrs ∧
    (if b = true then a else takeAxisPos a pos ps).axes.length = a.axes.length ∧
    ∀ i, i ≠ pos → (if b = true then a else takeAxisPos a pos ps).axes[i]? = a.axes[i]? := by
  cases b with
  | true => exact ⟨rfl, rfl, fun _ _ => rfl⟩
  | false =>
    simp only [Bool.false_eq_true, if_false]
    refine ⟨rfl, ?_, ?_⟩
    · simp only [takeAxisPos, List.length_mapIdx]
    · intro i hi
      simp only [takeAxisPos, List.getElem?_mapIdx]
      cases a.axes[i]? with
      | none => rfl
      | some ax =>
        simp only [Option.map_some]
        rw [if_neg (by simpa using hi)]

theorem interpAxis_tail {α : Type} (o a : DimArray α) (pos : Nat) (newax : Axis) (newL : List Label)
    (hnew : newax.labels = newL)
    (hlt : pos < a.axes.length)
    (ho : o.attrs = a.attrs ∧ o.axes.length = a.axes.length ∧ ∀ i, i ≠ pos → o.axes[i]? = a.axes[i]?) :
    ((o.axes.set pos newax).getD pos default).labels = newL ∧ o.attrs = a.attrs ∧
    ∀ i, i ≠ pos → ((o.axes.set pos newax)[i]?).map (·.labels) = (a.axes[i]?).map (·.labels) := by
  obtain ⟨h1, h2, h3⟩ := ho
  refine ⟨?_, h1, ?_⟩
  · rw [List.getD_eq_getElem?_getD, List.getElem?_set_self (by omega)]
    exact hnew
  · intro i hi
    rw [List.getElem?_set_ne (Ne.symm hi), h3 i hi]

end DimModel

/-
Helper lemmas for C01: per-dimension refinement of `loc` + NumPy resolution to `Spec.positions`.
-/
import DimModel.Spec.C01
import DimModel.Proofs.Order
namespace DimModel
open Lib


/-- `locate_one` without tolerance: the first position of the label, `IndexError` if absent -/
theorem locateOne_none (L : List Label) (v : Label) :
    locateOne L v none = if v ∈ L then .ok (firstIdx L v) else .error .index := by
  unfold locateOne
  simp only
  by_cases h : v ∈ L
  · simp [h, firstIdx_lt_iff.mpr h]
  · have : ¬ firstIdx L v < L.length := fun hlt => h (firstIdx_lt_iff.mp hlt)
    simp [h, this]

/-- one entry of `locate_many` on a present label (labels stored in any order) -/
theorem locateMany_entry_found (L : List Label) (v : Label) (hv : v ∈ L) :
    L[takeClip (argsortBy Label.le L) (searchSide Label.lt .left (sortBy Label.le L) v)]? = some v := by
  have := locateRaw_found Label.le Label.le_trans Label.le_total Label.le_antisymm L v hv
  simpa [searchSide, label_lt_eq] using this

/-- entries of the argsort are valid positions -/
theorem takeClip_argsort_lt (L : List Label) (hL : L ≠ []) (i : Nat) :
    takeClip (argsortBy Label.le L) i < L.length := by
  unfold takeClip
  have hlen : (argsortBy Label.le L).length = L.length := by
    simp [argsortBy_eq, sortedPairs_length]
  have hpos : 0 < L.length := List.length_pos_iff.mpr hL
  have hi : min i ((argsortBy Label.le L).length - 1) < (argsortBy Label.le L).length := by omega
  rw [List.getD_eq_getElem?_getD, List.getElem?_eq_getElem hi]
  simp only [Option.getD_some]
  have hm : (argsortBy Label.le L)[min i ((argsortBy Label.le L).length - 1)] ∈ argsortBy Label.le L :=
    List.getElem_mem hi
  have hm' : (argsortBy Label.le L)[min i ((argsortBy Label.le L).length - 1)] ∈
      (sortedPairs Label.le L).map (·.2) := hm
  obtain ⟨p, hp, hp2⟩ := List.mem_map.mp hm'
  have := sortedPairs_mem Label.le hp
  have hlt : p.2 < L.length := by
    by_cases h : p.2 < L.length
    · exact h
    · simp [List.getElem?_eq_none (Nat.le_of_not_lt h)] at this
  omega

/-- `locate_many` + the mismatch guard of `loc`: a list of labels on a duplicate-free axis -/
theorem loc_list (L : List Label) (kind : Kind) (vs : List Label) (hn : L.Nodup) :
    loc L kind (.list vs) none false =
      if vs.all (fun v => decide (v ∈ L)) then .ok (.ints ((vs.map (firstIdx L)).map Int.ofNat))
      else .error .index := by
  have htol : (if kind.isNumeric then (none : Option Tol) else none) = none := by split <;> rfl
  unfold loc
  simp only [htol]
  by_cases hall : vs.all (fun v => decide (v ∈ L)) = true
  · -- all present
    simp only [hall, if_true]
    have hmem : ∀ v ∈ vs, v ∈ L := by simpa using hall
    have hms : locateMany L vs .left = vs.map (firstIdx L) := by
      unfold locateMany
      apply List.map_congr_left
      intro v hv
      have hf := locateMany_entry_found L v (hmem v hv)
      have hlt : takeClip (argsortBy Label.le L) (searchSide Label.lt .left (sortBy Label.le L) v) < L.length := by
        by_cases h : takeClip (argsortBy Label.le L) (searchSide Label.lt .left (sortBy Label.le L) v) < L.length
        · exact h
        · simp [List.getElem?_eq_none (Nat.le_of_not_lt h)] at hf
      rw [List.getElem?_eq_getElem hlt] at hf
      have hf' := Option.some.inj hf
      have h2 := firstIdx_getElem (firstIdx_lt_iff.mpr (hmem v hv))
      exact (List.getElem_inj hn).mp (hf'.trans h2.symm)
    rw [hms]
    have hemp : (L.isEmpty && !vs.isEmpty) = false := by
      cases vs with
      | nil => simp
      | cons v vs' =>
        have : v ∈ L := hmem v (by simp)
        cases L with
        | nil => simp at this
        | cons _ _ => simp
    have hguard : ((vs.map (firstIdx L)).zip vs).all (fun (p, v) => L.getD p Label.none == v) = true := by
      rw [List.all_eq_true]
      intro ⟨p, v⟩ hpv
      have hz := List.of_mem_zip hpv
      obtain ⟨hp, hv⟩ := hz
      have : p = firstIdx L v := by
        have := List.mem_iff_getElem.mp hpv
        obtain ⟨i, hi, hi2⟩ := this
        simp at hi2
        rw [← hi2.1, ← hi2.2]
      subst this
      have hlt := firstIdx_lt_iff.mpr (hmem v hv)
      simp [List.getD_eq_getElem?_getD, List.getElem?_eq_getElem hlt, firstIdx_getElem hlt]
    simp only [hemp, hguard, Bool.false_eq_true, if_false, if_true]
  · -- some label absent
    simp only [hall, if_false, Bool.false_eq_true]
    have hex : ∃ v ∈ vs, v ∉ L := by
      simpa using hall
    obtain ⟨v, hv, hvL⟩ := hex
    by_cases hL : L = []
    · subst hL
      have : vs.isEmpty = false := by cases vs <;> simp at hv ⊢
      simp [this]
    · have hemp : (L.isEmpty && !vs.isEmpty) = false := by
        cases L with
        | nil => exact absurd rfl hL
        | cons _ _ => simp
      have hguard : ((locateMany L vs .left).zip vs).all (fun (p, v) => L.getD p Label.none == v) = false := by
        rw [List.all_eq_false]
        obtain ⟨i, hi, rfl⟩ := List.getElem_of_mem hv
        refine ⟨((locateMany L vs .left)[i]'(by simp [locateMany]; exact hi), vs[i]), ?_, ?_⟩
        · apply List.mem_iff_getElem.mpr
          refine ⟨i, by simp [locateMany]; exact hi, by simp⟩
        · have hlt : (locateMany L vs .left)[i]'(by simp [locateMany]; exact hi) < L.length := by
            simp only [locateMany, List.getElem_map]
            exact takeClip_argsort_lt L hL _
          simp only [List.getD_eq_getElem?_getD, List.getElem?_eq_getElem hlt, Option.getD_some]
          intro heq
          apply hvL
          have := List.getElem_mem hlt
          simp at heq
          rw [← heq]; exact this
      simp only [hemp, hguard, Bool.false_eq_true, if_false]

end DimModel

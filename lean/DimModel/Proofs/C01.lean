/-
Helper lemmas for C01: per-dimension refinement of `loc` + NumPy resolution to `Spec.positions`.
-/
import DimModel.Spec.C01
import DimModel.Proofs.Order
namespace DimModel
open Lib


/-- `locate_one` without tolerance: the first position of the label, `IndexError` if absent -/
theorem locateOne_none (L : List Label) (v : Label) :
    locateOne L v none = if v ∈ L then .ok (firstIdx L v) else .error .index := by
  unfold locateOne
  simp only
  by_cases h : v ∈ L
  · simp [h, firstIdx_lt_iff.mpr h]
  · have : ¬ firstIdx L v < L.length := fun hlt => h (firstIdx_lt_iff.mp hlt)
    simp [h, this]

/-- one entry of `locate_many` on a present label (labels stored in any order) -/
theorem locateMany_entry_found (L : List Label) (v : Label) (hv : v ∈ L) :
    L[takeClip (argsortBy Label.le L) (searchSide Label.lt .left (sortBy Label.le L) v)]? = some v := by
  have := locateRaw_found Label.le Label.le_trans Label.le_total Label.le_antisymm L v hv
  simpa [searchSide, label_lt_eq] using this

/-- entries of the argsort are valid positions -/
theorem takeClip_argsort_lt (L : List Label) (hL : L ≠ []) (i : Nat) :
    takeClip (argsortBy Label.le L) i < L.length := by
  unfold takeClip
  have hlen : (argsortBy Label.le L).length = L.length := by
    simp [argsortBy_eq, sortedPairs_length]
  have hpos : 0 < L.length := List.length_pos_iff.mpr hL
  have hi : min i ((argsortBy Label.le L).length - 1) < (argsortBy Label.le L).length := by omega
  rw [List.getD_eq_getElem?_getD, List.getElem?_eq_getElem hi]
  simp only [Option.getD_some]
  have hm : (argsortBy Label.le L)[min i ((argsortBy Label.le L).length - 1)] ∈ argsortBy Label.le L :=
    List.getElem_mem hi
  have hm' : (argsortBy Label.le L)[min i ((argsortBy Label.le L).length - 1)] ∈
      (sortedPairs Label.le L).map (·.2) := hm
  obtain ⟨p, hp, hp2⟩ := List.mem_map.mp hm'
  have := sortedPairs_mem Label.le hp
  have hlt : p.2 < L.length := by
    by_cases h : p.2 < L.length
    · exact h
    · simp [List.getElem?_eq_none (Nat.le_of_not_lt h)] at this
  omega

/-- `locate_many` + the mismatch guard of `loc`: a list of labels on a duplicate-free axis -/
theorem loc_list (L : List Label) (kind : Kind) (vs : List Label) (hn : L.Nodup) :
    loc L kind (.list vs) none false =
      if vs.all (fun v => decide (v ∈ L)) then .ok (.ints ((vs.map (firstIdx L)).map Int.ofNat))
      else .error .index := by
  have htol : (if kind.isNumeric then (none : Option Tol) else none) = none := by split <;> rfl
  unfold loc
  simp only [htol]
  by_cases hall : vs.all (fun v => decide (v ∈ L)) = true
  · -- all present
    simp only [hall, if_true]
    have hmem : ∀ v ∈ vs, v ∈ L := by simpa using hall
    have hms : locateMany L vs .left = vs.map (firstIdx L) := by
      unfold locateMany
      apply List.map_congr_left
      intro v hv
      have hf := locateMany_entry_found L v (hmem v hv)
      have hlt : takeClip (argsortBy Label.le L) (searchSide Label.lt .left (sortBy Label.le L) v) < L.length := by
        by_cases h : takeClip (argsortBy Label.le L) (searchSide Label.lt .left (sortBy Label.le L) v) < L.length
        · exact h
        · simp [List.getElem?_eq_none (Nat.le_of_not_lt h)] at hf
      rw [List.getElem?_eq_getElem hlt] at hf
      have hf' := Option.some.inj hf
      have h2 := firstIdx_getElem (firstIdx_lt_iff.mpr (hmem v hv))
      exact (List.getElem_inj hn).mp (hf'.trans h2.symm)
    rw [hms]
    have hemp : (L.isEmpty && !vs.isEmpty) = false := by
      cases vs with
      | nil => simp
      | cons v vs' =>
        have : v ∈ L := hmem v (by simp)
        cases L with
        | nil => simp at this
        | cons _ _ => simp
    have hguard : ((vs.map (firstIdx L)).zip vs).all (fun (p, v) => L.getD p Label.none == v) = true := by
      rw [List.all_eq_true]
      intro ⟨p, v⟩ hpv
      have hz := List.of_mem_zip hpv
      obtain ⟨hp, hv⟩ := hz
      have : p = firstIdx L v := by
        have := List.mem_iff_getElem.mp hpv
        obtain ⟨i, hi, hi2⟩ := this
        simp at hi2
        rw [← hi2.1, ← hi2.2]
      subst this
      have hlt := firstIdx_lt_iff.mpr (hmem v hv)
      simp [List.getD_eq_getElem?_getD, List.getElem?_eq_getElem hlt, firstIdx_getElem hlt]
    simp only [hemp, hguard, Bool.false_eq_true, if_false, if_true]
  · -- some label absent
    simp only [hall, if_false, Bool.false_eq_true]
    have hex : ∃ v ∈ vs, v ∉ L := by
      simpa using hall
    obtain ⟨v, hv, hvL⟩ := hex
    by_cases hL : L = []
    · subst hL
      have : vs.isEmpty = false := by cases vs <;> simp at hv ⊢
      simp [this]
    · have hemp : (L.isEmpty && !vs.isEmpty) = false := by
        cases L with
        | nil => exact absurd rfl hL
        | cons _ _ => simp
      have hguard : ((locateMany L vs .left).zip vs).all (fun (p, v) => L.getD p Label.none == v) = false := by
        rw [List.all_eq_false]
        obtain ⟨i, hi, rfl⟩ := List.getElem_of_mem hv
        refine ⟨((locateMany L vs .left)[i]'(by simp [locateMany]; exact hi), vs[i]), ?_, ?_⟩
        · apply List.mem_iff_getElem.mpr
          refine ⟨i, by simp [locateMany]; exact hi, by simp⟩
        · have hlt : (locateMany L vs .left)[i]'(by simp [locateMany]; exact hi) < L.length := by
            simp only [locateMany, List.getElem_map]
            exact takeClip_argsort_lt L hL _
          simp only [List.getD_eq_getElem?_getD, List.getElem?_eq_getElem hlt, Option.getD_some]
          intro heq
          apply hvL
          have := List.getElem_mem hlt
          simp at heq
          rw [← heq]; exact this
      simp only [hemp, hguard, Bool.false_eq_true, if_false]

/-! ### tolerance (round 2): `np.argmin` of the distances -/

/-- invariant of the scan of `np.argmin`: `best = l[bi]` is the first minimum of the first `i`
elements of `l`, `ys` is the rest; the result is in range, a minimum of `l`, and the first one -/
theorem argminRat_go_spec (l : List Rat) : ∀ (ys : List Rat) (best : Rat) (bi i : Nat),
    l.drop i = ys → bi < i → i ≤ l.length → l.getD bi 0 = best →
    (∀ j, j < i → best ≤ l.getD j 0) → (∀ j, j < bi → best < l.getD j 0) →
    argminRat.go best bi i ys < l.length ∧
    (∀ j, j < l.length → l.getD (argminRat.go best bi i ys) 0 ≤ l.getD j 0) ∧
    (∀ j, j < argminRat.go best bi i ys → l.getD (argminRat.go best bi i ys) 0 < l.getD j 0) := by
  intro ys
  induction ys with
  | nil =>
    intro best bi i hd hbi hi hb hmin hfirst
    have : l.length ≤ i := by simpa using hd
    have hi' : i = l.length := by omega
    subst hi'
    simp only [argminRat.go]
    rw [hb]
    exact ⟨hbi, hmin, hfirst⟩
  | cons y ys ih =>
    intro best bi i hd hbi hi hb hmin hfirst
    have hlt : i < l.length := by
      rcases Nat.lt_or_ge i l.length with h | h
      · exact h
      · rw [List.drop_eq_nil_of_le h] at hd; cases hd
    have hy : l.getD i 0 = y := by
      rw [List.getD_eq_getElem?_getD, ← List.head?_drop, hd]; rfl
    have hd' : l.drop (i+1) = ys := by
      rw [← List.drop_drop, hd]; rfl
    simp only [argminRat.go]
    split
    · rename_i hyb
      apply ih y i (i+1) hd' (by omega) (by omega) hy
      · intro j hj
        rcases Nat.lt_or_ge j i with h | h
        · have := hmin j h; grind
        · have : j = i := by omega
          subst this; rw [hy]; exact Rat.le_refl
      · intro j hj
        have := hmin j hj; grind
    · rename_i hyb
      apply ih best bi (i+1) hd' (by omega) (by omega) hb
      · intro j hj
        rcases Nat.lt_or_ge j i with h | h
        · exact hmin j h
        · have : j = i := by omega
          subst this; rw [hy]; grind
      · exact hfirst

theorem ratAbs_nonneg (x : Rat) : 0 ≤ ratAbs x := by unfold ratAbs; split <;> grind
theorem ratAbs_sub_self (q : Rat) : ratAbs (q - q) = 0 := by unfold ratAbs; split <;> grind
theorem ratAbs_sub_le_zero {x q : Rat} (h : ratAbs (x - q) ≤ 0) : x = q := by
  unfold ratAbs at h; split at h <;> grind

/-- `np.argmin` on a non-empty list: in range, a minimum, and the first minimum -/
theorem argminRat_spec (l : List Rat) (hl : l ≠ []) :
    argminRat l < l.length ∧
    (∀ j, j < l.length → l.getD (argminRat l) 0 ≤ l.getD j 0) ∧
    (∀ j, j < argminRat l → l.getD (argminRat l) 0 < l.getD j 0) := by
  cases l with
  | nil => exact absurd rfl hl
  | cons x xs =>
    simp only [argminRat]
    apply argminRat_go_spec (x :: xs) xs x 0 1 rfl (by omega) (by simp) rfl
    · intro j hj
      have : j = 0 := by omega
      subst this; exact Rat.le_refl
    · intro j hj; omega

theorem Tol.ge_mono (t : Tol) {d d' : Rat} (hd : d' ≤ d) (h : t.ge d = true) : t.ge d' = true := by
  cases t with
  | inf => rfl
  | fin x =>
    simp only [Tol.ge, decide_eq_true_eq] at h ⊢
    exact Rat.le_trans hd h

theorem ratAbs_dist_getD (qs : List Rat) (q : Rat) (i : Nat) (hi : i < qs.length) :
    (qs.map (fun x => ratAbs (x - q))).getD i 0 = ratAbs (qs.getD i 0 - q) := by
  simp [List.getD_eq_getElem?_getD, List.getElem?_eq_getElem hi]

/-- `locate_one` with a tolerance on numeric operands and a non-empty axis -/
theorem locateOne_tol_unfold (L : List Label) (v : Label) (t : Tol) (q : Rat) (qs : List Rat)
    (hv : v.toRat? = some q) (hL : L.mapM Label.toRat? = some qs) (hne : qs ≠ []) :
    locateOne L v (some t) =
      if t.ge (ratAbs (qs.getD (argminRat (qs.map (fun x => ratAbs (x - q)))) 0 - q)) then
        .ok (argminRat (qs.map (fun x => ratAbs (x - q)))) else .error .index := by
  have hem : qs.isEmpty = false := by cases qs with
    | nil => exact absurd rfl hne
    | cons _ _ => rfl
  have hne' : qs.map (fun x => ratAbs (x - q)) ≠ [] := by simpa using hne
  have hm := (argminRat_spec _ hne').1
  rw [List.length_map] at hm
  unfold locateOne
  simp only [hv, hL, hem, Bool.false_eq_true, if_false, ratAbs_dist_getD qs q _ hm]

theorem locateOne_tol_empty (L : List Label) (v : Label) (t : Tol) (q : Rat)
    (hv : v.toRat? = some q) (hL : L.mapM Label.toRat? = some []) :
    locateOne L v (some t) = .error .index := by
  unfold locateOne
  simp only [hv, hL, List.isEmpty_nil, if_true]

/-- `np.argmin(np.abs(values - val))`: in range, nearest, and the first of the nearest -/
theorem argminRat_dist_spec (qs : List Rat) (q : Rat) (hne : qs ≠ []) :
    argminRat (qs.map (fun x => ratAbs (x - q))) < qs.length ∧
    (∀ i, i < qs.length → ratAbs (qs.getD (argminRat (qs.map (fun x => ratAbs (x - q)))) 0 - q) ≤
      ratAbs (qs.getD i 0 - q)) ∧
    (∀ i, i < argminRat (qs.map (fun x => ratAbs (x - q))) →
      ratAbs (qs.getD (argminRat (qs.map (fun x => ratAbs (x - q)))) 0 - q) < ratAbs (qs.getD i 0 - q)) := by
  have hne' : qs.map (fun x => ratAbs (x - q)) ≠ [] := by simpa using hne
  obtain ⟨h1, h2, h3⟩ := argminRat_spec _ hne'
  rw [List.length_map] at h1 h2
  refine ⟨h1, ?_, ?_⟩
  · intro i hi
    have := h2 i hi
    rwa [ratAbs_dist_getD qs q _ h1, ratAbs_dist_getD qs q _ hi] at this
  · intro i hi
    have := h3 i hi
    rwa [ratAbs_dist_getD qs q _ h1, ratAbs_dist_getD qs q _ (by omega)] at this

end DimModel

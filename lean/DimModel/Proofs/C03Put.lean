/-
Helper lemmas for the end-to-end theorems of C03 (`Lib.put` as the driver calls it).
Self-contained (no import of `Props/C03`, which imports this file); some generic lemmas are
restated from `Proofs/C20` under the namespace `C03P` because `Proofs/C20` imports `Props/C03`.
-/
import DimModel.Props.C01
import DimModel.Props.C02
namespace DimModel.C03P
open Lib

/-! ### generic `mapM` / resolution lemmas -/

theorem mapM_nil_ok {ε β γ : Type} (f : β → Except ε γ) (out : List γ)
    (h : ([] : List β).mapM f = .ok out) : out = [] := by
  simp only [List.mapM_nil, pure, Except.pure, Except.ok.injEq] at h
  exact h.symm

theorem mapM_cons_ok {ε β γ : Type} (f : β → Except ε γ) (a : β) (l : List β) (out : List γ)
    (h : (a :: l).mapM f = .ok out) : ∃ b bs, f a = .ok b ∧ l.mapM f = .ok bs ∧ out = b :: bs := by
  rw [List.mapM_cons] at h
  simp only [bind, Except.bind, pure, Except.pure] at h
  cases hfa : f a with
  | error e => simp [hfa] at h
  | ok b =>
    simp only [hfa] at h
    cases hl : l.mapM f with
    | error e => simp [hl] at h
    | ok bs =>
      simp only [hl, Except.ok.injEq] at h
      exact ⟨b, bs, rfl, rfl, h.symm⟩

theorem mapM_ok_length {ε β γ : Type} (f : β → Except ε γ) (l : List β) (out : List γ)
    (h : l.mapM f = .ok out) : out.length = l.length := by
  induction l generalizing out with
  | nil => rw [mapM_nil_ok f out h]; rfl
  | cons a l ih =>
    obtain ⟨b, bs, _, hl, rfl⟩ := mapM_cons_ok f a l out h
    simp [ih bs hl]

theorem expandedIndexer_length (key : List Ix) (ndim : Nat) (r : List Ix)
    (h : expandedIndexer key ndim = .ok r) : r.length = ndim := by
  unfold expandedIndexer at h
  simp only at h
  split at h
  · cases h
  · rename_i hle
    cases h
    simp only [List.length_append, List.length_replicate]
    omega

theorem except_bind_ok {ε β γ : Type} (x : Except ε β) (f : β → Except ε γ) (b : γ)
    (h : x >>= f = .ok b) : ∃ a, x = .ok a ∧ f a = .ok b := by
  cases x with
  | error e => simp [bind, Except.bind] at h
  | ok a => exact ⟨a, rfl, h⟩

theorem normalizeIndex_length (dims : List String) (ui : UserIndex) (key : List Ix)
    (h : normalizeIndex dims ui = .ok key) : key.length = dims.length := by
  unfold normalizeIndex at h
  simp only [] at h
  split at h <;>
  · obtain ⟨k, _, hk⟩ := except_bind_ok _ _ _ h
    exact expandedIndexer_length _ _ _ hk

theorem getIndices_length (axes : List Axis) (ui : UserIndex) (cfg : IndexCfg) (raw : List RawIx)
    (h : getIndices axes ui cfg = .ok raw) : raw.length = axes.length := by
  unfold getIndices at h
  simp only [bind, Except.bind] at h
  split at h
  · cases h
  · rename_i key hkey
    have h1 := normalizeIndex_length _ _ _ hkey
    have h2 := mapM_ok_length _ _ _ h
    simp only [List.length_zip, List.length_map] at h1 h2
    omega


theorem resolveRaw_full (n : Nat) : resolveRaw (.slice none none none) n = .ok (.list (List.range n)) := by
  simp [resolveRaw, slicePositions_full, bind, Except.bind, pure, Except.pure]

theorem resolveRaw_ints (li : List Int) (n : Nat) (p : PosIx) (h : resolveRaw (.ints li) n = .ok p) :
    ∃ ps, p = .list ps ∧ ps.length = li.length := by
  unfold resolveRaw at h
  simp only [bind, Except.bind, pure, Except.pure] at h
  split at h
  · cases h
  · rename_i ps hps
    cases h
    exact ⟨ps, rfl, mapM_ok_length _ _ _ hps⟩

theorem resolveRaw_mask (m : List Bool) (n : Nat) (p : PosIx) (h : resolveRaw (.mask m) n = .ok p) :
    p = .list (nonzero m) := by
  unfold resolveRaw at h
  simp only at h
  split at h
  · cases h; rfl
  · cases h

theorem resolveRaw_slice (s e st : Option Int) (n : Nat) (p : PosIx) (h : resolveRaw (.slice s e st) n = .ok p) :
    ∃ ps, slicePositions s e st n = .ok ps ∧ p = .list ps := by
  unfold resolveRaw at h
  simp only [bind, Except.bind, pure, Except.pure] at h
  split at h
  · cases h
  · rename_i ps hps
    cases h
    exact ⟨ps, hps, rfl⟩

theorem nonzero_nil_of_not_any (m : List Bool) (h : m.any id = false) : nonzero m = [] := by
  unfold nonzero
  rw [List.map_eq_nil_iff, List.filter_eq_nil_iff]
  intro ⟨b, q⟩ hmem
  have := List.mem_zipIdx_iff_getElem?.mp hmem
  simp only at this
  have hb : b ∈ m := List.mem_of_getElem? this
  simp only [List.any_eq_false, id] at h
  simpa using h b hb

theorem zero_mem_outerShape_cons (p : PosIx) (ps : List PosIx) (h : 0 ∈ outerShape ps) :
    0 ∈ outerShape (p :: ps) := by
  cases p <;> simp [outerShape, h]

theorem anyEmpty_zero_mem (f : RawIx × Axis → Except Err PosIx) (E : RawIx × Axis → Bool)
    (hf : ∀ r ax, f (r, ax) = resolveRaw r ax.size)
    (hE1 : ∀ li ax, E (.ints li, ax) = li.isEmpty)
    (hE2 : ∀ m ax, E (.mask m, ax) = !m.any id)
    (hE3 : ∀ s e st ax ps, slicePositions s e st ax.size = .ok ps → E (.slice s e st, ax) = ps.isEmpty)
    (hE4 : ∀ i ax, E (.int i, ax) = false)
    (l : List (RawIx × Axis)) (pix : List PosIx)
    (h : l.mapM f = .ok pix) (hany : l.any E = true) : 0 ∈ outerShape pix := by
  induction l generalizing pix with
  | nil => simp at hany
  | cons x l ih =>
    obtain ⟨r, ax⟩ := x
    obtain ⟨p, ps, hp, hps, rfl⟩ := mapM_cons_ok f _ _ pix h
    rw [hf] at hp
    simp only [List.any_cons, Bool.or_eq_true] at hany
    rcases hany with hx | hrest
    · cases r with
      | int i => rw [hE4] at hx; cases hx
      | ints li =>
        rw [hE1] at hx
        obtain ⟨qs, rfl, hlen⟩ := resolveRaw_ints li _ p hp
        have : li = [] := by simpa using hx
        subst this
        have : qs = [] := List.eq_nil_of_length_eq_zero (by simpa using hlen)
        subst this
        simp [outerShape]
      | mask m =>
        rw [hE2] at hx
        have := resolveRaw_mask m _ p hp
        subst this
        rw [nonzero_nil_of_not_any m (by simpa using hx)]
        simp [outerShape]
      | slice s e st =>
        obtain ⟨qs, hqs, rfl⟩ := resolveRaw_slice s e st _ p hp
        rw [hE3 s e st ax qs hqs] at hx
        have : qs = [] := by simpa using hx
        subst this
        simp [outerShape]
    · exact zero_mem_outerShape_cons p ps (ih ps hps hrest)

theorem putOne_all (f g : RawIx × Axis → Except Err PosIx) (b : Bool)
    (hf : ∀ r ax, f (r, ax) = resolveRaw r ax.size)
    (hg1 : ∀ li ax, g (.ints li, ax) =
      if b = true then pure (PosIx.list (li.map fun _ => 0)) else resolveRaw (.ints li) ax.size)
    (hg2 : ∀ m ax, g (.mask m, ax) =
      if b = true then pure (PosIx.list ((nonzero m).map fun _ => 0)) else resolveRaw (.mask m) ax.size)
    (hg3 : ∀ s e st ax, g (.slice s e st, ax) = resolveRaw (.slice s e st) ax.size)
    (hg4 : ∀ i ax, g (.int i, ax) = resolveRaw (.int i) ax.size)
    (l : List (RawIx × Axis)) (pix : List PosIx) (h : l.mapM f = .ok pix) :
    ∃ pix', l.mapM g = .ok pix' ∧ outerShape pix' = outerShape pix ∧ (b = false → pix' = pix) := by
  induction l generalizing pix with
  | nil =>
    rw [mapM_nil_ok f pix h]
    exact ⟨[], rfl, rfl, fun _ => rfl⟩
  | cons x l ih =>
    obtain ⟨r, ax⟩ := x
    obtain ⟨p, ps, hp, hps, rfl⟩ := mapM_cons_ok f _ _ pix h
    rw [hf] at hp
    obtain ⟨ps', hps', hsh, heq⟩ := ih ps hps
    have key : ∃ p', g (r, ax) = .ok p' ∧ outerShape (p' :: ps') = outerShape (p :: ps) ∧
        (b = false → p' = p) := by
      cases r with
      | int i => exact ⟨p, by rw [hg4, hp], by cases p <;> simp [outerShape, hsh], fun _ => rfl⟩
      | slice s e st => exact ⟨p, by rw [hg3, hp], by cases p <;> simp [outerShape, hsh], fun _ => rfl⟩
      | ints li =>
        cases b with
        | false =>
          exact ⟨p, by rw [hg1, ← hp]; simp, by cases p <;> simp [outerShape, hsh], fun _ => rfl⟩
        | true =>
          obtain ⟨qs, rfl, hlen⟩ := resolveRaw_ints li _ p hp
          exact ⟨PosIx.list (li.map fun _ => 0), by rw [hg1]; rfl, by simp [outerShape, hsh, hlen],
            fun h => by cases h⟩
      | mask m =>
        cases b with
        | false =>
          exact ⟨p, by rw [hg2, ← hp]; simp, by cases p <;> simp [outerShape, hsh], fun _ => rfl⟩
        | true =>
          have := resolveRaw_mask m _ p hp
          subst this
          exact ⟨PosIx.list ((nonzero m).map fun _ => 0), by rw [hg2]; rfl, by simp [outerShape, hsh],
            fun h => by cases h⟩
    obtain ⟨p', hp', hsh', heq'⟩ := key
    refine ⟨p' :: ps', ?_, hsh', ?_⟩
    · rw [List.mapM_cons, hp', hps']; rfl
    · intro hb; rw [heq' hb, heq hb]

theorem putOne_all_or (f g : RawIx × Axis → Except Err PosIx) (b : Bool)
    (hf : ∀ r ax, f (r, ax) = resolveRaw r ax.size)
    (hg1 : ∀ li ax, g (.ints li, ax) =
      if b = true then pure (PosIx.list (li.map fun _ => 0)) else resolveRaw (.ints li) ax.size)
    (hg2 : ∀ m ax, g (.mask m, ax) =
      if b = true then pure (PosIx.list ((nonzero m).map fun _ => 0)) else resolveRaw (.mask m) ax.size)
    (hg3 : ∀ s e st ax, g (.slice s e st, ax) = resolveRaw (.slice s e st) ax.size)
    (hg4 : ∀ i ax, g (.int i, ax) = resolveRaw (.int i) ax.size)
    (l : List (RawIx × Axis)) (pix : List PosIx) (h : l.mapM f = .ok pix)
    (Q : Prop) (hQ : b = true → Q) :
    ∃ pix', l.mapM g = .ok pix' ∧ outerShape pix' = outerShape pix ∧ (pix' = pix ∨ Q) := by
  obtain ⟨pix', h1, h2, h3⟩ := putOne_all f g b hf hg1 hg2 hg3 hg4 l pix h
  refine ⟨pix', h1, h2, ?_⟩
  cases b with
  | false => exact Or.inl (h3 rfl)
  | true => exact Or.inr (hQ rfl)

/-- the index arrays of a key are among its (index, axis) pairs -/
theorem arrayKeys_subset (axes : List Axis) (raw : List RawIx) (x : RawIx × Axis) (hx : x ∈ arrayKeys axes raw) :
    x ∈ raw.zip axes := by
  unfold arrayKeys at hx
  obtain ⟨⟨k, y⟩, hy, rfl⟩ := List.mem_map.mp hx
  exact (List.of_mem_zip (List.mem_filter.mp hy).1).2

theorem arrayKeys_any_imp (axes : List Axis) (raw : List RawIx) (E : RawIx × Axis → Bool)
    (h : (arrayKeys axes raw).any E = true) : (raw.zip axes).any E = true := by
  obtain ⟨x, hx, hE⟩ := List.any_eq_true.mp h
  exact List.any_eq_true.mpr ⟨x, arrayKeys_subset axes raw x hx, hE⟩

theorem putIndices_of_resolve (f : RawIx × Axis → Except Err PosIx)
    (hf : ∀ r ax, f (r, ax) = resolveRaw r ax.size)
    (axes : List Axis) (raw : List RawIx) (pix : List PosIx)
    (h : (raw.zip axes).mapM f = .ok pix) :
    ∃ pix', putIndices axes raw = .ok pix' ∧ outerShape pix' = outerShape pix ∧
      (pix' = pix ∨ 0 ∈ outerShape pix) := by
  unfold putIndices
  simp only []
  generalize hb : List.any (arrayKeys axes raw) _ = b
  refine putOne_all_or f _ b hf ?_ ?_ ?_ ?_ _ pix h _ ?_
  · intro _ _; rfl
  · intro _ _; rfl
  · intro _ _ _ _; rfl
  · intro _ _; rfl
  · intro hbt
    rw [hbt] at hb
    refine anyEmpty_zero_mem f _ hf ?_ ?_ ?_ ?_ _ pix h (arrayKeys_any_imp axes raw _ hb)
    · intro _ _; rfl
    · intro _ _; rfl
    · intro s e st ax ps hps
      simp only [hps]
    · intro _ _; rfl

theorem selCoord_none_of_zero (pix : List PosIx) (j : List Nat) (h : 0 ∈ outerShape pix) :
    selCoord pix j = none := by
  induction pix generalizing j with
  | nil => simp [outerShape] at h
  | cons p pix ih =>
    cases j with
    | nil => cases p <;> rfl
    | cons k j =>
      cases p with
      | scalar p =>
        simp only [outerShape] at h
        simp only [selCoord, ih j h, ite_self]
      | list ps =>
        simp only [outerShape, List.mem_cons] at h
        simp only [selCoord]
        rcases h with h | h
        · have : ps = [] := List.eq_nil_of_length_eq_zero h.symm
          subst this
          have : lastSel [] k = none := rfl
          rw [this]
        · rw [ih j h]
          cases lastSel ps k <;> rfl



/-! ### `lastSel`: the last occurrence writes -/

theorem lastSel_spec (ps : List Nat) (k c : Nat) :
    lastSel ps k = some c ↔ (ps[c]? = some k ∧ ∀ c', c < c' → ps[c']? ≠ some k) := by
  unfold lastSel
  have hlen : ps.reverse.length = ps.length := List.length_reverse
  simp only
  constructor
  · intro h
    split at h
    · rename_i hlt
      cases h
      have hlt' : List.findIdx (· == k) ps.reverse < ps.reverse.length := by rw [hlen]; exact hlt
      have hget := List.findIdx_getElem (p := (· == k)) (xs := ps.reverse) (w := hlt')
      have hk : ps.reverse[List.findIdx (· == k) ps.reverse] = k := by simpa using hget
      rw [List.getElem_reverse] at hk
      have hidx : ps.length - 1 - List.findIdx (· == k) ps.reverse < ps.length := by omega
      refine ⟨by rw [List.getElem?_eq_getElem hidx]; exact congrArg some hk, ?_⟩
      intro c' hc' hcontra
      have hc'lt : c' < ps.length := by
        rcases Nat.lt_or_ge c' ps.length with h | h
        · exact h
        · rw [List.getElem?_eq_none h] at hcontra; cases hcontra
      have hr : ps.length - 1 - c' < List.findIdx (· == k) ps.reverse := by omega
      have := List.not_of_lt_findIdx hr
      rw [List.getElem_reverse] at this
      have hidx' : ps.length - 1 - (ps.length - 1 - c') = c' := by omega
      simp only [hidx'] at this
      rw [List.getElem?_eq_getElem hc'lt] at hcontra
      simp only [Option.some.injEq] at hcontra
      simp [hcontra] at this
    · cases h
  · rintro ⟨hc, hlast⟩
    have hclt : c < ps.length := by
      rcases Nat.lt_or_ge c ps.length with h | h
      · exact h
      · rw [List.getElem?_eq_none h] at hc; cases hc
    have hmem : k ∈ ps := List.mem_of_getElem? hc
    have hlt' : List.findIdx (· == k) ps.reverse < ps.reverse.length :=
      List.findIdx_lt_length.mpr ⟨k, List.mem_reverse.mpr hmem, by simp⟩
    have hlt : List.findIdx (· == k) ps.reverse < ps.length := by rw [hlen] at hlt'; exact hlt'
    rw [if_pos hlt]
    congr 1
    -- the found occurrence is `c`
    have hget := List.findIdx_getElem (p := (· == k)) (xs := ps.reverse) (w := hlt')
    have hk : ps.reverse[List.findIdx (· == k) ps.reverse] = k := by simpa using hget
    rw [List.getElem_reverse] at hk
    have hidx : ps.length - 1 - List.findIdx (· == k) ps.reverse < ps.length := by omega
    rcases Nat.lt_trichotomy (ps.length - 1 - List.findIdx (· == k) ps.reverse) c with h | h | h
    · -- `c` is a later occurrence: contradicts minimality of the reverse index
      have hr : ps.length - 1 - c < List.findIdx (· == k) ps.reverse := by omega
      have := List.not_of_lt_findIdx hr
      rw [List.getElem_reverse] at this
      have hidx' : ps.length - 1 - (ps.length - 1 - c) = c := by omega
      simp only [hidx'] at this
      rw [List.getElem?_eq_getElem hclt] at hc
      simp only [Option.some.injEq] at hc
      simp [hc] at this
    · exact h
    · exact absurd (by rw [List.getElem?_eq_getElem hidx]; exact congrArg some hk) (hlast _ h)

theorem lastSel_isSome_iff (ps : List Nat) (k : Nat) : (lastSel ps k).isSome = true ↔ k ∈ ps := by
  unfold lastSel
  have hlen : ps.reverse.length = ps.length := List.length_reverse
  simp only
  constructor
  · intro h
    split at h
    · rename_i hlt
      have hlt' : List.findIdx (· == k) ps.reverse < ps.reverse.length := by rw [hlen]; exact hlt
      obtain ⟨x, hx, hxk⟩ := List.findIdx_lt_length.mp hlt'
      have : x = k := by simpa using hxk
      subst this
      exact List.mem_reverse.mp hx
    · simp at h
  · intro h
    have : List.findIdx (· == k) ps.reverse < ps.reverse.length :=
      List.findIdx_lt_length.mpr ⟨k, List.mem_reverse.mpr h, by simp⟩
    rw [hlen] at this
    simp only [this, if_true, Option.isSome_some]

/-- without repeats, the writer of `ps[c]` is `c` -/
theorem lastSel_nodup (ps : List Nat) (hn : ps.Nodup) (c : Nat) (hc : c < ps.length) :
    lastSel ps ps[c] = some c := by
  rw [lastSel_spec]
  refine ⟨List.getElem?_eq_getElem hc, ?_⟩
  intro c' hcc' hcontra
  have hc'lt : c' < ps.length := by
    rcases Nat.lt_or_ge c' ps.length with h | h
    · exact h
    · rw [List.getElem?_eq_none h] at hcontra; cases hcontra
  rw [List.getElem?_eq_getElem hc'lt] at hcontra
  simp only [Option.some.injEq] at hcontra
  have := (List.getElem_inj hn).mp hcontra
  omega


end DimModel.C03P

/-! ### spec-level vocabulary for "the cells an index addresses" -/
namespace DimModel

/-- position `k` of a dimension is among the positions a resolved index selects -/
def PosIx.Has : PosIx → Nat → Prop
  | .scalar p, k => k = p
  | .list ps, k => k ∈ ps

instance (p : PosIx) (k : Nat) : Decidable (p.Has k) := by
  cases p <;> unfold PosIx.Has <;> exact inferInstance

namespace Spec

/-- cell `j` is addressed by the per-dimension selections `pix`: on every dimension its coordinate is among
the selected positions (orthogonal indexing) -/
def Addressed : List PosIx → List Nat → Prop
  | [], [] => True
  | p :: pix, k :: j => p.Has k ∧ Addressed pix j
  | _, _ => False

/-- `c` is the selection coordinate that writes cell `j` last: scalar-indexed dimensions are dropped, on a
list-indexed dimension `c₀` is the LAST occurrence of the cell's position in the list (NumPy assigns in order) -/
def Writer : List PosIx → List Nat → List Nat → Prop
  | [], [], [] => True
  | .scalar p :: pix, k :: j, c => k = p ∧ Writer pix j c
  | .list ps :: pix, k :: j, c0 :: c => (ps[c0]? = some k ∧ ∀ c', c0 < c' → ps[c']? ≠ some k) ∧ Writer pix j c
  | _, _, _ => False

/-- no repeated position inside any list selection -/
def NoRepeat (pix : List PosIx) : Prop := ∀ p ∈ pix, ∀ l, p = PosIx.list l → l.Nodup

end Spec

namespace C03P
open Lib Spec

theorem selCoord_eq_some_iff : ∀ (pix : List PosIx) (j c : List Nat), j.length = pix.length →
    (selCoord pix j = some c ↔ Writer pix j c)
  | [], [], c, _ => by
    cases c <;> simp [selCoord, Writer]
  | [], _ :: _, _, hl => by simp at hl
  | _ :: _, [], _, hl => by simp at hl
  | .scalar p :: pix, k :: j, c, hl => by
    have ih := selCoord_eq_some_iff pix j c (by simpa using hl)
    simp only [selCoord, Writer]
    by_cases hk : k = p
    · subst hk; simp [ih]
    · simp [hk]
  | .list ps :: pix, k :: j, [], hl => by
    simp only [selCoord, Writer]
    cases lastSel ps k <;> cases selCoord pix j <;> simp
  | .list ps :: pix, k :: j, c0 :: c, hl => by
    have ih := selCoord_eq_some_iff pix j c (by simpa using hl)
    have h1 := lastSel_spec ps k c0
    simp only [selCoord, Writer]
    cases hL : lastSel ps k with
    | none =>
      rw [hL] at h1
      simp only [reduceCtorEq, false_iff] at h1
      simp only [reduceCtorEq, false_iff]
      intro h; exact h1 h.1
    | some c1 =>
      cases hS : selCoord pix j with
      | none =>
        rw [hS] at ih
        simp only [reduceCtorEq, false_iff] at ih
        simp only [reduceCtorEq, false_iff]
        intro h; exact ih h.2
      | some cs =>
        rw [hL] at h1; rw [hS] at ih
        simp only [Option.some.injEq, List.cons.injEq] at h1 ih ⊢
        rw [h1, ih]

theorem selCoord_isSome_iff : ∀ (pix : List PosIx) (j : List Nat), j.length = pix.length →
    ((selCoord pix j).isSome = true ↔ Addressed pix j)
  | [], [], _ => by simp [selCoord, Addressed]
  | [], _ :: _, hl => by simp at hl
  | _ :: _, [], hl => by simp at hl
  | .scalar p :: pix, k :: j, hl => by
    have ih := selCoord_isSome_iff pix j (by simpa using hl)
    simp only [selCoord, Addressed, PosIx.Has]
    by_cases hk : k = p
    · subst hk; simp [ih]
    · simp [hk]
  | .list ps :: pix, k :: j, hl => by
    have ih := selCoord_isSome_iff pix j (by simpa using hl)
    have h1 := lastSel_isSome_iff ps k
    simp only [selCoord, Addressed, PosIx.Has]
    cases hL : lastSel ps k with
    | none => rw [hL] at h1; simp at h1; simp [h1]
    | some c1 =>
      rw [hL] at h1; simp at h1
      cases hS : selCoord pix j with
      | none => rw [hS] at ih; simp at ih; simp [ih]
      | some cs => rw [hS] at ih; simp at ih; simp [ih, h1]

theorem selCoord_none_iff (pix : List PosIx) (j : List Nat) (hl : j.length = pix.length) :
    selCoord pix j = none ↔ ¬ Addressed pix j := by
  rw [← selCoord_isSome_iff pix j hl]
  cases selCoord pix j <;> simp

/-- the writer coordinate lies inside the selection's shape -/
theorem writer_inRange : ∀ (pix : List PosIx) (j c : List Nat), Writer pix j c → InRange (outerShape pix) c
  | [], [], [], _ => by simp [outerShape, InRange]
  | [], [], _ :: _, h => by simp [Writer] at h
  | [], _ :: _, _, h => by simp [Writer] at h
  | _ :: _, [], _, h => by simp [Writer] at h
  | .scalar p :: pix, k :: j, c, h => by
    simp only [Writer] at h
    simp only [outerShape]
    exact writer_inRange pix j c h.2
  | .list ps :: pix, k :: j, [], h => by simp [Writer] at h
  | .list ps :: pix, k :: j, c0 :: c, h => by
    simp only [Writer] at h
    simp only [outerShape, InRange]
    refine ⟨?_, writer_inRange pix j c h.2⟩
    rcases Nat.lt_or_ge c0 ps.length with h' | h'
    · exact h'
    · have := h.1.1; rw [List.getElem?_eq_none h'] at this; cases this

/-- the written cell is the one the read addresses at the writer coordinate -/
theorem writer_expand : ∀ (pix : List PosIx) (j c : List Nat), Writer pix j c → expandIx pix c = j
  | [], [], [], _ => rfl
  | [], [], _ :: _, h => by simp [Writer] at h
  | [], _ :: _, _, h => by simp [Writer] at h
  | _ :: _, [], _, h => by simp [Writer] at h
  | .scalar p :: pix, k :: j, c, h => by
    simp only [Writer] at h
    simp only [expandIx, writer_expand pix j c h.2, h.1]
  | .list ps :: pix, k :: j, [], h => by simp [Writer] at h
  | .list ps :: pix, k :: j, c0 :: c, h => by
    simp only [Writer] at h
    simp only [expandIx, writer_expand pix j c h.2]
    simp [List.getD_eq_getElem?_getD, h.1.1]

/-- without repeats every selection coordinate is the writer of the cell it reads -/
theorem writer_of_noRepeat : ∀ (pix : List PosIx) (c : List Nat), NoRepeat pix → InRange (outerShape pix) c →
    Writer pix (expandIx pix c) c
  | [], [], _, _ => by simp [expandIx, Writer]
  | [], _ :: _, _, h => by simp [outerShape, InRange] at h
  | .scalar p :: pix, c, hn, h => by
    simp only [outerShape] at h
    simp only [expandIx, Writer, true_and]
    exact writer_of_noRepeat pix c (fun q hq => hn q (by simp [hq])) h
  | .list ps :: pix, [], _, h => by simp [outerShape, InRange] at h
  | .list ps :: pix, c0 :: c, hn, h => by
    simp only [outerShape, InRange] at h
    have hnd : ps.Nodup := hn (.list ps) (by simp) ps rfl
    simp only [expandIx, Writer]
    refine ⟨?_, writer_of_noRepeat pix c (fun q hq => hn q (by simp [hq])) h.2⟩
    have hget : ps.getD c0 0 = ps[c0]'h.1 := by
      simp [List.getD_eq_getElem?_getD, List.getElem?_eq_getElem h.1]
    rw [hget]
    exact (lastSel_spec ps _ c0).mp (lastSel_nodup ps hnd c0 h.1)

theorem expandIx_length : ∀ (pix : List PosIx) (c : List Nat), (expandIx pix c).length = pix.length
  | [], _ => rfl
  | .scalar _ :: pix, c => by simp [expandIx, expandIx_length pix c]
  | .list _ :: pix, [] => by simp [expandIx, expandIx_length pix []]
  | .list _ :: pix, _ :: c => by simp [expandIx, expandIx_length pix c]


end C03P

/-- NumPy's resolution of all per-dimension indices against the axis sizes: the second stage of `take`
(and, up to the unchecked-when-empty quirk, of `put`) -/
def resolveAll (axes : List Axis) (raw : List RawIx) : Except Err (List PosIx) :=
  (raw.zip axes).mapM fun x => Lib.resolveRaw x.1 x.2.size

/-- the array `put` returns when the index resolves to `ps` and the right-hand side broadcasts to `vget` -/
def Spec.putResult {α} (a : DimArray α) (ps : List PosIx) (vget : List Nat → α) (rk : Kind) (cast : Bool) :
    DimArray α :=
  { a with vals := Lib.putVals a.vals ps vget,
           vkind := if cast then Lib.maybeCastKind a.vkind rk else a.vkind }

namespace C03P
open Lib Spec

theorem cfg_keepdims_false (cfg : IndexCfg) (hk : cfg.keepdims = false) :
    { cfg with keepdims := false } = cfg := by
  cases cfg; simp_all

theorem putVals_congr {α} (vals : NDArr α) (p q : List PosIx) (vget : List Nat → α)
    (h : ∀ j, selCoord p j = selCoord q j) : putVals vals p vget = putVals vals q vget := by
  unfold putVals
  congr 1
  funext j
  rw [h j]

theorem take_of_resolve {α} (a : DimArray α) (ui : UserIndex) (cfg : IndexCfg) (raw : List RawIx)
    (ps : List PosIx) (hraw : getIndices a.axes ui cfg = .ok raw) (hps : resolveAll a.axes raw = .ok ps) :
    Lib.take a ui cfg = .ok { axes := getAxesOrtho a.axes raw ps, vals := a.vals.outer ps, vkind := a.vkind,
                              attrs := a.attrs } := by
  unfold Lib.take
  unfold resolveAll at hps
  simp only [hraw, bind, Except.bind, hps, pure, Except.pure]

/-- `put` through an index that `_get_indices` + NumPy resolve to `ps` -/
theorem put_of_resolve {α} (a : DimArray α) (ui : UserIndex) (rhs : RHS α) (rk : Kind) (cfg : IndexCfg)
    (cast : Bool) (raw : List RawIx) (ps : List PosIx)
    (hraw : getIndices a.axes ui { cfg with keepdims := false } = .ok raw)
    (hps : resolveAll a.axes raw = .ok ps) :
    put a ui rhs rk cfg cast =
      (putRhs rhs (outerShape ps)).map (fun vget => putResult a ps vget rk cast) := by
  obtain ⟨pix', h1, h2, h3⟩ := putIndices_of_resolve _ (fun _ _ => rfl) a.axes raw ps hps
  unfold put
  simp only [hraw, bind, Except.bind, h1, h2, pure, Except.pure]
  cases hv : putRhs rhs (outerShape ps) with
  | error e => rfl
  | ok vget =>
    simp only [Except.map, putResult]
    congr 2
    apply putVals_congr
    intro j
    rcases h3 with h3 | h3
    · rw [h3]
    · rw [selCoord_none_of_zero ps j h3, selCoord_none_of_zero pix' j (by rw [h2]; exact h3)]

theorem put_error_of_getIndices {α} (a : DimArray α) (ui : UserIndex) (rhs : RHS α) (rk : Kind) (cfg : IndexCfg)
    (cast : Bool) (e : Err) (hraw : getIndices a.axes ui { cfg with keepdims := false } = .error e) :
    put a ui rhs rk cfg cast = .error e := by
  unfold put
  simp only [hraw, bind, Except.bind]


end C03P

/-! ### label-mode resolution: definitional spec covering scalars, lists, masks and label slices -/
namespace Spec

/-- the positions a label-mode index denotes on an axis (labels `L`, dtype kind `kind`); `none` = the index
does not resolve (absent label, mask of another length, bad slice bound).  Scalars, lists, masks and the full
slice as in `Spec.positions` (C01), label slices as in `Spec.sliceSel` (C02). -/
def positionsL (L : List Label) (kind : Kind) (ix : Ix) : Option PosIx :=
  match ix with
  | .slice s e st =>
    if (Ix.slice s e st).isFull then some (.list (List.range L.length))
    else (sliceSel L kind s e st).map PosIx.list
  | _ => positions L ix

/-- index forms the end-to-end statements speak about: a label (not `None`), a list of labels, a boolean mask,
a label slice with a non-zero step -/
def GoodIx : Ix → Prop
  | .scalar v => v ≠ Label.none
  | .list _ => True
  | .mask _ => True
  | .slice _ _ st => st ≠ some 0
  | .ellipsis => False

instance : (ix : Ix) → Decidable (GoodIx ix)
  | .scalar _ => by unfold GoodIx; exact inferInstance
  | .list _ => isTrue trivial
  | .mask _ => isTrue trivial
  | .slice _ _ _ => by unfold GoodIx; exact inferInstance
  | .ellipsis => isFalse (fun h => h)

/-- every mask has the length of its axis -/
def MaskFit (ix : Ix) (ax : Axis) : Prop := ∀ m, ix = .mask m → m.length = ax.labels.length

/-- all dimensions resolve, to `ps` -/
def resolveL (axes : List Axis) (ixs : List Ix) : Option (List PosIx) :=
  (ixs.zip axes).mapM fun (ix, ax) => positionsL ax.labels ax.kind ix

end Spec

namespace C03P
open Lib Spec

/-! #### strict monotonicity from weak monotonicity + uniqueness -/

theorem chainB_strict (r s : Label → Label → Bool) (hrs : ∀ a b, r a b = true → a ≠ b → s a b = true) :
    ∀ L : List Label, L.Nodup → chainB r L = true → chainB s L = true
  | [], _, _ => rfl
  | [_], _, _ => rfl
  | x :: y :: rest, hn, h => by
    simp only [chainB, Bool.and_eq_true] at h ⊢
    have hxy : x ≠ y := by
      intro heq; subst heq
      simp at hn
    exact ⟨hrs x y h.1 hxy, chainB_strict r s hrs (y :: rest) (List.nodup_cons.mp hn).2 h.2⟩

theorem monoEq_nodup_strict (L : List Label) (hn : L.Nodup) (h : isMonotonicEq L = true) :
    isIncreasing L = true ∨ isDecreasing L = true := by
  unfold isMonotonicEq at h
  rcases Bool.or_eq_true_iff.mp h with h | h
  · left
    exact chainB_strict _ _ (fun a b hab hne => Label.lt_of_le_of_ne hab hne) L hn h
  · right
    exact chainB_strict _ _ (fun a b hab hne => Label.lt_of_le_of_ne hab (Ne.symm hne)) L hn h

theorem slicePositions_ok (s e st : Option Int) (n : Nat) (hst : st ≠ some 0) :
    ∃ ps, slicePositions s e st n = .ok ps := by
  have h0 := step_getD_ne st hst
  unfold slicePositions sliceIndices
  simp only [h0, Bool.false_eq_true, if_false, bind, Except.bind, pure, Except.pure]
  exact ⟨_, rfl⟩


/-! #### one dimension -/

theorem gi_slice (cfg : IndexCfg) (hm : cfg.mode = .label) (s e : Option Label) (st : Option Int) (ax : Axis)
    (hnf : (Ix.slice s e st).isFull = false) :
    giLabel cfg (.slice s e st, ax) =
      match locateSlice ax.labels ax.kind s e st with
      | .ok ab => .ok (.slice ab.1 ab.2 st)
      | .error err => .error err := by
  have hmode : (cfg.mode != Mode.position) = true := by rw [hm]; decide
  simp only [giLabel, hmode, hnf, loc, bind, Except.bind, pure, Except.pure, Bool.not_false, Bool.and_self,
    if_true]
  cases locateSlice ax.labels ax.kind s e st with
  | error err => rfl
  | ok ab => rfl

theorem bind_ok_split {β γ : Type} (x : Except Err β) (f : β → Except Err γ) (c : γ)
    (h : x.bind f = .ok c) : ∃ b, x = .ok b ∧ f b = .ok c := by
  cases x with
  | error e => simp [Except.bind] at h
  | ok b => exact ⟨b, rfl, h⟩

theorem perDim_slice (cfg : IndexCfg) (hm : cfg.mode = .label) (s e : Option Label) (st : Option Int)
    (ax : Axis) (hnf : (Ix.slice s e st).isFull = false) (hst : st ≠ some 0) (hn : ax.labels.Nodup)
    (hp : ax.members = []) :
    (∃ a b ps, giLabel cfg (.slice s e st, ax) = .ok (.slice a b st) ∧
        slicePositions a b st ax.size = .ok ps ∧ sliceSel ax.labels ax.kind s e st = some ps) ∨
    (∃ err, giLabel cfg (.slice s e st, ax) = .error err ∧ sliceSel ax.labels ax.kind s e st = none) := by
  have hsize := axis_size_plain ax hp
  rw [gi_slice cfg hm s e st ax hnf, hsize]
  have h0 := step_getD_ne st hst
  by_cases hstrict : (ax.kind.isNumeric && isMonotonicEq ax.labels) = false
  · -- bounds must be labels
    by_cases hpres : (∀ v, s = some v → v ∈ ax.labels) ∧ (∀ v, e = some v → v ∈ ax.labels)
    · obtain ⟨ps, h1, h2⟩ := locateSlice_sliceSel_strict ax.labels ax.kind s e st hstrict hn hpres.1 hpres.2 hst
      obtain ⟨ab, hab, hsp⟩ := bind_ok_split _ _ _ h2
      left
      exact ⟨ab.1, ab.2, ps, by rw [hab], hsp, h1⟩
    · have habs : (∃ v, s = some v ∧ v ∉ ax.labels) ∨ (∃ v, e = some v ∧ v ∉ ax.labels) := by
        by_cases h1 : ∀ v, s = some v → v ∈ ax.labels
        · right
          have h2 : ¬ ∀ v, e = some v → v ∈ ax.labels := fun h2 => hpres ⟨h1, h2⟩
          cases e with
          | none => exact absurd (fun v hv => by cases hv) h2
          | some w => exact ⟨w, rfl, fun hw => h2 (fun v hv => by cases hv; exact hw)⟩
        · left
          cases s with
          | none => exact absurd (fun v hv => by cases hv) h1
          | some w => exact ⟨w, rfl, fun hw => h1 (fun v hv => by cases hv; exact hw)⟩
      obtain ⟨h1, err, h2⟩ := locateSlice_sliceSel_strict_absent ax.labels ax.kind s e st hstrict habs hst
      right
      cases hls : locateSlice ax.labels ax.kind s e st with
      | error err' => exact ⟨err', rfl, h1⟩
      | ok ab =>
        rw [hls] at h2
        obtain ⟨ps, hps⟩ := slicePositions_ok ab.1 ab.2 st ax.labels.length hst
        simp only [Except.bind, hps] at h2
        cases h2
  · -- numeric monotonic axis
    have hb : ax.kind.isNumeric = true ∧ isMonotonicEq ax.labels = true := by
      cases h1 : ax.kind.isNumeric <;> cases h2 : isMonotonicEq ax.labels <;> simp_all
    have hmono := monoEq_nodup_strict ax.labels hn hb.2
    by_cases hnum : (∀ v, s = some v → v.isNum = true) ∧ (∀ v, e = some v → v.isNum = true)
    · obtain ⟨ps, h1, h2⟩ := locateSlice_sliceSel_monotonic ax.labels ax.kind s e st hb.1 hmono hnum.1 hnum.2 hst
      obtain ⟨ab, hab, hsp⟩ := bind_ok_split _ _ _ h2
      left
      exact ⟨ab.1, ab.2, ps, by rw [hab], hsp, h1⟩
    · right
      have hbad : ((s.map Label.isNum).getD true == false) = true ∨
          ((e.map Label.isNum).getD true == false) = true := by
        by_cases h1 : ∀ v, s = some v → v.isNum = true
        · right
          have h2 : ¬ ∀ v, e = some v → v.isNum = true := fun h2 => hnum ⟨h1, h2⟩
          cases e with
          | none => exact absurd (fun v hv => by cases hv) h2
          | some w =>
            have : w.isNum = false := by
              cases hw : w.isNum with
              | false => rfl
              | true => exact absurd (fun v hv => by cases hv; exact hw) h2
            simp [this]
        · left
          cases s with
          | none => exact absurd (fun v hv => by cases hv) h1
          | some w =>
            have : w.isNum = false := by
              cases hw : w.isNum with
              | false => rfl
              | true => exact absurd (fun v hv => by cases hv; exact hw) h1
            simp [this]
      refine ⟨.type, ?_, ?_⟩
      · unfold locateSlice
        simp only [hb.1, hb.2, Bool.not_true, Bool.false_eq_true, if_false]
        rcases hbad with h | h
        · simp only [h, if_true]
        · by_cases h' : ((s.map Label.isNum).getD true == false) = true
          · simp only [h', if_true]
          · simp only [h', h, if_true, if_false, Bool.false_eq_true]
      · unfold sliceSel isBBoxAxis
        simp only [h0, hb.1, hb.2, Bool.and_self, if_true, Bool.false_eq_true, if_false]
        rcases hbad with h | h <;> simp [h]


/-- one dimension of a label-mode index: `_get_indices` + NumPy's resolution against the definitional spec
`positionsL`.  Either it resolves, or `_get_indices` raises (absent label / bad slice bound / a mask of another
length than the axis). -/
theorem perDim_good (cfg : IndexCfg) (hm : cfg.mode = .label) (ht : cfg.tol = none)
    (hk : cfg.keepdims = false) (ix : Ix) (ax : Axis) (hg : GoodIx ix)
    (hn : ax.labels.Nodup) (hp : ax.members = []) :
    (∃ r p, giLabel cfg (ix, ax) = .ok r ∧ resolveRaw r ax.size = .ok p ∧
        positionsL ax.labels ax.kind ix = some p) ∨
    (∃ err, giLabel cfg (ix, ax) = .error err ∧ positionsL ax.labels ax.kind ix = none ∧
        (SimpleIx ix → err = .index)) := by
  have hsize := axis_size_plain ax hp
  have hmode : (cfg.mode != Mode.position) = true := by rw [hm]; decide
  cases ix with
  | ellipsis => exact absurd hg (by simp [GoodIx])
  | scalar v =>
    have hv : v ≠ Label.none := hg
    have hloc : loc ax.labels ax.kind (.scalar v) none false =
        (locateOne ax.labels v none).map RawIx.int := by
      cases v with
      | none => exact absurd rfl hv
      | num q => simp [loc, Except.map, bind, Except.bind, pure, Except.pure]; cases locateOne ax.labels (Label.num q) none <;> rfl
      | str s => simp [loc, Except.map, bind, Except.bind, pure, Except.pure]; cases locateOne ax.labels (Label.str s) none <;> rfl
    by_cases hmem : v ∈ ax.labels
    · left
      refine ⟨.int (firstIdx ax.labels v), .scalar (firstIdx ax.labels v), ?_, ?_, ?_⟩
      · simp only [giLabel, hmode, Ix.isFull, ht, hloc, locateOne_none, hmem, hk]
        simp [Except.map, bind, Except.bind, pure, Except.pure]
      · have hlt := firstIdx_lt_iff.mpr hmem
        simp only [resolveRaw, hsize]
        have h1 : ¬ ((firstIdx ax.labels v : Int) < 0) := by omega
        have h2 : ¬ ((firstIdx ax.labels v : Int) ≥ (ax.labels.length : Int)) := by omega
        simp [h1, h2, bind, Except.bind, pure, Except.pure]
      · simp [positionsL, positions, hmem]
    · right
      refine ⟨.index, ?_, ?_, fun _ => rfl⟩
      · simp only [giLabel, hmode, Ix.isFull, ht, hloc, locateOne_none, hmem]
        simp [Except.map, bind, Except.bind]
      · simp [positionsL, positions, hmem]
  | list vs =>
    have hloc := loc_list ax.labels ax.kind vs hn
    by_cases hall : vs.all (fun v => decide (v ∈ ax.labels)) = true
    · left
      refine ⟨.ints ((vs.map (firstIdx ax.labels)).map Int.ofNat), .list (vs.map (firstIdx ax.labels)), ?_, ?_, ?_⟩
      · simp only [giLabel, hmode, Ix.isFull, ht, hloc, hall]
        simp [bind, Except.bind, pure, Except.pure]
      · rw [hsize]
        apply resolve_ints_nat
        intro p hp'
        obtain ⟨v, hv, rfl⟩ := List.mem_map.mp hp'
        have hmem : ∀ v ∈ vs, v ∈ ax.labels := by simpa using hall
        exact firstIdx_lt_iff.mpr (hmem v hv)
      · simp [positionsL, positions, hall]
    · right
      refine ⟨.index, ?_, ?_, fun _ => rfl⟩
      · simp only [giLabel, hmode, Ix.isFull, ht, hloc, hall]
        simp [bind, Except.bind]
      · simp [positionsL, positions, hall]
  | mask m =>
    by_cases hlen : m.length = ax.labels.length
    · left
      refine ⟨.mask m, .list (nonzero m), ?_, ?_, ?_⟩
      · simp [giLabel, hsize, hlen, bind, Except.bind, pure, Except.pure]
      · simp [resolveRaw, hsize, hlen]
      · simp [positionsL, positions, hlen]
    · right
      refine ⟨.index, ?_, ?_, fun _ => rfl⟩
      · simp [giLabel, hsize, hlen, bind, Except.bind, pure, Except.pure]
      · simp [positionsL, positions, hlen]
  | slice s e st =>
    by_cases hfull : (Ix.slice s e st).isFull = true
    · have : s = none ∧ e = none ∧ st = none := by
        cases s <;> cases e <;> cases st <;> simp [Ix.isFull] at hfull ⊢
      obtain ⟨rfl, rfl, rfl⟩ := this
      left
      refine ⟨.slice none none none, .list (List.range ax.labels.length), ?_, ?_, ?_⟩
      · simp [giLabel, Ix.isFull, ixToRaw, bind, Except.bind, pure, Except.pure]
      · simp [resolveRaw, hsize, slicePositions_full, bind, Except.bind, pure, Except.pure]
      · simp [positionsL, Ix.isFull]
    · have hnf : (Ix.slice s e st).isFull = false := by simpa using hfull
      have hst : st ≠ some 0 := hg
      rcases perDim_slice cfg hm s e st ax hnf hst hn hp with ⟨a, b, ps, h1, h2, h3⟩ | ⟨err, h1, h3⟩
      · left
        refine ⟨.slice a b st, .list ps, h1, ?_, ?_⟩
        · simp [resolveRaw, h2, bind, Except.bind, pure, Except.pure]
        · simp [positionsL, hnf, h3]
      · right
        refine ⟨err, h1, by simp [positionsL, hnf, h3], ?_⟩
        intro hsimple
        cases s <;> cases e <;> cases st <;> simp [SimpleIx, Ix.isFull] at hsimple hnf


/-! #### all dimensions -/

theorem getIndices_eq (axes : List Axis) (ui : UserIndex) (cfg : IndexCfg) :
    getIndices axes ui cfg =
      (normalizeIndex (axes.map (·.name)) ui) >>= fun key => (key.zip axes).mapM (giLabel cfg) := rfl

theorem getIndices_of_norm (axes : List Axis) (ui : UserIndex) (cfg : IndexCfg) (ixs : List Ix)
    (h : normalizeIndex (axes.map (·.name)) ui = .ok ixs) :
    getIndices axes ui cfg = (ixs.zip axes).mapM (giLabel cfg) := by
  rw [getIndices_eq, h]; rfl

theorem resolveL_cons (ax : Axis) (axes : List Axis) (ix : Ix) (ixs : List Ix) :
    resolveL (ax :: axes) (ix :: ixs) =
      match positionsL ax.labels ax.kind ix with
      | none => none
      | some p => (resolveL axes ixs).map (p :: ·) := by
  unfold resolveL
  simp only [List.zip_cons_cons, List.mapM_cons, bind, Option.bind]
  cases positionsL ax.labels ax.kind ix with
  | none => rfl
  | some p =>
    simp only [pure]
    cases List.mapM (fun x : Ix × Axis => positionsL x.2.labels x.2.kind x.1) (ixs.zip axes) <;> rfl

theorem exceptMapM_cons {β γ : Type} (f : β → Except Err γ) (a : β) (l : List β) :
    (a :: l).mapM f =
      match f a with
      | .error e => .error e
      | .ok b => match l.mapM f with
        | .error e => .error e
        | .ok bs => .ok (b :: bs) := by
  rw [List.mapM_cons]
  simp only [bind, Except.bind, pure, Except.pure]
  cases f a with
  | error e => rfl
  | ok b => cases l.mapM f <;> rfl

theorem resolveAll_cons (ax : Axis) (axes : List Axis) (r : RawIx) (raw : List RawIx) :
    resolveAll (ax :: axes) (r :: raw) =
      match resolveRaw r ax.size with
      | .error e => .error e
      | .ok p => match resolveAll axes raw with
        | .error e => .error e
        | .ok ps => .ok (p :: ps) := by
  unfold resolveAll
  rw [List.zip_cons_cons, List.mapM_cons]
  simp only [bind, Except.bind, pure, Except.pure]
  cases resolveRaw r ax.size with
  | error e => rfl
  | ok b => cases List.mapM (fun x : RawIx × Axis => resolveRaw x.1 x.2.size) (raw.zip axes) <;> rfl

/-- every dimension resolves: `_get_indices` succeeds and NumPy resolves its output to the spec positions -/
theorem stages_ok (cfg : IndexCfg) (hm : cfg.mode = .label) (ht : cfg.tol = none) (hk : cfg.keepdims = false) :
    ∀ (axes : List Axis) (ixs : List Ix) (ps : List PosIx), ixs.length = axes.length →
      (∀ ix ∈ ixs, GoodIx ix) → (∀ ax ∈ axes, ax.labels.Nodup ∧ ax.members = []) →
      resolveL axes ixs = some ps →
      ∃ raw, (ixs.zip axes).mapM (giLabel cfg) = .ok raw ∧ resolveAll axes raw = .ok ps := by
  intro axes
  induction axes with
  | nil =>
    intro ixs ps hlen _ _ h
    have : ixs = [] := List.length_eq_zero_iff.mp (by simpa using hlen)
    subst this
    simp only [resolveL, List.zip_nil_right, List.mapM_nil, pure, Option.some.injEq] at h
    subst h
    exact ⟨[], rfl, rfl⟩
  | cons ax axes ih =>
    intro ixs ps hlen hg hax h
    cases ixs with
    | nil => simp at hlen
    | cons ix ixs =>
      rw [resolveL_cons] at h
      rcases perDim_good cfg hm ht hk ix ax (hg ix (by simp)) (hax ax (by simp)).1 (hax ax (by simp)).2 with
        ⟨r, p, h1, h2, h3⟩ | ⟨err, _, h3, _⟩
      · rw [h3] at h
        cases hT : resolveL axes ixs with
        | none => rw [hT] at h; cases h
        | some ps' =>
          rw [hT] at h
          simp only [Option.map_some, Option.some.injEq] at h
          subst h
          obtain ⟨raw, hr1, hr2⟩ := ih ixs ps' (by simpa using hlen) (fun i hi => hg i (by simp [hi]))
            (fun a ha => hax a (by simp [ha])) hT
          refine ⟨r :: raw, ?_, ?_⟩
          · rw [List.zip_cons_cons, exceptMapM_cons, h1, hr1]
          · rw [resolveAll_cons, h2, hr2]
      · rw [h3] at h; cases h

/-- some dimension does not resolve: `_get_indices` raises -/
theorem stages_err (cfg : IndexCfg) (hm : cfg.mode = .label) (ht : cfg.tol = none) (hk : cfg.keepdims = false) :
    ∀ (axes : List Axis) (ixs : List Ix), ixs.length = axes.length →
      (∀ ix ∈ ixs, GoodIx ix) → (∀ ax ∈ axes, ax.labels.Nodup ∧ ax.members = []) →
      resolveL axes ixs = none →
      ∃ err, (ixs.zip axes).mapM (giLabel cfg) = .error err ∧ ((∀ ix ∈ ixs, SimpleIx ix) → err = .index) := by
  intro axes
  induction axes with
  | nil =>
    intro ixs hlen _ _ h
    have : ixs = [] := List.length_eq_zero_iff.mp (by simpa using hlen)
    subst this
    simp [resolveL] at h
  | cons ax axes ih =>
    intro ixs hlen hg hax h
    cases ixs with
    | nil => simp at hlen
    | cons ix ixs =>
      rw [resolveL_cons] at h
      rw [List.zip_cons_cons, exceptMapM_cons]
      rcases perDim_good cfg hm ht hk ix ax (hg ix (by simp)) (hax ax (by simp)).1 (hax ax (by simp)).2 with
        ⟨r, p, h1, h2, h3⟩ | ⟨err, h1, h3, hc⟩
      · rw [h3] at h
        cases hT : resolveL axes ixs with
        | some ps' => rw [hT] at h; cases h
        | none =>
          obtain ⟨err, he1, he2⟩ := ih ixs (by simpa using hlen) (fun i hi => hg i (by simp [hi]))
            (fun a ha => hax a (by simp [ha])) hT
          refine ⟨err, by rw [h1, he1], fun hs => he2 (fun i hi => hs i (by simp [hi]))⟩
      · exact ⟨err, by rw [h1], fun hs => hc (hs ix (by simp))⟩


end C03P

/-! ### the label-level reading of "position `k` is selected" -/

/-- position `k` of an axis with labels `L` carries a label the index asks for: the label itself (scalar),
one of the listed labels, a `True` of the mask, anything (full slice), or a position of the label slice's
bounding box / label range as specified by C02's `sliceSel` -/
def Spec.LabelSel (L : List Label) (kind : Kind) (ix : Ix) (k : Nat) : Prop :=
  match ix with
  | .scalar v => L[k]? = some v
  | .list vs => ∃ v ∈ vs, L[k]? = some v
  | .mask m => m[k]? = some true
  | .slice s e st =>
    if (Ix.slice s e st).isFull then k < L.length
    else ∃ ps, Spec.sliceSel L kind s e st = some ps ∧ k ∈ ps
  | .ellipsis => False

/-- cell `j` carries, on every dimension, a label the index asks for on that dimension -/
def Spec.LabelAddressed : List Axis → List Ix → List Nat → Prop
  | [], [], [] => True
  | ax :: axes, ix :: ixs, k :: j => Spec.LabelSel ax.labels ax.kind ix k ∧ LabelAddressed axes ixs j
  | _, _, _ => False

namespace C03P
open Lib Spec

theorem mem_nonzero (m : List Bool) (k : Nat) : k ∈ nonzero m ↔ m[k]? = some true := by
  unfold nonzero
  simp only [List.mem_map, List.mem_filter]
  constructor
  · rintro ⟨⟨b, i⟩, ⟨hmem, hb⟩, rfl⟩
    have := List.mem_zipIdx_iff_getElem?.mp hmem
    simp only at hb this
    rw [hb] at this
    simpa using this
  · intro h
    refine ⟨(true, k), ⟨?_, rfl⟩, rfl⟩
    exact List.mem_zipIdx_iff_getElem?.mpr (by simpa using h)

theorem has_iff_labelSel (L : List Label) (kind : Kind) (ix : Ix) (p : PosIx) (hn : L.Nodup)
    (h : positionsL L kind ix = some p) (k : Nat) : p.Has k ↔ LabelSel L kind ix k := by
  cases ix with
  | ellipsis => simp [positionsL, positions] at h
  | scalar v =>
    simp only [positionsL, positions] at h
    split at h
    · rename_i hmem
      cases h
      simp only [PosIx.Has, LabelSel]
      have hlt := firstIdx_lt_iff.mpr hmem
      constructor
      · rintro rfl
        rw [List.getElem?_eq_getElem hlt, firstIdx_getElem hlt]
      · intro hk
        have hklt : k < L.length := by
          rcases Nat.lt_or_ge k L.length with h' | h'
          · exact h'
          · rw [List.getElem?_eq_none h'] at hk; cases hk
        rw [List.getElem?_eq_getElem hklt] at hk
        have := firstIdx_unique hn hklt
        rw [Option.some.inj hk] at this
        exact this.symm
    · cases h
  | list vs =>
    simp only [positionsL, positions] at h
    split at h
    · rename_i hall
      have hmem : ∀ v ∈ vs, v ∈ L := by simpa using hall
      cases h
      simp only [PosIx.Has, LabelSel, List.mem_map]
      constructor
      · rintro ⟨v, hv, rfl⟩
        have hlt := firstIdx_lt_iff.mpr (hmem v hv)
        exact ⟨v, hv, by rw [List.getElem?_eq_getElem hlt, firstIdx_getElem hlt]⟩
      · rintro ⟨v, hv, hk⟩
        have hklt : k < L.length := by
          rcases Nat.lt_or_ge k L.length with h' | h'
          · exact h'
          · rw [List.getElem?_eq_none h'] at hk; cases hk
        rw [List.getElem?_eq_getElem hklt] at hk
        have := firstIdx_unique hn hklt
        rw [Option.some.inj hk] at this
        exact ⟨v, hv, this⟩
    · cases h
  | mask m =>
    simp only [positionsL, positions] at h
    split at h
    · cases h
      simp only [PosIx.Has, LabelSel]
      exact mem_nonzero m k
    · cases h
  | slice s e st =>
    simp only [positionsL] at h
    simp only [LabelSel]
    split at h
    · rename_i hf
      cases h
      simp [PosIx.Has, hf]
    · rename_i hf
      cases hS : sliceSel L kind s e st with
      | none => rw [hS] at h; cases h
      | some ps =>
        rw [hS] at h
        cases h
        simp [PosIx.Has, hf]

/-- all dimensions: the cells addressed through the resolved positions are the cells whose labels are asked for -/
theorem addressed_iff_label : ∀ (axes : List Axis) (ixs : List Ix) (ps : List PosIx) (j : List Nat),
    (∀ ax ∈ axes, ax.labels.Nodup) → resolveL axes ixs = some ps → j.length = axes.length →
    ixs.length = axes.length →
    (Addressed ps j ↔ LabelAddressed axes ixs j)
  | [], [], ps, [], _, h, _, _ => by
    simp only [resolveL, List.zip_nil_right, List.mapM_nil, pure, Option.some.injEq] at h
    subst h
    simp [Addressed, LabelAddressed]
  | [], _ :: _, _, _, _, _, _, hl => by simp at hl
  | _ :: _, [], _, _, _, _, _, hl => by simp at hl
  | [], [], _, _ :: _, _, _, hl, _ => by simp at hl
  | _ :: _, _ :: _, _, [], _, _, hl, _ => by simp at hl
  | ax :: axes, ix :: ixs, ps, k :: j, hn, h, hl, hl2 => by
    rw [resolveL_cons] at h
    cases hP : positionsL ax.labels ax.kind ix with
    | none => rw [hP] at h; cases h
    | some p =>
      rw [hP] at h
      cases hT : resolveL axes ixs with
      | none => rw [hT] at h; cases h
      | some ps' =>
        rw [hT] at h
        simp only [Option.map_some, Option.some.injEq] at h
        subst h
        simp only [Addressed, LabelAddressed]
        rw [has_iff_labelSel ax.labels ax.kind ix p (hn ax (by simp)) hP k,
          addressed_iff_label axes ixs ps' j (fun a ha => hn a (by simp [ha])) hT (by simpa using hl)
            (by simpa using hl2)]


/-! ### right-hand sides -/

theorem bcast_idx_inRange : ∀ (s j : List Nat), InRange s j →
    (j.zip s).map (fun (x : Nat × Nat) => if (x.2 == 1) = true then 0 else x.1) = j
  | [], [], _ => rfl
  | [], _ :: _, h => by simp [InRange] at h
  | _ :: _, [], h => by simp [InRange] at h
  | n :: s, k :: j, h => by
    simp only [InRange] at h
    simp only [List.zip_cons_cons, List.map_cons, bcast_idx_inRange s j h.2, List.cons.injEq, and_true]
    by_cases hn : n = 1
    · subst hn; simp; omega
    · simp [hn]

/-- a right-hand side of exactly the selection's shape is written element by element -/
theorem broadcastTo_exact {α} (v : NDArr α) (s : List Nat) (hs : v.shape = s) :
    ∃ g, broadcastTo v s = some g ∧ ∀ c, InRange s c → g c = v.get c := by
  subst hs
  unfold broadcastTo
  have hall : ((v.shape.zip v.shape).all fun (x : Nat × Nat) => x.1 == x.2 || x.1 == 1) = true := by
    rw [List.all_eq_true]
    rintro ⟨a, b⟩ hab
    have := List.of_mem_zip hab
    have heq : a = b := by
      obtain ⟨i, hi, hi2⟩ := List.mem_iff_getElem.mp hab
      simp at hi2
      rw [← hi2.1, ← hi2.2]
    simp [heq]
  simp only [Nat.sub_self, List.take_zero, List.any_nil, Bool.false_eq_true, if_false, List.drop_zero,
    List.replicate_zero, List.nil_append, hall, if_true]
  refine ⟨_, rfl, ?_⟩
  intro c hc
  have := bcast_idx_inRange v.shape c hc
  simp only [this]

theorem inRange_length' : ∀ (s j : List Nat), InRange s j → j.length = s.length
  | [], [], _ => rfl
  | [], _ :: _, h => by simp [InRange] at h
  | _ :: _, [], h => by simp [InRange] at h
  | _ :: s, _ :: j, h => by
    simp only [InRange] at h
    simp [inRange_length' s j h.2]


/-! ### no repeated position: masks and slices never repeat, lists repeat only if a label is listed twice -/

theorem nonzero_nodup (m : List Bool) : (nonzero m).Nodup := by
  unfold nonzero
  have h1 : List.Sublist ((m.zipIdx.filter (·.1)).map (·.2)) (m.zipIdx.map (·.2)) := List.Sublist.map _ List.filter_sublist
  have h2 : m.zipIdx.map (·.2) = List.range' 0 m.length := List.zipIdx_map_snd 0 m
  rw [h2] at h1
  exact h1.nodup (List.nodup_range' 1)

theorem everyKth_sublist (k : Nat) : ∀ (n : Nat) (l : List Nat), l.length ≤ n → List.Sublist (Spec.everyKth k l) l
  | _, [], _ => by rw [everyKth_nil]; exact List.Sublist.refl _
  | 0, _ :: _, h => by simp at h
  | n+1, x :: xs, h => by
    rw [everyKth_cons]
    have hd : (xs.drop (k - 1)).length ≤ n := by simp at h ⊢; omega
    exact ((everyKth_sublist k n _ hd).trans (List.drop_sublist _ _)).cons_cons x

theorem sliceSel_nodup (L : List Label) (kind : Kind) (s e : Option Label) (st : Option Int) (ps : List Nat)
    (h : sliceSel L kind s e st = some ps) : ps.Nodup := by
  have hfr : ∀ (q : Nat → Bool), ((List.range L.length).filter q).Nodup :=
    fun q => List.filter_sublist.nodup List.nodup_range
  have hrev : ∀ l : List Nat, l.Nodup → l.reverse.Nodup := fun l hl => by
    unfold List.Nodup at hl ⊢
    rw [List.pairwise_reverse]
    exact hl.imp (fun h => Ne.symm h)
  have key : ∀ (k : Nat) (l : List Nat), l.Nodup → (everyKth k l).Nodup :=
    fun k l hl => (everyKth_sublist k l.length l (Nat.le_refl _)).nodup hl
  unfold sliceSel at h
  simp only at h
  split at h
  · cases h
  · split at h
    · split at h
      · cases h
      · simp only [Option.some.injEq] at h
        subst h
        apply key
        split
        · exact hfr _
        · exact hrev _ (hfr _)
    · split at h
      · simp only [Option.some.injEq] at h
        subst h
        apply key
        split
        · exact hfr _
        · exact hrev _ (hfr _)
      · cases h

theorem positionsL_nodup (L : List Label) (kind : Kind) (ix : Ix) (l : List Nat)
    (hvs : ∀ vs, ix = .list vs → vs.Nodup) (h : positionsL L kind ix = some (.list l)) : l.Nodup := by
  cases ix with
  | ellipsis => simp [positionsL, positions] at h
  | scalar v =>
    simp only [positionsL, positions] at h
    split at h <;> cases h
  | list vs =>
    simp only [positionsL, positions] at h
    split at h
    · rename_i hall
      have hmem : ∀ v ∈ vs, v ∈ L := by simpa using hall
      cases h
      have hvn := hvs vs rfl
      unfold List.Nodup at hvn ⊢
      rw [List.pairwise_map]
      refine hvn.imp_of_mem ?_
      intro a b ha hb hab heq
      apply hab
      have h1 := firstIdx_getElem (firstIdx_lt_iff.mpr (hmem a ha))
      have h2 := firstIdx_getElem (firstIdx_lt_iff.mpr (hmem b hb))
      rw [← h1, ← h2]
      simp only [heq]
    · cases h
  | mask m =>
    simp only [positionsL, positions] at h
    split at h
    · cases h; exact nonzero_nodup m
    · cases h
  | slice s e st =>
    simp only [positionsL] at h
    split at h
    · cases h; exact List.nodup_range
    · cases hS : sliceSel L kind s e st with
      | none => rw [hS] at h; cases h
      | some ps =>
        rw [hS] at h
        simp only [Option.map_some, Option.some.injEq, PosIx.list.injEq] at h
        subst h
        exact sliceSel_nodup L kind s e st ps hS

theorem resolveL_noRepeat : ∀ (axes : List Axis) (ixs : List Ix) (ps : List PosIx),
    (∀ ax ∈ axes, ax.labels.Nodup) → (∀ ix ∈ ixs, ∀ vs, ix = .list vs → vs.Nodup) →
    ixs.length = axes.length → resolveL axes ixs = some ps → NoRepeat ps
  | [], [], ps, _, _, _, h => by
    simp only [resolveL, List.zip_nil_right, List.mapM_nil, pure, Option.some.injEq] at h
    subst h
    intro p hp; simp at hp
  | [], _ :: _, _, _, _, hl, _ => by simp at hl
  | _ :: _, [], _, _, _, hl, _ => by simp at hl
  | ax :: axes, ix :: ixs, ps, hn, hvs, hl, h => by
    rw [resolveL_cons] at h
    cases hP : positionsL ax.labels ax.kind ix with
    | none => rw [hP] at h; cases h
    | some p =>
      rw [hP] at h
      cases hT : resolveL axes ixs with
      | none => rw [hT] at h; cases h
      | some ps' =>
        rw [hT] at h
        simp only [Option.map_some, Option.some.injEq] at h
        subst h
        have ih := resolveL_noRepeat axes ixs ps' (fun a ha => hn a (by simp [ha]))
          (fun i hi => hvs i (by simp [hi])) (by simpa using hl) hT
        intro q hq l hql
        rcases List.mem_cons.mp hq with rfl | hq
        · subst hql
          exact positionsL_nodup ax.labels ax.kind ix l (hvs ix (by simp)) hP
        · exact ih q hq l hql

end C03P
end DimModel

/-
Helper lemmas for C14 (Dataset operations by value).
-/
import DimModel.Lib.DatasetOps
import DimModel.Proofs.C20
namespace DimModel
namespace DSV
open Lib

variable {α : Type}

/-! ### generic list lemmas -/

/-- in a list of axes with distinct names, looking a member up by its name finds it -/
theorem find?_name {AX : List Axis} (hnd : (AX.map (·.name)).Nodup) {e : Axis} (he : e ∈ AX) {n : String}
    (hn : e.name = n) : AX.find? (fun a => a.name == n) = some e := by
  induction AX with
  | nil => cases he
  | cons a AX ih =>
    simp only [List.map_cons, List.nodup_cons] at hnd
    rcases List.mem_cons.1 he with rfl | he'
    · simp [hn]
    · have hne : a.name ≠ n := by
        intro h
        apply hnd.1
        rw [h, ← hn]
        exact List.mem_map_of_mem he'
      have hb : (a.name == n) = false := by simpa using hne
      rw [List.find?_cons, hb]
      exact ih hnd.2 he'

theorem find?_name_none {AX : List Axis} {n : String} (h : n ∉ AX.map (·.name)) :
    AX.find? (fun a => a.name == n) = none := by
  rw [List.find?_eq_none]
  intro a ha hb
  apply h
  have : a.name = n := by simpa using hb
  rw [← this]
  exact List.mem_map_of_mem ha

theorem find?_name_some {AX : List Axis} {n : String} {e : Axis} (h : AX.find? (fun a => a.name == n) = some e) :
    e ∈ AX ∧ e.name = n := by
  refine ⟨List.mem_of_find?_eq_some h, ?_⟩
  have := List.find?_some h
  simpa using this

/-- two members with the same name are the same axis -/
theorem mem_name_inj {AX : List Axis} (hnd : (AX.map (·.name)).Nodup) {a b : Axis} (ha : a ∈ AX) (hb : b ∈ AX)
    (h : a.name = b.name) : a = b := by
  have h1 := find?_name hnd ha h
  have h2 := find?_name hnd hb rfl
  rw [h1] at h2
  exact Option.some.inj h2

theorem zip_map_self {β γ : Type} (l : List β) (f : β → γ) : l.zip (l.map f) = l.map fun a => (a, f a) := by
  induction l with
  | nil => rfl
  | cons a l ih => simp only [List.map_cons, List.zip_cons_cons, ih]

theorem map_zip_self {β γ : Type} (l : List β) (f : β → γ) : (l.map f).zip l = l.map fun a => (f a, a) := by
  induction l with
  | nil => rfl
  | cons a l ih => simp only [List.map_cons, List.zip_cons_cons, ih]

theorem mapM_ok_map {ε β γ : Type} (f : β → Except ε γ) (g : β → γ) (l : List β) (h : ∀ a ∈ l, f a = .ok (g a)) :
    l.mapM f = .ok (l.map g) := by
  induction l with
  | nil => rfl
  | cons a l ih =>
    rw [List.mapM_cons, h a (by simp), ih (fun b hb => h b (by simp [hb]))]
    rfl

/-- in a list without repetition, `idxOf` is the only position of an element -/
theorem getElem_eq_iff_idxOf {l : List String} (hnd : l.Nodup) (i : Nat) (hi : i < l.length) (x : String) :
    l[i] = x ↔ i = l.idxOf x := by
  constructor
  · intro h
    subst h
    exact (List.Nodup.idxOf_getElem hnd i hi).symm
  · intro h
    subst h
    exact List.getElem_idxOf hi

/-- a table over the positions of a list is a `map` when the entry only depends on the element -/
theorem range_map_eq_map {β γ : Type} (l : List β) (d : β) (G : Nat → β → γ) (S : β → γ)
    (h : ∀ k (hk : k < l.length), G k l[k] = S l[k]) :
    (List.range l.length).map (fun k => G k (l.getD k d)) = l.map S := by
  apply List.ext_getElem
  · simp
  · intro i h1 h2
    simp only [List.length_map, List.length_range] at h1
    simp only [List.getElem_map, List.getElem_range, List.getD_eq_getElem?_getD, List.getElem?_eq_getElem h1,
      Option.getD_some]
    exact h i h1

theorem mapIdx_eq_map {β γ : Type} (l : List β) (G : Nat → β → γ) (S : β → γ)
    (h : ∀ k (hk : k < l.length), G k l[k] = S l[k]) : l.mapIdx G = l.map S := by
  apply List.ext_getElem
  · simp
  · intro i h1 h2
    simp only [List.length_mapIdx] at h1
    simp only [List.getElem_mapIdx, List.getElem_map]
    exact h i h1

theorem filterMap_congr_mem {β γ : Type} (l : List β) (f g : β → Option γ) (h : ∀ a ∈ l, f a = g a) :
    l.filterMap f = l.filterMap g := by
  induction l with
  | nil => rfl
  | cons a l ih =>
    rw [List.filterMap_cons, List.filterMap_cons, h a (by simp), ih (fun b hb => h b (by simp [hb]))]

/-! ### `setItem` -/

/-- the variables of a Dataset carry the Dataset's own axes (in dimarray they are the same objects) -/
def OwnAxes (ds : Ds α) : Prop := ∀ kv ∈ ds.vars, ∀ ax ∈ kv.2.axes, ax ∈ ds.axes

/-- `__setitem__` of a value whose axes are the Dataset's: no check fails, nothing is appended, the value is
stored unchanged -/
theorem setItem_own (acc : Ds α) (k : String) (v : DimArray α) (hnd : acc.dims.Nodup)
    (hc : ∀ ax ∈ v.axes, ax ∈ acc.axes) :
    setItem acc k v = .ok { acc with vars := acc.vars.filter (·.1 != k) ++ [(k, v)] } := by
  have h2 : (v.axes.filter fun ax => !(acc.dims.contains ax.name)) = [] := by
    rw [List.filter_eq_nil_iff]
    intro ax hax
    have : ax.name ∈ acc.dims := List.mem_map_of_mem (hc ax hax)
    simp [this]
  have h3 : (v.axes.map fun ax => (acc.axes.find? (·.name == ax.name)).getD ax) = v.axes := by
    conv => rhs; rw [← List.map_id v.axes]
    apply List.map_congr_left
    intro ax hax
    rw [find?_name hnd (hc ax hax) rfl]
    rfl
  unfold setItem
  split
  · rename_i hany
    exfalso
    rw [List.any_eq_true] at hany
    obtain ⟨ax, hax, hb⟩ := hany
    rw [find?_name hnd (hc ax hax) rfl] at hb
    simp [axisEq] at hb
  · simp only [h2, List.append_nil, h3]

/-- the backbone: a run of `__setitem__` of values that carry the axes of the dataset under construction builds the
variable list in order -/
theorem foldlM_setItem_own (AX : List Axis) (hnd : (AX.map (·.name)).Nodup)
    (g : String × DimArray α → DimArray α) (vars : List (String × DimArray α))
    (hc : ∀ kv ∈ vars, ∀ ax ∈ (g kv).axes, ax ∈ AX) (hk : (vars.map (·.1)).Nodup)
    (pre : List (String × DimArray α)) (att : Attrs)
    (hpre : ∀ kv ∈ vars, ∀ kv' ∈ pre, kv'.1 ≠ kv.1) :
    vars.foldlM (fun acc kv => setItem acc kv.1 (g kv)) ({ axes := AX, vars := pre, attrs := att } : Ds α) =
      .ok { axes := AX, vars := pre ++ vars.map (fun kv => (kv.1, g kv)), attrs := att } := by
  induction vars generalizing pre with
  | nil => simp [pure, Except.pure]
  | cons kv vars ih =>
    rw [List.foldlM_cons, setItem_own { axes := AX, vars := pre, attrs := att } kv.1 (g kv) hnd (hc kv (by simp))]
    simp only [bind, Except.bind]
    have hf : pre.filter (·.1 != kv.1) = pre := by
      rw [List.filter_eq_self]
      intro kv' hkv'
      have := hpre kv (by simp) kv' hkv'
      simpa using this
    rw [hf]
    simp only [List.map_cons, List.nodup_cons] at hk
    rw [ih (fun kv' h => hc kv' (by simp [h])) hk.2]
    · simp
    · intro kv1 h1 kv2 h2
      rcases List.mem_append.1 h2 with h2 | h2
      · exact hpre kv1 (by simp [h1]) kv2 h2
      · simp only [List.mem_singleton] at h2
        subst h2
        intro heq
        apply hk.1
        simp only at heq
        rw [heq]
        exact List.mem_map_of_mem h1

theorem foldlM_setItem_ownF (F : Ds α → String × DimArray α → Except Err (Ds α))
    (g : String × DimArray α → DimArray α)
    (AX : List Axis) (hnd : (AX.map (·.name)).Nodup) (vars : List (String × DimArray α))
    (hF : ∀ acc, ∀ kv ∈ vars, F acc kv = setItem acc kv.1 (g kv))
    (hc : ∀ kv ∈ vars, ∀ ax ∈ (g kv).axes, ax ∈ AX) (hk : (vars.map (·.1)).Nodup) (att : Attrs) :
    vars.foldlM F ({ axes := AX, vars := [], attrs := att } : Ds α) =
      .ok { axes := AX, vars := vars.map (fun kv => (kv.1, g kv)), attrs := att } := by
  have hgen : ∀ (l : List (String × DimArray α)) (acc : Ds α), (∀ acc, ∀ kv ∈ l, F acc kv = setItem acc kv.1 (g kv)) →
      l.foldlM F acc = l.foldlM (fun acc kv => setItem acc kv.1 (g kv)) acc := by
    intro l
    induction l with
    | nil => intro acc _; rfl
    | cons kv l ih =>
      intro acc hl
      rw [List.foldlM_cons, List.foldlM_cons, hl acc kv (by simp)]
      congr 1
      funext acc'
      exact ih acc' (fun a kv' h' => hl a kv' (by simp [h']))
  rw [hgen vars _ hF]
  have := foldlM_setItem_own AX hnd g vars hc hk [] att (by simp)
  simpa using this

theorem foldlM_setItem_ownS (F : Ds α → String × DimArray α → Except Err (Ds α))
    (g : String × DimArray α → DimArray α)
    (AX : List Axis) (hnd : (AX.map (·.name)).Nodup) (vars : List (String × DimArray α))
    (hF : ∀ acc, ∀ kv ∈ vars, F acc kv = setItem acc kv.1 (g kv))
    (hc : ∀ kv ∈ vars, ∀ ax ∈ (g kv).axes, ax ∈ AX) (hk : (vars.map (·.1)).Nodup)
    (start : Ds α) (hax : start.axes = AX) (hv : start.vars = []) :
    vars.foldlM F start = .ok { axes := AX, vars := vars.map (fun kv => (kv.1, g kv)), attrs := start.attrs } := by
  cases start with
  | mk axes vs att =>
    simp only at hax hv
    subst hax hv
    exact foldlM_setItem_ownF F g axes hnd vars hF hc hk att

/-! ### `reduceAxisKeep` in closed form -/

/-- the list of axes in which the axis called `name` is replaced -/
def replAxis (name : String) (newAxis : Axis) (axes : List Axis) : List Axis :=
  axes.map fun ax => if ax.name == name then newAxis else ax

/-- what `reduce_axis` stores for one variable -/
def reduceVar (name : String) (newAxis : Axis) (f : Nat → DimArray α → NDArr α) (v : DimArray α) : DimArray α :=
  if v.dims.idxOf name < v.dims.length then
    { axes := replAxis name newAxis v.axes, vals := f (v.dims.idxOf name) v, vkind := v.vkind, attrs := v.attrs }
  else v

theorem replAxis_names (name : String) (newAxis : Axis) (hname : newAxis.name = name) (axes : List Axis) :
    (replAxis name newAxis axes).map (·.name) = axes.map (·.name) := by
  unfold replAxis
  rw [List.map_map]
  apply List.map_congr_left
  intro ax _
  simp only [Function.comp]
  split
  · rename_i h
    rw [hname]
    exact (by simpa using h : ax.name = name).symm
  · rfl

theorem replAxis_of_not_mem (name : String) (newAxis : Axis) (axes : List Axis) (h : name ∉ axes.map (·.name)) :
    replAxis name newAxis axes = axes := by
  unfold replAxis
  conv => rhs; rw [← List.map_id axes]
  apply List.map_congr_left
  intro ax hax
  have : ax.name ≠ name := fun he => h (he ▸ List.mem_map_of_mem hax)
  have hb : (ax.name == name) = false := by simpa using this
  simp [hb]

/-- looking a name up in the replaced list -/
theorem replAxis_find? (name : String) (newAxis : Axis) (hname : newAxis.name = name) (axes : List Axis)
    (hnd : (axes.map (·.name)).Nodup) (ax : Axis) (hax : ax ∈ axes) :
    (replAxis name newAxis axes).find? (fun a => a.name == ax.name) =
      some (if ax.name == name then newAxis else ax) := by
  apply find?_name
  · rw [replAxis_names name newAxis hname]; exact hnd
  · unfold replAxis
    exact List.mem_map_of_mem hax
  · split
    · rename_i h
      rw [hname]
      exact (by simpa using h : ax.name = name).symm
    · rfl

/-- the variable as `reduce_axis` builds it (axes looked up by name in the new list) -/
def reduceVar0 (name : String) (newaxes : List Axis) (f : Nat → DimArray α → NDArr α) (v : DimArray α) : DimArray α :=
  if v.dims.idxOf name < v.dims.length then
    { axes := v.axes.map fun ax => (newaxes.find? (·.name == ax.name)).getD ax
      vals := f (v.dims.idxOf name) v, vkind := v.vkind, attrs := v.attrs }
  else v

theorem reduceVar0_eq (name : String) (newAxis : Axis) (hname : newAxis.name = name) (axes : List Axis)
    (hnd : (axes.map (·.name)).Nodup) (f : Nat → DimArray α → NDArr α) (v : DimArray α)
    (hv : ∀ ax ∈ v.axes, ax ∈ axes) :
    reduceVar0 name (replAxis name newAxis axes) f v = reduceVar name newAxis f v := by
  unfold reduceVar0 reduceVar
  split
  · congr 1
    unfold replAxis
    apply List.map_congr_left
    intro ax hax
    have := replAxis_find? name newAxis hname axes hnd ax (hv ax hax)
    unfold replAxis at this
    rw [this]
    rfl
  · rfl

theorem reduceVar_axes_mem (name : String) (newAxis : Axis) (axes : List Axis)
    (f : Nat → DimArray α → NDArr α) (v : DimArray α) (hv : ∀ ax ∈ v.axes, ax ∈ axes) :
    ∀ ax ∈ (reduceVar name newAxis f v).axes, ax ∈ replAxis name newAxis axes := by
  intro ax hax
  unfold reduceVar at hax
  split at hax
  · simp only [replAxis, List.mem_map] at hax ⊢
    obtain ⟨a, ha, rfl⟩ := hax
    exact ⟨a, hv a ha, rfl⟩
  · rename_i hlt
    have hn : name ∉ v.axes.map (·.name) := fun h => hlt (List.idxOf_lt_length_iff.2 h)
    have : ax.name ≠ name := fun he => hn (he ▸ List.mem_map_of_mem hax)
    have hb : (ax.name == name) = false := by simpa using this
    simp only [replAxis, List.mem_map]
    exact ⟨ax, hv ax hax, by simp [hb]⟩

theorem reduceAxisKeep_closed (ds : Ds α) (name : String) (newAxis : Axis) (f : Nat → DimArray α → NDArr α)
    (hname : newAxis.name = name) (hin : name ∈ ds.dims) (hown : OwnAxes ds) (hd : ds.dims.Nodup)
    (hk : ds.keys.Nodup) :
    reduceAxisKeep ds name newAxis f = .ok
      { axes := replAxis name newAxis ds.axes
        vars := ds.vars.map (fun kv => (kv.1, reduceVar name newAxis f kv.2))
        attrs := ds.attrs } := by
  unfold reduceAxisKeep
  have hc : ds.dims.contains name = true := by simpa using hin
  simp only [hc, Bool.not_true, Bool.false_eq_true, if_false]
  have hnd' : ((replAxis name newAxis ds.axes).map (·.name)).Nodup := by
    rw [replAxis_names name newAxis hname]; exact hd
  have hg : ∀ kv ∈ ds.vars, reduceVar0 name (replAxis name newAxis ds.axes) f kv.2 = reduceVar name newAxis f kv.2 :=
    fun kv hkv => reduceVar0_eq name newAxis hname ds.axes hd f kv.2 (hown kv hkv)
  have hrepl : List.map (fun ax => if (ax.name == name) = true then newAxis else ax) ds.axes =
      replAxis name newAxis ds.axes := rfl
  simp only [hrepl]
  rw [foldlM_setItem_ownF _ (fun kv => reduceVar0 name (replAxis name newAxis ds.axes) f kv.2)
    (replAxis name newAxis ds.axes) hnd' ds.vars
    (by intro acc kv _; simp only [reduceVar0]; exact (apply_ite (setItem acc kv.1) _ _ _).symm)
    (by
      intro kv hkv ax hax
      rw [hg kv hkv] at hax
      exact reduceVar_axes_mem name newAxis ds.axes f kv.2 (hown kv hkv) ax hax)
    hk []]
  simp only [bind, Except.bind, pure, Except.pure]
  congr 2
  apply List.map_congr_left
  intro kv hkv
  rw [hg kv hkv]

theorem reduceVar_dims (name : String) (newAxis : Axis) (hname : newAxis.name = name)
    (f : Nat → DimArray α → NDArr α) (v : DimArray α) : (reduceVar name newAxis f v).dims = v.dims := by
  unfold reduceVar
  split
  · exact replAxis_names name newAxis hname v.axes
  · rfl

theorem reduceVar_of_not_mem (name : String) (newAxis : Axis) (f : Nat → DimArray α → NDArr α) (v : DimArray α)
    (h : name ∉ v.dims) : reduceVar name newAxis f v = v := by
  unfold reduceVar
  rw [if_neg]
  intro hlt
  exact h (List.idxOf_lt_length_iff.1 hlt)

/-- the closed form of `reduce_axis` is again a Dataset with shared (own) axes -/
theorem reduce_shared (ds : Ds α) (name : String) (newAxis : Axis) (f : Nat → DimArray α → NDArr α)
    (hname : newAxis.name = name) (hs : SharedAxes ds) (hown : OwnAxes ds) (out : Ds α)
    (hout : out = { axes := replAxis name newAxis ds.axes
                    vars := ds.vars.map (fun kv => (kv.1, reduceVar name newAxis f kv.2))
                    attrs := ds.attrs }) :
    SharedAxes out ∧ OwnAxes out := by
  subst hout
  have hown' : OwnAxes ({ axes := replAxis name newAxis ds.axes
                          vars := ds.vars.map (fun kv => (kv.1, reduceVar name newAxis f kv.2))
                          attrs := ds.attrs } : Ds α) := by
    intro kv hkv ax hax
    simp only [List.mem_map] at hkv
    obtain ⟨kv0, hkv0, rfl⟩ := hkv
    exact reduceVar_axes_mem name newAxis ds.axes f kv0.2 (hown kv0 hkv0) ax hax
  refine ⟨⟨?_, ?_, ?_⟩, hown'⟩
  · intro kv hkv ax hax
    exact ⟨ax, hown' kv hkv ax hax, rfl, rfl⟩
  · intro e he
    simp only [replAxis, List.mem_map] at he
    obtain ⟨a, ha, rfl⟩ := he
    obtain ⟨kv, hkv, hmem⟩ := hs.2.1 a ha
    refine ⟨(kv.1, reduceVar name newAxis f kv.2), List.mem_map_of_mem hkv, ?_⟩
    simp only [reduceVar_dims name newAxis hname]
    split
    · rename_i h
      rw [hname]
      rw [(by simpa using h : a.name = name)] at hmem
      exact hmem
    · exact hmem
  · show ((replAxis name newAxis ds.axes).map (·.name)).Nodup
    rw [replAxis_names name newAxis hname]
    exact hs.2.2

/-! ### take_axis by position -/

/-- the axis `Dataset.take_axis` builds (`Axis.take`: the metadata of the axis is kept) -/
def takeNewAxis (name : String) (ax : Axis) (ps : List Nat) : Axis :=
  { name := name, labels := ps.map fun p => ax.labels.getD p Label.none, kind := ax.kind, attrs := ax.attrs }

theorem takeAxisPosDs_closed (ds out : Ds α) (name : String) (ps : List Nat) (hown : OwnAxes ds)
    (hd : ds.dims.Nodup) (hk : ds.keys.Nodup) (h : takeAxisPosDs ds name ps = .ok out) :
    ∃ ax, ds.axes.find? (fun a => a.name == name) = some ax ∧
      out = { axes := replAxis name (takeNewAxis name ax ps) ds.axes
              vars := ds.vars.map (fun kv => (kv.1, reduceVar name (takeNewAxis name ax ps) (takeVals ps) kv.2))
              attrs := ds.attrs } := by
  unfold takeAxisPosDs at h
  split at h
  · cases h
  · rename_i ax hfind
    refine ⟨ax, hfind, ?_⟩
    split at h
    · cases h
    · have hmem := find?_name_some hfind
      have hin : name ∈ ds.dims := hmem.2 ▸ List.mem_map_of_mem hmem.1
      have := reduceAxisKeep_closed ds name (takeNewAxis name ax ps) (takeVals ps) rfl hin hown hd hk
      unfold takeNewAxis at this
      rw [this] at h
      cases h
      rfl

theorem name_beq_idx (axes : List Axis) (hnd : (axes.map (·.name)).Nodup) (name : String) (k : Nat)
    (hk : k < axes.length) : (axes[k].name == name) = (k == (axes.map (·.name)).idxOf name) := by
  have h := getElem_eq_iff_idxOf hnd k (by simpa using hk) name
  simp only [List.getElem_map] at h
  rw [Bool.eq_iff_iff]
  simpa using h

theorem takeAxisPos_axes (a : DimArray α) (name : String) (ps : List Nat) (hnd : a.dims.Nodup) :
    (takeAxisPos a (a.dims.idxOf name) ps).axes =
      a.axes.map (fun ax => if ax.name == name then axisTake ax ps else ax) := by
  unfold takeAxisPos
  apply mapIdx_eq_map
  intro k hk
  rw [name_beq_idx a.axes hnd name k hk]
  rfl

theorem takeAxisPos_dims (a : DimArray α) (name : String) (ps : List Nat) (hnd : a.dims.Nodup) :
    (takeAxisPos a (a.dims.idxOf name) ps).dims = a.dims := by
  show (takeAxisPos a (a.dims.idxOf name) ps).axes.map (·.name) = a.axes.map (·.name)
  rw [takeAxisPos_axes a name ps hnd, List.map_map]
  apply List.map_congr_left
  intro ax _
  simp only [Function.comp]
  split <;> rfl

/-- one variable of `Dataset.take_axis` against `DimArray.take_axis` -/
theorem reduceVar_take (v : DimArray α) (name : String) (ax : Axis) (ps : List Nat) (hnd : v.dims.Nodup)
    (hmem : name ∈ v.dims) (hax : ∀ a ∈ v.axes, a.name = name → a.labels = ax.labels) :
    (reduceVar name (takeNewAxis name ax ps) (takeVals ps) v).dims = (takeAxisPos v (v.dims.idxOf name) ps).dims ∧
    (reduceVar name (takeNewAxis name ax ps) (takeVals ps) v).axes.map (·.labels) =
      (takeAxisPos v (v.dims.idxOf name) ps).axes.map (·.labels) ∧
    (reduceVar name (takeNewAxis name ax ps) (takeVals ps) v).vals = (takeAxisPos v (v.dims.idxOf name) ps).vals ∧
    (reduceVar name (takeNewAxis name ax ps) (takeVals ps) v).attrs = (takeAxisPos v (v.dims.idxOf name) ps).attrs ∧
    (reduceVar name (takeNewAxis name ax ps) (takeVals ps) v).vkind = (takeAxisPos v (v.dims.idxOf name) ps).vkind := by
  have hlt : v.dims.idxOf name < v.dims.length := List.idxOf_lt_length_iff.2 hmem
  refine ⟨?_, ?_, ?_, ?_, ?_⟩
  · rw [reduceVar_dims name _ rfl, takeAxisPos_dims v name ps hnd]
  · rw [takeAxisPos_axes v name ps hnd]
    unfold reduceVar
    rw [if_pos hlt]
    simp only [replAxis, List.map_map]
    apply List.map_congr_left
    intro a ha
    simp only [Function.comp]
    split
    · rename_i h
      have := hax a ha (by simpa using h)
      simp only [takeNewAxis, axisTake, this]
    · rfl
  · unfold reduceVar
    rw [if_pos hlt]
    rfl
  · unfold reduceVar
    rw [if_pos hlt]
    rfl
  · unfold reduceVar
    rw [if_pos hlt]
    rfl

theorem DimArray.ext' {x y : DimArray α} (h1 : x.axes = y.axes) (h2 : x.vals = y.vals) (h3 : x.vkind = y.vkind)
    (h4 : x.attrs = y.attrs) : x = y := by
  cases x; cases y; simp_all

/-- one variable of `Dataset.take_axis` IS `DimArray.take_axis` of that variable when the variable's axis of that
name is the Dataset's (`OwnAxes`): kind and metadata of the operated axis included (`Axis.take` on both sides) -/
theorem reduceVar_take_eq (v : DimArray α) (name : String) (ax : Axis) (ps : List Nat) (hnd : v.dims.Nodup)
    (hmem : name ∈ v.dims) (hn : ax.name = name) (hax : ∀ a ∈ v.axes, a.name = name → a = ax) :
    reduceVar name (takeNewAxis name ax ps) (takeVals ps) v = takeAxisPos v (v.dims.idxOf name) ps := by
  have hlt : v.dims.idxOf name < v.dims.length := List.idxOf_lt_length_iff.2 hmem
  unfold reduceVar
  rw [if_pos hlt]
  apply DimArray.ext'
  · rw [takeAxisPos_axes v name ps hnd]
    show replAxis name (takeNewAxis name ax ps) v.axes = _
    unfold replAxis
    apply List.map_congr_left
    intro a ha
    split
    · rename_i h
      rw [hax a ha (by simpa using h)]
      simp only [takeNewAxis, axisTake, hn]
    · rfl
  · rfl
  · rfl
  · rfl

/-! ### the axis of a variable at the position of a name -/

theorem axes_getD_idxOf (v : DimArray α) (name : String) (hmem : name ∈ v.dims) :
    v.axes.getD (v.dims.idxOf name) default ∈ v.axes ∧ (v.axes.getD (v.dims.idxOf name) default).name = name := by
  have hlt : v.dims.idxOf name < v.dims.length := List.idxOf_lt_length_iff.2 hmem
  have hlt' : v.dims.idxOf name < v.axes.length := by simpa [DimArray.dims] using hlt
  rw [List.getD_eq_getElem?_getD, List.getElem?_eq_getElem hlt', Option.getD_some]
  refine ⟨List.getElem_mem hlt', ?_⟩
  have h1 : v.dims[v.dims.idxOf name] = name := List.getElem_idxOf hlt
  have h2 : v.dims[v.dims.idxOf name] = (v.axes[v.dims.idxOf name]).name := by
    simp only [DimArray.dims, List.getElem_map]
  rw [← h2, h1]

theorem axisPos_name (v : DimArray α) (name : String) (hmem : name ∈ v.dims) :
    axisPos v.axes (.name name) = .ok (v.dims.idxOf name) := by
  have hlt : v.dims.idxOf name < v.dims.length := List.idxOf_lt_length_iff.2 hmem
  have hlt' : (v.axes.map (·.name)).idxOf name < v.axes.length := by simpa [DimArray.dims] using hlt
  simp only [axisPos, hlt', if_true]
  rfl

theorem sortAxis_name_eq (v : DimArray α) (name : String) (hmem : name ∈ v.dims) :
    sortAxis v (.name name) = .ok (takeAxisPos v (v.dims.idxOf name)
      (argsortBy Label.le (v.axes.getD (v.dims.idxOf name) default).labels)) := by
  unfold sortAxis
  rw [axisPos_name v name hmem]
  rfl

/-! ### reindex_axis -/

/-- the labels of the reindexed axis: the requested label where it did not match, the label found otherwise -/
def rxLab (L newL : List Label) : List Label :=
  newL.zipIdx.map fun x =>
    if (mismatchMask L (locateMany L newL .left) newL).getD x.2 false then x.1
    else L.getD ((locateMany L newL .left).getD x.2 0) Label.none

/-- `DimArray.reindex_axis` by name, written out (`ax` is the variable's axis of that name) -/
def rxResult (v : DimArray α) (name : String) (ax : Axis) (newL : List Label) (newKind : Kind) (fill : α)
    (fillKind : Kind) : DimArray α :=
  if (mismatchMask ax.labels (locateMany ax.labels newL .left) newL).any id then
    { axes := v.axes.mapIdx (fun i x => if i == v.dims.idxOf name then
          { name := ax.name, labels := rxLab ax.labels newL, kind := maybeCastKind ax.kind newKind, attrs := ax.attrs }
        else x)
      vals := (takeAxisPos v (v.dims.idxOf name) (locateMany ax.labels newL .left)).vals.putWhere
        (fun j => (mismatchMask ax.labels (locateMany ax.labels newL .left) newL).getD (j.getD (v.dims.idxOf name) 0) false)
        (fun _ => fill)
      vkind := maybeCastKind v.vkind fillKind, attrs := v.attrs }
  else takeAxisPos v (v.dims.idxOf name) (locateMany ax.labels newL .left)

theorem reindexAxis_name_ok (v : DimArray α) (name : String) (hmem : name ∈ v.dims) (ax : Axis)
    (hax : v.axes.getD (v.dims.idxOf name) default = ax) (newL : List Label) (newKind : Kind) (fill : α)
    (fillKind : Kind) (hne : ¬ (ax.labels.isEmpty && !newL.isEmpty) = true) :
    reindexAxis v (.name name) newL newKind fill fillKind false none =
      .ok (rxResult v name ax newL newKind fill fillKind) := by
  unfold reindexAxis
  rw [axisPos_name v name hmem]
  simp only [bind, Except.bind, pure, Except.pure, Option.getD_none, Option.isNone_none, if_true]
  rw [hax, if_neg hne]
  unfold rxResult rxLab
  split
  · simp
  · rfl

/-- what `Dataset.reindex_axis` does to one variable of the clipped take -/
def rxPatch (name : String) (ax : Axis) (newL : List Label) (newKind : Kind) (fill : α) (fillKind : Kind)
    (kv : String × DimArray α) : String × DimArray α :=
  if kv.2.dims.idxOf name < kv.2.dims.length then
    (kv.1, { axes := kv.2.axes.map fun a => if a.name == name then
                ({ name := name, labels := rxLab ax.labels newL, kind := maybeCastKind ax.kind newKind, attrs := ax.attrs } : Axis) else a
             vals := kv.2.vals.putWhere
               (fun j => (mismatchMask ax.labels (locateMany ax.labels newL .left) newL).getD
                  (j.getD (kv.2.dims.idxOf name) 0) false) (fun _ => fill)
             vkind := maybeCastKind kv.2.vkind fillKind, attrs := kv.2.attrs })
  else kv

theorem reindexAxisDs_closed (ds out : Ds α) (name : String) (newL : List Label) (newKind fillKind : Kind) (fill : α)
    (h : reindexAxisDs ds name newL newKind fill fillKind = .ok out) :
    ∃ ax taken, ds.axes.find? (fun a => a.name == name) = some ax ∧
      ¬ (ax.labels.isEmpty && !newL.isEmpty) = true ∧
      takeAxisPosDs ds name (locateMany ax.labels newL .left) = .ok taken ∧
      out = (if (mismatchMask ax.labels (locateMany ax.labels newL .left) newL).any id then
        { axes := taken.axes.map fun a => if a.name == name then
              ({ name := name, labels := rxLab ax.labels newL, kind := maybeCastKind ax.kind newKind, attrs := ax.attrs } : Axis) else a
          vars := taken.vars.map (rxPatch name ax newL newKind fill fillKind)
          attrs := taken.attrs }
        else taken) := by
  unfold reindexAxisDs at h
  split at h
  · cases h
  · rename_i ax hfind
    simp only [bind, Except.bind, pure, Except.pure] at h
    split at h
    · cases h
    · rename_i hne
      cases htk : takeAxisPosDs ds name (locateMany ax.labels newL .left) with
      | error e => rw [htk] at h; cases h
      | ok taken =>
        rw [htk] at h
        refine ⟨ax, taken, hfind, hne, htk, ?_⟩
        simp only at h
        split at h
        · rename_i hm
          have hm' : (mismatchMask ax.labels (locateMany ax.labels newL .left) newL).any id = false := by
            simpa using hm
          rw [hm']
          cases h
          rfl
        · rename_i hm
          have hm' : (mismatchMask ax.labels (locateMany ax.labels newL .left) newL).any id = true := by
            simpa using hm
          rw [hm']
          cases h
          rfl

theorem rxPatch_of_not_mem (name : String) (ax : Axis) (newL : List Label) (newKind : Kind) (fill : α)
    (fillKind : Kind) (kv : String × DimArray α) (h : name ∉ kv.2.dims) :
    rxPatch name ax newL newKind fill fillKind kv = kv := by
  unfold rxPatch
  rw [if_neg]
  intro hlt
  exact h (List.idxOf_lt_length_iff.1 hlt)

theorem rxPatch_fst (name : String) (ax : Axis) (newL : List Label) (newKind : Kind) (fill : α)
    (fillKind : Kind) (kv : String × DimArray α) : (rxPatch name ax newL newKind fill fillKind kv).1 = kv.1 := by
  unfold rxPatch
  split <;> rfl

theorem rxResult_axes (v : DimArray α) (name : String) (ax : Axis) (newL : List Label) (newKind : Kind) (fill : α)
    (fillKind : Kind) (hnd : v.dims.Nodup)
    (hany : (mismatchMask ax.labels (locateMany ax.labels newL .left) newL).any id = true) :
    (rxResult v name ax newL newKind fill fillKind).axes = v.axes.map fun a => if a.name == name then
      ({ name := ax.name, labels := rxLab ax.labels newL, kind := maybeCastKind ax.kind newKind, attrs := ax.attrs } : Axis)
      else a := by
  unfold rxResult
  rw [if_pos hany]
  apply mapIdx_eq_map
  intro k hk
  rw [name_beq_idx v.axes hnd name k hk]
  rfl

/-- one variable of `Dataset.reindex_axis` (some label did not match) against `DimArray.reindex_axis` -/
theorem rxPatch_reduceVar (v : DimArray α) (k name : String) (ax : Axis) (hmem : name ∈ v.dims)
    (newL : List Label) (newKind : Kind) (fill : α) (fillKind : Kind) (ps : List Nat) (hps : ps = locateMany ax.labels newL .left)
    (hany : (mismatchMask ax.labels (locateMany ax.labels newL .left) newL).any id = true) :
    ∃ r, rxPatch name ax newL newKind fill fillKind
        (k, reduceVar name (takeNewAxis name ax ps) (takeVals ps) v) = (k, r) ∧
      r.axes = (v.axes.map fun a => if a.name == name then
        ({ name := name, labels := rxLab ax.labels newL, kind := maybeCastKind ax.kind newKind, attrs := ax.attrs } : Axis) else a) ∧
      r.vals = (rxResult v name ax newL newKind fill fillKind).vals ∧
      r.attrs = (rxResult v name ax newL newKind fill fillKind).attrs ∧
      r.vkind = (rxResult v name ax newL newKind fill fillKind).vkind := by
  have hlt : v.dims.idxOf name < v.dims.length := List.idxOf_lt_length_iff.2 hmem
  have hd : (reduceVar name (takeNewAxis name ax ps) (takeVals ps) v).dims = v.dims := reduceVar_dims name _ rfl _ v
  unfold rxPatch
  simp only [hd]
  rw [if_pos hlt]
  refine ⟨_, rfl, ?_, ?_, ?_, ?_⟩
  · simp only [reduceVar, if_pos hlt, replAxis, List.map_map]
    apply List.map_congr_left
    intro a _
    simp only [Function.comp]
    by_cases hb : (a.name == name) = true
    · simp [hb, takeNewAxis]
    · simp [hb]
  · simp only [rxResult, if_pos hany, reduceVar, if_pos hlt, takeVals, hps]
  · simp only [rxResult, if_pos hany, reduceVar, if_pos hlt]
  · simp only [rxResult, if_pos hany, reduceVar, if_pos hlt]

/-- one variable of `Dataset.reindex_axis` (some label did not match) IS `DimArray.reindex_axis` of that variable
when `ax` (the Dataset's axis) carries the operated name: the patched axis keeps kind-widening and metadata alike -/
theorem rxPatch_reduceVar_eq (v : DimArray α) (k name : String) (ax : Axis) (hmem : name ∈ v.dims) (hnd : v.dims.Nodup)
    (hn : ax.name = name) (newL : List Label) (newKind : Kind) (fill : α) (fillKind : Kind) (ps : List Nat)
    (hps : ps = locateMany ax.labels newL .left)
    (hany : (mismatchMask ax.labels (locateMany ax.labels newL .left) newL).any id = true) :
    rxPatch name ax newL newKind fill fillKind (k, reduceVar name (takeNewAxis name ax ps) (takeVals ps) v) =
      (k, rxResult v name ax newL newKind fill fillKind) := by
  obtain ⟨r, hr, hax, hvals, hattrs, hvk⟩ := rxPatch_reduceVar v k name ax hmem newL newKind fill fillKind ps hps hany
  rw [hr]
  congr 1
  apply DimArray.ext' _ hvals hvk hattrs
  rw [hax, rxResult_axes v name ax newL newKind fill fillKind hnd hany, hn]

/-! ### `setItem` in general (axes may be appended) -/

theorem setItem_axes_nodup (ds : Ds α) (v : DimArray α) (hd : ds.dims.Nodup) (hv : v.dims.Nodup) :
    ((ds.axes ++ v.axes.filter fun ax => !(ds.dims.contains ax.name)).map (·.name)).Nodup := by
  rw [List.map_append, List.nodup_append]
  refine ⟨hd, ?_, ?_⟩
  · exact List.Nodup.sublist (List.Sublist.map _ List.filter_sublist) hv
  · intro a ha b hb
    simp only [List.mem_map, List.mem_filter] at hb
    obtain ⟨x, ⟨_, hx2⟩, rfl⟩ := hb
    intro hab
    have : x.name ∈ ds.dims := hab ▸ ha
    simp [this] at hx2

/-- under the acceptance condition of `__setitem__`, every axis of the value is found by name in the extended
list of axes, with the same labels -/
theorem setItem_lookup (ds : Ds α) (v : DimArray α) (hd : ds.dims.Nodup) (hv : v.dims.Nodup)
    (hacc : ∀ ax ∈ v.axes, ∀ e, ds.axes.find? (fun a => a.name == ax.name) = some e → axisEq ax e = true)
    (ax : Axis) (hax : ax ∈ v.axes) :
    ∃ e, (ds.axes ++ v.axes.filter fun ax => !(ds.dims.contains ax.name)).find? (fun a => a.name == ax.name) = some e ∧
      e ∈ (ds.axes ++ v.axes.filter fun ax => !(ds.dims.contains ax.name)) ∧ e.name = ax.name ∧ e.labels = ax.labels := by
  have hnd := setItem_axes_nodup ds v hd hv
  by_cases hin : ax.name ∈ ds.dims
  · obtain ⟨e, he, hen⟩ := List.mem_map.1 hin
    have hfind := find?_name hd he hen
    have hmem : e ∈ ds.axes ++ v.axes.filter fun ax => !(ds.dims.contains ax.name) := List.mem_append_left _ he
    refine ⟨e, find?_name hnd hmem hen, hmem, hen, ?_⟩
    have := hacc ax hax e hfind
    simp only [axisEq, Bool.and_eq_true, beq_iff_eq] at this
    exact this.1.symm
  · have hmem : ax ∈ ds.axes ++ v.axes.filter fun ax => !(ds.dims.contains ax.name) := by
      apply List.mem_append_right
      simp only [List.mem_filter]
      exact ⟨hax, by simpa using hin⟩
    exact ⟨ax, find?_name hnd hmem rfl, hmem, rfl, rfl⟩

theorem setItem_shared_aux (ds out : Ds α) (k : String) (v : DimArray α)
    (hs : ∀ kv ∈ ds.vars, ∀ ax ∈ kv.2.axes, ∃ e ∈ ds.axes, e.name = ax.name ∧ e.labels = ax.labels)
    (hd : ds.dims.Nodup) (hv : v.dims.Nodup) (h : setItem ds k v = .ok out) :
    (∀ kv ∈ out.vars, ∀ ax ∈ kv.2.axes, ∃ e ∈ out.axes, e.name = ax.name ∧ e.labels = ax.labels) ∧
    out.dims.Nodup ∧ (∃ r, (k, r) ∈ out.vars ∧ r.dims = v.dims ∧ r.vals = v.vals ∧
      r.axes.map (·.labels) = v.axes.map (·.labels)) := by
  unfold setItem at h
  split at h
  · cases h
  · rename_i hany
    have hacc : ∀ ax ∈ v.axes, ∀ e, ds.axes.find? (fun a => a.name == ax.name) = some e → axisEq ax e = true := by
      intro ax hax e hfind
      simp only [List.any_eq_true, not_exists, not_and] at hany
      have := hany ax hax
      rw [hfind] at this
      simpa using this
    have hlook := setItem_lookup ds v hd hv hacc
    cases h
    refine ⟨?_, setItem_axes_nodup ds v hd hv, ?_⟩
    · intro kv hkv ax hax
      simp only [List.mem_append, List.mem_filter, List.mem_singleton] at hkv
      rcases hkv with ⟨hkv, _⟩ | rfl
      · obtain ⟨e, he, h1, h2⟩ := hs kv hkv ax hax
        exact ⟨e, List.mem_append_left _ he, h1, h2⟩
      · simp only [List.mem_map] at hax
        obtain ⟨a, ha, rfl⟩ := hax
        obtain ⟨e, hfind, hmem, _, _⟩ := hlook a ha
        rw [hfind]
        exact ⟨e, hmem, rfl, rfl⟩
    · refine ⟨_, List.mem_append_right _ (List.mem_singleton.2 rfl), ?_, rfl, ?_⟩
      · simp only [DimArray.dims, List.map_map]
        apply List.map_congr_left
        intro a ha
        obtain ⟨e, hfind, _, hn, _⟩ := hlook a ha
        simp only [Function.comp, hfind, Option.getD_some, hn]
      · simp only [List.map_map]
        apply List.map_congr_left
        intro a ha
        obtain ⟨e, hfind, _, _, hl⟩ := hlook a ha
        simp only [Function.comp, hfind, Option.getD_some, hl]

/-! ### take: the Dataset side -/

/-- `_getaxes_ortho` along the dimension `name`: a scalar drops the axis, a list selects its labels; the other
axes are returned as they are -/
def selAxis (name : String) (p : PosIx) (a : Axis) : Option Axis :=
  if a.name == name then (match p with | .scalar _ => none | .list ps => some (axisSelect a ps)) else some a

/-- per-dimension positional indices: `p` along `name`, everything along the others -/
def pixOf (name : String) (p : PosIx) (axes : List Axis) : List PosIx :=
  axes.map fun a => if a.name == name then p else .list (List.range a.size)

/-- `keepdims`: a resolved scalar becomes a one-element list -/
def keepRaw (keepdims : Bool) (raw : RawIx) : RawIx :=
  match raw with
  | .int i => if keepdims then .ints [i] else raw
  | r => r

/-- what `Dataset.take` stores for one variable -/
def takeVar (name : String) (p : PosIx) (v : DimArray α) : DimArray α :=
  if v.dims.idxOf name < v.dims.length then
    { axes := v.axes.filterMap (selAxis name p), vals := v.vals.outer (pixOf name p v.axes), vkind := v.vkind,
      attrs := v.attrs }
  else v

theorem selAxis_name {name : String} {p : PosIx} {a b : Axis} (h : selAxis name p a = some b) : b.name = a.name := by
  unfold selAxis at h
  split at h
  · cases p with
    | scalar q => cases h
    | list ps => simp only [Option.some.injEq] at h; subst h; rfl
  · simp only [Option.some.injEq] at h; subst h; rfl

theorem selAxis_of_ne {name : String} {p : PosIx} {a : Axis} (h : a.name ≠ name) : selAxis name p a = some a := by
  unfold selAxis
  rw [if_neg (by simpa using h)]

theorem selAxis_names_sublist (name : String) (p : PosIx) (l : List Axis) :
    ((l.filterMap (selAxis name p)).map (·.name)).Sublist (l.map (·.name)) := by
  induction l with
  | nil => simp
  | cons a l ih =>
    rw [List.filterMap_cons]
    cases hs : selAxis name p a with
    | none => simp only [List.map_cons]; exact List.Sublist.cons _ ih
    | some b =>
      simp only [List.map_cons, selAxis_name hs]
      exact List.Sublist.cons_cons _ ih

theorem takeVar_of_not_mem (name : String) (p : PosIx) (v : DimArray α) (h : name ∉ v.dims) :
    takeVar name p v = v := by
  unfold takeVar
  rw [if_neg]
  intro hlt
  exact h (List.idxOf_lt_length_iff.1 hlt)

theorem takeVar_axes_mem (name : String) (p : PosIx) (axes : List Axis) (v : DimArray α)
    (hv : ∀ ax ∈ v.axes, ax ∈ axes) : ∀ ax ∈ (takeVar name p v).axes, ax ∈ axes.filterMap (selAxis name p) := by
  intro ax hax
  unfold takeVar at hax
  split at hax
  · simp only [List.mem_filterMap] at hax ⊢
    obtain ⟨a, ha, hs⟩ := hax
    exact ⟨a, hv a ha, hs⟩
  · rename_i hlt
    have hn : name ∉ v.axes.map (·.name) := fun h => hlt (List.idxOf_lt_length_iff.2 h)
    have : ax.name ≠ name := fun he => hn (he ▸ List.mem_map_of_mem hax)
    simp only [List.mem_filterMap]
    exact ⟨ax, hv ax hax, selAxis_of_ne this⟩

/-- the table of positional indices `Dataset.take` builds for a variable -/
theorem pix_range_eq (v : DimArray α) (name : String) (p : PosIx) (hnd : v.dims.Nodup) :
    ((List.range v.axes.length).map fun k =>
      if k == v.dims.idxOf name then p else PosIx.list (List.range (v.axes.getD k default).size)) =
      pixOf name p v.axes := by
  unfold pixOf
  apply range_map_eq_map v.axes default (fun k a => if k == v.dims.idxOf name then p else PosIx.list (List.range a.size))
  intro k hk
  rw [name_beq_idx v.axes hnd name k hk]
  rfl

/-- the axes `Dataset.take` builds for a variable -/
theorem zip_pix_filterMap (name : String) (p : PosIx) (axes : List Axis) (Fm : Axis × PosIx → Option Axis)
    (hs : ∀ a q, Fm (a, .scalar q) = none)
    (hl : ∀ a ps, Fm (a, .list ps) = if a.name == name then some (axisSelect a ps) else some a) :
    (axes.zip (pixOf name p axes)).filterMap Fm = axes.filterMap (selAxis name p) := by
  unfold pixOf
  rw [zip_map_self, List.filterMap_map]
  apply filterMap_congr_mem
  intro a _
  simp only [Function.comp, selAxis]
  by_cases hb : (a.name == name) = true
  · simp only [hb, if_true]
    cases p with
    | scalar q => exact hs a q
    | list ps => rw [hl a ps, if_pos hb]
  · simp only [hb, Bool.false_eq_true, if_false]
    rw [hl a, if_neg hb]

theorem ite_bind_same {ε β γ : Type} (c : Prop) [Decidable c] (x y : Except ε β) (f : β → Except ε γ) :
    (if c then x >>= f else y >>= f) = (if c then x else y) >>= f := by
  split <;> rfl

theorem takeDs_closed (ds out : Ds α) (name : String) (ix : Ix) (cfg : IndexCfg) (hown : OwnAxes ds)
    (hd : ds.dims.Nodup) (hk : ds.keys.Nodup) (hvnd : ∀ kv ∈ ds.vars, kv.2.dims.Nodup)
    (h : takeDs ds name ix cfg = .ok out) :
    ∃ ax raw p, ds.axes.find? (fun a => a.name == name) = some ax ∧
      (if cfg.mode != .position && !ix.isFull then loc ax.labels ax.kind ix cfg.tol else ixToRaw ix) = .ok raw ∧
      resolveRaw (keepRaw cfg.keepdims raw) ax.size = .ok p ∧
      out = { axes := ds.axes.filterMap (selAxis name p)
              vars := ds.vars.map (fun kv => (kv.1, takeVar name p kv.2))
              attrs := ds.attrs } := by
  unfold takeDs at h
  split at h
  · cases h
  · rename_i ax hfind
    simp only [] at h
    rw [ite_bind_same] at h
    obtain ⟨raw, hraw, h⟩ := except_bind_ok _ _ _ h
    obtain ⟨p, hp, h⟩ := except_bind_ok _ _ _ h
    refine ⟨ax, raw, p, hfind, hraw, ?_, ?_⟩
    · rw [← hp]
      cases raw <;> rfl
    · have hnd' : ((ds.axes.filterMap (selAxis name p)).map (·.name)).Nodup :=
        List.Nodup.sublist (selAxis_names_sublist name p ds.axes) hd
      obtain ⟨o, hfold, h⟩ := except_bind_ok _ _ _ h
      rw [foldlM_setItem_ownS _ (fun kv => takeVar name p kv.2) (ds.axes.filterMap (selAxis name p)) hnd' ds.vars
        (by
          intro acc kv hkv
          simp only [takeVar]
          rw [apply_ite (setItem acc kv.1), pix_range_eq kv.2 name p (hvnd kv hkv),
            zip_pix_filterMap name p _ _ (fun _ _ => rfl) (fun _ _ => rfl)])
        (by
          intro kv hkv ax hax
          exact takeVar_axes_mem name p ds.axes kv.2 (hown kv hkv) ax hax)
        hk _ (by cases p <;> rfl) rfl] at hfold
      cases hfold
      simp only [pure, Except.pure, Except.ok.injEq] at h
      exact h.symm

/-! ### take: the DimArray side, `take v {name: ix}` -/

theorem ixToRaw_full : ixToRaw fullIx = .ok (.slice none none none) := by
  simp [fullIx, ixToRaw, pure, Except.pure, bind, Except.bind]

theorem expandedIndexer_go_noEllipsis (key : List Ix) (ndim : Nat) (found : Bool) :
    ∀ ixs : List Ix, (∀ ix ∈ ixs, ix ≠ .ellipsis) → expandedIndexer.go key ndim found ixs = ixs := by
  intro ixs
  induction ixs with
  | nil => intro _; rfl
  | cons ix ixs ih =>
    intro h
    have hix := h ix (by simp)
    have ih' := ih (fun i hi => h i (by simp [hi]))
    cases ix with
    | ellipsis => exact absurd rfl hix
    | scalar v => simp [expandedIndexer.go, ih']
    | list vs => simp [expandedIndexer.go, ih']
    | mask m => simp [expandedIndexer.go, ih']
    | slice a b c => simp [expandedIndexer.go, ih']

theorem expandedIndexer_noEllipsis (ixs : List Ix) (ndim : Nat) (hlen : ixs.length = ndim)
    (hs : ∀ ix ∈ ixs, ix ≠ .ellipsis) : expandedIndexer ixs ndim = .ok ixs := by
  unfold expandedIndexer
  simp only [expandedIndexer_go_noEllipsis ixs ndim false ixs hs, hlen]
  simp

/-- the key of `{name: ix}`: `ix` along `name`, a full slice along every other dimension -/
def keyOf (name : String) (ix : Ix) (axes : List Axis) : List Ix :=
  axes.map fun a => if a.name == name then ix else fullIx

theorem normalizeIndex_dict (axes : List Axis) (name : String) (ix : Ix) (hmem : name ∈ axes.map (·.name))
    (hne : ix ≠ .ellipsis) :
    normalizeIndex (axes.map (·.name)) (.dict [(.name name, ix)]) = .ok (keyOf name ix axes) := by
  unfold normalizeIndex
  have hc : (axes.map (·.name)).contains name = true := by simpa using hmem
  simp only [List.mapM_cons, List.mapM_nil, dimOfKey, hc, if_true, bind, Except.bind, pure, Except.pure,
    List.reverse_cons, List.reverse_nil, List.nil_append, List.find?_cons, List.find?_nil, List.map_map]
  have hexp : ∀ key : List Ix, key = keyOf name ix axes →
      expandedIndexer key (axes.map (·.name)).length = .ok (keyOf name ix axes) := by
    intro key hkey
    subst hkey
    apply expandedIndexer_noEllipsis
    · simp [keyOf]
    · intro i hi
      simp only [keyOf, List.mem_map] at hi
      obtain ⟨a, _, rfl⟩ := hi
      split
      · exact hne
      · simp [fullIx]
  apply hexp
  unfold keyOf
  apply List.map_congr_left
  intro a _
  simp only [Function.comp]
  by_cases hb : a.name = name
  · simp [hb]
  · have h1 : (name == a.name) = false := by simpa using fun h => hb h.symm
    have h2 : (a.name == name) = false := by simpa using hb
    simp [h1, h2]

theorem ok_bind {ε β γ : Type} (a : β) (f : β → Except ε γ) : (Except.ok a >>= f) = f a := rfl

theorem map_zip_map_self {β γ δ : Type} (l : List β) (f : β → γ) (g : β → δ) :
    (l.map f).zip (l.map g) = l.map fun a => (f a, g a) := by
  induction l with
  | nil => rfl
  | cons a l ih => simp only [List.map_cons, List.zip_cons_cons, ih]

/-- `_get_indices` of `{name: ix}`: the resolved index along `name`, a full slice along every other dimension -/
theorem getIndices_dict (axes : List Axis) (name : String) (ix : Ix) (cfg : IndexCfg) (hmem : name ∈ axes.map (·.name))
    (ax : Axis) (hax : ∀ a ∈ axes, a.name = name → a = ax) (raw : RawIx)
    (hraw : (if cfg.mode != .position && !ix.isFull then loc ax.labels ax.kind ix cfg.tol else ixToRaw ix) = .ok raw)
    (hfit : ∀ m, ix = .mask m → m.length = ax.size) :
    getIndices axes (.dict [(.name name, ix)]) cfg =
      .ok (axes.map fun a => if a.name == name then keepRaw cfg.keepdims raw else .slice none none none) := by
  have hne : ix ≠ .ellipsis := by
    intro h
    subst h
    split at hraw
    · simp [loc] at hraw
    · simp [ixToRaw] at hraw
  unfold getIndices
  simp only []
  rw [normalizeIndex_dict axes name ix hmem hne, ok_bind]
  unfold keyOf
  rw [map_zip_self]
  refine (mapM_ok_map _ (fun x : Ix × Axis =>
    if x.2.name == name then keepRaw cfg.keepdims raw else .slice none none none) _ ?_).trans ?_
  · intro x hx
    simp only [List.mem_map] at hx
    obtain ⟨a, ha, rfl⟩ := hx
    by_cases hb : (a.name == name) = true
    · have := hax a ha (by simpa using hb)
      subst this
      simp only [hb, if_true]
      cases ix with
      | ellipsis => exact absurd rfl hne
      | mask m =>
        have : raw = .mask m := by
          split at hraw
          · simp only [loc] at hraw; cases hraw; rfl
          · simp only [ixToRaw, pure, Except.pure] at hraw; cases hraw; rfl
        subst this
        have hb' : (m.length == a.size) = true := by simpa using hfit m rfl
        simp only [hb', if_true]
        rfl
      | scalar v =>
        simp only []
        rw [ite_bind_same, hraw, ok_bind]
        cases raw <;> rfl
      | list vs =>
        simp only []
        rw [ite_bind_same, hraw, ok_bind]
        cases raw <;> rfl
      | slice s e st =>
        simp only []
        rw [ite_bind_same, hraw, ok_bind]
        cases raw <;> rfl
    · simp only [hb]
      simp [fullIx, Ix.isFull, ixToRaw, bind, Except.bind, pure, Except.pure]
  · simp only [List.map_map]
    rfl

/-- `_getaxes_ortho` of `{name: ix}` -/
theorem getAxesOrtho_dict (axes : List Axis) (name : String) (ax : Axis) (hax : ∀ a ∈ axes, a.name = name → a = ax)
    (hplain : ∀ a ∈ axes, a.members = []) (raw : RawIx) (p : PosIx) (hp : resolveRaw raw ax.size = .ok p) :
    getAxesOrtho axes (axes.map fun a => if a.name == name then raw else .slice none none none) (pixOf name p axes) =
      axes.filterMap (selAxis name p) := by
  unfold getAxesOrtho pixOf
  rw [zip_map_self, map_zip_map_self, List.filterMap_map]
  apply filterMap_congr_mem
  intro a ha
  simp only [Function.comp, selAxis]
  by_cases hb : (a.name == name) = true
  · have := hax a ha (by simpa using hb)
    subst this
    simp only [hb, if_true]
    cases p with
    | scalar q => rfl
    | list ps =>
      simp only []
      by_cases hr : raw = RawIx.slice none none none
      · subst hr
        rw [resolveRaw_full] at hp
        cases hp
        have hm := hplain a ha
        rw [axis_size_plain a hm, axisSelect_range a hm]
        simp
      · have : (raw == RawIx.slice none none none) = false := by simpa using hr
        simp only [this, Bool.false_eq_true, if_false]
  · simp [hb]

theorem take_dict_ok (v : DimArray α) (name : String) (ix : Ix) (cfg : IndexCfg) (hmem : name ∈ v.dims) (ax : Axis)
    (hax : ∀ a ∈ v.axes, a.name = name → a = ax) (hplain : ∀ a ∈ v.axes, a.members = []) (raw : RawIx) (p : PosIx)
    (hraw : (if cfg.mode != .position && !ix.isFull then loc ax.labels ax.kind ix cfg.tol else ixToRaw ix) = .ok raw)
    (hp : resolveRaw (keepRaw cfg.keepdims raw) ax.size = .ok p) :
    take v (.dict [(.name name, ix)]) cfg = .ok (takeVar name p v) := by
  have hlt : v.dims.idxOf name < v.dims.length := List.idxOf_lt_length_iff.2 hmem
  unfold Lib.take
  have hfit : ∀ m, ix = .mask m → m.length = ax.size := by
    intro m hm
    subst hm
    have : raw = .mask m := by
      split at hraw
      · simp only [loc] at hraw; cases hraw; rfl
      · simp only [ixToRaw, pure, Except.pure] at hraw; cases hraw; rfl
    subst this
    simp only [keepRaw, resolveRaw] at hp
    split at hp
    · rename_i h; simpa using h
    · cases hp
  rw [getIndices_dict v.axes name ix cfg hmem ax hax raw hraw hfit, ok_bind, map_zip_self]
  have hpix : (v.axes.map fun a => (if a.name == name then keepRaw cfg.keepdims raw else RawIx.slice none none none, a)).mapM
      (fun x : RawIx × Axis => resolveRaw x.1 x.2.size) = .ok (pixOf name p v.axes) := by
    refine (mapM_ok_map _ (fun x : RawIx × Axis =>
      if x.2.name == name then p else PosIx.list (List.range x.2.size)) _ ?_).trans ?_
    · intro x hx
      simp only [List.mem_map] at hx
      obtain ⟨a, ha, rfl⟩ := hx
      by_cases hb : (a.name == name) = true
      · have := hax a ha (by simpa using hb)
        subst this
        simp only [hb, if_true]
        exact hp
      · simp only [hb, Bool.false_eq_true, if_false]
        exact resolveRaw_full a.size
    · simp only [List.map_map, pixOf]
      rfl
  rw [hpix, ok_bind]
  unfold takeVar
  rw [if_pos hlt, getAxesOrtho_dict v.axes name ax hax hplain _ p hp]
  rfl

/-- the closed form of `Dataset.take` is again a Dataset with shared (own) axes -/
theorem take_shared (ds : Ds α) (name : String) (p : PosIx) (hs : SharedAxes ds) (hown : OwnAxes ds) (out : Ds α)
    (hout : out = { axes := ds.axes.filterMap (selAxis name p)
                    vars := ds.vars.map (fun kv => (kv.1, takeVar name p kv.2))
                    attrs := ds.attrs }) :
    SharedAxes out ∧ OwnAxes out := by
  subst hout
  have hown' : OwnAxes ({ axes := ds.axes.filterMap (selAxis name p)
                          vars := ds.vars.map (fun kv => (kv.1, takeVar name p kv.2))
                          attrs := ds.attrs } : Ds α) := by
    intro kv hkv ax hax
    simp only [List.mem_map] at hkv
    obtain ⟨kv0, hkv0, rfl⟩ := hkv
    exact takeVar_axes_mem name p ds.axes kv0.2 (hown kv0 hkv0) ax hax
  refine ⟨⟨?_, ?_, ?_⟩, hown'⟩
  · intro kv hkv ax hax
    exact ⟨ax, hown' kv hkv ax hax, rfl, rfl⟩
  · intro e he
    simp only [List.mem_filterMap] at he
    obtain ⟨a, ha, hsel⟩ := he
    obtain ⟨kv, hkv, hmem⟩ := hs.2.1 a ha
    refine ⟨(kv.1, takeVar name p kv.2), List.mem_map_of_mem hkv, ?_⟩
    obtain ⟨a2, ha2, hn2⟩ := List.mem_map.1 hmem
    have : a2 = a := mem_name_inj hs.2.2 (hown kv hkv a2 ha2) ha hn2
    subst this
    show e.name ∈ (takeVar name p kv.2).axes.map (·.name)
    by_cases hin : name ∈ kv.2.dims
    · have hlt : kv.2.dims.idxOf name < kv.2.dims.length := List.idxOf_lt_length_iff.2 hin
      unfold takeVar
      rw [if_pos hlt]
      exact List.mem_map_of_mem (List.mem_filterMap.2 ⟨a2, ha2, hsel⟩)
    · rw [takeVar_of_not_mem name p kv.2 hin]
      have hne : a2.name ≠ name := fun he => hin (he ▸ hmem)
      rw [selAxis_of_ne hne] at hsel
      cases hsel
      exact hmem
  · exact List.Nodup.sublist (selAxis_names_sublist name p ds.axes) hs.2.2

/-! ### the patched Dataset of `reindex_axis` has shared axes -/

theorem rxPatch_axes (name : String) (ax : Axis) (newL : List Label) (newKind : Kind) (fill : α) (fillKind : Kind)
    (kv : String × DimArray α) :
    (rxPatch name ax newL newKind fill fillKind kv).2.axes =
      replAxis name { name := name, labels := rxLab ax.labels newL, kind := maybeCastKind ax.kind newKind, attrs := ax.attrs } kv.2.axes := by
  unfold rxPatch
  split
  · rfl
  · rename_i hlt
    have hn : name ∉ kv.2.axes.map (·.name) := fun h => hlt (List.idxOf_lt_length_iff.2 h)
    exact (replAxis_of_not_mem name _ kv.2.axes hn).symm

/-- the patched Dataset of `reindex_axis` -/
def rxOut (taken : Ds α) (name : String) (ax : Axis) (newL : List Label) (newKind : Kind) (fill : α)
    (fillKind : Kind) : Ds α :=
  { axes := taken.axes.map (fun a => if a.name == name then
      ({ name := name, labels := rxLab ax.labels newL, kind := maybeCastKind ax.kind newKind, attrs := ax.attrs } : Axis) else a)
    vars := taken.vars.map (rxPatch name ax newL newKind fill fillKind)
    attrs := taken.attrs }

theorem rx_shared (taken : Ds α) (name : String) (ax : Axis) (newL : List Label) (newKind : Kind) (fill : α)
    (fillKind : Kind) (hs : SharedAxes taken) (hown : OwnAxes taken) :
    SharedAxes (rxOut taken name ax newL newKind fill fillKind) ∧
      OwnAxes (rxOut taken name ax newL newKind fill fillKind) := by
  have hown' : OwnAxes (rxOut taken name ax newL newKind fill fillKind) := by
    intro kv hkv a ha
    simp only [rxOut, List.mem_map] at hkv
    obtain ⟨kv0, hkv0, rfl⟩ := hkv
    rw [rxPatch_axes] at ha
    simp only [rxOut, replAxis, List.mem_map] at ha ⊢
    obtain ⟨a0, ha0, rfl⟩ := ha
    exact ⟨a0, hown kv0 hkv0 a0 ha0, rfl⟩
  refine ⟨⟨?_, ?_, ?_⟩, hown'⟩
  · intro kv hkv a ha
    exact ⟨a, hown' kv hkv a ha, rfl, rfl⟩
  · intro e he
    simp only [rxOut, List.mem_map] at he
    obtain ⟨a, ha, rfl⟩ := he
    obtain ⟨kv, hkv, hmem⟩ := hs.2.1 a ha
    refine ⟨rxPatch name ax newL newKind fill fillKind kv, List.mem_map_of_mem hkv, ?_⟩
    show _ ∈ (rxPatch name ax newL newKind fill fillKind kv).2.axes.map (·.name)
    rw [rxPatch_axes, replAxis_names name _ rfl]
    split
    · rename_i h
      rw [(by simpa using h : a.name = name)] at hmem
      exact hmem
    · exact hmem
  · show ((replAxis name ({ name := name, labels := rxLab ax.labels newL, kind := maybeCastKind ax.kind newKind, attrs := ax.attrs } : Axis)
      taken.axes).map (·.name)).Nodup
    rw [replAxis_names name _ rfl]
    exact hs.2.2

end DSV
end DimModel

/-
Helper lemmas for C20 (on-disk access refines in-memory access).
-/
import DimModel.Lib.OnDisk
import DimModel.Props.C11
import DimModel.Props.C03
import DimModel.Props.C01
namespace DimModel
open Lib OnDisk
universe u v

/-! ### `allIdx` enumerates the indices of a shape in `ravel` order -/

theorem flatMap_map_length {β γ δ : Type} (L : List β) (T : List γ) (f : β → γ → δ) :
    (L.flatMap fun l => T.map (f l)).length = L.length * T.length := by
  induction L with
  | nil => simp
  | cons l L ih =>
    simp only [List.flatMap_cons, List.length_append, List.length_map, List.length_cons, ih]
    rw [Nat.succ_mul, Nat.add_comm]

theorem allIdx_length (s : List Nat) : (allIdx s).length = prod s := by
  induction s with
  | nil => rfl
  | cons n s ih =>
    simp only [allIdx, prod_cons]
    rw [flatMap_map_length, ih, List.length_range]

theorem flatMap_block_getElem? {β γ δ : Type} (L : List β) (T : List γ) (f : β → γ → δ) (q r : Nat)
    (x : β) (y : γ) (hq : L[q]? = some x) (hr : T[r]? = some y) :
    (L.flatMap fun l => T.map (f l))[q * T.length + r]? = some (f x y) := by
  have hrl : r < T.length := by
    rcases Nat.lt_or_ge r T.length with h | h
    · exact h
    · rw [List.getElem?_eq_none h] at hr; cases hr
  induction L generalizing q with
  | nil => simp at hq
  | cons l L ih =>
    cases q with
    | zero =>
      simp only [List.getElem?_cons_zero, Option.some.injEq] at hq
      subst hq
      simp only [List.flatMap_cons, Nat.zero_mul, Nat.zero_add]
      rw [List.getElem?_append_left (by simpa using hrl)]
      simp [List.getElem?_map, hr]
    | succ q =>
      simp only [List.getElem?_cons_succ] at hq
      simp only [List.flatMap_cons]
      rw [List.getElem?_append_right (by
        simp only [List.length_map]; rw [Nat.succ_mul]; omega)]
      have he : (q + 1) * T.length + r - (List.map (f l) T).length = q * T.length + r := by
        simp only [List.length_map]; rw [Nat.succ_mul]; omega
      rw [he, ih q hq]

theorem allIdx_getElem? (s j : List Nat) (h : InRange s j) : (allIdx s)[ravel s j]? = some j := by
  induction s generalizing j with
  | nil =>
    cases j with
    | nil => rfl
    | cons _ _ => simp [InRange] at h
  | cons n s ih =>
    cases j with
    | nil => simp [InRange] at h
    | cons i is =>
      simp only [InRange] at h
      simp only [allIdx, ravel]
      rw [← allIdx_length s]
      exact flatMap_block_getElem? (List.range n) (allIdx s) (fun i x => i :: x) i (ravel s is) i is
        (by simp [h.1]) (ih is h.2)

theorem mem_allIdx (s c : List Nat) (h : c ∈ allIdx s) : InRange s c := by
  induction s generalizing c with
  | nil =>
    simp only [allIdx, List.mem_singleton] at h
    subst h; trivial
  | cons n s ih =>
    simp only [allIdx, List.mem_flatMap, List.mem_range, List.mem_map] at h
    obtain ⟨i, hi, c', hc', rfl⟩ := h
    exact ⟨hi, ih c' hc'⟩

theorem allIdx_map_getD {α : Type} (s j : List Nat) (f : List Nat → α) (d : α) (h : InRange s j) :
    ((allIdx s).map f).getD (ravel s j) d = f j := by
  rw [List.getD_eq_getElem?_getD, List.getElem?_map, allIdx_getElem? s j h]
  rfl

theorem inRange_length (s j : List Nat) (h : InRange s j) : j.length = s.length := by
  induction s generalizing j with
  | nil =>
    cases j with
    | nil => rfl
    | cons _ _ => simp [InRange] at h
  | cons n s ih =>
    cases j with
    | nil => simp [InRange] at h
    | cons i is =>
      simp only [InRange] at h
      simp [ih is h.2]

theorem ravel_inj (s i j : List Nat) (hi : InRange s i) (hj : InRange s j) (h : ravel s i = ravel s j) :
    i = j := by
  rw [← unravel_ravel s i hi, ← unravel_ravel s j hj, h]

/-! ### sequential writes: the last writer wins -/

theorem find?_congr_mem {β : Type} (l : List β) (p q : β → Bool) (h : ∀ x ∈ l, p x = q x) :
    l.find? p = l.find? q := by
  induction l with
  | nil => rfl
  | cons x l ih =>
    simp only [List.find?_cons, h x (by simp)]
    rw [ih (fun y hy => h y (by simp [hy]))]

theorem foldl_set_length {α : Type u} {γ : Type v} (cs : List γ) (k : γ → Nat) (v : γ → α) (cells : List α) :
    (cs.foldl (fun acc c => acc.set (k c) (v c)) cells).length = cells.length := by
  induction cs generalizing cells with
  | nil => rfl
  | cons c cs ih => simp only [List.foldl_cons, ih, List.length_set]

theorem foldl_set_getD {α γ : Type} (cs : List γ) (k : γ → Nat) (v : γ → α) (cells : List α) (d : α)
    (m : Nat) (hm : m < cells.length) :
    (cs.foldl (fun acc c => acc.set (k c) (v c)) cells).getD m d =
      match cs.reverse.find? (fun c => k c == m) with
      | some c => v c
      | none => cells.getD m d := by
  induction cs generalizing cells with
  | nil => rfl
  | cons c cs ih =>
    simp only [List.foldl_cons, List.reverse_cons, List.find?_append]
    rw [ih (cells.set (k c) (v c)) (by simpa using hm)]
    cases hf : cs.reverse.find? (fun c => k c == m) with
    | some c' => rfl
    | none =>
      simp only [Option.none_or, List.find?_cons, List.find?_nil]
      by_cases hk : k c = m
      · subst hk
        simp [List.getD_eq_getElem?_getD, hm]
      · have : (k c == m) = false := by simpa using hk
        simp only [this]
        simp [List.getD_eq_getElem?_getD, hk]

/-- every resolved position is inside its dimension -/
def PixOk : List Nat → List PosIx → Prop
  | [], [] => True
  | n :: s, .scalar p :: ix => p < n ∧ PixOk s ix
  | n :: s, .list ps :: ix => (∀ p ∈ ps, p < n) ∧ PixOk s ix
  | _, _ => False

theorem expandIx_inRange (shape : List Nat) (pix : List PosIx) (c : List Nat) (hok : PixOk shape pix)
    (hc : InRange (outerShape pix) c) : InRange shape (expandIx pix c) := by
  induction pix generalizing shape c with
  | nil =>
    cases shape with
    | nil => simp [expandIx, InRange]
    | cons _ _ => simp [PixOk] at hok
  | cons p pix ih =>
    cases shape with
    | nil => cases p <;> simp [PixOk] at hok
    | cons n s =>
      cases p with
      | scalar p =>
        simp only [PixOk] at hok
        simp only [outerShape] at hc
        simp only [expandIx, InRange]
        exact ⟨hok.1, ih s c hok.2 hc⟩
      | list ps =>
        simp only [PixOk] at hok
        simp only [outerShape] at hc
        cases c with
        | nil => simp [InRange] at hc
        | cons k c =>
          simp only [InRange] at hc
          simp only [expandIx, InRange]
          refine ⟨hok.1 _ ?_, ih s c hok.2 hc.2⟩
          rw [List.getD_eq_getElem?_getD, List.getElem?_eq_getElem hc.1]
          simp

theorem pixOk_length (shape : List Nat) (pix : List PosIx) (hok : PixOk shape pix) :
    pix.length = shape.length := by
  induction pix generalizing shape with
  | nil =>
    cases shape with
    | nil => rfl
    | cons _ _ => simp [PixOk] at hok
  | cons p pix ih =>
    cases shape with
    | nil => cases p <;> simp [PixOk] at hok
    | cons n s =>
      cases p <;> simp only [PixOk] at hok <;> simp [ih s hok.2]

theorem lastSel_snoc_step (ps : List Nat) (x k : Nat)
    (ih : (List.range ps.length).reverse.find? (fun i => ps.getD i 0 == k) = lastSel ps k) :
    (List.range (ps ++ [x]).length).reverse.find? (fun i => (ps ++ [x]).getD i 0 == k)
      = lastSel (ps ++ [x]) k := by
  · unfold lastSel at ih ⊢
    simp only [List.length_append, List.length_cons, List.length_nil, Nat.zero_add, List.range_succ,
      List.reverse_append, List.reverse_cons, List.reverse_nil, List.nil_append, List.singleton_append,
      List.find?_cons, List.findIdx_cons]
    have hx : (ps ++ [x]).getD ps.length 0 = x := by simp [List.getD_eq_getElem?_getD]
    rw [hx]
    by_cases hxk : x = k
    · subst hxk; simp
    · have : (x == k) = false := by simpa using hxk
      simp only [this, cond_false]
      have hcongr : (List.range ps.length).reverse.find? (fun i => (ps ++ [x]).getD i 0 == k)
          = (List.range ps.length).reverse.find? (fun i => ps.getD i 0 == k) := by
        apply find?_congr_mem
        intro i hi
        simp only [List.mem_reverse, List.mem_range] at hi
        simp [List.getD_eq_getElem?_getD, List.getElem?_append_left hi]
      rw [hcongr, ih]
      by_cases hlt : List.findIdx (fun x => x == k) ps.reverse < ps.length
      · simp only [hlt, if_true]
        have : List.findIdx (fun x => x == k) ps.reverse + 1 < ps.length + 1 := by omega
        simp only [this, if_true]
        congr 1
        omega
      · simp only [hlt, if_false]
        have : ¬ (List.findIdx (fun x => x == k) ps.reverse + 1 < ps.length + 1) := by omega
        simp only [this, if_false]

/-- the last occurrence of `k` in `ps`, found by scanning the positions backwards -/
theorem lastSel_eq_find (ps : List Nat) (k : Nat) :
    (List.range ps.length).reverse.find? (fun i => ps.getD i 0 == k) = lastSel ps k := by
  have aux : ∀ (qs ps : List Nat), ps = qs.reverse →
      (List.range ps.length).reverse.find? (fun i => ps.getD i 0 == k) = lastSel ps k := by
    intro qs
    induction qs with
    | nil => intro ps h; subst h; rfl
    | cons x qs ih =>
      intro ps h
      rw [List.reverse_cons] at h
      subst h
      exact lastSel_snoc_step qs.reverse x k (ih _ rfl)
  exact aux ps.reverse ps (List.reverse_reverse ps).symm

theorem findSome?_ite_some {β γ : Type} (L : List β) (q : β → Bool) (g : β → γ) :
    L.findSome? (fun i => if q i then some (g i) else none) = (L.find? q).map g := by
  induction L with
  | nil => rfl
  | cons x L ih =>
    simp only [List.findSome?_cons, List.find?_cons]
    cases hq : q x <;> simp [ih]

theorem findSome?_none {β γ : Type} (L : List β) : L.findSome? (fun _ => (none : Option γ)) = none := by
  induction L with
  | nil => rfl
  | cons x L ih => simp only [List.findSome?_cons, ih]

theorem find?_false {β : Type} (L : List β) : L.find? (fun _ => false) = none := by
  induction L with
  | nil => rfl
  | cons x L ih => simp only [List.find?_cons, ih]

/-- the last coordinate (in row-major order of the selection) that addresses cell `j` is the
writer `selCoord` names -/
theorem find_last_writer (pix : List PosIx) (j : List Nat) (hl : j.length = pix.length) :
    (allIdx (outerShape pix)).reverse.find? (fun c => expandIx pix c == j) = selCoord pix j := by
  induction pix generalizing j with
  | nil =>
    cases j with
    | nil => simp [allIdx, outerShape, expandIx, selCoord]
    | cons _ _ => simp at hl
  | cons p pix ih =>
    cases j with
    | nil => simp at hl
    | cons k j =>
      have hl' : j.length = pix.length := by simpa using hl
      cases p with
      | scalar p =>
        simp only [outerShape, selCoord]
        by_cases hk : k = p
        · subst hk
          simp only [beq_self_eq_true, if_true]
          rw [← ih j hl']
          apply find?_congr_mem
          intro c _
          simp [expandIx]
        · have h1 : (k == p) = false := by simpa using hk
          simp only [h1, Bool.false_eq_true, if_false]
          have : (fun c => expandIx (PosIx.scalar p :: pix) c == k :: j) = fun _ => false := by
            funext c
            have : ¬ p = k := fun h => hk h.symm
            simp [expandIx, this]
          rw [this, find?_false]
      | list ps =>
        simp only [outerShape, allIdx, selCoord]
        rw [List.reverse_flatMap, List.find?_flatMap]
        have hinner : (fun i => ((List.reverse ∘ fun i => (allIdx (outerShape pix)).map (fun x => i :: x)) i).find?
              (fun c => expandIx (PosIx.list ps :: pix) c == k :: j))
            = fun i => if ps.getD i 0 == k then (selCoord pix j).map (fun x => i :: x) else none := by
          funext i
          simp only [Function.comp, ← List.map_reverse, List.find?_map]
          by_cases hq : ps.getD i 0 = k
          · have h1 : (ps.getD i 0 == k) = true := by simpa using hq
            simp only [h1, if_true]
            rw [← ih j hl']
            congr 1
            apply find?_congr_mem
            intro c _
            have hq' : ps[i]?.getD 0 = k := by simpa [List.getD_eq_getElem?_getD] using hq
            simp [expandIx, hq']
          · have h1 : (ps.getD i 0 == k) = false := by simpa using hq
            simp only [h1, Bool.false_eq_true, if_false]
            have : ((fun c => expandIx (PosIx.list ps :: pix) c == k :: j) ∘ fun x => i :: x)
                = fun _ => false := by
              funext c
              have hq' : ¬ ps[i]?.getD 0 = k := by simpa [List.getD_eq_getElem?_getD] using hq
              simp [expandIx, hq']
            rw [this, find?_false]
            rfl
        rw [hinner]
        cases hs : selCoord pix j with
        | none =>
          simp only [Option.map_none, ite_self]
          rw [findSome?_none]
          cases lastSel ps k <;> rfl
        | some cs =>
          simp only [Option.map_some]
          rw [findSome?_ite_some, lastSel_eq_find]
          cases lastSel ps k <;> rfl

theorem ncPut_length_aux {α : Type u} (shape : List Nat) (cells : List α) (pix : List PosIx) (vget : List Nat → α) :
    (ncPut shape cells pix vget).length = cells.length := by
  unfold ncPut
  exact foldl_set_length _ _ _ _

theorem ncPut_getD {α : Type} (d : α) (shape : List Nat) (cells : List α) (pix : List PosIx) (vget : List Nat → α)
    (hlen : cells.length = prod shape) (hok : PixOk shape pix) (j : List Nat) (hj : InRange shape j) :
    (ncPut shape cells pix vget).getD (ravel shape j) d
      = (putVals { shape := shape, get := fun i => cells.getD (ravel shape i) d } pix vget).get j := by
  unfold ncPut
  rw [foldl_set_getD _ _ _ _ _ _ (by rw [hlen]; exact ravel_lt shape j hj)]
  have hcongr : (allIdx (outerShape pix)).reverse.find? (fun c => ravel shape (expandIx pix c) == ravel shape j)
      = (allIdx (outerShape pix)).reverse.find? (fun c => expandIx pix c == j) := by
    apply find?_congr_mem
    intro c hc
    have hc' : InRange shape (expandIx pix c) :=
      expandIx_inRange shape pix c hok (mem_allIdx _ c (List.mem_reverse.mp hc))
    by_cases he : expandIx pix c = j
    · simp [he]
    · have : ravel shape (expandIx pix c) ≠ ravel shape j := fun h => he (ravel_inj shape _ _ hc' hj h)
      rw [beq_eq_false_iff_ne.mpr this, beq_eq_false_iff_ne.mpr he]
  rw [hcongr, find_last_writer pix j (by rw [inRange_length shape j hj, pixOk_length shape pix hok])]
  simp only [putVals]
  cases selCoord pix j <;> rfl

/-! ### resolved positions are inside their dimension -/

theorem sliceIndices_bounds (s e st : Option Int) (n : Nat) (a b c : Int)
    (h : sliceIndices s e st n = .ok (a, b, c)) :
    (c > 0 → 0 ≤ a ∧ b ≤ n) ∧ (c < 0 → a < n ∧ -1 ≤ b) := by
  unfold sliceIndices at h
  simp only [] at h
  split at h
  · cases h
  · rename_i h0
    simp only [Except.ok.injEq, Prod.mk.injEq] at h
    obtain ⟨ha, hb, hc⟩ := h
    subst hc
    refine ⟨?_, ?_⟩
    · intro hpos
      have hneg : ¬ (st.getD 1 < 0) := by omega
      subst ha hb
      constructor
      · cases s with
        | none => simp only [hneg]; simp
        | some v => simp only [hneg]; grind
      · cases e with
        | none => simp only [hneg]; simp
        | some v => simp only [hneg]; grind
    · intro hneg
      subst ha hb
      constructor
      · cases s with
        | none => simp only [hneg]; simp; omega
        | some v => simp only [hneg]; grind
      · cases e with
        | none => simp only [hneg]; simp
        | some v => simp only [hneg]; grind

theorem rangeList_lt (a b c : Int) (n : Nat) (hpos : c > 0 → 0 ≤ a ∧ b ≤ n)
    (hneg : c < 0 → a < n ∧ -1 ≤ b) : ∀ p ∈ rangeList a b c, p < n := by
  intro p hp
  unfold rangeList at hp
  simp only [List.mem_map, List.mem_range] at hp
  obtain ⟨k, hk, rfl⟩ := hp
  unfold rangeLen at hk
  by_cases hc : c > 0
  · simp only [hc, if_true] at hk
    obtain ⟨ha, hb⟩ := hpos hc
    by_cases hab : a < b
    · simp only [hab, if_true] at hk
      have h1 : (k : Int) ≤ (b - a - 1) / c := by omega
      have h2 : (b - a - 1) / c * c ≤ b - a - 1 := Int.ediv_mul_le _ (by omega)
      have h3 : (k : Int) * c ≤ (b - a - 1) / c * c := Int.mul_le_mul_of_nonneg_right h1 (by omega)
      have h4 : 0 ≤ (k : Int) * c := Int.mul_nonneg (by omega) (by omega)
      omega
    · simp only [hab, if_false] at hk
      omega
  · simp only [hc, if_false] at hk
    by_cases hc' : c < 0
    · simp only [hc', if_true] at hk
      obtain ⟨ha, hb⟩ := hneg hc'
      by_cases hab : b < a
      · have h4 : (k : Int) * c ≤ 0 := Int.mul_nonpos_of_nonneg_of_nonpos (by omega) (by omega)
        omega
      · simp only [hab, if_false] at hk
        omega
    · simp only [hc', if_false] at hk
      omega

theorem slicePositions_lt (s e st : Option Int) (n : Nat) (ps : List Nat)
    (h : slicePositions s e st n = .ok ps) : ∀ p ∈ ps, p < n := by
  unfold slicePositions at h
  simp only [bind, Except.bind, pure, Except.pure] at h
  cases hsi : sliceIndices s e st n with
  | error err => simp [hsi] at h
  | ok t =>
    obtain ⟨a, b, c⟩ := t
    simp only [hsi, Except.ok.injEq] at h
    subst h
    have := sliceIndices_bounds s e st n a b c hsi
    exact rangeList_lt a b c n this.1 this.2

theorem nonzero_lt (m : List Bool) : ∀ p ∈ nonzero m, p < m.length := by
  intro p hp
  unfold nonzero at hp
  simp only [List.mem_map, List.mem_filter] at hp
  obtain ⟨⟨b, q⟩, ⟨hmem, _⟩, rfl⟩ := hp
  have := List.mem_zipIdx_iff_getElem?.mp hmem
  simp only at this
  rcases Nat.lt_or_ge q m.length with h | h
  · exact h
  · rw [List.getElem?_eq_none h] at this; cases this

theorem mapM_nil_ok {ε β γ : Type} (f : β → Except ε γ) (out : List γ)
    (h : ([] : List β).mapM f = .ok out) : out = [] := by
  simp only [List.mapM_nil, pure, Except.pure, Except.ok.injEq] at h
  exact h.symm

theorem mapM_cons_ok {ε β γ : Type} (f : β → Except ε γ) (a : β) (l : List β) (out : List γ)
    (h : (a :: l).mapM f = .ok out) : ∃ b bs, f a = .ok b ∧ l.mapM f = .ok bs ∧ out = b :: bs := by
  rw [List.mapM_cons] at h
  simp only [bind, Except.bind, pure, Except.pure] at h
  cases hfa : f a with
  | error e => simp [hfa] at h
  | ok b =>
    simp only [hfa] at h
    cases hl : l.mapM f with
    | error e => simp [hl] at h
    | ok bs =>
      simp only [hl, Except.ok.injEq] at h
      exact ⟨b, bs, rfl, rfl, h.symm⟩

theorem mapM_ok_length {ε β γ : Type} (f : β → Except ε γ) (l : List β) (out : List γ)
    (h : l.mapM f = .ok out) : out.length = l.length := by
  induction l generalizing out with
  | nil => rw [mapM_nil_ok f out h]; rfl
  | cons a l ih =>
    obtain ⟨b, bs, _, hl, rfl⟩ := mapM_cons_ok f a l out h
    simp [ih bs hl]

theorem mapM_ok_forall {ε β γ : Type} (f : β → Except ε γ) (P : γ → Prop)
    (hf : ∀ a b, f a = .ok b → P b) (l : List β) (out : List γ)
    (h : l.mapM f = .ok out) : ∀ b ∈ out, P b := by
  induction l generalizing out with
  | nil => rw [mapM_nil_ok f out h]; simp
  | cons a l ih =>
    obtain ⟨b, bs, hb, hl, rfl⟩ := mapM_cons_ok f a l out h
    intro x hx
    rcases List.mem_cons.1 hx with rfl | hx
    · exact hf a _ hb
    · exact ih bs hl x hx

theorem resolveRaw_ok (r : RawIx) (n : Nat) (p : PosIx) (h : resolveRaw r n = .ok p) : PixOk [n] [p] := by
  unfold resolveRaw at h
  have hnorm : ∀ (i : Int) (q : Nat),
      ((let j := if i < 0 then i + (n : Int) else i
        if j < 0 || j ≥ (n : Int) then Except.error Err.index else Except.ok j.toNat) : Except Err Nat) = .ok q → q < n := by
    intro i q hq
    simp only at hq
    by_cases hi : i < 0
    · simp only [hi, if_true] at hq
      split at hq
      · cases hq
      · cases hq
        rename_i hc
        simp at hc
        omega
    · simp only [hi, if_false] at hq
      split at hq
      · cases hq
      · cases hq
        rename_i hc
        simp at hc
        omega
  cases r with
  | int i =>
    simp only [bind, Except.bind, pure, Except.pure] at h
    split at h
    · cases h
    · rename_i q hq
      cases h
      simp only [PixOk, and_true]
      exact hnorm i q hq
  | ints l =>
    simp only [bind, Except.bind, pure, Except.pure] at h
    split at h
    · cases h
    · rename_i ps hps
      cases h
      simp only [PixOk, and_true]
      exact mapM_ok_forall _ (· < n) hnorm l ps hps
  | slice s e st =>
    simp only [bind, Except.bind, pure, Except.pure] at h
    split at h
    · cases h
    · rename_i ps hps
      cases h
      simp only [PixOk, and_true]
      exact slicePositions_lt s e st n ps hps
  | mask m =>
    simp only at h
    split at h
    · cases h
      rename_i hm
      have hm' : m.length = n := by simpa using hm
      simp only [PixOk, and_true]
      intro p hp
      rw [← hm']
      exact nonzero_lt m p hp
    · cases h

theorem resolve_all_ok (f : RawIx × Axis → Except Err PosIx)
    (hf : ∀ r ax, f (r, ax) = resolveRaw r ax.size)
    (axes : List Axis) (raw : List RawIx) (pix : List PosIx) (hlen : raw.length = axes.length)
    (h : (raw.zip axes).mapM f = .ok pix) : PixOk (axes.map (·.size)) pix := by
  induction axes generalizing raw pix with
  | nil =>
    cases raw with
    | nil => rw [mapM_nil_ok f pix h]; trivial
    | cons _ _ => simp at hlen
  | cons ax axes ih =>
    cases raw with
    | nil => simp at hlen
    | cons r raw =>
      simp only [List.zip_cons_cons] at h
      obtain ⟨p, ps, hp, hps, rfl⟩ := mapM_cons_ok f _ _ pix h
      rw [hf] at hp
      have h1 := resolveRaw_ok r ax.size p hp
      have h2 := ih raw ps (by simpa using hlen) hps
      simp only [List.map_cons]
      cases p with
      | scalar q => simp only [PixOk, and_true] at h1 ⊢; exact ⟨h1, h2⟩
      | list qs => simp only [PixOk, and_true] at h1 ⊢; exact ⟨h1, h2⟩

theorem expandedIndexer_length (key : List Ix) (ndim : Nat) (r : List Ix)
    (h : expandedIndexer key ndim = .ok r) : r.length = ndim := by
  unfold expandedIndexer at h
  simp only at h
  split at h
  · cases h
  · rename_i hle
    cases h
    simp only [List.length_append, List.length_replicate]
    omega

theorem except_bind_ok {ε β γ : Type} (x : Except ε β) (f : β → Except ε γ) (b : γ)
    (h : x >>= f = .ok b) : ∃ a, x = .ok a ∧ f a = .ok b := by
  cases x with
  | error e => simp [bind, Except.bind] at h
  | ok a => exact ⟨a, rfl, h⟩

theorem normalizeIndex_length (dims : List String) (ui : UserIndex) (key : List Ix)
    (h : normalizeIndex dims ui = .ok key) : key.length = dims.length := by
  unfold normalizeIndex at h
  simp only [] at h
  split at h <;>
  · obtain ⟨k, _, hk⟩ := except_bind_ok _ _ _ h
    exact expandedIndexer_length _ _ _ hk

theorem getIndices_length (axes : List Axis) (ui : UserIndex) (cfg : IndexCfg) (raw : List RawIx)
    (h : getIndices axes ui cfg = .ok raw) : raw.length = axes.length := by
  unfold getIndices at h
  simp only [bind, Except.bind] at h
  split at h
  · cases h
  · rename_i key hkey
    have h1 := normalizeIndex_length _ _ _ hkey
    have h2 := mapM_ok_length _ _ _ h
    simp only [List.length_zip, List.length_map] at h1 h2
    omega


theorem resolveRaw_full (n : Nat) : resolveRaw (.slice none none none) n = .ok (.list (List.range n)) := by
  simp [resolveRaw, slicePositions_full, bind, Except.bind, pure, Except.pure]

theorem getAxesOrtho_eq (f : RawIx × Axis → Except Err PosIx)
    (hf : ∀ r ax, f (r, ax) = resolveRaw r ax.size)
    (axes : List Axis) (raw : List RawIx) (pix : List PosIx)
    (hplain : ∀ ax ∈ axes, ax.members = [])
    (h : (raw.zip axes).mapM f = .ok pix) : getAxesOrtho axes raw pix = axesOrtho axes pix := by
  induction axes generalizing raw pix with
  | nil => simp [getAxesOrtho, axesOrtho]
  | cons ax axes ih =>
    cases raw with
    | nil =>
      rw [mapM_nil_ok f pix (by simpa using h)]
      simp [getAxesOrtho, axesOrtho]
    | cons r raw =>
      simp only [List.zip_cons_cons] at h
      obtain ⟨p, ps, hp, hps, rfl⟩ := mapM_cons_ok f _ _ pix h
      rw [hf] at hp
      have ih' := ih raw ps (fun a ha => hplain a (by simp [ha])) hps
      unfold getAxesOrtho axesOrtho at ih' ⊢
      simp only [List.zip_cons_cons, List.filterMap_cons]
      cases p with
      | scalar q => simp only []; exact ih'
      | list qs =>
        simp only []
        rw [ih']
        by_cases hr : r = RawIx.slice none none none
        · subst hr
          rw [resolveRaw_full] at hp
          cases hp
          have hm := hplain ax (by simp)
          rw [axis_size_plain ax hm, axisSelect_range ax hm]
          simp
        · have : (r == RawIx.slice none none none) = false := by simpa using hr
          simp only [this, Bool.false_eq_true, if_false]

theorem resolveRaw_ints (li : List Int) (n : Nat) (p : PosIx) (h : resolveRaw (.ints li) n = .ok p) :
    ∃ ps, p = .list ps ∧ ps.length = li.length := by
  unfold resolveRaw at h
  simp only [bind, Except.bind, pure, Except.pure] at h
  split at h
  · cases h
  · rename_i ps hps
    cases h
    exact ⟨ps, rfl, mapM_ok_length _ _ _ hps⟩

theorem resolveRaw_mask (m : List Bool) (n : Nat) (p : PosIx) (h : resolveRaw (.mask m) n = .ok p) :
    p = .list (nonzero m) := by
  unfold resolveRaw at h
  simp only at h
  split at h
  · cases h; rfl
  · cases h

theorem resolveRaw_slice (s e st : Option Int) (n : Nat) (p : PosIx) (h : resolveRaw (.slice s e st) n = .ok p) :
    ∃ ps, slicePositions s e st n = .ok ps ∧ p = .list ps := by
  unfold resolveRaw at h
  simp only [bind, Except.bind, pure, Except.pure] at h
  split at h
  · cases h
  · rename_i ps hps
    cases h
    exact ⟨ps, hps, rfl⟩

theorem nonzero_nil_of_not_any (m : List Bool) (h : m.any id = false) : nonzero m = [] := by
  unfold nonzero
  rw [List.map_eq_nil_iff, List.filter_eq_nil_iff]
  intro ⟨b, q⟩ hmem
  have := List.mem_zipIdx_iff_getElem?.mp hmem
  simp only at this
  have hb : b ∈ m := List.mem_of_getElem? this
  simp only [List.any_eq_false, id] at h
  simpa using h b hb

theorem zero_mem_outerShape_cons (p : PosIx) (ps : List PosIx) (h : 0 ∈ outerShape ps) :
    0 ∈ outerShape (p :: ps) := by
  cases p <;> simp [outerShape, h]

theorem anyEmpty_zero_mem (f : RawIx × Axis → Except Err PosIx) (E : RawIx × Axis → Bool)
    (hf : ∀ r ax, f (r, ax) = resolveRaw r ax.size)
    (hE1 : ∀ li ax, E (.ints li, ax) = li.isEmpty)
    (hE2 : ∀ m ax, E (.mask m, ax) = !m.any id)
    (hE3 : ∀ s e st ax ps, slicePositions s e st ax.size = .ok ps → E (.slice s e st, ax) = ps.isEmpty)
    (hE4 : ∀ i ax, E (.int i, ax) = false)
    (l : List (RawIx × Axis)) (pix : List PosIx)
    (h : l.mapM f = .ok pix) (hany : l.any E = true) : 0 ∈ outerShape pix := by
  induction l generalizing pix with
  | nil => simp at hany
  | cons x l ih =>
    obtain ⟨r, ax⟩ := x
    obtain ⟨p, ps, hp, hps, rfl⟩ := mapM_cons_ok f _ _ pix h
    rw [hf] at hp
    simp only [List.any_cons, Bool.or_eq_true] at hany
    rcases hany with hx | hrest
    · cases r with
      | int i => rw [hE4] at hx; cases hx
      | ints li =>
        rw [hE1] at hx
        obtain ⟨qs, rfl, hlen⟩ := resolveRaw_ints li _ p hp
        have : li = [] := by simpa using hx
        subst this
        have : qs = [] := List.eq_nil_of_length_eq_zero (by simpa using hlen)
        subst this
        simp [outerShape]
      | mask m =>
        rw [hE2] at hx
        have := resolveRaw_mask m _ p hp
        subst this
        rw [nonzero_nil_of_not_any m (by simpa using hx)]
        simp [outerShape]
      | slice s e st =>
        obtain ⟨qs, hqs, rfl⟩ := resolveRaw_slice s e st _ p hp
        rw [hE3 s e st ax qs hqs] at hx
        have : qs = [] := by simpa using hx
        subst this
        simp [outerShape]
    · exact zero_mem_outerShape_cons p ps (ih ps hps hrest)

theorem putOne_all (f g : RawIx × Axis → Except Err PosIx) (b : Bool)
    (hf : ∀ r ax, f (r, ax) = resolveRaw r ax.size)
    (hg1 : ∀ li ax, g (.ints li, ax) =
      if b = true then pure (PosIx.list (li.map fun _ => 0)) else resolveRaw (.ints li) ax.size)
    (hg2 : ∀ m ax, g (.mask m, ax) =
      if b = true then pure (PosIx.list ((nonzero m).map fun _ => 0)) else resolveRaw (.mask m) ax.size)
    (hg3 : ∀ s e st ax, g (.slice s e st, ax) = resolveRaw (.slice s e st) ax.size)
    (hg4 : ∀ i ax, g (.int i, ax) = resolveRaw (.int i) ax.size)
    (l : List (RawIx × Axis)) (pix : List PosIx) (h : l.mapM f = .ok pix) :
    ∃ pix', l.mapM g = .ok pix' ∧ outerShape pix' = outerShape pix ∧ (b = false → pix' = pix) := by
  induction l generalizing pix with
  | nil =>
    rw [mapM_nil_ok f pix h]
    exact ⟨[], rfl, rfl, fun _ => rfl⟩
  | cons x l ih =>
    obtain ⟨r, ax⟩ := x
    obtain ⟨p, ps, hp, hps, rfl⟩ := mapM_cons_ok f _ _ pix h
    rw [hf] at hp
    obtain ⟨ps', hps', hsh, heq⟩ := ih ps hps
    have key : ∃ p', g (r, ax) = .ok p' ∧ outerShape (p' :: ps') = outerShape (p :: ps) ∧
        (b = false → p' = p) := by
      cases r with
      | int i => exact ⟨p, by rw [hg4, hp], by cases p <;> simp [outerShape, hsh], fun _ => rfl⟩
      | slice s e st => exact ⟨p, by rw [hg3, hp], by cases p <;> simp [outerShape, hsh], fun _ => rfl⟩
      | ints li =>
        cases b with
        | false =>
          exact ⟨p, by rw [hg1, ← hp]; simp, by cases p <;> simp [outerShape, hsh], fun _ => rfl⟩
        | true =>
          obtain ⟨qs, rfl, hlen⟩ := resolveRaw_ints li _ p hp
          exact ⟨PosIx.list (li.map fun _ => 0), by rw [hg1]; rfl, by simp [outerShape, hsh, hlen],
            fun h => by cases h⟩
      | mask m =>
        cases b with
        | false =>
          exact ⟨p, by rw [hg2, ← hp]; simp, by cases p <;> simp [outerShape, hsh], fun _ => rfl⟩
        | true =>
          have := resolveRaw_mask m _ p hp
          subst this
          exact ⟨PosIx.list ((nonzero m).map fun _ => 0), by rw [hg2]; rfl, by simp [outerShape, hsh],
            fun h => by cases h⟩
    obtain ⟨p', hp', hsh', heq'⟩ := key
    refine ⟨p' :: ps', ?_, hsh', ?_⟩
    · rw [List.mapM_cons, hp', hps']; rfl
    · intro hb; rw [heq' hb, heq hb]

theorem putOne_all_or (f g : RawIx × Axis → Except Err PosIx) (b : Bool)
    (hf : ∀ r ax, f (r, ax) = resolveRaw r ax.size)
    (hg1 : ∀ li ax, g (.ints li, ax) =
      if b = true then pure (PosIx.list (li.map fun _ => 0)) else resolveRaw (.ints li) ax.size)
    (hg2 : ∀ m ax, g (.mask m, ax) =
      if b = true then pure (PosIx.list ((nonzero m).map fun _ => 0)) else resolveRaw (.mask m) ax.size)
    (hg3 : ∀ s e st ax, g (.slice s e st, ax) = resolveRaw (.slice s e st) ax.size)
    (hg4 : ∀ i ax, g (.int i, ax) = resolveRaw (.int i) ax.size)
    (l : List (RawIx × Axis)) (pix : List PosIx) (h : l.mapM f = .ok pix)
    (Q : Prop) (hQ : b = true → Q) :
    ∃ pix', l.mapM g = .ok pix' ∧ outerShape pix' = outerShape pix ∧ (pix' = pix ∨ Q) := by
  obtain ⟨pix', h1, h2, h3⟩ := putOne_all f g b hf hg1 hg2 hg3 hg4 l pix h
  refine ⟨pix', h1, h2, ?_⟩
  cases b with
  | false => exact Or.inl (h3 rfl)
  | true => exact Or.inr (hQ rfl)

theorem putIndices_of_resolve (f : RawIx × Axis → Except Err PosIx)
    (hf : ∀ r ax, f (r, ax) = resolveRaw r ax.size)
    (axes : List Axis) (raw : List RawIx) (pix : List PosIx)
    (h : (raw.zip axes).mapM f = .ok pix) :
    ∃ pix', putIndices axes raw = .ok pix' ∧ outerShape pix' = outerShape pix ∧
      (pix' = pix ∨ 0 ∈ outerShape pix) := by
  unfold putIndices
  simp only []
  generalize hb : List.any (arrayKeys axes raw) _ = b
  refine putOne_all_or f _ b hf ?_ ?_ ?_ ?_ _ pix h _ ?_
  · intro _ _; rfl
  · intro _ _; rfl
  · intro _ _ _ _; rfl
  · intro _ _; rfl
  · intro hbt
    rw [hbt] at hb
    refine anyEmpty_zero_mem f _ hf ?_ ?_ ?_ ?_ _ pix h (C03P.arrayKeys_any_imp axes raw _ hb)
    · intro _ _; rfl
    · intro _ _; rfl
    · intro s e st ax ps hps
      simp only [hps]
    · intro _ _; rfl

theorem selCoord_none_of_zero (pix : List PosIx) (j : List Nat) (h : 0 ∈ outerShape pix) :
    selCoord pix j = none := by
  induction pix generalizing j with
  | nil => simp [outerShape] at h
  | cons p pix ih =>
    cases j with
    | nil => cases p <;> rfl
    | cons k j =>
      cases p with
      | scalar p =>
        simp only [outerShape] at h
        simp only [selCoord, ih j h, ite_self]
      | list ps =>
        simp only [outerShape, List.mem_cons] at h
        simp only [selCoord]
        rcases h with h | h
        · have : ps = [] := List.eq_nil_of_length_eq_zero h.symm
          subst this
          have : lastSel [] k = none := rfl
          rw [this]
        · rw [ih j h]
          cases lastSel ps k <;> rfl


theorem pixOk_of_forall (shape : List Nat) (pix : List PosIx) (hpl : pix.length = shape.length)
    (hin : ∀ k (hk : k < pix.length), PixOk [shape.getD k 0] [pix[k]]) : PixOk shape pix := by
  induction pix generalizing shape with
  | nil =>
    cases shape with
    | nil => trivial
    | cons _ _ => simp at hpl
  | cons p pix ih =>
    cases shape with
    | nil => simp at hpl
    | cons n s =>
      have h0 := hin 0 (by simp)
      have ht : PixOk s pix := by
        apply ih s (by simpa using hpl)
        intro k hk
        have := hin (k + 1) (by simpa using hk)
        simpa using this
      simp only [List.getD_cons_zero, List.getElem_cons_zero] at h0
      cases p with
      | scalar q => simp only [PixOk, and_true] at h0 ⊢; exact ⟨h0, ht⟩
      | list qs => simp only [PixOk, and_true] at h0 ⊢; exact ⟨h0, ht⟩

end DimModel

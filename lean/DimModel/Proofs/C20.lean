/-
Helper lemmas for C20 (on-disk access refines in-memory access).
-/
import DimModel.Lib.OnDisk
import DimModel.Props.C11
import DimModel.Props.C03
import DimModel.Props.C01
namespace DimModel
open Lib OnDisk

end DimModel

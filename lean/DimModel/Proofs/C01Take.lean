/-
Helper lemmas for the end-to-end C01 theorems about `Lib.take` (position mode, dict / axis= forms,
keepdims, masks, tolerance): the read is split into its per-dimension steps and fused again.
-/
import DimModel.Spec.C01
import DimModel.Proofs.C01
namespace DimModel
open Lib

namespace C01T

/-! ### generic `mapM` facts (Except / Option) -/

/-- pointwise relation between two lists of the same length (core has no `Forall₂`) -/
inductive All2 {α β : Type} (R : α → β → Prop) : List α → List β → Prop
  | nil : All2 R [] []
  | cons {x y xs ys} : R x y → All2 R xs ys → All2 R (x :: xs) (y :: ys)

/-- an optional result as an exception-or-value, `none` becoming the error `e0` -/
def ofOpt {β : Type} (e0 : Err) : Option β → Except Err β
  | some y => .ok y
  | none => .error e0

theorem mapM_except_of_option {α β : Type} (f : α → Except Err β) (g : α → Option β) (e0 : Err)
    (h : ∀ x, f x = ofOpt e0 (g x)) :
    ∀ l : List α, l.mapM f = ofOpt e0 (l.mapM g) := by
  intro l
  induction l with
  | nil => rfl
  | cons x xs ih =>
    simp only [List.mapM_cons, ih, h x]
    cases g x with
    | none => rfl
    | some y =>
      cases xs.mapM g with
      | none => rfl
      | some ys => rfl

theorem optMapM_some {α β : Type} (f : α → Option β) :
    ∀ (l : List α) (ys : List β), l.mapM f = some ys → All2 (fun x y => f x = some y) l ys := by
  intro l
  induction l with
  | nil =>
    intro ys h
    simp at h
    subst h
    exact All2.nil
  | cons x xs ih =>
    intro ys h
    simp only [List.mapM_cons] at h
    cases hx : f x with
    | none => rw [hx] at h; simp at h
    | some y =>
      rw [hx] at h
      cases hxs : xs.mapM f with
      | none => rw [hxs] at h; simp at h
      | some ys' =>
        rw [hxs] at h
        simp at h
        subst h
        exact All2.cons hx (ih ys' hxs)

theorem optMapM_none {α β : Type} (f : α → Option β) :
    ∀ (l : List α), l.mapM f = none → ∃ x ∈ l, f x = none := by
  intro l
  induction l with
  | nil => intro h; simp at h
  | cons x xs ih =>
    intro h
    simp only [List.mapM_cons] at h
    cases hx : f x with
    | none => exact ⟨x, by simp, hx⟩
    | some y =>
      rw [hx] at h
      cases hxs : xs.mapM f with
      | none =>
        obtain ⟨z, hz, hfz⟩ := ih hxs
        exact ⟨z, by simp [hz], hfz⟩
      | some ys' => rw [hxs] at h; simp at h

/-! ### the read, split in stages -/

/-- the per-dimension step of `_get_indices` (the body of the loop over the dimensions) -/
def giStep (cfg : IndexCfg) : Ix × Axis → Except Err RawIx := fun (ix, ax) => do
  let r ← match ix with
    | .mask m => if m.length == ax.size then pure (RawIx.mask m) else .error .index
    | _ =>
      if cfg.mode != .position && !ix.isFull then loc ax.labels ax.kind ix cfg.tol
      else ixToRaw ix
  match r with
  | .int i => pure (if cfg.keepdims then RawIx.ints [i] else r)
  | _ => pure r

/-- NumPy's resolution of the per-dimension indices -/
def stage2 (axes : List Axis) (raw : List RawIx) : Except Err (List PosIx) :=
  (raw.zip axes).mapM fun (r, ax) => resolveRaw r ax.size

theorem take_eq {α : Type} (a : DimArray α) (ui : UserIndex) (cfg : IndexCfg) :
    Lib.take a ui cfg = (do
      let key ← normalizeIndex (a.axes.map (·.name)) ui
      let raw ← (key.zip a.axes).mapM (giStep cfg)
      let pix ← stage2 a.axes raw
      pure { axes := getAxesOrtho a.axes raw pix, vals := a.vals.outer pix, vkind := a.vkind,
             attrs := a.attrs }) := by
  unfold Lib.take getIndices stage2
  simp only [bind, Except.bind, pure, Except.pure]
  cases normalizeIndex (a.axes.map (·.name)) ui with
  | error e => rfl
  | ok key => rfl

/-- one dimension goes through: `_get_indices` gives `r`, NumPy resolves it to `p`, and a full
slice keeps the very same axis -/
def DimOk (cfg : IndexCfg) (ix : Ix) (ax : Axis) (p : PosIx) : Prop :=
  ∃ r, giStep cfg (ix, ax) = .ok r ∧ resolveRaw r ax.size = .ok p ∧
    (∀ ps, p = .list ps → r = RawIx.slice none none none → axisSelect ax ps = ax)

/-- one dimension fails, in `_get_indices` or in NumPy, with an error satisfying `E` -/
def DimErr (cfg : IndexCfg) (E : Err → Prop) (ix : Ix) (ax : Axis) : Prop :=
  (∃ e, giStep cfg (ix, ax) = .error e ∧ E e) ∨
  (∃ r e, giStep cfg (ix, ax) = .ok r ∧ resolveRaw r ax.size = .error e ∧ E e)

/-- the two stages agree, on one dimension, with an optional specified position -/
@[reducible] def DimSpec (cfg : IndexCfg) (E : Err → Prop) (ix : Ix) (ax : Axis) : Option PosIx → Prop
  | some p => DimOk cfg ix ax p
  | none => DimErr cfg E ix ax

theorem stages_ok (cfg : IndexCfg) : ∀ (axes : List Axis) (key : List Ix) (ps : List PosIx),
    key.length = axes.length →
    All2 (fun (x : Ix × Axis) p => DimOk cfg x.1 x.2 p) (key.zip axes) ps →
    ∃ raw, (key.zip axes).mapM (giStep cfg) = .ok raw ∧ stage2 axes raw = .ok ps ∧
      getAxesOrtho axes raw ps = Spec.takeAxes axes ps := by
  intro axes
  induction axes with
  | nil =>
    intro key ps hlen h
    have : key = [] := List.length_eq_zero_iff.mp (by simpa using hlen)
    subst this
    cases h
    exact ⟨[], rfl, rfl, rfl⟩
  | cons ax axes ih =>
    intro key ps hlen h
    cases key with
    | nil => simp at hlen
    | cons ix key =>
      have hlen' : key.length = axes.length := by simpa using hlen
      rw [List.zip_cons_cons] at h
      cases h with
      | cons hd htl =>
        rename_i p ps'
        obtain ⟨raw, h1, h2, h3⟩ := ih key ps' hlen' htl
        obtain ⟨r, g1, g2, g3⟩ := hd
        refine ⟨r :: raw, ?_, ?_, ?_⟩
        · simp only [List.zip_cons_cons, List.mapM_cons, g1, h1, bind, Except.bind, pure, Except.pure]
        · unfold stage2 at h2 ⊢
          simp only [List.zip_cons_cons, List.mapM_cons, g2, h2, bind, Except.bind, pure, Except.pure]
        · cases p with
          | scalar k =>
            simp only [getAxesOrtho, Spec.takeAxes, List.zip_cons_cons, List.filterMap_cons] at h3 ⊢
            exact h3
          | list q =>
            simp only [getAxesOrtho, Spec.takeAxes, List.zip_cons_cons, List.filterMap_cons] at h3 ⊢
            by_cases hr : r = RawIx.slice none none none
            · have := g3 q rfl hr
              simp only [hr, beq_self_eq_true, if_true, this]
              rw [h3]
            · have : (r == RawIx.slice none none none) = false := by simpa using hr
              simp only [this, Bool.false_eq_true, if_false]
              rw [h3]

theorem stages_err (cfg : IndexCfg) (E : Err → Prop) : ∀ (axes : List Axis) (key : List Ix),
    key.length = axes.length →
    (∀ x ∈ key.zip axes, (∃ p, DimOk cfg x.1 x.2 p) ∨ DimErr cfg E x.1 x.2) →
    (∃ x ∈ key.zip axes, DimErr cfg E x.1 x.2) →
    (∃ e, (key.zip axes).mapM (giStep cfg) = .error e ∧ E e) ∨
    (∃ raw e, (key.zip axes).mapM (giStep cfg) = .ok raw ∧ stage2 axes raw = .error e ∧ E e) := by
  intro axes
  induction axes with
  | nil =>
    intro key hlen _ hex
    have : key = [] := List.length_eq_zero_iff.mp (by simpa using hlen)
    subst this
    obtain ⟨x, hx, _⟩ := hex
    simp at hx
  | cons ax axes ih =>
    intro key hlen hall hex
    cases key with
    | nil => simp at hlen
    | cons ix key =>
      have hlen' : key.length = axes.length := by simpa using hlen
      have hall' : ∀ x ∈ key.zip axes, (∃ p, DimOk cfg x.1 x.2 p) ∨ DimErr cfg E x.1 x.2 :=
        fun x hx => hall x (by simp [hx])
      -- outcome of the remaining dimensions
      have htail : (∃ x ∈ key.zip axes, DimErr cfg E x.1 x.2) ∨
          (∃ ps, All2 (fun (x : Ix × Axis) p => DimOk cfg x.1 x.2 p) (key.zip axes) ps) := by
        by_cases hq : ∃ x ∈ key.zip axes, DimErr cfg E x.1 x.2
        · exact Or.inl hq
        · right
          have hok : ∀ x ∈ key.zip axes, ∃ p, DimOk cfg x.1 x.2 p := by
            intro x hx
            rcases hall' x hx with h | h
            · exact h
            · exact absurd ⟨x, hx, h⟩ hq
          clear hall' hq ih hall hex hlen hlen'
          generalize key.zip axes = l at hok
          induction l with
          | nil => exact ⟨[], All2.nil⟩
          | cons y ys ihy =>
            obtain ⟨p, hp⟩ := hok y (by simp)
            obtain ⟨ps, hps⟩ := ihy (fun x hx => hok x (by simp [hx]))
            exact ⟨p :: ps, All2.cons hp hps⟩
      have hhead := hall (ix, ax) (by simp)
      simp only [List.zip_cons_cons, List.mapM_cons]
      unfold stage2
      rcases hhead with ⟨p, r, g1, g2, _⟩ | ⟨e, g1, hE⟩ | ⟨r, e, g1, g2, hE⟩
      · -- this dimension goes through: the failure is further on
        have hex' : ∃ x ∈ key.zip axes, DimErr cfg E x.1 x.2 := by
          obtain ⟨x, hx, hxe⟩ := hex
          simp only [List.zip_cons_cons, List.mem_cons] at hx
          rcases hx with rfl | hx
          · rcases hxe with ⟨e, g1', _⟩ | ⟨r', e, g1', g2', _⟩
            · rw [g1] at g1'; cases g1'
            · rw [g1] at g1'; cases g1'; rw [g2] at g2'; cases g2'
          · exact ⟨x, hx, hxe⟩
        rcases ih key hlen' hall' hex' with ⟨e, h1, hE⟩ | ⟨raw, e, h1, h2, hE⟩
        · left
          exact ⟨e, by simp only [g1, h1, bind, Except.bind], hE⟩
        · right
          refine ⟨r :: raw, e, by simp only [g1, h1, bind, Except.bind, pure, Except.pure], ?_, hE⟩
          unfold stage2 at h2
          simp only [List.zip_cons_cons, List.mapM_cons, g2, h2, bind, Except.bind]
      · left
        exact ⟨e, by simp only [g1, bind, Except.bind], hE⟩
      · rcases htail with hex' | ⟨ps, hps⟩
        · rcases ih key hlen' hall' hex' with ⟨e', h1, hE'⟩ | ⟨raw, e', h1, h2, hE'⟩
          · left
            exact ⟨e', by simp only [g1, h1, bind, Except.bind], hE'⟩
          · right
            refine ⟨r :: raw, e, by simp only [g1, h1, bind, Except.bind, pure, Except.pure], ?_, hE⟩
            simp only [List.zip_cons_cons, List.mapM_cons, g2, bind, Except.bind]
        · obtain ⟨raw, h1, _, _⟩ := stages_ok cfg axes key ps hlen' hps
          right
          refine ⟨r :: raw, e, by simp only [g1, h1, bind, Except.bind, pure, Except.pure], ?_, hE⟩
          simp only [List.zip_cons_cons, List.mapM_cons, g2, bind, Except.bind]

/-- **fusion lemma**: if, dimension by dimension, the two stages of the read agree with a
per-dimension specification `spec` (positions, or failure with an error in `E`), the whole read is
the outer selection at the specified positions, or fails with an error in `E`. -/
theorem take_of_spec {α : Type} (a : DimArray α) (ui : UserIndex) (key : List Ix) (cfg : IndexCfg)
    (E : Err → Prop) (spec : Ix → Axis → Option PosIx)
    (hnorm : normalizeIndex (a.axes.map (·.name)) ui = .ok key)
    (hlen : key.length = a.axes.length)
    (hd : ∀ x ∈ key.zip a.axes, DimSpec cfg E x.1 x.2 (spec x.1 x.2)) :
    (∀ ps, (key.zip a.axes).mapM (fun x => spec x.1 x.2) = some ps →
      Lib.take a ui cfg = .ok { axes := Spec.takeAxes a.axes ps, vals := a.vals.outer ps,
                                vkind := a.vkind, attrs := a.attrs }) ∧
    ((key.zip a.axes).mapM (fun x => spec x.1 x.2) = none →
      ∃ e, Lib.take a ui cfg = .error e ∧ E e) := by
  rw [take_eq, hnorm]
  refine ⟨fun ps hS => ?_, fun hS => ?_⟩
  · have hF := optMapM_some _ _ _ hS
    have hF' : All2 (fun (x : Ix × Axis) p => DimOk cfg x.1 x.2 p) (key.zip a.axes) ps := by
      clear hS
      generalize hl : key.zip a.axes = l at hF hd
      clear hl
      induction hF with
      | nil => exact All2.nil
      | @cons x y xs ys hxy _ ih =>
        refine All2.cons ?_ (ih (fun z hz => hd z (by simp [hz])))
        have := hd x (by simp)
        rw [hxy] at this
        exact this
    obtain ⟨raw, h1, h2, h3⟩ := stages_ok cfg a.axes key ps hlen hF'
    simp only [h1, h2, h3, bind, Except.bind, pure, Except.pure]
  · obtain ⟨x, hx, hxn⟩ := optMapM_none _ _ hS
    have hall : ∀ x ∈ key.zip a.axes, (∃ p, DimOk cfg x.1 x.2 p) ∨ DimErr cfg E x.1 x.2 := by
      intro z hz
      have := hd z hz
      cases hz' : spec z.1 z.2 with
      | some p => rw [hz'] at this; exact Or.inl ⟨p, this⟩
      | none => rw [hz'] at this; exact Or.inr this
    have hex : ∃ x ∈ key.zip a.axes, DimErr cfg E x.1 x.2 := by
      refine ⟨x, hx, ?_⟩
      have := hd x hx
      rw [hxn] at this
      exact this
    rcases stages_err cfg E a.axes key hlen hall hex with ⟨e, h1, hE⟩ | ⟨raw, e, h1, h2, hE⟩
    · exact ⟨e, by simp only [h1, bind, Except.bind], hE⟩
    · exact ⟨e, by simp only [h1, h2, bind, Except.bind], hE⟩

end C01T

/-! ### position mode -/

namespace Spec

/-- the integer a positional index must be (`2.0` is accepted as `2`, `2.5` and strings are not) -/
def intOf : Label → Option Int
  | .num q => if q.den = 1 then some q.num else none
  | _ => none

/-- NumPy's reading of an integer index on a dimension of length `n`: `0 ≤ i < n` counts from the
start, `-n ≤ i < 0` from the end, anything else is out of range -/
def normPos (n : Nat) (i : Int) : Option Nat :=
  if 0 ≤ i ∧ i < n then some i.toNat
  else if i < 0 ∧ 0 ≤ i + n then some (i + n).toNat
  else none

def optInt : Option Label → Option (Option Int)
  | none => some none
  | some v => (intOf v).map some

/-- positions a positional index denotes on a dimension of length `n`; `none` = error.
Slices are Python's `range(*slice.indices(n))` (`slicePositions`). -/
def posPositions (n : Nat) : Ix → Option PosIx
  | .scalar v => (intOf v).bind fun i => (normPos n i).map .scalar
  | .list vs => (vs.mapM intOf).bind fun is => (is.mapM (normPos n)).map .list
  | .mask m => if m.length = n then some (.list (nonzero m)) else none
  | .slice s e st => (optInt s).bind fun s' => (optInt e).bind fun e' =>
      match slicePositions s' e' st n with
      | .ok ps => some (.list ps)
      | .error _ => none
  | .ellipsis => none

end Spec

namespace C01T

theorem labelToInt_eq (v : Label) : labelToInt v = ofOpt .index (Spec.intOf v) := by
  cases v with
  | num q =>
    simp only [labelToInt, Spec.intOf]
    by_cases h : q.den = 1 <;> simp [h, ofOpt]
  | str s => rfl
  | none => rfl

/-- NumPy's normalisation of an integer index (the local `norm` of `resolveRaw`) -/
def normE (n : Nat) (i : Int) : Except Err Nat :=
  let j := if i < 0 then i + n else i
  if j < 0 || j ≥ (n : Int) then .error .index else .ok j.toNat

theorem normE_eq (n : Nat) (i : Int) : normE n i = ofOpt .index (Spec.normPos n i) := by
  unfold normE Spec.normPos
  by_cases h1 : i < 0
  · have h0 : ¬ (0 ≤ i ∧ i < n) := by omega
    by_cases h2 : 0 ≤ i + n
    · have h3 : ¬ (i + (n:Int) < 0) := by omega
      have h4 : ¬ ((n : Int) ≤ i + n) := by omega
      simp [h1, h2, h0, h3, h4, ofOpt]
    · have h3 : (i + (n:Int) < 0) := by omega
      simp [h1, h2, h0, h3, ofOpt]
  · by_cases h2 : i < n
    · have h0 : (0 ≤ i ∧ i < n) := by omega
      have h3 : ¬ ((n : Int) ≤ i) := by omega
      simp [h1, h0, h3, ofOpt]
    · have h0 : ¬ (0 ≤ i ∧ i < n) := by omega
      have h3 : ((n : Int) ≤ i) := by omega
      simp [h1, h0, h3, ofOpt]

theorem resolve_int_eq (i : Int) (n : Nat) :
    resolveRaw (.int i) n = (ofOpt .index (Spec.normPos n i)).bind (fun p => .ok (.scalar p)) := by
  have h : resolveRaw (.int i) n = (normE n i).bind (fun p => .ok (.scalar p)) := rfl
  rw [h, normE_eq]

theorem resolve_ints_eq (l : List Int) (n : Nat) :
    resolveRaw (.ints l) n =
      (ofOpt .index (l.mapM (Spec.normPos n))).bind (fun ps => .ok (.list ps)) := by
  have h : resolveRaw (.ints l) n = (l.mapM (normE n)).bind (fun ps => .ok (.list ps)) := rfl
  rw [h, mapM_except_of_option (normE n) (Spec.normPos n) .index (normE_eq n)]

theorem slicePositions_err (s e st : Option Int) (n : Nat) (err : Err)
    (h : slicePositions s e st n = .error err) : err = .value ∧ st = some 0 := by
  unfold slicePositions sliceIndices at h
  by_cases h0 : (st.getD 1 == 0) = true
  · simp only [h0, if_true, bind, Except.bind] at h
    cases st with
    | none => simp at h0
    | some k =>
      simp at h0
      subst h0
      cases h
      exact ⟨rfl, rfl⟩
  · simp only [h0, bind, Except.bind, pure, Except.pure] at h
    simp at h

/-- with `keepdims=False` the last step of the loop body does nothing -/
theorem keep_false (cfg : IndexCfg) (hk : cfg.keepdims = false) (x : Except Err RawIx) :
    (x >>= fun r => match r with
      | .int i => pure (if cfg.keepdims then RawIx.ints [i] else r)
      | _ => pure r) = x := by
  cases x with
  | error e => rfl
  | ok r => cases r <;> simp [hk, bind, Except.bind, pure, Except.pure]

/-- a boolean index goes through `_get_indices` unchanged if it has the size of its axis, and is an `IndexError`
otherwise (any mode, any `keepdims`) -/
theorem giStep_mask (cfg : IndexCfg) (m : List Bool) (ax : Axis) :
    giStep cfg (Ix.mask m, ax) = if m.length = ax.size then .ok (.mask m) else .error .index := by
  unfold giStep
  by_cases h : m.length = ax.size
  · simp only [h, beq_self_eq_true, if_true]; rfl
  · have hb : (m.length == ax.size) = false := by simpa using h
    simp only [h, hb, Bool.false_eq_true, if_false]; rfl

/-- in position mode `_get_indices` only converts the index to what NumPy receives (a boolean index: `giStep_mask`) -/
theorem giStep_position (cfg : IndexCfg) (hm : cfg.mode = .position) (hk : cfg.keepdims = false)
    (ix : Ix) (ax : Axis) (hnm : ∀ m, ix ≠ .mask m) : giStep cfg (ix, ax) = ixToRaw ix := by
  have hmode : (cfg.mode != Mode.position) = false := by rw [hm]; decide
  unfold giStep
  cases ix with
  | mask m => exact absurd rfl (hnm m)
  | scalar v => simp only [hmode, Bool.false_and, Bool.false_eq_true, if_false]; exact keep_false cfg hk _
  | list vs => simp only [hmode, Bool.false_and, Bool.false_eq_true, if_false]; exact keep_false cfg hk _
  | slice a b c => simp only [hmode, Bool.false_and, Bool.false_eq_true, if_false]; exact keep_false cfg hk _
  | ellipsis => simp only [hmode, Bool.false_and, Bool.false_eq_true, if_false]; exact keep_false cfg hk _

def optIntE : Option Label → Except Err (Option Int)
  | none => .ok none
  | some v => (labelToInt v).map some

theorem optIntE_eq (s : Option Label) : optIntE s = ofOpt .index (Spec.optInt s) := by
  cases s with
  | none => rfl
  | some v =>
    simp only [optIntE, Spec.optInt, labelToInt_eq]
    cases Spec.intOf v <;> rfl

theorem ixToRaw_scalar (v : Label) :
    ixToRaw (.scalar v) = (ofOpt .index (Spec.intOf v)).bind (fun i => .ok (.int i)) := by
  rw [← labelToInt_eq]; rfl

theorem ixToRaw_list (vs : List Label) :
    ixToRaw (.list vs) = (ofOpt .index (vs.mapM Spec.intOf)).bind (fun l => .ok (.ints l)) := by
  rw [← mapM_except_of_option labelToInt Spec.intOf .index labelToInt_eq]; rfl

theorem ixToRaw_slice (s e : Option Label) (st : Option Int) :
    ixToRaw (.slice s e st) = (ofOpt .index (Spec.optInt s)).bind fun s' =>
      (ofOpt .index (Spec.optInt e)).bind fun e' => .ok (.slice s' e' st) := by
  rw [← optIntE_eq, ← optIntE_eq]
  cases s <;> cases e <;> rfl

theorem slicePositions_full (n : Nat) : slicePositions none none none n = .ok (List.range n) := by
  unfold slicePositions sliceIndices
  simp only [Option.getD_none]
  have h1 : ((1 : Int) == 0) = false := by decide
  simp only [h1, Bool.false_eq_true, if_false]
  have h2 : ¬ ((1 : Int) < 0) := by decide
  simp only [h2, if_false]
  show Except.ok (rangeList 0 (n : Int) 1) = Except.ok (List.range n)
  congr 1
  unfold rangeList rangeLen
  have h3 : (1 : Int) > 0 := by decide
  simp only [h3, if_true]
  by_cases hn : (0 : Int) < n
  · simp only [hn, if_true]
    have : ((n : Int) - 0 - 1) / 1 + 1 = n := by omega
    rw [this]
    simp only [Int.toNat_natCast]
    apply List.ext_getElem
    · simp
    · intro i h1 h2
      simp
  · have : n = 0 := by omega
    subst this
    simp

theorem axisSelect_range (ax : Axis) (hp : ax.members = []) :
    axisSelect ax (List.range ax.labels.length) = ax := by
  unfold axisSelect
  have : (List.range ax.labels.length).map (fun p => ax.labels.getD p Label.none) = ax.labels := by
    apply List.ext_getElem
    · simp
    · intro i h1 h2
      simp at h1
      simp [List.getD_eq_getElem?_getD, List.getElem?_eq_getElem h1]
  rw [this]
  cases ax
  simp_all

theorem axis_size_plain (ax : Axis) (hp : ax.members = []) : ax.size = ax.labels.length := by
  simp [Axis.size, hp]

/-- the error classes of a positional read: `IndexError`, or `ValueError` for a zero slice step -/
def PosErr (Z : Prop) (e : Err) : Prop := e = .index ∨ (e = .value ∧ Z)

/-- per-dimension refinement in position mode -/
theorem perDim_position (cfg : IndexCfg) (hm : cfg.mode = .position) (hk : cfg.keepdims = false)
    (ix : Ix) (ax : Axis) (hp : ax.members = []) (hne : ix ≠ .ellipsis) (Z : Prop)
    (hZ : ∀ s e, ix = .slice s e (some 0) → Z) :
    DimSpec cfg (PosErr Z) ix ax (Spec.posPositions ax.labels.length ix) := by
  have hsize := axis_size_plain ax hp
  have hgi := giStep_position cfg hm hk ix ax
  cases ix with
  | ellipsis =>
    exact absurd rfl hne
  | scalar v =>
    replace hgi := hgi (fun _ h => by cases h)
    simp only [Spec.posPositions]
    rw [ixToRaw_scalar] at hgi
    cases hv : Spec.intOf v with
    | none =>
      rw [hv] at hgi
      exact Or.inl ⟨.index, hgi, Or.inl rfl⟩
    | some i =>
      rw [hv] at hgi
      simp only [Option.bind_some]
      cases hn : Spec.normPos ax.labels.length i with
      | none =>
        refine Or.inr ⟨.int i, .index, hgi, ?_, Or.inl rfl⟩
        rw [hsize, resolve_int_eq, hn]; rfl
      | some q =>
        refine ⟨.int i, hgi, ?_, ?_⟩
        · rw [hsize, resolve_int_eq, hn]; rfl
        · intro ps h; cases h
  | list vs =>
    replace hgi := hgi (fun _ h => by cases h)
    simp only [Spec.posPositions]
    rw [ixToRaw_list] at hgi
    cases hv : vs.mapM Spec.intOf with
    | none =>
      rw [hv] at hgi
      exact Or.inl ⟨.index, hgi, Or.inl rfl⟩
    | some l =>
      rw [hv] at hgi
      simp only [Option.bind_some]
      cases hn : l.mapM (Spec.normPos ax.labels.length) with
      | none =>
        refine Or.inr ⟨.ints l, .index, hgi, ?_, Or.inl rfl⟩
        rw [hsize, resolve_ints_eq, hn]; rfl
      | some q =>
        refine ⟨.ints l, hgi, ?_, ?_⟩
        · rw [hsize, resolve_ints_eq, hn]; rfl
        · intro ps _ h; cases h
  | mask m =>
    simp only [Spec.posPositions]
    have hgi' := giStep_mask cfg m ax
    rw [hsize] at hgi'
    by_cases hlen : m.length = ax.labels.length
    · simp only [hlen, if_true] at hgi' ⊢
      refine ⟨.mask m, hgi', ?_, ?_⟩
      · simp [resolveRaw, hsize, hlen]
      · intro ps _ h; cases h
    · simp only [hlen, if_false] at hgi' ⊢
      exact Or.inl ⟨.index, hgi', Or.inl rfl⟩
  | slice s e st =>
    replace hgi := hgi (fun _ h => by cases h)
    simp only [Spec.posPositions]
    rw [ixToRaw_slice] at hgi
    cases hs : Spec.optInt s with
    | none =>
      rw [hs] at hgi
      exact Or.inl ⟨.index, hgi, Or.inl rfl⟩
    | some s' =>
      rw [hs] at hgi
      simp only [Option.bind_some]
      cases he : Spec.optInt e with
      | none =>
        rw [he] at hgi
        exact Or.inl ⟨.index, hgi, Or.inl rfl⟩
      | some e' =>
        rw [he] at hgi
        simp only [Option.bind_some]
        have hres : resolveRaw (.slice s' e' st) ax.size =
            (slicePositions s' e' st ax.labels.length).bind (fun ps => .ok (.list ps)) := by
          rw [hsize]; rfl
        cases hsl : slicePositions s' e' st ax.labels.length with
        | error err =>
          obtain ⟨h1, h2⟩ := slicePositions_err _ _ _ _ _ hsl
          subst h1 h2
          refine Or.inr ⟨.slice s' e' (some 0), .value, hgi, ?_, Or.inr ⟨rfl, hZ s e rfl⟩⟩
          rw [hres, hsl]; rfl
        | ok ps =>
          refine ⟨.slice s' e' st, hgi, ?_, ?_⟩
          · rw [hres, hsl]; rfl
          · intro ps' hps' hr
            cases hps'
            cases hr
            rw [slicePositions_full] at hsl
            cases hsl
            exact axisSelect_range ax hp

/-! ### normalisation of the index forms -/

theorem go_noEll (key : List Ix) (ndim : Nat) (found : Bool) :
    ∀ ixs : List Ix, (∀ ix ∈ ixs, ix ≠ .ellipsis) → expandedIndexer.go key ndim found ixs = ixs := by
  intro ixs
  induction ixs with
  | nil => intro _; rfl
  | cons ix ixs ih =>
    intro h
    have hix := h ix (by simp)
    have ih' := ih (fun i hi => h i (by simp [hi]))
    cases ix with
    | ellipsis => exact absurd rfl hix
    | scalar v => simp [expandedIndexer.go, ih']
    | list vs => simp [expandedIndexer.go, ih']
    | mask m => simp [expandedIndexer.go, ih']
    | slice a b c => simp [expandedIndexer.go, ih']

/-- a tuple without `Ellipsis` is padded with full slices on the trailing dimensions -/
theorem expandedIndexer_noEll (ixs : List Ix) (ndim : Nat) (hlen : ixs.length ≤ ndim)
    (hs : ∀ ix ∈ ixs, ix ≠ .ellipsis) :
    expandedIndexer ixs ndim = .ok (ixs ++ List.replicate (ndim - ixs.length) fullIx) := by
  unfold expandedIndexer
  simp only [go_noEll ixs ndim false ixs hs]
  have : ¬ (ixs.length > ndim) := by omega
  simp [this]

theorem expandedIndexer_tooLong (ixs : List Ix) (ndim : Nat) (hlen : ndim < ixs.length)
    (hs : ∀ ix ∈ ixs, ix ≠ .ellipsis) :
    expandedIndexer ixs ndim = .error .index := by
  unfold expandedIndexer
  simp only [go_noEll ixs ndim false ixs hs]
  simp [hlen]

theorem normalize_tuple (dims : List String) (ixs : List Ix) (hlen : ixs.length = dims.length)
    (hs : ∀ ix ∈ ixs, ix ≠ .ellipsis) : normalizeIndex dims (.tuple ixs) = .ok ixs := by
  have h : normalizeIndex dims (.tuple ixs) = expandedIndexer ixs dims.length := rfl
  rw [h, expandedIndexer_noEll ixs dims.length (by omega) hs, hlen]
  simp

end C01T

/-! ### dict and `axis=` forms -/

namespace Spec
/-- the dimension a dict key / `axis=` argument names: a dimension name, a position from the
start (`0 ≤ i < ndim`) or from the end (`-ndim ≤ i < 0`) -/
def KeyDim (dims : List String) : DimKey → String → Prop
  | .name s, d => s = d ∧ d ∈ dims
  | .pos i, d => (0 ≤ i ∧ dims[i.toNat]? = some d) ∨
                 (i < 0 ∧ 0 ≤ i + dims.length ∧ dims[(i + dims.length).toNat]? = some d)

/-- the tuple a `{dimension: index}` mapping stands for: each dimension gets the index given for
it (the last one if it is given several times), the others a full slice -/
def dictKey (dims : List String) (kv : List (String × Ix)) : List Ix :=
  dims.map fun d => ((kv.reverse.find? (·.1 == d)).map (·.2)).getD fullIx
end Spec

namespace C01T

theorem dimOfKey_iff (dims : List String) (k : DimKey) (d : String) :
    dimOfKey dims k = .ok d ↔ Spec.KeyDim dims k d := by
  cases k with
  | name s =>
    simp only [dimOfKey, Spec.KeyDim]
    by_cases h : s ∈ dims
    · have hc : dims.contains s = true := by simpa using h
      simp only [hc, if_true]
      constructor
      · intro h'; cases h'; exact ⟨rfl, h⟩
      · intro h'; rw [h'.1]
    · have hc : dims.contains s = false := by simpa using h
      simp only [hc, Bool.false_eq_true, if_false]
      constructor
      · intro h'; cases h'
      · intro h'; exact absurd (h'.1 ▸ h'.2) h
  | pos i =>
    simp only [dimOfKey, Spec.KeyDim]
    by_cases h1 : i < 0
    · simp only [h1, if_true]
      by_cases h2 : 0 ≤ i + dims.length
      · have h3 : ¬ (i + (dims.length : Int) < 0) := by omega
        have h4 : ¬ ((dims.length : Int) ≤ i + dims.length) := by omega
        have h5 : (i + (dims.length : Int)).toNat < dims.length := by omega
        have h6 : ¬ (0 ≤ i) := by omega
        simp [h3, h4, h2, h6, List.getD_eq_getElem?_getD, List.getElem?_eq_getElem h5]
      · have h3 : (i + (dims.length : Int) < 0) := by omega
        have h6 : ¬ (0 ≤ i) := by omega
        simp [h3, h2, h6]
    · simp only [h1, if_false]
      have h0 : 0 ≤ i := by omega
      by_cases h2 : i < dims.length
      · have h4 : ¬ ((dims.length : Int) ≤ i) := by omega
        have h5 : i.toNat < dims.length := by omega
        simp [h4, h0, List.getD_eq_getElem?_getD, List.getElem?_eq_getElem h5]
      · have h4 : ((dims.length : Int) ≤ i) := by omega
        have h5 : dims.length ≤ i.toNat := by omega
        simp [h4, h0]

theorem dimOfKey_error (dims : List String) (k : DimKey) (e : Err) (h : dimOfKey dims k = .error e) :
    (e = .value ∧ ∃ s, k = .name s ∧ s ∉ dims) ∨ (e = .index ∧ ∃ i, k = .pos i) := by
  cases k with
  | name s =>
    simp only [dimOfKey] at h
    by_cases hs : s ∈ dims
    · simp [hs] at h
    · simp [hs] at h
      exact Or.inl ⟨h.symm, s, rfl, hs⟩
  | pos i =>
    right
    simp only [dimOfKey] at h
    split at h
    · split at h
      · cases h; exact ⟨rfl, i, rfl⟩
      · cases h
    · split at h
      · cases h; exact ⟨rfl, i, rfl⟩
      · cases h

/-- the conversion of the dict keys -/
def dictKV (dims : List String) (l : List (DimKey × Ix)) : Except Err (List (String × Ix)) :=
  l.mapM (m := Except Err) (fun (k, ix) => do let d ← dimOfKey dims k; pure (d, ix))

theorem normalize_dict (dims : List String) (l : List (DimKey × Ix)) :
    normalizeIndex dims (.dict l) =
      (dictKV dims l).bind fun kv => expandedIndexer (Spec.dictKey dims kv) dims.length := by
  have h : normalizeIndex dims (.dict l) =
      ((dictKV dims l).bind fun kv => Except.ok (Spec.dictKey dims kv)).bind
        fun key => expandedIndexer key dims.length := rfl
  rw [h]
  cases dictKV dims l <;> rfl

theorem dictKV_cons (dims : List String) (k : DimKey) (ix : Ix) (l : List (DimKey × Ix)) :
    dictKV dims ((k, ix) :: l) =
      (dimOfKey dims k).bind fun d => (dictKV dims l).bind fun kv => .ok ((d, ix) :: kv) := by
  unfold dictKV
  simp only [List.mapM_cons, bind, Except.bind, pure, Except.pure]
  cases dimOfKey dims k <;> rfl

theorem dictKV_ok (dims : List String) : ∀ (l : List (DimKey × Ix)) (kv : List (String × Ix)),
    All2 (fun (x : DimKey × Ix) (y : String × Ix) => Spec.KeyDim dims x.1 y.1 ∧ y.2 = x.2) l kv →
    dictKV dims l = .ok kv := by
  intro l kv h
  induction h with
  | nil => rfl
  | @cons x y xs ys hxy _ ih =>
    obtain ⟨k, ix⟩ := x
    obtain ⟨d, ix'⟩ := y
    simp only at hxy
    obtain ⟨h1, h2⟩ := hxy
    subst h2
    rw [dictKV_cons, (dimOfKey_iff dims k d).mpr h1, ih]
    rfl

theorem dictKV_err (dims : List String) : ∀ (l : List (DimKey × Ix)),
    (∃ x ∈ l, ∀ d, ¬ Spec.KeyDim dims x.1 d) →
    ∃ e, dictKV dims l = .error e ∧ (e = .value ∨ e = .index) := by
  intro l
  induction l with
  | nil => intro ⟨x, hx, _⟩; simp at hx
  | cons y ys ih =>
    intro ⟨x, hx, hbad⟩
    obtain ⟨k, ix⟩ := y
    rw [dictKV_cons]
    cases hk : dimOfKey dims k with
    | error e =>
      refine ⟨e, rfl, ?_⟩
      rcases dimOfKey_error dims k e hk with ⟨h, _⟩ | ⟨h, _⟩
      · exact Or.inl h
      · exact Or.inr h
    | ok d =>
      have hx' : x ∈ ys := by
        simp only [List.mem_cons] at hx
        rcases hx with rfl | hx
        · exact absurd ((dimOfKey_iff dims k d).mp hk) (hbad d)
        · exact hx
      obtain ⟨e, he, hE⟩ := ih ⟨x, hx', hbad⟩
      refine ⟨e, ?_, hE⟩
      rw [he]
      rfl

end C01T

/-! ### keepdims -/

/-- `keepdims=True` reads a scalar index as the list of that one label / position -/
def Ix.keep : Ix → Ix
  | .scalar v => .list [v]
  | ix => ix

namespace C01T

/-- the last step of the loop body of `_get_indices` -/
def keepStep (kd : Bool) (r : RawIx) : Except Err RawIx :=
  match r with
  | .int i => pure (if kd then RawIx.ints [i] else r)
  | _ => pure r

/-- the first step of the loop body of `_get_indices` -/
def firstStep (cfg : IndexCfg) (ix : Ix) (ax : Axis) : Except Err RawIx :=
  match ix with
  | .mask m => if m.length == ax.size then pure (RawIx.mask m) else .error .index
  | _ => if cfg.mode != .position && !ix.isFull then loc ax.labels ax.kind ix cfg.tol
         else ixToRaw ix

theorem giStep_def (cfg : IndexCfg) (ix : Ix) (ax : Axis) :
    giStep cfg (ix, ax) = firstStep cfg ix ax >>= keepStep cfg.keepdims := by
  unfold giStep firstStep
  cases ix <;> simp only <;> first | rfl | (split <;> rfl)

theorem keepStep_ints (kd kd' : Bool) (y : Except Err (List Int)) :
    (y.map RawIx.ints) >>= keepStep kd = (y.map RawIx.ints) >>= keepStep kd' := by
  cases y <;> rfl

theorem loc_list_form (L : List Label) (kind : Kind) (vs : List Label) (tol : Option Tol) :
    ∃ y : Except Err (List Int), loc L kind (.list vs) tol = y.map RawIx.ints := by
  unfold loc
  simp only
  split
  · rename_i t _
    refine ⟨(vs.mapM (fun v => locateOne L v (some t))).map (fun ps => ps.map Int.ofNat), ?_⟩
    cases vs.mapM (fun v => locateOne L v (some t)) <;> rfl
  · simp only [Bool.false_eq_true, if_false]
    split
    · exact ⟨.error .index, rfl⟩
    · split
      · exact ⟨.ok _, rfl⟩
      · exact ⟨.error .index, rfl⟩

theorem loc_slice_form (L : List Label) (kind : Kind) (s e : Option Label) (st : Option Int)
    (tol : Option Tol) :
    ∃ y : Except Err (Option Int × Option Int),
      loc L kind (.slice s e st) tol = y.map (fun ab => RawIx.slice ab.1 ab.2 st) := by
  refine ⟨locateSlice L kind s e st, ?_⟩
  unfold loc
  simp only [bind, Except.bind, pure, Except.pure]
  cases locateSlice L kind s e st <;> rfl

theorem keepStep_slice (kd kd' : Bool) (st : Option Int) (y : Except Err (Option Int × Option Int)) :
    (y.map (fun ab => RawIx.slice ab.1 ab.2 st)) >>= keepStep kd =
      (y.map (fun ab => RawIx.slice ab.1 ab.2 st)) >>= keepStep kd' := by
  cases y <;> rfl

/-- `loc` of a scalar label other than `None` -/
theorem loc_scalar (L : List Label) (kind : Kind) (v : Label) (hv : v ≠ .none) (tol : Option Tol) :
    loc L kind (.scalar v) tol =
      (locateOne L v (if kind.isNumeric then tol else none)).map (fun p => RawIx.int p) := by
  cases v with
  | none => exact absurd rfl hv
  | num q =>
    simp only [loc, bind, Except.bind, pure, Except.pure]
    cases locateOne L (Label.num q) _ <;> rfl
  | str s =>
    simp only [loc, bind, Except.bind, pure, Except.pure]
    cases locateOne L (Label.str s) _ <;> rfl

/-- `loc` of a one-element list is `loc` of the scalar, as a one-element list -/
theorem loc_singleton (L : List Label) (kind : Kind) (v : Label) (hn : L.Nodup) (tol : Option Tol) :
    loc L kind (.list [v]) tol =
      (locateOne L v (if kind.isNumeric then tol else none)).map (fun (p : Nat) => RawIx.ints [Int.ofNat p]) := by
  cases htol : (if kind.isNumeric then tol else none) with
  | some t =>
    unfold loc
    simp only [htol, List.mapM_cons, List.mapM_nil, bind, Except.bind, pure, Except.pure]
    cases locateOne L v (some t) <;> rfl
  | none =>
    have h1 : loc L kind (.list [v]) tol = loc L kind (.list [v]) none := by
      unfold loc
      simp only [htol]
      have : (if kind.isNumeric then (none : Option Tol) else none) = none := by split <;> rfl
      simp only [this]
    rw [h1, loc_list L kind [v] hn, locateOne_none]
    by_cases hm : v ∈ L <;> simp [hm, Except.map]

theorem giStep_keep (cfg : IndexCfg) (hk : cfg.keepdims = true) (ix : Ix) (ax : Axis)
    (hix : ix ≠ .scalar .none) (hn : cfg.mode ≠ .position → ax.labels.Nodup) :
    giStep cfg (ix, ax) = giStep { cfg with keepdims := false } (ix.keep, ax) := by
  by_cases hmk : ∃ m, ix = .mask m
  · obtain ⟨m, rfl⟩ := hmk
    have hkeep : (Ix.mask m).keep = Ix.mask m := rfl
    rw [hkeep, giStep_mask, giStep_mask]
  rw [giStep_def, giStep_def, hk]
  cases ix with
  | mask m => exact absurd ⟨m, rfl⟩ hmk
  | ellipsis =>
    simp only [Ix.keep, firstStep, Ix.isFull]
    have hmode : ({ cfg with keepdims := false } : IndexCfg).mode = cfg.mode := rfl
    rw [hmode]
    by_cases h : (cfg.mode != Mode.position && !false) = true
    · simp only [h, if_true]; rfl
    · simp only [h]; rfl
  | scalar v =>
    have hv : v ≠ .none := fun h => hix (by rw [h])
    have hmode : ({ cfg with keepdims := false } : IndexCfg).mode = cfg.mode := rfl
    simp only [Ix.keep, firstStep, Ix.isFull, hmode, Bool.not_false, Bool.and_true]
    by_cases hm : (cfg.mode != Mode.position) = true
    · simp only [hm, if_true]
      have hn' : ax.labels.Nodup := hn (by intro h; rw [h] at hm; simp at hm)
      rw [loc_scalar _ _ v hv, loc_singleton _ _ v hn']
      cases locateOne ax.labels v _ <;> rfl
    · simp only [hm, if_false, Bool.false_eq_true]
      rw [ixToRaw_scalar, ixToRaw_list]
      simp only [List.mapM_cons, List.mapM_nil]
      cases Spec.intOf v <;> rfl
  | list vs =>
    have hmode : ({ cfg with keepdims := false } : IndexCfg).mode = cfg.mode := rfl
    simp only [Ix.keep, firstStep, Ix.isFull, hmode, Bool.not_false, Bool.and_true]
    split
    · obtain ⟨y, hy⟩ := loc_list_form ax.labels ax.kind vs cfg.tol
      show loc ax.labels ax.kind (.list vs) cfg.tol >>= _ = loc ax.labels ax.kind (.list vs) cfg.tol >>= _
      rw [hy]
      exact keepStep_ints _ _ y
    · rw [ixToRaw_list]
      cases vs.mapM Spec.intOf <;> rfl
  | slice s e st =>
    have hmode : ({ cfg with keepdims := false } : IndexCfg).mode = cfg.mode := rfl
    simp only [Ix.keep, firstStep, hmode]
    split
    · obtain ⟨y, hy⟩ := loc_slice_form ax.labels ax.kind s e st cfg.tol
      show loc ax.labels ax.kind (.slice s e st) cfg.tol >>= _ = loc ax.labels ax.kind (.slice s e st) cfg.tol >>= _
      rw [hy]
      exact keepStep_slice _ _ st y
    · rw [ixToRaw_slice]
      cases Spec.optInt s <;> cases Spec.optInt e <;> rfl

theorem go_map_keep (key key' : List Ix) (n : Nat) (hl : key'.length = key.length) :
    ∀ (ks : List Ix) (found : Bool), expandedIndexer.go key' n found (ks.map Ix.keep) =
      (expandedIndexer.go key n found ks).map Ix.keep := by
  intro ks
  induction ks with
  | nil => intro _; rfl
  | cons k ks ih =>
    intro found
    cases k with
    | ellipsis =>
      cases found
      · simp [expandedIndexer.go, Ix.keep, ih, hl, fullIx]
      · simp [expandedIndexer.go, Ix.keep, ih, fullIx]
    | scalar v => simp [expandedIndexer.go, Ix.keep, ih]
    | list vs => simp [expandedIndexer.go, Ix.keep, ih]
    | mask m => simp [expandedIndexer.go, Ix.keep, ih]
    | slice a b c => simp [expandedIndexer.go, Ix.keep, ih]

theorem expandedIndexer_map_keep (key : List Ix) (n : Nat) :
    expandedIndexer (key.map Ix.keep) n = (expandedIndexer key n).map (List.map Ix.keep) := by
  unfold expandedIndexer
  simp only [go_map_keep key (key.map Ix.keep) n (by simp) key false, List.length_map]
  split
  · rfl
  · simp [Except.map, fullIx, Ix.keep]

theorem go_mem (key : List Ix) (n : Nat) : ∀ (ks : List Ix) (found : Bool),
    ∀ x ∈ expandedIndexer.go key n found ks, x ∈ ks ∨ x = fullIx := by
  intro ks
  induction ks with
  | nil => intro _ x hx; simp [expandedIndexer.go] at hx
  | cons k ks ih =>
    intro found x hx
    have hcons : ∀ f, x ∈ k :: expandedIndexer.go key n f ks → x ∈ k :: ks ∨ x = fullIx := by
      intro f h
      simp only [List.mem_cons] at h ⊢
      rcases h with h | h
      · exact Or.inl (Or.inl h)
      · rcases ih f x h with h' | h'
        · exact Or.inl (Or.inr h')
        · exact Or.inr h'
    cases k with
    | ellipsis =>
      cases found
      · simp only [expandedIndexer.go, Bool.not_false, if_true, List.mem_append, List.mem_replicate] at hx
        rcases hx with ⟨_, h⟩ | h
        · exact Or.inr h
        · rcases ih true x h with h' | h'
          · exact Or.inl (by simp [h'])
          · exact Or.inr h'
      · simp only [expandedIndexer.go, Bool.not_true, Bool.false_eq_true, if_false, List.mem_cons] at hx
        rcases hx with h | h
        · exact Or.inr h
        · rcases ih true x h with h' | h'
          · exact Or.inl (by simp [h'])
          · exact Or.inr h'
    | scalar v => exact hcons found (by simpa [expandedIndexer.go] using hx)
    | list vs => exact hcons found (by simpa [expandedIndexer.go] using hx)
    | mask m => exact hcons found (by simpa [expandedIndexer.go] using hx)
    | slice a b c => exact hcons found (by simpa [expandedIndexer.go] using hx)

theorem expandedIndexer_mem (key : List Ix) (n : Nat) (k' : List Ix) (h : expandedIndexer key n = .ok k') :
    ∀ x ∈ k', x ∈ key ∨ x = fullIx := by
  unfold expandedIndexer at h
  simp only at h
  split at h
  · cases h
  · cases h
    intro x hx
    simp only [List.mem_append, List.mem_replicate] at hx
    rcases hx with hx | ⟨_, hx⟩
    · exact go_mem key n key false x hx
    · exact Or.inr hx

theorem mapM_giStep_keep (cfg : IndexCfg) (hk : cfg.keepdims = true) :
    ∀ (key : List Ix) (axes : List Axis),
    (∀ ix ∈ key, ix ≠ .scalar .none) → (∀ ax ∈ axes, cfg.mode ≠ .position → ax.labels.Nodup) →
    ((key.map Ix.keep).zip axes).mapM (giStep { cfg with keepdims := false }) =
      (key.zip axes).mapM (giStep cfg) := by
  intro key
  induction key with
  | nil => intro _ _ _; rfl
  | cons k ks ih =>
    intro axes h1 h2
    cases axes with
    | nil => rfl
    | cons ax axes =>
      simp only [List.map_cons, List.zip_cons_cons, List.mapM_cons]
      rw [ih axes (fun i hi => h1 i (by simp [hi])) (fun a ha => h2 a (by simp [ha])),
        giStep_keep cfg hk k ax (h1 k (by simp)) (h2 ax (by simp))]

end C01T

/-! ### masks (any mode) and tolerance -/

namespace Spec
/-- positions a label index denotes under a tolerance `t` on a numeric axis with labels `L`: every
requested label is located by `locate_one(..., tol=t)` (characterised by `locateOne_tol_iff`);
`none` = error -/
def tolPositions (t : Tol) (L : List Label) : Ix → Option PosIx
  | .scalar v => (locateOne L v (some t)).toOption.map .scalar
  | .list vs => (vs.mapM (fun v => locateOne L v (some t))).toOption.map .list
  | .mask m => if m.length = L.length then some (.list (nonzero m)) else none
  | .slice none none none => some (.list (List.range L.length))
  | _ => none
end Spec

namespace C01T

/-- the error classes of `locate_one` with a tolerance -/
def TolErr (e : Err) : Prop := e = .index ∨ e = .type ∨ e = .value

theorem all2_length {α β : Type} {R : α → β → Prop} {l : List α} {m : List β} (h : All2 R l m) :
    m.length = l.length := by
  induction h with
  | nil => rfl
  | cons _ _ ih => simp [ih]

theorem locateOne_tol_cases (L : List Label) (v : Label) (t : Tol) :
    (∃ m, locateOne L v (some t) = .ok m ∧ m < L.length) ∨
    (∃ e, locateOne L v (some t) = .error e ∧ TolErr e) := by
  unfold locateOne
  simp only
  cases hv : v.toRat? with
  | none => exact Or.inr ⟨.type, rfl, Or.inr (Or.inl rfl)⟩
  | some q =>
    cases hL : L.mapM Label.toRat? with
    | none => exact Or.inr ⟨.type, rfl, Or.inr (Or.inl rfl)⟩
    | some qs =>
      simp only
      by_cases hne : qs = []
      · subst hne
        exact Or.inr ⟨.index, rfl, Or.inl rfl⟩
      · have hem : qs.isEmpty = false := by
          cases qs with
          | nil => exact absurd rfl hne
          | cons _ _ => rfl
        simp only [hem, Bool.false_eq_true, if_false]
        split
        · left
          refine ⟨_, rfl, ?_⟩
          have h1 := (argminRat_dist_spec qs q hne).1
          have hlen : qs.length = L.length := all2_length (optMapM_some _ _ _ hL)
          omega
        · exact Or.inr ⟨.index, rfl, Or.inl rfl⟩

theorem mapM_ok_all {α β : Type} (f : α → Except Err β) (P : β → Prop) :
    ∀ (l : List α) (ys : List β), l.mapM f = .ok ys → (∀ x y, f x = .ok y → P y) → ∀ y ∈ ys, P y := by
  intro l
  induction l with
  | nil =>
    intro ys h _ y hy
    cases h
    simp at hy
  | cons x xs ih =>
    intro ys h hP y hy
    simp only [List.mapM_cons, bind, Except.bind, pure, Except.pure] at h
    cases hx : f x with
    | error e => rw [hx] at h; cases h
    | ok b =>
      rw [hx] at h
      cases hxs : xs.mapM f with
      | error e => rw [hxs] at h; cases h
      | ok bs =>
        rw [hxs] at h
        cases h
        simp only [List.mem_cons] at hy
        rcases hy with rfl | hy
        · exact hP x _ hx
        · exact ih bs hxs hP y hy

theorem mapM_err_some {α β : Type} (f : α → Except Err β) :
    ∀ (l : List α) (e : Err), l.mapM f = .error e → ∃ x ∈ l, f x = .error e := by
  intro l
  induction l with
  | nil => intro e h; cases h
  | cons x xs ih =>
    intro e h
    simp only [List.mapM_cons, bind, Except.bind, pure, Except.pure] at h
    cases hx : f x with
    | error e' => rw [hx] at h; cases h; exact ⟨x, by simp, hx⟩
    | ok b =>
      rw [hx] at h
      cases hxs : xs.mapM f with
      | error e' =>
        rw [hxs] at h; cases h
        obtain ⟨z, hz, hfz⟩ := ih _ hxs
        exact ⟨z, by simp [hz], hfz⟩
      | ok bs => rw [hxs] at h; cases h

theorem normPos_mapM_nat (n : Nat) : ∀ (ps : List Nat), (∀ p ∈ ps, p < n) →
    (ps.map Int.ofNat).mapM (Spec.normPos n) = some ps := by
  intro ps
  induction ps with
  | nil => intro _; rfl
  | cons p ps ih =>
    intro h
    have hp : p < n := h p (by simp)
    have h0 : (0 ≤ Int.ofNat p ∧ Int.ofNat p < (n : Int)) := ⟨by simp, by simp; omega⟩
    simp only [List.map_cons, List.mapM_cons, ih (fun w hw => h w (by simp [hw])), Spec.normPos, h0]
    simp

theorem resolve_ints_nat (n : Nat) (ps : List Nat) (h : ∀ p ∈ ps, p < n) :
    resolveRaw (.ints (ps.map Int.ofNat)) n = .ok (.list ps) := by
  rw [resolve_ints_eq, normPos_mapM_nat n ps h]; rfl

theorem resolve_int_nat (n p : Nat) (h : p < n) : resolveRaw (.int (p : Int)) n = .ok (.scalar p) := by
  rw [resolve_int_eq]
  have h0 : (0 ≤ (p : Int) ∧ (p : Int) < (n : Int)) := ⟨by simp, by omega⟩
  simp [Spec.normPos, h0, ofOpt, Except.bind]

/-- masks and full slices mean the same whatever the mode, the tolerance and `keepdims` -/
theorem perDim_maskfull (cfg : IndexCfg) (ix : Ix) (ax : Axis) (hp : ax.members = [])
    (hs : (∃ m, ix = .mask m) ∨ ix = fullIx) :
    DimSpec cfg (fun e => e = .index) ix ax (Spec.positions ax.labels ix) := by
  have hsize := axis_size_plain ax hp
  rcases hs with ⟨m, rfl⟩ | rfl
  · have hgi := giStep_mask cfg m ax
    rw [hsize] at hgi
    simp only [Spec.positions]
    by_cases hlen : m.length = ax.labels.length
    · simp only [hlen, if_true] at hgi ⊢
      refine ⟨.mask m, hgi, ?_, ?_⟩
      · simp [resolveRaw, hsize, hlen]
      · intro ps _ h; cases h
    · simp only [hlen, if_false] at hgi ⊢
      exact Or.inl ⟨.index, hgi, rfl⟩
  · have hgi : giStep cfg (fullIx, ax) = .ok (.slice none none none) := by
      rw [giStep_def]
      simp only [firstStep, fullIx, Ix.isFull, Bool.not_true, Bool.and_false, Bool.false_eq_true, if_false]
      rfl
    simp only [Spec.positions, fullIx]
    refine ⟨.slice none none none, hgi, ?_, ?_⟩
    · simp [resolveRaw, hsize, slicePositions_full, bind, Except.bind, pure, Except.pure]
    · intro ps h _
      cases h
      exact axisSelect_range ax hp

theorem loc_list_tol (L : List Label) (kind : Kind) (vs : List Label) (t : Tol) (hk : kind.isNumeric = true) :
    loc L kind (.list vs) (some t) =
      (vs.mapM (fun v => locateOne L v (some t))).map (fun ps => RawIx.ints (ps.map Int.ofNat)) := by
  unfold loc
  simp only [hk, if_true]
  cases vs.mapM (fun v => locateOne L v (some t)) <;> rfl

/-- per-dimension refinement in label mode with a tolerance, on a numeric axis -/
theorem perDim_tol (cfg : IndexCfg) (t : Tol) (hm : cfg.mode = .label) (ht : cfg.tol = some t)
    (hk : cfg.keepdims = false) (ix : Ix) (ax : Axis) (hnum : ax.kind.isNumeric = true)
    (hs : Spec.SimpleIx ix) (hp : ax.members = []) :
    DimSpec cfg TolErr ix ax (Spec.tolPositions t ax.labels ix) := by
  have hsize := axis_size_plain ax hp
  have hmode : (cfg.mode != Mode.position) = true := by rw [hm]; decide
  cases ix with
  | ellipsis => exact absurd hs (by simp [Spec.SimpleIx])
  | mask m =>
    have := perDim_maskfull cfg (.mask m) ax hp (Or.inl ⟨m, rfl⟩)
    simp only [Spec.positions] at this
    simp only [Spec.tolPositions]
    by_cases hlen : m.length = ax.labels.length
    · simp only [hlen, if_true] at this ⊢; exact this
    · simp only [hlen, if_false] at this ⊢
      rcases this with ⟨e, h1, h2⟩ | ⟨r, e, h1, h2, h3⟩
      · exact Or.inl ⟨e, h1, Or.inl h2⟩
      · exact Or.inr ⟨r, e, h1, h2, Or.inl h3⟩
  | slice s e st =>
    cases s with
    | some _ => exact absurd hs (by simp [Spec.SimpleIx])
    | none =>
      cases e with
      | some _ => exact absurd hs (by simp [Spec.SimpleIx])
      | none =>
        cases st with
        | some _ => exact absurd hs (by simp [Spec.SimpleIx])
        | none =>
          have := perDim_maskfull cfg fullIx ax hp (Or.inr rfl)
          simp only [Spec.positions, fullIx] at this
          simp only [Spec.tolPositions]
          exact this
  | scalar v =>
    have hv : v ≠ Label.none := hs
    have hgi : giStep cfg (Ix.scalar v, ax) =
        (locateOne ax.labels v (some t)).map (fun p => RawIx.int p) := by
      rw [giStep_def, hk]
      simp only [firstStep, hmode, Ix.isFull, Bool.not_false, Bool.and_true, if_true, ht]
      rw [loc_scalar _ _ v hv]
      simp only [hnum, if_true]
      cases locateOne ax.labels v (some t) <;> rfl
    simp only [Spec.tolPositions]
    rcases locateOne_tol_cases ax.labels v t with ⟨m, h1, h2⟩ | ⟨e, h1, h2⟩
    · rw [h1] at hgi ⊢
      refine ⟨.int m, hgi, ?_, ?_⟩
      · rw [hsize]; exact resolve_int_nat _ _ h2
      · intro ps h; cases h
    · rw [h1] at hgi ⊢
      exact Or.inl ⟨e, hgi, h2⟩
  | list vs =>
    have hgi : giStep cfg (Ix.list vs, ax) =
        (vs.mapM (fun v => locateOne ax.labels v (some t))).map
          (fun ps => RawIx.ints (ps.map Int.ofNat)) := by
      rw [giStep_def, hk]
      simp only [firstStep, hmode, Ix.isFull, Bool.not_false, Bool.and_true, if_true, ht]
      rw [loc_list_tol _ _ vs t hnum]
      cases vs.mapM (fun v => locateOne ax.labels v (some t)) <;> rfl
    simp only [Spec.tolPositions]
    cases hM : vs.mapM (fun v => locateOne ax.labels v (some t)) with
    | ok ps =>
      rw [hM] at hgi
      have hlt : ∀ p ∈ ps, p < ax.labels.length := by
        apply mapM_ok_all _ (fun p => p < ax.labels.length) vs ps hM
        intro x y hxy
        rcases locateOne_tol_cases ax.labels x t with ⟨m, h1, h2⟩ | ⟨e, h1, _⟩
        · rw [h1] at hxy; cases hxy; exact h2
        · rw [h1] at hxy; cases hxy
      refine ⟨.ints (ps.map Int.ofNat), hgi, ?_, ?_⟩
      · rw [hsize]; exact resolve_ints_nat _ _ hlt
      · intro ps' _ h; cases h
    | error e =>
      rw [hM] at hgi
      obtain ⟨x, _, hx⟩ := mapM_err_some _ vs e hM
      refine Or.inl ⟨e, hgi, ?_⟩
      rcases locateOne_tol_cases ax.labels x t with ⟨m, h1, _⟩ | ⟨e', h1, h2⟩
      · rw [h1] at hx; cases hx
      · rw [h1] at hx; cases hx; exact h2

/-- the tolerance is ignored on a non-numeric axis -/
theorem loc_tol_nonnumeric (L : List Label) (kind : Kind) (ix : Ix) (tol : Option Tol)
    (h : kind.isNumeric = false) : loc L kind ix tol = loc L kind ix none := by
  unfold loc
  simp only [h, Bool.false_eq_true, if_false]

theorem giStep_tol_nonnumeric (cfg : IndexCfg) (ix : Ix) (ax : Axis) (h : ax.kind.isNumeric = false) :
    giStep cfg (ix, ax) = giStep { cfg with tol := none } (ix, ax) := by
  rw [giStep_def, giStep_def]
  have hmode : ({ cfg with tol := none } : IndexCfg).mode = cfg.mode := rfl
  unfold firstStep
  rw [hmode, loc_tol_nonnumeric ax.labels ax.kind ix cfg.tol h]

/-- `np.nonzero`: in ascending order, the positions where the mask is true -/
theorem nonzero_aux (m : List Bool) (n : Nat) :
    ((m.zipIdx n).filter (·.1)).map (·.2) =
      (List.range' n m.length).filter (fun i => m[i - n]? = some true) := by
  induction m generalizing n with
  | nil => rfl
  | cons b bs ih =>
    simp only [List.zipIdx_cons, List.length_cons, List.range'_succ]
    have htail : (List.range' (n + 1) bs.length).filter (fun i => (b :: bs)[i - n]? = some true) =
        (List.range' (n + 1) bs.length).filter (fun i => bs[i - (n + 1)]? = some true) := by
      apply List.filter_congr
      intro i hi
      have hi' := (List.mem_range'_1.mp hi).1
      have : i - n = (i - (n + 1)) + 1 := by omega
      rw [this, List.getElem?_cons_succ]
    cases b
    · rw [List.filter_cons_of_neg (by simp), List.filter_cons_of_neg (by simp), htail]
      exact ih (n + 1)
    · rw [List.filter_cons_of_pos (by simp), List.filter_cons_of_pos (by simp), htail, List.map_cons]
      rw [ih (n + 1)]

theorem nonzero_eq_filter (m : List Bool) :
    nonzero m = (List.range m.length).filter (fun i => m[i]? = some true) := by
  unfold nonzero
  rw [nonzero_aux m 0, ← List.range_eq_range']
  rfl

end C01T

/-! ### more on the index forms: `axis=`, `Ellipsis`, reading of `dictKey` -/

namespace Spec
/-- the tuple `take(ix, axis=d)` stands for: `ix` on dimension `d`, full slices elsewhere -/
def axisKey (dims : List String) (d : String) (ix : Ix) : List Ix :=
  dims.map fun d' => if d' = d then ix else fullIx
end Spec

namespace C01T

theorem all2_of_getElem {α β : Type} (R : α → β → Prop) : ∀ (l : List α) (m : List β)
    (hlen : m.length = l.length), (∀ i (h : i < l.length), R l[i] (m[i]'(by omega))) → All2 R l m := by
  intro l
  induction l with
  | nil =>
    intro m hlen _
    have : m = [] := List.length_eq_zero_iff.mp (by simpa using hlen)
    subst this
    exact All2.nil
  | cons x xs ih =>
    intro m hlen h
    cases m with
    | nil => simp at hlen
    | cons y ys =>
      refine All2.cons (h 0 (by simp)) (ih ys (by simpa using hlen) ?_)
      intro i hi
      exact h (i + 1) (by simp; omega)

theorem find?_unique {α : Type} (p : α → Bool) : ∀ (l : List α) (x : α), x ∈ l → p x = true →
    (∀ y ∈ l, p y = true → y = x) → l.find? p = some x := by
  intro l
  induction l with
  | nil => intro x hx; simp at hx
  | cons z zs ih =>
    intro x hx hpx hu
    by_cases hz : p z = true
    · have := hu z (by simp) hz
      subst this
      simp [hz]
    · simp only [List.mem_cons] at hx
      rcases hx with rfl | hx
      · exact absurd hpx hz
      · have hz' : p z = false := by simpa using hz
        simp only [List.find?_cons, hz']
        exact ih x hx hpx (fun y hy => hu y (by simp [hy]))

theorem nodup_map_inj {α β : Type} (f : α → β) : ∀ (l : List α), (l.map f).Nodup →
    ∀ x ∈ l, ∀ y ∈ l, f x = f y → x = y := by
  intro l
  induction l with
  | nil => intro _ x hx; simp at hx
  | cons z zs ih =>
    intro hn x hx y hy hxy
    rw [List.map_cons, List.nodup_cons] at hn
    simp only [List.mem_cons] at hx hy
    rcases hx with rfl | hx
    · rcases hy with rfl | hy
      · rfl
      · exact absurd (List.mem_map.mpr ⟨y, hy, hxy.symm⟩) hn.1
    · rcases hy with rfl | hy
      · exact absurd (List.mem_map.mpr ⟨x, hx, hxy⟩) hn.1
      · exact ih hn.2 x hx y hy hxy

theorem dictKey_getElem (dims : List String) (kv : List (String × Ix)) (j : Nat) (hj : j < dims.length) :
    (Spec.dictKey dims kv)[j]'(by simpa [Spec.dictKey] using hj) =
      ((kv.reverse.find? (·.1 == dims[j])).map (·.2)).getD fullIx := by
  simp [Spec.dictKey]
theorem dictKey_single (dims : List String) (d : String) (ix : Ix) :
    Spec.dictKey dims [(d, ix)] = Spec.axisKey dims d ix := by
  unfold Spec.dictKey Spec.axisKey
  apply List.map_congr_left
  intro d' _
  by_cases h : d' = d
  · subst h; simp
  · have : ¬ d = d' := fun h' => h h'.symm
    simp [h, this]

theorem axisKey_head (d : String) (rest : List String) (ix : Ix) (hn : (d :: rest).Nodup) :
    Spec.axisKey (d :: rest) d ix = ix :: List.replicate rest.length fullIx := by
  unfold Spec.axisKey
  rw [List.nodup_cons] at hn
  simp only [List.map_cons, if_true]
  congr 1
  apply List.ext_getElem
  · simp
  · intro i h1 h2
    simp only [List.getElem_map, List.getElem_replicate]
    have : rest[i]'(by simpa using h1) ≠ d := fun h => hn.1 (h ▸ List.getElem_mem _)
    simp [this]

theorem normalize_axisArg_ne (dims : List String) (ix : Ix) (k : DimKey) (hk : k ≠ .pos 0) :
    normalizeIndex dims (.axisArg ix k) = normalizeIndex dims (.dict [(k, ix)]) := by
  cases k with
  | name s => rfl
  | pos i =>
    cases i with
    | ofNat n =>
      cases n with
      | zero => exact absurd rfl hk
      | succ m => rfl
    | negSucc n => rfl

theorem normalize_axisArg (dims : List String) (ix : Ix) (k : DimKey) (d : String)
    (hd : Spec.KeyDim dims k d) (hnd : dims.Nodup) (hix : ix ≠ .ellipsis) :
    normalizeIndex dims (.axisArg ix k) = .ok (Spec.axisKey dims d ix) := by
  have hne : ∀ x ∈ Spec.axisKey dims d ix, x ≠ .ellipsis := by
    intro x hx
    unfold Spec.axisKey at hx
    obtain ⟨d', _, rfl⟩ := List.mem_map.mp hx
    split
    · exact hix
    · simp [fullIx]
  have hlen : (Spec.axisKey dims d ix).length = dims.length := by simp [Spec.axisKey]
  by_cases hk : k = .pos 0
  · subst hk
    have h0 : dims[0]? = some d := by
      rcases hd with ⟨_, h⟩ | ⟨h, _⟩
      · simpa using h
      · omega
    cases dims with
    | nil => simp at h0
    | cons d0 rest =>
      have : d0 = d := by simpa using h0
      subst this
      have h : normalizeIndex (d0 :: rest) (.axisArg ix (.pos 0)) =
          expandedIndexer [ix] (d0 :: rest).length := rfl
      rw [h, expandedIndexer_noEll [ix] _ (by simp) (by simpa using hix), axisKey_head d0 rest ix hnd]
      simp
  · rw [normalize_axisArg_ne dims ix k hk, normalize_dict,
      dictKV_ok dims [(k, ix)] [(d, ix)] (All2.cons ⟨hd, rfl⟩ All2.nil)]
    show expandedIndexer (Spec.dictKey dims [(d, ix)]) dims.length = _
    rw [dictKey_single, expandedIndexer_noEll _ _ (by omega) hne, hlen]
    simp

theorem optMapM_none_of_mem {α β : Type} (f : α → Option β) :
    ∀ (l : List α) (x : α), x ∈ l → f x = none → l.mapM f = none := by
  intro l
  induction l with
  | nil => intro x hx; simp at hx
  | cons y ys ih =>
    intro x hx hfx
    simp only [List.mapM_cons]
    simp only [List.mem_cons] at hx
    rcases hx with rfl | hx
    · rw [hfx]; rfl
    · rw [ih x hx hfx]
      cases f y <;> rfl

theorem intOf_int (i : Int) : Spec.intOf (.num (i : Rat)) = some i := by
  simp [Spec.intOf]

theorem go_append (key : List Ix) (n : Nat) (found : Bool) (pre rest : List Ix)
    (hpre : ∀ ix ∈ pre, ix ≠ .ellipsis) :
    expandedIndexer.go key n found (pre ++ rest) = pre ++ expandedIndexer.go key n found rest := by
  induction pre with
  | nil => rfl
  | cons k ks ih =>
    have hk := hpre k (by simp)
    have ih' := ih (fun i hi => hpre i (by simp [hi]))
    cases k with
    | ellipsis => exact absurd rfl hk
    | scalar v => simp [expandedIndexer.go, ih']
    | list vs => simp [expandedIndexer.go, ih']
    | mask m => simp [expandedIndexer.go, ih']
    | slice a b c => simp [expandedIndexer.go, ih']

/-- one `Ellipsis` stands for as many full slices as needed -/
theorem expandedIndexer_ellipsis (pre post : List Ix) (n : Nat)
    (hpre : ∀ ix ∈ pre, ix ≠ .ellipsis) (hpost : ∀ ix ∈ post, ix ≠ .ellipsis)
    (hlen : pre.length + post.length ≤ n) :
    expandedIndexer (pre ++ .ellipsis :: post) n =
      .ok (pre ++ List.replicate (n - pre.length - post.length) fullIx ++ post) := by
  unfold expandedIndexer
  simp only [go_append _ n false pre _ hpre, expandedIndexer.go, Bool.not_false, if_true,
    go_noEll _ n true post hpost, List.length_append, List.length_cons, List.length_replicate]
  have h1 : n + 1 - (pre.length + (post.length + 1)) = n - pre.length - post.length := by omega
  have h2 : ¬ (pre.length + (n - pre.length - post.length + post.length) > n) := by omega
  have h3 : n - (pre.length + (n - pre.length - post.length + post.length)) = 0 := by omega
  simp only [h1, h2, if_false, h3, List.replicate_zero, List.append_nil, List.append_assoc]

end C01T
end DimModel

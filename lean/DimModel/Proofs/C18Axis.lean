/-
Helper lemmas for the end-to-end theorems of C18: the closed form of `Lib.interpAxis` (N-d, labels
stored in any order), the sorting permutation of the nodes and its uniqueness, generic (any value type)
versions of the 1-D kernel theorems.
-/
import DimModel.Lib.Interp
import DimModel.Proofs.C17
import DimModel.Proofs.C18
namespace DimModel
namespace C18P
open Lib C17P

variable {α : Type}

/-! ### `interpAxis` = axis lookup, then a tail that only depends on the position -/

/-- the body of `interpAxis` once the position of the axis is known -/
def interpCore [Inhabited α] (lin : α → α → Rat → α) (a : DimArray α) (pos : Nat) (newL : List Label) (newKind : Kind)
    (left right : α) : Except Err (DimArray α) :=
  let ax := a.axes.getD pos default
  let o := if isIncreasingEq ax.labels then a else takeAxisPos a pos (argsortBy Label.le ax.labels)
  let oax := o.axes.getD pos default
  match labelsToRat oax.labels, labelsToRat newL with
  | some xs, some nx =>
    if xs.isEmpty then .error .value else
    let newax : Axis := { name := ax.name, labels := newL, kind := newKind }
    pure { axes := o.axes.set pos newax
           vals := { shape := o.vals.shape.set pos nx.length
                     get := fun j =>
                       let x := nx.getD (j.getD pos 0) 0
                       let ys := (List.range xs.length).map fun i => o.vals.get (j.set pos i)
                       interpAt lin xs ys default left right x }
           vkind := .f, attrs := o.attrs }
  | _, _ => .error .type

theorem interpAxis_eq_core [Inhabited α] (lin : α → α → Rat → α) (a : DimArray α) (k : DimKey) (newL : List Label)
    (nk : Kind) (left right : α) :
    interpAxis lin a k newL nk left right =
      (axisPos a.axes k >>= fun pos => interpCore lin a pos newL nk left right) := by
  unfold interpAxis axisPos
  cases k with
  | name s =>
    simp only [DimArray.dims, List.length_map]
    split <;> rfl
  | pos i =>
    simp only [DimArray.ndim]
    by_cases hi : i < 0
    · simp only [hi, if_true]
      split <;> rfl
    · simp only [hi, if_false]
      split <;> rfl

/-! ### the closed form of the result -/

/-- the order in which `_interp_internal_maybe_sort` presents the stored nodes: as they are when they are
already increasing, by the stable argsort otherwise -/
def sortPos (xs : List Rat) : List Nat :=
  if isIncreasingEq (xs.map Label.num) then List.range xs.length else argsortBy Label.le (xs.map Label.num)

/-- the result of `interp_axis` written with the nodes read through the list of positions `σ` -/
def interpResult [Inhabited α] (lin : α → α → Rat → α) (a : DimArray α) (pos : Nat) (name : String)
    (newL : List Label) (nk : Kind) (σ : List Nat) (xs nx : List Rat) (left right : α) : DimArray α :=
  { axes := a.axes.set pos { name := name, labels := newL, kind := nk }
    vals := { shape := a.vals.shape.set pos nx.length
              get := fun j =>
                interpAt lin (σ.map (fun p => xs.getD p 0)) (σ.map (fun p => a.vals.get (j.set pos p))) default
                  left right (nx.getD (j.getD pos 0) 0) }
    vkind := .f, attrs := a.attrs }

theorem labelsToRat_num (xs : List Rat) : labelsToRat (xs.map Label.num) = some xs := by
  unfold labelsToRat
  induction xs with
  | nil => rfl
  | cons x t ih =>
    simp only [List.map_cons, List.mapM_cons, Label.toRat?, ih]
    rfl

theorem getD_map_num (xs : List Rat) (p : Nat) (hp : p < xs.length) :
    (xs.map Label.num).getD p Label.none = Label.num (xs.getD p 0) := by
  simp only [List.getD_eq_getElem?_getD, List.getElem?_map, List.getElem?_eq_getElem hp, Option.map_some,
    Option.getD_some]

theorem sortPos_perm (xs : List Rat) : (sortPos xs).Perm (List.range xs.length) := by
  unfold sortPos
  split
  · exact List.Perm.refl _
  · have := argsortBy_perm Label.le (xs.map Label.num)
    rwa [List.length_map] at this

theorem sortPos_lt (xs : List Rat) (p : Nat) (hp : p ∈ sortPos xs) : p < xs.length := by
  have := (sortPos_perm xs).mem_iff.mp hp
  simpa using this

theorem sortPos_length (xs : List Rat) : (sortPos xs).length = xs.length := by
  simpa using (sortPos_perm xs).length_eq

theorem map_range_getD {β : Type} (l : List β) (d : β) : (List.range l.length).map (fun p => l.getD p d) = l := by
  apply List.ext_getElem?
  intro i
  rw [List.getElem?_map]
  rcases Nat.lt_or_ge i l.length with hi | hi
  · rw [List.getElem?_range hi]
    simp [List.getD_eq_getElem?_getD, hi]
  · rw [List.getElem?_eq_none (by simpa using hi), List.getElem?_eq_none hi]; rfl

/-- reading a cell of a positional take along `pos` at coordinate `i` = reading the source at `ps[i]` -/
theorem take_get_set (a : DimArray α) (pos : Nat) (ps : List Nat) (j : List Nat) (i : Nat) :
    (takeAxisPos a pos ps).vals.get (j.set pos i) = a.vals.get (j.set pos (ps.getD i 0)) := by
  show a.vals.get ((j.set pos i).set pos (ps.getD ((j.set pos i).getD pos 0) 0)) = _
  by_cases h : pos < j.length
  · have : (j.set pos i).getD pos 0 = i := by
      rw [List.getD_eq_getElem?_getD, List.getElem?_set_self h]; rfl
    rw [this, List.set_set]
  · have h' : j.length ≤ pos := Nat.le_of_not_lt h
    rw [List.set_eq_of_length_le h', List.set_eq_of_length_le h', List.set_eq_of_length_le h']

/-- the fibre of the sorted array, read in its own order, is the fibre of the input read through `σ` -/
theorem fibre_take (a : DimArray α) (pos : Nat) (σ : List Nat) (j : List Nat) :
    (List.range σ.length).map (fun i => (takeAxisPos a pos σ).vals.get (j.set pos i)) =
      σ.map (fun p => a.vals.get (j.set pos p)) := by
  apply List.ext_getElem
  · simp
  · intro i h1 h2
    have hi : i < σ.length := by simpa using h2
    simp only [List.getElem_map, List.getElem_range]
    rw [take_get_set a pos σ j i, List.getD_eq_getElem?_getD, List.getElem?_eq_getElem hi]
    rfl

theorem takeAxisPos_set_axes (a : DimArray α) (pos : Nat) (ps : List Nat) (newax : Axis) :
    (takeAxisPos a pos ps).axes.set pos newax = a.axes.set pos newax := by
  apply List.ext_getElem?
  intro i
  by_cases hi : pos = i
  · subst hi
    rw [List.getElem?_set, List.getElem?_set, takeAxisPos_length]
    simp
  · rw [List.getElem?_set_ne hi, List.getElem?_set_ne hi]
    exact takeAxisPos_others a pos ps i (fun e => hi e.symm)

theorem takeAxisPos_pos_labels (a : DimArray α) (pos : Nat) (ps : List Nat) (ax : Axis) (hax : a.axes[pos]? = some ax) :
    ((takeAxisPos a pos ps).axes.getD pos default).labels = ps.map (fun p => ax.labels.getD p Label.none) := by
  rw [List.getD_eq_getElem?_getD, takeAxisPos_axes_getElem?, hax]
  simp [axisTake]

theorem map_getD_num (xs : List Rat) (σ : List Nat) (hσ : ∀ p ∈ σ, p < xs.length) :
    σ.map (fun p => (xs.map Label.num).getD p Label.none) = (σ.map (fun p => xs.getD p 0)).map Label.num := by
  rw [List.map_map]
  apply List.map_congr_left
  intro p hp
  exact getD_map_num xs p (hσ p hp)

/-- **closed form of `interp_axis`** once the axis is found: the nodes and every fibre are read through
`sortPos` -/
theorem interpCore_closed [Inhabited α] (lin : α → α → Rat → α) (a : DimArray α) (pos : Nat) (ax : Axis)
    (xs nx : List Rat) (nk : Kind) (left right : α)
    (hax : a.axes[pos]? = some ax) (hxs : ax.labels = xs.map Label.num) (hne : xs ≠ []) :
    interpCore lin a pos (nx.map Label.num) nk left right =
      .ok (interpResult lin a pos ax.name (nx.map Label.num) nk (sortPos xs) xs nx left right) := by
  have hgetD : a.axes.getD pos default = ax := by
    rw [List.getD_eq_getElem?_getD, hax]; rfl
  unfold interpCore
  simp only [hgetD]
  by_cases hinc : isIncreasingEq ax.labels = true
  · have hσ : sortPos xs = List.range xs.length := by
      unfold sortPos; rw [← hxs, if_pos hinc]
    simp only [hinc, if_true, hgetD]
    rw [hxs, labelsToRat_num, labelsToRat_num]
    simp only []
    have he : xs.isEmpty = false := by cases xs with | nil => exact absurd rfl hne | cons _ _ => rfl
    simp only [he, Bool.false_eq_true, if_false, pure, Except.pure, interpResult, hσ, map_range_getD]
  · have hσ : sortPos xs = argsortBy Label.le (xs.map Label.num) := by
      unfold sortPos; rw [← hxs, if_neg hinc]
    simp only [hinc, Bool.false_eq_true, if_false]
    rw [takeAxisPos_pos_labels a pos _ ax hax, hxs, ← hσ, map_getD_num xs _ (sortPos_lt xs), labelsToRat_num,
      labelsToRat_num]
    simp only []
    have he : (List.map (fun p => xs.getD p 0) (sortPos xs)).isEmpty = false := by
      have : (List.map (fun p => xs.getD p 0) (sortPos xs)).length = xs.length := by
        rw [List.length_map, sortPos_length]
      cases h : List.map (fun p => xs.getD p 0) (sortPos xs) with
      | nil => rw [h] at this; cases xs with | nil => exact absurd rfl hne | cons _ _ => simp at this
      | cons _ _ => rfl
    simp only [he, Bool.false_eq_true, if_false, pure, Except.pure, interpResult, takeAxisPos_set_axes,
      takeAxisPos_shape, List.set_set, List.length_map, fibre_take]
    rfl

/-! ### the sorting permutation of the nodes -/

theorem chainB_pw {β : Type} (r : β → β → Bool)
    (htr : ∀ a b c, r a b = true → r b c = true → r a c = true) :
    ∀ l : List β, chainB r l = true → l.Pairwise (fun a b => r a b = true)
  | [] => fun _ => List.Pairwise.nil
  | [_] => fun _ => by simp
  | x :: y :: rest => fun h => by
    simp only [chainB, Bool.and_eq_true] at h
    have ih := chainB_pw r htr (y :: rest) h.2
    rw [List.pairwise_cons] at ih ⊢
    refine ⟨?_, List.pairwise_cons.mpr ih⟩
    intro z hz
    rcases List.mem_cons.mp hz with rfl | hz'
    · exact h.1
    · exact htr _ _ _ h.1 (ih.1 z hz')

theorem argsort_labels' (L : List Label) :
    (argsortBy Label.le L).map (fun p => L.getD p Label.none) = sortBy Label.le L := by
  rw [argsortBy_eq, sortBy_eq, List.map_map]
  apply List.map_congr_left
  intro p hp
  have := sortedPairs_mem Label.le hp
  simp only [Function.comp, List.getD_eq_getElem?_getD, this, Option.getD_some]

/-- the nodes read through `sortPos` are in non-decreasing order -/
theorem sortPos_le (xs : List Rat) : ((sortPos xs).map (fun p => xs.getD p 0)).Pairwise (· ≤ ·) := by
  have hA : (((sortPos xs).map (fun p => xs.getD p 0)).map Label.num).Pairwise (fun a b => Label.le a b = true) := by
    rw [← map_getD_num xs _ (sortPos_lt xs)]
    unfold sortPos
    split
    · rename_i hinc
      have := map_range_getD (xs.map Label.num) Label.none
      rw [List.length_map] at this
      rw [this]
      exact chainB_pw _ Label.le_trans _ hinc
    · rw [argsort_labels']
      exact sortBy_pairwise Label.le Label.le_trans Label.le_total _
  have := List.pairwise_map.mp hA
  exact this.imp (fun h => by simpa [Label.le] using h)

theorem sortPos_nodes_perm (xs : List Rat) : ((sortPos xs).map (fun p => xs.getD p 0)).Perm xs := by
  have := (sortPos_perm xs).map (fun p => xs.getD p 0)
  rwa [map_range_getD] at this

/-- ... strictly increasing when the stored nodes are distinct -/
theorem sortPos_lt_pairwise (xs : List Rat) (hnd : xs.Nodup) :
    ((sortPos xs).map (fun p => xs.getD p 0)).Pairwise (· < ·) := by
  have hn : ((sortPos xs).map (fun p => xs.getD p 0)).Nodup := (sortPos_nodes_perm xs).nodup_iff.mpr hnd
  exact ((sortPos_le xs).and hn).imp (fun h => lt_of_le_of_ne h.1 h.2)

/-- two lists of positions that are permutations of each other and both read the nodes in strictly
increasing order are equal -/
theorem sorting_unique (xs : List Rat) (σ τ : List Nat) (hp : σ.Perm τ)
    (hσ : (σ.map (fun p => xs.getD p 0)).Pairwise (· < ·))
    (hτ : (τ.map (fun p => xs.getD p 0)).Pairwise (· < ·)) : σ = τ := by
  refine List.Perm.eq_of_pairwise (le := fun p q => xs.getD p 0 < xs.getD q 0) ?_
    (List.pairwise_map.mp hσ) (List.pairwise_map.mp hτ) hp
  intro p q _ _ h1 h2
  exact absurd h1 (not_lt.mpr (le_of_lt h2))

/-! ### the 1-D kernel for any value type (the weights are never used at a node / outside the range) -/

theorem interpAt_node_gen (lin : α → α → Rat → α) (xs : List Rat) (ys : List α) (d left right : α) (k : Nat)
    (hk : k < xs.length) (hlen : ys.length = xs.length) (hinc : xs.Pairwise (· < ·)) :
    interpAt lin xs ys d left right (xs[k]) = ys[k]'(by omega) := by
  rw [interpAt_inrange _ _ _ _ _ _ _ (by omega) (pairwiseLt_le hinc _ _ (by omega))
    (pairwiseLt_le hinc _ _ (by omega))]
  by_cases hk1 : k + 1 < xs.length
  · rw [fracIndex_between hinc hk1 (le_refl _) (pairwiseLt_lt hinc _ _ (by omega))]
    simp only [sub_self, zero_div, beq_self_eq_true, if_true]
    exact getD_getElem _ _ (by omega)
  · rw [fracIndex_last hinc (by omega) (le_refl _)]
    simp only [beq_self_eq_true, if_true]
    exact getD_getElem _ _ (by omega)

theorem interpAt_left_gen (lin : α → α → Rat → α) (xs : List Rat) (ys : List α) (d left right : α) (x : Rat)
    (hne : xs ≠ []) (hx : ∀ y ∈ xs, x < y) : interpAt lin xs ys d left right x = left := by
  unfold interpAt
  cases xs with
  | nil => exact absurd rfl hne
  | cons lo t =>
    have hl : (lo :: t).getLast? = some ((lo :: t).getLast (by simp)) := List.getLast?_eq_some_getLast _
    rw [hl]
    simp only [List.head?_cons]
    rw [if_pos (hx lo (by simp))]

theorem interpAt_right_gen (lin : α → α → Rat → α) (xs : List Rat) (ys : List α) (d left right : α) (x : Rat)
    (hne : xs ≠ []) (hx : ∀ y ∈ xs, y < x) : interpAt lin xs ys d left right x = right := by
  unfold interpAt
  cases xs with
  | nil => exact absurd rfl hne
  | cons lo t =>
    have hl : (lo :: t).getLast? = some ((lo :: t).getLast (by simp)) := List.getLast?_eq_some_getLast _
    rw [hl]
    simp only [List.head?_cons]
    rw [if_neg (not_lt.mpr (le_of_lt (hx lo (by simp)))), if_pos (hx _ (List.getLast_mem _))]

/-! ### permuting the stored order -/

theorem getD_map_of_lt {β γ : Type} (f : β → γ) (l : List β) (q : Nat) (d : β) (e : γ) (hq : q < l.length) :
    (l.map f).getD q e = f (l.getD q d) := by
  simp only [List.getD_eq_getElem?_getD, List.getElem?_map, List.getElem?_eq_getElem hq, Option.map_some,
    Option.getD_some]

/-- the closed form does not see a permutation `ps` of the stored order -/
theorem interpResult_perm [Inhabited α] (lin : α → α → Rat → α) (a : DimArray α) (pos : Nat) (name : String)
    (newL : List Label) (nk : Kind) (xs nx : List Rat) (left right : α) (ps : List Nat)
    (hnd : xs.Nodup) (hps : ps.Perm (List.range xs.length)) :
    interpResult lin (takeAxisPos a pos ps) pos name newL nk (sortPos (ps.map (fun p => xs.getD p 0)))
        (ps.map (fun p => xs.getD p 0)) nx left right =
      interpResult lin a pos name newL nk (sortPos xs) xs nx left right := by
  have hlen : ps.length = xs.length := by simpa using hps.length_eq
  let xs' := ps.map (fun p => xs.getD p 0)
  have hxs'len : xs'.length = ps.length := List.length_map _
  have hperm' : xs'.Perm xs := by
    have := hps.map (fun p => xs.getD p 0)
    rwa [map_range_getD] at this
  have hnd' : xs'.Nodup := hperm'.nodup_iff.mpr hnd
  -- the composed list of positions
  have hτp : ((sortPos xs').map (fun q => ps.getD q 0)).Perm (sortPos xs) := by
    have h1 := (sortPos_perm xs').map (fun q => ps.getD q 0)
    rw [hxs'len, map_range_getD] at h1
    exact (h1.trans hps).trans (sortPos_perm xs).symm
  have hnodes : (sortPos xs').map (fun q => xs'.getD q 0) =
      ((sortPos xs').map (fun q => ps.getD q 0)).map (fun p => xs.getD p 0) := by
    rw [List.map_map]
    apply List.map_congr_left
    intro q hq
    have hq' : q < ps.length := hxs'len ▸ sortPos_lt xs' q hq
    exact getD_map_of_lt (fun p => xs.getD p 0) ps q 0 0 hq'
  have hτ : (sortPos xs').map (fun q => ps.getD q 0) = sortPos xs := by
    apply sorting_unique xs _ _ hτp
    · rw [← hnodes]; exact sortPos_lt_pairwise xs' hnd'
    · exact sortPos_lt_pairwise xs hnd
  unfold interpResult
  congr 1
  · exact takeAxisPos_set_axes a pos ps _
  · rw [takeAxisPos_shape, List.set_set]
    congr 1
    funext j
    have hfib : (sortPos xs').map (fun q => (takeAxisPos a pos ps).vals.get (j.set pos q)) =
        (sortPos xs).map (fun p => a.vals.get (j.set pos p)) := by
      rw [← hτ, List.map_map]
      apply List.map_congr_left
      intro q hq
      exact take_get_set a pos ps j q
    show interpAt lin ((sortPos xs').map (fun q => xs'.getD q 0)) _ default left right _ = _
    rw [hfib, hnodes, hτ]

/-! ### well-formedness of the result, in-range reads -/

theorem interpResult_wf [Inhabited α] (lin : α → α → Rat → α) (a : DimArray α) (pos : Nat) (ax : Axis)
    (nk : Kind) (σ : List Nat) (xs nx : List Rat) (left right : α) (hwf : a.WF) (hax : a.axes[pos]? = some ax) :
    (interpResult lin a pos ax.name (nx.map Label.num) nk σ xs nx left right).WF := by
  obtain ⟨hs, hn, hne⟩ := hwf
  have hlt : pos < a.axes.length := by
    rcases Nat.lt_or_ge pos a.axes.length with hl | hl
    · exact hl
    · rw [List.getElem?_eq_none hl] at hax; cases hax
  refine ⟨?_, ?_, ?_⟩
  · show a.vals.shape.set pos nx.length = (a.axes.set pos _).map (·.size)
    rw [hs, List.map_set]
    simp [Axis.size]
  · show ((a.axes.set pos _).map (·.name)).Nodup
    rw [List.map_set]
    have : (a.axes.map (·.name)).set pos ax.name = a.axes.map (·.name) := by
      apply List.ext_getElem?
      intro i
      rw [List.getElem?_set]
      by_cases hi : pos = i
      · subst hi
        have := List.getElem?_eq_getElem hlt
        rw [hax] at this
        injection this with this
        simp [hlt, this]
      · simp [hi]
    simp only [this]
    exact hn
  · intro ax' hm
    rcases List.mem_or_eq_of_mem_set hm with h | h
    · exact hne ax' h
    · rw [h]
      exact hne ax (List.mem_of_getElem? hax)

theorem inRange_set_set : ∀ (s j : List Nat) (pos m p n : Nat), InRange (s.set pos m) j → s[pos]? = some n → p < n →
    InRange s (j.set pos p)
  | [], _, _, _, _, _, _, hs, _ => by simp at hs
  | _ :: _, [], _, _, _, _, h, _, _ => by
    exfalso
    cases ‹Nat› <;> simp [InRange] at h
  | n' :: s, i :: j, 0, m, p, n, h, hs, hp => by
    simp only [List.getElem?_cons_zero, Option.some.injEq] at hs
    subst hs
    simp only [List.set_cons_zero, InRange] at h ⊢
    exact ⟨hp, h.2⟩
  | n' :: s, i :: j, pos + 1, m, p, n, h, hs, hp => by
    simp only [List.getElem?_cons_succ] at hs
    simp only [List.set_cons_succ, InRange] at h ⊢
    exact ⟨h.1, inRange_set_set s j pos m p n h.2 hs hp⟩

/-- where a position sits in a permutation of `0 .. n-1` -/
theorem perm_range_index {σ : List Nat} {n p : Nat} (hσ : σ.Perm (List.range n)) (hp : p < n) :
    ∃ u : Nat, σ[u]? = some p := by
  have : p ∈ σ := hσ.mem_iff.mpr (by simpa using hp)
  obtain ⟨u, hu, he⟩ := List.getElem_of_mem this
  exact ⟨u, by rw [List.getElem?_eq_getElem hu, he]⟩

/-! ### non-numeric labels -/

theorem labelsToRat_none_of_mem (L : List Label) (l : Label) (hl : l ∈ L) (hbad : l.toRat? = none) :
    labelsToRat L = none := by
  unfold labelsToRat
  induction L with
  | nil => cases hl
  | cons x t ih =>
    rw [List.mapM_cons]
    rcases List.mem_cons.mp hl with rfl | h
    · rw [hbad]; rfl
    · rw [ih h]
      cases x.toRat? <;> rfl

theorem interpCore_nonnumeric [Inhabited α] (lin : α → α → Rat → α) (a : DimArray α) (pos : Nat) (ax : Axis)
    (newL : List Label) (nk : Kind) (left right : α) (hax : a.axes[pos]? = some ax)
    (hbad : (∃ l ∈ ax.labels, l.toRat? = none) ∨ (∃ l ∈ newL, l.toRat? = none)) :
    interpCore lin a pos newL nk left right = .error .type := by
  have hgetD : a.axes.getD pos default = ax := by
    rw [List.getD_eq_getElem?_getD, hax]; rfl
  unfold interpCore
  simp only [hgetD]
  rcases hbad with ⟨l, hl, hb⟩ | ⟨l, hl, hb⟩
  · have : labelsToRat ((if isIncreasingEq ax.labels = true then a
        else takeAxisPos a pos (argsortBy Label.le ax.labels)).axes.getD pos default).labels = none := by
      split
      · rw [hgetD]; exact labelsToRat_none_of_mem _ l hl hb
      · rw [takeAxisPos_pos_labels a pos _ ax hax, argsort_labels']
        exact labelsToRat_none_of_mem _ l ((mem_sortBy Label.le).mpr hl) hb
    rw [this]
  · rw [labelsToRat_none_of_mem newL l hl hb]
    split <;> first | rfl | simp_all

end C18P
end DimModel


/-
Helper lemmas for C07: what `locate_many` (argsort + searchsorted + clip) returns for ANY requested value
(present or absent) on an axis stored in any order; sorted axes; raw one-step description of `reindex_axis`.
-/
import DimModel.Spec.C07
import DimModel.Proofs.C01
namespace DimModel
open Lib

variable {β : Type}

section generic
variable (le : β → β → Bool)

theorem argsortBy_length (l : List β) : (argsortBy le l).length = l.length := by
  simp [argsortBy_eq, sortedPairs_length]

theorem sortBy_length (l : List β) : (sortBy le l).length = l.length := by
  simp [sortBy_eq, sortedPairs_length]

/-- entry `p` of the argsort points at entry `p` of the sorted list -/
theorem getElem_argsortBy (l : List β) (p : Nat) (hp : p < l.length) :
    ∃ h : (argsortBy le l)[p]'(by rw [argsortBy_length]; exact hp) < l.length,
      l[(argsortBy le l)[p]'(by rw [argsortBy_length]; exact hp)] = (sortBy le l)[p]'(by rw [sortBy_length]; exact hp) := by
  have hp' : p < (sortedPairs le l).length := by rw [sortedPairs_length]; exact hp
  have hm := sortedPairs_mem le (List.getElem_mem hp')
  have e1 : (argsortBy le l)[p]'(by rw [argsortBy_length]; exact hp) = ((sortedPairs le l)[p]).2 := by
    simp [argsortBy_eq]
  have e2 : (sortBy le l)[p]'(by rw [sortBy_length]; exact hp) = ((sortedPairs le l)[p]).1 := by
    simp [sortBy_eq]
  have hlt : ((sortedPairs le l)[p]).2 < l.length := by
    by_cases h : ((sortedPairs le l)[p]).2 < l.length
    · exact h
    · simp [List.getElem?_eq_none (Nat.le_of_not_lt h)] at hm
  rw [List.getElem?_eq_getElem hlt] at hm
  refine ⟨by rw [e1]; exact hlt, ?_⟩
  rw [e2]
  simp only [e1]
  exact Option.some.inj hm

/-- `isort.take(i, mode='clip')` for an in-range or clipped index -/
theorem takeClip_argsortBy (l : List β) (hl : l ≠ []) (i : Nat) :
    ∃ h : takeClip (argsortBy le l) i < l.length,
      l[takeClip (argsortBy le l) i] =
        (sortBy le l)[min i (l.length - 1)]'(by
          have := List.length_pos_iff.mpr hl; rw [sortBy_length]; omega) := by
  have hpos : 0 < l.length := List.length_pos_iff.mpr hl
  have hm : min i (l.length - 1) < l.length := by omega
  obtain ⟨h, e⟩ := getElem_argsortBy le l (min i (l.length - 1)) hm
  have hc : takeClip (argsortBy le l) i = (argsortBy le l)[min i (l.length - 1)]'(by rw [argsortBy_length]; exact hm) := by
    unfold takeClip
    simp only [argsortBy_length]
    rw [List.getD_eq_getElem?_getD, List.getElem?_eq_getElem (by rw [argsortBy_length]; exact hm)]
    rfl
  refine ⟨by rw [hc]; exact h, ?_⟩
  simp only [hc]
  exact e

/-- **argsort + searchsorted + clip, any search predicate.**  For a list stored in any order, the
position returned for the search predicate `cond` holds the least element satisfying `cond` if there is
one, and the greatest element of the list otherwise. -/
theorem takeClip_findIdx_spec
    (htrans : ∀ a b c, le a b = true → le b c = true → le a c = true)
    (htot : ∀ a b, (le a b || le b a) = true)
    (cond : β → Bool) (l : List β) (hl : l ≠ []) :
    ∃ h : takeClip (argsortBy le l) ((sortBy le l).findIdx cond) < l.length,
      (cond l[takeClip (argsortBy le l) ((sortBy le l).findIdx cond)] = true ∧
          ∀ x ∈ l, cond x = true → le l[takeClip (argsortBy le l) ((sortBy le l).findIdx cond)] x = true) ∨
      ((∀ x ∈ l, cond x = false) ∧
          ∀ x ∈ l, le x l[takeClip (argsortBy le l) ((sortBy le l).findIdx cond)] = true) := by
  have hrefl : ∀ a, le a a = true := fun a => by simpa using htot a a
  have hpos : 0 < l.length := List.length_pos_iff.mpr hl
  obtain ⟨h, e⟩ := takeClip_argsortBy le l hl ((sortBy le l).findIdx cond)
  refine ⟨h, ?_⟩
  rw [e]
  have hpw := sortBy_pairwise le htrans htot l
  have hslen := sortBy_length le l
  by_cases hf : (sortBy le l).findIdx cond < (sortBy le l).length
  · left
    have hmin : min ((sortBy le l).findIdx cond) (l.length - 1) = (sortBy le l).findIdx cond := by omega
    simp only [hmin]
    refine ⟨List.findIdx_getElem (w := hf), ?_⟩
    intro x hx hc
    obtain ⟨q, hq, rfl⟩ := List.getElem_of_mem ((mem_sortBy le).mpr hx)
    have hpq : (sortBy le l).findIdx cond ≤ q := by
      by_cases hh : (sortBy le l).findIdx cond ≤ q
      · exact hh
      · exfalso
        have := List.not_of_lt_findIdx (p := cond) (xs := sortBy le l) (Nat.lt_of_not_le hh)
        simp [hc] at this
    rcases Nat.lt_or_eq_of_le hpq with hlt | heq
    · exact (List.pairwise_iff_getElem.mp hpw) _ q hf hq hlt
    · simp only [heq]; exact hrefl _
  · right
    have hfe : (sortBy le l).findIdx cond = (sortBy le l).length :=
      Nat.le_antisymm List.findIdx_le_length (Nat.le_of_not_lt hf)
    have hall := List.findIdx_eq_length.mp hfe
    have hmin : min ((sortBy le l).findIdx cond) (l.length - 1) = l.length - 1 := by omega
    simp only [hmin]
    refine ⟨fun x hx => hall x ((mem_sortBy le).mpr hx), ?_⟩
    intro x hx
    obtain ⟨q, hq, rfl⟩ := List.getElem_of_mem ((mem_sortBy le).mpr hx)
    have hql : q ≤ l.length - 1 := by omega
    rcases Nat.lt_or_eq_of_le hql with hlt | heq
    · exact (List.pairwise_iff_getElem.mp hpw) q _ hq (by omega) hlt
    · simp only [heq]; exact hrefl _

/-- a list that is already in order is its own sort, and its argsort is `0..n-1` -/
theorem sortedPairs_of_pairwise (l : List β) (hs : l.Pairwise (fun a b => le a b = true)) :
    sortedPairs le l = l.zipIdx := by
  unfold sortedPairs
  apply List.mergeSort_of_pairwise
  have : (l.zipIdx.map (·.1)).Pairwise (fun a b => le a b = true) := by
    rw [List.zipIdx_map_fst]; exact hs
  exact (List.pairwise_map).mp this

theorem sortBy_of_pairwise (l : List β) (hs : l.Pairwise (fun a b => le a b = true)) : sortBy le l = l := by
  rw [sortBy_eq, sortedPairs_of_pairwise le l hs]
  exact List.zipIdx_map_fst 0 l

theorem argsortBy_of_pairwise (l : List β) (hs : l.Pairwise (fun a b => le a b = true)) :
    argsortBy le l = List.range l.length := by
  rw [argsortBy_eq, sortedPairs_of_pairwise le l hs, List.range_eq_range']
  exact List.zipIdx_map_snd 0 l

theorem takeClip_range (n i : Nat) : takeClip (List.range n) i = min i (n - 1) := by
  unfold takeClip
  rw [List.length_range, List.getD_eq_getElem?_getD]
  by_cases hn : n = 0
  · subst hn; simp
  · have : min i (n - 1) < n := by omega
    simp [List.getElem?_range this]

end generic
/-! ### `locate_many` on labels, any side -/

theorem locateMany_length' (L vs : List Label) (s : Side) : (locateMany L vs s).length = vs.length := by
  simp [locateMany]

theorem searchSide_eq_findIdx (s : Side) (srt : List Label) (v : Label) :
    searchSide Label.lt s srt v = srt.findIdx (Spec.sideCond s v) := by
  cases s
  · simp only [searchSide, searchLeft]
    congr 1; funext x; simp [Label.lt, Spec.sideCond]
  · simp only [searchSide, searchRight]
    congr 1

theorem locateMany_getD (L vs : List Label) (s : Side) (k : Nat) (hk : k < vs.length) :
    (locateMany L vs s).getD k 0 =
      takeClip (argsortBy Label.le L) ((sortBy Label.le L).findIdx (Spec.sideCond s vs[k])) := by
  unfold locateMany
  simp [List.getD_eq_getElem?_getD, hk, searchSide_eq_findIdx]

/-- the neighbour is unique -/
theorem Spec.IsNeighbour.unique {s : Side} {L : List Label} {v w w' : Label}
    (h : Spec.IsNeighbour s L v w) (h' : Spec.IsNeighbour s L v w') : w = w' := by
  obtain ⟨hw, h⟩ := h
  obtain ⟨hw', h'⟩ := h'
  rcases h with ⟨hc, hmin⟩ | ⟨hnone, hmax⟩ <;> rcases h' with ⟨hc', hmin'⟩ | ⟨hnone', hmax'⟩
  · exact Label.le_antisymm _ _ (hmin w' hw' hc') (hmin' w hw hc)
  · have := hnone' w hw; rw [hc] at this; cases this
  · have := hnone w' hw'; rw [hc'] at this; cases this
  · exact Label.le_antisymm _ _ (hmax' w hw) (hmax w' hw')

/-- **`locate_many`, any side, any stored order, any requested value**: the returned position is in range
and holds the neighbour label. -/
theorem locateMany_neighbour (L vs : List Label) (s : Side) (hL : L ≠ []) (k : Nat) (hk : k < vs.length) :
    ∃ h : (locateMany L vs s).getD k 0 < L.length,
      Spec.IsNeighbour s L vs[k] L[(locateMany L vs s).getD k 0] := by
  rw [locateMany_getD L vs s k hk]
  obtain ⟨h, hsp⟩ := takeClip_findIdx_spec Label.le Label.le_trans Label.le_total (Spec.sideCond s vs[k]) L hL
  exact ⟨h, List.getElem_mem h, hsp⟩

/-- on an axis already stored in increasing order `locate_many` is plain `searchsorted` + clip -/
theorem locateMany_sorted (L vs : List Label) (s : Side)
    (hs : L.Pairwise (fun a b => Label.le a b = true)) :
    locateMany L vs s = vs.map (fun v => min (searchSide Label.lt s L v) (L.length - 1)) := by
  unfold locateMany
  simp only [sortBy_of_pairwise Label.le L hs, argsortBy_of_pairwise Label.le L hs, takeClip_range]

/-! ### the mismatch mask, any side -/

theorem mismatchMask_length (L : List Label) (idx : List Nat) (newL : List Label) (h : idx.length = newL.length) :
    (mismatchMask L idx newL).length = newL.length := by
  simp [mismatchMask, h]

theorem mismatchMask_getD (L newL : List Label) (s : Side) (k : Nat) (hk : k < newL.length) :
    (mismatchMask L (locateMany L newL s) newL).getD k false =
      (L.getD ((locateMany L newL s).getD k 0) Label.none != newL[k]) := by
  unfold mismatchMask
  have h1 : k < (locateMany L newL s).length := by simp [locateMany]; exact hk
  have hz : k < ((locateMany L newL s).zip newL).length := by
    rw [List.length_zip]; omega
  rw [List.getD_eq_getElem?_getD, List.getD_eq_getElem?_getD (l := locateMany L newL s)]
  rw [List.getElem?_map, List.getElem?_eq_getElem hz, List.getElem?_eq_getElem h1]
  simp only [Option.map_some, Option.getD_some, List.getElem_zip]

theorem getD_false_of_not_any (m : List Bool) (h : ¬ (m.any id = true)) (k : Nat) : m.getD k false = false := by
  rw [List.getD_eq_getElem?_getD]
  by_cases hk : k < m.length
  · rw [List.getElem?_eq_getElem hk]
    simp only [Option.getD_some]
    cases hb : m[k]
    · rfl
    · exfalso; apply h
      rw [List.any_eq_true]
      exact ⟨m[k], List.getElem_mem hk, by simp [hb]⟩
  · simp [List.getElem?_eq_none (Nat.le_of_not_lt hk)]

/-! ### raw description of one `reindex_axis` step (no hypothesis on the labels) -/

/-- values after one `reindex_axis` step, in terms of the raw `locate_many` positions and mask -/
def rxStep {α} (vals : NDArr α) (pos : Nat) (L newL : List Label) (fill : α) (method : Option Side) : NDArr α :=
  { shape := vals.shape.set pos newL.length
    get := fun j =>
      if (method.isNone && (mismatchMask L (locateMany L newL (method.getD .left)) newL).getD (j.getD pos 0) false) = true
      then fill
      else vals.get (j.set pos ((locateMany L newL (method.getD .left)).getD (j.getD pos 0) 0)) }

theorem reindexAxis_vals_raw {α : Type} (a : DimArray α) (axis : DimKey) (pos : Nat) (newL : List Label)
    (newKind fillKind : Kind) (fill : α) (raiseErr : Bool) (method : Option Side) (r : DimArray α)
    (hpos : axisPos a.axes axis = .ok pos)
    (hr : reindexAxis a axis newL newKind fill fillKind raiseErr method = .ok r) :
    r.vals = rxStep a.vals pos (a.axes.getD pos default).labels newL fill method := by
  unfold reindexAxis at hr
  simp only [hpos, bind, Except.bind] at hr
  unfold rxStep
  split at hr
  · cases hr
  · split at hr
    · split at hr
      · cases hr
      · simp only [pure, Except.pure] at hr
        cases hr
        cases method with
        | none => simp [NDArr.putWhere, takeAxisPos, NDArr.takeAxis, locateMany_length']
        | some s => simp [takeAxisPos, NDArr.takeAxis, locateMany_length']
    · rename_i hany
      simp only [pure, Except.pure] at hr
      cases hr
      have := getD_false_of_not_any _ hany
      simp only [List.getD_eq_getElem?_getD] at this
      simp [takeAxisPos, NDArr.takeAxis, this, locateMany_length']

/-- the step does not fail for want of labels -/
theorem reindexAxis_nonempty {α : Type} (a : DimArray α) (axis : DimKey) (pos : Nat) (newL : List Label)
    (newKind fillKind : Kind) (fill : α) (raiseErr : Bool) (method : Option Side) (r : DimArray α)
    (hpos : axisPos a.axes axis = .ok pos)
    (hr : reindexAxis a axis newL newKind fill fillKind raiseErr method = .ok r) :
    (a.axes.getD pos default).labels ≠ [] ∨ newL = [] := by
  unfold reindexAxis at hr
  simp only [hpos, bind, Except.bind] at hr
  split at hr
  · cases hr
  · rename_i h
    by_cases h1 : (a.axes.getD pos default).labels = []
    · right
      by_cases h2 : newL = []
      · exact h2
      · exfalso; apply h
        rw [h1]
        cases newL with
        | nil => exact absurd rfl h2
        | cons _ _ => rfl
    · exact Or.inl h1

/-! ### raw description of the axes after one step -/

theorem axisPos_lt {axes : List Axis} {k : DimKey} {pos : Nat} (h : axisPos axes k = .ok pos) : pos < axes.length := by
  unfold axisPos at h
  cases k with
  | name s =>
    simp only at h
    split at h
    · cases h; assumption
    · cases h
  | pos i =>
    simp only at h
    by_cases hi : i < 0
    · simp only [hi, if_true] at h
      split at h
      · cases h
      · rename_i hc
        cases h
        simp only [Bool.or_eq_true, decide_eq_true_eq, not_or] at hc
        omega
    · simp only [hi, if_false] at h
      split at h
      · cases h
      · rename_i hc
        cases h
        simp only [Bool.or_eq_true, decide_eq_true_eq, not_or] at hc
        omega

/-- `axisPos` only looks at the names (and the number) of the axes -/
theorem axisPos_congr {axes axes' : List Axis} (h : axes'.map (·.name) = axes.map (·.name)) (k : DimKey) :
    axisPos axes' k = axisPos axes k := by
  have hl : axes'.length = axes.length := by simpa using congrArg List.length h
  unfold axisPos
  cases k with
  | name s => simp only [h, hl]
  | pos i => simp only [hl]

theorem mapIdx_ite_eq_set {β : Type} (l : List β) (pos : Nat) (c : β) :
    l.mapIdx (fun i x => if (i == pos) = true then c else x) = l.set pos c := by
  apply List.ext_getElem?
  intro i
  rw [List.getElem?_mapIdx, List.getElem?_set]
  by_cases h : pos = i
  · subst h
    by_cases hl : pos < l.length
    · simp [hl]
    · simp [hl]
  · have : ¬ i = pos := fun e => h e.symm
    cases l[i]? <;> simp [h, this]

theorem mapIdx_ite_fun_eq_set {β : Type} [Inhabited β] (l : List β) (pos : Nat) (g : β → β) :
    l.mapIdx (fun i x => if (i == pos) = true then g x else x) = l.set pos (g (l.getD pos default)) := by
  apply List.ext_getElem?
  intro i
  rw [List.getElem?_mapIdx, List.getElem?_set]
  by_cases h : pos = i
  · subst h
    by_cases hl : pos < l.length
    · simp [hl, List.getD_eq_getElem?_getD]
    · simp [hl]
  · have : ¬ i = pos := fun e => h e.symm
    cases l[i]? <;> simp [h, this]

/-- where the mask is clear, the located position holds the requested label -/
theorem getD_of_mask_false (L newL : List Label) (s : Side) (k : Nat) (hk : k < newL.length)
    (hm : (mismatchMask L (locateMany L newL s) newL).getD k false = false) :
    L.getD ((locateMany L newL s).getD k 0) Label.none = newL[k] := by
  rw [mismatchMask_getD L newL s k hk] at hm
  simpa using hm

theorem relabel_hit (L newL : List Label) (s : Side) :
    newL.zipIdx.map (fun (x : Label × Nat) =>
      if (mismatchMask L (locateMany L newL s) newL).getD x.2 false = true then x.1
      else L.getD ((locateMany L newL s).getD x.2 0) Label.none) = newL := by
  apply List.ext_getElem
  · simp
  · intro k h1 h2
    simp only [List.getElem_map, List.getElem_zipIdx, Nat.zero_add]
    split
    · rfl
    · rename_i hm
      exact getD_of_mask_false L newL s k h2 (by simpa using hm)

theorem relabel_nohit (L newL : List Label) (s : Side)
    (h : ¬ ((mismatchMask L (locateMany L newL s) newL).any id = true)) :
    (locateMany L newL s).map (fun p => L.getD p Label.none) = newL := by
  apply List.ext_getElem
  · simp [locateMany_length']
  · intro k h1 h2
    have := getD_of_mask_false L newL s k h2 (getD_false_of_not_any _ h k)
    have hk' : k < (locateMany L newL s).length := by rw [locateMany_length']; exact h2
    simp only [List.getElem_map]
    rw [← this, List.getD_eq_getElem?_getD (l := locateMany L newL s), List.getElem?_eq_getElem hk']
    rfl

/-- **axes, kind and metadata after one `reindex_axis` step (any method, no hypothesis on labels).** -/
theorem reindexAxis_axes_raw {α : Type} (a : DimArray α) (axis : DimKey) (pos : Nat) (newL : List Label)
    (newKind fillKind : Kind) (fill : α) (raiseErr : Bool) (method : Option Side) (r : DimArray α)
    (hpos : axisPos a.axes axis = .ok pos)
    (hr : reindexAxis a axis newL newKind fill fillKind raiseErr method = .ok r) :
    ∃ nax : Axis, r.axes = a.axes.set pos nax ∧ nax.name = (a.axes.getD pos default).name ∧ nax.labels = newL ∧
      nax.attrs = (a.axes.getD pos default).attrs ∧ nax.members = [] ∧
      nax.kind = (if (mismatchMask (a.axes.getD pos default).labels
          (locateMany (a.axes.getD pos default).labels newL (method.getD .left)) newL).any id = true
        then maybeCastKind (a.axes.getD pos default).kind newKind else (a.axes.getD pos default).kind) ∧
      r.vkind = (if (method.isNone && (mismatchMask (a.axes.getD pos default).labels
          (locateMany (a.axes.getD pos default).labels newL (method.getD .left)) newL).any id) = true
        then maybeCastKind a.vkind fillKind else a.vkind) ∧
      r.attrs = a.attrs := by
  unfold reindexAxis at hr
  simp only [hpos, bind, Except.bind] at hr
  split at hr
  · cases hr
  · split at hr
    · rename_i hany
      split at hr
      · cases hr
      · simp only [pure, Except.pure] at hr
        cases hr
        refine ⟨_, mapIdx_ite_eq_set _ _ _, rfl, relabel_hit _ _ _, rfl, rfl, ?_, ?_, rfl⟩
        · simp only [hany, if_true]
        · simp only [hany, Bool.and_true]
    · rename_i hany
      simp only [pure, Except.pure] at hr
      cases hr
      refine ⟨_, mapIdx_ite_fun_eq_set _ _ _, rfl, relabel_nohit _ _ _ hany, rfl, rfl, ?_, ?_, rfl⟩
      · simp only [hany]; rfl
      · have : (mismatchMask (a.axes.getD pos default).labels
          (locateMany (a.axes.getD pos default).labels newL (method.getD .left)) newL).any id = false := by
          simpa using hany
        simp only [this, Bool.and_false, Bool.false_eq_true, if_false]; rfl

/-- a step keeps the names of all axes (hence `axisPos` answers the same) -/
theorem reindexAxis_names {α : Type} (a : DimArray α) (axis : DimKey) (pos : Nat) (newL : List Label)
    (newKind fillKind : Kind) (fill : α) (raiseErr : Bool) (method : Option Side) (r : DimArray α)
    (hpos : axisPos a.axes axis = .ok pos)
    (hr : reindexAxis a axis newL newKind fill fillKind raiseErr method = .ok r) :
    r.axes.map (·.name) = a.axes.map (·.name) := by
  obtain ⟨nax, hax, hname, _⟩ := reindexAxis_axes_raw a axis pos newL newKind fillKind fill raiseErr method r hpos hr
  have hnl := axisPos_lt hpos
  rw [hax]
  apply List.ext_getElem?
  intro i
  simp only [List.getElem?_map, List.getElem?_set]
  by_cases h : pos = i
  · subst h
    simp only [if_true, hnl]
    rw [List.getElem?_eq_getElem hnl]
    simp only [Option.map_some]
    rw [hname]
    simp [List.getD_eq_getElem?_getD, List.getElem?_eq_getElem hnl]
  · simp [h]

/-- the reindexed axis of the result -/
theorem reindexAxis_getD_pos {α : Type} (a : DimArray α) (axis : DimKey) (pos : Nat) (newL : List Label)
    (newKind fillKind : Kind) (fill : α) (raiseErr : Bool) (method : Option Side) (r : DimArray α)
    (hpos : axisPos a.axes axis = .ok pos)
    (hr : reindexAxis a axis newL newKind fill fillKind raiseErr method = .ok r) :
    (r.axes.getD pos default).labels = newL ∧ (r.axes.getD pos default).name = (a.axes.getD pos default).name ∧
    (r.axes.getD pos default).attrs = (a.axes.getD pos default).attrs := by
  obtain ⟨nax, hax, hname, hlab, hattr, _⟩ :=
    reindexAxis_axes_raw a axis pos newL newKind fillKind fill raiseErr method r hpos hr
  have hlt := axisPos_lt hpos
  have hg : r.axes.getD pos default = nax := by
    rw [hax]; simp [List.getD_eq_getElem?_getD, hlt]
  rw [hg]; exact ⟨hlab, hname, hattr⟩

/-- without `raise_error`, a step succeeds as soon as the axis exists and has a label to take -/
theorem reindexAxis_succeeds {α : Type} (a : DimArray α) (axis : DimKey) (pos : Nat) (newL : List Label)
    (newKind fillKind : Kind) (fill : α) (method : Option Side)
    (hpos : axisPos a.axes axis = .ok pos)
    (hL : (a.axes.getD pos default).labels ≠ [] ∨ newL = []) :
    ∃ r, reindexAxis a axis newL newKind fill fillKind false method = .ok r := by
  unfold reindexAxis
  simp only [hpos, bind, Except.bind]
  have hemp : ((a.axes.getD pos default).labels.isEmpty && !newL.isEmpty) = false := by
    rcases hL with h | h
    · cases hl : (a.axes.getD pos default).labels with
      | nil => exact absurd hl h
      | cons _ _ => simp
    · subst h; simp
  simp only [hemp, Bool.false_eq_true, if_false]
  split
  · exact ⟨_, rfl⟩
  · exact ⟨_, rfl⟩

end DimModel

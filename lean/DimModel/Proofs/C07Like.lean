/-
Helper lemmas for C07: `reindex_like` as the composition of the per-axis steps (raw form, no hypothesis on
the labels), by induction on the number of processed axes.
-/
import DimModel.Proofs.C07
namespace DimModel
open Lib

open Spec (tmplFor)

/-- raw: is coordinate `x` along axis `i` filled by the step for axis `i` -/
def rlMiss1 (axes tmpl : List Axis) (method : Option Side) (i x : Nat) : Bool :=
  match tmplFor axes tmpl i with
  | some t => method.isNone &&
      (mismatchMask (axes.getD i default).labels
        (locateMany (axes.getD i default).labels t.labels (method.getD .left)) t.labels).getD x false
  | none => false

/-- raw: source coordinate along axis `i` for result coordinate `x` -/
def rlIdx1 (axes tmpl : List Axis) (method : Option Side) (i x : Nat) : Nat :=
  match tmplFor axes tmpl i with
  | some t => (locateMany (axes.getD i default).labels t.labels (method.getD .left)).getD x 0
  | none => x

def rlMiss (axes tmpl : List Axis) (method : Option Side) (n : Nat) (j : List Nat) : Bool :=
  (List.range n).any fun i => rlMiss1 axes tmpl method i (j.getD i 0)

def rlIdx (axes tmpl : List Axis) (method : Option Side) (n : Nat) (j : List Nat) : List Nat :=
  j.mapIdx fun i x => if i < n then rlIdx1 axes tmpl method i x else x

theorem rlMiss_succ (axes tmpl : List Axis) (method : Option Side) (n : Nat) (j : List Nat) :
    rlMiss axes tmpl method (n + 1) j = (rlMiss axes tmpl method n j || rlMiss1 axes tmpl method n (j.getD n 0)) := by
  simp [rlMiss, List.range_succ, List.any_append]

theorem rlMiss_set (axes tmpl : List Axis) (method : Option Side) (n : Nat) (j : List Nat) (x : Nat) :
    rlMiss axes tmpl method n (j.set n x) = rlMiss axes tmpl method n j := by
  unfold rlMiss
  have hg : ∀ i, i < n → (j.set n x).getD i 0 = j.getD i 0 := by
    intro i hi
    have : n ≠ i := by omega
    simp [List.getD_eq_getElem?_getD, this]
  rw [Bool.eq_iff_iff]
  simp only [List.any_eq_true, List.mem_range]
  constructor
  · rintro ⟨i, hi, h⟩; exact ⟨i, hi, by rw [← hg i hi]; exact h⟩
  · rintro ⟨i, hi, h⟩; exact ⟨i, hi, by rw [hg i hi]; exact h⟩

theorem rlIdx_set (axes tmpl : List Axis) (method : Option Side) (n : Nat) (j : List Nat) :
    rlIdx axes tmpl method n (j.set n (rlIdx1 axes tmpl method n (j.getD n 0))) = rlIdx axes tmpl method (n + 1) j := by
  unfold rlIdx
  apply List.ext_getElem?
  intro i
  rw [List.getElem?_mapIdx, List.getElem?_mapIdx, List.getElem?_set]
  by_cases h : n = i
  · subst h
    by_cases hl : n < j.length
    · simp [hl, List.getD_eq_getElem?_getD]
    · simp [hl]
  · simp only [h, if_false]
    cases j[i]? with
    | none => rfl
    | some y =>
      simp only [Option.map_some]
      by_cases h1 : i < n
      · have : i < n + 1 := by omega
        simp [h1, this]
      · have : ¬ i < n + 1 := by omega
        simp [h1, this]

theorem rlIdx_succ_none (axes tmpl : List Axis) (method : Option Side) (n : Nat) (j : List Nat)
    (h : tmplFor axes tmpl n = none) : rlIdx axes tmpl method (n + 1) j = rlIdx axes tmpl method n j := by
  rw [← rlIdx_set]
  have : rlIdx1 axes tmpl method n (j.getD n 0) = j.getD n 0 := by simp [rlIdx1, h]
  rw [this]
  congr 1
  apply List.ext_getElem?
  intro i
  rw [List.getElem?_set]
  by_cases hi : n = i
  · subst hi
    by_cases hl : n < j.length
    · simp [hl, List.getD_eq_getElem?_getD]
    · simp [hl]
  · simp [hi]

theorem rlMiss_succ_none (axes tmpl : List Axis) (method : Option Side) (n : Nat) (j : List Nat)
    (h : tmplFor axes tmpl n = none) : rlMiss axes tmpl method (n + 1) j = rlMiss axes tmpl method n j := by
  rw [rlMiss_succ]
  simp [rlMiss1, h]

/-- raw: does the step for axis `i` find a requested label that is absent -/
def rlHit1 (axes tmpl : List Axis) (method : Option Side) (i : Nat) : Bool :=
  match tmplFor axes tmpl i with
  | some t => (mismatchMask (axes.getD i default).labels
        (locateMany (axes.getD i default).labels t.labels (method.getD .left)) t.labels).any id
  | none => false

theorem maybeCastKind_idem (a v : Kind) : maybeCastKind (maybeCastKind a v) v = maybeCastKind a v := by
  cases a <;> cases v <;> rfl

/-- one iteration of the loop of `reindex_like` -/
def rlStep {α} (tmpl : List Axis) (fill : α) (fillKind : Kind) (raiseErr : Bool) (method : Option Side)
    (obj : DimArray α) (ax : Axis) : Except Err (DimArray α) :=
  match tmpl.find? (·.name == ax.name) with
  | some t => reindexAxis obj (.name ax.name) t.labels t.kind fill fillKind raiseErr method
  | none => pure obj

theorem reindexLike_eq {α} (a : DimArray α) (tmpl : List Axis) (fill : α) (fillKind : Kind) (raiseErr : Bool)
    (method : Option Side) :
    reindexLike a tmpl fill fillKind raiseErr method = a.axes.foldlM (rlStep tmpl fill fillKind raiseErr method) a := rfl

/-- the loop invariant after `n` axes -/
def RLInv {α} (a : DimArray α) (tmpl : List Axis) (fill : α) (fillKind : Kind) (method : Option Side) (n : Nat)
    (obj : DimArray α) : Prop :=
  obj.axes.map (·.name) = a.axes.map (·.name) ∧
  (∀ i, n ≤ i → obj.axes[i]? = a.axes[i]?) ∧
  (∀ i, i < n → match tmplFor a.axes tmpl i with
      | none => obj.axes[i]? = a.axes[i]?
      | some t => (obj.axes.getD i default).labels = t.labels ∧
                  (obj.axes.getD i default).attrs = (a.axes.getD i default).attrs ∧
                  ((a.axes.getD i default).labels ≠ [] ∨ t.labels = [])) ∧
  (∀ j, obj.vals.get j = if rlMiss a.axes tmpl method n j = true then fill else a.vals.get (rlIdx a.axes tmpl method n j)) ∧
  obj.vkind = (if (method.isNone && (List.range n).any (rlHit1 a.axes tmpl method)) = true
      then maybeCastKind a.vkind fillKind else a.vkind) ∧
  obj.attrs = a.attrs

theorem axisPos_name_getElem {axes : List Axis} (hn : (axes.map (·.name)).Nodup) (n : Nat) (h : n < axes.length) :
    axisPos axes (.name axes[n].name) = .ok n := by
  unfold axisPos
  simp only
  have hm : n < (axes.map (·.name)).length := by simpa using h
  have := hn.idxOf_getElem n hm
  simp only [List.getElem_map] at this
  rw [this]
  simp [h]

theorem getD_eq_of_getElem?_eq {β : Type} [Inhabited β] {l l' : List β} {i : Nat} (h : l[i]? = l'[i]?) :
    l.getD i default = l'.getD i default := by
  simp [List.getD_eq_getElem?_getD, h]

theorem RLInv_step {α} (a : DimArray α) (tmpl : List Axis) (fill : α) (fillKind : Kind) (raiseErr : Bool)
    (method : Option Side) (hnames : (a.axes.map (·.name)).Nodup) (n : Nat) (hn : n < a.axes.length)
    (obj obj' : DimArray α) (hinv : RLInv a tmpl fill fillKind method n obj)
    (hstep : rlStep tmpl fill fillKind raiseErr method obj a.axes[n] = .ok obj') :
    RLInv a tmpl fill fillKind method (n + 1) obj' := by
  obtain ⟨hnm, hge, hlt, hval, hvk, hat⟩ := hinv
  have haxn : a.axes.getD n default = a.axes[n] := by
    simp [List.getD_eq_getElem?_getD, List.getElem?_eq_getElem hn]
  have htf : tmplFor a.axes tmpl n = tmpl.find? (·.name == a.axes[n].name) := by
    unfold tmplFor; rw [haxn]
  unfold rlStep at hstep
  cases hf : tmpl.find? (·.name == a.axes[n].name) with
  | none =>
    rw [hf] at hstep htf
    simp only [pure, Except.pure] at hstep
    cases hstep
    refine ⟨hnm, fun i hi => hge i (by omega), ?_, ?_, ?_, hat⟩
    · intro i hi
      rcases Nat.lt_or_eq_of_le (Nat.le_of_lt_succ hi) with h | h
      · exact hlt i h
      · subst h; rw [htf]; exact hge i (Nat.le_refl _)
    · intro j
      rw [rlMiss_succ_none _ _ _ _ _ htf, rlIdx_succ_none _ _ _ _ _ htf]
      exact hval j
    · rw [hvk]
      have : rlHit1 a.axes tmpl method n = false := by simp [rlHit1, htf]
      simp [List.range_succ, List.any_append, this]
  | some t =>
    rw [hf] at hstep htf
    simp only at hstep
    have hpos : axisPos obj.axes (.name a.axes[n].name) = .ok n := by
      rw [axisPos_congr hnm]; exact axisPos_name_getElem hnames n hn
    have hobjn : obj.axes.getD n default = a.axes.getD n default := getD_eq_of_getElem?_eq (hge n (Nat.le_refl _))
    have hv := reindexAxis_vals_raw obj _ n t.labels t.kind fillKind fill raiseErr method obj' hpos hstep
    have hne := reindexAxis_nonempty obj _ n t.labels t.kind fillKind fill raiseErr method obj' hpos hstep
    obtain ⟨nax, hax, hname, hlab, hattr, _, _, hvk', hat'⟩ :=
      reindexAxis_axes_raw obj _ n t.labels t.kind fillKind fill raiseErr method obj' hpos hstep
    rw [hobjn] at hv hne hname hattr hvk'
    have hnl : n < obj.axes.length := axisPos_lt hpos
    refine ⟨?_, ?_, ?_, ?_, ?_, by rw [hat', hat]⟩
    · rw [hax, ← hnm]
      apply List.ext_getElem?
      intro i
      simp only [List.getElem?_map, List.getElem?_set]
      by_cases h : n = i
      · subst h
        simp only [if_true, hnl]
        rw [List.getElem?_eq_getElem hnl]
        simp only [Option.map_some]
        rw [hname, ← hobjn]
        simp [List.getD_eq_getElem?_getD, List.getElem?_eq_getElem hnl]
      · simp [h]
    · intro i hi
      rw [hax, List.getElem?_set]
      have : n ≠ i := by omega
      simp only [this, if_false]
      exact hge i (by omega)
    · intro i hi
      rcases Nat.lt_or_eq_of_le (Nat.le_of_lt_succ hi) with h | h
      · have hne' : n ≠ i := by omega
        have e : obj'.axes[i]? = obj.axes[i]? := by rw [hax, List.getElem?_set]; simp [hne']
        have e' := getD_eq_of_getElem?_eq e
        have := hlt i h
        cases htfi : tmplFor a.axes tmpl i with
        | none => rw [htfi] at this; simp only; rw [e]; exact this
        | some t' => rw [htfi] at this; simp only; rw [e']; exact this
      · subst h
        rw [htf]
        simp only
        have : obj'.axes.getD i default = nax := by
          rw [hax]; simp [List.getD_eq_getElem?_getD, hnl]
        rw [this]
        exact ⟨hlab, hattr, hne⟩
    · intro j
      rw [hv]
      unfold rxStep
      simp only
      rw [rlMiss_succ, ← rlIdx_set]
      have e1 : rlMiss1 a.axes tmpl method n (j.getD n 0) = (method.isNone &&
          (mismatchMask (a.axes.getD n default).labels
            (locateMany (a.axes.getD n default).labels t.labels (method.getD .left)) t.labels).getD (j.getD n 0) false) := by
        simp only [rlMiss1, htf]
      have e2 : rlIdx1 a.axes tmpl method n (j.getD n 0) =
          (locateMany (a.axes.getD n default).labels t.labels (method.getD .left)).getD (j.getD n 0) 0 := by
        simp only [rlIdx1, htf]
      rw [← e1, ← e2, hval, rlMiss_set]
      cases rlMiss1 a.axes tmpl method n (j.getD n 0) <;> cases rlMiss a.axes tmpl method n j <;> simp
    · rw [hvk', hvk]
      have e3 : rlHit1 a.axes tmpl method n = (mismatchMask (a.axes.getD n default).labels
            (locateMany (a.axes.getD n default).labels t.labels (method.getD .left)) t.labels).any id := by
        simp only [rlHit1, htf]
      rw [← e3]
      simp only [List.range_succ, List.any_append, List.any_cons, List.any_nil, Bool.or_false]
      cases method.isNone <;> cases (List.range n).any (rlHit1 a.axes tmpl method) <;>
        cases rlHit1 a.axes tmpl method n <;> simp [maybeCastKind_idem]

theorem RLInv_zero {α} (a : DimArray α) (tmpl : List Axis) (fill : α) (fillKind : Kind) (method : Option Side) :
    RLInv a tmpl fill fillKind method 0 a := by
  refine ⟨rfl, fun _ _ => rfl, fun i hi => absurd hi (Nat.not_lt_zero i), ?_, ?_, rfl⟩
  · intro j
    have : rlIdx a.axes tmpl method 0 j = j := by
      unfold rlIdx
      apply List.ext_getElem?
      intro i
      rw [List.getElem?_mapIdx]
      cases j[i]? <;> simp
    simp [rlMiss, this]
  · simp

theorem RLInv_fold {α} (a : DimArray α) (tmpl : List Axis) (fill : α) (fillKind : Kind) (raiseErr : Bool)
    (method : Option Side) (hnames : (a.axes.map (·.name)).Nodup) :
    ∀ (n : Nat), n ≤ a.axes.length → ∀ obj : DimArray α,
      (a.axes.take n).foldlM (rlStep tmpl fill fillKind raiseErr method) a = .ok obj →
      RLInv a tmpl fill fillKind method n obj := by
  intro n
  induction n with
  | zero =>
    intro _ obj h
    simp only [List.take_zero, List.foldlM_nil, pure, Except.pure] at h
    cases h
    exact RLInv_zero a tmpl fill fillKind method
  | succ n ih =>
    intro hn obj h
    have hn' : n < a.axes.length := by omega
    rw [← List.take_append_getElem hn', List.foldlM_append] at h
    cases hmid : (a.axes.take n).foldlM (rlStep tmpl fill fillKind raiseErr method) a with
    | error e => rw [hmid] at h; simp [bind, Except.bind] at h
    | ok mid =>
      rw [hmid] at h
      simp only [bind, Except.bind, List.foldlM_cons, List.foldlM_nil] at h
      have hinv := ih (by omega) mid hmid
      cases hs : rlStep tmpl fill fillKind raiseErr method mid a.axes[n] with
      | error e => rw [hs] at h; cases h
      | ok o =>
        rw [hs] at h
        simp only [pure, Except.pure] at h
        cases h
        exact RLInv_step a tmpl fill fillKind raiseErr method hnames n hn' mid obj hinv hs

/-- **`reindex_like`, raw closed form**: the loop invariant holds for the result with all axes processed. -/
theorem reindexLike_inv {α} (a : DimArray α) (tmpl : List Axis) (fill : α) (fillKind : Kind) (raiseErr : Bool)
    (method : Option Side) (hnames : (a.axes.map (·.name)).Nodup) (r : DimArray α)
    (hr : reindexLike a tmpl fill fillKind raiseErr method = .ok r) :
    RLInv a tmpl fill fillKind method a.axes.length r := by
  rw [reindexLike_eq] at hr
  apply RLInv_fold a tmpl fill fillKind raiseErr method hnames a.axes.length (Nat.le_refl _) r
  rw [List.take_length]; exact hr

/-- without `raise_error`, `reindex_like` succeeds as soon as every shared axis has a label to take -/
theorem reindexLike_succeeds {α} (a : DimArray α) (tmpl : List Axis) (fill : α) (fillKind : Kind)
    (method : Option Side) (hnames : (a.axes.map (·.name)).Nodup)
    (hL : ∀ i t, i < a.axes.length → tmplFor a.axes tmpl i = some t →
      (a.axes.getD i default).labels ≠ [] ∨ t.labels = []) :
    ∃ r, reindexLike a tmpl fill fillKind false method = .ok r := by
  rw [reindexLike_eq]
  have key : ∀ n, n ≤ a.axes.length → ∃ obj,
      (a.axes.take n).foldlM (rlStep tmpl fill fillKind false method) a = .ok obj := by
    intro n
    induction n with
    | zero => intro _; exact ⟨a, rfl⟩
    | succ n ih =>
      intro hn
      have hn' : n < a.axes.length := by omega
      obtain ⟨mid, hmid⟩ := ih (by omega)
      have hinv := RLInv_fold a tmpl fill fillKind false method hnames n (by omega) mid hmid
      rw [← List.take_append_getElem hn', List.foldlM_append, hmid]
      simp only [bind, Except.bind, List.foldlM_cons, List.foldlM_nil]
      have hstep : ∃ o, rlStep tmpl fill fillKind false method mid a.axes[n] = .ok o := by
        have haxn : a.axes.getD n default = a.axes[n] := by
          simp [List.getD_eq_getElem?_getD, List.getElem?_eq_getElem hn']
        have htf : tmplFor a.axes tmpl n = tmpl.find? (·.name == a.axes[n].name) := by
          unfold tmplFor; rw [haxn]
        unfold rlStep
        cases hf : tmpl.find? (·.name == a.axes[n].name) with
        | none => exact ⟨mid, rfl⟩
        | some t =>
          simp only
          obtain ⟨hnm, hge, _⟩ := hinv
          have hpos : axisPos mid.axes (.name a.axes[n].name) = .ok n := by
            rw [axisPos_congr hnm]; exact axisPos_name_getElem hnames n hn'
          have hobjn : mid.axes.getD n default = a.axes.getD n default :=
            getD_eq_of_getElem?_eq (hge n (Nat.le_refl _))
          apply reindexAxis_succeeds mid _ n t.labels t.kind fillKind fill method hpos
          rw [hobjn]
          exact hL n t hn' (by rw [htf, hf])
      obtain ⟨o, ho⟩ := hstep
      rw [ho]
      exact ⟨o, rfl⟩
  have := key a.axes.length (Nat.le_refl _)
  rwa [List.take_length] at this

end DimModel

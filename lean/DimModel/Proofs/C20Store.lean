/-
C20 (extension) - helper lemmas for the per-file round trip `readFile (storeDs ds)`: without indices every position
index is the full range, so every variable is `store` followed by an orthogonal get at all positions, and the
`Dataset.__setitem__` fold re-assembles the Dataset it was written from.
-/
import DimModel.Lib.OnDiskMulti
import DimModel.Proofs.C20
import DimModel.Proofs.C14
namespace DimModel
namespace OnDisk
open Lib DSV

/-- the position index of a read without `indices`: every position of the dimension -/
def fullPix (a : Axis) : PosIx := PosIx.list (List.range a.size)

/-- what comes back for a stored variable when the file is read without indices -/
def reload {α} (d : α) (a : DimArray α) : DimArray α :=
  { axes := a.axes, vals := ncGet d (store a).shape (store a).cells (a.axes.map fullPix), vkind := a.vkind, attrs := a.attrs }

theorem outerShape_full : ∀ (axes : List Axis), outerShape (axes.map fullPix) = axes.map (·.size)
  | [] => rfl
  | a :: axes => by
    simp only [List.map_cons, fullPix, outerShape, List.length_range]
    congr 1
    exact outerShape_full axes

theorem expandIx_full : ∀ (axes : List Axis) (c : List Nat), InRange (axes.map (·.size)) c →
    expandIx (axes.map fullPix) c = c
  | [], [], _ => rfl
  | [], _ :: _, h => by simp [InRange] at h
  | a :: axes, [], h => by simp [InRange] at h
  | a :: axes, k :: c, h => by
    simp only [List.map_cons, InRange] at h
    simp only [List.map_cons, fullPix, expandIx]
    rw [List.getD_eq_getElem?_getD, List.getElem?_range h.1]
    have := expandIx_full axes c h.2
    rw [this]
    rfl

theorem axesOrtho_full : ∀ (axes : List Axis), (∀ ax ∈ axes, ax.members = []) →
    axesOrtho axes (axes.map fullPix) = axes
  | [], _ => rfl
  | a :: axes, h => by
    have ih := axesOrtho_full axes (fun ax hax => h ax (List.mem_cons_of_mem _ hax))
    unfold axesOrtho at ih ⊢
    simp only [List.map_cons, List.zip_cons_cons, List.filterMap_cons, fullPix]
    have hm := h a (by simp)
    rw [axis_size_plain a hm, axisSelect_range a hm]
    rw [ih]

/-- the positions handed to a variable whose axes are the file's: all of them -/
theorem vpix_full (AX : List Axis) (hnd : (AX.map (·.name)).Nodup) (axes : List Axis) (hsub : ∀ ax ∈ axes, ax ∈ AX) :
    (axes.map fun a => ((AX.zip (AX.map fullPix)).find? (·.1.name == a.name)).elim (PosIx.list (List.range a.size)) (·.2))
      = axes.map fullPix := by
  apply List.map_congr_left
  intro a ha
  rw [zip_map_self, List.find?_map]
  have : AX.find? ((fun (x : Axis × PosIx) => x.1.name == a.name) ∘ fun a => (a, fullPix a)) = some a :=
    find?_name hnd (hsub a ha) rfl
  rw [this]
  rfl

/-- the variable read back without indices -/
theorem readVarAt_store {α} (d : α) (AX : List Axis) (hnd : (AX.map (·.name)).Nodup) (a : DimArray α)
    (hsub : ∀ ax ∈ a.axes, ax ∈ AX) (hplain : ∀ ax ∈ AX, ax.members = []) :
    readVarAt d AX (AX.map fullPix) (store a) = reload d a := by
  unfold readVarAt
  have hv : (store a).axes = a.axes := rfl
  simp only [hv]
  rw [vpix_full AX hnd a.axes hsub, axesOrtho_full a.axes (fun ax h => hplain ax (hsub ax h))]
  rfl

/-- ... is the array that was written, cell by cell -/
theorem reload_cells {α} (d : α) (a : DimArray α) (hwf : a.vals.shape = a.axes.map (·.size)) :
    (reload d a).vals.shape = a.vals.shape ∧
      ∀ j, InRange (reload d a).vals.shape j → (reload d a).vals.get j = a.vals.get j := by
  have hsh : (reload d a).vals.shape = a.axes.map (·.size) := outerShape_full a.axes
  refine ⟨by rw [hsh, hwf], ?_⟩
  intro j hj
  rw [hsh] at hj
  show ((allIdx a.vals.shape).map a.vals.get).getD (ravel (a.axes.map (·.size)) (expandIx (a.axes.map fullPix) j)) d = _
  rw [expandIx_full a.axes j hj, ← hwf]
  exact allIdx_map_getD a.vals.shape j a.vals.get d (hwf ▸ hj)

/-- `__setitem__` of a new key whose axes are the Dataset's own: the variable is appended, nothing else changes -/
theorem setItem_shared {α} (data : Ds α) (hnd : (data.axes.map (·.name)).Nodup) (k : String) (v : DimArray α)
    (hsub : ∀ ax ∈ v.axes, ax ∈ data.axes) (hk : k ∉ data.keys) :
    setItem data k v = .ok { data with vars := data.vars ++ [(k, v)] } := by
  unfold setItem
  have hfind : ∀ ax ∈ v.axes, data.axes.find? (fun e => e.name == ax.name) = some ax :=
    fun ax h => find?_name hnd (hsub ax h) rfl
  rw [if_neg (by
    rw [List.any_eq_true]
    rintro ⟨ax, h, hb⟩
    rw [hfind ax h] at hb
    simp [axisEq] at hb)]
  simp only []
  have hnew : (v.axes.filter fun ax => !(data.dims.contains ax.name)) = [] := by
    rw [List.filter_eq_nil_iff]
    intro ax h
    have : ax.name ∈ data.dims := List.mem_map_of_mem (hsub ax h)
    simp [this]
  rw [hnew, List.append_nil]
  have hmap : (v.axes.map fun ax => (data.axes.find? (·.name == ax.name)).getD ax) = v.axes := by
    conv => rhs; rw [← List.map_id v.axes]
    apply List.map_congr_left
    intro ax h
    rw [hfind ax h]
    rfl
  rw [hmap]
  have hfil : data.vars.filter (·.1 != k) = data.vars := by
    rw [List.filter_eq_self]
    intro kv h
    have : kv.1 ≠ k := fun he => hk (he ▸ List.mem_map_of_mem (f := (·.1)) h)
    simpa using this
  rw [hfil]

theorem find?_fst {β : Type} : ∀ {l : List (String × β)}, (l.map (·.1)).Nodup → ∀ {kv : String × β},
    kv ∈ l → l.find? (fun x => x.1 == kv.1) = some kv
  | [], _, _, h => by cases h
  | x :: l, hnd, kv, h => by
    simp only [List.map_cons, List.nodup_cons] at hnd
    rcases List.mem_cons.1 h with h1 | h2
    · subst h1
      simp
    · have hne : x.1 ≠ kv.1 := fun he => hnd.1 (he ▸ List.mem_map_of_mem (f := (·.1)) h2)
      have hb : (x.1 == kv.1) = false := by simpa using hne
      rw [List.find?_cons, hb]
      exact find?_fst hnd.2 h2

/-- one pass of the loop of `DatasetOnDisk.read`: look the name up in the file, read it, `__setitem__` -/
def readStep {α} (F : List (String × DiskVar α)) (g : DiskVar α → DimArray α) (data : Ds α) (nm : String) : Except Err (Ds α) :=
  match F.find? (·.1 == nm) with
  | none => .error .key
  | some kv => setItem data nm (g kv.2)

/-- the loop of `DatasetOnDisk.read` over variables whose (re-read) axes are the Dataset's own -/
theorem readFold {α} (F : List (String × DiskVar α)) (g : DiskVar α → DimArray α) (AX : List Axis)
    (hnd : (AX.map (·.name)).Nodup) (hg : ∀ kv ∈ F, ∀ ax ∈ (g kv.2).axes, ax ∈ AX) :
    ∀ (L : List (String × DiskVar α)) (data : Ds α),
      (∀ kv ∈ L, kv ∈ F ∧ F.find? (fun x => x.1 == kv.1) = some kv) → data.axes = AX → (L.map (·.1)).Nodup →
      (∀ kv ∈ L, kv.1 ∉ data.keys) →
      (L.map (·.1)).foldlM (readStep F g) data
        = Except.ok { data with vars := data.vars ++ L.map fun (kv : String × DiskVar α) => (kv.1, g kv.2) }
  | [], data, _, _, _, _ => by simp [pure, Except.pure]
  | kv :: L, data, hL, hax, hndL, hfresh => by
    simp only [List.map_cons, List.foldlM_cons]
    obtain ⟨hmem, hf⟩ := hL kv (by simp)
    have hstep : readStep F g data kv.1 = setItem data kv.1 (g kv.2) := by
      unfold readStep
      rw [hf]
    rw [hstep]
    rw [setItem_shared data (hax ▸ hnd) kv.1 (g kv.2) (fun ax h => hax ▸ hg kv hmem ax h) (hfresh kv (by simp))]
    simp only [bind, Except.bind]
    simp only [List.map_cons, List.nodup_cons] at hndL
    have ih := readFold F g AX hnd hg L { data with vars := data.vars ++ [(kv.1, g kv.2)] }
      (fun x hx => hL x (List.mem_cons_of_mem _ hx)) hax hndL.2 (by
        intro x hx hin
        simp only [Ds.keys, List.map_append, List.map_cons, List.map_nil, List.mem_append, List.mem_singleton] at hin
        rcases hin with hin | hin
        · exact hfresh x (List.mem_cons_of_mem _ hx) hin
        · exact hndL.1 (hin ▸ List.mem_map_of_mem (f := (·.1)) hx))
    rw [ih]
    simp only [List.append_assoc, List.singleton_append]

theorem filterMap_eq_self {β : Type} (f : β → Option β) : ∀ (l : List β), (∀ a ∈ l, f a = some a) → l.filterMap f = l
  | [], _ => rfl
  | a :: l, h => by
    rw [List.filterMap_cons, h a (by simp)]
    simp only []
    rw [filterMap_eq_self f l (fun x hx => h x (List.mem_cons_of_mem _ hx))]

/-- re-ordering the axes "to match the input" when they already are the input's -/
theorem filterMap_find_self (AX : List Axis) (hnd : (AX.map (·.name)).Nodup) :
    ((AX.map (·.name)).filterMap fun dim => AX.find? (·.name == dim)) = AX := by
  rw [List.filterMap_map]
  have : ∀ a ∈ AX, ((fun dim => AX.find? (fun x => x.name == dim)) ∘ fun (x : Axis) => x.name) a = some a :=
    fun a ha => find?_name hnd ha rfl
  exact filterMap_eq_self _ AX this

end OnDisk
end DimModel

/-
Helper lemmas for C17: stability of the argsort, `nonzero` as a filter of positions, positional
selection of slices (`takeAxisPos`) on well-formed arrays, NaN counting for `dropna`.
-/
import DimModel.Lib.Missing
import DimModel.Proofs.Order
import DimModel.Proofs.C20
namespace DimModel
namespace C17P
open Lib
open List (Sublist)

/-! ### stability of `argsortBy` (generic in the Bool relation, so also for key-sorting) -/

section stable
variable {β : Type}

theorem nodup_no_swap {γ : Type} {l : List γ} {a b : γ} (hn : l.Nodup) (h1 : Sublist [a, b] l) (h2 : Sublist [b, a] l) :
    False := by
  induction l with
  | nil => cases h1
  | cons c t ih =>
    have hc : c ∉ t := (List.nodup_cons.mp hn).1
    have hn' : t.Nodup := (List.nodup_cons.mp hn).2
    cases h1 with
    | cons _ h =>
      cases h2 with
      | cons _ h' => exact ih hn' h h'
      | cons_cons _ h' => exact hc (h.subset (by simp))
    | cons_cons _ h =>
      cases h2 with
      | cons _ h' => exact hc (h'.subset (by simp))
      | cons_cons _ h' => exact hc (h'.subset (by simp))

theorem zipIdx_pair_sublist (l : List β) (n : Nat) (p q : β × Nat) (hp : p ∈ l.zipIdx n) (hq : q ∈ l.zipIdx n)
    (hlt : p.2 < q.2) : Sublist [p, q] (l.zipIdx n) := by
  induction l generalizing n with
  | nil => simp at hp
  | cons x xs ih =>
    simp only [List.zipIdx_cons, List.mem_cons] at hp hq ⊢
    rcases hp with rfl | hp
    · rcases hq with rfl | hq
      · omega
      · exact List.Sublist.cons_cons _ (List.singleton_sublist.mpr hq)
    · rcases hq with rfl | hq
      · have := List.le_snd_of_mem_zipIdx hp
        simp only at hlt
        omega
      · exact List.Sublist.cons _ (ih (n + 1) hp hq)

theorem zipIdx_nodup (l : List β) (n : Nat) : (l.zipIdx n).Nodup := by
  have h : ((l.zipIdx n).map Prod.snd).Nodup := by
    rw [List.zipIdx_map_snd]; exact List.nodup_range'
  exact List.Pairwise.of_map Prod.snd (fun a b hab heq => hab (by rw [heq])) h

theorem zipIdx_eq_of_snd (l : List β) (p q : β × Nat) (hp : p ∈ l.zipIdx) (hq : q ∈ l.zipIdx)
    (h : p.2 = q.2) : p = q := by
  have h1 := List.mem_zipIdx_iff_getElem?.mp hp
  have h2 := List.mem_zipIdx_iff_getElem?.mp hq
  rw [h] at h1
  have := h1.symm.trans h2
  injection this with this
  exact Prod.ext this h

/-- the sorted (value, position) pairs are in ascending order and, among equal-ranking values,
in ascending original position: the sort is stable -/
theorem sortedPairs_stable (le : β → β → Bool)
    (htrans : ∀ a b c, le a b = true → le b c = true → le a c = true)
    (htot : ∀ a b, (le a b || le b a) = true) (l : List β) :
    (sortedPairs le l).Pairwise (fun a b => le a.1 b.1 = true ∧ (le b.1 a.1 = true → a.2 < b.2)) := by
  rw [List.pairwise_iff_forall_sublist]
  intro a b hab
  have hpw := sortedPairs_pairwise le htrans htot l
  refine ⟨List.pairwise_iff_forall_sublist.mp hpw hab, ?_⟩
  intro hba
  have hnd : (sortedPairs le l).Nodup := (sortedPairs_perm le l).nodup_iff.mpr (zipIdx_nodup l 0)
  have ha : a ∈ l.zipIdx := (sortedPairs_perm le l).mem_iff.mp (hab.subset (by simp))
  have hb : b ∈ l.zipIdx := (sortedPairs_perm le l).mem_iff.mp (hab.subset (by simp))
  rcases Nat.lt_trichotomy a.2 b.2 with h | h | h
  · exact h
  · exfalso
    have hab' : a = b := zipIdx_eq_of_snd l a b ha hb h
    subst hab'
    have := List.pairwise_iff_forall_sublist.mp hnd hab
    exact this rfl
  · exfalso
    have hsub : Sublist [b, a] l.zipIdx := zipIdx_pair_sublist l 0 b a hb ha h
    have hsub' : Sublist [b, a] (sortedPairs le l) :=
      List.pair_sublist_mergeSort (le := fun a b : β × Nat => le a.1 b.1)
        (fun a b c => htrans a.1 b.1 c.1) (fun a b => htot a.1 b.1) hba hsub
    exact nodup_no_swap hnd hab hsub'

theorem argsortBy_perm (le : β → β → Bool) (l : List β) : (argsortBy le l).Perm (List.range l.length) := by
  rw [argsortBy_eq]
  have := (sortedPairs_perm le l).map Prod.snd
  rwa [List.zipIdx_map_snd, ← List.range_eq_range'] at this

theorem argsortBy_length (le : β → β → Bool) (l : List β) : (argsortBy le l).length = l.length := by
  simpa using (argsortBy_perm le l).length_eq

theorem argsortBy_lt (le : β → β → Bool) (l : List β) (p : Nat) (hp : p ∈ argsortBy le l) : p < l.length := by
  have := (argsortBy_perm le l).mem_iff.mp hp
  simpa using this

/-- `argsortBy` is the stable sorting permutation: positions listed by ascending value and, for
equal-ranking values, by ascending original position -/
theorem argsortBy_stable (le : β → β → Bool)
    (htrans : ∀ a b c, le a b = true → le b c = true → le a c = true)
    (htot : ∀ a b, (le a b || le b a) = true) (l : List β)
    (i j p q : Nat) (x y : β) (hij : i < j)
    (hp : (argsortBy le l)[i]? = some p) (hq : (argsortBy le l)[j]? = some q)
    (hx : l[p]? = some x) (hy : l[q]? = some y) :
    le x y = true ∧ (le y x = true → p < q) := by
  rw [argsortBy_eq, List.getElem?_map] at hp hq
  cases hsi : (sortedPairs le l)[i]? with
  | none => rw [hsi] at hp; cases hp
  | some a =>
    cases hsj : (sortedPairs le l)[j]? with
    | none => rw [hsj] at hq; cases hq
    | some b =>
      rw [hsi] at hp; rw [hsj] at hq
      simp only [Option.map_some, Option.some.injEq] at hp hq
      obtain ⟨hi, hai⟩ := List.getElem?_eq_some_iff.mp hsi
      obtain ⟨hj, hbj⟩ := List.getElem?_eq_some_iff.mp hsj
      have hst := List.pairwise_iff_getElem.mp (sortedPairs_stable le htrans htot l) i j hi hj hij
      rw [hai, hbj] at hst
      have ha := sortedPairs_mem le (List.mem_of_getElem? hsi)
      have hb := sortedPairs_mem le (List.mem_of_getElem? hsj)
      rw [hp, hx] at ha
      rw [hq, hy] at hb
      injection ha with ha
      injection hb with hb
      rw [← ha, ← hb, hp, hq] at hst
      exact hst

/-- a list that is already in order is its own argsort -/
theorem argsortBy_of_pairwise (le : β → β → Bool) (l : List β) (h : l.Pairwise (fun a b => le a b = true)) :
    argsortBy le l = List.range l.length := by
  unfold argsortBy
  have hz : (l.zipIdx).Pairwise (fun a b : β × Nat => le a.1 b.1 = true) := by
    have : (l.zipIdx.map Prod.fst).Pairwise (fun a b => le a b = true) := by
      rw [List.zipIdx_map_fst]; exact h
    exact List.pairwise_map.mp this
  rw [List.mergeSort_of_pairwise hz]
  show List.map Prod.snd l.zipIdx = _
  rw [List.zipIdx_map_snd, ← List.range_eq_range']

end stable

/-! ### `nonzero` lists, in ascending order, the positions where the mask is true -/

theorem nonzero_aux (m : List Bool) (n : Nat) :
    ((m.zipIdx n).filter (·.1)).map (·.2) = (List.range' n m.length).filter (fun i => m[i - n]? = some true) := by
  induction m generalizing n with
  | nil => rfl
  | cons b bs ih =>
    simp only [List.zipIdx_cons, List.length_cons, List.range'_succ]
    have htail : (List.range' (n + 1) bs.length).filter (fun i => (b :: bs)[i - n]? = some true) =
        (List.range' (n + 1) bs.length).filter (fun i => bs[i - (n + 1)]? = some true) := by
      apply List.filter_congr
      intro i hi
      have hi' := (List.mem_range'_1.mp hi).1
      have : i - n = (i - (n + 1)) + 1 := by omega
      rw [this, List.getElem?_cons_succ]
    cases b
    · rw [List.filter_cons_of_neg (by simp), List.filter_cons_of_neg (by simp), htail]
      exact ih (n + 1)
    · rw [List.filter_cons_of_pos (by simp), List.filter_cons_of_pos (by simp), htail, List.map_cons]
      rw [ih (n + 1)]

theorem nonzero_eq_filter (m : List Bool) :
    nonzero m = (List.range m.length).filter (fun i => m[i]? = some true) := by
  unfold nonzero
  rw [nonzero_aux m 0, ← List.range_eq_range']
  rfl

/-- the mask computed position by position -/
theorem nonzero_map_range (n : Nat) (f : Nat → Bool) :
    nonzero ((List.range n).map f) = (List.range n).filter f := by
  rw [nonzero_eq_filter, List.length_map, List.length_range]
  apply List.filter_congr
  intro i hi
  have hi' : i < n := List.mem_range.mp hi
  rw [List.getElem?_map, List.getElem?_range hi']
  cases hf : f i <;> simp [hf]

theorem mem_nonzero {m : List Bool} {i : Nat} : i ∈ nonzero m ↔ m[i]? = some true := by
  rw [nonzero_eq_filter, List.mem_filter, List.mem_range]
  constructor
  · intro h; simpa using h.2
  · intro h
    refine ⟨?_, by simpa using h⟩
    rcases Nat.lt_or_ge i m.length with hl | hl
    · exact hl
    · rw [List.getElem?_eq_none hl] at h; cases h

theorem nonzero_pairwise (m : List Bool) : (nonzero m).Pairwise (· < ·) := by
  rw [nonzero_eq_filter]
  exact List.Pairwise.filter _ List.pairwise_lt_range

/-! ### positional selection of slices -/

section take
variable {α : Type}

theorem axisTake_size (ax : Axis) (ps : List Nat) : (axisTake ax ps).size = ps.length := by
  simp [Axis.size, axisTake]

theorem takeAxisPos_axes_getElem? (a : DimArray α) (pos : Nat) (ps : List Nat) (i : Nat) :
    (takeAxisPos a pos ps).axes[i]? = (a.axes[i]?).map (fun ax => if i = pos then axisTake ax ps else ax) := by
  unfold takeAxisPos
  simp only [List.getElem?_mapIdx]
  cases a.axes[i]? with
  | none => rfl
  | some ax =>
    by_cases h : i = pos
    · simp [h]
    · have : (i == pos) = false := by simpa using h
      simp [this, h]

theorem takeAxisPos_names (a : DimArray α) (pos : Nat) (ps : List Nat) :
    (takeAxisPos a pos ps).axes.map (·.name) = a.axes.map (·.name) := by
  apply List.ext_getElem?
  intro i
  rw [List.getElem?_map, List.getElem?_map, takeAxisPos_axes_getElem?]
  cases a.axes[i]? with
  | none => rfl
  | some ax =>
    by_cases h : i = pos
    · simp [h, axisTake]
    · simp [h]

theorem takeAxisPos_length (a : DimArray α) (pos : Nat) (ps : List Nat) :
    (takeAxisPos a pos ps).axes.length = a.axes.length := by
  have := congrArg List.length (takeAxisPos_names a pos ps)
  simpa using this

theorem takeAxisPos_shape (a : DimArray α) (pos : Nat) (ps : List Nat) :
    (takeAxisPos a pos ps).vals.shape = a.vals.shape.set pos ps.length := rfl

theorem takeAxisPos_wf (a : DimArray α) (pos : Nat) (ps : List Nat) (hwf : a.WF) :
    (takeAxisPos a pos ps).WF := by
  obtain ⟨hs, hn, hne⟩ := hwf
  refine ⟨?_, ?_, ?_⟩
  · rw [takeAxisPos_shape, hs]
    apply List.ext_getElem?
    intro i
    rw [List.getElem?_map, takeAxisPos_axes_getElem?, List.getElem?_set, List.getElem?_map]
    by_cases h : pos = i
    · subst h
      simp only [if_true, List.length_map]
      cases hax : a.axes[pos]? with
      | none =>
        have : ¬ pos < a.axes.length := by
          intro hlt; rw [List.getElem?_eq_getElem hlt] at hax; cases hax
        simp [this]
      | some ax =>
        have : pos < a.axes.length := by
          rcases Nat.lt_or_ge pos a.axes.length with hl | hl
          · exact hl
          · rw [List.getElem?_eq_none hl] at hax; cases hax
        simp [this, axisTake_size]
    · have h' : ¬ i = pos := fun e => h e.symm
      simp only [h, if_false, h']
      cases a.axes[i]? <;> rfl
  · rw [takeAxisPos_names]; exact hn
  · intro ax hax
    have : ax.name ∈ (takeAxisPos a pos ps).axes.map (·.name) := List.mem_map.mpr ⟨ax, hax, rfl⟩
    rw [takeAxisPos_names] at this
    obtain ⟨ax', hax', he⟩ := List.mem_map.mp this
    rw [← he]
    exact hne ax' hax'

theorem takeAxisPos_value (a : DimArray α) (pos : Nat) (ps : List Nat) (j : List Nat) (i p : Nat)
    (hj : j[pos]? = some i) (hp : ps[i]? = some p) :
    (takeAxisPos a pos ps).vals.get j = a.vals.get (j.set pos p) := by
  show a.vals.get (j.set pos (ps.getD (j.getD pos 0) 0)) = _
  simp only [List.getD_eq_getElem?_getD, hj, Option.getD_some, hp]

theorem takeAxisPos_label (a : DimArray α) (pos : Nat) (ps : List Nat) (ax ax' : Axis) (i p : Nat)
    (hax : a.axes[pos]? = some ax) (hax' : (takeAxisPos a pos ps).axes[pos]? = some ax')
    (hp : ps[i]? = some p) (hlt : p < ax.labels.length) :
    ax'.labels[i]? = ax.labels[p]? := by
  rw [takeAxisPos_axes_getElem?, hax] at hax'
  simp only [Option.map_some, if_true, Option.some.injEq] at hax'
  subst hax'
  simp only [axisTake, List.getElem?_map, hp, Option.map_some, List.getD_eq_getElem?_getD,
    List.getElem?_eq_getElem hlt, Option.getD_some]

theorem takeAxisPos_axis_meta (a : DimArray α) (pos : Nat) (ps : List Nat) (ax ax' : Axis)
    (hax : a.axes[pos]? = some ax) (hax' : (takeAxisPos a pos ps).axes[pos]? = some ax') :
    ax'.name = ax.name ∧ ax'.kind = ax.kind ∧ ax'.attrs = ax.attrs ∧ ax'.members = [] ∧
      ax'.labels.length = ps.length := by
  rw [takeAxisPos_axes_getElem?, hax] at hax'
  simp only [Option.map_some, if_true, Option.some.injEq] at hax'
  subst hax'
  simp [axisTake]

theorem takeAxisPos_others (a : DimArray α) (pos : Nat) (ps : List Nat) (i : Nat) (hi : i ≠ pos) :
    (takeAxisPos a pos ps).axes[i]? = a.axes[i]? := by
  rw [takeAxisPos_axes_getElem?]
  cases a.axes[i]? with
  | none => rfl
  | some ax => simp [hi]

/-- `axisPos` answers an in-range position, and `.pos pos` designates it -/
theorem axisPos_lt (axes : List Axis) (k : DimKey) (pos : Nat) (h : axisPos axes k = .ok pos) :
    pos < axes.length := by
  unfold axisPos at h
  cases k with
  | name s =>
    simp only at h
    split at h
    · injection h with h; subst h; assumption
    · cases h
  | pos i =>
    simp only at h
    by_cases hneg : i < 0
    · simp only [hneg, if_true] at h
      split at h
      · cases h
      · rename_i hn
        injection h with h
        simp only [Bool.or_eq_true, decide_eq_true_eq, not_or, Int.not_lt, Int.not_le] at hn
        omega
    · simp only [hneg, if_false] at h
      split at h
      · cases h
      · rename_i hn
        injection h with h
        simp only [Bool.or_eq_true, decide_eq_true_eq, not_or, Int.not_le] at hn
        omega

theorem axisPos_pos (axes : List Axis) (pos : Nat) (h : pos < axes.length) :
    axisPos axes (.pos pos) = .ok pos := by
  unfold axisPos
  have h1 : ¬ ((pos : Int) < 0) := by omega
  have h2 : ¬ ((pos : Int) ≥ (axes.length : Int)) := by omega
  simp [h1, h2]

/-- `axisPos` only looks at the names of the axes -/
theorem axisPos_congr (ax1 ax2 : List Axis) (k : DimKey) (h : ax1.map (·.name) = ax2.map (·.name)) :
    axisPos ax1 k = axisPos ax2 k := by
  have hl : ax1.length = ax2.length := by simpa using congrArg List.length h
  unfold axisPos
  cases k with
  | name s => simp only [h, hl]
  | pos i => simp only [hl]

/-- `compress_axis` is a positional take at the `nonzero` positions of the mask -/
theorem compressAxis_eq_take (a r : DimArray α) (mask : List Bool) (k : DimKey) (pos : Nat)
    (hpos : axisPos a.axes k = .ok pos) (h : compressAxis a mask k = .ok r) :
    r = takeAxisPos a pos (nonzero mask) ∧ mask.length = (a.axes.getD pos default).size := by
  have hlt := axisPos_lt _ _ _ hpos
  unfold compressAxis at h
  rw [hpos] at h
  simp only [bind, Except.bind, pure, Except.pure] at h
  split at h
  · cases h
  · rename_i hne
    injection h with h
    subst h
    refine ⟨?_, by simpa using hne⟩
    unfold takeAxisPos
    congr 1
    apply List.ext_getElem?
    intro i
    rw [List.getElem?_set, List.getElem?_mapIdx]
    by_cases hi : pos = i
    · subst hi
      simp only [if_true, hlt, List.getD_eq_getElem?_getD, List.getElem?_eq_getElem hlt,
        Option.getD_some, Option.map_some, beq_self_eq_true]
      rfl
    · have : (i == pos) = false := by simpa using (fun e : i = pos => hi e.symm)
      simp only [hi, if_false, this, Bool.false_eq_true]
      cases a.axes[i]? <;> rfl

theorem compressAxis_ok (a : DimArray α) (mask : List Bool) (k : DimKey) (pos : Nat)
    (hpos : axisPos a.axes k = .ok pos) (hlen : mask.length = (a.axes.getD pos default).size) :
    ∃ r, compressAxis a mask k = .ok r := by
  unfold compressAxis
  rw [hpos]
  simp only [bind, Except.bind, pure, Except.pure]
  have : (mask.length != (a.axes.getD pos default).size) = false := by simp [hlen]
  simp only [this, Bool.false_eq_true, if_false]
  exact ⟨_, rfl⟩

end take

/-! ### index bookkeeping and NaN counting for `dropna` -/

theorem inRange_mem_allIdx (s j : List Nat) (h : InRange s j) : j ∈ allIdx s :=
  List.mem_of_getElem? (allIdx_getElem? s j h)

theorem all_allIdx_iff (s : List Nat) (f : List Nat → Bool) :
    (allIdx s).all f = true ↔ ∀ j, InRange s j → f j = true := by
  rw [List.all_eq_true]
  exact ⟨fun h j hj => h j (inRange_mem_allIdx s j hj), fun h j hj => h j (mem_allIdx s j hj)⟩

theorem set_eq_insertIdx_eraseIdx : ∀ (j : List Nat) (pos p : Nat), pos < j.length →
    j.set pos p = (j.eraseIdx pos).insertIdx pos p
  | [], _, _, h => by simp at h
  | _ :: _, 0, _, _ => rfl
  | x :: xs, pos + 1, p, h => by
    simp only [List.set_cons_succ, List.eraseIdx_cons_succ, List.insertIdx_succ_cons]
    rw [set_eq_insertIdx_eraseIdx xs pos p (by simpa using h)]

theorem inRange_eraseIdx : ∀ (s j : List Nat) (pos : Nat), InRange s j →
    InRange (s.eraseIdx pos) (j.eraseIdx pos)
  | [], [], _, _ => by simp [InRange]
  | [], _ :: _, _, h => by simp [InRange] at h
  | _ :: _, [], _, h => by simp [InRange] at h
  | _ :: s, _ :: j, 0, h => by
    simp only [InRange] at h
    simpa using h.2
  | n :: s, i :: j, pos + 1, h => by
    simp only [InRange] at h
    simp only [List.eraseIdx_cons_succ, InRange]
    exact ⟨h.1, inRange_eraseIdx s j pos h.2⟩

theorem inRange_getElem? : ∀ (s j : List Nat) (pos n : Nat), InRange s j → s[pos]? = some n →
    ∃ i, j[pos]? = some i ∧ i < n
  | [], _, _, _, _, hs => by simp at hs
  | _ :: _, [], _, _, h, _ => by simp [InRange] at h
  | m :: s, i :: j, 0, n, h, hs => by
    simp only [InRange] at h
    simp only [List.getElem?_cons_zero, Option.some.injEq] at hs
    exact ⟨i, rfl, hs ▸ h.1⟩
  | m :: s, i :: j, pos + 1, n, h, hs => by
    simp only [InRange] at h
    simp only [List.getElem?_cons_succ] at hs ⊢
    exact inRange_getElem? s j pos n h.2 hs

theorem inRange_insertIdx : ∀ (s j : List Nat) (pos n i : Nat), s[pos]? = some n → i < n →
    InRange (s.eraseIdx pos) j → InRange s (j.insertIdx pos i)
  | [], _, _, _, _, hs, _, _ => by simp at hs
  | m :: s, j, 0, n, i, hs, hi, h => by
    simp only [List.getElem?_cons_zero, Option.some.injEq] at hs
    simp only [List.eraseIdx_cons_zero] at h
    simp only [List.insertIdx_zero, InRange]
    exact ⟨hs ▸ hi, h⟩
  | m :: s, [], pos + 1, n, i, hs, hi, h => by
    simp only [List.eraseIdx_cons_succ] at h
    simp [InRange] at h
  | m :: s, x :: j, pos + 1, n, i, hs, hi, h => by
    simp only [List.eraseIdx_cons_succ, InRange] at h
    simp only [List.getElem?_cons_succ] at hs
    simp only [List.insertIdx_succ_cons, InRange]
    exact ⟨h.1, inRange_insertIdx s j pos n i hs hi h.2⟩

theorem count_le_iff {γ : Type} (l : List γ) (p : γ → Bool) (m : Nat) :
    decide (((l.filter p).length : Int) ≤ (l.length : Int) - m) =
      decide (m ≤ (l.filter (fun x => !p x)).length) := by
  have h := List.length_eq_countP_add_countP p (l := l)
  rw [List.countP_eq_length_filter, List.countP_eq_length_filter] at h
  have h2 : l.filter (fun a => decide (¬ p a = true)) = l.filter (fun x => !p x) := by
    apply List.filter_congr; intro x _; cases p x <;> rfl
  rw [h2] at h
  apply decide_eq_decide.mpr
  omega

theorem count_le_zero_iff {γ : Type} (l : List γ) (p : γ → Bool) :
    decide (((l.filter p).length : Int) ≤ 0) = l.all (fun x => !p x) := by
  rw [Bool.eq_iff_iff, decide_eq_true_iff, List.all_eq_true]
  constructor
  · intro h x hx
    have h0 : (l.filter p).length = 0 := by omega
    have := List.filter_eq_nil_iff.mp (List.length_eq_zero_iff.mp h0) x hx
    simpa using this
  · intro h
    have : l.filter p = [] := List.filter_eq_nil_iff.mpr (fun x hx => by simpa using h x hx)
    rw [this]; simp

/-- the mask entry that `dropna` computes for position `i` (as written in the mirror) -/
def dropnaMaskFn {α : Type} (isnan : α → Bool) (a : DimArray α) (pos : Nat) (minvalid : Option Nat) (i : Nat) : Bool :=
  if a.ndim = 1 then !isnan (a.vals.get [i])
  else decide ((((allIdx (a.vals.shape.eraseIdx pos)).filter fun j => isnan (a.vals.get (j.insertIdx pos i))).length : Int)
    ≤ (match minvalid with | none => (0 : Int) | some m => (prod (a.vals.shape.eraseIdx pos) : Int) - m))

/-- `dropna` is `compress_axis` with the per-position mask -/
theorem dropna_eq_compress {α : Type} (isnan : α → Bool) (a : DimArray α) (k : DimKey) (pos : Nat)
    (minvalid : Option Nat) (hpos : axisPos a.axes k = .ok pos) :
    dropna isnan a k minvalid =
      compressAxis a ((List.range (a.axes.getD pos default).size).map (dropnaMaskFn isnan a pos minvalid)) (.pos pos) := by
  unfold dropnaMaskFn
  unfold dropna
  rw [hpos]
  simp only [bind, Except.bind]
  by_cases hr : a.ndim = 1
  · have hr' : (a.ndim == 1) = true := by simpa using hr
    simp only [hr', if_true, if_pos hr]
  · have hr' : (a.ndim == 1) = false := by simpa using hr
    simp only [hr', Bool.false_eq_true, if_false, if_neg hr]
    cases minvalid <;> rfl

/-! ### `take_axis`: resolution of the requested positions / labels -/

theorem mapM_ok_getElem? {ε β γ : Type} (f : β → Except ε γ) (l : List β) (out : List γ)
    (h : l.mapM f = .ok out) (i : Nat) (x : β) (hx : l[i]? = some x) :
    ∃ y, out[i]? = some y ∧ f x = .ok y := by
  induction l generalizing out i with
  | nil => simp at hx
  | cons a l ih =>
    obtain ⟨b, bs, hb, hl, rfl⟩ := mapM_cons_ok f a l out h
    cases i with
    | zero =>
      simp only [List.getElem?_cons_zero, Option.some.injEq] at hx
      subst hx
      exact ⟨b, rfl, hb⟩
    | succ i =>
      simp only [List.getElem?_cons_succ] at hx ⊢
      exact ih bs hl i hx

theorem mapM_congr_fun {ε β γ : Type} {f g : β → Except ε γ} (l : List β) (h : ∀ x, f x = g x) :
    l.mapM f = l.mapM g := by
  rw [funext h]

/-- what `take_axis(indexing='position')` does with one requested index (as written in the mirror) -/
def posOne (n : Nat) (clip : Bool) (l : Label) : Except Err Nat :=
  match l with
  | .num q =>
    if q.den != 1 then (.error .type : Except Err Nat) else
    let i := q.num
    if clip then pure (if i < 0 then 0 else if i ≥ (n : Int) then n - 1 else i.toNat)
    else
      let j := if i < 0 then i + n else i
      if j < 0 || j ≥ (n : Int) then .error .index else pure j.toNat
  | _ => .error .type

theorem posOne_ok (n : Nat) (clip : Bool) (l : Label) (p : Nat) (h : posOne n clip l = .ok p) :
    ∃ q : Rat, l = .num q ∧ q.den = 1 ∧
      (clip = false → p < n ∧ (0 ≤ q.num → (p : Int) = q.num) ∧ (q.num < 0 → (p : Int) = q.num + n)) ∧
      (clip = true → (q.num < 0 → p = 0) ∧ (q.num ≥ n → p = n - 1) ∧
        (0 ≤ q.num → q.num < n → (p : Int) = q.num)) := by
  cases l with
  | str s => cases h
  | none => cases h
  | num q =>
    refine ⟨q, rfl, ?_⟩
    simp only [posOne] at h
    by_cases hden : q.den = 1
    · have hd : (q.den != 1) = false := by simp [hden]
      simp only [hd, Bool.false_eq_true, if_false] at h
      refine ⟨hden, ?_, ?_⟩
      · intro hc
        subst hc
        simp only [Bool.false_eq_true, if_false] at h
        by_cases hneg : q.num < 0
        · simp only [hneg, if_true] at h
          split at h
          · cases h
          · rename_i hn
            simp only [pure, Except.pure, Except.ok.injEq] at h
            simp only [Bool.or_eq_true, decide_eq_true_eq, not_or, Int.not_lt, Int.not_le] at hn
            omega
        · simp only [hneg, if_false] at h
          split at h
          · cases h
          · rename_i hn
            simp only [pure, Except.pure, Except.ok.injEq] at h
            simp only [Bool.or_eq_true, decide_eq_true_eq, not_or, Int.not_lt, Int.not_le] at hn
            omega
      · intro hc
        subst hc
        simp only [if_true, pure, Except.pure, Except.ok.injEq] at h
        by_cases hneg : q.num < 0
        · simp only [hneg, if_true] at h
          omega
        · simp only [hneg, if_false] at h
          by_cases hge : q.num ≥ (n : Int)
          · simp only [hge, if_true] at h
            omega
          · simp only [hge, if_false] at h
            omega
    · have hd : (q.den != 1) = true := by simp [hden]
      simp only [hd, if_true] at h
      cases h

theorem takeClip_lt (xs : List Nat) (i n : Nat) (hxs : ∀ x ∈ xs, x < n) (hne : xs ≠ []) : takeClip xs i < n := by
  unfold takeClip
  have hlen : 0 < xs.length := List.length_pos_iff.mpr hne
  have hlt : min i (xs.length - 1) < xs.length := by omega
  rw [List.getD_eq_getElem?_getD, List.getElem?_eq_getElem hlt]
  exact hxs _ (List.getElem_mem hlt)

theorem locateMany_lt (L : List Label) (vs : List Label) (side : Side) (hne : L ≠ []) :
    ∀ p ∈ locateMany L vs side, p < L.length := by
  intro p hp
  unfold locateMany at hp
  obtain ⟨v, _, rfl⟩ := List.mem_map.mp hp
  apply takeClip_lt _ _ _ (argsortBy_lt Label.le L)
  intro he
  have := argsortBy_length Label.le L
  rw [he] at this
  exact hne (List.length_eq_zero_iff.mp this.symm)

/-- `loc` of a list of labels (no tolerance, `mode='raise'`): the positions are those of `locate_many`,
each one holds the requested label -/
theorem loc_list_ok (L : List Label) (kind : Kind) (vs : List Label) (r : RawIx)
    (h : loc L kind (.list vs) none false = .ok r) :
    r = .ints ((locateMany L vs .left).map Int.ofNat) ∧ (L = [] → vs = []) ∧
      ∀ (i p : Nat) (v : Label), (locateMany L vs .left)[i]? = some p → vs[i]? = some v → L.getD p Label.none = v := by
  unfold loc at h
  have htol : (if kind.isNumeric = true then (none : Option Tol) else none) = none := by split <;> rfl
  simp only [htol, Bool.false_eq_true, if_false] at h
  split at h
  · cases h
  · rename_i hemp
    split at h
    · rename_i hall
      injection h with h
      refine ⟨h.symm, ?_, ?_⟩
      · intro hL
        subst hL
        simp only [List.isEmpty_nil, Bool.true_and, Bool.not_eq_true', Bool.not_eq_false] at hemp
        simpa using hemp
      · intro i p v hp hv
        rw [List.all_eq_true] at hall
        have hmem : (p, v) ∈ (locateMany L vs Side.left).zip vs := by
          apply List.mem_iff_getElem?.mpr
          exact ⟨i, by rw [List.getElem?_zip_eq_some]; exact ⟨hp, hv⟩⟩
        have := hall (p, v) hmem
        simpa using this
    · cases h

end C17P
end DimModel

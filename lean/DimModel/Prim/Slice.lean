/-
Python `slice.indices(n)` and `range`.
-/
import DimModel.Core.Basic
namespace DimModel

/-- CPython `PySlice_AdjustIndices` after `PySlice_Unpack`; `step = 0` is a `ValueError`. -/
def sliceIndices (start stop step : Option Int) (n : Nat) : Except Err (Int × Int × Int) :=
  let st : Int := step.getD 1
  if st == 0 then .error .value else
  let n' : Int := n
  let neg := st < 0
  let adj (v : Int) : Int :=
    if v < 0 then
      let v' := v + n'
      if v' < 0 then (if neg then -1 else 0) else v'
    else if v ≥ n' then (if neg then n' - 1 else n')
    else v
  let s := match start with
    | none => if neg then n' - 1 else 0
    | some v => adj v
  let e := match stop with
    | none => if neg then -1 else n'
    | some v => adj v
  .ok (s, e, st)

/-- `len(range(start, stop, step))` -/
def rangeLen (start stop step : Int) : Nat :=
  if step > 0 then (if start < stop then ((stop - start - 1) / step + 1).toNat else 0)
  else if step < 0 then (if stop < start then ((start - stop - 1) / (-step) + 1).toNat else 0)
  else 0

/-- `list(range(start, stop, step))` as natural numbers (entries are in `[0, n)` after
`sliceIndices`) -/
def rangeList (start stop step : Int) : List Nat :=
  (List.range (rangeLen start stop step)).map (fun (k : Nat) => (start + (k : Int) * step).toNat)

/-- positions denoted by a Python slice on a sequence of length `n` -/
def slicePositions (start stop step : Option Int) (n : Nat) : Except Err (List Nat) := do
  let (s, e, st) ← sliceIndices start stop step n
  pure (rangeList s e st)

end DimModel

/-
Row-major index arithmetic: all indices of a shape, ravel / unravel.
-/
import DimModel.Core.Basic
namespace DimModel

def prod (s : List Nat) : Nat := s.foldr (· * ·) 1

/-- all index tuples of a shape, in row-major (C) order -/
def allIdx : List Nat → List (List Nat)
  | [] => [[]]
  | n :: s => (List.range n).flatMap fun i => (allIdx s).map (i :: ·)

/-- row-major flat position of index `i` in shape `s` (`np.ravel_multi_index`) -/
def ravel : List Nat → List Nat → Nat
  | [], _ => 0
  | _ :: _, [] => 0
  | _ :: s, i :: is => i * prod s + ravel s is

/-- `np.unravel_index` -/
def unravel : List Nat → Nat → List Nat
  | [], _ => []
  | _ :: s, k => (k / prod s) :: unravel s (k % prod s)

/-- index `i` is inside shape `s` -/
def InRange : List Nat → List Nat → Prop
  | [], [] => True
  | n :: s, i :: is => i < n ∧ InRange s is
  | _, _ => False

instance : (s i : List Nat) → Decidable (InRange s i)
  | [], [] => isTrue trivial
  | n :: s, i :: is => by
      unfold InRange
      have := instDecidableInRange s is
      exact inferInstance
  | [], _ :: _ => isFalse (by simp [InRange])
  | _ :: _, [] => isFalse (by simp [InRange])

end DimModel

/-
Modelled NumPy array primitives, defined by their index equations.
-/
import DimModel.Prim.Shape
namespace DimModel

variable {α : Type}

namespace NDArr

/-- row-major tabulation (what the driver prints) -/
def toList (a : NDArr α) : List α := (allIdx a.shape).map a.get

def size (a : NDArr α) : Nat := prod a.shape

def ofFlat [Inhabited α] (shape : List Nat) (data : List α) : NDArr α :=
  { shape := shape, get := fun i => data.getD (ravel shape i) default }

def map {β} (f : α → β) (a : NDArr α) : NDArr β := { shape := a.shape, get := fun i => f (a.get i) }

def const (shape : List Nat) (v : α) : NDArr α := { shape := shape, get := fun _ => v }

end NDArr

/-- positional index along one dimension after resolution of labels, slices and masks -/
inductive PosIx
  | scalar (p : Nat)
  | list (ps : List Nat)
  deriving DecidableEq, Repr, Inhabited

def PosIx.isScalar : PosIx → Bool
  | .scalar _ => true
  | _ => false

/-- expand a result index into a source index under per-dimension selections -/
def expandIx : List PosIx → List Nat → List Nat
  | [], _ => []
  | .scalar p :: ix, j => p :: expandIx ix j
  | .list ps :: ix, [] => ps.getD 0 0 :: expandIx ix []
  | .list ps :: ix, k :: j => ps.getD k 0 :: expandIx ix j

def outerShape : List PosIx → List Nat
  | [] => []
  | .scalar _ :: ix => outerShape ix
  | .list ps :: ix => ps.length :: outerShape ix

namespace NDArr

/-- orthogonal ("outer", `np.ix_`-style) selection; scalar entries drop their dimension.
This is what `values[orthogonal_indexer(key, shape)]` computes (conformance-tested). -/
def outer (a : NDArr α) (ix : List PosIx) : NDArr α :=
  { shape := outerShape ix, get := fun j => a.get (expandIx ix j) }

/-- `a.transpose(p)`: result dimension `k` is source dimension `p[k]` -/
def transpose (a : NDArr α) (p : List Nat) : NDArr α :=
  { shape := p.map (fun k => a.shape.getD k 0)
    get := fun j => a.get ((List.range a.shape.length).map (fun d => j.getD (p.idxOf d) 0)) }

/-- row-major `reshape` -/
def reshape (a : NDArr α) (s : List Nat) : NDArr α :=
  { shape := s, get := fun i => a.get (unravel a.shape (ravel s i)) }

/-- `np.take(a, ps, axis)` -/
def takeAxis (a : NDArr α) (axis : Nat) (ps : List Nat) : NDArr α :=
  { shape := a.shape.set axis ps.length
    get := fun j => a.get (j.set axis (ps.getD (j.getD axis 0) 0)) }

/-- `a[..., None, ...]` : insert a singleton dimension at `pos` -/
def insertDim (a : NDArr α) (pos : Nat) : NDArr α :=
  { shape := a.shape.insertIdx pos 1, get := fun j => a.get (j.eraseIdx pos) }

/-- `a.squeeze(axis)` for a singleton dimension -/
def dropDim (a : NDArr α) (pos : Nat) : NDArr α :=
  { shape := a.shape.eraseIdx pos, get := fun j => a.get (j.insertIdx pos 0) }

/-- `a.repeat(n, axis)` on a singleton dimension -/
def repeatDim (a : NDArr α) (pos n : Nat) : NDArr α :=
  { shape := a.shape.set pos n, get := fun j => a.get (j.set pos 0) }

/-- `np.concatenate([a, b], axis)` -/
def concat2 (a b : NDArr α) (axis : Nat) : NDArr α :=
  let na := a.shape.getD axis 0
  { shape := a.shape.set axis (na + b.shape.getD axis 0)
    get := fun j => let k := j.getD axis 0
                    if k < na then a.get j else b.get (j.set axis (k - na)) }

/-- `np.array([a0, a1, ...])` : stack along a new leading dimension -/
def stackNew [Inhabited α] (as : List (NDArr α)) : NDArr α :=
  { shape := as.length :: (as.head?.map (·.shape)).getD []
    get := fun j => match j with
      | [] => default
      | k :: rest => (as.getD k default).get rest }

/-- masked write: cells whose index satisfies `sel` take `v` (given the result index) -/
def putWhere (a : NDArr α) (sel : List Nat → Bool) (v : List Nat → α) : NDArr α :=
  { shape := a.shape, get := fun j => if sel j then v j else a.get j }

end NDArr
end DimModel

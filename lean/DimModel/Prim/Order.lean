/-
Modelled NumPy ordering primitives: stable argsort, searchsorted (left/right), take(mode=clip),
nonzero, isin, union1d.  Generic in a Bool relation, as core's `mergeSort` lemmas are.
-/
import DimModel.Core.Basic
namespace DimModel

variable {β : Type}

/-- `np.argsort` (stable on ties; the inputs the properties quantify over have unique labels). -/
def argsortBy (le : β → β → Bool) (l : List β) : List Nat :=
  (l.zipIdx.mergeSort (fun a b => le a.1 b.1)).map (·.2)

/-- the sorted list itself -/
def sortBy (le : β → β → Bool) (l : List β) : List β :=
  (l.zipIdx.mergeSort (fun a b => le a.1 b.1)).map (·.1)

/-- `np.searchsorted(s, v, side='left')` on a sorted list: first `i` with `¬ s[i] < v`. -/
def searchLeft (lt : β → β → Bool) (s : List β) (v : β) : Nat :=
  s.findIdx (fun x => !(lt x v))

/-- `np.searchsorted(s, v, side='right')` on a sorted list: first `i` with `v < s[i]`. -/
def searchRight (lt : β → β → Bool) (s : List β) (v : β) : Nat :=
  s.findIdx (fun x => lt v x)

inductive Side | left | right
  deriving DecidableEq, Repr, Inhabited

def searchSide (lt : β → β → Bool) (side : Side) (s : List β) (v : β) : Nat :=
  match side with
  | .left => searchLeft lt s v
  | .right => searchRight lt s v

/-- `xs.take(i, mode='clip')` for a non-negative index: out-of-range is clipped to the last one. -/
def takeClip (xs : List Nat) (i : Nat) : Nat :=
  xs.getD (min i (xs.length - 1)) 0

/-- `np.nonzero(mask)[0]` -/
def nonzero (m : List Bool) : List Nat :=
  (m.zipIdx.filter (·.1)).map (·.2)

/-- `np.where(values == v)[0]` -/
def whereEq [DecidableEq β] (l : List β) (v : β) : List Nat :=
  nonzero (l.map (fun x => decide (x = v)))

/-- first position of `v` in `l` (definitional spec of "the position of a label") -/
def firstIdx [DecidableEq β] (l : List β) (v : β) : Nat := l.findIdx (fun x => decide (x = v))

/-- remove later duplicates, keep first occurrences in order -/
def dedup [DecidableEq β] : List β → List β
  | [] => []
  | x :: xs => x :: (dedup xs).filter (fun y => !decide (y = x))

/-- `np.union1d(a, b)`: sorted unique values of the concatenation. -/
def union1d [DecidableEq β] (le : β → β → Bool) (a b : List β) : List β :=
  dedup (sortBy le (a ++ b))

/-- is the list ordered w.r.t. `r` on neighbours (`np.all(cmp(values[1:], values[:-1]))`) -/
def chainB (r : β → β → Bool) : List β → Bool
  | [] => true
  | [_] => true
  | x :: y :: rest => r x y && chainB r (y :: rest)

end DimModel

/-
Core data types of the dimarray model.  No Mathlib imports (the driver loads this).
-/
namespace DimModel

/-- NumPy dtype kinds that the library branches on. -/
inductive Kind | b | i | u | f | O | U | S | M
  deriving DecidableEq, Repr, Inhabited

/-- Exception classes (only the class is observable, never the message). -/
inductive Err | index | value | type | key | attribute | assertion | recursion | other
  deriving DecidableEq, Repr, Inhabited

/-- An axis label.  Every finite float64 and every int is an exact rational, so numeric
comparison in the model is NumPy's comparison for NaN-free labels.  `none` is the label of the
singleton axes that `newaxis` inserts. -/
inductive Label
  | num (q : Rat)
  | str (s : String)
  | none
  deriving DecidableEq, Repr, Inhabited

namespace Label

def rank : Label → Nat
  | .none => 0
  | .num _ => 1
  | .str _ => 2

/-- Total preorder on labels: numbers by value, strings by code point (as Python), `none` first.
Mixed kinds never occur inside one axis in the generated inputs (NumPy would raise). -/
def le (a b : Label) : Bool :=
  match a, b with
  | .num x, .num y => decide (x ≤ y)
  | .str x, .str y => decide (x ≤ y)
  | a, b => decide (a.rank ≤ b.rank)

def lt (a b : Label) : Bool := !(le b a)

def isNum : Label → Bool
  | .num _ => true
  | _ => false

def toRat? : Label → Option Rat
  | .num q => some q
  | _ => Option.none

end Label

/-- Metadata is opaque to the model: a list of (key, value-token) pairs, insertion ordered. -/
abbrev Attrs := List (String × Nat)

def Attrs.update (a b : Attrs) : Attrs :=
  b.foldl (fun acc kv => if acc.any (·.1 == kv.1) then acc.map (fun x => if x.1 == kv.1 then kv else x) else acc ++ [kv]) a

/-- A plain (non-grouped) axis. -/
structure Axis0 where
  name : String
  labels : List Label
  kind : Kind
  attrs : Attrs := []
  deriving DecidableEq, Repr, Inhabited

/-- An axis; `members ≠ []` ⇔ it is a `MultiAxis` whose tuple labels are *derived* from the
members (cartesian product, row-major), exactly as `_flatten` derives them. -/
structure Axis where
  name : String
  labels : List Label
  kind : Kind
  attrs : Attrs := []
  members : List Axis0 := []
  deriving DecidableEq, Repr, Inhabited

def Axis0.toAxis (a : Axis0) : Axis := { name := a.name, labels := a.labels, kind := a.kind, attrs := a.attrs }
def Axis.toAxis0 (a : Axis) : Axis0 := { name := a.name, labels := a.labels, kind := a.kind, attrs := a.attrs }

def Axis.isMulti (a : Axis) : Bool := !a.members.isEmpty

/-- `Axis(ax.values, ax.name)`: a fresh axis with the labels of `a` - no metadata, not grouped -/
def Axis.bare (a : Axis) : Axis := { name := a.name, labels := a.labels, kind := a.kind }

/-- size of an axis: product of member sizes for a MultiAxis, else number of labels -/
def Axis.size (a : Axis) : Nat :=
  if a.members.isEmpty then a.labels.length else (a.members.map (·.labels.length)).foldl (· * ·) 1

def Kind.isNumeric : Kind → Bool
  | .i | .f | .u => true
  | _ => false

/-- NumPy array as shape + index function (row-major tabulation is done by the driver only). -/
structure NDArr (α : Type) where
  shape : List Nat
  get : List Nat → α

instance [Inhabited α] : Inhabited (NDArr α) := ⟨⟨[], fun _ => default⟩⟩

structure DimArray (α : Type) where
  axes : List Axis
  vals : NDArr α
  vkind : Kind := .f
  attrs : Attrs := []

instance [Inhabited α] : Inhabited (DimArray α) := ⟨⟨[], default, .f, []⟩⟩

def DimArray.dims (a : DimArray α) : List String := a.axes.map (·.name)
def DimArray.ndim (a : DimArray α) : Nat := a.axes.length

/-- Well-formedness (C05): one axis per dimension, sizes match, names distinct and non-empty. -/
def DimArray.WF (a : DimArray α) : Prop :=
  a.vals.shape = a.axes.map (·.size) ∧ (a.axes.map (·.name)).Nodup ∧ ∀ ax ∈ a.axes, ax.name ≠ ""

instance (a : DimArray α) : Decidable a.WF := by unfold DimArray.WF; exact inferInstance

end DimModel

/-
What a reduction computes INSIDE one fibre: the NumPy functions that dimarray's `apply_along_axis` ends up calling
through `_get_func(funcname, skipna)` (dimarray/core/transform.py), on float data WITHOUT rounding: a cell is NaN,
-inf, +inf or an exact rational.  Mathlib-free (the driver evaluates these definitions).

`_get_func(name, skipna)` (no bottleneck installed):
  skipna=False : `np.<name>`            except median -> `_median_with_nan` (NaN if the fibre holds a NaN)
  skipna=True  : `np.nan<name>`         when NumPy has one (sum prod mean var std min max median cumsum cumprod argmin argmax)
                 `_MaskedArrayFunc`     otherwise (ptp all any): NaN cells masked, `np.ma.<name>`, masked result filled with
                                        NaN (ptp) / True (all) / False (any)
-/
import DimModel.Lib.Transform
namespace DimModel
namespace Lib

/-- a float cell without rounding -/
inductive XVal
  | nan
  | ninf
  | fin (q : Rat)
  | pinf
  deriving DecidableEq, Repr, Inhabited

namespace XVal

def isNan : XVal → Bool
  | nan => true
  | _ => false

/-- IEEE addition: NaN absorbs, inf + -inf = NaN -/
def add : XVal → XVal → XVal
  | nan, _ => nan
  | _, nan => nan
  | pinf, ninf => nan
  | ninf, pinf => nan
  | pinf, _ => pinf
  | _, pinf => pinf
  | ninf, _ => ninf
  | _, ninf => ninf
  | fin a, fin b => fin (a + b)

def neg : XVal → XVal
  | nan => nan
  | ninf => pinf
  | pinf => ninf
  | fin a => fin (-a)

def sub (a b : XVal) : XVal := add a (neg b)

/-- sign of a non-NaN value: -1, 0, 1 -/
def sgn : XVal → Int
  | nan => 0
  | ninf => -1
  | pinf => 1
  | fin q => if q < 0 then -1 else if q = 0 then 0 else 1

/-- IEEE multiplication: NaN absorbs, 0 * inf = NaN -/
def mul : XVal → XVal → XVal
  | nan, _ => nan
  | _, nan => nan
  | fin a, fin b => fin (a * b)
  | a, b => let s := sgn a * sgn b; if s = 0 then nan else if s < 0 then ninf else pinf

/-- `a <= b` (false as soon as a NaN is involved) -/
def le : XVal → XVal → Bool
  | nan, _ => false
  | _, nan => false
  | ninf, _ => true
  | _, pinf => true
  | fin a, fin b => decide (a ≤ b)
  | _, _ => false

/-- `np.minimum`: NaN propagates -/
def min (a b : XVal) : XVal := if a.isNan || b.isNan then nan else if le a b then a else b
/-- `np.maximum`: NaN propagates -/
def max (a b : XVal) : XVal := if a.isNan || b.isNan then nan else if le b a then a else b

/-- truth value of a float: everything but 0 (NaN and the infinities are true) -/
def truthy : XVal → Bool
  | fin q => q != 0
  | _ => true

def ofBool (b : Bool) : XVal := fin (if b then 1 else 0)
def ofNat (n : Nat) : XVal := fin (n : Rat)

end XVal

open XVal

/-- the fibre "with exactly the NaN entries removed (order kept)" -/
def dropNan (l : List XVal) : List XVal := l.filter (fun x => !x.isNan)

/-! ### plain functions (`np.<name>` on a 1-D array) -/

def xsum (l : List XVal) : XVal := l.foldl add (fin 0)
def xprod (l : List XVal) : XVal := l.foldl mul (fin 1)
/-- `np.mean`: sum / n (0 / 0 = NaN for the empty fibre) -/
def xmean (l : List XVal) : XVal := if l.isEmpty then nan else mul (xsum l) (fin (1 / (l.length : Rat)))
/-- `np.min`: ValueError on an empty fibre (no identity), NaN propagates -/
def xmin : List XVal → Except Err XVal
  | [] => .error .value
  | x :: xs => .ok (xs.foldl XVal.min x)
def xmax : List XVal → Except Err XVal
  | [] => .error .value
  | x :: xs => .ok (xs.foldl XVal.max x)
/-- `np.ptp` = max - min (inf - inf = NaN) -/
def xptp (l : List XVal) : Except Err XVal := do
  let hi ← xmax l
  let lo ← xmin l
  pure (sub hi lo)
def xall (l : List XVal) : XVal := ofBool (l.all truthy)
def xany (l : List XVal) : XVal := ofBool (l.any truthy)
/-- `np.var` (ddof = 0): mean(|x - mean(x)|^2) -/
def xvar (l : List XVal) : XVal :=
  let m := xmean l
  xmean (l.map fun x => let d := sub x m; mul d d)
/-- `np.median` of a NaN-free fibre: mean of the middle element(s) of the sorted fibre; NaN for the empty fibre -/
def medianSorted (s : List XVal) : XVal :=
  let n := s.length
  if n == 0 then nan
  else if n % 2 == 1 then s.getD (n / 2) nan
  else mul (add (s.getD (n / 2 - 1) nan) (s.getD (n / 2) nan)) (fin (1 / 2))
/-- `_median_with_nan`: NaN as soon as the fibre holds a NaN -/
def xmedian (l : List XVal) : XVal :=
  if l.any isNan then nan else medianSorted (l.mergeSort fun a b => le a b)
/-- `np.argmin`: ValueError on an empty fibre; NaN counts as the minimum (first NaN position), else the first position
of the minimum -/
def xargmin (l : List XVal) : Except Err XVal := do
  let m ← xmin l
  pure (ofNat (l.idxOf m))
def xargmax (l : List XVal) : Except Err XVal := do
  let m ← xmax l
  pure (ofNat (l.idxOf m))

/-! ### NaN-skipping variants -/

/-- `np.nansum`: NaN replaced by 0, then `np.sum` -/
def xnansum (l : List XVal) : XVal := xsum (l.map fun x => if x.isNan then fin 0 else x)
/-- `np.nanprod`: NaN replaced by 1, then `np.prod` -/
def xnanprod (l : List XVal) : XVal := xprod (l.map fun x => if x.isNan then fin 1 else x)
/-- `np.nanmean`: sum of the non-NaN cells / their number (NaN + RuntimeWarning when nothing is left) -/
def xnanmean (l : List XVal) : XVal := xmean (dropNan l)
/-- `np.nanmin` (`np.fmin.reduce`): ValueError on an empty fibre; NaN (+ RuntimeWarning) for an all-NaN fibre -/
def xnanmin (l : List XVal) : Except Err XVal :=
  if l.isEmpty then .error .value else if (dropNan l).isEmpty then .ok nan else xmin (dropNan l)
def xnanmax (l : List XVal) : Except Err XVal :=
  if l.isEmpty then .error .value else if (dropNan l).isEmpty then .ok nan else xmax (dropNan l)
/-- `_MaskedArrayFunc('ptp')`: `np.ptp` without NaN, else `np.ma.ptp` of the masked fibre, masked result -> NaN -/
def xmaptp (l : List XVal) : Except Err XVal :=
  if l.isEmpty then .error .value else if (dropNan l).isEmpty then .ok nan else xptp (dropNan l)
/-- `_MaskedArrayFunc('all')`: nothing left -> True -/
def xmaall (l : List XVal) : XVal := xall (dropNan l)
/-- `_MaskedArrayFunc('any')`: nothing left -> False -/
def xmaany (l : List XVal) : XVal := xany (dropNan l)
def xnanvar (l : List XVal) : XVal := xvar (dropNan l)
def xnanmedian (l : List XVal) : XVal := medianSorted ((dropNan l).mergeSort fun a b => le a b)
/-- `np.nanargmin`: NaN replaced by +inf, ValueError when the fibre is all-NaN (or empty), then `np.argmin` -/
def xnanargmin (l : List XVal) : Except Err XVal :=
  if (dropNan l).isEmpty then .error .value else xargmin (l.map fun x => if x.isNan then pinf else x)
/-- `np.nanargmax`: NaN replaced by -inf -/
def xnanargmax (l : List XVal) : Except Err XVal :=
  if (dropNan l).isEmpty then .error .value else xargmax (l.map fun x => if x.isNan then ninf else x)

/-- the reducing function `_get_func(name, skipna)` selects, as a function of the fibre (keyed like `Gen.getFuncTable`;
`std` needs a square root and is not modelled) -/
def selectRed (name : String) (skipna : Bool) : Option (List XVal → Except Err XVal) :=
  match name, skipna with
  | "sum", false => some fun l => .ok (xsum l)
  | "sum", true => some fun l => .ok (xnansum l)
  | "prod", false => some fun l => .ok (xprod l)
  | "prod", true => some fun l => .ok (xnanprod l)
  | "mean", false => some fun l => .ok (xmean l)
  | "mean", true => some fun l => .ok (xnanmean l)
  | "var", false => some fun l => .ok (xvar l)
  | "var", true => some fun l => .ok (xnanvar l)
  | "min", false => some xmin
  | "min", true => some xnanmin
  | "max", false => some xmax
  | "max", true => some xnanmax
  | "ptp", false => some xptp
  | "ptp", true => some xmaptp
  | "all", false => some fun l => .ok (xall l)
  | "all", true => some fun l => .ok (xmaall l)
  | "any", false => some fun l => .ok (xany l)
  | "any", true => some fun l => .ok (xmaany l)
  | "median", false => some fun l => .ok (xmedian l)
  | "median", true => some fun l => .ok (xnanmedian l)
  | "argmin", false => some xargmin
  | "argmin", true => some xnanargmin
  | "argmax", false => some xargmax
  | "argmax", true => some xnanargmax
  | _, _ => none

/-- the cumulative functions, as "last element of the cumulative function of a prefix" (the `scan` of `cumAxis`):
`np.cumsum` / `np.cumprod`; `np.nancumsum` / `np.nancumprod` replace NaN by 0 / 1 first -/
def selectScan (name : String) (skipna : Bool) : Option (List XVal → XVal) :=
  match name, skipna with
  | "cumsum", false => some xsum
  | "cumsum", true => some xnansum
  | "cumprod", false => some xprod
  | "cumprod", true => some xnanprod
  | _, _ => none

/-! ### the cumulative functions as NumPy computes them: a running accumulation along the fibre
(`selectScan` gives cell `k` as a function of the prefix; `Props/C08.cumsum_prefix_spec` proves the two agree) -/

/-- running accumulation: `[op acc x0, op (op acc x0) x1, ...]` -/
def cumFrom (op : XVal → XVal → XVal) (acc : XVal) : List XVal → List XVal
  | [] => []
  | x :: xs => op acc x :: cumFrom op (op acc x) xs

/-- `np.cumsum` / `np.cumprod` of a 1-D fibre -/
def xcumsum (l : List XVal) : List XVal := cumFrom add (fin 0) l
def xcumprod (l : List XVal) : List XVal := cumFrom mul (fin 1) l
/-- `np.nancumsum` / `np.nancumprod`: NaN replaced by 0 / 1, then the plain function -/
def xnancumsum (l : List XVal) : List XVal := xcumsum (l.map fun x => if x.isNan then fin 0 else x)
def xnancumprod (l : List XVal) : List XVal := xcumprod (l.map fun x => if x.isNan then fin 1 else x)

/-- the whole-fibre cumulative function `_get_func(name, skipna)` selects -/
def selectCum (name : String) (skipna : Bool) : Option (List XVal → List XVal) :=
  match name, skipna with
  | "cumsum", false => some xcumsum
  | "cumsum", true => some xnancumsum
  | "cumprod", false => some xcumprod
  | "cumprod", true => some xnancumprod
  | _, _ => none

/-- which family of `_get_func` each concrete model function above mirrors (the vocabulary of `Gen.getFuncTable`, the
table regenerated from the implementation on every run):
  "plain"     : `np.<name>`                  (`xsum xprod xmean xvar xmin xmax xptp xall xany xargmin xargmax`, scans `xsum xprod`)
  "mediannan" : `_median_with_nan`           (`xmedian`: NaN as soon as the fibre holds one)
  "nanfunc"   : `np.nan<name>`               (`xnansum xnanprod xnanmean xnanvar xnanmin xnanmax xnanmedian xnanargmin xnanargmax`,
                                              scans `xnansum xnanprod`)
  "masked"    : `_MaskedArrayFunc(<name>)`   (`xmaptp xmaall xmaany`: NaN cells masked, fill value when nothing is left)
`Props/C08.selectRed_covers_table` proves that this IS the family the implementation selects, row by row (harness/props/c08.py
reads this definition to name the failing row when the proof breaks: keep one row per line). -/
def familyOf (name : String) (skipna : Bool) : Option String :=
  match name, skipna with
  | "sum", false => some "plain"
  | "sum", true => some "nanfunc"
  | "prod", false => some "plain"
  | "prod", true => some "nanfunc"
  | "mean", false => some "plain"
  | "mean", true => some "nanfunc"
  | "var", false => some "plain"
  | "var", true => some "nanfunc"
  | "min", false => some "plain"
  | "min", true => some "nanfunc"
  | "max", false => some "plain"
  | "max", true => some "nanfunc"
  | "ptp", false => some "plain"
  | "ptp", true => some "masked"
  | "all", false => some "plain"
  | "all", true => some "masked"
  | "any", false => some "plain"
  | "any", true => some "masked"
  | "median", false => some "mediannan"
  | "median", true => some "nanfunc"
  | "argmin", false => some "plain"
  | "argmin", true => some "nanfunc"
  | "argmax", false => some "plain"
  | "argmax", true => some "nanfunc"
  | "cumsum", false => some "plain"
  | "cumsum", true => some "nanfunc"
  | "cumprod", false => some "plain"
  | "cumprod", true => some "nanfunc"
  | _, _ => none

/-- the model has a function for `(name, skipna)`: a reduction (`selectRed`) or a cumulative function (`selectScan`) -/
def hasModel (name : String) (skipna : Bool) : Bool :=
  (selectRed name skipna).isSome || (selectScan name skipna).isSome

/-- value of a fibre function where it raises nothing (NumPy raises for the whole call: see `reduceX`) -/
def totalize (f : List XVal → Except Err XVal) (l : List XVal) : XVal :=
  match f l with
  | .ok v => v
  | .error _ => nan

/-- the fibres NumPy reduces: one per result cell (plus the empty fibre when the reduced extent is 0: a zero-size
reduction without identity is refused even when there is no result cell) -/
def fibresOf (o : DimArray XVal) (idx : Option Nat) : List (List XVal) :=
  match idx with
  | none => [o.vals.toList]
  | some pos =>
    (if o.vals.shape.getD pos 0 == 0 then [[]] else []) ++
      (allIdx (o.vals.shape.eraseIdx pos)).map (fibre o pos)

/-- `a.<name>(axis, skipna)` on concrete data: the call raises what the first failing fibre raises; otherwise it is
`reduceAxis` with the fibre function -/
def reduceX (f : List XVal → Except Err XVal) (a : DimArray XVal) (ax : AxisArg) :
    Except Err (Sum XVal (DimArray XVal)) := do
  let (o, idx) ← dealWithAxis a ax
  match (fibresOf o idx).findSome? (fun l => match f l with | .error e => some e | .ok _ => none) with
  | some e => .error e
  | none => reduceAxis (totalize f) a ax

end Lib
end DimModel

/-
C20 (extension) - mirror of the multi-file read of dimarray/io/nc.py:

* `DatasetOnDisk.read(names, indices, axis, indexing, tol, keepdims)` on a stored Dataset (`DiskDs`: the coordinate
  variables of the file's dimensions, the data variables as flat stores `OnDisk.DiskVar`, the global attributes): the
  index is resolved ONCE on the file's axes (`_get_indices`), every variable is then read with netCDF4's orthogonal get
  at the resulting positions (`OnDisk.ncGet` / `OnDisk.axesOrtho`) and stored through `Dataset.__setitem__`;
* `_read_multinc(fnames, names, axis, keys, align, sort, join, concatenate_only, **kwargs)`: the loop that reads one file
  after the other and compares the variables (`dict_keys ==`: as sets) and the dimensions (tuples: in order) with those
  of the first file, the `concatenate_only` guard, the dispatch on `axis in dimensions` to `concatenate_ds` (followed by
  `reindex_axis(keys)` when keys are given) or `stack_ds` (keys default to the file names without extension);
* `read_nc(list, names, ...)`: a single name is read as `[name]` and the variable is taken out of the joined Dataset.
-/
import DimModel.Lib.OnDisk
import DimModel.Lib.DatasetOps2
namespace DimModel
namespace OnDisk
open Lib DSV

/-- the content of a netCDF file as dimarray sees it -/
structure DiskDs (α : Type) where
  axes : List Axis                        -- dimensions with their coordinate variables, in the file's order
  vars : List (String × DiskVar α)        -- the other variables, in the file's order
  attrs : Attrs := []

def DiskDs.dims {α} (f : DiskDs α) : List String := f.axes.map (·.name)
def DiskDs.keys {α} (f : DiskDs α) : List String := f.vars.map (·.1)

/-- `Dataset.write_nc(f)`: the axes as coordinate variables, every variable laid out row-major -/
def storeDs {α} (ds : Ds α) : DiskDs α :=
  { axes := ds.axes, vars := ds.vars.map fun kv => (kv.1, store kv.2), attrs := ds.attrs }

/-- the index of a multi-file read: `indices={dim: ix}` (what `**kwargs` hands to every file) -/
structure FileIndex where
  dim : String
  ix : Ix
  cfg : IndexCfg := {}

/-- `self._get_indices(indices, ...)` followed by the resolution of every entry against its dimension: one position
index per dimension of the FILE; no index = full slices; a dimension the file does not have is refused -/
def fileIndices (axes : List Axis) (idx : Option FileIndex) : Except Err (List PosIx) :=
  match idx with
  | none => pure (axes.map fun a => PosIx.list (List.range a.size))
  | some fi =>
    if !((axes.map (·.name)).contains fi.dim) then .error .value else
    axes.mapM fun a =>
      if a.name == fi.dim then do
        let raw ← if fi.cfg.mode != .position && !fi.ix.isFull then loc a.labels a.kind fi.ix fi.cfg.tol else ixToRaw fi.ix
        let raw := match raw with | .int i => if fi.cfg.keepdims then RawIx.ints [i] else raw | r => r
        resolveRaw raw a.size
      else pure (PosIx.list (List.range a.size))

/-- `self[nm].read(indices={dim: dict_indices[dim] for dim in self[nm].dims}, indexing='position')`: the positions of
the file's dimensions handed to the variable, netCDF4's orthogonal get, the axes re-read at the positions -/
def readVarAt {α} (d : α) (fileAxes : List Axis) (pix : List PosIx) (v : DiskVar α) : DimArray α :=
  let vpix := v.axes.map fun a =>
    ((fileAxes.zip pix).find? (·.1.name == a.name)).elim (PosIx.list (List.range a.size)) (·.2)
  { axes := axesOrtho v.axes vpix, vals := ncGet d v.shape v.cells vpix, vkind := v.vkind, attrs := v.attrs }

/-- `DatasetOnDisk.read(names, indices=...)` for `names` = None or a list -/
def readFile {α} (d : α) (f : DiskDs α) (names : Option (List String)) (idx : Option FileIndex) : Except Err (Ds α) := do
  -- automatically read all variables to load (except for the dimensions)
  let (dims, names) := match names with
    | none => (f.axes, f.keys)
    | some l => ([], l)
  let pix ← fileIndices f.axes idx
  -- first load dimensions (a dimension indexed with a scalar is dropped)
  let data : Ds α := { axes := axesOrtho dims pix }
  -- then normal variables
  let data ← names.foldlM (fun (data : Ds α) nm =>
      match f.vars.find? (·.1 == nm) with
      | none => .error .key
      | some kv => setItem data nm (readVarAt d f.axes pix kv.2)) data
  -- dataset's metadata; reorder the axes in the dataset to match input
  pure { data with attrs := f.attrs,
                   axes := f.dims.filterMap fun dim => data.axes.find? (·.name == dim) }

/-- the keyword arguments of `_read_multinc` besides the per-file ones -/
structure MultiOpts where
  axis : Option String := none
  keys : Option (List Label × Kind) := none      -- `keys=` with the dtype kind NumPy gives them
  align : Bool := false
  sort : Bool := false
  join : Join := .outer
  concatenateOnly : Bool := false

/-- the loop of `_read_multinc`: read the next file, then compare its variables and dimensions with the first file's -/
def readLoop {α} (d : α) (names : Option (List String)) (idx : Option FileIndex) :
    List (DiskDs α) → Option (List String × List String) → List (Ds α) → Except Err (List (Ds α) × Option (List String × List String))
  | [], st, acc => pure (acc, st)
  | f :: rest, st, acc => do
    let ds ← readFile d f names idx
    match st with
    | none => readLoop d names idx rest (some (ds.keys, ds.dims)) (acc ++ [ds])
    | some (variables, dimensions) =>
      -- check that the same variables are present in the file
      if !(sameKeys variables ds.keys) then .error .assertion else
      -- check that the same dimensions are present in the file
      if dimensions != ds.dims then .error .assertion else
      readLoop d names idx rest st (acc ++ [ds])

/-- the part of `_read_multinc` after the loop: `concatenate_only` guard, dispatch on `axis in dimensions`;
`defaultKeys` are the file names without their extension -/
def joinRead {α} [Inhabited α] (nan : α) (datasets : List (Ds α)) (dimensions : Option (List String))
    (o : MultiOpts) (defaultKeys : List Label) : Except Err (Ds α) :=
  match dimensions with
  | none => .error .type            -- no file: `axis in None`
  | some dimensions =>
    let has := match o.axis with | some a => dimensions.contains a | none => false
    -- check that dimension in dataset if required
    if o.concatenateOnly && !has then .error .other else
    -- Join dataset
    match o.axis, has with
    | some a, true => do
      let ds ← concatenateDsA nan datasets (.name a) o.align o.join o.sort
      match o.keys with
      | some (ks, kk) => reindexAxisDs ds a ks kk nan .f
      | none => pure ds
    | _, _ =>
      -- use file name as keys by default
      let (ks, kk) := o.keys.getD (defaultKeys, .O)
      stackDsA nan datasets o.axis ks kk o.align o.join o.sort

/-- `_read_multinc(fnames, names, axis=, keys=, align=, sort=, join=, concatenate_only=, indices=...)` -/
def readMulti {α} [Inhabited α] (d nan : α) (files : List (DiskDs α)) (names : Option (List String))
    (idx : Option FileIndex) (o : MultiOpts) (defaultKeys : List Label) : Except Err (Ds α) := do
  let (datasets, st) ← readLoop d names idx files none []
  joinRead nan datasets (st.map (·.2)) o defaultKeys

/-- `read_nc(list of files, name : str, ...)`: `_read_multinc(f, [name], ...)[name]` -/
def readMultiVar {α} [Inhabited α] (d nan : α) (files : List (DiskDs α)) (name : String)
    (idx : Option FileIndex) (o : MultiOpts) (defaultKeys : List Label) : Except Err (DimArray α) := do
  let ds ← readMulti d nan files (some [name]) idx o defaultKeys
  match ds.get? name with
  | some a => pure a
  | none => .error .key

/-! the in-memory side: what the statement of C20 compares the multi-file read with -/

/-- the Datasets agree on their variables (as sets) and on their dimensions (in order) with the first one -/
def Consistent {α} : List (Ds α) → Bool
  | [] => true
  | m0 :: rest => rest.all fun m => sameKeys m0.keys m.keys && m0.dims == m.dims

/-- `stack_ds` / `concatenate_ds` (+ `reindex_axis`) of Datasets held in memory, chosen as `_read_multinc` chooses -/
def joinMem {α} [Inhabited α] (nan : α) (mems : List (Ds α)) (o : MultiOpts) (defaultKeys : List Label) : Except Err (Ds α) :=
  joinRead nan mems (mems.head?.map (·.dims)) o defaultKeys

end OnDisk
end DimModel

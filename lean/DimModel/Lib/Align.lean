/-
Mirror of the DimArray methods of dimarray/core/align.py: reindex_axis, reindex_like, sort_axis,
and of DimArray.take_axis (core/dimarraycls.py).
-/
import DimModel.Lib.GetSet
namespace DimModel
namespace Lib

/-- `self.axes[axis]` / `_get_axis_info`: position of an axis given by name or by position -/
def axisPos (axes : List Axis) (k : DimKey) : Except Err Nat :=
  match k with
  | .name s =>
    let p := (axes.map (·.name)).idxOf s
    if p < axes.length then .ok p else .error .value     -- list.index raises ValueError
  | .pos i =>
    let n : Int := axes.length
    let j := if i < 0 then i + n else i
    if j < 0 || j ≥ n then .error .index else .ok j.toNat

/-- `Axis.take(indices)` : metadata of the axis is kept -/
def axisTake (ax : Axis) (ps : List Nat) : Axis :=
  { name := ax.name, labels := ps.map (fun p => ax.labels.getD p Label.none), kind := ax.kind, attrs := ax.attrs }

/-- `take_axis(indices, axis, indexing='position')` with in-range positions -/
def takeAxisPos {α} (a : DimArray α) (pos : Nat) (ps : List Nat) : DimArray α :=
  { axes := a.axes.mapIdx (fun i ax => if i == pos then axisTake ax ps else ax)
    vals := a.vals.takeAxis pos ps
    vkind := a.vkind, attrs := a.attrs }

/-- `ax.values.take(indices) != values` -/
def mismatchMask (L : List Label) (indices : List Nat) (newL : List Label) : List Bool :=
  (indices.zip newL).map (fun pv => L.getD pv.1 Label.none != pv.2)

/-- `reindex_axis(values, axis, fill_value, raise_error, method)`.
`fill` is the cell standing for `fill_value`, `fillKind` its dtype kind, `newKind` the dtype kind of
the requested labels. -/
def reindexAxis {α} (a : DimArray α) (axis : DimKey) (newL : List Label) (newKind : Kind)
    (fill : α) (fillKind : Kind) (raiseErr : Bool) (method : Option Side) : Except Err (DimArray α) := do
  let pos ← axisPos a.axes axis
  let ax := a.axes.getD pos default
  let L := ax.labels
  -- locate_many on an empty axis cannot `take` (NumPy raises IndexError) unless nothing is requested
  if L.isEmpty && !newL.isEmpty then .error .index else
  let indices := locateMany L newL (method.getD .left)
  let newobj := takeAxisPos a pos indices
  let mask := mismatchMask L indices newL
  if mask.any id then
    if raiseErr then .error .index else
    let vals : NDArr α :=
      if method.isNone then
        newobj.vals.putWhere (fun j => mask.getD (j.getD pos 0) false) (fun _ => fill)
      else newobj.vals
    let vkind := if method.isNone then maybeCastKind a.vkind fillKind else a.vkind
    -- newobj.axes[axis][mask] = values[mask]   (label kind widened by _maybe_cast_type)
    let newax : Axis :=
      { name := ax.name, labels := newL.zipIdx.map (fun (v, k) => if mask.getD k false then v else L.getD (indices.getD k 0) Label.none)
        kind := maybeCastKind ax.kind newKind, attrs := ax.attrs }
    pure { axes := a.axes.mapIdx (fun i x => if i == pos then newax else x), vals := vals, vkind := vkind, attrs := a.attrs }
  else pure newobj

/-- `reindex_like(other)`: every axis of `self` whose name appears in the template -/
def reindexLike {α} (a : DimArray α) (tmpl : List Axis) (fill : α) (fillKind : Kind) (raiseErr : Bool)
    (method : Option Side) : Except Err (DimArray α) :=
  a.axes.foldlM (fun obj ax =>
    match tmpl.find? (·.name == ax.name) with
    | some t => reindexAxis obj (.name ax.name) t.labels t.kind fill fillKind raiseErr method
    | none => pure obj) a

/-- `sort_axis(axis)` (no key): stable argsort of the labels, then positional take -/
def sortAxis {α} (a : DimArray α) (axis : DimKey) : Except Err (DimArray α) := do
  let pos ← axisPos a.axes axis
  let ax := a.axes.getD pos default
  pure (takeAxisPos a pos (argsortBy Label.le ax.labels))

end Lib
end DimModel

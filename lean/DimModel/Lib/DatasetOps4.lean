/-
Mirror of `Dataset.take(names=, indices=, axis=, indexing=, tol=, keepdims=)` (dimarray/dataset.py) for EVERY spelling
of the index `_get_indices` accepts - a tuple over the Dataset's dimensions, a dict over several dimensions (str or
int keys), `(indices, axis=)`, tolerance (`tol=`, `.nloc`), `keepdims=` - and for `names=`:

    tuple_indices = self._get_indices(indices, axis=axis, tol=tol, keepdims=keepdims, indexing=indexing)  # on the DATASET's axes
    dict_indices = {dim: tuple_indices[i] for i, dim in enumerate(self.dims)}
    data = Dataset(); data.axes = self._getaxes_ortho(tuple_indices)
    for nm in names:          # names=None: every key, in the Dataset's order
        data[nm] = self[nm].take(indices={dim: dict_indices[dim] for dim in self[nm].dims}, indexing='position')
        data[nm].attrs.update(self[nm].attrs)
    data.attrs.update(self.attrs)

The index is resolved ONCE (labels, tolerance, keepdims) on the Dataset's axes; every read variable is then indexed by
POSITION along the dimensions it has, with the resolved NumPy indices of these dimensions (a variable that lacks a
dimension named in the index is simply not indexed along it; a 0-d variable is read as it is); the result is laid out
on the Dataset's selected axes first, then one `__setitem__` per name (`DSV.setItem`).
-/
import DimModel.Lib.DatasetOps3
namespace DimModel
namespace Lib

/-- `DimArray.take(indices={dim: raw ...}, indexing='position')` with NumPy indices that are already resolved (one per
dimension of the array): `_get_indices` in position mode only checks the size of a boolean index and hands the rest
over; then `_getaxes_ortho` / `_getvalues_ortho` as in `Lib.take`.  (A variable indexed down to a scalar comes back
from `Dataset.__setitem__` as a 0-d DimArray and gets the variable's metadata again.) -/
def takeRaw {α} (v : DimArray α) (raw : List RawIx) : Except Err (DimArray α) := do
  let raw ← (raw.zip v.axes).mapM fun (r, ax) =>
    match r with
    | .mask m => if m.length == ax.size then pure (RawIx.mask m) else .error .index
    | r => pure r
  let pix ← (raw.zip v.axes).mapM fun (r, ax) => resolveRaw r ax.size
  pure { axes := getAxesOrtho v.axes raw pix, vals := v.vals.outer pix, vkind := v.vkind, attrs := v.attrs }

end Lib

namespace DSV
open Lib

/-- `{dim: dict_indices[dim] for dim in self[nm].dims}`: the resolved indices of the dimensions the variable has, in
the variable's order -/
def rawFor (dims : List String) (raw : List RawIx) (v : List Axis) : List RawIx :=
  v.map fun ax => raw.getD (dims.idxOf ax.name) (RawIx.slice none none none)

/-- `Dataset.take(names=names, indices=ui, ...)`, any form of index.  `names = none`: all keys.  A name that is not a
key raises KeyError (a name that is a DIMENSION of the Dataset but not a key reads the axis as a variable: not
mirrored, the tie does not send it). -/
def takeDsMulti {α} (ds : Ds α) (names : Option (List String)) (ui : UserIndex) (cfg : IndexCfg) : Except Err (Ds α) := do
  let raw ← getIndices ds.axes ui cfg
  -- data.axes = self._getaxes_ortho(tuple_indices)
  let pix ← (raw.zip ds.axes).mapM fun (r, ax) => resolveRaw r ax.size
  let start : Ds α := { axes := getAxesOrtho ds.axes raw pix, vars := [], attrs := [] }
  let out ← (names.getD ds.keys).foldlM (fun acc nm =>
      match ds.get? nm with
      | none => .error .key
      | some v => do
        let r ← takeRaw v (rawFor ds.dims raw v.axes)
        setItem acc nm r) start
  pure { out with attrs := ds.attrs }

end DSV
end DimModel

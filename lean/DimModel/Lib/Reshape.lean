/-
Mirror of dimarray/core/reshape.py (transpose, swapaxes, rollaxis, repeat, newaxis, squeeze,
broadcast, flatten, unflatten, reshape) and of align.py align_dims / _get_axes / broadcast_arrays.
-/
import DimModel.Lib.Axes
namespace DimModel
namespace Lib

def splitOnComma (s : String) : List String := s.splitOn ","

/-- `MultiAxis(*axes)` -/
def multiAxis (ms : List Axis) : Axis :=
  { name := ",".intercalate (ms.map (·.name)), labels := [], kind := .O, members := ms.map Axis.toAxis0 }

/-- `_get_axes_info(dims)` : positions for a list of names / ints, keys examined from left to right (the first bad key
decides the error class).  A name goes through `self.dims.index(name)` (ValueError); an int is returned AS IS (negative
positions stay negative) after `self.axes[idx].name` has been evaluated, a `list.__getitem__` which raises IndexError
for a position outside [-ndim, ndim) -/
def axesPositions {α} (a : DimArray α) (ks : List DimKey) : Except Err (List Int) :=
  ks.mapM fun k => match k with
    | .name s =>
      let p := a.dims.idxOf s
      if p < a.dims.length then .ok (p : Int) else .error .value
    | .pos i => if i < -(a.ndim : Int) || i ≥ (a.ndim : Int) then .error .index else .ok i

/-- NumPy's validation of a permutation passed to `ndarray.transpose` -/
def normPerm (n : Nat) (p : List Int) : Except Err (List Nat) := do
  if p.length != n then .error .value else
  let q ← p.mapM fun (i : Int) =>
    let j : Int := if i < 0 then i + (n : Int) else i
    if j < 0 || j ≥ (n : Int) then (.error .value : Except Err Nat)   -- (unreachable from `transpose`: `_get_axes_info` has validated the positions)
    else .ok j.toNat
  if q.eraseDups.length != q.length then .error .value else pure q

/-- `transpose(*dims)` with explicit dims -/
def transposeBy {α} (a : DimArray α) (p : List Nat) : DimArray α :=
  { axes := p.map (fun k => a.axes.getD k default), vals := a.vals.transpose p, vkind := a.vkind, attrs := a.attrs }

def transpose {α} (a : DimArray α) (ks : Option (List DimKey)) : Except Err (DimArray α) := do
  let ks ← match ks with
    | some l => if l.isEmpty then (if a.ndim == 2 then pure [DimKey.pos 1, .pos 0]
                                   else if a.ndim == 1 then pure [DimKey.pos 0]
                                   else if a.ndim == 0 then pure []
                                   else .error .value) else pure l
    | none => if a.ndim == 2 then pure [DimKey.pos 1, .pos 0]
              else if a.ndim == 1 then pure [DimKey.pos 0]
              else if a.ndim == 0 then pure []
              else .error .value
  if a.ndim == 0 && ks.isEmpty then pure a else
  let pi ← axesPositions a ks
  let p ← normPerm a.ndim pi
  pure (transposeBy a p)

def swapaxes {α} (a : DimArray α) (k1 k2 : DimKey) : Except Err (DimArray α) := do
  let ps ← axesPositions a [k1, k2]
  let norm (p : Int) : Int := if p < 0 then p + a.ndim else p     -- negative positions count from the end
  let p1 := norm (ps.getD 0 0)
  let p2 := norm (ps.getD 1 0)
  let perm : List Int := (List.range a.ndim).map fun (i : Nat) =>
    if (i : Int) == p1 then p2 else if (i : Int) == p2 then p1 else (i : Int)
  let p ← normPerm a.ndim perm
  pure (transposeBy a p)

/-- the permutation `np.rollaxis` applies.  Both refusals are NumPy's `AxisError`, a subclass of ValueError AND of
IndexError: the harness (and any `except IndexError`) reads it as an IndexError.  The first one is unreachable from
`rollaxis`, whose `_get_axis_info` has refused the position before (plain IndexError) -/
def rollPerm (n : Nat) (axis start : Int) : Except Err (List Nat) :=
  let ax := if axis < 0 then axis + n else axis
  if ax < 0 || ax ≥ (n : Int) then .error .index else
  let st := if start < 0 then start + n else start
  if st < 0 || st > (n : Int) then .error .index else
  let st := if st > ax then st - 1 else st
  let rest := (List.range n).filter (· != ax.toNat)
  .ok (rest.insertIdx st.toNat ax.toNat)

def rollaxis {α} (a : DimArray α) (k : DimKey) (start : Int) : Except Err (DimArray α) := do
  let ps ← axesPositions a [k]
  let p ← rollPerm a.ndim (ps.getD 0 0) start
  pure (transposeBy a p)

/-- `repeat(values, axis)` : only singleton axes can be repeated -/
def repeatAxis {α} (a : DimArray α) (newax : Axis) (k : DimKey) : Except Err (DimArray α) := do
  let pos ← axisPos a.axes k
  let ax := a.axes.getD pos default
  if ax.size != 1 then .error .value else
  pure { axes := a.axes.set pos { newax with name := ax.name }, vals := a.vals.repeatDim pos newax.labels.length,
         vkind := a.vkind, attrs := a.attrs }

/-- `newaxis(name, values=None, pos)` -/
def newaxis {α} (a : DimArray α) (name : String) (pos : Int) (vals : Option Axis) : Except Err (DimArray α) := do
  if a.dims.contains name then .error .value else
  let p : Int := if pos < 0 then pos + (a.ndim : Int) + 1 else pos
  if p < 0 || p > (a.ndim : Int) then .error .index else
  let ax : Axis := { name := name, labels := [Label.none], kind := .O }
  let o : DimArray α := { axes := a.axes.insertIdx p.toNat ax, vals := a.vals.insertDim p.toNat, vkind := a.vkind, attrs := a.attrs }
  match vals with
  | none => pure o
  | some v => repeatAxis o v (.pos p)

/-- `squeeze(axis)` -/
def squeeze {α} (a : DimArray α) (k : Option DimKey) : Except Err (DimArray α) :=
  match k with
  | none =>
    let keep := (List.range a.ndim).filter (fun i => (a.axes.getD i default).size != 1)
    .ok { axes := keep.map (fun i => a.axes.getD i default)
          vals := { shape := keep.map (fun i => a.vals.shape.getD i 0)
                    get := fun j => a.vals.get ((List.range a.ndim).map fun d => j.getD (keep.idxOf d) 0) }
          vkind := a.vkind, attrs := a.attrs }
  | some k => do
    let pos ← axisPos a.axes k
    if (a.axes.getD pos default).size != 1 then .error .value else
    pure { axes := a.axes.eraseIdx pos, vals := a.vals.dropDim pos, vkind := a.vkind, attrs := a.attrs }

/-- `unflatten(axis)` for the (MultiAxis) axis at position `pos` -/
def unflattenAt {α} (a : DimArray α) (pos : Nat) : DimArray α :=
  let g := a.axes.getD pos default
  let ms := g.members.map Axis0.toAxis
  let newshape := a.vals.shape.take pos ++ ms.map (·.size) ++ a.vals.shape.drop (pos + 1)
  { axes := a.axes.take pos ++ ms ++ a.axes.drop (pos + 1), vals := a.vals.reshape newshape, vkind := a.vkind, attrs := a.attrs }

/-- `unflatten()` : every grouped axis, one after the other -/
def unflattenAll {α} (a : DimArray α) : DimArray α :=
  let rec go (fuel : Nat) (o : DimArray α) : DimArray α :=
    match fuel with
    | 0 => o
    | fuel + 1 =>
      match (List.range o.ndim).find? (fun i => (o.axes.getD i default).isMulti) with
      | none => o
      | some i => go fuel (unflattenAt o i)
  go a.ndim a

/-- `flatten(dims, insert=...)` with the dimensions given by name, in the order of grouping.
`insert = none` is the default (position of the first listed dimension). After fix F5 the insert
position is clamped to the number of remaining dimensions. -/
def flatten {α} (a : DimArray α) (dims : List String) (insert : Option Nat) : Except Err (DimArray α) := do
  if dims.isEmpty then .error .index else     -- dims[0]
  if dims.any (fun d => !a.dims.contains d) then .error .value else
  let ii := a.dims.idxOf (dims.headD "")
  let rest := a.dims.filter (fun d => !dims.contains d)
  let ins := min (insert.getD ii) rest.length
  let newdims := rest.take ins ++ dims ++ rest.drop ins
  let p := newdims.map (fun d => a.dims.idxOf d)
  if p.eraseDups.length != p.length || p.length != a.ndim then .error .value else
  let b := transposeBy a p
  let members := b.axes.filter (fun ax => dims.contains ax.name)
  let others := b.axes.filter (fun ax => !dims.contains ax.name)
  let newaxes := others.take ins ++ [multiAxis members] ++ others.drop ins
  pure { axes := newaxes, vals := b.vals.reshape (newaxes.map (·.size)), vkind := a.vkind, attrs := a.attrs }

/-- `reshape(*newdims)` -/
def reshape {α} (a : DimArray α) (newdims : List String) : Except Err (DimArray α) := do
  if newdims == a.dims then pure a else
  if newdims.eraseDups.length != newdims.length then .error .assertion else
  let o := unflattenAll a
  let flat := newdims.flatMap splitOnComma
  if flat.eraseDups.length != flat.length then .error .assertion else
  -- squeeze the dimensions that are not in the target
  let o ← o.dims.foldlM (fun (o : DimArray α) d => if flat.contains d then pure o else squeeze o (some (.name d))) o
  -- transpose
  let o ← transpose o (some ((flat.filter (fun d => o.dims.contains d)).map DimKey.name))
  -- add the new singleton dimensions
  let o ← flat.zipIdx.foldlM (fun (o : DimArray α) (d, i) =>
    if o.dims.contains d then pure o else newaxis o d (i : Int) none) o
  -- group
  let o ← newdims.zipIdx.foldlM (fun (o : DimArray α) (d, i) =>
    if d.contains ',' then flatten o (splitOnComma d) (some i) else pure o) o
  if o.dims != newdims then .error .value else pure o

/-- `_get_axes(*arrays)` : common axes of axis-aligned arrays, singleton axes are exempt -/
def getAxesAligned (arrays : List (List Axis)) : Except Err (List Axis) :=
  (getDims arrays).mapM fun d =>
    let having := arrays.filterMap (fun axes => axes.find? (·.name == d))
    let step (acc : Except Err (Option Axis)) (ax : Axis) : Except Err (Option Axis) := do
      let c ← acc
      let common := match c with
        | none => ax
        | some c => if c.size == 1 && ax.size != 1 then ax else c
      if !(ax.size == 1 || ax.labels == common.labels) then .error .value else pure (some common)
    match having.foldl step (.ok none) with
    | .ok (some c) => .ok c
    | .ok none => .error .other
    | .error e => .error e

/-- `align_dims(*arrays)` -/
def alignDims {α} (arrays : List (DimArray α)) : Except Err (List (DimArray α)) :=
  if (arrays.map (·.dims)).eraseDups.length ≤ 1 then pure arrays
  else
    let newdims := getDims (arrays.map (·.axes))
    arrays.mapM (fun o => reshape o newdims)

/-- `broadcast(other)` with the target given as a list of axes.  The repeat is asked for with the target axis' LABELS
only (`newobj.repeat(newaxis.values, axis=newaxis.name)`): the repeated axis is a fresh `Axis(values, name)` and
carries no metadata -/
def broadcast {α} (a : DimArray α) (target : List Axis) : Except Err (DimArray α) := do
  let o ← reshape a (target.map (·.name))
  target.reverse.foldlM (fun (o : DimArray α) t =>
    match o.axes.find? (·.name == t.name) with
    | some ax => if ax.size == 1 && (t.size != 1 || !a.dims.contains t.name)
        then repeatAxis o t.bare (.name t.name) else pure o
    | none => .error .value) o

/-- `broadcast_arrays(*arrays)` -/
def broadcastArrays {α} (arrays : List (DimArray α)) : Except Err (List (DimArray α)) := do
  let arrs ← alignDims arrays
  let axes ← getAxesAligned (arrs.map (·.axes))
  arrs.mapM (fun o => broadcast o axes)

end Lib
end DimModel

/-
C14 (extension "c14ops3") - mirrors of the remaining Dataset-wide forms of dimarray/dataset.py:
`take_axis(indexing="position", mode=raise/clip/wrap)` with raw (possibly negative / out-of-range) positions,
`reindex_axis` with `method=` and `raise_error=True`, the reductions without an axis (`axis=None`).
-/
import DimModel.Lib.DatasetOps2
namespace DimModel
namespace Lib

/-- `mode=` of `numpy.take` -/
inductive TakeMode | raise | clip | wrap
  deriving DecidableEq, Repr, Inhabited

/-- what `numpy.take(..., mode=mode)` makes of one integer index along an axis of length `n`:
'raise': a negative index counts from the end (once), anything outside `-n .. n-1` is an IndexError;
'clip': negative indices become 0, indices beyond the end become `n - 1`;
'wrap': the index modulo `n` -/
def takePos (n : Nat) (mode : TakeMode) (i : Int) : Except Err Nat :=
  match mode with
  | .raise =>
    let j := if i < 0 then i + n else i
    if j < 0 || j ≥ (n : Int) then .error .index else .ok j.toNat
  | .clip => .ok (if i < 0 then 0 else if i ≥ (n : Int) then n - 1 else i.toNat)
  | .wrap => .ok (i % (n : Int)).toNat

/-- `DimArray.take_axis(indices, axis, indexing='position', mode=mode)`: `self.values.take(indices, axis=pos, mode=mode)`
and `ax.take(indices, mode=mode)` (NumPy refuses a non-empty take from an empty axis whatever the mode) -/
def takeAxisInts {α} (a : DimArray α) (k : DimKey) (is : List Int) (mode : TakeMode) : Except Err (DimArray α) := do
  let pos ← axisPos a.axes k
  let ax := a.axes.getD pos default
  if ax.size == 0 && !is.isEmpty then .error .index else
  let ps ← is.mapM (takePos ax.size mode)
  pure (takeAxisPos a pos ps)

end Lib
namespace DSV
open Lib

/-- `Dataset.take_axis(indices, axis, indexing='position', mode=mode)`: the axis (name or position among the DATASET's
dimensions) is resolved on the Dataset; `newaxis = self.axes[axis].take(indices, mode=mode)` - NumPy resolves the
positions against the Dataset's axis - and every variable that has the dimension is rebuilt by `reduce_axis` with
`np.take(values, indices, axis=pos, mode=mode)` -/
def takeAxisIntsDs {α} (ds : Ds α) (axis : DimKey) (is : List Int) (mode : TakeMode) : Except Err (Ds α) := do
  let name ← dsAxisName ds axis
  match ds.axes.find? (·.name == name) with
  | none => .error .value
  | some ax =>
    let ps ← is.mapM (takePos ax.size mode)
    takeAxisPosDs ds name ps

/-- `Dataset.reindex_axis(values, axis, fill_value, raise_error, method)` in full: `locate_many(..., side=method or
'left')`, the clipped positional take, then - when some requested label did not match - IndexError with
raise_error=True, otherwise the requested labels are written into the (shared) new axis and, with method=None only,
the corresponding slices of every variable that has the dimension are filled (`put(..., cast=True)`) -/
def reindexAxisDsM {α} (ds : Ds α) (name : String) (newL : List Label) (newKind : Kind) (fill : α) (fillKind : Kind)
    (raiseErr : Bool) (method : Option Side) : Except Err (Ds α) :=
  match ds.axes.find? (·.name == name) with
  | none => .error .value
  | some ax => do
    let L := ax.labels
    if L.isEmpty && !newL.isEmpty then .error .index else
    let indices := locateMany L newL (method.getD .left)
    let taken ← takeAxisPosDs ds name indices
    let mask := mismatchMask L indices newL
    if !(mask.any id) then pure taken else
    if raiseErr then .error .index else
    let newax : Axis :=
      { name := name
        labels := newL.zipIdx.map (fun (v, k) => if mask.getD k false then v else L.getD (indices.getD k 0) Label.none)
        kind := maybeCastKind ax.kind newKind
        attrs := ax.attrs }         -- `dataset.axes[axis][mask] = values[mask]` writes into the taken axis
    pure { taken with
      axes := taken.axes.map fun a => if a.name == name then newax else a
      vars := taken.vars.map fun kv =>
        let item := kv.2
        let pos := item.dims.idxOf name
        if pos < item.dims.length then
          (kv.1, { item with
            axes := item.axes.map fun a => if a.name == name then newax else a
            vals := if method.isNone then
                item.vals.putWhere (fun j => mask.getD (j.getD pos 0) false) (fun _ => fill)
              else item.vals
            vkind := if method.isNone then maybeCastKind item.vkind fillKind else item.vkind })
        else kv }

/-- what `getattr(self[k], funcname)(axis=None)` returns, as `Dataset(dict)` sees it: `DimArray.<reduction>(axis=None)`
(`Lib.reduceAxis` with `AxisArg.none`: NumPy's reduction of all cells, a scalar), wrapped by `DimArray(scalar)` -/
def reduceAllVarDs {α} (red : List α → α) (v : DimArray α) : Except Err (DimArray α) := do
  let r ← reduceAxis red v .none
  match r with
  | .inl c => pure (scalarVar c v.vkind)
  | .inr a => pure a

/-- `Dataset.mean / std / var / median / sum (axis=None)` = `_apply_dimarray_axis(funcname, axis=None)`: no dimension is
looked up, EVERY variable - the 0-d ones too - is replaced by its reduction, then `Dataset(dict)` -/
def reduceAllDs {α} (nan : α) (red : List α → α) (ds : Ds α) : Except Err (Ds α) := do
  let vars ← ds.vars.mapM fun kv => do let r ← reduceAllVarDs red kv.2; pure (kv.1, r)
  fromVars nan vars

end DSV
end DimModel

/-
Mirror of dimarray/core/align.py `stack`, `concatenate`, `_check_stack_axis`, `_concatenate_axes`
(after fixes F6, F9, F14: inputs are matched by dimension name, never by position).
-/
import DimModel.Lib.Reshape
namespace DimModel
namespace Lib

/-- `_check_stack_axis(axis, dims)` -/
def checkStackAxis (axis : Option String) (dims : List String) : Except Err String :=
  match axis with
  | none =>
    if !dims.contains "unnamed" then .ok "unnamed"
    else
      let rec go (fuel i : Nat) : String :=
        match fuel with
        | 0 => s!"unnamed_{i}"
        | fuel + 1 => if dims.contains s!"unnamed_{i}" then go fuel (i + 1) else s!"unnamed_{i}"
      .ok (go (dims.length + 1) 1)
  | some a => if dims.contains a then .error .value else .ok a

/-- list the dimensions of every array in the order of the first one (ValueError when the sets differ) -/
def reorderLikeFirst {α} (arrays : List (DimArray α)) : Except Err (List (DimArray α)) :=
  match arrays with
  | [] => .error .index
  | a0 :: _ =>
    arrays.mapM fun a =>
      if a.dims == a0.dims then pure a
      else match transpose a (some (a0.dims.map DimKey.name)) with
        | .ok r => pure r
        | .error _ => .error .value

/-- `stack(arrays, axis, keys, align)` -/
def stack {α} [Inhabited α] (nan : α) (arrays : List (DimArray α)) (axis : Option String) (keys : List Label)
    (keyKind : Kind) (doAlign sort : Bool) : Except Err (DimArray α) := do
  let dims := getDims (arrays.map (·.axes))
  let name ← checkStackAxis axis dims
  let arrays ← if doAlign then align nan arrays .outer none sort true else pure arrays
  let arrays ← reorderLikeFirst arrays
  -- np.array([a.values ...]) needs equal shapes
  let shape0 := (arrays.head?.map (·.vals.shape)).getD []
  if arrays.any (fun a => a.vals.shape != shape0) then .error .value else
  let axes ← getAxesAligned (arrays.map (·.axes))
  -- every axis of every input must carry the labels of the common axis (no singleton exemption)
  if arrays.any (fun a => a.axes.any fun ax =>
      match axes.find? (·.name == ax.name) with
      | some c => c.labels != ax.labels
      | none => true) then .error .value else
  let newaxis : Axis := { name := name, labels := keys, kind := keyKind }
  if keys.length != arrays.length then .error .other else
  pure { axes := newaxis :: axes.map (fun ax => { ax with }), vals := NDArr.stackNew (arrays.map (·.vals)),
         vkind := (arrays.head?.map (·.vkind)).getD .f, attrs := [] }

/-- concatenation of the values of several arrays along `pos` -/
def concatVals {α} (vs : List (NDArr α)) (pos : Nat) : Option (NDArr α) :=
  match vs with
  | [] => none
  | v :: rest => some (rest.foldl (fun acc x => acc.concat2 x pos) v)

/-- `concatenate(arrays, axis, align)` -/
def concatenate {α} (nan : α) (arrays : List (DimArray α)) (axis : DimKey) (doAlign sort : Bool) :
    Except Err (DimArray α) := do
  let a0 ← match arrays with | a :: _ => pure a | [] => .error .index
  let pos ← match axis with
    | .name s => let p := a0.dims.idxOf s; if p < a0.dims.length then pure p else .error .value
    | .pos i =>
      -- `arrays[0].dims[axis]` (negative positions count from the end), then `dims.index(dim)`
      let i := if i < 0 then i + (a0.ndim : Int) else i
      if i < 0 || i ≥ (a0.ndim : Int) then .error .index else pure i.toNat
  let dim := a0.dims.getD pos ""
  -- align secondary axes prior to concatenate
  let arrays ← if doAlign then
      a0.axes.foldlM (fun arrs ax => if ax.name != dim then align nan arrs .outer (some ax.name) sort true else pure arrs) arrays
    else pure arrays
  let arrays ← reorderLikeFirst arrays
  let a0 := arrays.headD a0
  -- np.concatenate: all dimensions but `pos` must match
  if arrays.any (fun a => a.vals.shape.eraseIdx pos != a0.vals.shape.eraseIdx pos || a.ndim != a0.ndim) then .error .value else
  let subaxes := a0.axes.eraseIdx pos
  -- secondary axes must match
  if !doAlign && arrays.any (fun a => subaxes.any fun ax =>
      match a.axes.find? (·.name == ax.name) with
      | some x => x.labels != ax.labels
      | none => true) then .error .value else
  let catLabels := arrays.flatMap (fun a => (a.axes.getD pos default).labels)
  let catKind := arrays.foldl (fun k a => (getCastKind k (a.axes.getD pos default).kind).1) (a0.axes.getD pos default).kind
  let newaxis : Axis := { name := dim, labels := catLabels, kind := catKind }
  match concatVals (arrays.map (·.vals)) pos with
  | none => .error .value
  | some v => pure { axes := (subaxes.take pos ++ [newaxis] ++ subaxes.drop pos).map (fun ax => { ax with attrs := ax.attrs }),
                     vals := v, vkind := a0.vkind, attrs := [] }

end Lib
end DimModel

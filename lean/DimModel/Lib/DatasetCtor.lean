/-
`Dataset.__init__` from a dict / list of arrays whose labels differ (dimarray/dataset.py):
```
values = align_axes(values)              # core.align.align: join='outer', every axis, no sort, not strict
for key, value in zip(keys, values):
    self[key] = value                    # __setitem__, one by one, from the empty dataset
```
as an operation of the heap-level state machine `DS` (Lib/Dataset.lean), composed from the existing mirror of `align`
(Lib/Axes.lean: `getAlignedAxes` + `reindexAxis` on every array whose axis differs from the common one).
-/
import DimModel.Lib.Dataset
namespace DimModel
namespace DS

/-- the axes of an array as `setVar` takes them -/
def axesSpec {α} (v : DimArray α) : List (String × List Label × Kind) := v.axes.map fun ax => (ax.name, ax.labels, ax.kind)

/-- the `__setitem__` calls of the constructor, in order -/
def ctorOps {α} (keys : List String) (vals : List (DimArray α)) : List Op :=
  (keys.zip vals).map fun kv => .setVar kv.1 (axesSpec kv.2)

/-- run a list of operations, stopping at the first one that raises (an exception leaves `__init__`) -/
def runAll : State → List Op → Except Err State
  | s, [] => .ok s
  | s, op :: ops =>
    match step s op with
    | (_, .error e) => .error e
    | (s', .ok _) => runAll s' ops

/-- `Dataset(dict(zip(keys, arrays)))`: the aligned arrays (each input reindexed onto the outer-join axes) and the state
after inserting them one by one -/
def construct {α} (nan : α) (keys : List String) (arrays : List (DimArray α)) :
    Except Err (List (DimArray α) × State) := do
  let vals ← Lib.align nan arrays .outer none false false
  let s ← runAll init (ctorOps keys vals)
  pure (vals, s)

end DS
end DimModel

/-
Mirror of the CACHED state of `dimarray.core.axes.Axis`: the private attribute `_monotonic`
(None / True / False), every public `Axis` operation that writes it, copies it or reads it, as an
executable state machine over a heap of Axis objects (operations may return the very object they were
given - `ax[:]`, `Axis.union` with an empty operand - so objects are addressed by reference).

Where the cache is written / read in dimarray/core/axes.py (current /repo):
  __init__            _monotonic = None
  values setter       size check (ValueError), then _monotonic = None
  sort                in-place sort, _monotonic = None
  __getitem__         `ax[:]` returns self; a slice copies the flag ONLY when it is truthy (True);
                      lists / arrays build a fresh Axis (None); scalars return the label
  __setitem__         `_maybe_cast_type` into a local array, the NumPy assignment (which may raise),
                      then labels and _monotonic = None are committed - a refused assignment changes
                      nothing (since the repair F72; before it the cast array and the OLD flag stayed)
  take, cast          fresh Axis (None)
  copy                deepcopy: the flag is copied as it is
  is_monotonic()      fills the flag with `indexing.is_monotonic(values)` (STRICT) when it is None
  union               `_check_axes_merge` may replace either operand by a cast COPY (fresh, None);
                      equal labels -> `self.copy()` (flag copied); an empty operand -> the OTHER
                      OBJECT itself is returned; else `consistent_kinds and self.is_monotonic() and
                      other.is_monotonic() and same_slope` (short-circuit: the flags of the operands
                      are filled as a side effect, in this order, only as far as evaluated)
  intersection        equal labels -> `self.copy()`; else fresh
`AbstractAxis.loc` / `locate_slice` do NOT read the flag (they recompute `is_monotonic_equal` on the
values; `issorted` is a caller-supplied argument), so the only readers are `is_monotonic()`,
`union` and the flag copy in `__getitem__`.
Labels are exact rationals / strings (`Label`): an int -> float cast keeps the label (|int| < 2^53).
-/
import DimModel.Lib.Axes
namespace DimModel
namespace AxisCache
open Lib

/-- one `Axis` object: labels, dtype kind, and the cached `_monotonic` -/
structure CAxis where
  labels : List Label
  kind : Kind
  mono : Option Bool := none
  deriving DecidableEq, Repr, Inhabited

/-- `Axis(values)` -/
def fresh (L : List Label) (k : Kind) : CAxis := { labels := L, kind := k, mono := none }

/-- the freshly constructed axis with the same labels -/
def CAxis.forget (a : CAxis) : CAxis := { a with mono := none }

/-- `Axis.is_monotonic()` : answer and the object afterwards -/
def CAxis.isMono (a : CAxis) : Bool × CAxis :=
  match a.mono with
  | some b => (b, a)
  | none => (isMonotonic a.labels, { a with mono := some (isMonotonic a.labels) })

/-- the heap of live Axis objects -/
abbrev St := List CAxis

def forget (s : St) : St := s.map CAxis.forget

/-- what an operation returns (never the private flag) -/
inductive Res
  | unit
  | ref (i : Nat)
  | label (l : Label)
  | bool (b : Bool)
  | labels (L : List Label) (k : Kind)
  | err (e : Err)
  deriving DecidableEq, Repr, Inhabited

inductive AOp
  | construct (L : List Label) (k : Kind)                    -- Axis(values, name)
  | setValues (i : Nat) (L : List Label) (k : Kind)          -- ax.values = L
  | setItem (i : Nat) (pos : Int) (v : Label) (vk : Kind)    -- ax[pos] = v
  | setAll (i : Nat) (L : List Label) (vk : Kind)            -- ax[:] = L   (also Axis.set(values=L))
  | getSlice (i : Nat) (s e st : Option Int)                 -- ax[s:e:st]
  | getList (i : Nat) (ps : List Int)                        -- ax[np.array(ps)]
  | getScalar (i : Nat) (p : Int)                            -- ax[p]
  | take (i : Nat) (ps : List Int)                           -- ax.take(ps)
  | isMonotonic (i : Nat)                                    -- ax.is_monotonic()
  | copy (i : Nat)                                           -- ax.copy()
  | sort (i : Nat)                                           -- ax.sort()
  | cast (i : Nat) (k : Kind)                                -- ax.cast(dtype), dtype of ANOTHER kind (a converting copy); with the
                                                             -- kind the axis already has np.asarray returns the same array: the two
                                                             -- Axis objects then SHARE their labels, which this heap does not model
                                                             -- (open finding, parked in the tie: SKIP_CAST_SAME_KIND_SHARES_LABELS)
  | union (i j : Nat)                                        -- ax_i.union(ax_j)
  | intersection (i j : Nat)                                 -- ax_i.intersection(ax_j)
  | labels (i : Nat)                                         -- ax.values, ax.dtype.kind
  deriving Repr, Inhabited

/-- the effect of one operation: objects rewritten in place (in this order), at most one new object
(the result is then a reference to it), else the result -/
structure Eff where
  upd : List (Nat × CAxis) := []
  new : Option CAxis := none
  res : Res := .unit

def Eff.apply (s : St) (e : Eff) : St × Res :=
  let s1 := e.upd.foldl (fun t (p : Nat × CAxis) => t.set p.1 p.2) s
  match e.new with
  | some a => (s1 ++ [a], .ref s.length)
  | none => (s1, e.res)

/-- NumPy position normalisation: negative counts from the end, out of range is an IndexError -/
def normPos (n : Nat) (p : Int) : Option Nat :=
  let q := if p < 0 then p + n else p
  if 0 ≤ q ∧ q < n then some q.toNat else none

def pick (L : List Label) (ps : List Int) : Option (List Label) :=
  ps.mapM (fun p => (normPos L.length p).bind (L[·]?))

/-- labels selected by a slice: the flag copy in `__getitem__` relies on these keeping the order -/
def sliceLabels (L : List Label) (ps : List Nat) : List Label := ps.filterMap (L[·]?)

/-- `unionLabels` with the two `is_monotonic()` ANSWERS (which come from the caches) as arguments -/
def unionLabelsC (cons mA mB : Bool) (a b : List Label) : List Label :=
  if cons && mA && mB && sameSlope (slope a) (slope b) then
    (if decSlope (slope a) (slope b) then (union1d Label.le a b).reverse else union1d Label.le a b)
  else
    a ++ b.filter (fun v => !a.contains v)

/-- `Axis.union` after `_check_axes_merge`: `a'`, `b'` are the operands or their cast copies (`castA`, `castB`) -/
def unionCore (i j : Nat) (castA castB : Bool) (k : Kind) (cons : Bool) (a' b' : CAxis) : Eff :=
  if a'.labels == b'.labels then { new := some a' }                                  -- self.copy()
  else if a'.labels.isEmpty then (if castB then { new := some b' } else { res := .ref j })   -- return other
  else if b'.labels.isEmpty then (if castA then { new := some a' } else { res := .ref i })   -- return self
  else if !cons then { new := some (fresh (unionLabelsC false false false a'.labels b'.labels) k) }
  else
    -- self.is_monotonic() fills the flag of `self` (a side effect on object `i` unless `self` is a cast copy)
    let u1 := if castA then [] else [(i, a'.isMono.2)]
    if !a'.isMono.1 then { upd := u1, new := some (fresh (unionLabelsC true false false a'.labels b'.labels) k) }
    else
      -- other.is_monotonic(), evaluated only now (short-circuit `and`)
      let u2 := if castB then [] else [(j, b'.isMono.2)]
      { upd := u1 ++ u2, new := some (fresh (unionLabelsC true true b'.isMono.1 a'.labels b'.labels) k) }

/-- `Axis.union(self, other)` on objects `i`, `j` -/
def unionEff (i j : Nat) (a b : CAxis) : Eff :=
  let kc := getCastKind a.kind b.kind
  -- `_check_axes_merge`: an operand of another kind is replaced by a cast copy (a fresh Axis)
  unionCore i j (a.kind != kc.1) (b.kind != kc.1) kc.1 kc.2
    (if a.kind != kc.1 then fresh a.labels kc.1 else a) (if b.kind != kc.1 then fresh b.labels kc.1 else b)

/-- `Axis.intersection(self, other)` -/
def intersectionEff (a b : CAxis) : Eff :=
  let k := (getCastKind a.kind b.kind).1
  let a' := if a.kind != k then fresh a.labels k else a
  if a.labels == b.labels then { new := some a' }
  else if a.labels.isEmpty || b.labels.isEmpty then { new := some (fresh [] .f) }
  else { new := some (fresh (a.labels.filter (fun v => (b.labels.filter (fun w => a.labels.contains w)).contains v)) k) }

/-- the effect of `op` in state `s`; a dangling reference is not a library behaviour (the tie never
sends one): it answers `err other` and changes nothing -/
def eff (s : St) : AOp → Eff
  | .construct L k => { new := some (fresh L k) }
  | .setValues i L k =>
    match s[i]? with
    | none => { res := .err .other }
    | some a =>
      if a.labels.length != L.length then { res := .err .value }
      else { upd := [(i, { labels := L, kind := k, mono := none })] }
  | .setItem i pos v vk =>
    match s[i]? with
    | none => { res := .err .other }
    | some a =>
      let k' := maybeCastKind a.kind vk
      match normPos a.labels.length pos with
      | none => { res := .err .index }          -- refused: nothing changes (cast copy discarded, F72)
      | some p => { upd := [(i, { labels := a.labels.set p v, kind := k', mono := none })] }
  | .setAll i L vk =>
    match s[i]? with
    | none => { res := .err .other }
    | some a =>
      let k' := maybeCastKind a.kind vk
      if L.length == a.labels.length then { upd := [(i, { labels := L, kind := k', mono := none })] }
      else match L with
        | [v] => { upd := [(i, { labels := List.replicate a.labels.length v, kind := k', mono := none })] }
        | _ => { res := .err .value }             -- refused: nothing changes (F72)
  | .getSlice i s0 e0 st0 =>
    match s[i]? with
    | none => { res := .err .other }
    | some a =>
      if s0.isNone && e0.isNone && st0.isNone then { res := .ref i }           -- `ax[:]` is `ax`
      else match slicePositions s0 e0 st0 a.labels.length with
        | .error e => { res := .err e }
        | .ok ps => { new := some { labels := sliceLabels a.labels ps, kind := a.kind,
                                    mono := if a.mono == some true then some true else none } }
  | .getList i ps =>
    match s[i]? with
    | none => { res := .err .other }
    | some a =>
      match pick a.labels ps with
      | none => { res := .err .index }
      | some L => { new := some (fresh L a.kind) }
  | .getScalar i p =>
    match s[i]? with
    | none => { res := .err .other }
    | some a =>
      match (normPos a.labels.length p).bind (a.labels[·]?) with
      | none => { res := .err .index }
      | some l => { res := .label l }
  | .take i ps =>
    match s[i]? with
    | none => { res := .err .other }
    | some a =>
      match pick a.labels ps with
      | none => { res := .err .index }
      | some L => { new := some (fresh L a.kind) }
  | .isMonotonic i =>
    match s[i]? with
    | none => { res := .err .other }
    | some a => { upd := [(i, a.isMono.2)], res := .bool a.isMono.1 }
  | .copy i =>
    match s[i]? with
    | none => { res := .err .other }
    | some a => { new := some a }
  | .sort i =>
    match s[i]? with
    | none => { res := .err .other }
    | some a => { upd := [(i, { labels := sortBy Label.le a.labels, kind := a.kind, mono := none })] }
  | .cast i k =>
    match s[i]? with
    | none => { res := .err .other }
    | some a => { new := some (fresh a.labels k) }
  | .union i j =>
    match s[i]?, s[j]? with
    | some a, some b => unionEff i j a b
    | _, _ => { res := .err .other }
  | .intersection i j =>
    match s[i]?, s[j]? with
    | some a, some b => intersectionEff a b
    | _, _ => { res := .err .other }
  | .labels i =>
    match s[i]? with
    | none => { res := .err .other }
    | some a => { res := .labels a.labels a.kind }

def step (s : St) (op : AOp) : St × Res := (eff s op).apply s

/-- run a history; the results of all operations, in order -/
def run : St → List AOp → St × List Res
  | s, [] => (s, [])
  | s, op :: ops =>
    let r := step s op
    let rr := run r.1 ops
    (rr.1, r.2 :: rr.2)

/-- the cached flag of one object is either unset or the answer a fresh axis would compute -/
def CAxis.Coherent (a : CAxis) : Prop := a.mono = none ∨ a.mono = some (isMonotonic a.labels)

instance (a : CAxis) : Decidable a.Coherent := by unfold CAxis.Coherent; exact inferInstance

def Coherent (s : St) : Prop := ∀ a ∈ s, a.Coherent

/-- the defect repaired by 5b0fd27, kept as a model so that the need for the repair is a theorem:
`Axis.sort()` that SETS the flag to True -/
def sortSetsTrue (a : CAxis) : CAxis := { labels := sortBy Label.le a.labels, kind := a.kind, mono := some true }

end AxisCache
end DimModel

/-
Mirror of dimarray/core/missingvalues.py (dropna, fillna, setna) and of DimArray.take_axis /
compress_axis (core/dimarraycls.py), argmin / argmax and percentile bookkeeping.
-/
import DimModel.Lib.Transform
namespace DimModel
namespace Lib

/-- `compress_axis(mask, axis)` -/
def compressAxis {α} (a : DimArray α) (mask : List Bool) (k : DimKey) : Except Err (DimArray α) := do
  let pos ← axisPos a.axes k
  let ax := a.axes.getD pos default
  if mask.length != ax.size then .error .value else   -- numpy: boolean index did not match
  let ps := nonzero mask
  pure { axes := a.axes.set pos (axisSelect ax ps), vals := a.vals.takeAxis pos ps, vkind := a.vkind, attrs := a.attrs }

/-- `take_axis(indices, axis, indexing, mode)` -/
def takeAxis {α} (a : DimArray α) (ix : List Label) (k : DimKey) (mode : Mode) (clip : Bool) : Except Err (DimArray α) := do
  let pos ← axisPos a.axes k
  let ax := a.axes.getD pos default
  let n := ax.size
  let ps ← match mode with
    | .label => do
      let r ← loc ax.labels ax.kind (.list ix) none clip
      match r with
      | .ints l => pure (l.map Int.toNat)
      | _ => .error .other
    | .position =>
      ix.mapM fun l => match l with
        | .num q =>
          if q.den != 1 then (.error .type : Except Err Nat) else
          let i := q.num
          if clip then pure (if i < 0 then 0 else if i ≥ (n : Int) then n - 1 else i.toNat)
          else
            let j := if i < 0 then i + n else i
            if j < 0 || j ≥ (n : Int) then .error .index else pure j.toNat
        | _ => .error .type
  if n == 0 && !ps.isEmpty then .error .index else
  pure (takeAxisPos a pos ps)

/-- `dropna(axis, minvalid)`; `isnan` tells which cells are NaN -/
def dropna {α} (isnan : α → Bool) (a : DimArray α) (k : DimKey) (minvalid : Option Nat) : Except Err (DimArray α) := do
  let pos ← axisPos a.axes k
  let ax := a.axes.getD pos default
  if a.ndim == 1 then
    -- self[~isnan(values)]
    let mask := (List.range ax.size).map fun i => !isnan (a.vals.get [i])
    compressAxis a mask (.pos pos)
  else
    let others := a.vals.shape.eraseIdx pos
    let sliceSize := prod others
    let maxna : Int := match minvalid with
      | none => 0
      | some m => (sliceSize : Int) - m
    let mask := (List.range ax.size).map fun i =>
      let cnt := ((allIdx others).filter fun j => isnan (a.vals.get (j.insertIdx pos i))).length
      decide ((cnt : Int) ≤ maxna)
    compressAxis a mask (.pos pos)

/-- `fillna(value)` : exactly the NaN cells are replaced (cast=True) -/
def fillna {α} (isnan : α → Bool) (a : DimArray α) (fill : α) (fillKind : Kind) : DimArray α :=
  { a with vals := a.vals.putWhere (fun j => isnan (a.vals.get j)) (fun _ => fill), vkind := maybeCastKind a.vkind fillKind }

/-- `setna(value)` : exactly the matching cells become NaN (cast=True: integer data is promoted) -/
def setna {α} (hit : List Nat → Bool) (nan : α) (a : DimArray α) : DimArray α :=
  { a with vals := a.vals.putWhere hit (fun _ => nan), vkind := maybeCastKind a.vkind .f }

/-- `argmin` / `argmax` along an axis: labels instead of positions (after fix F12 also for 1-D input).
`pick cells labels` stands for "the label at NumPy's arg-position of the fibre" -/
def argAxis {α} (pick : List α → List Label → α) (a : DimArray α) (ax : AxisArg) :
    Except Err (Sum α (DimArray α)) := do
  let (o, idx) ← dealWithAxis a ax
  match idx with
  | none => .error .other     -- whole-array arg-extremum: handled separately (tuple of labels)
  | some pos =>
    let axd := o.axes.getD pos default
    let labels := if axd.members.isEmpty then axd.labels else []
    if o.ndim == 1 then pure (.inl (pick (fibre o pos []) labels))
    else
      pure (.inr { axes := o.axes.eraseIdx pos
                   vals := { shape := o.vals.shape.eraseIdx pos, get := fun j => pick (fibre o pos j) labels }
                   vkind := maybeCastKind .i axd.kind, attrs := o.attrs })

/-- `argmin()` / `argmax()` over the WHOLE array (`axis=None` branch of `transform.argmin` / `argmax`): the tuple of
labels, one per dimension, at NumPy's flat arg-position.
```
obj, idx, name = _deal_with_axis(self, None)                    # (self, None, None)
res = apply_along_axis(obj, 'argmin', axis=None, skipna=skipna)  # func(obj.values, axis=None): flat row-major position
res = np.unravel_index(res, obj.shape)
return tuple(obj.axes[i].values[v] for i, v in enumerate(res))
```
As in `argAxis`, `pick cells table` stands for "the entry of `table` at NumPy's arg-position of `cells`" (the theorems
instantiate it with `pickLabel argp lab`, `argp` being the abstract position function; the driver with the symbolic
cell `Cell.arg`).  For dimension `i` the table lists, for every flat position `p` of the row-major cell list, the label
that the code returns for it: the label of axis `i` at component `i` of `np.unravel_index(p, shape)`.  NumPy refuses an
empty array (ValueError: attempt to get argmin of an empty sequence). -/
def argWhole {α} (pick : List α → List Label → α) (a : DimArray α) : Except Err (List α) := do
  let (o, _) ← dealWithAxis a .none
  let cells := o.vals.toList
  if cells.isEmpty then .error .value else
  pure (o.axes.zipIdx.map fun (ax, i) =>
    let labels := if ax.members.isEmpty then ax.labels else []
    pick cells ((List.range cells.length).map fun p =>
      labels.getD ((unravel o.vals.shape p).getD i 0) Label.none))

end Lib
end DimModel

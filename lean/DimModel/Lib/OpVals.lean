/-
What a binary operator computes INSIDE one cell: the NumPy ufuncs of dimarray's operator table on float data, WITHOUT
rounding (a cell is NaN, -inf, +inf or an exact rational: `XVal` of Lib/Reduce.lean).  Mathlib-free (the driver evaluates
these definitions).

The operator table (dimarray/core/bases.py `OpMixin`, dimarray/core/dimarraycls.py):
  a + b   np.add            a - b   np.subtract       a * b   np.multiply
  a / b   np.true_divide    a // b  np.floor_divide   a ** b  np.power          (and the reflected forms, through
                                                                                 `_rbinary_op` = `operation(func, other, self)`)
  these six go through `operation` (alignment by name and label, missing = NaN).
  a == b, a != b            `self.values == other` on EQUAL axes, otherwise the Python value False (resp. True): NO alignment
  a < b, <=, >, >=          `self.values.__lt__(other)` on EQUAL axes, otherwise ValueError("axes differ !"): NO alignment
  a & b, a | b              `ndarray.__and__ / __or__`: TypeError on float data (NumPy has no float loop), not modelled
  (there is no `%` and no `^` in the table)

Conventions of the model, each checked against NumPy by the harness (stratum opx of harness/props/c04.py):
 * ONE zero: the model identifies -0.0 with +0.0, and a zero OPERAND is +0.0 (so x / 0 = sign(x) * inf); results that NumPy
   signs negative (-0.0) are read as 0.
 * `pow` is modelled for exponents that are NaN, +-inf or INTEGERS (exact rational powers); for a finite non-integer exponent
   the definition returns `nan` as a placeholder and the harness does not generate such exponents (2 ** 0.5 is irrational).
-/
import DimModel.Lib.Reduce
import DimModel.Lib.Operation
namespace DimModel
namespace Lib
namespace XVal

/-- IEEE division (`np.true_divide`): NaN absorbs; x / 0 = +-inf by the sign of x, 0 / 0 = NaN; inf / inf = NaN;
finite / inf = 0; inf / finite = +-inf -/
def div : XVal → XVal → XVal
  | nan, _ => nan
  | _, nan => nan
  | fin a, fin b => if b = 0 then (if a = 0 then nan else if a < 0 then ninf else pinf) else fin (a / b)
  | fin _, _ => fin 0
  | a, fin b => if b < 0 then neg a else a
  | _, _ => nan

/-- `np.floor_divide` on floats (npy_divmod): NaN absorbs; x // 0 = x / 0; inf // y = NaN for y != 0 (fmod(inf, y) is NaN);
x // inf = 0 or -1 (floor of a quotient that is +-0): -1 when the signs differ -/
def floordiv : XVal → XVal → XVal
  | nan, _ => nan
  | _, nan => nan
  | fin a, fin b =>
    if b = 0 then (if a = 0 then nan else if a < 0 then ninf else pinf) else fin (((a / b).floor : Int) : Rat)
  | fin a, pinf => if a < 0 then fin (-1) else fin 0
  | fin a, ninf => if 0 < a then fin (-1) else fin 0
  | a, fin b => if b = 0 then a else nan
  | _, _ => nan

/-- |x| compared with 1 (the infinities are larger; NaN is not asked) -/
def absCmp1 : XVal → Ordering
  | fin q => if -1 < q ∧ q < 1 then .lt else if q = 1 ∨ q = -1 then .eq else .gt
  | _ => .gt

/-- x ** n for an integer n != 0 -/
def powInt (x : XVal) (n : Int) : XVal :=
  match x with
  | nan => nan
  | fin q => if 0 < n then fin (q ^ n.toNat) else if q = 0 then pinf else fin ((1 / q) ^ (-n).toNat)
  | pinf => if 0 < n then pinf else fin 0
  | ninf => if 0 < n then (if n % 2 = 0 then pinf else ninf) else fin 0

/-- `np.power` on floats (C `pow`), exponent NaN / +-inf / an integer.  IEEE 754: x ** 0 = 1 and 1 ** y = 1 for EVERY x, y,
NaN included; otherwise NaN absorbs; x ** +inf = 0 / 1 / +inf for |x| < 1 / = 1 / > 1, x ** -inf the other way round -/
def pow (x y : XVal) : XVal :=
  if y = fin 0 then fin 1 else if x = fin 1 then fin 1 else
  match x, y with
  | nan, _ => nan
  | _, nan => nan
  | x, fin e => if e.den = 1 then powInt x e.num else nan
  | x, pinf => match absCmp1 x with | .lt => fin 0 | .eq => fin 1 | .gt => pinf
  | x, ninf => match absCmp1 x with | .lt => pinf | .eq => fin 1 | .gt => fin 0

/-- the exponents `pow` is a model for -/
def PowDomain : XVal → Prop
  | fin e => e.den = 1
  | _ => True

/-! ### comparisons (`==`, `!=`, `<`, `<=`, `>`, `>=` of NumPy): Boolean cells; False as soon as a NaN is involved, `!=` True -/

def eq (a b : XVal) : Bool := !a.isNan && !b.isNan && a == b
def ne (a b : XVal) : Bool := !(eq a b)
def lt (a b : XVal) : Bool := le a b && !(eq a b)
def gt (a b : XVal) : Bool := lt b a
def ge (a b : XVal) : Bool := le b a

end XVal

/-- the ufunc of an operator of the table, on exact float cells -/
def opX : Op → XVal → XVal → XVal
  | .add => XVal.add
  | .sub => XVal.sub
  | .mul => XVal.mul
  | .truediv => XVal.div
  | .floordiv => XVal.floordiv
  | .pow => XVal.pow

/-- the comparison operators -/
inductive Cmp | eq | ne | lt | le | gt | ge
  deriving DecidableEq, Repr, Inhabited

def cmpX : Cmp → XVal → XVal → Bool
  | .eq => XVal.eq
  | .ne => XVal.ne
  | .lt => XVal.lt
  | .le => XVal.le
  | .gt => XVal.gt
  | .ge => XVal.ge

/-- `a <cmp> other` (dimarraycls.py `__eq__`, `__ne__`, `_cmp`): no alignment.  `other` is a scalar / ndarray (`nd`, broadcast by
NumPy against `a.values`; `sameAxes = true`) or a DimArray, whose axes must EQUAL `a`'s (`sameAxes` = the outcome of
`self.axes != other.axes`); with different axes `==` is the Python value False, `!=` True (`.inl`), the others raise ValueError -/
def compareNd (c : Cmp) (a : DimArray XVal) (nd : NDArr XVal) (sameAxes : Bool) : Except Err (Sum Bool (DimArray XVal)) :=
  if !sameAxes then
    match c with
    | .eq => .ok (.inl false)
    | .ne => .ok (.inl true)
    | _ => .error .value
  else do
    let r ← operationNd (fun x y => XVal.ofBool (cmpX c x y)) a nd false
    pure (.inr r)

end Lib
end DimModel

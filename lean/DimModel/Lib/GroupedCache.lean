/-
Mirror of the CACHED state of `dimarray.core.axes.MultiAxis` (the grouped axis made by `flatten` / `reshape`, or
directly by `MultiAxis(ax1, ax2, ...)`), as a second state machine next to Lib/AxisCache.lean.

What the class keeps (dimarray/core/axes.py, current /repo):
  __init__(*axes)     `self.axes = Axes(axes)` : REFERENCES to the member Axis objects (no copy);
                      `_name = ",".join(member names)` computed ONCE; `_values = None`; `_size = None`
  values (property)   fills `_values` with the tuple labels (row-major product of the members' labels) when it is None
  size (property)     fills `_size` with the product of the member sizes when it is None
  name                the cached `_name`
  __getitem__         inherited from Axis: `g[:]` is `g`; a slice / list reads `self.values` (fills the cache) and
                      returns a PLAIN Axis holding the selected tuples
  take                inherited: reads the labels through the `values` property (fills the cache; F73)
  __setitem__         inherited: `_maybe_cast_type(self._values, ...)` - AttributeError while the cache is empty;
                      afterwards it rewrites the CACHED tuples only, the members are not touched
  copy                deepcopy: members are copied too (new objects), cached fields copied as they are
`DimArray.flatten` builds the grouped axis from COPIES of the operand's axes (`MultiAxis(*[ax.copy() ...])`),
`DimArray.unflatten` returns copies of the members: the members of a grouped axis of an array are reachable only
through `arr.axes[k].axes[j]` (public attribute `axes` of MultiAxis).
A grouped axis of ONE member returns the member's own label array (no tuples); the machine needs >= 2 members
(the tie never groups fewer).
-/
import DimModel.Lib.AxisCache
namespace DimModel
namespace GroupedCache
open Lib

/-- a plain member axis: labels and name (its own `_monotonic` is not read by the grouped axis) -/
structure PAx where
  labels : List Label
  name : String
  deriving DecidableEq, Repr, Inhabited

/-- one `MultiAxis` object -/
structure GAxis where
  members : List Nat                          -- references into the heap of plain axes
  name : String                               -- `_name`, joined at construction
  vals : Option (List (List Label)) := none   -- `_values`
  size : Option Nat := none                   -- `_size`
  deriving DecidableEq, Repr, Inhabited

structure St where
  plain : List PAx := []
  grouped : List GAxis := []
  deriving DecidableEq, Repr, Inhabited

/-- row-major product of label lists: the tuple labels of a grouped axis -/
def prod : List (List Label) → List (List Label)
  | [] => [[]]
  | L :: Ls => L.flatMap (fun l => (prod Ls).map (l :: ·))

def joinNames (ns : List String) : String := ",".intercalate ns

/-- the members as they are NOW (a dangling reference reads as an empty unnamed axis; never sent by the tie) -/
def view (pl : List PAx) (ms : List Nat) : List PAx := ms.map (fun m => pl[m]?.getD default)

/-- what a freshly constructed `MultiAxis(*members)` computes -/
def freshVals (pl : List PAx) (ms : List Nat) : List (List Label) := prod ((view pl ms).map (·.labels))
def freshSize (pl : List PAx) (ms : List Nat) : Nat := ((view pl ms).map (·.labels.length)).foldl (· * ·) 1
def freshName (pl : List PAx) (ms : List Nat) : String := joinNames ((view pl ms).map (·.name))

inductive Res
  | unit
  | pref (i : Nat)                         -- a plain axis
  | gref (i : Nat)                         -- a grouped axis
  | tuples (T : List (List Label))
  | nat (n : Nat)
  | name (s : String)
  | members (M : List (List Label × String))   -- `unflatten`: labels and names of the members
  | err (e : Err)
  deriving DecidableEq, Repr, Inhabited

inductive GOp
  | mkPlain (L : List Label) (name : String)             -- Axis(L, name)
  | group (ms : List Nat)                                -- MultiAxis(*members): members by reference
  | flattenFrom (ms : List Nat)                          -- a.flatten(dims): MultiAxis of COPIES of a's axes
  | readLabels (g : Nat)                                 -- g.values
  | readSize (g : Nat)                                   -- g.size
  | readName (g : Nat)                                   -- g.name
  | relabelMember (p : Nat) (pos : Int) (v : Label)      -- ax[pos] = v on a plain axis (of the value's own kind)
  | renameMember (p : Nat) (name : String)               -- ax.name = name on a plain axis
  | sliceG (g : Nat) (s e st : Option Int)               -- g[s:e:st] (labels of the plain Axis returned; g[:] is g)
  | takeG (g : Nat) (ps : List Int)                      -- g.take(ps) (labels of the plain Axis returned)
  | setItemG (g : Nat) (pos : Int) (t : List Label)      -- g[pos] = tuple
  | copyG (g : Nat)                                      -- g.copy()
  | unflatten (g : Nat)                                  -- the members as `unflatten` hands them out (copies)
  deriving Repr, Inhabited

def fillVals (pl : List PAx) (g : GAxis) : GAxis :=
  match g.vals with
  | some _ => g
  | none => { g with vals := some (freshVals pl g.members) }

def fillSize (pl : List PAx) (g : GAxis) : GAxis :=
  match g.size with
  | some _ => g
  | none => { g with size := some (freshSize pl g.members) }

def step (s : St) : GOp → St × Res
  | .mkPlain L n => ({ s with plain := s.plain ++ [⟨L, n⟩] }, .pref s.plain.length)
  | .group ms =>
    if ms.all (· < s.plain.length) && 2 ≤ ms.length then
      ({ s with grouped := s.grouped ++ [{ members := ms, name := freshName s.plain ms }] }, .gref s.grouped.length)
    else (s, .err .other)
  | .flattenFrom ms =>
    if ms.all (· < s.plain.length) && 2 ≤ ms.length then
      let n := s.plain.length
      let ms' := List.range' n ms.length
      ({ plain := s.plain ++ view s.plain ms,
         -- the DimArray constructor reads `size` of every axis: the flattened array's grouped axis has `_size` filled
         grouped := s.grouped ++ [{ members := ms', name := freshName s.plain ms, size := some (freshSize s.plain ms) }] },
       .gref s.grouped.length)
    else (s, .err .other)
  | .readLabels g =>
    match s.grouped[g]? with
    | none => (s, .err .other)
    | some x => let x' := fillVals s.plain x; ({ s with grouped := s.grouped.set g x' }, .tuples (x'.vals.getD []))
  | .readSize g =>
    match s.grouped[g]? with
    | none => (s, .err .other)
    | some x => let x' := fillSize s.plain x; ({ s with grouped := s.grouped.set g x' }, .nat (x'.size.getD 0))
  | .readName g =>
    match s.grouped[g]? with
    | none => (s, .err .other)
    | some x => (s, .name x.name)
  | .relabelMember p pos v =>
    match s.plain[p]? with
    | none => (s, .err .other)
    | some a =>
      match AxisCache.normPos a.labels.length pos with
      | none => (s, .err .index)
      | some k => ({ s with plain := s.plain.set p { a with labels := a.labels.set k v } }, .unit)
  | .renameMember p n =>
    match s.plain[p]? with
    | none => (s, .err .other)
    | some a => if n.isEmpty then (s, .err .value) else ({ s with plain := s.plain.set p { a with name := n } }, .unit)
  | .sliceG g s0 e0 st0 =>
    match s.grouped[g]? with
    | none => (s, .err .other)
    | some x =>
      if s0.isNone && e0.isNone && st0.isNone then (s, .gref g)
      else
        let x' := fillVals s.plain x
        let T := x'.vals.getD []
        match slicePositions s0 e0 st0 T.length with
        | .error e => ({ s with grouped := s.grouped.set g x' }, .err e)
        | .ok ps => ({ s with grouped := s.grouped.set g x' }, .tuples (ps.filterMap (T[·]?)))
  | .takeG g ps =>
    match s.grouped[g]? with
    | none => (s, .err .other)
    | some x =>
      -- `self.values.take(...)`: the labels are read through the property (filled when empty; since the repair F73 -
      -- before it the private attribute was read and the call raised AttributeError while the cache was empty)
      let x' := fillVals s.plain x
      let T := x'.vals.getD []
      match ps.mapM (fun p => (AxisCache.normPos T.length p).bind (T[·]?)) with
      | none => ({ s with grouped := s.grouped.set g x' }, .err .index)
      | some R => ({ s with grouped := s.grouped.set g x' }, .tuples R)
  | .setItemG g pos t =>
    match s.grouped[g]? with
    | none => (s, .err .other)
    | some x =>
      let x' := fillVals s.plain x                                     -- `_maybe_cast_type(self.values, value)` (F73)
      let T := x'.vals.getD []
      match AxisCache.normPos T.length pos with
      | none => ({ s with grouped := s.grouped.set g x' }, .err .index)
      | some k => ({ s with grouped := s.grouped.set g { x' with vals := some (T.set k t) } }, .unit)
  | .copyG g =>
    match s.grouped[g]? with
    | none => (s, .err .other)
    | some x =>
      let n := s.plain.length
      ({ plain := s.plain ++ view s.plain x.members,
         grouped := s.grouped ++ [{ x with members := List.range' n x.members.length }] }, .gref s.grouped.length)
  | .unflatten g =>
    match s.grouped[g]? with
    | none => (s, .err .other)
    | some x => (s, .members ((view s.plain x.members).map (fun a => (a.labels, a.name))))

def run : St → List GOp → St × List Res
  | s, [] => (s, [])
  | s, op :: ops =>
    let r := step s op
    let rr := run r.1 ops
    (rr.1, r.2 :: rr.2)

/-- the cached fields of one grouped axis are unset or what a fresh `MultiAxis` of its members (as they are now) computes -/
structure GAxis.Coherent (pl : List PAx) (g : GAxis) : Prop where
  valid : ∀ m ∈ g.members, m < pl.length
  vals : g.vals = none ∨ g.vals = some (freshVals pl g.members)
  size : g.size = none ∨ g.size = some (freshSize pl g.members)
  name : g.name = freshName pl g.members

instance (pl : List PAx) (g : GAxis) : Decidable (g.Coherent pl) :=
  decidable_of_iff ((∀ m ∈ g.members, m < pl.length) ∧ (g.vals = none ∨ g.vals = some (freshVals pl g.members)) ∧
      (g.size = none ∨ g.size = some (freshSize pl g.members)) ∧ g.name = freshName pl g.members)
    ⟨fun ⟨a, b, c, d⟩ => ⟨a, b, c, d⟩, fun ⟨a, b, c, d⟩ => ⟨a, b, c, d⟩⟩

def Coherent (s : St) : Prop := ∀ g ∈ s.grouped, g.Coherent s.plain

instance (s : St) : Decidable (Coherent s) := by unfold Coherent; exact inferInstance

/-- the size part alone (it survives every operation) -/
def SizeCoherent (s : St) : Prop :=
  ∀ g ∈ s.grouped, (∀ m ∈ g.members, m < s.plain.length) ∧ (g.size = none ∨ g.size = some (freshSize s.plain g.members))

/-- plain axis `p` is a member of a live grouped axis -/
def isMember (s : St) (p : Nat) : Bool := s.grouped.any (fun g => g.members.contains p)

/-- operations that keep the cached labels / name honest: everything but a relabelling / renaming of a member of a live
grouped axis, and an item assignment on the grouped axis itself -/
def Safe (s : St) : GOp → Bool
  | .relabelMember p _ _ => !isMember s p
  | .renameMember p _ => !isMember s p
  | .setItemG _ _ _ => false
  | _ => true

end GroupedCache
end DimModel

/-
C15 - object-level ("heap") model of the aliasing discipline of dimarray.

The functional model of the other files cannot even state "an operation does not modify its
operand": there is nothing to modify.  This file models what Python adds: objects with identity.
An array is an object that *refers* to a value buffer (possibly through a view), to Axis objects
(which refer to a label buffer and to a metadata dict) and to a metadata dict whose values are
atoms or mutable lists.  Operations allocate new objects and decide what the result shares with the
operand (mirrors of: DimArray.copy = copy.deepcopy; transpose / squeeze / a[:] / take(scalar) =
NumPy views over the same buffer + the very same Axis objects; a.ix[list] = copied values, a new
Axis for the indexed dimension, the other Axis objects shared; a + 1 = new values, shared Axis
objects, empty metadata; sort_axis = everything new; `_constructor` = new metadata dict holding the
same value objects).  In-place mutations write through references.

`obsArr` is the snapshot of C15's observe_at (values, shape, axis names, labels, axis metadata,
metadata - mutable metadata values by content).
-/
import DimModel.Prim.Order
namespace DimModel
namespace Heap

abbrev Ref := Nat

/-- a metadata value: an immutable atom or a reference to a mutable list object -/
inductive MVal
  | atom (s : String)
  | list (r : Ref)
  deriving Repr, DecidableEq, Inhabited

inductive Obj
  | buf (cells : List Int)                                   -- ndarray buffer (values or labels)
  | mlist (items : List String)                              -- mutable metadata value
  | dict (kv : List (String × MVal))                         -- attrs
  | axis (name : String) (labels : Ref) (view : List Nat) (attrs : Ref)
  | arr (vals : Ref) (view : List Nat) (shape : List Nat) (axes : List Ref) (attrs : Ref)
  deriving Repr, Inhabited

/-- the heap: objects addressed by position; allocation appends -/
abbrev H := List Obj

def alloc (h : H) (o : Obj) : H × Ref := (h ++ [o], h.length)

/-! ### observation -/

inductive AVal
  | atom (s : String)
  | list (items : List String)
  | dangling
  deriving Repr, DecidableEq, Inhabited

structure AxObs where
  name : String
  labels : List Int
  attrs : List (String × AVal)
  deriving Repr, DecidableEq, Inhabited

structure ArrObs where
  shape : List Nat
  values : List Int
  axes : List AxObs
  attrs : List (String × AVal)
  deriving Repr, DecidableEq, Inhabited

def readBuf (h : H) (r : Ref) (view : List Nat) : List Int :=
  match h[r]? with
  | some (.buf cells) => view.map fun p => cells.getD p 0
  | _ => []

def obsVal (h : H) : MVal → AVal
  | .atom s => .atom s
  | .list r => match h[r]? with
    | some (.mlist items) => .list items
    | _ => .dangling

def obsDict (h : H) (r : Ref) : List (String × AVal) :=
  match h[r]? with
  | some (.dict kv) => kv.map fun (k, v) => (k, obsVal h v)
  | _ => []

def obsAxis (h : H) (r : Ref) : AxObs :=
  match h[r]? with
  | some (.axis name labels view attrs) => { name := name, labels := readBuf h labels view, attrs := obsDict h attrs }
  | _ => { name := "?", labels := [], attrs := [] }

def obsArr (h : H) (r : Ref) : Option ArrObs :=
  match h[r]? with
  | some (.arr vals view shape axes attrs) =>
    some { shape := shape, values := readBuf h vals view, axes := axes.map (obsAxis h), attrs := obsDict h attrs }
  | _ => none

/-! ### allocation helpers -/

/-- a new dict object holding the *same* value objects (`obj.attrs.update(metadata)`) -/
def shallowDict (h : H) (r : Ref) : H × Ref :=
  match h[r]? with
  | some (.dict kv) => alloc h (.dict kv)
  | _ => alloc h (.dict [])

/-- `copy.deepcopy` of a metadata dict: every mutable value is copied too -/
def deepDict (h : H) (r : Ref) : H × Ref :=
  let kv := match h[r]? with | some (.dict kv) => kv | _ => []
  let (h1, kv') := kv.foldl (fun (acc : H × List (String × MVal)) (e : String × MVal) =>
      match e.2 with
      | .atom s => (acc.1, acc.2 ++ [(e.1, MVal.atom s)])
      | .list lr =>
        let items := match h[lr]? with | some (.mlist items) => items | _ => []
        let (hh, nr) := alloc acc.1 (.mlist items)
        (hh, acc.2 ++ [(e.1, MVal.list nr)])) (h, [])
  alloc h1 (.dict kv')

/-- a fresh contiguous buffer holding what the view shows -/
def freshBuf (h : H) (r : Ref) (view : List Nat) : H × Ref × List Nat :=
  let cells := readBuf h r view
  let (h1, nr) := alloc h (.buf cells)
  (h1, nr, List.range cells.length)

/-- `copy.deepcopy` of an Axis -/
def deepAxis (h : H) (r : Ref) : H × Ref :=
  match h[r]? with
  | some (.axis name labels view attrs) =>
    let (h1, nl, nv) := freshBuf h labels view
    let (h2, na) := deepDict h1 attrs
    alloc h2 (.axis name nl nv na)
  | _ => alloc h (.axis "?" 0 [] 0)

def mapAlloc (f : H → Ref → H × Ref) (h : H) (rs : List Ref) : H × List Ref :=
  rs.foldl (fun (acc : H × List Ref) r => let (hh, nr) := f acc.1 r; (hh, acc.2 ++ [nr])) (h, [])

/-! ### operations (each returns the new heap and the reference of the result) -/

/-- `a.copy()` -/
def deepCopy (h : H) (r : Ref) : Option (H × Ref) :=
  match h[r]? with
  | some (.arr vals view shape axes attrs) =>
    let (h1, nv, nview) := freshBuf h vals view
    let (h2, naxes) := mapAlloc deepAxis h1 axes
    let (h3, na) := deepDict h2 attrs
    some (alloc h3 (.arr nv nview shape naxes na))
  | _ => none

def prodN (s : List Nat) : Nat := s.foldr (· * ·) 1

def ravelN : List Nat → List Nat → Nat
  | [], _ => 0
  | _ :: _, [] => 0
  | _ :: s, i :: is => i * prodN s + ravelN s is

def allIdxN : List Nat → List (List Nat)
  | [] => [[]]
  | n :: s => (List.range n).flatMap fun i => (allIdxN s).map (i :: ·)

/-- `a.transpose(perm)`: a view over the same buffer, the very same Axis objects, a new metadata dict
with the same value objects -/
def transpose (h : H) (r : Ref) (perm : List Nat) : Option (H × Ref) :=
  match h[r]? with
  | some (.arr vals view shape axes attrs) =>
    if perm.length != shape.length || !(List.range shape.length).all (perm.contains ·) then none else
    let nshape := perm.map fun k => shape.getD k 0
    let nview := (allIdxN nshape).map fun j =>
      view.getD (ravelN shape ((List.range shape.length).map fun d => j.getD (perm.idxOf d) 0)) 0
    let (h1, na) := shallowDict h attrs
    some (alloc h1 (.arr vals nview nshape (perm.map fun k => axes.getD k 0) na))
  | _ => none

/-- `a.squeeze()`: all size-1 dimensions dropped -/
def squeeze (h : H) (r : Ref) : Option (H × Ref) :=
  match h[r]? with
  | some (.arr vals view shape axes attrs) =>
    let keep := (List.range shape.length).filter fun d => shape.getD d 0 != 1
    let (h1, na) := shallowDict h attrs
    some (alloc h1 (.arr vals view (keep.map fun d => shape.getD d 0) (keep.map fun d => axes.getD d 0) na))
  | _ => none

/-- `a[:]` -/
def sliceAll (h : H) (r : Ref) : Option (H × Ref) :=
  match h[r]? with
  | some (.arr vals view shape axes attrs) =>
    let (h1, na) := shallowDict h attrs
    some (alloc h1 (.arr vals view shape axes na))
  | _ => none

/-- `a.take(p, axis=d, indexing='position')` with a scalar: a view, the other Axis objects shared -/
def takeScalar (h : H) (r : Ref) (d p : Nat) : Option (H × Ref) :=
  match h[r]? with
  | some (.arr vals view shape axes attrs) =>
    if d ≥ shape.length || p ≥ shape.getD d 0 then none else
    let nshape := shape.eraseIdx d
    let nview := (allIdxN nshape).map fun j => view.getD (ravelN shape (j.take d ++ [p] ++ j.drop d)) 0
    let (h1, na) := shallowDict h attrs
    some (alloc h1 (.arr vals nview nshape (axes.eraseIdx d) na))
  | _ => none

/-- `Axis.__getitem__` with a list of positions: copied labels, a new metadata dict with the same value objects -/
def selectAxis (h : H) (r : Ref) (ps : List Nat) : H × Ref :=
  match h[r]? with
  | some (.axis name labels lview aattrs) =>
    let (h1, nl, nlv) := freshBuf h labels (ps.map fun p => lview.getD p 0)
    let (h2, naa) := shallowDict h1 aattrs
    alloc h2 (.axis name nl nlv naa)
  | _ => alloc h (.axis "?" 0 [] 0)

/-- `a.take(ps, axis=d, indexing='position')` with a list: copied values, a new Axis (copied labels, new
metadata dict with the same value objects) for dimension `d`, the other Axis objects shared -/
def takeList (h : H) (r : Ref) (d : Nat) (ps : List Nat) : Option (H × Ref) :=
  match h[r]? with
  | some (.arr vals view shape axes attrs) =>
    if d ≥ shape.length || !ps.all (· < shape.getD d 0) then none else
    let nshape := shape.set d ps.length
    let nview := (allIdxN nshape).map fun j =>
      view.getD (ravelN shape (j.set d (ps.getD (j.getD d 0) 0))) 0
    let (h1, nv, nvw) := freshBuf h vals nview
    let (h4, nax) := selectAxis h1 (axes.getD d 0) ps
    let (h5, na) := shallowDict h4 attrs
    some (alloc h5 (.arr nv nvw nshape (axes.set d nax) na))
  | _ => none

/-- `a + k`: new values, the very same Axis objects, empty metadata -/
def addScalar (h : H) (r : Ref) (k : Int) : Option (H × Ref) :=
  match h[r]? with
  | some (.arr vals view shape axes _) =>
    let (h1, nv) := alloc h (.buf ((readBuf h vals view).map (· + k)))
    let (h2, na) := alloc h1 (.dict [])
    some (alloc h2 (.arr nv (List.range view.length) shape axes na))
  | _ => none

/-- `a.sort_axis(d)` (take_axis): new values; the sorted Axis is re-selected (copied labels, metadata values
shared), the other Axis objects are deep copies; metadata dict new with the same value objects -/
def sortAxis (h : H) (r : Ref) (d : Nat) : Option (H × Ref) :=
  match h[r]? with
  | some (.arr vals view shape axes attrs) =>
    if d ≥ shape.length then none else
    let labs := (obsAxis h (axes.getD d 0)).labels
    let ps := argsortBy (fun (a b : Int) => decide (a ≤ b)) labs
    let nview := (allIdxN shape).map fun j => view.getD (ravelN shape (j.set d (ps.getD (j.getD d 0) 0))) 0
    let (h1, nv, nvw) := freshBuf h vals nview
    let (h2, naxes) := (List.range axes.length).foldl (fun (acc : H × List Ref) i =>
        let (hh, nr) := if i == d then selectAxis acc.1 (axes.getD i 0) ps else deepAxis acc.1 (axes.getD i 0)
        (hh, acc.2 ++ [nr])) (h1, [])
    let (h3, na) := shallowDict h2 attrs
    some (alloc h3 (.arr nv nvw shape naxes na))
  | _ => none

/-! ### in-place mutations through a reference to an array -/

inductive Mut
  | setVal (pos : Nat) (v : Int)                 -- a.values.flat[pos] = v
  | setLabel (d i : Nat) (v : Int)               -- a.axes[d].values[i] = v
  | rename (d : Nat) (name : String)             -- a.axes[d].name = name
  | setAttr (key : String) (v : String)          -- a.attrs[key] = atom
  | appendAttr (key : String) (item : String)    -- a.attrs[key].append(item)   (a mutable value)
  | setAxisAttr (d : Nat) (key : String) (v : String)
  | appendAxisAttr (d : Nat) (key : String) (item : String)
  deriving Repr, Inhabited

def writeBuf (h : H) (r : Ref) (p : Nat) (v : Int) : H :=
  match h[r]? with
  | some (.buf cells) => if p < cells.length then h.set r (.buf (cells.set p v)) else h
  | _ => h

def dictSet (h : H) (r : Ref) (key : String) (v : MVal) : H :=
  match h[r]? with
  | some (.dict kv) =>
    if kv.any (·.1 == key) then h.set r (.dict (kv.map fun e => if e.1 == key then (key, v) else e))
    else h.set r (.dict (kv ++ [(key, v)]))
  | _ => h

def dictAppend (h : H) (r : Ref) (key : String) (item : String) : H :=
  match h[r]? with
  | some (.dict kv) =>
    match kv.find? (·.1 == key) with
    | some (_, .list lr) =>
      (match h[lr]? with
       | some (.mlist items) => h.set lr (.mlist (items ++ [item]))
       | _ => h)
    | _ => h
  | _ => h

def mutate (h : H) (r : Ref) (m : Mut) : H :=
  match h[r]? with
  | some (.arr vals view _ axes attrs) =>
    match m with
    | .setVal pos v => if pos < view.length then writeBuf h vals (view.getD pos 0) v else h
    | .setAttr key v => dictSet h attrs key (.atom v)
    | .appendAttr key item => dictAppend h attrs key item
    | .setLabel d i v =>
      (match h[axes.getD d h.length]? with
       | some (.axis _ labels lview _) => if i < lview.length then writeBuf h labels (lview.getD i 0) v else h
       | _ => h)
    | .rename d name =>
      (match h[axes.getD d h.length]? with
       | some (.axis _ labels lview aattrs) => h.set (axes.getD d h.length) (.axis name labels lview aattrs)
       | _ => h)
    | .setAxisAttr d key v =>
      (match h[axes.getD d h.length]? with
       | some (.axis _ _ _ aattrs) => dictSet h aattrs key (.atom v)
       | _ => h)
    | .appendAxisAttr d key item =>
      (match h[axes.getD d h.length]? with
       | some (.axis _ _ _ aattrs) => dictAppend h aattrs key item
       | _ => h)
  | _ => h

/-! ### histories -/

inductive Op
  | create (shape : List Nat) (cells : List Int) (axes : List (String × List Int × List (String × Option (List String))))
      (attrs : List (String × Option (List String)))    -- `none` = atom "K", `some items` = mutable list
  | copy (k : Nat)
  | transpose (k : Nat) (perm : List Nat)
  | squeeze (k : Nat)
  | sliceAll (k : Nat)
  | takeScalar (k d p : Nat)
  | takeList (k d : Nat) (ps : List Nat)
  | addScalar (k : Nat) (c : Int)
  | sortAxis (k d : Nat)
  | mut (k : Nat) (m : Mut)
  deriving Repr, Inhabited

def mkDict (h : H) (spec : List (String × Option (List String))) : H × Ref :=
  let (h1, kv) := spec.foldl (fun (acc : H × List (String × MVal)) (e : String × Option (List String)) =>
      match e.2 with
      | none => (acc.1, acc.2 ++ [(e.1, MVal.atom "K")])
      | some items => let (hh, nr) := alloc acc.1 (.mlist items); (hh, acc.2 ++ [(e.1, MVal.list nr)])) (h, [])
  alloc h1 (.dict kv)

def create (h : H) (shape : List Nat) (cells : List Int)
    (axes : List (String × List Int × List (String × Option (List String))))
    (attrs : List (String × Option (List String))) : H × Ref :=
  let (h1, nv) := alloc h (.buf cells)
  let (h2, naxes) := axes.foldl (fun (acc : H × List Ref) (a : String × List Int × List (String × Option (List String))) =>
      let (ha, nl) := alloc acc.1 (.buf a.2.1)
      let (hb, nd) := mkDict ha a.2.2
      let (hc, na) := alloc hb (.axis a.1 nl (List.range a.2.1.length) nd)
      (hc, acc.2 ++ [na])) (h1, [])
  let (h3, na) := mkDict h2 attrs
  alloc h3 (.arr nv (List.range cells.length) shape naxes na)

/-- state: the heap and the live arrays (variables of the program) -/
structure St where
  h : H
  env : List Ref
  deriving Inhabited

def St.init : St := { h := [], env := [] }

def isMut : Op → Bool
  | .mut _ _ => true
  | _ => false

/-- result of a non-mutating operation (new heap, reference of the result); `none` = refused -/
def apply (h : H) (env : List Ref) : Op → Option (H × Ref)
  | .create shape cells axes attrs => some (create h shape cells axes attrs)
  | .copy k => (env[k]?).bind (deepCopy h)
  | .transpose k perm => (env[k]?).bind (transpose h · perm)
  | .squeeze k => (env[k]?).bind (squeeze h)
  | .sliceAll k => (env[k]?).bind (sliceAll h)
  | .takeScalar k d p => (env[k]?).bind (takeScalar h · d p)
  | .takeList k d ps => (env[k]?).bind (takeList h · d ps)
  | .addScalar k c => (env[k]?).bind (addScalar h · c)
  | .sortAxis k d => (env[k]?).bind (sortAxis h · d)
  | .mut _ _ => none

def step (s : St) (op : Op) : St :=
  match op with
  | .mut k m => (match s.env[k]? with
    | some r => { s with h := mutate s.h r m }
    | none => s)
  | _ => match apply s.h s.env op with
    | some (h', r) => { h := h', env := s.env ++ [r] }
    | none => s

def run (s : St) (ops : List Op) : St := ops.foldl step s

/-- snapshot of every live array -/
def St.obs (s : St) : List (Option ArrObs) := s.env.map (obsArr s.h)

end Heap
end DimModel

/-
Mirror of the on-disk access path of dimarray/io/nc.py (DimArrayOnDisk.read / write,
_getvalues_ortho / _setvalues_ortho / _getaxes_ortho, AxisOnDisk.__getitem__, the unlimited-dimension
branch of write()).

A netCDF variable is a *flat*, row-major list of cells plus its coordinate variables.  The library
resolves the user's index with the very same `_get_indices` as in memory (bases.py) - but against
axes whose labels are read from the coordinate variables - and then hands a tuple of per-dimension
integers / integer lists to netCDF4, whose own indexing is orthogonal:

* `var[i0, i1, ...]`      : cell `c` of the result is the stored cell at flat position
                            `ravel shape (expandIx pix c)`;
* `var[i0, i1, ...] = v`  : the selection coordinates are visited in row-major order and each
                            stored cell is overwritten in turn (so with repeated positions the last
                            one wins) - an operational definition, deliberately different from the
                            pointwise `putVals` of the in-memory model.

What netCDF4-python / libnetcdf do below this interface (chunking, type encoding, the file format)
is outside the model: TRUSTED / stand-in.
-/
import DimModel.Lib.GetSet
namespace DimModel
namespace OnDisk
open Lib

/-- a stored variable: coordinate variables (name, labels, kind, metadata), flat row-major data -/
structure DiskVar (α : Type) where
  axes : List Axis
  cells : List α
  vkind : Kind
  attrs : Attrs

def DiskVar.shape {α} (v : DiskVar α) : List Nat := v.axes.map (·.size)

/-- `a.write_nc(f, name)` : the data laid out row-major, the axes as coordinate variables -/
def store {α} (a : DimArray α) : DiskVar α :=
  { axes := a.axes, cells := (allIdx a.vals.shape).map a.vals.get, vkind := a.vkind, attrs := a.attrs }

/-- `read_nc(f, name)` without indices: the fully loaded array -/
def load {α} (d : α) (v : DiskVar α) : DimArray α :=
  { axes := v.axes, vals := { shape := v.shape, get := fun j => v.cells.getD (ravel v.shape j) d },
    vkind := v.vkind, attrs := v.attrs }

/-- netCDF4 `var[tuple]` (orthogonal indexing on the flat store; scalar entries drop their dimension) -/
def ncGet {α} (d : α) (shape : List Nat) (cells : List α) (pix : List PosIx) : NDArr α :=
  { shape := outerShape pix, get := fun c => cells.getD (ravel shape (expandIx pix c)) d }

/-- netCDF4 `var[tuple] = values` : sequential writes in row-major order of the selection -/
def ncPut {α} (shape : List Nat) (cells : List α) (pix : List PosIx) (vget : List Nat → α) : List α :=
  (allIdx (outerShape pix)).foldl (fun cs c => cs.set (ravel shape (expandIx pix c)) (vget c)) cells

/-- `_getaxes_ortho` on disk: every non-scalar dimension is re-read through `AxisOnDisk.__getitem__`
(no identity shortcut for a full slice) -/
def axesOrtho (axes : List Axis) (pix : List PosIx) : List Axis :=
  (axes.zip pix).filterMap fun (ax, p) =>
    match p with
    | .scalar _ => none
    | .list ps => some (axisSelect ax ps)

/-- `DimArrayOnDisk.read` / `__getitem__` / `.loc` / `.ix` / `.sel` / `.isel` / `read_nc(..., indices=)` -/
def read {α} (d : α) (v : DiskVar α) (ui : UserIndex) (cfg : IndexCfg) : Except Err (DimArray α) := do
  let raw ← getIndices v.axes ui cfg
  let pix ← (raw.zip v.axes).mapM fun (r, ax) => resolveRaw r ax.size
  pure { axes := axesOrtho v.axes pix, vals := ncGet d v.shape v.cells pix, vkind := v.vkind, attrs := v.attrs }

/-- `DimArrayOnDisk.write` / `__setitem__` : same index resolution, then netCDF4's assignment; netCDF4
checks every integer against the dimension length (no NumPy empty-selection shortcut), the variable's
type is fixed (`cast` is ignored) -/
def write {α} (v : DiskVar α) (ui : UserIndex) (rhs : RHS α) (cfg : IndexCfg) : Except Err (DiskVar α) := do
  let raw ← getIndices v.axes ui { cfg with keepdims := false }
  let pix ← (raw.zip v.axes).mapM fun (r, ax) => resolveRaw r ax.size
  let vget ← putRhs rhs (outerShape pix)
  pure { v with cells := ncPut v.shape v.cells pix vget }

/-- the unlimited-dimension branch of `write` for a record written at position `i` of the first
(unlimited, slowest-varying) dimension with label `lab`: `i` = current length appends the record and its
label, `i` < length overwrites both; beyond that netCDF4 would leave a gap of fill values, which the
library never produces by itself and the model refuses -/
def writeRecord {α} (v : DiskVar α) (i : Nat) (lab : Label) (row : List α) : Except Err (DiskVar α) :=
  match v.axes with
  | [] => .error .index
  | ax :: rest =>
    let rec_ := prod (rest.map (·.size))
    if row.length != rec_ then .error .value
    else if i == ax.labels.length then
      .ok { v with axes := { ax with labels := ax.labels ++ [lab] } :: rest, cells := v.cells ++ row }
    else if i < ax.labels.length then
      .ok { v with axes := { ax with labels := ax.labels.set i lab } :: rest,
                   cells := v.cells.take (i * rec_) ++ row ++ v.cells.drop ((i + 1) * rec_) }
    else .error .index

/-- appending the records of a whole array one after the other (what `for i: f[v].ix[[i]] = a.ix[[i]]` does) -/
def appendAll {α} (v : DiskVar α) (labs : List Label) (rows : List (List α)) : Except Err (DiskVar α) :=
  (labs.zip rows).foldlM (fun st (lr : Label × List α) =>
    match st.axes with
    | [] => .error .index
    | ax :: _ => writeRecord st ax.labels.length lr.1 lr.2) v

end OnDisk
end DimModel

/-
Heap-level model of a Dataset (dimarray/dataset.py): Axis objects have identities; the dataset owns
an ordered list of axis objects, every variable refers to axis objects by identity.  Only the
operations that decide sharing or mutate in place are modelled here (C13); value-level behaviour
of the variables is the DimArray model.
(after fixes F8, F15, F19)
-/
import DimModel.Lib.Axes
namespace DimModel
namespace DS

/-- an Axis object on the heap -/
structure AxisObj where
  id : Nat
  name : String
  labels : List Label
  kind : Kind
  direct : Bool := false       -- appended to the dataset directly, not (yet) through a variable
  deriving DecidableEq, Repr, Inhabited

structure State where
  axes : List AxisObj                    -- ds.axes, in order
  vars : List (String × List Nat)        -- key ↦ ids of the variable's axes, in the variable's dim order (dict order)
  next : Nat := 0
  deriving Repr, Inhabited

def init : State := { axes := [], vars := [], next := 0 }

inductive Op
  | setVar (key : String) (axes : List (String × List Label × Kind))   -- ds[key] = array with these axes
  | delVar (key : String)                                             -- del ds[key]
  | renameAxis (d : DimKey) (new : String)                            -- ds.axes[d].name = new
  | setDims (names : List String)                                     -- ds.dims = (...)
  | setLabel (d : DimKey) (i : Int) (l : Label) (lk : Kind)           -- ds.axes[d][i] = label
  | setLabels (d : DimKey) (ls : List Label) (lk : Kind)              -- ds.set_axis(values, axis=d)
  | replaceAxis (d : DimKey) (ls : List Label) (lk : Kind)            -- ds.axes[d] = Axis(values, same name)
  | renameKey (old new : String)                                      -- ds.rename_keys({old: new})
  | appendAxis (name : String) (ls : List Label) (lk : Kind)          -- ds.axes.append(Axis)
  | renameViaVar (key : String) (d : DimKey) (new : String)           -- ds[key].axes[d].name = new
  deriving Repr, Inhabited

def findAxis (s : State) (name : String) : Option AxisObj := s.axes.find? (·.name == name)
def axisById (s : State) (id : Nat) : Option AxisObj := s.axes.find? (·.id == id)

def used (s : State) (id : Nat) : Bool := s.vars.any (fun v => v.2.contains id)

/-- name of the axis with identity `id` (as seen through any holder of the object) -/
def nameOf (s : State) (id : Nat) : String := ((axisById s id).map (·.name)).getD ""

/-- position in `ds.axes` designated by a name or a (possibly negative) position -/
def axisIndex (s : State) (k : DimKey) : Except Err Nat :=
  match k with
  | .name n =>
    let p := (s.axes.map (·.name)).idxOf n
    if p < s.axes.length then .ok p else .error .value
  | .pos i =>
    let n : Int := s.axes.length
    let j := if i < 0 then i + n else i
    if j < 0 || j ≥ n then .error .index else .ok j.toNat

/-- `_maybe_delete_axes(axes)`: drop the listed axis objects that no variable uses any more -/
def maybeDelete (s : State) (ids : List Nat) : State :=
  { s with axes := s.axes.filter (fun ax => !(ids.contains ax.id && !used s ax.id)) }

/-- labels equal as `Axis.__eq__` sees them -/
def sameAxis (ax : AxisObj) (name : String) (labels : List Label) : Bool := ax.name == name && ax.labels == labels

def step (s : State) (op : Op) : State × Except Err Unit :=
  match op with
  | .setVar key axs =>
    -- an array is well-formed: distinct non-empty dimension names
    if (axs.map (·.1)).eraseDups.length != axs.length then (s, .error .value) else
    -- (fix F8) validate every axis before touching the dataset
    if axs.any (fun (n, l, _) => match findAxis s n with
        | some ex => !sameAxis ex n l
        | none => false) then (s, .error .value)
    else
      let oldIds := ((s.vars.find? (·.1 == key)).map (·.2)).getD []
      -- substitute existing axes, append the new ones
      let (s1, ids) := axs.foldl (fun (acc : State × List Nat) (n, l, k) =>
        match findAxis acc.1 n with
        | some ex => (acc.1, acc.2 ++ [ex.id])
        | none =>
          let ax : AxisObj := { id := acc.1.next, name := n, labels := l, kind := k }
          ({ acc.1 with axes := acc.1.axes ++ [ax], next := acc.1.next + 1 }, acc.2 ++ [ax.id])) (s, [])
      let vars := if s1.vars.any (·.1 == key) then s1.vars.map (fun v => if v.1 == key then (key, ids) else v)
                  else s1.vars ++ [(key, ids)]
      let s2 := { s1 with vars := vars, axes := s1.axes.map (fun ax => if ids.contains ax.id then { ax with direct := false } else ax) }
      -- axes of the replaced variable that the new value does not have
      let obsolete := oldIds.filter (fun i => !(axs.map (·.1)).contains (nameOf s i))
      (maybeDelete s2 obsolete, .ok ())
  | .delVar key =>
    match s.vars.find? (·.1 == key) with
    | none => (s, .error .key)
    | some v =>
      let s1 := { s with vars := s.vars.filter (·.1 != key) }
      (maybeDelete s1 v.2, .ok ())
  | .renameAxis d new =>
    match axisIndex s d with
    | .error e => (s, .error e)
    | .ok p =>
      if new == "" then (s, .error .value) else
      ({ s with axes := s.axes.modify p (fun ax => { ax with name := new }) }, .ok ())
  | .setDims names =>
    if names.length != s.axes.length then (s, .error .value) else
    if names.any (· == "") then (s, .error .value) else
    ({ s with axes := (s.axes.zip names).map (fun (ax, n) => { ax with name := n }) }, .ok ())
  | .setLabel d i l lk =>
    match axisIndex s d with
    | .error e => (s, .error e)
    | .ok p =>
      let ax := s.axes.getD p default
      let n : Int := ax.labels.length
      let j := if i < 0 then i + n else i
      if j < 0 || j ≥ n then (s, .error .index) else
      ({ s with axes := s.axes.modify p (fun ax => { ax with labels := ax.labels.set j.toNat l, kind := Lib.maybeCastKind ax.kind lk }) }, .ok ())
  | .setLabels d ls lk =>
    match axisIndex s d with
    | .error e => (s, .error e)
    | .ok p =>
      let ax := s.axes.getD p default
      if ls.length != ax.labels.length then (s, .error .value) else
      ({ s with axes := s.axes.modify p (fun ax => { ax with labels := ls, kind := Lib.maybeCastKind ax.kind lk }) }, .ok ())
  | .replaceAxis d ls lk =>
    match axisIndex s d with
    | .error e => (s, .error e)
    | .ok p =>
      let old := s.axes.getD p default
      if ls.length != old.labels.length then (s, .error .value) else
      let nw : AxisObj := { id := s.next, name := old.name, labels := ls, kind := lk, direct := old.direct }
      -- (fix F15) the new object is handed to every variable that had the old one
      ({ s with axes := s.axes.set p nw, next := s.next + 1,
                vars := s.vars.map (fun v => (v.1, v.2.map (fun i => if i == old.id then nw.id else i))) }, .ok ())
  | .renameKey old new =>
    match s.vars.find? (·.1 == old) with
    | none => (s, .error .key)
    | some v =>
      if old == new then (s, .ok ()) else
      -- (fix F19) an existing variable under the new key is deleted first (with the axes only it used)
      let s0 := match s.vars.find? (·.1 == new) with
        | some w => maybeDelete { s with vars := s.vars.filter (·.1 != new) } w.2
        | none => s
      ({ s0 with vars := (s0.vars.filter (·.1 != old)) ++ [(new, v.2)] }, .ok ())
  | .appendAxis name ls lk =>
    if name == "" then (s, .error .value) else
    if s.axes.any (·.name == name) then (s, .error .value) else
    ({ s with axes := s.axes ++ [{ id := s.next, name := name, labels := ls, kind := lk, direct := true }], next := s.next + 1 }, .ok ())
  | .renameViaVar key d new =>
    match s.vars.find? (·.1 == key) with
    | none => (s, .error .key)
    | some v =>
      let n : Int := v.2.length
      let idx : Except Err Nat := match d with
        | .name nm =>
          let p := (v.2.map (nameOf s)).idxOf nm
          if p < v.2.length then .ok p else .error .value
        | .pos i =>
          let j := if i < 0 then i + n else i
          if j < 0 || j ≥ n then .error .index else .ok j.toNat
      match idx with
      | .error e => (s, .error e)
      | .ok p =>
        if new == "" then (s, .error .value) else
        let id := v.2.getD p 0
        ({ s with axes := s.axes.map (fun ax => if ax.id == id then { ax with name := new } else ax) }, .ok ())

def run (s : State) (ops : List Op) : State := ops.foldl (fun st op => (step st op).1) s

/-- the shared-axes invariant of C13 -/
def Inv (s : State) : Prop :=
  (∀ v ∈ s.vars, ∀ i ∈ v.2, ∃ ax ∈ s.axes, ax.id = i) ∧          -- every variable axis is a dataset axis object
  (s.axes.map (·.id)).Nodup ∧                                     -- one object per entry
  (∀ ax ∈ s.axes, ax.direct = true ∨ used s ax.id = true) ∧       -- dataset dims = dims used by variables (+ direct ones)
  (∀ ax ∈ s.axes, ax.id < s.next) ∧
  (s.vars.map (·.1)).Nodup

end DS
end DimModel

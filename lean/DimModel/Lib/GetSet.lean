/-
Mirror of AbstractHasAxes._get_indices, _getaxes_ortho, AbstractDimArray._getitem / _setitem,
Axis.__getitem__, DimArray._getvalues_ortho / _setvalues_ortho / _setvalues_bool
(core/bases.py, core/dimarraycls.py, core/axes.py, indexing.expanded_indexer).
-/
import DimModel.Lib.Indexing
namespace DimModel

inductive Mode | label | position
  deriving DecidableEq, Repr, Inhabited

inductive DimKey | name (s : String) | pos (i : Int)
  deriving DecidableEq, Repr, Inhabited

/-- the spellings of an N-d index that `_get_indices` accepts -/
inductive UserIndex
  | tuple (l : List Ix)                  -- `a[i, j, ...]`, a non-tuple is `tuple [ix]`
  | dict (l : List (DimKey × Ix))        -- `{dim: ix}` with str or int keys
  | axisArg (ix : Ix) (axis : DimKey)    -- `take(ix, axis=...)`
  deriving Repr, Inhabited

structure IndexCfg where
  indexing : Option Mode := none    -- the `indexing=` argument (`.loc` → label, `.iloc` → position)
  captured : Mode := .label         -- `a._indexing`, captured from the option at construction
  toggle : Bool := false            -- `.ix` : the negation of the captured mode
  tol : Option Tol := none
  keepdims : Bool := false
  deriving Repr, Inhabited

def IndexCfg.mode (c : IndexCfg) : Mode :=
  if c.toggle then (if c.captured != .position then .position else .label)
  else match c.indexing with
    | some m => m
    | none => c.captured

namespace Lib

def fullIx : Ix := .slice none none none

/-- `expanded_indexer(key, ndim)` -/
def expandedIndexer (key : List Ix) (ndim : Nat) : Except Err (List Ix) :=
  let rec go (found : Bool) : List Ix → List Ix
    | [] => []
    | .ellipsis :: ks =>
      if !found then List.replicate (ndim + 1 - key.length) fullIx ++ go true ks
      else fullIx :: go found ks
    | k :: ks => k :: go found ks
  let nk := go false key
  if nk.length > ndim then .error .index
  else .ok (nk ++ List.replicate (ndim - nk.length) fullIx)

/-- python `dims[k]` for an int key -/
def dimOfKey (dims : List String) (k : DimKey) : Except Err String :=
  match k with
  | .name s => if dims.contains s then .ok s else .error .value
  | .pos i =>
    let n : Int := dims.length
    let j := if i < 0 then i + n else i
    if j < 0 || j ≥ n then .error .index else .ok (dims.getD j.toNat "")

/-- the "convert indices to tuple" part of `_get_indices` -/
def normalizeIndex (dims : List String) (ui : UserIndex) : Except Err (List Ix) := do
  let fromDict (l : List (DimKey × Ix)) : Except Err (List Ix) := do
    let kv ← l.mapM (fun (k, ix) => do let d ← dimOfKey dims k; pure (d, ix))
    -- later entries for the same dimension overwrite earlier ones, as in a dict
    pure (dims.map fun d => ((kv.reverse.find? (·.1 == d)).map (·.2)).getD fullIx)
  let key ← match ui with
    | .tuple l => pure l
    | .dict l => fromDict l
    | .axisArg ix (.pos 0) => pure [ix]
    | .axisArg ix k => fromDict [(k, ix)]
  expandedIndexer key dims.length

/-- a positional index must be an integer -/
def labelToInt (l : Label) : Except Err Int :=
  match l with
  | .num q => if q.den == 1 then .ok q.num else .error .index
  | _ => .error .index

/-- position-mode conversion of a user index to what NumPy receives -/
def ixToRaw (ix : Ix) : Except Err RawIx :=
  match ix with
  | .scalar v => do let i ← labelToInt v; pure (.int i)
  | .list vs => do let l ← vs.mapM labelToInt; pure (.ints l)
  | .mask m => pure (.mask m)
  | .slice s e st => do
      let s' ← match s with | none => pure none | some v => some <$> labelToInt v
      let e' ← match e with | none => pure none | some v => some <$> labelToInt v
      pure (.slice s' e' st)
  | .ellipsis => .error .other

/-- `_get_indices`: one NumPy-compatible index per dimension -/
def getIndices (axes : List Axis) (ui : UserIndex) (cfg : IndexCfg) : Except Err (List RawIx) := do
  let dims := axes.map (·.name)
  let key ← normalizeIndex dims ui
  let mode := cfg.mode
  (key.zip axes).mapM fun (ix, ax) => do
    let r ← match ix with
      | .mask m =>
        -- a boolean index must have the size of its axis (reads and assignments alike)
        if m.length == ax.size then pure (RawIx.mask m) else .error .index
      | _ =>
        if mode != .position && !ix.isFull then loc ax.labels ax.kind ix cfg.tol
        else ixToRaw ix
    match r with
    | .int i => pure (if cfg.keepdims then RawIx.ints [i] else r)
    | _ => pure r

/-- `Axis.__getitem__` for a non-scalar selection -/
def axisSelect (ax : Axis) (ps : List Nat) : Axis :=
  { name := ax.name, labels := ps.map (fun p => ax.labels.getD p Label.none), kind := ax.kind,
    attrs := ax.attrs }

/-- `_getaxes_ortho`: axes of the result (scalar-indexed dimensions are dropped; a full slice
returns the very same axis) -/
def getAxesOrtho (axes : List Axis) (raw : List RawIx) (pix : List PosIx) : List Axis :=
  ((axes.zip raw).zip pix).filterMap fun ((ax, r), p) =>
    match p with
    | .scalar _ => none
    | .list ps => if r == RawIx.slice none none none then some ax else some (axisSelect ax ps)

/-- `DimArray.take` / `__getitem__` / `.loc` / `.ix` ... (orthogonal indexing) -/
def take {α} (a : DimArray α) (ui : UserIndex) (cfg : IndexCfg) : Except Err (DimArray α) := do
  let raw ← getIndices a.axes ui cfg
  let pix ← (raw.zip a.axes).mapM fun (r, ax) => resolveRaw r ax.size
  pure { axes := getAxesOrtho a.axes raw pix, vals := a.vals.outer pix, vkind := a.vkind,
         attrs := a.attrs }

end Lib

/-- right-hand side of an assignment -/
inductive RHS (α : Type)
  | scalar (v : α)
  | arr (v : NDArr α)

/-- NumPy broadcasting of `v` to shape `s`: index function or `none` if not broadcastable -/
def broadcastTo {α} (v : NDArr α) (s : List Nat) : Option (List Nat → α) :=
  let r := v.shape.length
  let n := s.length
  -- NumPy accepts extra leading dimensions of size 1 on the right-hand side
  let extra := r - n
  if (v.shape.take extra).any (· != 1) then none else
  let vs := v.shape.drop extra
  let pad := n - vs.length
  let vs' := List.replicate pad 1 ++ vs
  if (vs'.zip s).all (fun (a, b) => a == b || a == 1) then
    some fun j =>
      let j' := (j.zip vs').map (fun (k, d) => if d == 1 then 0 else k)
      v.get (List.replicate extra 0 ++ j'.drop pad)
  else none

namespace Lib

/-- `_maybe_cast_type(values, newval)`: resulting array kind -/
def maybeCastKind (a v : Kind) : Kind :=
  if a == v then a
  else if a == .O then a
  else if a == .f && v == .i then a
  else if a == .i && v == .f then .f
  else if a == .U && v == .S then a
  else if a == .S && v == .U then .U
  else .O

/-- position (in the selection) that writes cell `k` last, if any: NumPy assigns in order, so
for repeated positions the last occurrence wins -/
def lastSel (ps : List Nat) (k : Nat) : Option Nat :=
  let r := ps.reverse.findIdx (· == k)
  if r < ps.length then some (ps.length - 1 - r) else none

/-- for an array index `j`, the selection coordinate that writes it (dropped dims excluded) -/
def selCoord : List PosIx → List Nat → Option (List Nat)
  | [], _ => some []
  | .scalar p :: ix, k :: j => if k == p then selCoord ix j else none
  | .list ps :: ix, k :: j =>
    match lastSel ps k, selCoord ix j with
    | some c, some cs => some (c :: cs)
    | _, _ => none
  | _ :: _, [] => none

/-- `values[np.ix_-style key] = v` : cells addressed by the selection take the (broadcast) value at
their selection coordinate, every other cell keeps its value -/
def putVals {α} (vals : NDArr α) (pix : List PosIx) (vget : List Nat → α) : NDArr α :=
  { shape := vals.shape
    get := fun j => match selCoord pix j with
      | some c => vget c
      | none => vals.get j }

/-- the keys that `orthogonal_indexer` turns into index arrays (`np.ix_`): every key that is not an integer and
does not belong to the leading or to the trailing run of full slices of the key (those stay slices) -/
def arrayKeyFlags (raw : List RawIx) : List Bool :=
  let isFull := fun (r : RawIx) => r == RawIx.slice none none none
  let lead := (raw.takeWhile isFull).length
  let trail := (raw.reverse.takeWhile isFull).length
  (List.range raw.length).map fun i =>
    (match raw.getD i (.int 0) with | .int _ => false | _ => true) && decide (lead ≤ i) && decide (i + trail < raw.length)

/-- the (index, axis) pairs that become index arrays -/
def arrayKeys (axes : List Axis) (raw : List RawIx) : List (RawIx × Axis) :=
  (((arrayKeyFlags raw).zip (raw.zip axes)).filter (·.1)).map (·.2)

/-- NumPy's resolution of the per-dimension indices of an assignment.  NumPy does not bounds-check
integer index arrays when the index arrays broadcast to nothing: scalars and slices are always resolved,
arrays only when every INDEX ARRAY of the key (`arrayKeys`: a full slice at the start or at the end of the key
stays a slice and is not one of them, even on a zero-length axis) selects something (otherwise only their
length matters: it still enters the shape the right-hand side is broadcast to, and no cell is written). -/
def putIndices (axes : List Axis) (raw : List RawIx) : Except Err (List PosIx) :=
  let anyEmpty := (arrayKeys axes raw).any fun (r, ax) =>
    match r with
    | .ints l => l.isEmpty
    | .mask m => !m.any id
    | .slice s e st => (match slicePositions s e st ax.size with | .ok ps => ps.isEmpty | .error _ => false)
    | .int _ => false
  (raw.zip axes).mapM fun (r, ax) =>
    match r with
    | .ints l => if anyEmpty then pure (PosIx.list (l.map fun _ => 0)) else resolveRaw r ax.size
    | .mask m => if anyEmpty then pure (PosIx.list ((nonzero m).map fun _ => 0)) else resolveRaw r ax.size
    | _ => resolveRaw r ax.size

/-- the assigned value as a function of the selection coordinate (NumPy broadcasting) -/
def putRhs {α} (rhs : RHS α) (selShape : List Nat) : Except Err (List Nat → α) :=
  match rhs with
  | .scalar v => .ok (fun _ => v)
  | .arr v => match broadcastTo v selShape with
    | some g => .ok g
    | none => .error .value

/-- `_setitem` (orthogonal branch): result array, or the error class -/
def put {α} (a : DimArray α) (ui : UserIndex) (rhs : RHS α) (rkind : Kind) (cfg : IndexCfg)
    (cast : Bool) : Except Err (DimArray α) := do
  let raw ← getIndices a.axes ui { cfg with keepdims := false }
  let pix ← putIndices a.axes raw
  let vget ← putRhs rhs (outerShape pix)
  pure { a with vals := putVals a.vals pix vget, vkind := if cast then maybeCastKind a.vkind rkind else a.vkind }

/-- `_setvalues_bool`: full-shape boolean mask, scalar right-hand side -/
def putBool {α} (a : DimArray α) (mask : NDArr Bool) (v : α) (rkind : Kind) (cast : Bool) :
    Except Err (DimArray α) :=
  if mask.shape != a.vals.shape then .error .index
  else .ok { a with vals := a.vals.putWhere mask.get (fun _ => v),
                    vkind := if cast then maybeCastKind a.vkind rkind else a.vkind }

end Lib
end DimModel

/-
Mirror of dimarray/lib/stats.py: `percentile`, `quantile`.  What NumPy computes inside one fibre (the q-th percentile
of a 1-D list of cells) is delegated to NumPy through the symbolic reduction `redq q fibre`.
-/
import DimModel.Lib.Missing
namespace DimModel
namespace Lib

/-- the `pct` argument of `percentile` -/
inductive PctArg
  | scalar (q : Rat)                      -- one percentile (`np.isscalar(pct)`)
  | many (qs : List Rat) (kind : Kind)    -- a list / tuple / array of percentiles; `kind`: dtype kind of `Axis(pct, ..)`
  deriving Repr, Inhabited

def PctArg.qs : PctArg → List Rat
  | .scalar q => [q]
  | .many qs _ => qs

/-- `percentile(a, pct, axis=0, newaxis=None)`
```
a, pos, nm = _deal_with_axis(a, axis)           # a tuple of axes is flattened, like in the other reductions
results = np.percentile(a.values, pct, axis=pos)
if np.isscalar(results): return results
subaxes = [ax for ax in a.axes if ax.name != nm]
if np.isscalar(pct): results = da.DimArray(results, axes=subaxes)
else:
    if newaxis is None: newaxis = nm + '_percentile'
    results = [da.DimArray(res, axes=subaxes) for res in results]
    results = da.stack(results, keys=pct, axis=newaxis)
results.attrs.update(a.attrs)
```
`redq q cells` stands for NumPy's `q`-th percentile of the 1-D list `cells`.  NumPy refuses a percentile outside
[0, 100] (ValueError) and has nothing to take a percentile of when the reduced extent is empty (IndexError); the
`DimArray` constructor refuses axes that do not announce the shape of the values (a bare `Exception`). -/
def percentile {α} [Inhabited α] (nan : α) (redq : Rat → List α → α) (a : DimArray α) (pct : PctArg)
    (ax : AxisArg) (newaxis : Option String) : Except Err (Sum α (DimArray α)) := do
  let (o, idx) ← dealWithAxis a ax
  let nm : Option String := idx.map fun pos => (o.axes.getD pos default).name
  -- np.percentile(a.values, pct, axis=pos)
  if pct.qs.any (fun q => q < 0 || q > 100) then .error .value else
  let extent := match idx with
    | none => o.vals.toList.length
    | some pos => o.vals.shape.getD pos 0
  if extent == 0 then .error .index else
  -- one block of reduced cells per percentile, of shape `rshape`
  let rshape := match idx with
    | none => []
    | some pos => o.vals.shape.eraseIdx pos
  let block (q : Rat) : NDArr α := match idx with
    | none => { shape := rshape, get := fun _ => redq q o.vals.toList }
    | some pos => { shape := rshape, get := fun j => redq q (fibre o pos j) }
  let subaxes := o.axes.filter fun ax => some ax.name != nm
  match pct with
  | .scalar q =>
    if rshape.isEmpty then pure (.inl ((block q).get []))                  -- np.isscalar(results)
    else if subaxes.map (·.size) != rshape then .error .other              -- DimArray(results, axes=subaxes)
    else pure (.inr { axes := subaxes, vals := block q, vkind := .f, attrs := o.attrs })
  | .many qs kind =>
    let name ← match newaxis, nm with
      | some n, _ => pure n
      | none, some nm => pure (nm ++ "_percentile")
      | none, none => .error .type                                        -- None + '_percentile'
    if !qs.isEmpty && subaxes.map (·.size) != rshape then .error .other else
    let results : List (DimArray α) := qs.map fun q => { axes := subaxes, vals := block q, vkind := .f, attrs := [] }
    let r ← stack nan results (some name) (qs.map Label.num) kind false false
    pure (.inr { r with attrs := o.attrs })

/-- `quantile(a, q, axis=0, newaxis=None)`
```
pos, nm = a._get_axis_info(axis)                 # a name or a position only (TypeError for a tuple)
if newaxis is None: newaxis = nm + '_quantile'
res = percentile(a, [qi*100 for qi in q], axis=axis, newaxis=newaxis)
if not np.isscalar(q): res.axes[newaxis].values /= 100.
```
(`q` must be iterable: a scalar `q` is a TypeError and is not a form of this mirror.  `qkind` is the dtype kind of the list
`[qi*100 ...]`: when every level is a Python int the percentile axis has integer labels and the in-place true division
raises UFuncTypeError, a TypeError) -/
def quantile {α} [Inhabited α] (nan : α) (redq : Rat → List α → α) (a : DimArray α) (qs : List Rat) (qkind : Kind)
    (ax : AxisArg) (newaxis : Option String) : Except Err (Sum α (DimArray α)) := do
  let nm : Option String ← match ax with
    | .none => pure none
    | .one k => do let (o, idx) ← dealWithAxis a (.one k); pure (idx.map fun pos => (o.axes.getD pos default).name)
    | .many _ => .error .type
  let name ← match newaxis, nm with
    | some n, _ => pure n
    | none, some nm => pure (nm ++ "_quantile")
    | none, none => .error .type
  let res ← percentile nan redq a (.many (qs.map (· * 100)) qkind) ax (some name)
  match res with
  | .inl v => pure (.inl v)
  | .inr r =>
    if qkind != .f then .error .type else
    -- res.axes[newaxis].values /= 100.  (the new axis is the first one)
    pure (.inr { r with axes := r.axes.modifyHead fun x =>
      { x with labels := x.labels.map fun l => match l with | .num v => .num (v / 100) | l => l } })

end Lib
end DimModel

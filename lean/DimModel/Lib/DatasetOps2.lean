/-
C14 (extension) - mirrors of the Dataset operations of dimarray/dataset.py that `Lib/DatasetOps.lean` does not cover:
the unary operators (`Dataset._unary_op`), the reflected operators with a scalar on the left (`Dataset._rbinary_op`).
-/
import DimModel.Lib.DatasetOps
namespace DimModel
namespace Lib

/-- `DimArray._unary_op(func)` = `self._constructor(func(self.values), self.axes)`: NumPy's function on the values,
the axes of the array, no metadata -/
def unaryOp {α} (u : α → α) (a : DimArray α) : DimArray α :=
  { axes := a.axes, vals := a.vals.map u, vkind := a.vkind, attrs := [] }

end Lib
namespace DSV
open Lib

/-- `Dataset._unary_op(func)` (`-ds`, `+ds`, `~ds`): a fresh Dataset, `res[k] = self[k]._unary_op(func)` for every key
in order (each result stored through `__setitem__`); no Dataset metadata -/
def unaryOpDs {α} (u : α → α) (self : Ds α) : Except Err (Ds α) :=
  self.vars.foldlM (fun (res : Ds α) kv => setItem res kv.1 (unaryOp u kv.2)) {}

/-- `Dataset._rbinary_op(func, other)` (`3 - ds`, `2 / ds`, `2 // ds`, `2 ** ds`; `3 + ds` and `3 * ds` are turned into
`ds + 3`, `ds * 3` by OpMixin): the left operand must be a scalar (`isscalar`, AssertionError otherwise);
`res[k] = self[k]._rbinary_op(func, other)` = `operation(func, other, self[k])` - the scalar is the LEFT argument of
the function (`Lib.operationNd` with `flip = true`) - for every key in order, stored through `__setitem__` -/
def rbinaryOpDs {α} (f : α → α → α) (self : Ds α) (lhs : Operand α) : Except Err (Ds α) :=
  match lhs with
  | .scalar c =>
    self.vars.foldlM (fun (res : Ds α) kv => do
      let r ← operationNd f kv.2 { shape := [], get := fun _ => c } true
      setItem res kv.1 r) {}
  | _ => .error .assertion

/-! ### stack_ds / concatenate_ds with align=True -/

/-- `align(datasets, join, axis, sort, strict)` of core/align.py applied to Datasets: the common axes
(`_get_aligned_axes` on the Datasets' axes), then, axis by axis, every Dataset that has the dimension and whose axis
differs from the common one (`Axis.__eq__`) is re-indexed with `Dataset.reindex_axis(ax)` (defaults: NaN fill,
raise_error=False, method=None) -/
def alignDs {α} (nan : α) (datasets : List (Ds α)) (join : Join) (axis : Option String) (sort strict : Bool) :
    Except Err (List (Ds α)) := do
  let axes ← getAlignedAxes (datasets.map (·.axes)) join axis sort strict
  axes.foldlM (fun dss ax =>
    dss.mapM fun o =>
      match o.axes.find? (·.name == ax.name) with
      | none => pure o
      | some oax =>
        if axisEq oax ax then pure o
        else reindexAxisDs o ax.name ax.labels ax.kind nan .f) datasets

/-- the body of `stack_ds` after the stacking dimension has been checked and the Datasets aligned -/
def stackDsBody {α} [Inhabited α] (nan : α) (name : String) (datasets : List (Ds α)) (keys : List Label)
    (keyKind : Kind) : Except Err (Ds α) := do
  -- find the list of variables common to all datasets
  let variables ← datasets.foldlM (fun (vs : Option (List String)) (ds : Ds α) =>
      if ds.dims.contains name then (.error .assertion : Except Err (Option (List String))) else
      match vs with
      | none => pure (some ds.keys)
      | some v => if sameKeys ds.keys v then pure (some v) else .error .assertion) none
  match variables with
  | none => .error .type          -- `for v in None`
  | some vars =>
    -- Compute stacked dataset
    vars.foldlM (fun (res : Ds α) v => do
      let arrays ← gather datasets v
      let array ← stack nan arrays (some name) keys keyKind false false
      setItem res v array) {}

/-- `stack_ds(datasets, axis, keys, align, join=, sort=)`: the new dimension is checked against the dimensions of the
Datasets AS GIVEN; with align=True the Datasets are aligned (`align(datasets, strict=True, **kwargs)`: along every
dimension, every Dataset must have it) *prior* to stacking; the rest is the loop of `stackDs` (every variable
`stack`ed with align=False) -/
def stackDsA {α} [Inhabited α] (nan : α) (datasets : List (Ds α)) (axis : Option String) (keys : List Label)
    (keyKind : Kind) (doAlign : Bool) (join : Join) (sort : Bool) : Except Err (Ds α) := do
  -- make sure the stacking dimension is ok
  let dims := getDims (datasets.map (·.axes))
  let name ← checkStackAxis axis dims
  let datasets ← if doAlign then alignDs nan datasets join none sort true else pure datasets
  stackDsBody nan name datasets keys keyKind

/-- `concatenate(arrays, axis=name, align=False, _no_check=True)`: `Lib.concatenate` without alignment and without
the comparison of the secondary axes (the shapes must still fit for `np.concatenate`) -/
def concatenateNoCheck {α} (arrays : List (DimArray α)) (name : String) : Except Err (DimArray α) := do
  let a0 ← match arrays with | a :: _ => pure a | [] => .error .index
  let pos ← (let p := a0.dims.idxOf name; if p < a0.dims.length then pure p else (.error .value : Except Err Nat))
  let dim := a0.dims.getD pos ""
  let arrays ← reorderLikeFirst arrays
  let a0 := arrays.headD a0
  -- np.concatenate: all dimensions but `pos` must match
  if arrays.any (fun a => a.vals.shape.eraseIdx pos != a0.vals.shape.eraseIdx pos || a.ndim != a0.ndim) then .error .value else
  let subaxes := a0.axes.eraseIdx pos
  let catLabels := arrays.flatMap (fun a => (a.axes.getD pos default).labels)
  let catKind := arrays.foldl (fun k a => (getCastKind k (a.axes.getD pos default).kind).1) (a0.axes.getD pos default).kind
  let newaxis : Axis := { name := dim, labels := catLabels, kind := catKind }
  match concatVals (arrays.map (·.vals)) pos with
  | none => .error .value
  | some v => pure { axes := (subaxes.take pos ++ [newaxis] ++ subaxes.drop pos).map (fun ax => { ax with attrs := ax.attrs }),
                     vals := v, vkind := a0.vkind, attrs := [] }

/-- `concatenate_ds(datasets, axis, align, join=, sort=)`: same variables everywhere, the axis resolved in the first
Dataset; with align=True the Datasets are aligned along every OTHER dimension of any of them, one `align(datasets,
axis=d, strict=True, **kwargs)` per dimension (every Dataset must have it), and the variables are concatenated without
the check of the secondary axes (`_no_check=align`) -/
def concatenateDsA {α} (nan : α) (datasets : List (Ds α)) (axis : DimKey) (doAlign : Bool) (join : Join) (sort : Bool) :
    Except Err (Ds α) := do
  -- find the list of variables common to all datasets
  let variables ← datasets.foldlM (fun (vs : Option (List String)) (ds : Ds α) =>
      match vs with
      | none => (pure (some ds.keys) : Except Err (Option (List String)))
      | some v => if sameKeys ds.keys v then pure (some v) else .error .assertion) none
  -- axis name: a position refers to the dataset's dimensions, not to each variable's
  let name ← firstAxisName datasets axis
  let datasets ← if doAlign then
      ((getDims (datasets.map (·.axes))).filter (· != name)).foldlM
        (fun dss d => alignDs nan dss join (some d) sort true) datasets
    else pure datasets
  match variables with
  | none => .error .type          -- `for v in None`
  | some vars =>
    -- Compute concatenated dataset
    vars.foldlM (fun (res : Ds α) v => do
      let arrays ← gather datasets v
      let array ← if doAlign then concatenateNoCheck arrays name else concatenate nan arrays (.name name) false false
      setItem res v array) {}

end DSV
end DimModel

/-
C18 - value-level mirror of `Dataset.interp_axis` (dimarray/dataset.py).

`Dataset.interp_axis` does NOT call `DimArray.interp_axis` on every variable: it sorts the whole Dataset along the
axis if the Dataset's labels are not increasing (`_interp_internal_maybe_sort` -> `Dataset.sort_axis`), computes the
interpolation indices / weights / out-of-range masks ONCE from the Dataset's (sorted) labels
(`_interp_internal_get_weights`) and hands them, through `Dataset.reduce_axis(_interp_internal_from_weight,
keepdims=True, keepattrs=True, newaxis=Axis(values, name))`, to the raw values of every variable that has the
dimension (`axis=pos`, the position of the dimension in that variable).  The values are exact rationals / abstract
cells as in `Lib.interpAxis` (`interpAt` is the index+weight+fill kernel).
-/
import DimModel.Lib.DatasetOps
import DimModel.Lib.Interp
namespace DimModel
namespace DSV
open Lib

/-- `_interp_internal_from_weight(item.values, axis=pos, left, right, **weights)` where the weights were computed
from the (increasing) nodes `xs` and the new coordinates `nx` -/
def interpVals {α} [Inhabited α] (lin : α → α → Rat → α) (xs nx : List Rat) (left right : α) (pos : Nat)
    (item : DimArray α) : NDArr α :=
  { shape := item.vals.shape.set pos nx.length
    get := fun j =>
      let x := nx.getD (j.getD pos 0) 0
      let ys := (List.range xs.length).map fun i => item.vals.get (j.set pos i)
      interpAt lin xs ys default left right x }

/-- the part of `Dataset.interp_axis` after `_interp_internal_maybe_sort`: `curaxis = obj.axes[axis]`, the weights
from `curaxis.values` and the new coordinates, `obj.reduce_axis(_interp_internal_from_weight, ..., newaxis=newaxis)` -/
def interpSortedDs {α} [Inhabited α] (lin : α → α → Rat → α) (o : Ds α) (name : String) (newL : List Label)
    (newKind : Kind) (left right : α) : Except Err (Ds α) :=
  match o.axes.find? (·.name == name) with
  | none => .error .value
  | some oax =>
    match labelsToRat oax.labels, labelsToRat newL with
    | some xs, some nx =>
      if xs.isEmpty then .error .value else     -- np.interp: array of sample points is empty
      let newax : Axis := { name := name, labels := newL, kind := newKind }
      do
        let out ← reduceAxisKeep o name newax (interpVals lin xs nx left right)
        -- the interpolated values are floating point whatever the dtype of the variable
        pure { out with vars := out.vars.map fun kv =>
                 if kv.2.dims.contains name then (kv.1, { kv.2 with vkind := .f }) else kv }
    | _, _ => .error .type

/-- `Dataset.interp_axis(values, axis=name, left, right)` (issorted=None) -/
def interpAxisDs {α} [Inhabited α] (lin : α → α → Rat → α) (ds : Ds α) (name : String) (newL : List Label)
    (newKind : Kind) (left right : α) : Except Err (Ds α) :=
  match ds.axes.find? (·.name == name) with
  | none => .error .value
  | some ax => do
    -- _interp_internal_maybe_sort: sort the Dataset if ITS labels are not increasing
    let o ← if isIncreasingEq ax.labels then pure ds else sortAxisDs ds name
    interpSortedDs lin o name newL newKind left right

end DSV
end DimModel

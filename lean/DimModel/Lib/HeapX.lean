/-
C15 - more operations inside the object-level model of Lib/Heap.lean, and the observation of SHARING.

Mirrors (what the result shares with the operand was read from the code and confirmed by experiment with
np.shares_memory / `is`):
* swapaxes / T / rollaxis (reshape.py): all go through `transpose`: a NumPy view over the same buffer, the very
  same Axis objects, a new metadata dict with the same value objects.  `T` = `transpose()` without arguments:
  rank 0 returns THE OPERAND ITSELF (no new object), rank 1 / 2 the reversed order, rank > 2 is refused.
* newaxis(name, pos) (reshape.py): `self.values[..., np.newaxis]` = a view over the same buffer; `self.axes.copy()`
  = deep copies of every Axis; a new Axis `[None]` with empty metadata; `attrs.update` = new dict, same value objects.
* take(slice(start, stop, step), axis=d, indexing='position') with an explicit slice: NOT a view (unlike `a[:]` /
  `slice(None)`): values copied, a new Axis for `d` (copied labels, new dict / same value objects), the other Axis
  objects shared - exactly `takeList` with the positions of the slice.
* a.sum(axis=d) (transform.apply_along_axis): new values; the remaining Axis objects are THE SAME objects; metadata
  dict new with the same value objects.  (rank 1 returns a NumPy scalar, no array: refused here.)
* a + b (operation.operation) for operands with the same dimensions and labels: new values; every Axis a deep copy
  (`ax.copy()`) of the left operand's (of the right operand's where the left one is a `[None]` axis of newaxis);
  empty metadata.
* reindex_axis(labels, axis=d) with labels all present in a duplicate-free axis (align.py: locate_many + take_axis):
  as sort_axis - new values, the re-indexed Axis re-selected (copied labels, metadata values shared), the other
  Axis objects deep copies, metadata dict new / same value objects.
-/
import DimModel.Lib.Heap
namespace DimModel
namespace Heap

/-- label of the dummy axis of `newaxis` (`None` in Python; the harness encodes it the same way) -/
def noneLabel : Int := -999

def swapPerm (n a b : Nat) : List Nat :=
  (List.range n).map fun i => if i == a then b else if i == b then a else i

/-- `a.swapaxes(a1, a2)` -/
def swapaxes (h : H) (r : Ref) (a b : Nat) : Option (H × Ref) :=
  match h[r]? with
  | some (.arr _ _ shape _ _) =>
    if a ≥ shape.length || b ≥ shape.length then none else transpose h r (swapPerm shape.length a b)
  | _ => none

/-- `a.rollaxis(d)` (start = 0) -/
def rollaxis (h : H) (r : Ref) (d : Nat) : Option (H × Ref) :=
  match h[r]? with
  | some (.arr _ _ shape _ _) =>
    if d ≥ shape.length then none else transpose h r (d :: (List.range shape.length).filter (· != d))
  | _ => none

/-- `a.T`: rank 0 = the operand itself -/
def tT (h : H) (r : Ref) : Option (H × Ref) :=
  match h[r]? with
  | some (.arr _ _ shape _ _) =>
    (match shape.length with
     | 0 => some (h, r)
     | 1 => transpose h r [0]
     | 2 => transpose h r [1, 0]
     | _ => none)
  | _ => none

/-- `a.newaxis(name, pos=pos)` -/
def newaxis (h : H) (r : Ref) (name : String) (pos : Nat) : Option (H × Ref) :=
  match h[r]? with
  | some (.arr vals view shape axes attrs) =>
    if pos > shape.length || axes.any (fun a => (obsAxis h a).name == name) then none else
    let (h1, naxes) := mapAlloc deepAxis h axes
    let (h2, nl) := alloc h1 (.buf [noneLabel])
    let (h3, nd) := alloc h2 (.dict [])
    let (h4, nax) := alloc h3 (.axis name nl [0] nd)
    let (h5, na) := shallowDict h4 attrs
    some (alloc h5 (.arr vals view (shape.take pos ++ [1] ++ shape.drop pos)
      (naxes.take pos ++ [nax] ++ naxes.drop pos) na))
  | _ => none

/-- positions of `slice(start, stop, step)` (all three given, `step > 0`) in a dimension of size `n` -/
def slicePos (n start stop step : Nat) : List Nat :=
  (List.range n).filter fun i => decide (start ≤ i) && decide (i < stop) && ((i - start) % step == 0)

/-- `a.take(slice(start, stop, step), axis=d, indexing='position')`: a copy -/
def sliceRange (h : H) (r : Ref) (d start stop step : Nat) : Option (H × Ref) :=
  match h[r]? with
  | some (.arr _ _ shape _ _) =>
    if step == 0 then none else takeList h r d (slicePos (shape.getD d 0) start stop step)
  | _ => none

/-- `a.sum(axis=d)` for rank ≥ 2 -/
def reduceSum (h : H) (r : Ref) (d : Nat) : Option (H × Ref) :=
  match h[r]? with
  | some (.arr vals view shape axes attrs) =>
    if d ≥ shape.length || shape.length < 2 then none else
    let nshape := shape.eraseIdx d
    let src := readBuf h vals view
    let cells := (allIdxN nshape).map fun j =>
      ((List.range (shape.getD d 0)).map fun p => src.getD (ravelN shape (j.take d ++ [p] ++ j.drop d)) 0).foldl (· + ·) 0
    let (h1, nv) := alloc h (.buf cells)
    let (h2, na) := shallowDict h1 attrs
    some (alloc h2 (.arr nv (List.range cells.length) nshape (axes.eraseIdx d) na))
  | _ => none

/-- `a + b` for operands of rank ≥ 1 with the same dimension names, shapes and labels -/
def addArr (h : H) (r1 r2 : Ref) : Option (H × Ref) :=
  match h[r1]?, h[r2]? with
  | some (.arr v1 w1 s1 ax1 _), some (.arr v2 w2 s2 ax2 _) =>
    let o1 := ax1.map (obsAxis h)
    let o2 := ax2.map (obsAxis h)
    if s1.length == 0 || s1 != s2 || ax1.length != ax2.length || o1.map (·.name) != o2.map (·.name)
        || o1.map (·.labels) != o2.map (·.labels) then none else
    let cells := List.zipWith (· + ·) (readBuf h v1 w1) (readBuf h v2 w2)
    let srcs := List.zipWith (fun a b => if (obsAxis h a).labels.head? == some noneLabel then b else a) ax1 ax2
    let (h1, nv) := alloc h (.buf cells)
    let (h2, naxes) := mapAlloc deepAxis h1 srcs
    let (h3, na) := alloc h2 (.dict [])
    some (alloc h3 (.arr nv (List.range cells.length) s1 naxes na))
  | _, _ => none

/-- `take_axis(ps, d)`: the engine behind sort_axis and reindex_axis -/
def reorderAxis (h : H) (r : Ref) (d : Nat) (ps : List Nat) : Option (H × Ref) :=
  match h[r]? with
  | some (.arr vals view shape axes attrs) =>
    if d ≥ shape.length then none else
    let nshape := shape.set d ps.length
    let nview := (allIdxN nshape).map fun j => view.getD (ravelN shape (j.set d (ps.getD (j.getD d 0) 0))) 0
    let (h1, nv, nvw) := freshBuf h vals nview
    let (h2, naxes) := (List.range axes.length).foldl (fun (acc : H × List Ref) i =>
        let (hh, nr) := if i == d then selectAxis acc.1 (axes.getD i 0) ps else deepAxis acc.1 (axes.getD i 0)
        (hh, acc.2 ++ [nr])) (h1, [])
    let (h3, na) := shallowDict h2 attrs
    some (alloc h3 (.arr nv nvw nshape naxes na))
  | _ => none

def nodupI : List Int → Bool
  | [] => true
  | x :: xs => !xs.contains x && nodupI xs

/-- `a.reindex_axis(labels, axis=d)`, every label present, the axis without duplicates -/
def reindexAxis (h : H) (r : Ref) (d : Nat) (labels : List Int) : Option (H × Ref) :=
  match h[r]? with
  | some (.arr _ _ shape axes _) =>
    if d ≥ shape.length then none else
    let labs := (obsAxis h (axes.getD d 0)).labels
    if !nodupI labs || !labels.all (labs.contains ·) then none else
    reorderAxis h r d (labels.map fun l => labs.idxOf l)
  | _ => none

/-- `ds = Dataset(); ds['v'] = a; ds['v']` (dataset.py `__setitem__`: `copy.copy(val)` then `val._axes = copy.deepcopy(val.axes)`;
`__getitem__` = dict lookup): a NEW array object holding THE SAME values object and THE SAME metadata dict as `a`; its Axis
objects are the Dataset's own (deep copies of a's) -/
def dsVar (h : H) (r : Ref) : Option (H × Ref) :=
  match h[r]? with
  | some (.arr vals view shape axes attrs) =>
    let (h1, naxes) := mapAlloc deepAxis h axes
    some (alloc h1 (.arr vals view shape naxes attrs))
  | _ => none

/-! ### histories over the extended operation set -/

inductive XOp
  | base (op : Op)
  | swapaxes (k a b : Nat)
  | rollaxis (k d : Nat)
  | tT (k : Nat)
  | newaxis (k : Nat) (name : String) (pos : Nat)
  | sliceRange (k d start stop step : Nat)
  | reduceSum (k d : Nat)
  | addArr (k j : Nat)
  | reindexAxis (k d : Nat) (labels : List Int)
  | dsVar (k : Nat)
  deriving Repr, Inhabited

def xisMut : XOp → Bool
  | .base op => isMut op
  | _ => false

def xapply (h : H) (env : List Ref) : XOp → Option (H × Ref)
  | .base op => apply h env op
  | .swapaxes k a b => (env[k]?).bind (swapaxes h · a b)
  | .rollaxis k d => (env[k]?).bind (rollaxis h · d)
  | .tT k => (env[k]?).bind (tT h)
  | .newaxis k name pos => (env[k]?).bind (newaxis h · name pos)
  | .sliceRange k d a b c => (env[k]?).bind (sliceRange h · d a b c)
  | .reduceSum k d => (env[k]?).bind (reduceSum h · d)
  | .addArr k j => (env[k]?).bind fun r1 => (env[j]?).bind fun r2 => addArr h r1 r2
  | .reindexAxis k d labels => (env[k]?).bind (reindexAxis h · d labels)
  | .dsVar k => (env[k]?).bind (dsVar h)

def xstep (s : St) (x : XOp) : St :=
  match x with
  | .base op => step s op
  | _ => match xapply s.h s.env x with
    | some (h', r) => { h := h', env := s.env ++ [r] }
    | none => s

def xrun (s : St) (xs : List XOp) : St := xs.foldl xstep s

/-! ### observation of sharing (what np.shares_memory / `is` see) -/

def overlap (a b : List Nat) : Bool := a.any (b.contains ·)

structure ShareObs where
  i : Nat
  j : Nat
  same : Bool                       -- `env[i] is env[j]`
  vals : Bool                       -- np.shares_memory(env[i].values, env[j].values)
  axes : List (Nat × Nat)           -- env[i].axes[a] is env[j].axes[b]
  labels : List (Nat × Nat)         -- np.shares_memory(env[i].axes[a].values, env[j].axes[b].values)
  attrs : Bool                      -- env[i].attrs is env[j].attrs
  attrVals : List String            -- keys whose (mutable) values are one object in both
  deriving Repr, DecidableEq, Inhabited

def axisBuf (h : H) (r : Ref) : Option (Ref × List Nat) :=
  match h[r]? with
  | some (.axis _ labels view _) => some (labels, view)
  | _ => none

def listVals (h : H) (r : Ref) : List (String × Ref) :=
  match h[r]? with
  | some (.dict kv) => kv.filterMap fun e => match e.2 with | .list lr => some (e.1, lr) | .atom _ => none
  | _ => []

def sharePair (h : H) (i j : Nat) (ri rj : Ref) : Option ShareObs :=
  match h[ri]?, h[rj]? with
  | some (.arr v1 w1 _ ax1 t1), some (.arr v2 w2 _ ax2 t2) =>
    let pairs := (List.range ax1.length).flatMap fun a => (List.range ax2.length).map fun b => (a, b)
    some { i := i, j := j, same := ri == rj, vals := v1 == v2 && overlap w1 w2,
           axes := pairs.filter fun p => ax1.getD p.1 0 == ax2.getD p.2 0,
           labels := pairs.filter fun p =>
             match axisBuf h (ax1.getD p.1 0), axisBuf h (ax2.getD p.2 0) with
             | some (l1, lw1), some (l2, lw2) => l1 == l2 && overlap lw1 lw2
             | _, _ => false,
           attrs := t1 == t2,
           attrVals := (listVals h t1).filterMap fun e =>
             if (listVals h t2).any (fun f => f.1 == e.1 && f.2 == e.2) then some e.1 else none }
  | _, _ => none

/-- sharing between every pair of live arrays `i < j` -/
def St.share (s : St) : List (Option ShareObs) :=
  (List.range s.env.length).flatMap fun j => (List.range j).map fun i =>
    sharePair s.h i j (s.env.getD i 0) (s.env.getD j 0)

end Heap
end DimModel

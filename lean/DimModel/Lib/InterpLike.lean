/-
C18 - mirrors of `interp_like` (dimarray/core/transform.py) and `Dataset.interp_like` (dimarray/dataset.py).

    def interp_like(self, other, **kwargs):
        if hasattr(other, 'axes'):   axes = other.axes            # a DimArray (or a Dataset): its axes
        elif isinstance(other, Axes): axes = other                # an Axes object
        else: raise TypeError(...)                                # (not a value of the model: the template IS a list of axes)
        newdims = [ax2.name for ax2 in axes]
        obj = self
        for ax in self.axes:                                      # the axes of SELF, in their stored order
            if ax.name in newdims:
                newaxis = axes[ax.name].values                    # Axes.__getitem__(str): the first axis of that name
                obj = obj.interp_axis(newaxis, axis=ax.name, **kwargs)
        return obj

The template is reduced to its list of axes (`tmpl`); `ax.name in newdims` / `axes[ax.name]` is `tmpl.find?` by name
(first match).  Only the labels (and their dtype kind) of the template axis are used: `interp_axis` builds a fresh
`Axis(values, name)`, so neither the template's axis metadata nor its data matter.  Dimensions of `self` that the
template lacks are skipped; dimensions of the template that `self` lacks are never looked at.  A shared dimension
whose labels (of `self` or of the template) are not numbers makes that `interp_axis` call - hence the whole
`interp_like` - fail with the TypeError of `numpy.interp`.  The keyword arguments (`left`, `right`, `issorted`) are
handed unchanged to EVERY call: the same two fills serve every dimension, and a cell filled by an earlier step is
ordinary data for the later ones.  As `Lib.interpAxis`, the mirror models `issorted=None` (`issorted=False` sorts an
already increasing axis with a stable sort, i.e. not at all; `issorted=True` is only meaningful on an increasing axis,
where it skips a check that would have passed).

`Dataset.interp_like(other, **kwargs)` is the very same function applied to a Dataset: the loop runs over the
DATASET's axes (`Dataset.axes`, in the order the Dataset holds them - not in the order of any variable) and calls
`Dataset.interp_axis` (`DSV.interpAxisDs`) by name.
-/
import DimModel.Lib.Interp
import DimModel.Lib.DatasetInterp
namespace DimModel
namespace Lib

/-- one turn of the loop of `interp_like`: `if ax.name in newdims: obj = obj.interp_axis(axes[ax.name].values,
axis=ax.name, **kwargs)` -/
def interpLikeStep {α} [Inhabited α] (lin : α → α → Rat → α) (tmpl : List Axis) (left right : α)
    (obj : DimArray α) (ax : Axis) : Except Err (DimArray α) :=
  match tmpl.find? (·.name == ax.name) with
  | some t => interpAxis lin obj (.name ax.name) t.labels t.kind left right
  | none => pure obj

/-- `interp_like(other, left, right)` where `tmpl` are the axes of `other` (`other.axes`, or `other` itself when it is
an `Axes`) -/
def interpLike {α} [Inhabited α] (lin : α → α → Rat → α) (a : DimArray α) (tmpl : List Axis) (left right : α) :
    Except Err (DimArray α) :=
  a.axes.foldlM (interpLikeStep lin tmpl left right) a

end Lib

namespace DSV
open Lib

/-- one turn of the same loop on a Dataset: `obj = obj.interp_axis(axes[ax.name].values, axis=ax.name, **kwargs)` with
`obj` a Dataset -/
def interpLikeDsStep {α} [Inhabited α] (lin : α → α → Rat → α) (tmpl : List Axis) (left right : α)
    (obj : Ds α) (ax : Axis) : Except Err (Ds α) :=
  match tmpl.find? (·.name == ax.name) with
  | some t => interpAxisDs lin obj ax.name t.labels t.kind left right
  | none => pure obj

/-- `Dataset.interp_like(other, left, right)` = `interp_like(self, other, left, right)` of core/transform.py with `self`
a Dataset: the loop over `self.axes` are the Dataset's axes -/
def interpLikeDs {α} [Inhabited α] (lin : α → α → Rat → α) (ds : Ds α) (tmpl : List Axis) (left right : α) :
    Except Err (Ds α) :=
  ds.axes.foldlM (interpLikeDsStep lin tmpl left right) ds

end DSV
end DimModel

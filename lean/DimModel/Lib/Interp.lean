/-
Mirror of interp_axis (core/transform.py): _interp_internal_maybe_sort, _interp_internal_get_weights,
_interp_internal_from_weight and the 1-D np.interp path, over exact rationals (labels) with values
kept abstract (`lin a b w` stands for `a + w * (b - a)`).   (after fix F16)
-/
import DimModel.Lib.Missing
namespace DimModel
namespace Lib

/-- number of nodes `≤ x` in an increasing list -/
def countLe (xs : List Rat) (x : Rat) : Nat := (xs.filter (fun v => decide (v ≤ x))).length

/-- the real-valued position `newindices` that `np.interp(newx, oldx, arange(n))` computes for an
in-range point: `j + (x - xs[j]) / (xs[j+1] - xs[j])` -/
def fracIndex (xs : List Rat) (x : Rat) : Nat × Rat :=
  let j := countLe xs x - 1
  if j + 1 < xs.length then
    let x0 := xs.getD j 0
    let x1 := xs.getD (j + 1) 0
    (j, (x - x0) / (x1 - x0))
  else (j, 0)

/-- interpolated value at one new coordinate along a sorted (increasing) axis with nodes `xs` and
fibre values `ys` -/
def interpAt {α} (lin : α → α → Rat → α) (xs : List Rat) (ys : List α) (dflt : α) (left right : α) (x : Rat) : α :=
  match xs.head?, xs.getLast? with
  | some lo, some hi =>
    if x < lo then left
    else if hi < x then right
    else
      let (j, w) := fracIndex xs x
      if w == 0 then ys.getD j dflt
      else lin (ys.getD j dflt) (ys.getD (j + 1) dflt) w
  | _, _ => dflt

def labelsToRat (L : List Label) : Option (List Rat) := L.mapM Label.toRat?

/-- `interp_axis(values, axis, left, right)` (issorted=None) -/
def interpAxis {α} [Inhabited α] (lin : α → α → Rat → α) (a : DimArray α) (k : DimKey) (newL : List Label) (newKind : Kind)
    (left right : α) : Except Err (DimArray α) := do
  let pos ← match k with
    | .name s => let p := a.dims.idxOf s; if p < a.dims.length then pure p else (.error .value : Except Err Nat)
    | .pos i =>
      let n : Int := a.ndim
      let j := if i < 0 then i + n else i
      if j < 0 || j ≥ n then .error .index else pure j.toNat
  let ax := a.axes.getD pos default
  -- _interp_internal_maybe_sort: sort the axis if it is not increasing
  let o := if isIncreasingEq ax.labels then a else takeAxisPos a pos (argsortBy Label.le ax.labels)
  let oax := o.axes.getD pos default
  match labelsToRat oax.labels, labelsToRat newL with
  | some xs, some nx =>
    if xs.isEmpty then .error .value else     -- np.interp: array of sample points is empty
    let newax : Axis := { name := ax.name, labels := newL, kind := newKind }
    pure { axes := o.axes.set pos newax
           vals := { shape := o.vals.shape.set pos nx.length
                     get := fun j =>
                       let x := nx.getD (j.getD pos 0) 0
                       let ys := (List.range xs.length).map fun i => o.vals.get (j.set pos i)
                       interpAt lin xs ys default left right x }
           vkind := .f, attrs := o.attrs }
  | _, _ => .error .type

end Lib
end DimModel

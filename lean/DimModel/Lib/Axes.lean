/-
Mirror of dimarray/core/axes.py: _get_cast_kind, _check_axes_merge, Axis.union, Axis.intersection,
Axis.sort, Axis.__eq__; and of align.py: _common_axis, _get_aligned_axes, align, get_dims.
-/
import DimModel.Lib.Align
namespace DimModel
namespace Lib

/-- `_get_cast_kind(kind0, kind1)` : (kind, consistent_kinds) -/
def getCastKind (k0 k1 : Kind) : Kind × Bool :=
  if k0 == k1 then (k0, true)
  else if k0 == .O || k1 == .O then (.O, false)
  else if k0 == .f || k1 == .f then (.f, true)
  else if k0 == .i || k1 == .i then (.i, true)
  else (.O, false)

/-- direction of a label sequence: `none` for fewer than two labels (after fix K2 a one-label
axis adopts the direction of the other operand) -/
def slope (L : List Label) : Option Bool :=
  match L.head?, L.getLast? with
  | some a, some z => if L.length < 2 then none else some (Label.le a z)
  | _, _ => none

def sameSlope (s1 s2 : Option Bool) : Bool :=
  match s1, s2 with
  | some x, some y => x == y
  | _, _ => true

def decSlope (s1 s2 : Option Bool) : Bool :=
  (match s1 with | some x => some x | none => s2) == some false

/-- labels of the union of two non-empty, different label sequences -/
def unionLabels (cons : Bool) (a b : List Label) : List Label :=
  if cons && isMonotonic a && isMonotonic b && sameSlope (slope a) (slope b) then
    -- join two sorted axes
    (if decSlope (slope a) (slope b) then (union1d Label.le a b).reverse else union1d Label.le a b)
  else
    -- no ordering, just concatenate and drop doublons
    a ++ b.filter (fun v => !a.contains v)

/-- `Axis.union(self, other)` -/
def union (a b : Axis) : Axis :=
  let kc := getCastKind a.kind b.kind
  if a.labels == b.labels then { a with kind := kc.1, members := [] }                  -- self.copy()
  else if a.labels.isEmpty then { b with kind := kc.1, members := [] }                 -- return other
  else if b.labels.isEmpty then { a with kind := kc.1, members := [] }                 -- return self
  else { name := a.name, labels := unionLabels kc.2 a.labels b.labels, kind := kc.1, attrs := a.attrs }

/-- `Axis.intersection(self, other)` : labels of `self` that are in `other`, in `self`'s order -/
def intersection (a b : Axis) : Axis :=
  let k := (getCastKind a.kind b.kind).1
  if a.labels == b.labels then { a with kind := k, members := [] }
  else if a.labels.isEmpty || b.labels.isEmpty then { name := a.name, labels := [], kind := .f }
  else
    { name := a.name
      labels := a.labels.filter (fun v => (b.labels.filter (fun w => a.labels.contains w)).contains v)
      kind := k, attrs := a.attrs }

inductive Join | outer | inner
  deriving DecidableEq, Repr, Inhabited

def isNoneSingleton (ax : Axis) : Bool := ax.labels == [Label.none]

/-- `_common_axis(axes, join)` (recursion from the right) -/
def commonAxis (join : Join) : List Axis → Option Axis
  | [] => none
  | [ax] => some ax
  | ax0 :: rest =>
    match commonAxis join rest with
    | none => some ax0
    | some ax1 =>
      -- do not include None unless we have a singleton
      if isNoneSingleton ax0 then some ax1
      else if isNoneSingleton ax1 then some ax0
      else match join with
        | .outer => some (union ax0 ax1)
        | .inner => some (intersection ax0 ax1)

/-- `get_dims(*arrays)` -/
def getDims (arrays : List (List Axis)) : List String :=
  arrays.foldl (fun dims axes => axes.foldl (fun ds ax => if ds.contains ax.name then ds else ds ++ [ax.name]) dims) []

/-- `Axis.sort()` : ascending labels -/
def axisSort (ax : Axis) : Axis := { ax with labels := sortBy Label.le ax.labels }

/-- `_get_aligned_axes` -/
def getAlignedAxes (arrays : List (List Axis)) (join : Join) (axis : Option String) (sort strict : Bool) :
    Except Err (List Axis) :=
  let dims := match axis with
    | none => getDims arrays
    | some d => [d]
  dims.mapM fun d => do
    let having := arrays.filterMap (fun axes => axes.find? (·.name == d))
    if strict && having.length != arrays.length then .error .value
    else match commonAxis join having with
      | none => .error .assertion       -- assert len(axes) > 0
      | some ax => pure (if sort then axisSort ax else ax)

/-- `Axis.__eq__` -/
def axisEq (a b : Axis) : Bool := a.labels == b.labels && a.name == b.name

/-- `align(arrays, join, axis, sort, strict)` for DimArrays (NaN fill) -/
def align {α} (nan : α) (arrays : List (DimArray α)) (join : Join) (axis : Option String) (sort strict : Bool) :
    Except Err (List (DimArray α)) := do
  let axes ← getAlignedAxes (arrays.map (·.axes)) join axis sort strict
  axes.foldlM (fun arrs ax =>
    arrs.mapM fun o =>
      match o.axes.find? (·.name == ax.name) with
      | none => pure o
      | some oax =>
        if axisEq oax ax then pure o
        else reindexAxis o (.name ax.name) ax.labels ax.kind nan .f false none) arrays

end Lib
end DimModel

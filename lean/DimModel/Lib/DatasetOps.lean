/-
C14 - value-level mirror of the Dataset operations of dimarray/dataset.py.

dataset.py does NOT simply call the DimArray method on every variable: `reduce_axis` re-implements the
along-axis machinery on the raw values (np.take / the interpolation kernel with `axis=pos`), rebuilds every
variable from a freshly built list of axes, `take` resolves the labels once on the Dataset's axes and hands
positions to the variables, `reindex_axis` takes clipped positions and then patches labels and fills per
variable, `_apply_dimarray_axis` / `_binary_op` call the DimArray methods and re-assemble a Dataset through
`__setitem__` (which checks every axis against the Dataset's).  This file mirrors those code paths so that
"Dataset operation = the DimArray operation on every variable that has the dimension" is a theorem about
two different definitions rather than a restatement.
-/
import DimModel.Lib.Align
import DimModel.Lib.Axes
import DimModel.Lib.Transform
import DimModel.Lib.Missing
import DimModel.Lib.Operation
import DimModel.Lib.Join
namespace DimModel
namespace DSV
open Lib

/-- a Dataset by value: its axes, its variables in insertion order, its metadata -/
structure Ds (α : Type) where
  axes : List Axis := []
  vars : List (String × DimArray α) := []
  attrs : Attrs := []

def Ds.dims {α} (ds : Ds α) : List String := ds.axes.map (·.name)
def Ds.keys {α} (ds : Ds α) : List String := ds.vars.map (·.1)
def Ds.get? {α} (ds : Ds α) (k : String) : Option (DimArray α) := (ds.vars.find? (·.1 == k)).map (·.2)

/-- `Dataset.__setitem__` on a dataset under construction (new key): every axis of the value whose name the
dataset knows must carry the dataset's labels (`Axis.__eq__`: labels and name), otherwise ValueError and nothing
changes; unknown axes are appended; the stored variable refers to the dataset's axes -/
def setItem {α} (ds : Ds α) (k : String) (v : DimArray α) : Except Err (Ds α) :=
  if v.axes.any (fun ax => match ds.axes.find? (·.name == ax.name) with
      | some e => !(axisEq ax e)
      | none => false) then .error .value
  else
    let newAxes := v.axes.filter fun ax => !(ds.dims.contains ax.name)
    let axes' := ds.axes ++ newAxes
    let v' : DimArray α := { v with axes := v.axes.map fun ax => (axes'.find? (·.name == ax.name)).getD ax }
    .ok { ds with axes := axes', vars := (ds.vars.filter (·.1 != k)) ++ [(k, v')] }

/-- `Dataset(dict)`: outer alignment of all values (`align_axes`), then one `__setitem__` per key -/
def fromVars {α} (nan : α) (vars : List (String × DimArray α)) : Except Err (Ds α) := do
  let al ← align nan (vars.map (·.2)) .outer none false false
  ((vars.map (·.1)).zip al).foldlM (fun ds kv => setItem ds kv.1 kv.2) {}

/-- `Dataset.reduce_axis(func, axis, keepdims=True, keepattrs=True, newaxis=...)` - the engine behind take_axis,
sort_axis, reindex_axis and interp_axis: a fresh list of axes in which the operated axis is replaced by `newAxis`,
every variable that has the dimension rebuilt from `f pos variable` (raw values) over the matching new axes, the
others stored as they are; variable and dataset metadata kept -/
def reduceAxisKeep {α} (ds : Ds α) (name : String) (newAxis : Axis) (f : Nat → DimArray α → NDArr α) :
    Except Err (Ds α) := do
  if !(ds.dims.contains name) then .error .value else
  let newaxes := ds.axes.map fun ax => if ax.name == name then newAxis else ax
  let start : Ds α := { axes := newaxes, vars := [], attrs := [] }
  let out ← ds.vars.foldlM (fun acc kv =>
      let item := kv.2
      let pos := item.dims.idxOf name
      if pos < item.dims.length then
        let dima : DimArray α :=
          { axes := item.axes.map fun ax => (newaxes.find? (·.name == ax.name)).getD ax
            vals := f pos item, vkind := item.vkind, attrs := item.attrs }
        setItem acc kv.1 dima
      else setItem acc kv.1 item) start
  pure { out with attrs := ds.attrs }

/-- `np.take(values, positions, axis=pos)` -/
def takeVals {α} (ps : List Nat) (pos : Nat) (item : DimArray α) : NDArr α := (takeAxisPos item pos ps).vals

/-- `Dataset.take_axis(indices, axis, indexing='position')` with in-range positions: the new axis is
`self.axes[axis].take(indices)` (`Axis.take`: the labels at the positions, the metadata of the axis kept - as in
`DimArray.take_axis`) -/
def takeAxisPosDs {α} (ds : Ds α) (name : String) (ps : List Nat) : Except Err (Ds α) :=
  match ds.axes.find? (·.name == name) with
  | none => .error .value
  | some ax =>
    if ax.size == 0 && !ps.isEmpty then .error .index else
    let newAxis : Axis :=
      { name := name, labels := ps.map fun p => ax.labels.getD p Label.none, kind := ax.kind, attrs := ax.attrs }
    reduceAxisKeep ds name newAxis (takeVals ps)

/-- `Dataset.take_axis(labels, axis, indexing='label')` -/
def takeAxisLabel {α} (ds : Ds α) (name : String) (labels : List Label) (clip : Bool) : Except Err (Ds α) :=
  match ds.axes.find? (·.name == name) with
  | none => .error .value
  | some ax => do
    let r ← loc ax.labels ax.kind (.list labels) none clip
    match r with
    | .ints l => takeAxisPosDs ds name (l.map Int.toNat)
    | _ => .error .other

/-- `Dataset.sort_axis(axis)`: `argsort` of the Dataset's labels, then a positional take -/
def sortAxisDs {α} (ds : Ds α) (name : String) : Except Err (Ds α) :=
  match ds.axes.find? (·.name == name) with
  | none => .error .value
  | some ax => takeAxisPosDs ds name (argsortBy Label.le ax.labels)

/-- `Dataset.reindex_axis(values, axis, fill_value, raise_error=False, method=None)`: clipped label take, then the
labels that did not match are written into the new axis and the corresponding slices of every variable that has
the dimension are filled (with widening of the variable's kind) -/
def reindexAxisDs {α} (ds : Ds α) (name : String) (newL : List Label) (newKind : Kind) (fill : α) (fillKind : Kind) :
    Except Err (Ds α) :=
  match ds.axes.find? (·.name == name) with
  | none => .error .value
  | some ax => do
    let L := ax.labels
    if L.isEmpty && !newL.isEmpty then .error .index else
    let indices := locateMany L newL .left
    let taken ← takeAxisPosDs ds name indices
    let mask := mismatchMask L indices newL
    if !(mask.any id) then pure taken else
    let newax : Axis :=
      { name := name
        labels := newL.zipIdx.map (fun (v, k) => if mask.getD k false then v else L.getD (indices.getD k 0) Label.none)
        kind := maybeCastKind ax.kind newKind
        attrs := ax.attrs }         -- `dataset.axes[axis][mask] = values[mask]` writes into the taken axis
    pure { taken with
      axes := taken.axes.map fun a => if a.name == name then newax else a
      vars := taken.vars.map fun kv =>
        let item := kv.2
        let pos := item.dims.idxOf name
        if pos < item.dims.length then
          (kv.1, { item with
            axes := item.axes.map fun a => if a.name == name then newax else a
            vals := item.vals.putWhere (fun j => mask.getD (j.getD pos 0) false) (fun _ => fill)
            vkind := maybeCastKind item.vkind fillKind })
        else kv }

/-- `Dataset._apply_dimarray_axis(funcname, axis=name)`: the DimArray method on every variable that has the
dimension, then `Dataset(dict)` -/
def applyAxis {α} (nan : α) (ds : Ds α) (name : String) (f : DimArray α → Except Err (DimArray α)) : Except Err (Ds α) := do
  if !(ds.dims.contains name) then .error .value else
  let vars ← ds.vars.mapM fun kv =>
    if kv.2.dims.contains name then do let r ← f kv.2; pure (kv.1, r) else pure kv
  fromVars nan vars

/-- `Dataset.take(indices={name: ix}, indexing=...)`: the index is resolved ONCE, on the Dataset's axis; every
variable that has the dimension is then indexed by position -/
def takeDs {α} (ds : Ds α) (name : String) (ix : Ix) (cfg : IndexCfg) : Except Err (Ds α) :=
  match ds.axes.find? (·.name == name) with
  | none => .error .value
  | some ax => do
    let raw ← if cfg.mode != .position && !ix.isFull then loc ax.labels ax.kind ix cfg.tol else ixToRaw ix
    let raw := match raw with | .int i => if cfg.keepdims then RawIx.ints [i] else raw | r => r
    let p ← resolveRaw raw ax.size
    -- data.axes = self._getaxes_ortho(tuple_indices)
    let newaxes := ds.axes.filterMap fun a =>
      if a.name == name then (match p with | .scalar _ => none | .list ps => some (axisSelect a ps)) else some a
    let start : Ds α := { axes := newaxes, vars := [], attrs := [] }
    let out ← ds.vars.foldlM (fun acc kv =>
        let item := kv.2
        let pos := item.dims.idxOf name
        if pos < item.dims.length then
          let pix := (List.range item.axes.length).map fun k =>
            if k == pos then p else PosIx.list (List.range (item.axes.getD k default).size)
          let r : DimArray α :=
            { axes := (item.axes.zip pix).filterMap fun (a, q) => match q with
                | .scalar _ => none
                | .list ps => if a.name == name then some (axisSelect a ps) else some a
              vals := item.vals.outer pix, vkind := item.vkind, attrs := item.attrs }
          setItem acc kv.1 r
        else setItem acc kv.1 item) start
    pure { out with attrs := ds.attrs }

/-! ### round 5: reductions, arithmetic, stack_ds / concatenate_ds, copy (new mirrors) -/

/-- `DimArray(scalar)`: how `Dataset.__init__` wraps a value that is not a DimArray (a 1-D variable reduced along
its only dimension is a NumPy scalar): no axes, no metadata -/
def scalarVar {α} (c : α) (vk : Kind) : DimArray α :=
  { axes := [], vals := { shape := [], get := fun _ => c }, vkind := vk, attrs := [] }

/-- what `getattr(self[k], funcname)(axis=name)` returns for a reduction (`mean`, `sum`, ...), as `Dataset(dict)`
sees it: `DimArray.<reduction>(axis=name)` (`Lib.reduceAxis`), a scalar result being wrapped by `DimArray(scalar)` -/
def reduceVarDs {α} (red : List α → α) (name : String) (v : DimArray α) : Except Err (DimArray α) := do
  let r ← reduceAxis red v (.one (.name name))
  match r with
  | .inl c => pure (scalarVar c v.vkind)
  | .inr a => pure a

/-- `Dataset.mean / std / var / median / sum (axis=name)` = `_apply_dimarray_axis(funcname, axis=name)` -/
def reduceDs {α} (nan : α) (red : List α → α) (ds : Ds α) (name : String) : Except Err (Ds α) :=
  applyAxis nan ds name (reduceVarDs red name)

/-- the right operand of a Dataset operator, as `Dataset._binary_op` classifies it -/
inductive Operand (α : Type) where
  | ds (o : Ds α)       -- `isinstance(other, Dataset)`
  | scalar (c : α)      -- `isscalar(other)` (np.isscalar)
  | other               -- anything else (a DimArray, an ndarray, a list): the assertion fails

/-- `other.axes != self.axes`: `Axes` is a list, compared element by element with `Axis.__eq__` -/
def axesNe (a b : List Axis) : Bool :=
  a.length != b.length || (a.zip b).any fun p => !(axisEq p.1 p.2)

/-- `Dataset.reindex_like(other)` = `reindex_like(self, other)` of core/align.py: `Dataset.reindex_axis` (defaults:
fill_value=nan, raise_error=False, method=None) along every axis of `self` whose name the template has -/
def reindexLikeDs {α} (nan : α) (ds : Ds α) (tmpl : List Axis) : Except Err (Ds α) :=
  ds.axes.foldlM (fun obj ax =>
    match tmpl.find? (·.name == ax.name) with
    | some t => reindexAxisDs obj ax.name t.labels t.kind nan .f
    | none => pure obj) ds

/-- `Dataset._binary_op(func, other)`: the per-variable `DimArray._binary_op` aligns the operands' axes (the
Dataset code no longer evaluates a discarded `other.reindex_like(self)`).  For two Datasets the result holds the keys
of `self` that `other` has as well (double loop over the keys); every result is stored through `__setitem__`. -/
def binaryOpDs {α} (nan : α) (f : α → α → α) (self : Ds α) (rhs : Operand α) : Except Err (Ds α) :=
  match rhs with
  | .other => .error .assertion
  | .scalar c =>
    self.vars.foldlM (fun (res : Ds α) kv1 => do
      let r ← operationNd f kv1.2 { shape := [], get := fun _ => c } false
      setItem res kv1.1 r) {}
  | .ds o => do
    -- proceed to operation (each variable's operation aligns its operands' axes)
    self.vars.foldlM (fun (res : Ds α) kv1 =>
      o.vars.foldlM (fun (res : Ds α) kv2 =>
        if kv1.1 == kv2.1 then do
          let r ← operation nan f kv1.2 kv2.2
          setItem res kv1.1 r.1
        else pure res) res) {}

/-- `sorted(ds.keys()) == sorted(variables)` (keys of a dict: the sorted lists agree iff one is a rearrangement of
the other) -/
def sameKeys (a b : List String) : Bool := a.isPerm b

/-- `[ds[v] for ds in datasets]` (KeyError for a missing variable) -/
def gather {α} (datasets : List (Ds α)) (v : String) : Except Err (List (DimArray α)) :=
  datasets.mapM fun ds => match ds.get? v with
    | some a => pure a
    | none => .error .key

/-- `stack_ds(datasets, axis, keys, align=False)`: the new dimension is checked against the dimensions of all
Datasets, the Datasets must hold the same variables, every variable is `stack`ed (align=False) with the same keys
and stored through `__setitem__` -/
def stackDs {α} [Inhabited α] (nan : α) (datasets : List (Ds α)) (axis : Option String) (keys : List Label)
    (keyKind : Kind) : Except Err (Ds α) := do
  -- make sure the stacking dimension is ok
  let dims := getDims (datasets.map (·.axes))
  let name ← checkStackAxis axis dims
  -- find the list of variables common to all datasets
  let variables ← datasets.foldlM (fun (vs : Option (List String)) (ds : Ds α) =>
      if ds.dims.contains name then (.error .assertion : Except Err (Option (List String))) else
      match vs with
      | none => pure (some ds.keys)
      | some v => if sameKeys ds.keys v then pure (some v) else .error .assertion) none
  match variables with
  | none => .error .type          -- `for v in None`
  | some vars =>
    -- Compute stacked dataset
    vars.foldlM (fun (res : Ds α) v => do
      let arrays ← gather datasets v
      let array ← stack nan arrays (some name) keys keyKind false false
      setItem res v array) {}

/-- `ds.axes[axis].name` (`Axes.__getitem__`): a name is looked up with `dims.index` (ValueError when the Dataset
has no such dimension), an integer is `list.__getitem__` (negative positions count from the end, IndexError out of
range) -/
def dsAxisName {α} (ds : Ds α) (axis : DimKey) : Except Err String := do
  let p ← axisPos ds.axes axis
  pure (ds.dims.getD p "")

/-- `datasets[0].axes[axis].name` (IndexError on an empty sequence) -/
def firstAxisName {α} (datasets : List (Ds α)) (axis : DimKey) : Except Err String :=
  match datasets with
  | d0 :: _ => dsAxisName d0 axis
  | [] => .error .index

/-- `concatenate_ds(datasets, axis, align=False)`: the Datasets must hold the same variables; `axis` - a name, or a
position *in the first Dataset's dimensions* (also the default 0) - is resolved to a dimension name
(`datasets[0].axes[axis].name`); every variable is `concatenate`d (align=False) along that NAME and stored through
`__setitem__`; a variable that lacks the dimension makes `concatenate` raise -/
def concatenateDs {α} (nan : α) (datasets : List (Ds α)) (axis : DimKey) : Except Err (Ds α) := do
  -- find the list of variables common to all datasets
  let variables ← datasets.foldlM (fun (vs : Option (List String)) (ds : Ds α) =>
      match vs with
      | none => (pure (some ds.keys) : Except Err (Option (List String)))
      | some v => if sameKeys ds.keys v then pure (some v) else .error .assertion) none
  -- axis name: a position refers to the dataset's dimensions, not to each variable's
  let name ← firstAxisName datasets axis
  match variables with
  | none => .error .type          -- `for v in None`
  | some vars =>
    -- Compute concatenated dataset
    vars.foldlM (fun (res : Ds α) v => do
      let arrays ← gather datasets v
      let array ← concatenate nan arrays (.name name) false false
      setItem res v array) {}

/-- `Dataset.copy()`: `Dataset({k: v})` of the variables, then the metadata -/
def copyDs {α} (nan : α) (ds : Ds α) : Except Err (Ds α) := do
  let ds2 ← fromVars nan ds.vars
  pure { ds2 with attrs := Attrs.update ds2.attrs ds.attrs }

/-- the shared-axes rule by value: every variable's axis for a dimension carries the Dataset's labels for it,
and the Dataset's dimensions are exactly those used -/
def SharedAxes {α} (ds : Ds α) : Prop :=
  (∀ kv ∈ ds.vars, ∀ ax ∈ kv.2.axes, ∃ e ∈ ds.axes, e.name = ax.name ∧ e.labels = ax.labels) ∧
  (∀ e ∈ ds.axes, ∃ kv ∈ ds.vars, e.name ∈ kv.2.dims) ∧ ds.dims.Nodup

end DSV
end DimModel

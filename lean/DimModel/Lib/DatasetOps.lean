/-
C14 - value-level mirror of the Dataset operations of dimarray/dataset.py.

dataset.py does NOT simply call the DimArray method on every variable: `reduce_axis` re-implements the
along-axis machinery on the raw values (np.take / the interpolation kernel with `axis=pos`), rebuilds every
variable from a freshly built list of axes, `take` resolves the labels once on the Dataset's axes and hands
positions to the variables, `reindex_axis` takes clipped positions and then patches labels and fills per
variable, `_apply_dimarray_axis` / `_binary_op` call the DimArray methods and re-assemble a Dataset through
`__setitem__` (which checks every axis against the Dataset's).  This file mirrors those code paths so that
"Dataset operation = the DimArray operation on every variable that has the dimension" is a theorem about
two different definitions rather than a restatement.
-/
import DimModel.Lib.Align
import DimModel.Lib.Axes
import DimModel.Lib.Transform
import DimModel.Lib.Missing
namespace DimModel
namespace DSV
open Lib

/-- a Dataset by value: its axes, its variables in insertion order, its metadata -/
structure Ds (α : Type) where
  axes : List Axis := []
  vars : List (String × DimArray α) := []
  attrs : Attrs := []

def Ds.dims {α} (ds : Ds α) : List String := ds.axes.map (·.name)
def Ds.keys {α} (ds : Ds α) : List String := ds.vars.map (·.1)
def Ds.get? {α} (ds : Ds α) (k : String) : Option (DimArray α) := (ds.vars.find? (·.1 == k)).map (·.2)

/-- `Dataset.__setitem__` on a dataset under construction (new key): every axis of the value whose name the
dataset knows must carry the dataset's labels (`Axis.__eq__`: labels and name), otherwise ValueError and nothing
changes; unknown axes are appended; the stored variable refers to the dataset's axes -/
def setItem {α} (ds : Ds α) (k : String) (v : DimArray α) : Except Err (Ds α) :=
  if v.axes.any (fun ax => match ds.axes.find? (·.name == ax.name) with
      | some e => !(axisEq ax e)
      | none => false) then .error .value
  else
    let newAxes := v.axes.filter fun ax => !(ds.dims.contains ax.name)
    let axes' := ds.axes ++ newAxes
    let v' : DimArray α := { v with axes := v.axes.map fun ax => (axes'.find? (·.name == ax.name)).getD ax }
    .ok { ds with axes := axes', vars := (ds.vars.filter (·.1 != k)) ++ [(k, v')] }

/-- `Dataset(dict)`: outer alignment of all values (`align_axes`), then one `__setitem__` per key -/
def fromVars {α} (nan : α) (vars : List (String × DimArray α)) : Except Err (Ds α) := do
  let al ← align nan (vars.map (·.2)) .outer none false false
  ((vars.map (·.1)).zip al).foldlM (fun ds kv => setItem ds kv.1 kv.2) {}

/-- `Dataset.reduce_axis(func, axis, keepdims=True, keepattrs=True, newaxis=...)` - the engine behind take_axis,
sort_axis, reindex_axis and interp_axis: a fresh list of axes in which the operated axis is replaced by `newAxis`,
every variable that has the dimension rebuilt from `f pos variable` (raw values) over the matching new axes, the
others stored as they are; variable and dataset metadata kept -/
def reduceAxisKeep {α} (ds : Ds α) (name : String) (newAxis : Axis) (f : Nat → DimArray α → NDArr α) :
    Except Err (Ds α) := do
  if !(ds.dims.contains name) then .error .value else
  let newaxes := ds.axes.map fun ax => if ax.name == name then newAxis else ax
  let start : Ds α := { axes := newaxes, vars := [], attrs := [] }
  let out ← ds.vars.foldlM (fun acc kv =>
      let item := kv.2
      let pos := item.dims.idxOf name
      if pos < item.dims.length then
        let dima : DimArray α :=
          { axes := item.axes.map fun ax => (newaxes.find? (·.name == ax.name)).getD ax
            vals := f pos item, vkind := item.vkind, attrs := item.attrs }
        setItem acc kv.1 dima
      else setItem acc kv.1 item) start
  pure { out with attrs := ds.attrs }

/-- `np.take(values, positions, axis=pos)` -/
def takeVals {α} (ps : List Nat) (pos : Nat) (item : DimArray α) : NDArr α := (takeAxisPos item pos ps).vals

/-- `Dataset.take_axis(indices, axis, indexing='position')` with in-range positions: the new axis is
`Axis(np.take(labels, positions), name)` (a bare axis: the Dataset variant does not carry the axis metadata) -/
def takeAxisPosDs {α} (ds : Ds α) (name : String) (ps : List Nat) : Except Err (Ds α) :=
  match ds.axes.find? (·.name == name) with
  | none => .error .value
  | some ax =>
    if ax.size == 0 && !ps.isEmpty then .error .index else
    let newAxis : Axis := { name := name, labels := ps.map fun p => ax.labels.getD p Label.none, kind := ax.kind }
    reduceAxisKeep ds name newAxis (takeVals ps)

/-- `Dataset.take_axis(labels, axis, indexing='label')` -/
def takeAxisLabel {α} (ds : Ds α) (name : String) (labels : List Label) (clip : Bool) : Except Err (Ds α) :=
  match ds.axes.find? (·.name == name) with
  | none => .error .value
  | some ax => do
    let r ← loc ax.labels ax.kind (.list labels) none clip
    match r with
    | .ints l => takeAxisPosDs ds name (l.map Int.toNat)
    | _ => .error .other

/-- `Dataset.sort_axis(axis)`: `argsort` of the Dataset's labels, then a positional take -/
def sortAxisDs {α} (ds : Ds α) (name : String) : Except Err (Ds α) :=
  match ds.axes.find? (·.name == name) with
  | none => .error .value
  | some ax => takeAxisPosDs ds name (argsortBy Label.le ax.labels)

/-- `Dataset.reindex_axis(values, axis, fill_value, raise_error=False, method=None)`: clipped label take, then the
labels that did not match are written into the new axis and the corresponding slices of every variable that has
the dimension are filled (with widening of the variable's kind) -/
def reindexAxisDs {α} (ds : Ds α) (name : String) (newL : List Label) (newKind : Kind) (fill : α) (fillKind : Kind) :
    Except Err (Ds α) :=
  match ds.axes.find? (·.name == name) with
  | none => .error .value
  | some ax => do
    let L := ax.labels
    if L.isEmpty && !newL.isEmpty then .error .index else
    let indices := locateMany L newL .left
    let taken ← takeAxisPosDs ds name indices
    let mask := mismatchMask L indices newL
    if !(mask.any id) then pure taken else
    let newax : Axis :=
      { name := name
        labels := newL.zipIdx.map (fun (v, k) => if mask.getD k false then v else L.getD (indices.getD k 0) Label.none)
        kind := maybeCastKind ax.kind newKind }
    pure { taken with
      axes := taken.axes.map fun a => if a.name == name then newax else a
      vars := taken.vars.map fun kv =>
        let item := kv.2
        let pos := item.dims.idxOf name
        if pos < item.dims.length then
          (kv.1, { item with
            axes := item.axes.map fun a => if a.name == name then newax else a
            vals := item.vals.putWhere (fun j => mask.getD (j.getD pos 0) false) (fun _ => fill)
            vkind := maybeCastKind item.vkind fillKind })
        else kv }

/-- `Dataset._apply_dimarray_axis(funcname, axis=name)`: the DimArray method on every variable that has the
dimension, then `Dataset(dict)` -/
def applyAxis {α} (nan : α) (ds : Ds α) (name : String) (f : DimArray α → Except Err (DimArray α)) : Except Err (Ds α) := do
  if !(ds.dims.contains name) then .error .value else
  let vars ← ds.vars.mapM fun kv =>
    if kv.2.dims.contains name then do let r ← f kv.2; pure (kv.1, r) else pure kv
  fromVars nan vars

/-- `Dataset.take(indices={name: ix}, indexing=...)`: the index is resolved ONCE, on the Dataset's axis; every
variable that has the dimension is then indexed by position -/
def takeDs {α} (ds : Ds α) (name : String) (ix : Ix) (cfg : IndexCfg) : Except Err (Ds α) :=
  match ds.axes.find? (·.name == name) with
  | none => .error .value
  | some ax => do
    let raw ← if cfg.mode != .position && !ix.isFull then loc ax.labels ax.kind ix cfg.tol else ixToRaw ix
    let raw := match raw with | .int i => if cfg.keepdims then RawIx.ints [i] else raw | r => r
    let p ← resolveRaw raw ax.size
    -- data.axes = self._getaxes_ortho(tuple_indices)
    let newaxes := ds.axes.filterMap fun a =>
      if a.name == name then (match p with | .scalar _ => none | .list ps => some (axisSelect a ps)) else some a
    let start : Ds α := { axes := newaxes, vars := [], attrs := [] }
    let out ← ds.vars.foldlM (fun acc kv =>
        let item := kv.2
        let pos := item.dims.idxOf name
        if pos < item.dims.length then
          let pix := (List.range item.axes.length).map fun k =>
            if k == pos then p else PosIx.list (List.range (item.axes.getD k default).size)
          let r : DimArray α :=
            { axes := (item.axes.zip pix).filterMap fun (a, q) => match q with
                | .scalar _ => none
                | .list ps => if a.name == name then some (axisSelect a ps) else some a
              vals := item.vals.outer pix, vkind := item.vkind, attrs := item.attrs }
          setItem acc kv.1 r
        else setItem acc kv.1 item) start
    pure { out with attrs := ds.attrs }

/-- the shared-axes rule by value: every variable's axis for a dimension carries the Dataset's labels for it,
and the Dataset's dimensions are exactly those used -/
def SharedAxes {α} (ds : Ds α) : Prop :=
  (∀ kv ∈ ds.vars, ∀ ax ∈ kv.2.axes, ∃ e ∈ ds.axes, e.name = ax.name ∧ e.labels = ax.labels) ∧
  (∀ e ∈ ds.axes, ∃ kv ∈ ds.vars, e.name ∈ kv.2.dims) ∧ ds.dims.Nodup

end DSV
end DimModel

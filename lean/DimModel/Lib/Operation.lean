/-
Mirror of dimarray/core/operation.py `operation` (binary operations with alignment by dimension
name and by label), and of the OpMixin operator table (core/bases.py).
-/
import DimModel.Lib.Reshape
namespace DimModel
namespace Lib

/-- NumPy broadcasting of two shapes of equal rank -/
def bcastShape : List Nat → List Nat → Option (List Nat)
  | [], [] => some []
  | x :: xs, y :: ys =>
    match bcastShape xs ys with
    | none => none
    | some r => if x == y then some (x :: r) else if x == 1 then some (y :: r) else if y == 1 then some (x :: r) else none
  | _, _ => none

/-- index into an operand of shape `s` for result index `j` (singleton dimensions are read at 0) -/
def bcastIdx (s j : List Nat) : List Nat := (s.zip j).map (fun (n, k) => if n == 1 then 0 else k)

/-- `func(o1.values, o2.values)` for two arrays of equal rank -/
def zipBroadcast {α} (f : α → α → α) (x y : NDArr α) : Except Err (NDArr α) :=
  match bcastShape x.shape y.shape with
  | none => .error .value
  | some s => .ok { shape := s, get := fun j => f (x.get (bcastIdx x.shape j)) (y.get (bcastIdx y.shape j)) }

/-- is this the None-labelled singleton axis that `newaxis` inserts? (after fix F10 an empty axis is not read) -/
def isNoneAxis (ax : Axis) : Bool := ax.labels.head? == some Label.none

/-- `operation(func, o1, o2)` for two DimArrays (op.reindex = op.broadcast = True).
Returns the result and the value kinds of the two aligned operands (the harness needs them to
evaluate the symbolic cells with NumPy's own casting). -/
def operation {α} (nan : α) (f : α → α → α) (a b : DimArray α) : Except Err (DimArray α × Kind × Kind) := do
  -- Align axes by re-indexing
  let al ← align nan [a, b] .outer none false false
  -- Align dimensions by adding new axes and transposing if necessary
  let ad ← alignDims al
  let o1 := ad.getD 0 a
  let o2 := ad.getD 1 b
  -- make the new axes: no None singleton is included
  let newaxes ← o1.axes.mapM fun ax =>
    if isNoneAxis ax then
      match o2.axes.find? (·.name == ax.name) with
      | some x => pure x
      | none => .error .value
    else pure ax
  let res ← zipBroadcast f o1.vals o2.vals
  if newaxes.map (·.size) != res.shape then .error .other
  else pure ({ axes := newaxes.map (fun ax => { ax with }), vals := res, vkind := a.vkind, attrs := [] }, o1.vkind, o2.vkind)

/-- `operation(func, o1, scalar_or_ndarray)` : NumPy's job on `.values`, axes of the DimArray unchanged.
`nd` is the other operand already converted by `np.array`; `flip` = the DimArray is the right operand. -/
def operationNd {α} (f : α → α → α) (a : DimArray α) (nd : NDArr α) (flip : Bool) : Except Err (DimArray α) := do
  if nd.shape.length > a.vals.shape.length then .error .value else
  let pad := List.replicate (a.vals.shape.length - nd.shape.length) 1
  let nd' : NDArr α := { shape := pad ++ nd.shape, get := fun j => nd.get (j.drop pad.length) }
  let res ← if flip then zipBroadcast f nd' a.vals else zipBroadcast f a.vals nd'
  if a.axes.map (·.size) != res.shape then .error .other
  else pure { axes := a.axes, vals := res, vkind := a.vkind, attrs := [] }

/-- the six arithmetic operators -/
inductive Op | add | sub | mul | truediv | floordiv | pow
  deriving DecidableEq, Repr, Inhabited

/-- exact semantics of the operators on the probe operands of the operator table -/
def opSem (o : Op) (x y : Rat) : Rat :=
  match o with
  | .add => x + y
  | .sub => x - y
  | .mul => x * y
  | .truediv => x / y
  | .floordiv => ((x / y).floor : Int)
  | .pow => if y.den == 1 && y.num ≥ 0 then x ^ y.num.toNat else 0

end Lib
end DimModel

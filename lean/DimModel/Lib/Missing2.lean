/-
Mirrors of the two forms of C17 that `Lib/Missing.lean` / `Lib/Align.lean` leave out:

* `sort_axis(axis, key=...)` (dimarray/core/align.py `sort_axis` + `argsort`): the key is a FUNCTION on labels (a callable,
  or any object with `__getitem__` such as a dict, turned into `key.__getitem__`).
  ```
  index = a.axes[axis].values
  ...
  ii = argsort(index, key)              # sorted(range(len(seq)), key=lambda x: key(seq.__getitem__(x)))
  return a.take_axis(ii, axis=axis, indexing='position')
  ```
  `sorted` evaluates the key once per element, front to back (the first exception propagates), then sorts the positions
  stably by `<` of the key values (Python 3: `<` between a number and a string, or between two `None`, is a TypeError).
  There is no `reverse=` parameter in the library.

* `compress(boolarray)` / `a[mask]` with a mask of the full shape (dimarray/core/dimarraycls.py `compress`,
  core/bases.py `_getitem` -> `_is_boolean_index_nd`, core/indexing.py `getaxes_broadcast`).
-/
import DimModel.Lib.Missing
namespace DimModel
namespace Lib

/-! ### `sort_axis(key=...)` -/

/-- `[key(x) for x in index]`, front to back; the first exception propagates -/
def evalKeys (key : Label → Except Err Label) : List Label → Except Err (List Label)
  | [] => .ok []
  | l :: ls =>
    match key l with
    | .error e => .error e
    | .ok v =>
      match evalKeys key ls with
      | .error e => .error e
      | .ok vs => .ok (v :: vs)

def labelIsStr : Label → Bool
  | .str _ => true
  | _ => false

/-- can Python's `<` compare every pair of these key values: all numbers or all strings (fewer than two values are never
compared) -/
def keysComparable (ks : List Label) : Bool :=
  decide (ks.length ≤ 1) || ks.all Label.isNum || ks.all labelIsStr

/-- `sort_axis(axis, key=key)`: stable argsort of the KEY VALUES of the labels, then positional take -/
def sortAxisKey {α} (a : DimArray α) (axis : DimKey) (key : Label → Except Err Label) : Except Err (DimArray α) := do
  let pos ← axisPos a.axes axis
  let ax := a.axes.getD pos default
  let ks ← evalKeys key ax.labels
  if !keysComparable ks then .error .type else
  pure (takeAxisPos a pos (argsortBy Label.le ks))

/-- A closed family of key functions that both sides can evaluate (the harness passes the very same function / dict to
`sort_axis`):
`ident` = `lambda x: x`, `neg` = `lambda x: -x`, `abs` = `abs`, `len` = `len`, `rev` = `lambda s: s[::-1]`,
`modn m` = `lambda x: x % m` (m > 0), `const` = `lambda x: 0`, `table t` = a dict (`key.__getitem__`, KeyError when absent). -/
inductive KeyFn
  | ident | neg | abs | len | rev | modn (m : Nat) | const | table (t : List (Label × Label))

/-- Python's `x % m` for a positive integer `m` on exact numbers: `x - m * floor(x / m)` -/
def ratMod (q : Rat) (m : Nat) : Rat := q - (m : Rat) * ((q / (m : Rat)).floor : Rat)

/-- the key applied to one label, with the exception class Python raises for a label of the wrong type -/
def KeyFn.eval : KeyFn → Label → Except Err Label
  | .ident, l => .ok l
  | .neg, .num q => .ok (.num (-q))
  | .neg, _ => .error .type                      -- bad operand type for unary -
  | .abs, .num q => .ok (.num (if q < 0 then -q else q))
  | .abs, _ => .error .type
  | .len, .str s => .ok (.num (s.length : Nat))
  | .len, _ => .error .type                      -- object of type 'numpy.int64' has no len()
  | .rev, .str s => .ok (.str (String.ofList s.toList.reverse))
  | .rev, .num _ => .error .index                -- numpy scalar: "invalid index to scalar variable"
  | .rev, .none => .error .type
  | .modn m, .num q => if m == 0 then .error .other else .ok (.num (ratMod q m))
  | .modn _, _ => .error .type                   -- str % int: not all arguments converted
  | .const, _ => .ok (.num 0)
  | .table t, l =>
    match t.find? (fun kv => kv.1 == l) with
    | some kv => .ok kv.2
    | none => .error .key

/-! ### `compress(mask)` / `a[mask]` with a mask of the full shape -/

/-- The 1-D result of a full-shape boolean selection on an array of rank ≠ 1: `Axis(values, name)` where `values` is an object
array of TUPLES of labels (one component per dimension of the input, each keeping its own type) and `name` the dimension
names joined by commas - a plain `Axis`, not a grouped one (its labels are not a cartesian product). -/
structure TupleArr (α : Type) where
  name : String
  coords : List (List Label)
  cells : List α
  vkind : Kind
  attrs : Attrs

/-- the tuple of labels of the cell at index `j` -/
def coordLabels (axes : List Axis) (j : List Nat) : List Label :=
  (axes.zip j).map fun (ax, i) => ax.labels.getD i Label.none

/-- `compress(boolarray)`:
```
boolarray = np.asarray(boolarray)                         # a DimArray mask: its values, labels ignored
if boolarray.ndim != self.ndim: raise ValueError
values = self.values[boolarray]                           # IndexError when the shapes differ; selected cells in C order
idx = np.where(boolarray)                                 # one position array per dimension, C order
axes = self._getaxes_broadcast(idx)
dima = self._constructor(values, axes); dima.attrs.update(self.attrs)
```
`getaxes_broadcast` with ONE index array (rank 1) is `[obj.axes[0][idx[0]]]`, i.e. the result of `compress_axis`; with
several it builds the axis of tuples named `",".join(dims)`. -/
def compressNd {α} (a : DimArray α) (mask : NDArr Bool) : Except Err (Sum (DimArray α) (TupleArr α)) :=
  if mask.shape.length != a.ndim then .error .value else
  if mask.shape != a.vals.shape then .error .index else
  if a.ndim == 1 then
    (compressAxis a ((List.range (mask.shape.getD 0 0)).map fun i => mask.get [i]) (.pos 0)).map .inl
  else
    let sel := (allIdx a.vals.shape).filter mask.get
    .ok (.inr { name := ",".intercalate a.dims, coords := sel.map (coordLabels a.axes), cells := sel.map a.vals.get,
                vkind := a.vkind, attrs := a.attrs })

end Lib
end DimModel

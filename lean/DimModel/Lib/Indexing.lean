/-
Mirror of dimarray/core/indexing.py (locate_one, locate_many, locate_slice, _locate_slice_strict,
is_monotonic*) and of AbstractAxis.loc (core/bases.py).
-/
import DimModel.Prim.Order
import DimModel.Prim.Slice
import DimModel.Prim.NDArr
namespace DimModel

/-- tolerance argument: a finite number or `np.inf` (what `.nloc` passes) -/
inductive Tol | fin (t : Rat) | inf
  deriving DecidableEq, Repr, Inhabited

def Tol.ge (t : Tol) (d : Rat) : Bool :=
  match t with
  | .inf => true
  | .fin x => decide (d ≤ x)

def ratAbs (q : Rat) : Rat := if q < 0 then -q else q

/-- first index of a minimal element (`np.argmin`) -/
def argminRat : List Rat → Nat
  | [] => 0
  | x :: xs =>
    let rec go (best : Rat) (bi : Nat) (i : Nat) : List Rat → Nat
      | [] => bi
      | y :: ys => if y < best then go y i (i+1) ys else go best bi (i+1) ys
    go x 0 1 xs

namespace Lib

/-- `locate_one(values, val, tol=tol)` (issorted is never passed by the library) -/
def locateOne (L : List Label) (v : Label) (tol : Option Tol) : Except Err Nat :=
  match tol with
  | some t =>
    -- dist = np.abs(values - val) ; TypeError for non numeric operands
    match v.toRat?, L.mapM Label.toRat? with
    | some q, some qs =>
      if qs.isEmpty then .error .index   -- empty axis: no label within the tolerance (`match is None`)
      else
        let dist := qs.map (fun x => ratAbs (x - q))
        let m := argminRat dist
        if t.ge (dist.getD m 0) then .ok m else .error .index
    | _, _ => .error .type
  | none =>
    let p := firstIdx L v
    if p < L.length then .ok p else .error .index

/-- `locate_many(values, val, side=side)` (non-sorted branch: argsort + searchsorted(sorter) + clip) -/
def locateMany (L : List Label) (vs : List Label) (side : Side) : List Nat :=
  let isort := argsortBy Label.le L
  let sorted := sortBy Label.le L
  vs.map (fun v => takeClip isort (searchSide Label.lt side sorted v))

def isIncreasingEq (L : List Label) : Bool := chainB (fun a b => Label.le a b) L
def isDecreasingEq (L : List Label) : Bool := chainB (fun a b => Label.le b a) L
def isIncreasing (L : List Label) : Bool := chainB (fun a b => Label.lt a b) L
def isDecreasing (L : List Label) : Bool := chainB (fun a b => Label.lt b a) L
def isMonotonic (L : List Label) : Bool := isIncreasing L || isDecreasing L
def isMonotonicEq (L : List Label) : Bool := isIncreasingEq L || isDecreasingEq L

def stepPos (step : Option Int) : Bool := match step with | none => true | some s => s > 0

/-- `_locate_slice_strict` -/
def locateSliceStrict (L : List Label) (start stop : Option Label) (step : Option Int) :
    Except Err (Option Int × Option Int) := do
  let istart ← match start with
    | none => pure none
    | some v => do let p ← locateOne L v none; pure (some (p : Int))
  let istop ← match stop with
    | none => pure none
    | some v => do
      let p ← locateOne L v none
      let p : Int := p
      -- include last element
      if stepPos step then pure (some (p + 1))
      else if p == 0 then pure none           -- (after fix F18) stop is the first element: open end
      else pure (some (p - 1))
  pure (istart, istop)

/-- `values[-1] >= values[0]` (an empty axis counts as sorted, after fix F17) -/
def headLeLast (L : List Label) : Bool :=
  match L.head?, L.getLast? with
  | some a, some z => Label.le a z
  | _, _ => true

/-- `locate_slice(values, start, stop, step)`; `kind` is the axis dtype kind -/
def locateSlice (L : List Label) (kind : Kind) (start stop : Option Label) (step : Option Int) :
    Except Err (Option Int × Option Int) :=
  if !kind.isNumeric then locateSliceStrict L start stop step
  else
    let monotonic := isMonotonicEq L
    -- issorted = monotonic and values[-1] >= values[0]   (after fix F17: an empty axis is sorted)
    let issorted := monotonic && headLeLast L
    if !monotonic then locateSliceStrict L start stop step
    else if (start.map Label.isNum).getD true == false then .error .type
    else if (stop.map Label.isNum).getD true == false then .error .type
    else
      let inverted := !issorted
      let pos := stepPos step
      let (sideR, sideL) := if pos then (Side.right, Side.left) else (Side.left, Side.right)
      let n : Int := L.length
      let istart : Option Int := start.map fun v =>
        let p : Int := if inverted then n - (searchSide Label.lt sideR L.reverse v : Nat)
                       else (searchSide Label.lt sideL L v : Nat)
        if pos then p else p - 1
      let istop : Option Int := stop.bind fun v =>
          let p : Int := if inverted then n - (searchSide Label.lt sideL L.reverse v : Nat)
                         else (searchSide Label.lt sideR L v : Nat)
          if pos then some p else if p == 0 then none else some (p - 1)
      -- (after fix F4) negative step and `start` beyond the near end: nothing to select,
      -- instead of letting -1 wrap around to the last element
      if !pos && istart == some (-1) then .ok (some 0, some 0)
      else .ok (istart, istop)

end Lib

/-- what `loc` hands to NumPy / `Axis.__getitem__`: an int, a list of ints, a slice or a mask -/
inductive RawIx
  | int (i : Int)
  | ints (l : List Int)
  | slice (s e st : Option Int)
  | mask (m : List Bool)
  deriving DecidableEq, Repr, Inhabited

/-- a user index along one dimension (label mode: labels; position mode: integers as `num`) -/
inductive Ix
  | scalar (v : Label)
  | list (vs : List Label)
  | mask (m : List Bool)
  | slice (start stop : Option Label) (step : Option Int)
  | ellipsis
  deriving DecidableEq, Repr, Inhabited

def Ix.isFull : Ix → Bool
  | .slice none none none => true
  | _ => false

namespace Lib

/-- `AbstractAxis.loc(val, tol=tol, mode=mode)` in label mode. `clip = (mode == 'clip')` -/
def loc (L : List Label) (kind : Kind) (ix : Ix) (tol : Option Tol) (clip : Bool := false) :
    Except Err RawIx :=
  -- tol is ignored for non-numeric axes
  let tol := if kind.isNumeric then tol else none
  match ix with
  | .slice start stop step => do
      let (a, b) ← locateSlice L kind start stop step
      pure (.slice a b step)
  | .scalar .none =>
      -- values.tolist().index(None)
      let p := firstIdx L Label.none
      if p < L.length then .ok (.int p) else .error .value
  | .scalar v => do let p ← locateOne L v tol; pure (.int p)
  | .mask m => .ok (.mask m)
  | .list vs =>
    match tol with
    | some t => do
        let ps ← vs.mapM (fun v => locateOne L v (some t))
        pure (.ints (ps.map Int.ofNat))
    | none =>
        let ms := locateMany L vs .left
        if clip then .ok (.ints (ms.map Int.ofNat))
        else if L.isEmpty && !vs.isEmpty then .error .index  -- values[matches] on an empty axis
        else if (ms.zip vs).all (fun (p, v) => L.getD p Label.none == v) then
          .ok (.ints (ms.map Int.ofNat))
        else .error .index
  | .ellipsis => .error .other

/-- NumPy's resolution of one positional index against a dimension of length `n` -/
def resolveRaw (r : RawIx) (n : Nat) : Except Err PosIx :=
  let norm (i : Int) : Except Err Nat :=
    let j := if i < 0 then i + n else i
    if j < 0 || j ≥ (n : Int) then .error .index else .ok j.toNat
  match r with
  | .int i => do let p ← norm i; pure (.scalar p)
  | .ints l => do let ps ← l.mapM norm; pure (.list ps)
  | .slice s e st => do let ps ← slicePositions s e st n; pure (.list ps)
  | .mask m => if m.length == n then .ok (.list (nonzero m)) else .error .index

end Lib
end DimModel

/-
Mirror of `_init_axes`, `Axes.from_shape / from_arrays / from_dict / append`, and the shape check
of `DimArray.__init__` (core/axes.py, core/dimarraycls.py).
-/
import DimModel.Core.Basic
namespace DimModel
namespace Lib

/-- the documented ways of specifying axes -/
inductive AxesArg
  | none                                                -- axes not given
  | lists (ls : List (List Label × Kind))               -- list of label arrays (+ `dims=`)
  | pairs (ps : List (String × List Label × Kind))      -- list of (name, labels) tuples
  | objs (as : List Axis)                               -- list of Axis objects
  | dict (kv : List (String × List Label × Kind))       -- {name: labels} (+ `dims=` for the order)
  | names (ns : List String)                            -- list of dimension names only
  deriving Repr, Inhabited

def arangeLabels (n : Nat) : List Label := (List.range n).map (fun (i : Nat) => Label.num ((i : Int) : Rat))

/-- `Axes.append` for every element: duplicate names are rejected with ValueError, an empty name
with ValueError too (`Axis.name` setter) -/
def appendStep (acc : List Axis) (ax : Axis) : Except Err (List Axis) :=
  if ax.name == "" then .error .value
  else if acc.any (·.name == ax.name) then .error .value
  else .ok (acc ++ [ax])

def appendAll (axes : List Axis) : Except Err (List Axis) := axes.foldlM appendStep []

/-- `Axes.from_shape(shape, dims)` -/
def fromShape (shape : List Nat) (dims : Option (List String)) : Except Err (List Axis) :=
  match dims with
  | none => appendAll (shape.zipIdx.map fun (n, i) => { name := s!"x{i}", labels := arangeLabels n, kind := .i })
  | some ds =>
    if ds.length < shape.length then .error .index     -- dims[i]
    else appendAll ((shape.zip ds).map fun (n, d) => { name := d, labels := arangeLabels n, kind := .i })

def mkAxis (name : String) (lk : List Label × Kind) : Axis := { name := name, labels := lk.1, kind := lk.2 }

/-- `_init_axes(axes, dims, shape)` for values of known shape -/
def initAxes (arg : AxesArg) (dims : Option (List String)) (shape : List Nat) : Except Err (List Axis) :=
  match arg with
  | .none => fromShape shape dims
  | .names ns => if ns.isEmpty then pure [] else fromShape shape (some ns)
  | .lists ls =>
    if ls.isEmpty then pure [] else
    match dims with
    | none => appendAll (ls.zipIdx.map fun (l, i) => mkAxis s!"x{i}" l)
    | some ds =>
      if ds.length != ls.length then .error .assertion
      else appendAll ((ds.zip ls).map fun (d, l) => mkAxis d l)
  | .pairs ps => appendAll (ps.map fun (n, l) => mkAxis n l)
  | .objs as => appendAll as
  | .dict kv =>
    if kv.isEmpty then fromShape shape dims else do
    let axes ← appendAll (kv.map fun (n, l) => mkAxis n l)
    match dims with
    | some ds =>
      -- axes.sort(dims): stable sort by position of the name in dims (ValueError if absent)
      if axes.any (fun ax => !ds.contains ax.name) then .error .value
      else pure (ds.filterMap fun d => axes.find? (·.name == d))
    | none =>
      -- order inferred from the shape: needs pairwise different sizes
      let sizes := axes.map (·.labels.length)
      if shape.length != kv.length then .error .assertion
      else if !(shape.all sizes.contains && sizes.all shape.contains) then .error .assertion
      else if !(shape.eraseDups.length == shape.length) then .error .assertion
      else pure (shape.filterMap fun n => axes.find? (·.labels.length == n))

/-- `DimArray(values, axes=..., dims=...)` : axes + the consistency check between axes and values -/
def construct {α} (vals : NDArr α) (vkind : Kind) (arg : AxesArg) (dims : Option (List String)) :
    Except Err (DimArray α) := do
  let axes ← initAxes arg dims vals.shape
  if axes.map (·.size) != vals.shape then .error .other
  else pure { axes := axes, vals := vals, vkind := vkind }

end Lib
end DimModel

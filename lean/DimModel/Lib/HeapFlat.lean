/-
C15 - `a.flatten()` (all dimensions) inside the heap model: VIEW or COPY.

reshape.py `flatten`: `newvalues = self.values.reshape(newshape)` - NumPy returns a view over the same buffer when the
operand is C-contiguous and a copy otherwise (`a.T.flatten()`, `a.swapaxes(0, 1).flatten()` of a 2 x 3 array); the axes
are replaced by ONE new grouped axis (copies of the members), the metadata dict is new with the same value objects.
In the model a view carries its index map; it is contiguous iff the map is the identity row-major enumeration of a
block of the buffer.  Rank 0 is refused (`dims[0]` of an empty tuple: IndexError).
The grouped axis (tuple labels) is outside the label type of the model: it is represented by a new Axis object whose
name is the joined names and whose labels are the ordinals; only its identity (a NEW object) is claimed.
-/
import DimModel.Lib.HeapX
namespace DimModel
namespace Heap

/-- C-contiguity of a view: the index map is the identity enumeration of a block of the buffer -/
def contiguous (view : List Nat) : Bool := view == (List.range view.length).map (· + view.headD 0)

/-- `a.flatten()` -/
def flattenAll (h : H) (r : Ref) : Option (H × Ref) :=
  match h[r]? with
  | some (.arr vals view shape axes attrs) =>
    if shape.length == 0 then none else
    let (h1, nv, nvw) := if contiguous view then (h, vals, view) else freshBuf h vals view
    let (h2, nl) := alloc h1 (.buf ((List.range view.length).map Int.ofNat))
    let (h3, nd) := alloc h2 (.dict [])
    let (h4, nax) := alloc h3 (.axis (",".intercalate (axes.map fun a => (obsAxis h a).name)) nl (List.range view.length) nd)
    let (h5, na) := shallowDict h4 attrs
    some (alloc h5 (.arr nv nvw [view.length] [nax] na))
  | _ => none

/-- what the harness observes of `b = env[k].flatten()` after a history: (np.shares_memory(b.values, a.values), shape, values,
name of the grouped axis) -/
def flattenObs (s : St) (k : Nat) : Option (Bool × List Nat × List Int × String) :=
  match s.env[k]? with
  | none => none
  | some r =>
    match flattenAll s.h r with
    | none => none
    | some (h', r') =>
      match s.h[r]?, h'[r']? with
      | some (.arr v w _ _ _), some (.arr v' w' sh' ax' _) =>
        some (v == v' && overlap w w', sh', readBuf h' v' w', (obsAxis h' (ax'.getD 0 0)).name)
      | _, _ => none

end Heap
end DimModel

/-
Mirror of dimarray/core/transform.py: apply_along_axis, _deal_with_axis, cumsum/cumprod, diff,
argmin/argmax; lib/stats.py percentile (axes bookkeeping only: what NumPy computes inside a fibre is
delegated to NumPy through symbolic cells).
-/
import DimModel.Lib.Reshape
import DimModel.Lib.Join
namespace DimModel
namespace Lib

/-- the `axis=` argument of the along-axis transforms -/
inductive AxisArg
  | none                       -- axis=None
  | one (k : DimKey)           -- a name or a position
  | many (ks : List DimKey)    -- tuple / list of names or positions: collapsed into one axis first
  deriving Repr, Inhabited

/-- name of the dimension designated by a name or a position (`_get_axes_info`) -/
def keyName {α} (a : DimArray α) (k : DimKey) : Except Err String :=
  match k with
  | .name s => if a.dims.contains s then .ok s else .error .value
  | .pos i =>
    let n : Int := a.ndim
    let j := if i < 0 then i + n else i
    if j < 0 || j ≥ n then .error .index else .ok (a.dims.getD j.toNat "")

/-- `_deal_with_axis(obj, axis)` : (possibly flattened object, axis position) -/
def dealWithAxis {α} (a : DimArray α) (ax : AxisArg) : Except Err (DimArray α × Option Nat) :=
  match ax with
  | .none => .ok (a, none)
  | .one k => do
    -- _get_axis_info: str -> dims.index (ValueError), int -> as is (NumPy validates later)
    match k with
    | .name s =>
      let p := a.dims.idxOf s
      if p < a.dims.length then pure (a, some p) else .error .value
    | .pos i =>
      let n : Int := a.ndim
      let j := if i < 0 then i + n else i
      if j < 0 || j ≥ n then .error .index else pure (a, some j.toNat)   -- self.axes[idx] -> IndexError
  | .many ks => do
    let names ← ks.mapM (keyName a)
    let o ← flatten a names (some 0)
    pure (o, some 0)

/-- the 1-D fibre of `a` along dimension `pos` through the result index `j` (which lacks `pos`) -/
def fibre {α} (a : DimArray α) (pos : Nat) (j : List Nat) : List α :=
  (List.range (a.vals.shape.getD pos 0)).map fun k => a.vals.get (j.insertIdx pos k)

/-- `apply_along_axis(self, funcname, axis)` for a reduction: `red` stands for the NumPy family
chosen by `_get_func`. Returns `Sum.inl scalar` for axis=None or a 1-D input. -/
def reduceAxis {α} (red : List α → α) (a : DimArray α) (ax : AxisArg) : Except Err (Sum α (DimArray α)) := do
  let (o, idx) ← dealWithAxis a ax
  match idx with
  | none => pure (.inl (red o.vals.toList))
  | some pos =>
    if o.ndim == 1 then pure (.inl (red (fibre o pos [])))
    else
      let newaxes := o.axes.eraseIdx pos
      pure (.inr { axes := newaxes
                   vals := { shape := o.vals.shape.eraseIdx pos, get := fun j => red (fibre o pos j) }
                   vkind := o.vkind, attrs := o.attrs })

/-- cumulative transforms: axes unchanged; cell `k` along the axis is the scan of the fibre prefix -/
def cumAxis {α} (scan : List α → α) (a : DimArray α) (ax : AxisArg) : Except Err (Sum (List α) (DimArray α)) := do
  let (o, idx) ← dealWithAxis a ax
  match idx with
  | none =>
    let l := o.vals.toList
    pure (.inl ((List.range l.length).map fun k => scan (l.take (k + 1))))
  | some pos =>
    pure (.inr { axes := o.axes
                 vals := { shape := o.vals.shape
                           get := fun j => scan ((fibre o pos (j.eraseIdx pos)).take (j.getD pos 0 + 1)) }
                 vkind := o.vkind, attrs := o.attrs })

inductive Scheme | backward | forward | centered
  deriving DecidableEq, Repr, Inhabited

def midLabels (L : List Label) : Option (List Label) :=
  (L.zip L.tail).mapM fun (a, b) => match a, b with
    | .num x, .num y => some (Label.num ((x + y) / 2))
    | _, _ => none

/-- one differencing step (`n = 1`) along `pos` -/
def diff1 {α} (sub : α → α → α) (nan : α) (o : DimArray α) (pos : Nat) (scheme : Scheme) (keepaxis : Bool) :
    Except Err (DimArray α) := do
  let n := o.vals.shape.getD pos 0
  let ax := o.axes.getD pos default
  -- np.diff: out[k] = a[k+1] - a[k]
  let d : NDArr α := { shape := o.vals.shape.set pos (n - 1)
                       get := fun j => sub (o.vals.get (j.set pos (j.getD pos 0 + 1))) (o.vals.get j) }
  let (vals, newax) ← match scheme, keepaxis with
    | .forward, true =>
      if n == 0 then (.error .other : Except Err (NDArr α × Axis)) else     -- padded length 1 vs axis length 0
      pure ({ shape := o.vals.shape, get := fun j => if j.getD pos 0 < n - 1 then d.get j else nan }, { ax with members := [] })
    | .forward, false => pure (d, axisSelect ax (List.range (n - 1)))
    | .backward, true =>
      if n == 0 then .error .other else
      pure ({ shape := o.vals.shape, get := fun j => if j.getD pos 0 == 0 then nan else d.get (j.set pos (j.getD pos 0 - 1)) }, { ax with members := [] })
    | .backward, false => pure (d, axisSelect ax ((List.range (n - 1)).map (· + 1)))
    | .centered, true => .error .value
    | .centered, false =>
      match midLabels ax.labels with
      | some ls => pure (d, { name := ax.name, labels := ls, kind := .f })
      | none => .error .type
  pure { axes := o.axes.set pos newax, vals := vals, vkind := o.vkind, attrs := o.attrs }

/-- `diff(axis, scheme, keepaxis, n)` (recursion on `n`) -/
def diffAxis {α} (sub : α → α → α) (nan : α) (a : DimArray α) (ax : AxisArg) (scheme : Scheme) (keepaxis : Bool) (n : Nat) :
    Except Err (DimArray α) := do
  let (o, idx) ← dealWithAxis a ax
  match idx with
  | none => .error .other      -- np.diff(values, axis=None) is not a DimArray: not modelled
  | some pos =>
    let rec go (k : Nat) (o : DimArray α) : Except Err (DimArray α) :=
      match k with
      | 0 => pure o
      | k + 1 => do let o' ← go k o; diff1 sub nan o' pos scheme keepaxis
    if n == 0 then .error .assertion else go n o

end Lib
end DimModel
